(* Semantics of the TFF fragment of Syntax/Tff.v in the STANDARD structure of anthem's preamble
   (standard_interpretation.p):  $int = Z with its arithmetic and order, `symbol` = strings,
   `general` = gval, f__integer__ = VNum, f__symbolic__ = VSym, c__infimum__/c__supremum__ =
   VInf/VSup, p__less_equal__ = gle, p__less__ = glt, p__greater_equal__/p__greater__ their
   converses, p__is_integer__/p__is_symbolic__ the range tests.  Everything else (the problem's
   own predicates and constants) is interpreted by a [tstruct].
   The second half relates a TFF structure/assignment to a source-level interpretation
   (FI, M, e) of Sem/Sat.v: names carry their sort as the suffix _g/_i/_s. *)
From Coq Require Import List Ascii String ZArith NArith Bool.
From Anthem Require Import Syntax.Fol Syntax.Tff Sem.Domain Sem.Sat.
Import ListNotations.
Open Scope string_scope.
Open Scope list_scope.

(* a value of one of the three TFF types *)
Inductive tval := TI (z : Z) | TS (s : string) | TG (d : gval).

Definition has_type (ty : tff_type) (v : tval) : Prop :=
  match ty, v with TyInt, TI _ | TySymbol, TS _ | TyGeneral, TG _ => True | _, _ => False end.

(* projections; the fall-through cases only matter for ill-typed terms (excluded by C09) *)
Definition as_int (v : tval) : Z := match v with TI z => z | _ => 0%Z end.
Definition as_sym (v : tval) : string := match v with TS s => s | _ => "" end.
Definition as_gen (v : tval) : gval := match v with TG d => d | TI z => VNum z | TS s => VSym s end.

(* the non-fixed part of a TFF interpretation: the problem's predicates and constants *)
Record tstruct := mktstruct {
  t_pred : string -> list tval -> Prop;
  t_const : string -> tval }.
Definition tenv := string -> tval.
Definition tupd (e : tenv) (x : string) (v : tval) : tenv := fun y => if String.eqb y x then v else e y.

(* fixed meaning of the functors of the preamble and of the $int signature *)
Definition std_fun (S : tstruct) (f : string) (args : list tval) : tval :=
  match args with
  | [] => if String.eqb f "c__infimum__" then TG VInf
          else if String.eqb f "c__supremum__" then TG VSup
          else t_const S f
  | [a] => if String.eqb f "f__integer__" then TG (VNum (as_int a))
           else if String.eqb f "f__symbolic__" then TG (VSym (as_sym a))
           else if String.eqb f "$uminus" then TI (- as_int a)
           else TI 0
  | [a; b] => if String.eqb f "$sum" then TI (as_int a + as_int b)
              else if String.eqb f "$difference" then TI (as_int a - as_int b)
              else if String.eqb f "$product" then TI (as_int a * as_int b)
              else TI 0
  | _ => TI 0
  end.

Fixpoint tev (S : tstruct) (e : tenv) (t : tff_term) : tval :=
  match t with
  | TNum n => TI (Z.of_N n)
  | TVar x => e x
  | TApp f args => std_fun S f (map (tev S e) args)
  end.

(* names with a fixed meaning in predicate position *)
Definition reserved_preds : list string :=
  ["$true"; "$false"; "$less"; "$lesseq"; "$greater"; "$greatereq";
   "p__less__"; "p__less_equal__"; "p__greater__"; "p__greater_equal__";
   "p__is_integer__"; "p__is_symbolic__"].
Definition is_reserved_pred (p : string) : bool := existsb (String.eqb p) reserved_preds.

Definition std_pred (S : tstruct) (p : string) (args : list tval) : Prop :=
  if String.eqb p "$true" then True
  else if String.eqb p "$false" then False
  else match args with
  | [a] =>
      if String.eqb p "p__is_integer__" then (exists n, as_gen a = VNum n)
      else if String.eqb p "p__is_symbolic__" then (exists s, as_gen a = VSym s)
      else t_pred S p args
  | [a; b] =>
      if String.eqb p "$less" then (as_int a < as_int b)%Z
      else if String.eqb p "$lesseq" then (as_int a <= as_int b)%Z
      else if String.eqb p "$greater" then (as_int a > as_int b)%Z
      else if String.eqb p "$greatereq" then (as_int a >= as_int b)%Z
      else if String.eqb p "p__less__" then glt (as_gen a) (as_gen b) = true
      else if String.eqb p "p__less_equal__" then gle (as_gen a) (as_gen b) = true
      else if String.eqb p "p__greater__" then glt (as_gen b) (as_gen a) = true
      else if String.eqb p "p__greater_equal__" then gle (as_gen b) (as_gen a) = true
      else t_pred S p args
  | _ => t_pred S p args
  end.

(* typed quantifier blocks bind left to right; each variable ranges over its whole type *)
Fixpoint tqsat (q : quant) (vs : list (string * tff_type)) (k : tenv -> Prop) (e : tenv) : Prop :=
  match vs with
  | [] => k e
  | (x, ty) :: vs' =>
      match q with
      | QForall => forall v, has_type ty v -> tqsat q vs' k (tupd e x v)
      | QExists => exists v, has_type ty v /\ tqsat q vs' k (tupd e x v)
      end
  end.

Fixpoint tff_sat (S : tstruct) (e : tenv) (f : tff_formula) : Prop :=
  match f with
  | TPred p args => std_pred S p (map (tev S e) args)
  | TEq l r => tev S e l = tev S e r
  | TNeq l r => tev S e l <> tev S e r
  | TNot g => ~ tff_sat S e g
  | TBin CAnd l r => tff_sat S e l /\ tff_sat S e r
  | TBin COr l r => tff_sat S e l \/ tff_sat S e r
  | TBin CImp l r => tff_sat S e l -> tff_sat S e r
  | TBin CRimp l r => tff_sat S e r -> tff_sat S e l
  | TBin CIff l r => tff_sat S e l <-> tff_sat S e r
  | TQ q vs g => tqsat q vs (fun e' => tff_sat S e' g) e
  end.

(* ---------- the TFF structure that corresponds to a source interpretation ---------- *)
Definition suffix (s : sort) : string :=
  match s with SGeneral => "_g" | SInteger => "_i" | SSymbol => "_s" end.
Definition ty_of (s : sort) : tff_type :=
  match s with SGeneral => TyGeneral | SInteger => TyInt | SSymbol => TySymbol end.

(* split a name into (prefix, its last two characters) *)
Fixpoint split2 (s : string) : option (string * string) :=
  match s with
  | EmptyString => None
  | String a t =>
      match t with
      | String b EmptyString => Some (EmptyString, s)
      | _ => match split2 t with Some (p, l) => Some (String a p, l) | None => None end
      end
  end.
(* decode "x_g" -> (x, general), "x_i" -> (x, integer), "x_s" -> (x, symbol) *)
Definition decode (n : string) : option (string * sort) :=
  match split2 n with
  | Some (x, l) =>
      if String.eqb l "_g" then Some (x, SGeneral)
      else if String.eqb l "_i" then Some (x, SInteger)
      else if String.eqb l "_s" then Some (x, SSymbol)
      else None
  | None => None
  end.

(* variable X of sort s is the TFF variable X<suffix s>; undecodable names are irrelevant *)
Definition tenv_of (e : env) : tenv := fun n =>
  match decode n with
  | Some (x, SGeneral) => TG (eg e x)
  | Some (x, SInteger) => TI (ei e x)
  | Some (x, SSymbol) => TS (es e x)
  | None => TI 0
  end.
(* ---------- constants are interpreted by their DECLARATION ----------
   An emitted problem declares every constant it uses:
     tff(type_symbol_i, type, a: symbol).                 a SYMBOLIC CONSTANT: denotes itself
     tff(type_function_constant_i, type, n_i: $int).      the PLACEHOLDER n of sort integer
   so the meaning of a constant identifier is given by a constant signature [csig] (built from the
   problem: Model/ProblemPrint.v [problem_csig]; recoverable from the declarations of the emitted
   text: [csig_of_decls]) and NOT guessed from the shape of the name: the symbolic constants
   `a_s`, `pos_i` and every renamed `p__s` denote themselves.  An identifier without an entry is
   interpreted as before by its suffix ([const_by_suffix]: `c_g/_i/_s` = placeholder c, anything
   else = itself); [tstruct_of] is the instance with the empty signature. *)
Inductive cmeaning :=
| CSelf                                   (* a symbolic constant: the symbol with that name *)
| CPlace (c : string) (s : sort).         (* the placeholder c of sort s *)
Definition csig := list (string * cmeaning).
Fixpoint clookup (K : csig) (n : string) : option cmeaning :=
  match K with
  | [] => None
  | (m, k) :: K' => if String.eqb n m then Some k else clookup K' n
  end.
Definition place_val (FI : fint) (c : string) (s : sort) : tval :=
  match s with SGeneral => TG (fg FI c) | SInteger => TI (fi FI c) | SSymbol => TS (fs FI c) end.
Definition const_by_suffix (FI : fint) (n : string) : tval :=
  match decode n with
  | Some (x, s) => place_val FI x s
  | None => TS n
  end.
(* predicates keep their name, all arguments are `general` *)
Definition tstruct_in (K : csig) (FI : fint) (M : pint) : tstruct :=
  mktstruct (fun p args => M p (map as_gen args))
            (fun n => match clookup K n with
                      | Some CSelf => TS n
                      | Some (CPlace c s) => place_val FI c s
                      | None => const_by_suffix FI n
                      end).
(* without declarations: placeholder c of sort s is the TFF constant c<suffix s>; any other
   constant is a symbolic constant and denotes itself *)
Definition tstruct_of (FI : fint) (M : pint) : tstruct := tstruct_in [] FI M.

(* the constant signature a list of TFF declarations determines: anthem names the declaration of
   a symbolic constant `type_symbol_<i>` and that of a placeholder `type_function_constant_<i>`
   (the identifier of a placeholder always carries its sort suffix) *)
Definition decl_meaning (d : tff_decl) : option (string * cmeaning) :=
  match d_sig d with
  | SigFun [] _ =>
      if String.prefix "type_symbol_" (d_name d) then Some (d_ident d, CSelf)
      else if String.prefix "type_function_constant_" (d_name d) then
        match decode (d_ident d) with
        | Some (c, s) => Some (d_ident d, CPlace c s)
        | None => None
        end
      else None
  | _ => None
  end.
Fixpoint csig_of_decls (ds : list tff_decl) : csig :=
  match ds with
  | [] => []
  | d :: ds' => match decl_meaning d with Some e => e :: csig_of_decls ds' | None => csig_of_decls ds' end
  end.

(* EXTRACT: decode suffix clookup csig_of_decls *)
