(* C09, specification: a type checker for TFF problems (the fragment of Syntax/Tff.v).
   [wt_problem tp = true] means:
   - every declared identifier is a TPTP lower_word and is declared exactly once (so no identifier
     has two types), and only declared types are used in signatures;
   - every formula is closed and well-typed: every variable is bound by a typed quantifier (whose
     variables are upper_words and, within one quantifier block, pairwise distinct: tptp4X, E and
     cvc5 accept `![X: t, X: u]: ..` and let the later binder shadow the earlier one, but no
     normative text fixes this, so the strict checker rejects such a block), every functor/predicate is declared (or belongs to the built-in
     $int signature: numerals, $uminus, $sum, $difference, $product, $less, $lesseq, $greater,
     $greatereq, $true, $false) and applied to arguments of the declared types, both sides of an
     (in)equality have the same type;
   - the names of all annotated formulas (declarations included) are lower_words and pairwise
     distinct;
   - exactly one formula has the role conjecture.
   The components are separate boolean functions so that a failure can be attributed. *)
From Coq Require Import List Ascii String ZArith NArith Bool.
From Anthem Require Import Syntax.Fol Syntax.Tff.
Import ListNotations.
Open Scope string_scope.
Open Scope list_scope.

Fixpoint nodupb (l : list string) : bool :=
  match l with [] => true | x :: l' => negb (existsb (String.eqb x) l') && nodupb l' end.

Definition sigs := list (string * tff_sig).
Definition ctx := list (string * tff_type).
Fixpoint lookup {B} (l : list (string * B)) (x : string) : option B :=
  match l with
  | [] => None
  | (y, b) :: l' => if String.eqb x y then Some b else lookup l' x
  end.
(* the computed argument types are exactly the declared ones *)
Fixpoint args_match (got : list (option tff_type)) (want : list tff_type) : bool :=
  match got, want with
  | [], [] => true
  | Some x :: got', y :: want' => tff_type_eqb x y && args_match got' want'
  | _, _ => false
  end.
Definition int_fun1 (f : string) : bool := String.eqb f "$uminus".
Definition int_fun2 (f : string) : bool :=
  String.eqb f "$sum" || String.eqb f "$difference" || String.eqb f "$product".
Definition int_pred2 (p : string) : bool :=
  String.eqb p "$less" || String.eqb p "$lesseq" || String.eqb p "$greater" || String.eqb p "$greatereq".
Definition prop_const (p : string) : bool := String.eqb p "$true" || String.eqb p "$false".

Section Typing.
Variable Sg : sigs.

(* type of a term under the variable context G (innermost binder first); None = ill-typed *)
Fixpoint type_of (G : ctx) (t : tff_term) : option tff_type :=
  match t with
  | TNum _ => Some TyInt
  | TVar x => lookup G x
  | TApp f args =>
      let got := map (type_of G) args in
      if int_fun1 f then (if args_match got [TyInt] then Some TyInt else None)
      else if int_fun2 f then (if args_match got [TyInt; TyInt] then Some TyInt else None)
      else match lookup Sg f with
           | Some (SigFun want res) => if args_match got want then Some res else None
           | _ => None
           end
  end.

Fixpoint wt_formula (G : ctx) (f : tff_formula) : bool :=
  match f with
  | TPred p args =>
      let got := map (type_of G) args in
      if prop_const p then args_match got []
      else if int_pred2 p then args_match got [TyInt; TyInt]
      else match lookup Sg p with
           | Some (SigPred want) => args_match got want
           | _ => false
           end
  | TEq l r | TNeq l r =>
      match type_of G l, type_of G r with
      | Some a, Some b => tff_type_eqb a b
      | _, _ => false
      end
  | TNot g => wt_formula G g
  | TBin _ l r => wt_formula G l && wt_formula G r
  | TQ _ vs g =>
      negb (Nat.eqb (List.length vs) 0) && forallb (fun v => is_upper_word (fst v)) vs
      && nodupb (map fst vs)
      && wt_formula (rev vs ++ G) g
  end.
End Typing.

Definition decl_sigs (tp : tff_problem) : sigs := map (fun d => (d_ident d, d_sig d)) (tp_decls tp).
Definition all_names (tp : tff_problem) : list string :=
  map d_name (tp_decls tp) ++ map n_name (tp_formulas tp).

(* the type behind a tff_type must itself be declared ($int is built in) *)
Definition type_declared (Sg : sigs) (ty : tff_type) : bool :=
  match ty with
  | TyInt => true
  | TyGeneral => match lookup Sg "general" with Some SigType => true | _ => false end
  | TySymbol => match lookup Sg "symbol" with Some SigType => true | _ => false end
  end.
Definition sig_types_ok (Sg : sigs) (s : tff_sig) : bool :=
  match s with
  | SigType => true
  | SigFun args res => forallb (type_declared Sg) args && type_declared Sg res
  | SigPred args => forallb (type_declared Sg) args
  end.

(* the components *)
Definition wt_idents (tp : tff_problem) : bool := forallb (fun d => is_lower_word (d_ident d)) (tp_decls tp).
Definition wt_decl_once (tp : tff_problem) : bool := nodupb (map d_ident (tp_decls tp)).
Definition wt_decl_types (tp : tff_problem) : bool :=
  forallb (fun d => sig_types_ok (decl_sigs tp) (d_sig d)) (tp_decls tp).
Definition wt_names (tp : tff_problem) : bool := forallb is_lower_word (all_names tp).
Definition wt_names_unique (tp : tff_problem) : bool := nodupb (all_names tp).
Definition wt_formulas (tp : tff_problem) : bool :=
  forallb (fun a => wt_formula (decl_sigs tp) [] (n_formula a)) (tp_formulas tp).
Definition conjecture_count (tp : tff_problem) : nat :=
  List.length (filter (fun a => tff_role_eqb (n_role a) RoleConjecture) (tp_formulas tp)).
Definition wt_one_conjecture (tp : tff_problem) : bool := Nat.eqb (conjecture_count tp) 1.

Definition wt_problem (tp : tff_problem) : bool :=
  wt_idents tp && wt_decl_once tp && wt_decl_types tp && wt_names tp && wt_names_unique tp
  && wt_formulas tp && wt_one_conjecture tp.

(* EXTRACT: wt_problem wt_idents wt_decl_once wt_decl_types wt_names wt_names_unique wt_formulas
   wt_one_conjecture wt_formula decl_sigs *)
