(* Three readings of the partial operators `/` and `\` of mini-gringo, side by side.
   Part of the spec layer; definitions only (proofs: Proofs/DivisionDeviation.v).

   Sem/AspRef.v (the oracle of C01 / C04 / C08 and, through tau*, of C02 / C03 / C13 / C19) reads
   `/` and `\` the way anthem itself does: it is a transcription of the formula
   tau_star.rs::construct_partial_function_formula builds,
        exists I J Q R (I = J * Q + R & val_t1(I) & val_t2(J) & J != 0 & R >= 0 & R < J & Z = Q|R),
   i.e. DEFINED ONLY FOR A POSITIVE DIVISOR, floor quotient, non-negative remainder.  The source
   says so itself ("Not Abstract Gringo compliant in negative divisor edge cases").  That reading is
   NOT the one of the language anthem is about.  This file states the two published readings so that
   the difference is a theorem instead of a sentence:

   (a) [qr_ag]  Abstract Gringo (Gebser, Harrison, Kaminski, Lifschitz, Schaub, "Abstract Gringo",
       TPLP 15 (2015)), WRITTEN FROM MEMORY (no network in this environment): for ground terms,
       [t1 / t2] is the set of numerals floor(n1 / n2) for all integers n1 in [t1], n2 in [t2] with
       n2 <> 0.  The remainder `\` is taken to be the matching one, n1 - n2 * floor(n1 / n2) (my
       recollection is that the 2015 paper lists `/` but not `\`; the mini-gringo papers of the
       anthem authors define both operators by one rounding function).  Coq's Z.div / Z.modulo are
       exactly this pair (floor, remainder with the sign of the divisor):
       Proofs/DivisionDeviation.ag_quotient_is_floor.
   (b) [qr_clingo]  what clingo / gringo 5 compute: C integer division, truncation towards zero, the
       remainder has the sign of the dividend: 7/(-2) = -3, (-7)/2 = -3, (-7)\2 = -1, 7\(-2) = 1.
       (From memory as well; this is also the `round` function of Fandinno, Lifschitz, Luehne, Schaub,
       "Verifying tight logic programs with anthem and vampire", TPLP 20 (2020).)  Coq's Z.quot /
       Z.rem: Proofs/DivisionDeviation.clingo_quotient_is_truncation.

   All three agree for n1 >= 0, n2 > 0; anthem = (a) for every n2 > 0; anthem = (b) for n2 > 0 and
   (n1 >= 0 or n2 | n1); (a) and (b) are defined for every n2 <> 0, anthem's reading for no n2 < 0.
   Recorded as finding F24 (known_findings.jsonl). *)
From Coq Require Import List Ascii String ZArith Bool.
From Anthem Require Import Syntax.Fol Syntax.Asp Sem.Domain Sem.Sat Sem.AspRef.
Import ListNotations.
Open Scope string_scope.
Open Scope list_scope.

(* a reading of / and \ : [qr n1 n2 q m] = "n1 / n2 has the value q and n1 \ n2 the value m" *)
Definition divreading := Z -> Z -> Z -> Z -> Prop.

Definition qr_anthem : divreading := fun n1 n2 q m => (n1 = n2 * q + m /\ 0 <= m < n2)%Z.
Definition qr_ag : divreading := fun n1 n2 q m => (n2 <> 0 /\ q = n1 / n2 /\ m = n1 mod n2)%Z.
Definition qr_clingo : divreading := fun n1 n2 q m => (n2 <> 0 /\ q = Z.quot n1 n2 /\ m = Z.rem n1 n2)%Z.

Section Reading.
Variable qr : divreading.

(* AspRef.vals with the two operator cases read through [qr]; every other clause is verbatim *)
Fixpoint vals_with (sg : assignment) (t : term) (v : gval) : Prop :=
  match t with
  | TPre p => v = pval p
  | TVar x => v = sg x
  | TUn AUNeg t1 => exists n, vals_with sg t1 (VNum n) /\ v = VNum (0 - n)
  | TBin AAdd l r => exists n1 n2, vals_with sg l (VNum n1) /\ vals_with sg r (VNum n2) /\ v = VNum (n1 + n2)
  | TBin ASub l r => exists n1 n2, vals_with sg l (VNum n1) /\ vals_with sg r (VNum n2) /\ v = VNum (n1 - n2)
  | TBin AMul l r => exists n1 n2, vals_with sg l (VNum n1) /\ vals_with sg r (VNum n2) /\ v = VNum (n1 * n2)
  | TBin ADiv l r => exists n1 n2 q m, vals_with sg l (VNum n1) /\ vals_with sg r (VNum n2) /\
                       qr n1 n2 q m /\ v = VNum q
  | TBin AMod l r => exists n1 n2 q m, vals_with sg l (VNum n1) /\ vals_with sg r (VNum n2) /\
                       qr n1 n2 q m /\ v = VNum m
  | TBin AInterval l r => exists n1 n2 k, vals_with sg l (VNum n1) /\ vals_with sg r (VNum n2) /\
                       (n1 <= k <= n2)%Z /\ v = VNum k
  end.

(* the remaining definitions of AspRef.v, verbatim, over [vals_with] *)
Definition tuple_vals_with (sg : assignment) (ts : list term) (vs : list gval) : Prop :=
  Forall2 (vals_with sg) ts vs.
Definition bformula_sat_with (W T : pint) (sg : assignment) (b : bformula) : Prop :=
  match b with
  | BLit (mklit SNone a) => exists vs, tuple_vals_with sg (aterms a) vs /\ W (apred a) vs
  | BLit (mklit SNeg a) => exists vs, tuple_vals_with sg (aterms a) vs /\ ~ T (apred a) vs
  | BLit (mklit SDNeg a) => exists vs, tuple_vals_with sg (aterms a) vs /\ ~ ~ T (apred a) vs
  | BCmp c => exists v1 v2, vals_with sg (clhs c) v1 /\ vals_with sg (crhs c) v2 /\
                            rel_sat (arel_to_rel (crel c)) v1 v2 = true
  end.
Definition body_sat_with (W T : pint) (sg : assignment) (b : list bformula) : Prop :=
  Forall (bformula_sat_with W T sg) b.
Definition head_sat_with (W T : pint) (sg : assignment) (h : head) : Prop :=
  match h with
  | HBasic a => forall vs, tuple_vals_with sg (aterms a) vs -> W (apred a) vs
  | HChoice a => forall vs, tuple_vals_with sg (aterms a) vs -> W (apred a) vs \/ ~ T (apred a) vs
  | HFalsity => False
  end.
Definition ref_rule_sat_with (H T : pint) (r : rule) : Prop :=
  forall sg : assignment,
    (body_sat_with H T sg (rbody r) -> head_sat_with H T sg (rhead r)) /\
    (body_sat_with T T sg (rbody r) -> head_sat_with T T sg (rhead r)).
Definition ref_sat_with (H T : pint) (P : program) : Prop := forall r, In r P -> ref_rule_sat_with H T r.
Definition stable_with (T : pint) (P : program) (F : pint) : Prop :=
  (ref_sat_with T T P /\ facts_sat T F) /\
  forall H, sub H T -> ref_sat_with H T P -> facts_sat H F -> forall p a, T p a -> H p a.

(* The class of a deviation.  [reaches bad sg t]: evaluating t under sg (in the reading qr) applies
   `/` or `\` to a dividend n1 and a divisor n2 with [bad n1 n2]. *)
Definition is_divmod (o : abinop) : Prop := o = ADiv \/ o = AMod.
Fixpoint reaches (bad : Z -> Z -> Prop) (sg : assignment) (t : term) : Prop :=
  match t with
  | TPre _ | TVar _ => False
  | TUn _ a => reaches bad sg a
  | TBin o l r =>
      reaches bad sg l \/ reaches bad sg r \/
      (is_divmod o /\ exists n1 n2, vals_with sg l (VNum n1) /\ vals_with sg r (VNum n2) /\ bad n1 n2)
  end.
Definition atom_reaches bad sg (a : atom) : Prop := Exists (reaches bad sg) (aterms a).
Definition bformula_reaches bad sg (b : bformula) : Prop :=
  match b with
  | BLit l => atom_reaches bad sg (latom l)
  | BCmp c => reaches bad sg (clhs c) \/ reaches bad sg (crhs c)
  end.
Definition head_reaches bad sg (h : head) : Prop :=
  match h with HBasic a | HChoice a => atom_reaches bad sg a | HFalsity => False end.
Definition rule_reaches bad sg (r : rule) : Prop :=
  head_reaches bad sg (rhead r) \/ Exists (bformula_reaches bad sg) (rbody r).
(* some ground instance of some rule of P reaches a bad pair *)
Definition program_reaches bad (P : program) : Prop :=
  exists r sg, In r P /\ rule_reaches bad sg r.
End Reading.

Definition vals_ag := vals_with qr_ag.
Definition vals_clingo := vals_with qr_clingo.

(* the two classes of finding F24 *)
Definition neg_divisor (n1 n2 : Z) : Prop := (n2 < 0)%Z.              (* anthem vs Abstract Gringo *)
Definition neg_operand (n1 n2 : Z) : Prop := (n2 < 0 \/ n1 < 0)%Z.    (* anthem vs clingo *)

(* a syntactic sufficient condition for "outside the class neg_divisor, whatever the assignment":
   every divisor is a positive numeral *)
Fixpoint divisors_positive_numerals (t : term) : bool :=
  match t with
  | TPre _ | TVar _ => true
  | TUn _ a => divisors_positive_numerals a
  | TBin o l r =>
      divisors_positive_numerals l && divisors_positive_numerals r &&
      match o with
      | ADiv | AMod => match r with TPre (PNum n2) => (0 <? n2)%Z | _ => false end
      | _ => true
      end
  end.
