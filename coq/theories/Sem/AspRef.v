(* Reference ("paper") semantics of mini-gringo rules over the standard domain: value sets of
   terms, HT satisfaction of ground instances, stable models as equilibrium models.
   This is the ORACLE of C01 / C04 / C08 - part of the trusted spec layer; kept short.

   READING OF / AND \ (finding F24).  n1 / n2 and n1 \ n2 are defined only for n2 > 0, as floor
   quotient and non-negative remainder.  This is ANTHEM'S OWN reading: the two clauses below are a
   transcription of the formula tau_star.rs builds (J != 0 & R >= 0 & R < J; its comment: "Follows
   the corrected arXiv paper ... Not Abstract Gringo compliant in negative divisor edge cases"),
   not the reading of Abstract Gringo (floor for every n2 <> 0) nor of clingo (truncation).  So every
   theorem with this oracle is a statement w.r.t. anthem's own reading of / and \.  The published
   readings, the exact deviation sets and the refutation of C01 for them inside the class are in
   Sem/AspRefGringo.v, Proofs/DivisionDeviation.v and the second half of Properties/C01.v. *)
From Coq Require Import List Ascii String ZArith Bool Lia.
From Anthem Require Import Syntax.Fol Syntax.Asp Sem.Domain Sem.Sat.
Import ListNotations.
Open Scope string_scope.
Open Scope list_scope.

(* an assignment of precomputed terms (= elements of the standard domain) to program variables *)
Definition assignment := string -> gval.

Definition pval (p : pterm) : gval :=
  match p with PInf => VInf | PNum z => VNum z | PSym s => VSym s | PSup => VSup end.

(* [vals sg t v]: v is one of the values of term t under sg *)
Fixpoint vals (sg : assignment) (t : term) (v : gval) : Prop :=
  match t with
  | TPre p => v = pval p
  | TVar x => v = sg x
  | TUn AUNeg t1 => exists n, vals sg t1 (VNum n) /\ v = VNum (0 - n)
  | TBin AAdd l r => exists n1 n2, vals sg l (VNum n1) /\ vals sg r (VNum n2) /\ v = VNum (n1 + n2)
  | TBin ASub l r => exists n1 n2, vals sg l (VNum n1) /\ vals sg r (VNum n2) /\ v = VNum (n1 - n2)
  | TBin AMul l r => exists n1 n2, vals sg l (VNum n1) /\ vals sg r (VNum n2) /\ v = VNum (n1 * n2)
  | TBin ADiv l r => exists n1 n2 q m, vals sg l (VNum n1) /\ vals sg r (VNum n2) /\
                       (n1 = n2 * q + m /\ 0 <= m < n2)%Z /\ v = VNum q
  | TBin AMod l r => exists n1 n2 q m, vals sg l (VNum n1) /\ vals sg r (VNum n2) /\
                       (n1 = n2 * q + m /\ 0 <= m < n2)%Z /\ v = VNum m
  | TBin AInterval l r => exists n1 n2 k, vals sg l (VNum n1) /\ vals sg r (VNum n2) /\
                       (n1 <= k <= n2)%Z /\ v = VNum k
  end.

(* clingo's truncating division, for the record (NOT what anthem implements; see header and
   Sem/AspRefGringo.v qr_clingo, which supersedes these two definitions) *)
Definition trunc_div (n1 n2 : Z) : Z := Z.quot n1 n2.
Definition trunc_mod (n1 n2 : Z) : Z := Z.rem n1 n2.
Example trunc_differs_neg_dividend : trunc_div (-7) 2 = (-3)%Z /\ ((-7) / 2 = -4)%Z.
Proof. split; reflexivity. Qed.
Lemma trunc_agrees n1 n2 : (0 <= n1 -> 0 < n2 -> trunc_div n1 n2 = n1 / n2 /\ trunc_mod n1 n2 = n1 mod n2)%Z.
Proof. intros H1 H2. unfold trunc_div, trunc_mod. split; [apply Z.quot_div_nonneg|apply Z.rem_mod_nonneg]; lia. Qed.

Definition tuple_vals (sg : assignment) (ts : list term) (vs : list gval) : Prop :=
  Forall2 (vals sg) ts vs.

(* body items; W is the world at which positive atoms are read (H "here", T "there") *)
Definition bformula_sat (W T : pint) (sg : assignment) (b : bformula) : Prop :=
  match b with
  | BLit (mklit SNone a) => exists vs, tuple_vals sg (aterms a) vs /\ W (apred a) vs
  | BLit (mklit SNeg a) => exists vs, tuple_vals sg (aterms a) vs /\ ~ T (apred a) vs
  | BLit (mklit SDNeg a) => exists vs, tuple_vals sg (aterms a) vs /\ ~ ~ T (apred a) vs
  | BCmp c => exists v1 v2, vals sg (clhs c) v1 /\ vals sg (crhs c) v2 /\
                            rel_sat (arel_to_rel (crel c)) v1 v2 = true
  end.
Definition body_sat (W T : pint) (sg : assignment) (b : list bformula) : Prop :=
  Forall (bformula_sat W T sg) b.

Definition head_sat (W T : pint) (sg : assignment) (h : head) : Prop :=
  match h with
  | HBasic a => forall vs, tuple_vals sg (aterms a) vs -> W (apred a) vs
  | HChoice a => forall vs, tuple_vals sg (aterms a) vs -> W (apred a) vs \/ ~ T (apred a) vs
  | HFalsity => False
  end.

(* HT satisfaction of a rule: every ground instance, in both worlds *)
Definition ref_rule_sat (H T : pint) (r : rule) : Prop :=
  forall sg : assignment,
    (body_sat H T sg (rbody r) -> head_sat H T sg (rhead r)) /\
    (body_sat T T sg (rbody r) -> head_sat T T sg (rhead r)).
Definition ref_sat (H T : pint) (P : program) : Prop := forall r, In r P -> ref_rule_sat H T r.

(* extra facts: a set of ground atoms added to the program *)
Definition facts_sat (W : pint) (F : pint) : Prop := forall p a, F p a -> W p a.

(* T is a stable model of P together with the facts F *)
Definition stable (T : pint) (P : program) (F : pint) : Prop :=
  (ref_sat T T P /\ facts_sat T F) /\
  forall H, sub H T -> ref_sat H T P -> facts_sat H F -> forall p a, T p a -> H p a.

(* equilibrium models of a target-language theory together with the facts F *)
Definition theory_hsat (FI : fint) (H T : pint) (G : theory) : Prop :=
  forall f, In f G -> hvalid FI H T f.
Definition equilibrium (FI : fint) (T : pint) (G : theory) (F : pint) : Prop :=
  (theory_hsat FI T T G /\ facts_sat T F) /\
  forall H, sub H T -> theory_hsat FI H T G -> facts_sat H F -> forall p a, T p a -> H p a.
