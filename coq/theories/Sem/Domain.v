(* The standard domain of the target language: #inf < integers < symbolic constants < #sup,
   integers by value, symbols by the lexicographic byte order of their names. *)
From Coq Require Import List Ascii String ZArith Bool Lia.
From Anthem Require Import Syntax.Fol.
Import ListNotations.
Open Scope string_scope.
Open Scope list_scope.

Inductive gval := VInf | VNum (z : Z) | VSym (s : string) | VSup.

Definition gval_dec (a b : gval) : {a = b} + {a <> b}.
Proof. decide equality; auto using Z.eq_dec, string_dec. Defined.

Definition gval_eqb (a b : gval) : bool :=
  match a, b with
  | VInf, VInf | VSup, VSup => true
  | VNum x, VNum y => (x =? y)%Z
  | VSym x, VSym y => String.eqb x y
  | _, _ => false end.
Lemma gval_eqb_spec a b : reflect (a = b) (gval_eqb a b).
Proof.
  destruct a, b; cbn; try (constructor; congruence).
  - destruct (Z.eqb_spec z z0); constructor; congruence.
  - destruct (String.eqb_spec s s0); constructor; congruence.
Qed.

Definition gle (a b : gval) : bool :=
  match a, b with
  | VInf, _ => true | _, VSup => true
  | VNum x, VNum y => (x <=? y)%Z
  | VNum _, VSym _ => true
  | VSym x, VSym y => String.leb x y
  | _, _ => false end.
Definition glt (a b : gval) : bool := gle a b && negb (gval_eqb a b).

Definition rel_sat (r : rel) (a b : gval) : bool :=
  match r with
  | REq => gval_eqb a b | RNe => negb (gval_eqb a b)
  | RLe => gle a b | RGe => gle b a
  | RLt => glt a b
  | RGt => glt b a end.

Definition in_sort (s : sort) (d : gval) : Prop :=
  match s, d with
  | SGeneral, _ => True | SInteger, VNum _ => True | SSymbol, VSym _ => True
  | _, _ => False end.
Definition in_sortb (s : sort) (d : gval) : bool :=
  match s, d with
  | SGeneral, _ => true | SInteger, VNum _ => true | SSymbol, VSym _ => true
  | _, _ => false end.
Lemma in_sortb_spec s d : reflect (in_sort s d) (in_sortb s d).
Proof. destruct s, d; cbn; constructor; auto. Qed.

(* ---- order facts ---- *)
Lemma ascii_compare_refl a : Ascii.compare a a = Eq.
Proof. unfold Ascii.compare. apply N.compare_refl. Qed.
Lemma string_compare_refl s : String.compare s s = Eq.
Proof. induction s as [|a s IH]; cbn; auto. rewrite ascii_compare_refl; auto. Qed.
Lemma string_leb_refl s : String.leb s s = true.
Proof. unfold String.leb. rewrite string_compare_refl; auto. Qed.

Lemma ascii_compare_lt_trans a b c :
  Ascii.compare a b = Lt -> Ascii.compare b c = Lt -> Ascii.compare a c = Lt.
Proof. unfold Ascii.compare. rewrite !N.compare_lt_iff. lia. Qed.

Lemma string_compare_lt_trans : forall s1 s2 s3,
  String.compare s1 s2 = Lt -> String.compare s2 s3 = Lt -> String.compare s1 s3 = Lt.
Proof.
  induction s1 as [|a s1 IH]; intros [|b s2] [|c s3]; cbn; try congruence.
  destruct (Ascii.compare a b) eqn:Eab; try congruence;
  destruct (Ascii.compare b c) eqn:Ebc; try congruence; intros H1 H2.
  - apply Ascii.compare_eq_iff in Eab, Ebc; subst. rewrite ascii_compare_refl. eauto.
  - apply Ascii.compare_eq_iff in Eab; subst. rewrite Ebc; auto.
  - apply Ascii.compare_eq_iff in Ebc; subst. rewrite Eab; auto.
  - rewrite (ascii_compare_lt_trans _ _ _ Eab Ebc); auto.
Qed.

Lemma string_leb_trans s1 s2 s3 :
  String.leb s1 s2 = true -> String.leb s2 s3 = true -> String.leb s1 s3 = true.
Proof.
  unfold String.leb.
  destruct (String.compare s1 s2) eqn:E12; try congruence;
  destruct (String.compare s2 s3) eqn:E23; try congruence; intros _ _.
  - apply String.compare_eq_iff in E12, E23; subst. rewrite string_compare_refl; auto.
  - apply String.compare_eq_iff in E12; subst. rewrite E23; auto.
  - apply String.compare_eq_iff in E23; subst. rewrite E12; auto.
  - rewrite (string_compare_lt_trans _ _ _ E12 E23); auto.
Qed.

Lemma gle_refl a : gle a a = true.
Proof. destruct a; cbn; auto using string_leb_refl. apply Z.leb_refl. Qed.
Lemma gle_trans a b c : gle a b = true -> gle b c = true -> gle a c = true.
Proof.
  destruct a, b, c; cbn; try congruence; auto.
  - rewrite !Z.leb_le; lia.
  - apply string_leb_trans.
Qed.
Lemma gle_antisym a b : gle a b = true -> gle b a = true -> a = b.
Proof.
  destruct a, b; cbn; try congruence; auto.
  - rewrite !Z.leb_le; intros; f_equal; lia.
  - intros H1 H2; f_equal; apply String.leb_antisym; auto.
Qed.
Lemma gle_total a b : gle a b = true \/ gle b a = true.
Proof.
  destruct a, b; cbn; auto.
  - rewrite !Z.leb_le; lia.
  - apply String.leb_total.
Qed.
Lemma gval_eqb_refl a : gval_eqb a a = true.
Proof. destruct (gval_eqb_spec a a); congruence. Qed.
Lemma gval_eqb_sym a b : gval_eqb a b = gval_eqb b a.
Proof. destruct (gval_eqb_spec a b), (gval_eqb_spec b a); congruence. Qed.

(* EXTRACT: rel_sat in_sortb gval_dec *)
