(* Round trip for formulas at token level, Pratt part: the item view of the printer, and the proof that the
   printed items of a formula are a printed form (FolPrattOk.Pr) over the REAL tables of Gen/TablesFol.v.
   The facts about the tables are obtained by computation on the generated definitions. *)
From Coq Require Import List Ascii String ZArith NArith Bool Arith Lia.
From Anthem Require Import Syntax.Fol Gen.TablesFol Model.FolPrint Model.FolLex Model.FolPratt Model.FolParse
  Model.FolClass Proofs.FolPrattOk Proofs.FolTermRT.
Import ListNotations.
Open Scope list_scope.

Inductive fit := FIAtom (a : aformula) | FIGroup (g : formula) | FIPre (p : fpre) | FIIn (c : bconn).
Definition to_fp (i : fit) : fpitem :=
  match i with FIAtom a => PPrim (FAtomic a) | FIGroup g => PPrim g | FIPre p => PPre p | FIIn c => PIn c end.
Definition fpre_toks (p : fpre) : list token :=
  match p with PNot => [TWord "not"] | PQuant q vs => print_quantification false q vs end.
Definition fflat1 (i : fit) : list token :=
  match i with
  | FIAtom a => print_atomic false a
  | FIGroup g => TLParen :: print_formula false g ++ [TRParen]
  | FIPre p => fpre_toks p
  | FIIn c => [conn_tok c]
  end.
Definition fflat (l : list fit) : list token := flat_map fflat1 l.
Lemma fflat_app a b : fflat (a ++ b) = fflat a ++ fflat b.
Proof. unfold fflat. apply flat_map_app. Qed.

Definition fwrap (b : bool) (items : list fit) (g : formula) : list fit := if b then [FIGroup g] else items.
Fixpoint fitems (f : formula) : list fit :=
  match f with
  | FAtomic a => [FIAtom a]
  | FNot g => FIPre PNot :: fwrap (un_paren f g) (fitems g) g
  | FQ q vs g => FIPre (PQuant q vs) :: fwrap (q_paren f g) (fitems g) g
  | FBin c l r => fwrap (lhs_paren f l) (fitems l) l ++ FIIn c :: fwrap (rhs_paren f r) (fitems r) r
  end.

Lemma fassoc_prefix f : match f with FNot _ | FQ _ _ _ => fassoc f = Some ALeft | _ => True end.
Proof. destruct f; try exact I; reflexivity. Qed.

Lemma print_formula_items f : print_formula false f = fflat (fitems f).
Proof.
  induction f as [a|g IH|c l IHl r IHr|q vs g IH].
  - cbn. rewrite app_nil_r. reflexivity.
  - cbn [print_formula fitems]. change (fassoc (FNot g)) with (Some ALeft).
    cbn [fmt_unary is_left is_right tsp app]. rewrite app_nil_r.
    cbn [fflat flat_map fflat1 fpre_toks app]. fold (fflat (fwrap (un_paren (FNot g) g) (fitems g) g)).
    unfold fwrap, un_paren, parens. destruct (paren_unary _ _ _); cbn [fflat flat_map fflat1 app];
      rewrite ?app_nil_r, ?IH; reflexivity.
  - cbn [print_formula fitems tsp app]. rewrite fflat_app. cbn [fflat flat_map fflat1 app]. fold fflat.
    unfold fwrap, lhs_paren, rhs_paren, parens.
    destruct (paren_lhs _ _ _ _), (paren_rhs _ _ _ _); cbn [fflat flat_map fflat1 app];
      rewrite ?app_nil_r, ?IHl, ?IHr; reflexivity.
  - cbn [print_formula fitems tsp app].
    cbn [fflat flat_map fflat1 fpre_toks]. fold (fflat (fwrap (q_paren (FQ q vs g) g) (fitems g) g)).
    rewrite <- orb_assoc. change (begins_with_variable (render (print_formula true g)) || (fmand g || (fprec (FQ q vs g) <? fprec g)%nat))
      with (q_paren (FQ q vs g) g).
    unfold fwrap, parens. destruct (q_paren _ _); cbn [fflat flat_map fflat1 app]; rewrite ?app_nil_r, ?IH; reflexivity.
Qed.

(* ---------- Pratt level ---------- *)
Definition fpn : nat := match formula_pre_bp PNot with Some p => p | None => 0 end.
Definition flvl (f : formula) : nat :=
  match f with FBin c _ _ => match formula_in_bp c with Some (p, _) => p | None => 0 end | _ => fpn end.
Definition fflw (f : formula) : nat :=
  match f with FBin c _ _ => match formula_in_bp c with Some (p, a) => rhs_bp p a | None => 0 end | _ => fpn - 1 end.
Definition fmk_bin (c : bconn) (l r : formula) : formula := FBin c l r.
Notation FPr := (Pr formula fpre bconn mk_fpre fmk_bin formula_pre_bp formula_in_bp).

Lemma formula_pre_bp_all p : formula_pre_bp p = Some fpn.
Proof. destruct p; reflexivity. Qed.

Lemma FPr_pre p g is lv fl lv' : FPr g is lv fl -> fpn - 1 < lv -> FPr (mk_fpre p g) (PPre p :: is) lv' (Nat.min fl (fpn - 1)).
Proof. intros H1 H2. exact (Pr_pre _ _ _ mk_fpre fmk_bin _ _ p g is lv fl fpn lv' (formula_pre_bp_all p) H1 H2). Qed.
Lemma FPr_bin c l r isl isr lvl fll lvr flr p a :
  formula_in_bp c = Some (p, a) -> FPr l isl lvl fll -> FPr r isr lvr flr -> p <= lvl -> p <= fll -> rhs_bp p a < lvr ->
  FPr (FBin c l r) (isl ++ PIn c :: isr) p (Nat.min (rhs_bp p a) flr).
Proof. intros. exact (Pr_bin _ _ _ mk_fpre fmk_bin _ _ c l r isl isr lvl fll lvr flr p a H H0 H1 H2 H3 H4). Qed.

Lemma map_fwrap b g : map to_fp (fwrap b (fitems g) g) = if b then [PPrim g] else map to_fp (fitems g).
Proof. destruct b; reflexivity. Qed.

(* an operand printed without parentheses under a prefix operator is atomic or itself a prefix form *)
Lemma un_paren_false f g : match f with FNot _ | FQ _ _ _ => True | _ => False end ->
  un_paren f g = false -> match g with FBin _ _ _ => False | _ => True end.
Proof.
  intros Hf W. destruct g as [a|g'|c l r|q vs g']; try exact I.
  destruct f; try tauto; destruct c; vm_compute in W; discriminate.
Qed.

Lemma Pr_prefix_operand f g (b : bool) :
  match f with FNot _ | FQ _ _ _ => True | _ => False end ->
  (b = false -> un_paren f g = false) ->
  FPr g (map to_fp (fitems g)) (flvl g) (fflw g) ->
  exists lv fl, FPr g (if b then [PPrim g] else map to_fp (fitems g)) lv fl /\ fpn - 1 < lv /\ fpn - 1 <= fl.
Proof.
  intros Hf Hb IH. destruct b.
  - exists fpn, (fpn - 1). split; [constructor|]. vm_compute. lia.
  - exists (flvl g), (fflw g). split; [exact IH|].
    pose proof (un_paren_false f g Hf (Hb eq_refl)) as Hg.
    destruct g; try tauto; vm_compute; lia.
Qed.

Lemma Pr_formula f : FPr f (map to_fp (fitems f)) (flvl f) (fflw f).
Proof.
  induction f as [a|g IH|c l IHl r IHr|q vs g IH].
  - constructor.
  - cbn [fitems map to_fp]. rewrite map_fwrap.
    destruct (Pr_prefix_operand (FNot g) g (un_paren (FNot g) g) I (fun H => H) IH) as (lv & fl & P & H1 & H2).
    eapply Pr_weaken; [exact (FPr_pre PNot g _ lv fl fpn P H1)|cbn; lia|].
    cbn [fflw]. apply Nat.min_glb; lia.
  - cbn [fitems]. rewrite map_app. cbn [map to_fp]. rewrite !map_fwrap.
    destruct (formula_in_bp c) as [[p a]|] eqn:Hp; [|destruct c; discriminate].
    set (bl := lhs_paren _ _). set (br := rhs_paren _ _).
    assert (HL : exists lvl fll, FPr l (if bl then [PPrim l] else map to_fp (fitems l)) lvl fll /\ p <= lvl /\ p <= fll).
    { destruct bl eqn:W.
      - exists p, p. split; [constructor|lia].
      - exists (flvl l), (fflw l). split; [exact IHl|]. subst bl.
        destruct c, l as [?|?|[] ? ?|? ? ?]; vm_compute in Hp; injection Hp as <- <-;
          try (vm_compute; lia); vm_compute in W; discriminate. }
    assert (HR : exists lvr flr, FPr r (if br then [PPrim r] else map to_fp (fitems r)) lvr flr /\ rhs_bp p a < lvr /\ rhs_bp p a <= flr).
    { destruct br eqn:W.
      - exists (S (rhs_bp p a)), (rhs_bp p a). split; [constructor|lia].
      - exists (flvl r), (fflw r). split; [exact IHr|]. subst br.
        destruct c, r as [?|?|[] ? ?|? ? ?]; vm_compute in Hp; injection Hp as <- <-;
          try (vm_compute; lia); vm_compute in W; discriminate. }
    destruct HL as (lvl & fll & PL & L1 & L2). destruct HR as (lvr & flr & PR & R1 & R2).
    eapply Pr_weaken; [exact (FPr_bin c l r _ _ lvl fll lvr flr p a Hp PL PR L1 L2 R1)| |].
    + cbn [flvl]. rewrite Hp. lia.
    + cbn [fflw]. rewrite Hp. lia.
  - cbn [fitems map to_fp]. rewrite map_fwrap.
    assert (Hb : q_paren (FQ q vs g) g = false -> un_paren (FQ q vs g) g = false).
    { unfold q_paren. intros H. apply orb_false_elim in H. tauto. }
    destruct (Pr_prefix_operand (FQ q vs g) g (q_paren (FQ q vs g) g) I Hb IH) as (lv & fl & P & H1 & H2).
    eapply Pr_weaken; [exact (FPr_pre (PQuant q vs) g _ lv fl fpn P H1)|cbn; lia|].
    cbn [fflw]. apply Nat.min_glb; lia.
Qed.

Lemma flvl_pos f : 0 < flvl f.
Proof. destruct f as [?|?|[] ? ?|? ? ?]; vm_compute; lia. Qed.

Lemma pratt_formula_items f : pratt_formula (map to_fp (fitems f)) = Some f.
Proof.
  unfold pratt_formula. change (fun (c : bconn) (l r : formula) => FBin c l r) with fmk_bin.
  eapply pratt_ok; [apply Pr_formula|apply flvl_pos].
Qed.
