(* C20, third sentence (audit A12): swapping the two programs of a strong-equivalence task and the
   direction gives the same obligations.

     problems (strong, [B; A], forward)   vs   problems (strong, [A; B], backward)

   On disk the two families differ in the `left_` / `right_` prefixes of the formula names, in the
   problem names (`forward_..` / `backward_..`) and in the ORDER of the type declarations and
   transition axioms (predicates are collected left program first): 59 of 68 generated pairs
   differ there (docs/C20.md).  What is invariant is the REFUTATION SET: the same interpretations
   refute some problem of the one family and some problem of the other.  Proved for the end-to-end
   model Model/StrongFull.v (every flag, every fuel) from C03_forward / C03_backward: both sets
   are "the h-extents are included in the t-extents, (H,T) satisfies B and not A". *)
From Coq Require Import List String ZArith Bool.
From Anthem Require Import Base.ISet Syntax.Fol Syntax.Asp Sem.Domain Sem.Sat Sem.AspRef
  Model.Problem Model.Strong Model.StrongFull
  Proofs.SemBase Proofs.DecomposeOk Proofs.StrongOk Proofs.StrongFullOk.
Import ListNotations.

Definition swap_forward (A B : program) dec repr simp brk : strong_task := mkstrong B A dec DForward repr simp brk.
Definition swap_backward (A B : program) dec repr simp brk : strong_task := mkstrong A B dec DBackward repr simp brk.

Lemma strong_predicates_sym L R p : In p (strong_predicates L R) <-> In p (strong_predicates R L).
Proof. unfold strong_predicates. rewrite !(in_iset_extend pred_dec). tauto. Qed.
Lemma sub_on_swap L R H T : sub_on (strong_predicates L R) H T <-> sub_on (strong_predicates R L) H T.
Proof. unfold sub_on. split; intros Hs p a Hin; apply Hs; apply strong_predicates_sym; exact Hin. Qed.

Theorem swap_refutes fuel A B dec repr simp brk pbs pbs' :
  strong_decompose_full_fuel fuel (swap_forward A B dec repr simp brk) = SOk pbs ->
  strong_decompose_full_fuel fuel (swap_backward A B dec repr simp brk) = SOk pbs' ->
  no_symbol_pred_clash_full_fuel fuel (swap_forward A B dec repr simp brk) ->
  no_symbol_pred_clash_full_fuel fuel (swap_backward A B dec repr simp brk) ->
  forall FI M, refutes_some FI M pbs <-> refutes_some FI M pbs'.
Proof.
  intros E E' Hc Hc' FI M.
  rewrite (C03_forward_fuel_proof fuel FI M (swap_forward A B dec repr simp brk) pbs eq_refl E Hc).
  rewrite (C03_backward_fuel_proof fuel FI M (swap_backward A B dec repr simp brk) pbs' eq_refl E' Hc').
  cbn [swap_forward swap_backward st_left st_right]. rewrite (sub_on_swap B A). reflexivity.
Qed.

(* the model accepts the one task iff it accepts the other (each program goes through the same
   stages; only the order in which the two are processed differs) *)
Theorem swap_accepts fuel A B dec repr simp brk :
  (exists pbs, strong_decompose_full_fuel fuel (swap_forward A B dec repr simp brk) = SOk pbs) <->
  (exists pbs, strong_decompose_full_fuel fuel (swap_backward A B dec repr simp brk) = SOk pbs).
Proof.
  unfold strong_decompose_full_fuel, swap_forward, swap_backward.
  cbn [st_left st_right st_repr st_simplify st_break st_direction st_decomposition].
  destruct (repr_full repr B) as [b0| |]; destruct (repr_full repr A) as [a0| |]; cbn [sbind];
    try (split; intros [pbs H]; discriminate).
  destruct (stage simp simp_ht_full b0) as [b1| |]; destruct (stage simp simp_ht_full a0) as [a1| |]; cbn [sbind];
    try (split; intros [pbs H]; discriminate).
  destruct (stage simp (simp_classic_full_fuel fuel) (Gamma.gamma_theory b1)) as [b3| |];
    destruct (stage simp (simp_classic_full_fuel fuel) (Gamma.gamma_theory a1)) as [a3| |]; cbn [sbind];
    try (split; intros [pbs H]; discriminate).
  split; intros _; eexists; reflexivity.
Qed.
