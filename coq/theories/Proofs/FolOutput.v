(* C15, second sentence ("this holds in particular for everything the translate and simplify commands
   print"): the OUTPUT of tau* is well-formed (wf_theory) and outside the recorded defect classes
   (known_class_theory = None) whenever the names of the program are lexically valid for the target
   language and no predicate name begins with a keyword literal (class F7b); hence its printed text
   re-parses to the same theory (Proofs/FolLexOk.text_theory).
   tau* never produces `<-`, so class C15-RIMP cannot occur; every comparison it produces begins with a
   variable, so the only identifiers in formula-start position are the program's predicate names. *)
From Coq Require Import List Ascii String ZArith NArith Bool Lia.
From Anthem Require Import Base.ISet Base.Fresh Syntax.Fol Syntax.Asp Model.FreshNames Model.TauStar
  Model.FolLex Model.FolParse Model.FolPrint Model.FolClass Model.CliOut
  Proofs.FreshNamesOk Proofs.ExtendAll Proofs.FolLexRT Proofs.FolLexOk Proofs.TauStarRule.
Import ListNotations.
Open Scope string_scope.
Open Scope list_scope.

(* ------------------------------------------------------------------ the invariant *)
Fixpoint no_rimp (f : formula) : bool :=
  match f with
  | FAtomic _ => true
  | FNot g => no_rimp g
  | FQ _ _ g => no_rimp g
  | FBin c l r => (match c with CRimp => false | _ => true end) && no_rimp l && no_rimp r
  end.

Lemma no_rimp_rimp_neg f : no_rimp f = true -> rimp_neg f = false.
Proof.
  induction f as [a|g IH|c l IHl r IHr|q vs g IH]; cbn [no_rimp rimp_neg]; auto.
  intros H. apply andb_true_iff in H. destruct H as [H Hr]. apply andb_true_iff in H. destruct H as [Hc Hl].
  rewrite (IHl Hl), (IHr Hr). destruct c; try reflexivity. discriminate.
Qed.

Definition Good (f : formula) : Prop :=
  wf_formula f = true /\ keyword_ident f = false /\ no_rimp f = true.

Lemma Good_known_class f : Good f -> wf_formula f = true /\ known_class f = None.
Proof.
  intros (W & K & R). split; [exact W|]. unfold known_class. rewrite K, (no_rimp_rimp_neg _ R). reflexivity.
Qed.

Lemma Forall_Good_theory (G : theory) : Forall Good G -> wf_theory G = true /\ known_class_theory G = None.
Proof.
  induction 1 as [|f G Hf _ IH]; [split; reflexivity|].
  destruct (Good_known_class _ Hf) as [W K]. destruct IH as [WG KG].
  unfold wf_theory, known_class_theory in *. cbn [forallb first_some]. rewrite W, K, WG, KG. split; reflexivity.
Qed.

Lemma Good_bin c l r : c <> CRimp -> Good l -> Good r -> Good (FBin c l r).
Proof.
  intros Hc (W1 & K1 & R1) (W2 & K2 & R2). unfold Good. cbn [wf_formula keyword_ident no_rimp].
  rewrite W1, W2, K1, K2, R1, R2. destruct c; try contradiction; repeat split; reflexivity.
Qed.
Lemma Good_and l r : Good l -> Good r -> Good (FBin CAnd l r).
Proof. apply Good_bin. discriminate. Qed.
Lemma Good_imp l r : Good l -> Good r -> Good (FBin CImp l r).
Proof. apply Good_bin. discriminate. Qed.
Lemma Good_not g : Good g -> Good (FNot g).
Proof. intros H. exact H. Qed.
Lemma Good_true : Good ftrue. Proof. repeat split. Qed.
Lemma Good_false : Good ffalse. Proof. repeat split. Qed.

Lemma Good_fold_and xs : forall acc, Good acc -> Forall Good xs ->
  Good (fold_left (fun acc e => FBin CAnd acc e) xs acc).
Proof.
  induction xs as [|x xs IH]; intros acc Ha Hx; cbn [fold_left]; [exact Ha|].
  inversion Hx; subst. apply IH; [apply Good_and; assumption|assumption].
Qed.
Lemma Good_conjoin l : Forall Good l -> Good (conjoin l).
Proof.
  unfold conjoin, reduce_bin. destruct l as [|x xs]; intros H; [apply Good_true|].
  inversion H; subst. apply Good_fold_and; assumption.
Qed.

Lemma Good_quant q vs g : vs <> [] -> Forall (fun v => wf_var v = true) vs -> Good g -> Good (FQ q vs g).
Proof.
  intros Hne Hvs (W & K & R). unfold Good. cbn [wf_formula keyword_ident no_rimp].
  assert (forallb wf_var vs = true) as -> by (apply forallb_forall; apply Forall_forall; exact Hvs).
  rewrite W. destruct vs; [contradiction|]. repeat split; assumption.
Qed.

(* a comparison whose first term is a variable: nothing in formula-start position *)
Definition var_led (t : gterm) : Prop :=
  match t with GVar _ | GInt (IVar _) | GSym (SVar _) => True | _ => False end.
Lemma Good_cmp t gs : var_led t -> wf_gterm t = true -> gs <> [] ->
  Forall (fun g => wf_gterm (gterm_of g) = true) gs -> Good (FAtomic (ACmp t gs)).
Proof.
  intros Hl Wt Hne Hgs. unfold Good. cbn [wf_formula wf_atomic keyword_ident no_rimp].
  rewrite Wt. assert (forallb wf_guard gs = true) as ->
    by (apply forallb_forall; apply Forall_forall; exact Hgs).
  split; [destruct gs; [contradiction|reflexivity]|]. split; [|reflexivity].
  unfold kwi_atomic. cbn [print_atomic].
  destruct t as [| |c|x|[z|c|x|o a|o l r]|[s|c|x]]; try contradiction; reflexivity.
Qed.

Lemma var_led_var z : var_led (var_to_gterm z).
Proof. unfold var_to_gterm. destruct (vsort z); exact I. Qed.
Lemma wf_var_to_gterm z : wf_var z = true -> wf_gterm (var_to_gterm z) = true.
Proof. unfold wf_var, var_to_gterm. destruct (vsort z); cbn; auto. Qed.

Lemma Good_eq_formula z rhs : wf_var z = true -> wf_gterm rhs = true ->
  Good (eq_formula (z_var_term z) rhs).
Proof.
  intros Wz Wr. unfold eq_formula, z_var_term. apply Good_cmp.
  - apply var_led_var.
  - apply wf_var_to_gterm, Wz.
  - discriminate.
  - constructor; [exact Wr|constructor].
Qed.

(* ------------------------------------------------------------------ names *)
Lemma chars_app (a b : string) : chars (a ++ b)%string = chars a ++ chars b.
Proof. unfold chars. induction a as [|c a IH]; cbn; [reflexivity|]. now rewrite IH. Qed.

Lemma digit_wordchar c : is_digit c = true -> is_wordchar c = true.
Proof. unfold is_wordchar. intros ->. reflexivity. Qed.

Lemma upper_not_lower c : is_upper c = true -> is_lower c = false.
Proof.
  unfold is_upper, is_lower, code_in, code. cbv zeta. intros H.
  apply andb_true_iff in H. destruct H as [_ H]. apply Nat.leb_le in H.
  apply andb_false_iff. left. apply Nat.leb_gt. lia.
Qed.

(* a one-letter upper-case variant followed by a decimal numeral is a variable name *)
Lemma variable_name_numbered (c : ascii) k : is_upper c = true ->
  is_variable_name (String c EmptyString ++ nat_str k)%string = true.
Proof.
  intros Hu. unfold is_variable_name. rewrite chars_app.
  change (chars (String c EmptyString)) with [c]. cbn [app all_wordchars forallb word_class].
  pose proof (upper_not_lower c Hu) as Hl.
  rewrite Hl, Hu. unfold is_wordchar. rewrite Hu, orb_true_r. cbn [orb andb].
  rewrite andb_true_r.
  pose proof (nat_str_digits k) as D. apply forallb_forall. intros x Hx.
  apply digit_wordchar. rewrite forallb_forall in D. apply D, Hx.
Qed.
Lemma variable_name_letter (c : ascii) : is_upper c = true -> is_variable_name (String c EmptyString) = true.
Proof.
  intros Hu. unfold is_variable_name. change (chars (String c EmptyString)) with [c].
  cbn [all_wordchars forallb word_class].
  pose proof (upper_not_lower c Hu) as Hl.
  rewrite Hl, Hu. unfold is_wordchar. rewrite Hu, orb_true_r. reflexivity.
Qed.

(* the shape of everything choose_fresh_variable_names returns *)
Definition numbered (v x : string) : Prop := x = v \/ exists k, x = (v ++ nat_str k)%string.

Lemma cfv_candidate_numbered taken fresh v n : numbered v (cfv_candidate taken fresh v n).
Proof.
  unfold cfv_candidate.
  destruct (find_fresh_by _ v (cfv_bad taken fresh) n) as [[c k]|] eqn:E.
  - apply find_fresh_by_sound in E. destruct E as (_ & -> & _). right. eauto.
  - right. eauto.
Qed.
Lemma cfv_loop_numbered taken v count : forall n fresh,
  Forall (numbered v) fresh -> Forall (numbered v) (cfv_loop taken v count n fresh).
Proof.
  induction count as [|c IH]; intros n fresh H; cbn [cfv_loop]; [exact H|].
  apply IH. apply Forall_app. split; [exact H|]. constructor; [apply cfv_candidate_numbered|constructor].
Qed.
Lemma choose_fresh_numbered taken v n : Forall (numbered v) (choose_fresh_variable_names taken v n).
Proof.
  unfold choose_fresh_variable_names. destruct n as [|a]; [constructor|].
  destruct (memb string_dec v taken).
  - apply cfv_loop_numbered. constructor.
  - apply cfv_loop_numbered. constructor; [left; reflexivity|constructor].
Qed.
Lemma fresh_one_numbered taken v : numbered v (fresh_one taken v).
Proof.
  pose proof (choose_fresh_numbered taken v 1) as H. rewrite fresh_one_in in H. inversion H; assumption.
Qed.

Lemma numbered_variable_name (c : ascii) x : is_upper c = true ->
  numbered (String c EmptyString) x -> is_variable_name x = true.
Proof.
  intros Hu [->|[k ->]]; [apply variable_name_letter|apply variable_name_numbered]; exact Hu.
Qed.

(* ------------------------------------------------------------------ the program side *)
(* every name of the program is lexically valid in the target language, numerals are in isize
   (what the program parser guarantees, see [parsed_program_names_ok]) *)
(* ------------------------------------------------------------------ val *)
Lemma fresh_letter_wf taken (c : ascii) : is_upper c = true ->
  is_variable_name (fresh_one taken (String c EmptyString)) = true.
Proof. intros Hu. eapply numbered_variable_name; [exact Hu|apply fresh_one_numbered]. Qed.

Lemma Good_equality t z : ok_term t = true -> wf_var z = true -> Good (construct_equality_formula t z).
Proof.
  intros Ht Wz. unfold construct_equality_formula. apply Good_eq_formula; [exact Wz|].
  destruct t as [[|n|s|]|x|o a|o l r]; cbn in *; auto.
Qed.

Lemma Good_total valti valtj o i_var j_var z :
  Good valti -> Good valtj -> wf_var i_var = true -> wf_var j_var = true -> wf_var z = true ->
  Good (construct_total_function_formula valti valtj o i_var j_var z).
Proof.
  intros Gi Gj Wi Wj Wz. unfold construct_total_function_formula. unfold wf_var in Wi, Wj.
  apply Good_quant; [discriminate| |].
  - repeat constructor; unfold wf_var, ivar; cbn [vname]; assumption.
  - apply Good_and; [apply Good_and|]; [|exact Gi|exact Gj].
    apply Good_eq_formula; [exact Wz|]. cbn [wf_gterm wf_iterm]. rewrite Wi, Wj. reflexivity.
Qed.

Lemma Good_partial valti valtj o i_var j_var z :
  Good valti -> Good valtj -> wf_var i_var = true -> wf_var j_var = true -> wf_var z = true ->
  Good (construct_partial_function_formula valti valtj o i_var j_var z).
Proof.
  intros Gi Gj Wi Wj Wz. unfold construct_partial_function_formula. unfold wf_var in Wi, Wj.
  set (taken := map vname _).
  pose proof (fresh_letter_wf taken "Q"%char eq_refl) as WQ.
  pose proof (fresh_letter_wf taken "R"%char eq_refl) as WR.
  change (String "Q" EmptyString) with "Q" in WQ. change (String "R" EmptyString) with "R" in WR.
  set (qvar := fresh_one taken "Q") in *. set (rvar := fresh_one taken "R") in *.
  apply Good_quant; [discriminate| |].
  - repeat constructor; unfold wf_var, ivar; cbn [vname]; assumption.
  - apply Good_and.
    + apply Good_and; [apply Good_and|].
      * unfold eq_formula. apply Good_cmp; [exact I| |discriminate|].
        -- cbn [wf_gterm wf_iterm]. exact Wi.
        -- constructor; [|constructor]. cbn [gterm_of wf_gterm wf_iterm]. rewrite Wj, WQ, WR. reflexivity.
      * apply Good_and; assumption.
      * apply Good_and; [apply Good_and|]; apply Good_cmp; try exact I; try discriminate;
          cbn [wf_gterm wf_iterm]; try assumption;
          (constructor; [|constructor]); cbn [gterm_of wf_gterm wf_iterm]; try assumption; reflexivity.
    + destruct o; apply Good_eq_formula; try exact Wz; cbn [wf_gterm wf_iterm]; assumption.
Qed.

Lemma Good_interval valti valtj i_var j_var k_var z :
  Good valti -> Good valtj -> wf_var i_var = true -> wf_var j_var = true -> wf_var k_var = true ->
  wf_var z = true -> Good (construct_interval_formula valti valtj i_var j_var k_var z).
Proof.
  intros Gi Gj Wi Wj Wk Wz. unfold construct_interval_formula.
  apply Good_quant; [discriminate|repeat constructor; assumption|].
  unfold wf_var in Wi, Wj, Wk.
  apply Good_and.
  - apply Good_and; [apply Good_and; assumption|].
    apply Good_eq_formula; [exact Wz|]. cbn [wf_gterm wf_iterm]. exact Wk.
  - apply Good_cmp; [exact I| |discriminate|].
    + cbn [wf_gterm wf_iterm]. exact Wi.
    + constructor; [|constructor; [|constructor]]; cbn [gterm_of wf_gterm wf_iterm]; assumption.
Qed.

Lemma Good_val t : forall z, ok_term t = true -> wf_var z = true -> Good (val t z).
Proof.
  induction t as [p|x|o a IH|o l IHl r IHr]; intros z Ht Wz.
  - apply Good_equality; assumption.
  - apply Good_equality; assumption.
  - destruct o. cbn [val].
    set (taken := val_taken _ z).
    apply Good_total.
    + apply Good_equality; [reflexivity|]. apply (fresh_letter_wf taken "I"%char eq_refl).
    + apply IH; [exact Ht|]. apply (fresh_letter_wf taken "J"%char eq_refl).
    + apply (fresh_letter_wf taken "I"%char eq_refl).
    + apply (fresh_letter_wf taken "J"%char eq_refl).
    + exact Wz.
  - cbn [ok_term] in Ht. apply andb_true_iff in Ht. destruct Ht as [Hl Hr].
    cbn [val]. set (taken := val_taken _ z).
    pose proof (fresh_letter_wf taken "I"%char eq_refl) as WI.
    pose proof (fresh_letter_wf taken "J"%char eq_refl) as WJ.
    pose proof (fresh_letter_wf taken "K"%char eq_refl) as WK.
    destruct o.
    1-3: apply Good_total; [apply IHl|apply IHr| | |]; assumption.
    1-2: apply Good_partial; [apply IHl|apply IHr| | |]; assumption.
    apply Good_interval; [apply IHl|apply IHr| | | |]; assumption.
Qed.

(* ------------------------------------------------------------------ variables of the program *)
Lemma ok_term_vars t x : ok_term t = true -> In x (term_vars t) -> is_variable_name x = true.
Proof.
  induction t as [p|y|o a IH|o l IHl r IHr]; cbn [term_vars ok_term]; intros Ht Hx.
  - destruct Hx.
  - destruct Hx as [<-|[]]. exact Ht.
  - auto.
  - apply andb_true_iff in Ht. destruct Ht as [Hl Hr].
    apply in_iset_extend in Hx. destruct Hx; auto.
Qed.
Lemma ok_terms_vars ts x : forallb ok_term ts = true ->
  In x (extend_all string_dec term_vars [] ts) -> is_variable_name x = true.
Proof.
  intros Hts Hx. apply in_extend_all in Hx. destruct Hx as [[]|(t & Ht & Hx)].
  rewrite forallb_forall in Hts. eapply ok_term_vars; [apply Hts, Ht|exact Hx].
Qed.
Lemma ok_atom_vars a x : ok_atom a = true -> In x (atom_vars a) -> is_variable_name x = true.
Proof.
  unfold ok_atom, atom_vars. intros H. apply andb_true_iff in H. destruct H as [_ H]. apply ok_terms_vars, H.
Qed.
Lemma ok_bformula_vars b x : ok_bformula b = true -> In x (bformula_vars b) -> is_variable_name x = true.
Proof.
  destruct b as [l|c]; cbn [ok_bformula bformula_vars]; [apply ok_atom_vars|].
  intros H Hx. apply andb_true_iff in H. destruct H as [Hl Hr].
  unfold cmp_vars in Hx. apply in_iset_extend in Hx.
  destruct Hx as [Hx|Hx]; [exact (ok_term_vars _ _ Hl Hx)|exact (ok_term_vars _ _ Hr Hx)].
Qed.
Lemma ok_rule_vars r x : ok_rule r = true -> In x (rule_vars r) -> is_variable_name x = true.
Proof.
  unfold ok_rule, rule_vars. intros H Hx. apply andb_true_iff in H. destruct H as [Hh Hb].
  apply in_iset_extend in Hx. destruct Hx as [Hx|Hx].
  - destruct (rhead r) as [a|a|]; cbn [head_vars ok_head] in *; [eapply ok_atom_vars; eassumption..|destruct Hx].
  - unfold body_vars in Hx. apply in_extend_all in Hx. destruct Hx as [[]|(b & Hb' & Hx)].
    rewrite forallb_forall in Hb. eapply ok_bformula_vars; [apply Hb, Hb'|exact Hx].
Qed.

Lemma gvars_wf xs : (forall x, In x xs -> is_variable_name x = true) ->
  Forall (fun v => wf_var v = true) (map gvar xs).
Proof.
  intros H. apply Forall_forall. intros v Hv. apply in_map_iff in Hv. destruct Hv as (x & <- & Hx).
  unfold wf_var, gvar. cbn [vname]. apply H, Hx.
Qed.

(* ------------------------------------------------------------------ tau^B *)
Lemma Good_sign_wrap s f : Good f -> Good (sign_wrap s f).
Proof. destruct s; cbn [sign_wrap]; auto. Qed.

Lemma Good_pred_atom p ts : is_symbol_name p = true -> kw_prefixed p = false ->
  forallb wf_gterm ts = true -> Good (FAtomic (AAtom p ts)).
Proof.
  intros Wp Kp Wts. unfold Good. cbn [wf_formula wf_atomic keyword_ident no_rimp]. rewrite Wp, Wts.
  split; [reflexivity|]. split; [|reflexivity].
  unfold kwi_atomic. cbn [print_atomic]. unfold print_atom. destruct ts; cbn [lead_ident]; exact Kp.
Qed.

Lemma Z_names_wf taken n x : In x (choose_fresh_variable_names taken "Z" n) -> is_variable_name x = true.
Proof.
  intros Hx. pose proof (choose_fresh_numbered taken "Z" n) as H. rewrite Forall_forall in H.
  eapply (numbered_variable_name "Z"%char); [reflexivity|apply H, Hx].
Qed.

Lemma Good_valtz terms vars : forallb ok_term terms = true -> Forall (fun v => wf_var v = true) vars ->
  Good (conjoin (map (fun tv => val (fst tv) (snd tv)) (combine terms vars))).
Proof.
  intros Ht Hv. apply Good_conjoin. apply Forall_forall. intros f Hf.
  apply in_map_iff in Hf. destruct Hf as ([t v] & <- & Hin). cbn [fst snd].
  rewrite forallb_forall in Ht. rewrite Forall_forall in Hv.
  apply Good_val; [apply Ht; eapply in_combine_l, Hin|apply Hv; eapply in_combine_r, Hin].
Qed.

Lemma Good_tau_b_fo l taken : ok_atom (latom l) = true -> kwfree_atom (latom l) = true ->
  aterms (latom l) <> [] -> Good (tau_b_first_order_literal l taken).
Proof.
  intros Ha Ka Hne. unfold tau_b_first_order_literal.
  unfold ok_atom in Ha. apply andb_true_iff in Ha. destruct Ha as [Wp Wts].
  unfold kwfree_atom in Ka. apply negb_true_iff in Ka.
  set (names := choose_fresh_variable_names _ "Z" _).
  assert (Hn : forall x, In x names -> is_variable_name x = true) by (intros x; apply Z_names_wf).
  apply Good_quant.
  - assert (List.length names = List.length (aterms (latom l))) as L by apply choose_fresh_length.
    destruct names; [|discriminate]. destruct (aterms (latom l)); [contradiction|discriminate].
  - apply gvars_wf, Hn.
  - apply Good_and.
    + apply Good_valtz; [exact Wts|apply gvars_wf, Hn].
    + apply Good_sign_wrap. apply Good_pred_atom; [exact Wp|exact Ka|].
      apply forallb_forall. intros t Ht. apply in_map_iff in Ht. destruct Ht as (x & <- & Hx).
      cbn [wf_gterm]. apply Hn, Hx.
Qed.

Lemma Good_tau_b_prop l : ok_atom (latom l) = true -> kwfree_atom (latom l) = true ->
  Good (tau_b_propositional_literal l).
Proof.
  intros Ha Ka. unfold tau_b_propositional_literal. apply Good_sign_wrap.
  unfold ok_atom in Ha. apply andb_true_iff in Ha. destruct Ha as [Wp _].
  unfold kwfree_atom in Ka. apply negb_true_iff in Ka.
  apply Good_pred_atom; [exact Wp|exact Ka|reflexivity].
Qed.

Lemma Good_tau_b_cmp c taken : ok_term (clhs c) = true -> ok_term (crhs c) = true ->
  Good (tau_b_comparison c taken).
Proof.
  intros Hl Hr. unfold tau_b_comparison.
  set (names := choose_fresh_variable_names _ "Z" 2).
  assert (L : List.length names = 2) by apply choose_fresh_length.
  assert (Hn : forall x, In x names -> is_variable_name x = true) by (intros x; apply Z_names_wf).
  destruct names as [|n0 [|n1 [|? ?]]]; try discriminate. cbn [nth].
  assert (W0 : is_variable_name n0 = true) by (apply Hn; left; reflexivity).
  assert (W1 : is_variable_name n1 = true) by (apply Hn; right; left; reflexivity).
  apply Good_quant; [discriminate|repeat constructor; assumption|].
  apply Good_and.
  - apply Good_conjoin. repeat constructor; apply Good_val; assumption.
  - apply Good_cmp; [exact I|exact W0|discriminate|]. constructor; [exact W1|constructor].
Qed.

Lemma Good_tau_b f : ok_bformula f = true -> kwfree_bformula f = true -> Good (tau_b f).
Proof.
  destruct f as [l|c]; cbn [ok_bformula kwfree_bformula tau_b]; intros Ho Hk.
  - destruct (aterms (latom l)) eqn:E.
    + apply Good_tau_b_prop; assumption.
    + apply Good_tau_b_fo; [assumption..|]. rewrite E. discriminate.
  - apply andb_true_iff in Ho. destruct Ho. apply Good_tau_b_cmp; assumption.
Qed.

Lemma Good_tau_body b : forallb ok_bformula b = true -> forallb kwfree_bformula b = true ->
  Good (tau_body b).
Proof.
  intros Ho Hk. unfold tau_body. apply Good_conjoin. apply Forall_forall. intros f Hf.
  apply in_map_iff in Hf. destruct Hf as (x & <- & Hx). rewrite forallb_forall in Ho, Hk.
  apply Good_tau_b; auto.
Qed.

(* ------------------------------------------------------------------ rules *)
Definition globals_ok (globals : list string) : Prop := forall x, In x globals -> is_variable_name x = true.

Lemma globals_loop_ok mt : forall count i gs, globals_loop mt i count = Some gs -> globals_ok gs.
Proof.
  induction count as [|c IH]; intros i gs; cbn [globals_loop].
  - intros [= <-] x [].
  - destruct (two64 <=? mt + i)%N; [discriminate|].
    destruct (globals_loop mt (N.succ i) c) as [gs'|] eqn:E; [|discriminate].
    cbn [option_map]. intros [= <-] x [<-|Hx]; [|eapply IH; eassumption].
    apply (variable_name_numbered "V"%char); reflexivity.
Qed.

Lemma in_firstn {A} n : forall (l : list A) x, In x (firstn n l) -> In x l.
Proof.
  induction n as [|n IH]; intros [|a l] x; cbn [firstn In]; try tauto.
  intros [H|H]; [left; exact H|right; apply IH, H].
Qed.
Lemma insert_sorted_nonempty v l : insert_sorted v l <> [].
Proof. destruct l as [|x xs]; cbn [insert_sorted]; [discriminate|]. destruct (var_leb v x); discriminate. Qed.
Lemma sort_vars_nonempty l : l <> [] -> sort_vars l <> [].
Proof. destruct l as [|a l]; [contradiction|]. intros _. cbn [sort_vars fold_right]. apply insert_sorted_nonempty. Qed.

Lemma quant_sorted_good q vs imp : Forall (fun v => wf_var v = true) vs -> Good imp ->
  Good (match sort_vars vs with [] => imp | ws => FQ q ws imp end).
Proof.
  intros Hvs Hi. pose proof (sort_vars_forall (fun v => wf_var v = true) vs Hvs) as Hs.
  destruct (sort_vars vs) as [|w ws]; [exact Hi|]. apply Good_quant; [discriminate|exact Hs|exact Hi].
Qed.

Lemma Good_rule r globals F : ok_rule r = true -> kwfree_rule r = true -> globals_ok globals ->
  tau_star_rule r globals = Some F -> Good F.
Proof.
  intros Ho Hk Hg. pose proof (ok_rule_vars r) as Hv. specialize (fun x => Hv x Ho).
  unfold ok_rule in Ho. apply andb_true_iff in Ho. destruct Ho as [Hoh Hob].
  unfold kwfree_rule in Hk. apply andb_true_iff in Hk. destruct Hk as [Hkh Hkb].
  pose proof (Good_tau_body _ Hob Hkb) as Gb.
  assert (Hgv : Forall (fun v => wf_var v = true) (map gvar (rule_vars r))) by (apply gvars_wf, Hv).
  unfold tau_star_rule.
  destruct (rhead r) as [a|a|] eqn:Eh; cbn [head_pred head_arity].
  1-2: (cbn [ok_head kwfree_head] in Hoh, Hkh;
        unfold ok_atom in Hoh; apply andb_true_iff in Hoh; destruct Hoh as [Wp Wts];
        unfold kwfree_atom in Hkh; apply negb_true_iff in Hkh;
        destruct (Nat.ltb 0 (List.length (aterms a))) eqn:Ea;
        [ unfold tau_star_fo_head_rule; rewrite Eh; cbn [head_atom is_choice];
          destruct (Nat.ltb (List.length globals) (List.length (aterms a))) eqn:El; [discriminate|];
          intros [= <-];
          assert (Hf : forall x, In x (firstn (List.length (aterms a)) globals) -> is_variable_name x = true)
            by (intros x Hx; apply Hg; eapply in_firstn, Hx);
          assert (Hfv : Forall (fun v => wf_var v = true) (map gvar (firstn (List.length (aterms a)) globals)))
            by (apply gvars_wf, Hf);
          assert (Hhead : Good (FAtomic (AAtom (apred a) (map (fun x => GVar x) (firstn (List.length (aterms a)) globals)))))
            by (apply Good_pred_atom; [exact Wp|exact Hkh|];
                apply forallb_forall; intros t Ht; apply in_map_iff in Ht; destruct Ht as (x & <- & Hx);
                cbn [wf_gterm]; apply Hf, Hx);
          apply Good_quant;
          [ apply sort_vars_nonempty; intros Hnil; apply app_eq_nil in Hnil; destruct Hnil as [_ Hnil];
            apply map_eq_nil in Hnil;
            apply Nat.ltb_lt in Ea; apply Nat.ltb_ge in El;
            apply (f_equal (@List.length string)) in Hnil; rewrite firstn_length in Hnil; cbn in Hnil; lia
          | apply sort_vars_forall; apply Forall_app; split; assumption
          | apply Good_imp; [|exact Hhead];
            try (apply Good_and; [|apply Good_not, Good_not, Hhead]);
            (apply Good_and; [apply Good_valtz; [exact Wts|exact Hfv]|exact Gb]) ]
        | unfold tau_star_prop_head_rule; rewrite Eh; cbn [head_atom is_choice];
          intros [= <-];
          assert (Hhead : Good (FAtomic (AAtom (apred a) [])))
            by (apply Good_pred_atom; [exact Wp|exact Hkh|reflexivity]);
          apply quant_sorted_good; [exact Hgv|];
          apply Good_imp; [|exact Hhead];
          try (apply Good_and; [|apply Good_not, Good_not, Hhead]); exact Gb ]).
  intros [= <-]. unfold tau_star_constraint_rule.
  apply quant_sorted_good; [exact Hgv|]. apply Good_imp; [exact Gb|apply Good_false].
Qed.

(* ------------------------------------------------------------------ tau* *)
Lemma map_opt_good (P : program) globals : forall G,
  forallb ok_rule P = true -> forallb kwfree_rule P = true -> globals_ok globals ->
  map_opt (fun r => tau_star_rule r globals) P = Some G -> Forall Good G.
Proof.
  induction P as [|r P IH]; intros G Ho Hk Hg; cbn [map_opt].
  - intros [= <-]. constructor.
  - cbn [forallb] in Ho, Hk. apply andb_true_iff in Ho, Hk. destruct Ho as [Ho1 Ho2], Hk as [Hk1 Hk2].
    destruct (tau_star_rule r globals) as [F|] eqn:EF; [|discriminate].
    destruct (map_opt _ P) as [Fs|] eqn:EP; [|discriminate].
    intros [= <-]. constructor; [eapply Good_rule; eassumption|apply IH; auto].
Qed.

Theorem tau_star_output_good P G :
  fol_names_ok P = true -> no_keyword_predicate P = true -> tau_star P = Some G -> Forall Good G.
Proof.
  unfold tau_star, fol_names_ok, no_keyword_predicate. intros Ho Hk.
  destruct (choose_fresh_global_variables P) as [globals|] eqn:Eg; [|discriminate].
  apply map_opt_good; [exact Ho|exact Hk|].
  unfold choose_fresh_global_variables in Eg. eapply globals_loop_ok, Eg.
Qed.

Theorem translate_output_reparses P G :
  fol_names_ok P = true -> no_keyword_predicate P = true -> tau_star P = Some G ->
  wf_theory G = true /\ known_class_theory G = None /\ parse_theory_str (show_theory G) = PR_ok G.
Proof.
  intros Ho Hk E. destruct (Forall_Good_theory G (tau_star_output_good P G Ho Hk E)) as [W K].
  split; [exact W|]. split; [exact K|]. apply text_theory; assumption.
Qed.

(* ------------------------------------------------------------------ what the program parser accepts *)
From Anthem Require Import Model.AspParse Proofs.AspLex Proofs.AspImage.

Lemma asp_symchar_wordchar c : AspParse.is_symchar c = FolLex.is_wordchar c.
Proof. destruct c as [[] [] [] [] [] [] [] []]; reflexivity. Qed.
Lemma asp_alnum_wordchar c : AspParse.is_alnum c = true -> FolLex.is_wordchar c = true.
Proof. destruct c as [[] [] [] [] [] [] [] []]; vm_compute; intros H; try reflexivity; discriminate H. Qed.
Lemma asp_lower c : AspParse.is_lower c = FolLex.is_lower c.
Proof. destruct c as [[] [] [] [] [] [] [] []]; reflexivity. Qed.
Lemma asp_upper c : AspParse.is_upper c = FolPrint.is_upper c.
Proof. destruct c as [[] [] [] [] [] [] [] []]; reflexivity. Qed.

Lemma all_chars_wordchars p s : (forall c, p c = true -> FolLex.is_wordchar c = true) ->
  all_chars p s = true -> all_wordchars (chars s) = true.
Proof.
  intros Hp. induction s as [|c s IH]; cbn [all_chars]; [reflexivity|].
  intros H. apply andb_true_iff in H. destruct H as [Hc Hs].
  change (chars (String c s)) with (c :: chars s). cbn [all_wordchars forallb].
  rewrite (Hp c Hc). exact (IH Hs).
Qed.

Lemma asp_symbol_name s : wf_symbol s = true -> is_symbol_name s = true.
Proof.
  unfold wf_symbol, is_symbol_name. destruct s as [|c r]; [discriminate|].
  intros H. apply andb_true_iff in H. destruct H as [Hh Ha].
  rewrite (all_chars_wordchars AspParse.is_symchar).
  2: { intros x Hx. rewrite <- asp_symchar_wordchar. exact Hx. }
  2: exact Ha.
  change (chars (String c r)) with (c :: chars r). cbn [word_class andb].
  rewrite <- asp_lower. destruct (AspParse.is_lower c) eqn:El; [reflexivity|].
  cbn [orb] in Hh. apply andb_true_iff in Hh. destruct Hh as [Hu Hr].
  apply Ascii.eqb_eq in Hu. subst c. cbn.
  destruct r as [|d r']; [discriminate|]. cbn [head_is] in Hr.
  change (chars (String d r')) with (d :: chars r'). cbn iota. rewrite <- asp_lower, Hr. reflexivity.
Qed.

Lemma asp_variable_name s : wf_variable s = true -> is_variable_name s = true.
Proof.
  unfold wf_variable, is_variable_name. destruct s as [|c r]; [discriminate|].
  intros H. apply andb_true_iff in H. destruct H as [Hu Ha].
  rewrite (all_chars_wordchars AspParse.is_alnum _ asp_alnum_wordchar Ha).
  change (chars (String c r)) with (c :: chars r). cbn [word_class andb].
  rewrite asp_upper in Hu. rewrite (upper_not_lower c Hu), Hu. reflexivity.
Qed.

Lemma asp_isize z : isize_ok z = true -> in_isize z = true.
Proof.
  unfold isize_ok, in_isize. intros H. apply andb_true_iff in H. destruct H as [H1 H2].
  apply Z.leb_le in H1, H2. apply andb_true_iff. split; [apply Z.leb_le|apply Z.ltb_lt]; lia.
Qed.

Lemma asp_ok_term t : wf_term t -> term_numerals_ok t = true -> ok_term t = true.
Proof.
  induction t as [[|z|s|]|x|o a IH|o l IHl r IHr]; cbn [wf_term term_numerals_ok ok_term]; auto.
  - intros _. apply asp_isize.
  - intros H _. apply asp_symbol_name, H.
  - intros H _. apply asp_variable_name, H.
  - intros [Hl Hr] H. apply andb_true_iff in H. destruct H. rewrite IHl, IHr; auto.
Qed.
Lemma asp_ok_atom a : wf_atom a -> atom_numerals_ok a = true -> ok_atom a = true.
Proof.
  unfold wf_atom, atom_numerals_ok, ok_atom. intros [Hp Hts] Hn.
  rewrite (asp_symbol_name _ Hp). cbn [andb]. apply forallb_forall. intros t Ht.
  rewrite Forall_forall in Hts. rewrite forallb_forall in Hn. apply asp_ok_term; auto.
Qed.
Lemma asp_ok_rule r : wf_rule r -> rule_numerals_ok r = true -> ok_rule r = true.
Proof.
  unfold wf_rule, rule_numerals_ok, ok_rule. intros [Hh Hb] Hn.
  apply andb_true_iff in Hn. destruct Hn as [Hnh Hnb]. apply andb_true_iff. split.
  - destruct (rhead r) as [a|a|]; cbn [wf_head ok_head] in *; [apply asp_ok_atom; assumption..|reflexivity].
  - apply forallb_forall. intros b Hb'. rewrite Forall_forall in Hb. rewrite forallb_forall in Hnb.
    specialize (Hb b Hb'). specialize (Hnb b Hb').
    destruct b as [l|c]; cbn [wf_bformula bformula_numerals_ok ok_bformula] in *.
    + apply asp_ok_atom; assumption.
    + destruct Hb as [H1 H2]. apply andb_true_iff in Hnb. destruct Hnb as [N1 N2].
      rewrite (asp_ok_term _ H1 N1), (asp_ok_term _ H2 N2). reflexivity.
Qed.

Theorem parsed_program_names_ok s P : parse_program_text s = POk P -> fol_names_ok P = true.
Proof.
  intros E. destruct (parse_text_image s P E) as [W N].
  unfold fol_names_ok. apply forallb_forall. intros r Hr.
  unfold wf_program in W. rewrite Forall_forall in W.
  unfold program_numerals_ok in N. rewrite forallb_forall in N. apply asp_ok_rule; auto.
Qed.

(* end to end on the CLI model: what `translate --with tau-star` prints is accepted by
   `parse --as theory` and printed back unchanged, unless a predicate name is in class F7b *)
From Anthem Require Import Model.Cli Proofs.CliOk.

Theorem cli_translate_tau_star_feeds_back s out :
  run_cli (Translate TauStar) s = Stdout out ->
  exists P G,
    parse_program_text s = POk P /\ TauStar.tau_star P = Some G /\ out = show_theory G /\
    (no_keyword_predicate P = true ->
     wf_theory G = true /\ known_class_theory G = None /\
     parse_theory_str out = PR_ok G /\ run_cli (Parse Theory) out = Stdout out).
Proof.
  unfold run_cli; cbn [run_cli_fuel run_translate]. unfold program_from_file. intros E.
  destruct (parse_program_text s) as [P| |] eqn:EP; cbn [bind] in E; try discriminate.
  destruct (TauStar.tau_star P) as [G|] eqn:EG; [|discriminate].
  assert (Eo : out = show_theory G) by (unfold print_theory in E; injection E as <-; reflexivity).
  clear E.
  exists P, G. split; [reflexivity|]. split; [exact EG|]. split; [exact Eo|]. intros Hk.
  destruct (translate_output_reparses P G (parsed_program_names_ok s P EP) Hk EG) as (W & K & R).
  subst out. split; [exact W|]. split; [exact K|]. split; [exact R|].
  unfold run_cli; cbn [run_cli_fuel run_parse]. unfold theory_from_file. rewrite R. reflexivity.
Qed.
