(* tau^B: the translation of a body literal / comparison / body is satisfied in a world exactly when the
   reference semantics says the body item holds there (Sem/AspRef.bformula_sat, body_sat). *)
From Coq Require Import List Ascii String ZArith Bool Lia.
From Anthem Require Import Base.ISet Syntax.Fol Syntax.Asp Sem.Domain Sem.Sat Sem.AspRef
  Model.FreshNames Model.TauStar Proofs.FreshNamesOk Proofs.TauStarBase Proofs.TauStarVal.
Import ListNotations.
Open Scope string_scope.
Open Scope list_scope.

(* ---------- collectors ---------- *)
Lemma in_extend_all {A B} (dec : forall x y : B, {x = y} + {x <> y}) (f : A -> list B) l : forall init y,
  In y (extend_all dec f init l) <-> In y init \/ exists x, In x l /\ In y (f x).
Proof.
  unfold extend_all. induction l as [|a l IH]; intros init y; cbn [fold_left].
  - split; [auto|]. intros [H|[x [[] _]]]; exact H.
  - rewrite IH, in_iset_extend. split.
    + intros [[H|H]|[x [Hx Hy]]]; eauto. right. exists a. split; [left; reflexivity|exact H].
      right. exists x. split; [right; exact Hx|exact Hy].
    + intros [H|[x [[<-|Hx] Hy]]]; eauto.
Qed.

Lemma term_vars_atom a t x : In t (aterms a) -> In x (term_vars t) -> In x (atom_vars a).
Proof. intros Ht Hx. unfold atom_vars. apply in_extend_all. right. eauto. Qed.

(* ---------- vals depends only on the term's variables ---------- *)
Lemma vals_coincide sg1 sg2 t : (forall x, In x (term_vars t) -> sg1 x = sg2 x) ->
  forall v, vals sg1 t v <-> vals sg2 t v.
Proof.
  induction t as [p|x|o a IHa|o l IHl r IHr]; intros Hs v; cbn [vals].
  - tauto.
  - rewrite (Hs x) by (left; reflexivity). tauto.
  - destruct o. split; intros [n [Hn Hv]]; exists n; (split; [|exact Hv]); apply (IHa Hs); exact Hn.
  - assert (Hl : forall x, In x (term_vars l) -> sg1 x = sg2 x).
    { intros x Hx. apply Hs. cbn [term_vars]. apply in_iset_extend. left; exact Hx. }
    assert (Hr : forall x, In x (term_vars r) -> sg1 x = sg2 x).
    { intros x Hx. apply Hs. cbn [term_vars]. apply in_iset_extend. right; exact Hx. }
    specialize (IHl Hl). specialize (IHr Hr).
    destruct o.
    1-3: split; intros [n1 [n2 [H1 [H2 Hv]]]]; exists n1, n2; (split; [apply IHl; exact H1|split; [apply IHr; exact H2|exact Hv]]).
    1-2: split; intros [n1 [n2 [q [m [H1 [H2 Hv]]]]]]; exists n1, n2, q, m; (split; [apply IHl; exact H1|split; [apply IHr; exact H2|exact Hv]]).
    split; intros [n1 [n2 [k [H1 [H2 Hv]]]]]; exists n1, n2, k; (split; [apply IHl; exact H1|split; [apply IHr; exact H2|exact Hv]]).
Qed.

Lemma tuple_vals_coincide sg1 sg2 ts : (forall t x, In t ts -> In x (term_vars t) -> sg1 x = sg2 x) ->
  forall vs, tuple_vals sg1 ts vs <-> tuple_vals sg2 ts vs.
Proof.
  unfold tuple_vals. induction ts as [|t ts IH]; intros Hs vs.
  - split; intros H; inversion H; constructor.
  - assert (Ht : forall v, vals sg1 t v <-> vals sg2 t v).
    { apply vals_coincide. intros x Hx. apply (Hs t x); [left; reflexivity|exact Hx]. }
    assert (IH' : forall vs, Forall2 (vals sg1) ts vs <-> Forall2 (vals sg2) ts vs).
    { apply IH. intros t' x Ht' Hx. apply (Hs t' x); [right; exact Ht'|exact Hx]. }
    split; intros H; inversion H; subst; constructor; try apply Ht; try apply IH'; auto.
Qed.

(* ---------- a list of val-formulas ---------- *)
Lemma Forall_combine_map {A B C} (P : A -> C -> Prop) (g : B -> C) : forall (ts : list A) (zs : list B),
  List.length ts = List.length zs ->
  (Forall (fun tv => P (fst tv) (g (snd tv))) (combine ts zs) <-> Forall2 P ts (map g zs)).
Proof.
  induction ts as [|t ts IH]; intros [|z zs] Hl; cbn in Hl; try discriminate; cbn [combine map].
  - split; constructor.
  - specialize (IH zs ltac:(congruence)). split; intros H; inversion H; subst; constructor; cbn in *; auto;
      apply IH; auto.
Qed.

Lemma Forall_impl_in {A} (P Q : A -> Prop) l :
  (forall a, In a l -> P a -> Q a) -> Forall P l -> Forall Q l.
Proof. rewrite !Forall_forall. intros H HP a Ha. apply H; auto. Qed.

Lemma Forall2_len {A B} (P : A -> B -> Prop) l m : Forall2 P l m -> List.length l = List.length m.
Proof. induction 1; cbn; congruence. Qed.

Section Body.
Variable FI : fint.

(* val_t1(Z1) & ... & val_tn(Zn), Zi general variables *)
Lemma valtz_sat_gen W T e ts zs :
  List.length ts = List.length zs ->
  (hsat FI W T e (conjoin (map (fun tv => val (fst tv) (snd tv)) (combine ts (map gvar zs)))) <->
   tuple_vals (eg e) ts (map (eg e) zs)).
Proof.
  intros Hlt. rewrite hsat_conjoin, Forall_map.
  assert (E1 : Forall (fun tv => hsat FI W T e (val (fst tv) (snd tv))) (combine ts (map gvar zs)) <->
               Forall (fun tv => vals (eg e) (fst tv) (getv e (snd tv))) (combine ts (map gvar zs))).
  { split; apply Forall_impl_in.
    - intros [t z] Hin Hh. cbn [fst snd] in *. apply val_spec_ht in Hh; auto.
      apply in_combine_r in Hin. apply in_map_iff in Hin. destruct Hin as [x [<- _]]. apply z_ok_general.
    - intros [t z] Hin Hh. cbn [fst snd] in *. apply val_spec_ht; auto.
      apply in_combine_r in Hin. apply in_map_iff in Hin. destruct Hin as [x [<- _]]. apply z_ok_general. }
  rewrite E1.
  rewrite (Forall_combine_map (vals (eg e)) (getv e)) by (rewrite map_length; exact Hlt).
  rewrite map_map. cbn [getv vsort vname gvar].
  change (map (fun x : string => eg e x) zs) with (map (eg e) zs). unfold tuple_vals. tauto.
Qed.

(* ... under the assignment Zi := di, the Zi fresh for the terms *)
Lemma valtz_sat W T e ts zs ds :
  List.length ts = List.length zs -> List.length ds = List.length zs -> NoDup zs ->
  (forall t x, In t ts -> In x (term_vars t) -> ~ In x zs) ->
  (hsat FI W T (upd_gs e zs ds)
        (conjoin (map (fun tv => val (fst tv) (snd tv)) (combine ts (map gvar zs)))) <->
   tuple_vals (eg e) ts ds).
Proof.
  intros Hlt Hld Hnd Hfresh. rewrite valtz_sat_gen by exact Hlt.
  rewrite eg_upd_gs_nth by auto.
  apply tuple_vals_coincide. intros t x Ht Hx. apply eg_upd_gs_other. apply (Hfresh t x Ht Hx).
Qed.

Lemma ev_g_gvars e zs : map (ev_g FI e) (map (fun x => GVar x) zs) = map (eg e) zs.
Proof. rewrite map_map. reflexivity. Qed.

Lemma sign_wrap_sat W T e s p ts :
  hsat FI W T e (sign_wrap s (FAtomic (AAtom p ts))) <->
  match s with
  | SNone => W p (map (ev_g FI e) ts)
  | SNeg => ~ T p (map (ev_g FI e) ts)
  | SDNeg => ~ ~ T p (map (ev_g FI e) ts)
  end.
Proof. destruct s; cbn; tauto. Qed.

Lemma lit_sat_shape W T sg s a :
  bformula_sat W T sg (BLit (mklit s a)) <->
  exists vs, tuple_vals sg (aterms a) vs /\
             match s with SNone => W (apred a) vs | SNeg => ~ T (apred a) vs | SDNeg => ~ ~ T (apred a) vs end.
Proof. destruct s; cbn; tauto. Qed.

Lemma tau_b_fo_sat W T e l taken_vars :
  (forall x, In x (atom_vars (latom l)) -> In x (map vname taken_vars)) ->
  (hsat FI W T e (tau_b_first_order_literal l taken_vars) <-> bformula_sat W T (eg e) (BLit l)).
Proof.
  intros Htk. destruct l as [s a]. cbn [latom] in Htk. rewrite lit_sat_shape.
  unfold tau_b_first_order_literal. cbn [latom lsign].
  set (zs := choose_fresh_variable_names (map vname taken_vars) "Z" (List.length (aterms a))).
  assert (Hlen : List.length zs = List.length (aterms a)) by apply choose_fresh_length.
  assert (Hnd : NoDup zs) by apply choose_fresh_nodup.
  assert (Hfresh : forall t x, In t (aterms a) -> In x (term_vars t) -> ~ In x zs).
  { intros t x Ht Hx Hz. apply (choose_fresh_notin _ _ _ _ Hz). apply Htk. eapply term_vars_atom; eauto. }
  cbn [hsat]. rewrite qsat_exists_gs. split.
  - intros [ds [Hl [Hv Hp]]]. exists ds.
    apply valtz_sat in Hv; auto. split; [exact Hv|].
    apply sign_wrap_sat in Hp. rewrite ev_g_gvars, eg_upd_gs_nth in Hp by auto. exact Hp.
  - intros [vs [Hv Hp]]. exists vs.
    assert (Hl : List.length vs = List.length zs).
    { rewrite Hlen. symmetry. exact (Forall2_len _ _ _ Hv). }
    split; [exact Hl|]. split.
    + apply valtz_sat; auto.
    + apply sign_wrap_sat. rewrite ev_g_gvars, eg_upd_gs_nth by auto. exact Hp.
Qed.

Lemma tau_b_prop_sat W T e l : aterms (latom l) = [] ->
  (hsat FI W T e (tau_b_propositional_literal l) <-> bformula_sat W T (eg e) (BLit l)).
Proof.
  intros Hn. destruct l as [s a]. cbn [latom] in Hn. rewrite lit_sat_shape. rewrite Hn.
  unfold tau_b_propositional_literal. cbn [latom lsign]. rewrite sign_wrap_sat. cbn [map].
  split.
  - intros Hp. exists []. split; [constructor|exact Hp].
  - intros [vs [Hv Hp]]. inversion Hv; subst. exact Hp.
Qed.

Lemma tau_b_cmp_sat W T e c taken_vars :
  (forall x, In x (cmp_vars c) -> In x (map vname taken_vars)) ->
  (hsat FI W T e (tau_b_comparison c taken_vars) <-> bformula_sat W T (eg e) (BCmp c)).
Proof.
  intros Htk. unfold tau_b_comparison.
  set (zs := choose_fresh_variable_names (map vname taken_vars) "Z" 2).
  assert (Hlen : List.length zs = 2) by apply choose_fresh_length.
  assert (Hnd : NoDup zs) by apply choose_fresh_nodup.
  assert (Hnotin : forall x, In x zs -> ~ In x (map vname taken_vars)) by (intros x; apply choose_fresh_notin).
  destruct zs as [|n0 [|n1 [|n2 zs]]]; cbn in Hlen; try discriminate. cbn [nth].
  assert (Hfresh : forall t x, In t [clhs c; crhs c] -> In x (term_vars t) -> ~ In x [n0; n1]).
  { intros t x Ht Hx Hz. apply (Hnotin x Hz). apply Htk. unfold cmp_vars. apply in_iset_extend.
    destruct Ht as [<-|[<-|[]]]; auto. }
  change [gvar n0; gvar n1] with (map gvar [n0; n1]).
  cbn [hsat]. rewrite qsat_exists_gs. cbn [bformula_sat]. split.
  - intros [ds [Hl [Hv Hr]]].
    change [val (clhs c) (gvar n0); val (crhs c) (gvar n1)]
      with (map (fun tv => val (fst tv) (snd tv)) (combine [clhs c; crhs c] (map gvar [n0; n1]))) in Hv.
    apply valtz_sat in Hv; auto.
    destruct ds as [|d0 [|d1 [|d2 ds]]]; cbn in Hl; try discriminate.
    inversion Hv as [|? ? ? ? H0 Hv']; subst. inversion Hv' as [|? ? ? ? H1 _]; subst.
    exists d0, d1. repeat split; auto.
    cbn in Hr. rewrite andb_true_r in Hr.
    assert (Hn : n0 <> n1).
    { inversion Hnd as [|? ? Hx _]; subst. intros ->. apply Hx. left; reflexivity. }
    rewrite String.eqb_refl in Hr.
    destruct (String.eqb_spec n0 n1) as [E|_]; [contradiction|].
    destruct (String.eqb_spec n1 n0) as [E|_]; [symmetry in E; contradiction|].
    rewrite String.eqb_refl in Hr. exact Hr.
  - intros [v1 [v2 [H1 [H2 Hr]]]]. exists [v1; v2]. split; [reflexivity|]. split.
    + change [val (clhs c) (gvar n0); val (crhs c) (gvar n1)]
        with (map (fun tv => val (fst tv) (snd tv)) (combine [clhs c; crhs c] (map gvar [n0; n1]))).
      apply valtz_sat; auto. repeat constructor; auto.
    + cbn. rewrite andb_true_r.
      assert (Hn : n0 <> n1).
      { inversion Hnd as [|? ? Hx _]; subst. intros ->. apply Hx. left; reflexivity. }
      rewrite String.eqb_refl.
      destruct (String.eqb_spec n0 n1) as [E|_]; [contradiction|].
      destruct (String.eqb_spec n1 n0) as [E|_]; [symmetry in E; contradiction|].
      rewrite String.eqb_refl. exact Hr.
Qed.

Lemma tau_b_taken f x : In x (bformula_vars f) ->
  In x (map vname (iset_extend vdec [] (map gvar (bformula_vars f)))).
Proof.
  intros Hx. apply in_map_iff. exists (gvar x). split; [reflexivity|].
  apply in_iset_extend. right. apply in_map. exact Hx.
Qed.

(* body literals and comparisons, in any world W of the pair (W,T) *)
Theorem tau_b_sat W T e b : hsat FI W T e (tau_b b) <-> bformula_sat W T (eg e) b.
Proof.
  unfold tau_b. destruct b as [l|c].
  - destruct (aterms (latom l)) eqn:Ets.
    + apply tau_b_prop_sat. exact Ets.
    + apply tau_b_fo_sat. intros x Hx. apply (tau_b_taken (BLit l)). exact Hx.
  - apply tau_b_cmp_sat. intros x Hx. apply (tau_b_taken (BCmp c)). exact Hx.
Qed.

Theorem tau_body_sat W T e b : hsat FI W T e (tau_body b) <-> body_sat W T (eg e) b.
Proof.
  unfold tau_body, body_sat. rewrite hsat_conjoin, Forall_map.
  split; apply Forall_impl; intros a; apply tau_b_sat.
Qed.
Corollary tau_body_csat T e b : csat FI T e (tau_body b) <-> body_sat T T (eg e) b.
Proof. rewrite <- hsat_total. apply tau_body_sat. Qed.
End Body.
