(* External-equivalence task, assembly layer:
   - C11_enforce: problems are emitted only if the seven applicability conditions hold;
   - the formulas of an assembled problem (names aside), the refutation set of the outline and
     final problems of a direction;
   - C13_order: which axioms each outline problem sees;
   - C19 for the eq-break and decomposition flags of external tasks. *)
From Coq Require Import List Ascii String ZArith NArith Bool Lia Classical_Prop.
From Anthem Require Import Base.ISet Base.Fresh Syntax.Fol Syntax.Asp Sem.Domain Sem.Sat
  Model.Break Model.Problem Model.Outline Model.Strong Model.External
  Proofs.SemBase Proofs.BreakOk Proofs.DecomposeOk Proofs.StrongOk.
Import ListNotations.
Open Scope string_scope.
Open Scope list_scope.

(* ================= the values carried by the errors (audit B16) ================= *)
(* each payload function of Model/External.v returns None exactly when the boolean check the
   theorems speak about holds, and otherwise names a real offender *)
Lemma forallb_false_ex {A} (f : A -> bool) l : forallb f l = false -> exists x, In x l /\ f x = false.
Proof.
  induction l as [|a l IH]; cbn; [discriminate|]. destruct (f a) eqn:E; cbn.
  - intros H. destruct (IH H) as [x [Hx Hf]]. eauto.
  - intros _. eauto.
Qed.
Lemma is_nil_false {A} (l : list A) : is_nil l = false <-> l <> [].
Proof. destruct l; cbn; split; congruence. Qed.
Lemma in_iset_inter {A} dec (a b : list A) x : In x (iset_inter dec a b) <-> In x a /\ In x b.
Proof.
  unfold iset_inter. rewrite filter_In. destruct (memb_spec dec x b); intuition congruence.
Qed.
Lemma in_output_overlap outputs a p :
  In p (output_overlap outputs a) <-> In p outputs /\ In p (predicates (an_formula a)).
Proof.
  unfold output_overlap. rewrite filter_In. destruct (memb_spec pred_dec p outputs); intuition congruence.
Qed.
Lemma is_assumption_role a : is_assumption a = true <-> an_role a = RAssumption.
Proof. unfold is_assumption. destruct (an_role a); split; congruence. Qed.

Lemma placeholder_clash_name_none l : forall names,
  placeholder_clash_name l names = None <-> placeholder_clash l names = false.
Proof.
  induction l as [|c l IH]; intros names; cbn; [tauto|].
  destruct (memb string_dec (fcname c) names); [split; discriminate|apply IH].
Qed.
(* the name returned is the name of two placeholder entries (at different positions of the
   IndexSet of placeholders, hence - the set is duplicate-free - of different sorts) *)
Lemma placeholder_clash_name_some l : forall names n, placeholder_clash_name l names = Some n ->
  exists l1 c l2, l = l1 ++ c :: l2 /\ fcname c = n /\ In n (names ++ map fcname l1).
Proof.
  induction l as [|c l IH]; intros names n; cbn; [discriminate|].
  destruct (memb_spec string_dec (fcname c) names) as [Hin|Hn].
  - intros [= <-]. exists [], c, l. cbn. rewrite app_nil_r. auto.
  - intros H. destruct (IH _ _ H) as [l1 [c' [l2 [-> [Hc Hi]]]]].
    exists (c :: l1), c', l2. cbn. rewrite <- app_assoc in Hi. auto.
Qed.
Lemma ug_placeholders_nodup u : NoDup (ug_placeholders u).
Proof.
  unfold ug_placeholders. generalize (NoDup_nil fconst). generalize (@nil fconst).
  induction u as [|e u IH]; intros acc Hacc; cbn; [exact Hacc|].
  apply IH. destruct e; try exact Hacc. apply nodup_iset_insert, Hacc.
Qed.
Lemma placeholder_clash_name_sorts u n : placeholder_clash_name (ug_placeholders u) [] = Some n ->
  exists s1 s2, s1 <> s2 /\ In (mkfconst n s1) (ug_placeholders u) /\ In (mkfconst n s2) (ug_placeholders u).
Proof.
  intros H. assert (Hnd := ug_placeholders_nodup u).
  destruct (placeholder_clash_name_some _ _ _ H) as [l1 [c [l2 [El [Hc Hi]]]]]. cbn in Hi.
  apply in_map_iff in Hi. destruct Hi as [c1 [Hc1 Hin1]].
  rewrite El in *. exists (fcsort c1), (fcsort c). split; [|split].
  - intros Es. apply NoDup_remove_2 in Hnd. apply Hnd. apply in_or_app. left.
    replace c with c1; [exact Hin1|]. destruct c1, c. cbn in *. congruence.
  - apply in_or_app. left. replace (mkfconst n (fcsort c1)) with c1; [exact Hin1|]. destruct c1. cbn in *. congruence.
  - apply in_or_app. right. left. destruct c. cbn in *. congruence.
Qed.

Lemma first_non_input_none pis ins fs :
  first_non_input_assumption pis ins fs = None <-> assumptions_only_input pis ins fs = true.
Proof.
  unfold first_non_input_assumption, assumptions_only_input.
  induction fs as [|a fs IH]; cbn; [tauto|].
  destruct (is_assumption a); cbn; [|exact IH].
  destruct (subsetb pred_dec _ _); cbn; [exact IH|split; discriminate].
Qed.
Lemma first_non_input_some pis ins fs a : first_non_input_assumption pis ins fs = Some a ->
  In a fs /\ an_role a = RAssumption /\
  exists p, In p (predicates (an_formula a)) /\ ~ In p pis /\ ~ In p ins.
Proof.
  unfold first_non_input_assumption. intros H. apply find_some in H. destruct H as [Hin H].
  apply andb_true_iff in H. destruct H as [Ha Hs]. apply negb_true_iff in Hs.
  split; [exact Hin|]. split; [apply is_assumption_role, Ha|].
  unfold subsetb in Hs. apply forallb_false_ex in Hs. destruct Hs as [p [Hp Hm]]. exists p. split; [exact Hp|].
  destruct (memb_spec pred_dec p (iset_extend pred_dec pis ins)) as [|Hn]; [discriminate|].
  rewrite in_iset_extend in Hn. tauto.
Qed.
Lemma first_output_overlap_none outs fs :
  first_output_overlap outs fs = None <-> spec_assumptions_no_output outs fs = true.
Proof.
  unfold spec_assumptions_no_output. induction fs as [|a fs IH]; cbn; [tauto|].
  destruct (is_assumption a); cbn; [|exact IH].
  unfold output_overlap.
  assert (E : is_nil (filter (fun p => memb pred_dec p outs) (predicates (an_formula a))) =
              forallb (fun p => negb (memb pred_dec p outs)) (predicates (an_formula a))).
  { induction (predicates (an_formula a)) as [|p l IHl]; cbn; [reflexivity|].
    destruct (memb pred_dec p outs); cbn; [reflexivity|exact IHl]. }
  rewrite E. destruct (forallb _ (predicates (an_formula a))); cbn; [exact IH|split; discriminate].
Qed.
Lemma first_output_overlap_some outs fs ps : first_output_overlap outs fs = Some ps ->
  ps <> [] /\ exists a, In a fs /\ an_role a = RAssumption /\ ps = output_overlap outs a.
Proof.
  induction fs as [|a fs IH]; cbn; [discriminate|].
  destruct (is_assumption a) eqn:Ea.
  - destruct (is_nil (output_overlap outs a)) eqn:En.
    + intros H. destruct (IH H) as [Hne [a' [Hin H']]]. eauto.
    + intros [= <-]. split; [apply is_nil_false, En|]. exists a. split; [auto|]. split; [apply is_assumption_role, Ea|reflexivity].
  - intros H. destruct (IH H) as [Hne [a' [Hin H']]]. eauto.
Qed.
Lemma first_unsupported_role_none fs :
  first_unsupported_role fs = None <-> spec_roles_supported fs = true.
Proof.
  unfold first_unsupported_role, spec_roles_supported. induction fs as [|a fs IH]; cbn; [tauto|].
  destruct (an_role a); cbn; try exact IH; split; discriminate.
Qed.
Lemma first_unsupported_role_some fs a : first_unsupported_role fs = Some a ->
  In a fs /\ an_role a <> RAssumption /\ an_role a <> RSpec.
Proof.
  unfold first_unsupported_role. intros H. apply find_some in H. destruct H as [Hin H].
  split; [exact Hin|]. destruct (an_role a); split; congruence.
Qed.
Lemma bool_not_true_none {A} (o : option A) (b : bool) : (o = None <-> b = true) -> forall x, o = Some x -> b = false.
Proof. intros H x E. destruct b; [|reflexivity]. rewrite (proj2 H eq_refl) in E. discriminate. Qed.

(* ================= C11_enforce ================= *)
Section Enforce.
Variable is_tight : program -> bool.
Variable has_private_recursion : program -> list pred -> bool.
Variable tau_star : program -> theory.
Variable completion : theory -> list pred -> option theory.
Variable simp_classic : formula -> formula.

Notation validate := (external_validate is_tight has_private_recursion).
Notation decompose_ext := (external_decompose is_tight has_private_recursion tau_star completion simp_classic).

Lemma ensure_tight_ok t p w : ensure_program_tightness is_tight t p = Ok w ->
  is_tight p = true \/ et_bypass_tightness t = true.
Proof.
  unfold ensure_program_tightness. destruct (is_tight p); [auto|].
  destruct (et_bypass_tightness t); [auto|discriminate].
Qed.

Theorem validate_conditions t w : validate t = Ok w ->
  c_tight is_tight t = true /\ c_no_private_recursion has_private_recursion t = true /\
  c_no_input_in_head t = true /\ c_io_disjoint t = true /\ c_ug_assumptions_inputs_only t = true /\
  c_spec_assumptions_no_output t = true /\ c_placeholders_single_sorted t = true /\
  et_repr t = ReprTauStar.
Proof.
  unfold external_validate, c_tight, c_no_private_recursion, c_no_input_in_head, c_io_disjoint,
    c_ug_assumptions_inputs_only, c_spec_assumptions_no_output, c_placeholders_single_sorted,
    task_prog_private, task_spec_private.
  destruct (et_repr t); [discriminate|].
  destruct (is_nil (iset_inter pred_dec (ug_input_predicates (et_user_guide t)) (ug_output_predicates (et_user_guide t)))) eqn:E1; cbn [negb]; [|discriminate].
  destruct (ensure_program_tightness is_tight t (et_program t)) as [w1|e|] eqn:E2; [|discriminate|discriminate].
  apply ensure_tight_ok in E2.
  destruct (has_private_recursion (et_program t) _) eqn:E3; [discriminate|].
  destruct (is_nil (iset_inter pred_dec (ug_input_predicates (et_user_guide t)) (head_predicates_fol (et_program t)))) eqn:E4; cbn [negb]; [|discriminate].
  destruct (placeholder_clash_name (ug_placeholders (et_user_guide t)) []) eqn:E5; [discriminate|].
  apply placeholder_clash_name_none in E5. rewrite E5.
  destruct (first_non_input_assumption [] (ug_input_predicates (et_user_guide t)) (ug_formulas (et_user_guide t))) eqn:E6; [discriminate|].
  apply first_non_input_none in E6. rewrite E6.
  destruct (et_specification t) as [p|s].
  - destruct (ensure_program_tightness is_tight t p) as [w2|e|] eqn:E7; [|discriminate|discriminate].
    apply ensure_tight_ok in E7.
    destruct (has_private_recursion p _) eqn:E8; [discriminate|].
    destruct (is_nil (iset_inter pred_dec (ug_input_predicates (et_user_guide t)) (head_predicates_fol p))) eqn:E9; cbn [negb]; [|discriminate].
    intros _. repeat split; cbn; auto.
    destruct (et_bypass_tightness t); cbn; [reflexivity|].
    destruct E2 as [->|E2]; [|discriminate]. destruct E7 as [->|E7]; [reflexivity|discriminate].
  - destruct (first_output_overlap (ug_output_predicates (et_user_guide t)) s) eqn:E7; [discriminate|].
    apply first_output_overlap_none in E7.
    destruct (first_non_input_assumption _ (ug_input_predicates (et_user_guide t)) s); [discriminate|].
    destruct (first_unsupported_role s); [discriminate|].
    intros _. repeat split; cbn; auto.
    destruct (et_bypass_tightness t); cbn; [reflexivity|].
    destruct E2 as [->|E2]; [reflexivity|discriminate].
Qed.

Lemma decompose_validate t w pbs : decompose_ext t = Ok (w, pbs) -> exists w0, validate t = Ok w0.
Proof.
  unfold external_decompose. destruct (external_validate is_tight has_private_recursion t) as [w0|e|]; [eauto|discriminate|discriminate].
Qed.

(* C11_enforce: problems are emitted only under the seven conditions *)
Theorem enforce t w pbs : decompose_ext t = Ok (w, pbs) ->
  c_tight is_tight t = true /\ c_no_private_recursion has_private_recursion t = true /\
  c_no_input_in_head t = true /\ c_io_disjoint t = true /\ c_ug_assumptions_inputs_only t = true /\
  c_spec_assumptions_no_output t = true /\ c_placeholders_single_sorted t = true.
Proof.
  intros Hd. destruct (decompose_validate t w pbs Hd) as [w0 Hv].
  destruct (validate_conditions t w0 Hv) as [H1 [H2 [H3 [H4 [H5 [H6 [H7 _]]]]]]]. auto 10.
Qed.

(* a remark about the RESULT TYPE only (not a property of the checks): a result that is not Ok is
   Err or Panic, and only Ok carries problems.  Kept out of the headline list (audit A11). *)
Lemma result_type_note t :
  (forall w pbs, decompose_ext t <> Ok (w, pbs)) ->
  (exists e, decompose_ext t = Err e) \/ decompose_ext t = Panic.
Proof.
  intros Hn. destruct (decompose_ext t) as [[w pbs]|e|] eqn:E; [exfalso; exact (Hn w pbs eq_refl)|eauto|auto].
Qed.

(* ---------- violated => refused, with an error VALUE (never a panic, never problems) ---------- *)
Lemma validate_never_panics t : validate t <> Panic.
Proof using is_tight has_private_recursion.
  clear tau_star completion simp_classic.
  unfold external_validate, ensure_program_tightness.
  destruct (et_repr t); [discriminate|].
  repeat match goal with
  | |- context [if ?c then _ else _] => destruct c; try discriminate
  | |- context [match et_specification t with _ => _ end] => destruct (et_specification t)
  | |- context [match ?c with Some _ => _ | None => _ end] => destruct c; try discriminate
  end.
Qed.

Definition all_seven (t : ext_task) : bool :=
  c_tight is_tight t && c_no_private_recursion has_private_recursion t && c_no_input_in_head t &&
  c_io_disjoint t && c_ug_assumptions_inputs_only t && c_spec_assumptions_no_output t &&
  c_placeholders_single_sorted t.

(* the errors of the applicability checks (the other variants: representation, roles, outline) *)
Definition applicability_error (e : ext_error) : bool :=
  match e with
  | NonTightProgram _ | ProgramContainsPrivateRecursion _ | InputPredicateInRuleHead _
  | InputOutputPredicatesOverlap _ | AssumptionContainsNonInputSymbols _
  | OutputPredicateInSpecificationAssumption _ | PlaceholdersWithIdenticalNamesDifferentSorts _ => true
  | _ => false
  end.

Theorem violation_refused t : all_seven t = false ->
  exists e, validate t = Err e /\ decompose_ext t = Err e.
Proof.
  intros H. unfold external_decompose.
  destruct (external_validate is_tight has_private_recursion t) as [w|e|] eqn:E.
  - destruct (validate_conditions t w E) as [H1 [H2 [H3 [H4 [H5 [H6 [H7 _]]]]]]].
    unfold all_seven in H. rewrite H1, H2, H3, H4, H5, H6, H7 in H. discriminate.
  - eauto.
  - exfalso. exact (validate_never_panics _ E).
Qed.

(* every error of the validation names a condition that is really violated, AND ITS PAYLOAD NAMES
   THE VIOLATION (audit B16): the program is a program of the task with that defect, the predicate
   list is exactly the overlap, the formula is an assumption of the named part with a predicate that
   is not allowed there, the name is the name of two placeholders of different sorts *)
Definition is_task_program (t : ext_task) (p : program) : Prop :=
  p = et_program t \/ et_specification t = inl p.
Definition error_names_violation (t : ext_task) (e : ext_error) : Prop :=
  let u := et_user_guide t in
  let inputs := ug_input_predicates u in
  let outputs := ug_output_predicates u in
  match e with
  | UnsupportedFormulaRepresentation => et_repr t = ReprMu
  | NonTightProgram p =>
      c_tight is_tight t = false /\ is_task_program t p /\ is_tight p = false
  | ProgramContainsPrivateRecursion p =>
      c_no_private_recursion has_private_recursion t = false /\
      ((p = et_program t /\ has_private_recursion p (task_prog_private t) = true) \/
       (et_specification t = inl p /\ has_private_recursion p (task_spec_private t) = true))
  | InputOutputPredicatesOverlap ps =>
      c_io_disjoint t = false /\ ps = iset_inter pred_dec inputs outputs /\ ps <> [] /\
      forall p, In p ps <-> In p inputs /\ In p outputs
  | InputPredicateInRuleHead ps =>
      c_no_input_in_head t = false /\ ps <> [] /\
      exists prog, is_task_program t prog /\
        ps = iset_inter pred_dec inputs (head_predicates_fol prog) /\
        forall p, In p ps <-> In p inputs /\ In p (head_predicates_fol prog)
  | PlaceholdersWithIdenticalNamesDifferentSorts n =>
      c_placeholders_single_sorted t = false /\
      exists s1 s2, s1 <> s2 /\ In (mkfconst n s1) (ug_placeholders u) /\ In (mkfconst n s2) (ug_placeholders u)
  | OutputPredicateInSpecificationAssumption ps =>
      c_spec_assumptions_no_output t = false /\ ps <> [] /\
      exists s a, et_specification t = inr s /\ In a s /\ an_role a = RAssumption /\
        ps = output_overlap outputs a /\
        forall p, In p ps <-> In p outputs /\ In p (predicates (an_formula a))
  | AssumptionContainsNonInputSymbols a =>
      an_role a = RAssumption /\
      ((c_ug_assumptions_inputs_only t = false /\ In a (ug_formulas u) /\
        exists p, In p (predicates (an_formula a)) /\ ~ In p inputs) \/
       (exists s, et_specification t = inr s /\
          assumptions_only_input (task_prog_private t) inputs s = false /\ In a s /\
          exists p, In p (predicates (an_formula a)) /\ ~ In p (task_prog_private t) /\ ~ In p inputs))
  | SpecificationContainsUnsupportedRoles a =>
      exists s, et_specification t = inr s /\ spec_roles_supported s = false /\
        In a s /\ an_role a <> RAssumption /\ an_role a <> RSpec
  | OutputPredicateInUserGuideAssumption _ | ProofOutlineError _ => False
  end.

Lemma ensure_tight_cases t p :
  (exists w, ensure_program_tightness is_tight t p = Ok w) \/
  (ensure_program_tightness is_tight t p = Err (NonTightProgram p) /\
   is_tight p = false /\ et_bypass_tightness t = false).
Proof.
  unfold ensure_program_tightness. destruct (is_tight p); [left; eauto|].
  destruct (et_bypass_tightness t); [left; eauto|right; auto].
Qed.

Theorem validate_error_sound t e : validate t = Err e -> error_names_violation t e.
Proof using is_tight has_private_recursion.
  clear tau_star completion simp_classic.
  unfold external_validate, error_names_violation, is_task_program.
  destruct (et_repr t) eqn:Er; [intros [= <-]; reflexivity|].
  (* input / output overlap *)
  destruct (is_nil (iset_inter pred_dec (ug_input_predicates (et_user_guide t)) (ug_output_predicates (et_user_guide t)))) eqn:E1; cbn [negb].
  2:{ intros [= <-]. split; [exact E1|]. split; [reflexivity|]. split; [apply is_nil_false, E1|].
      intros p. apply in_iset_inter. }
  (* tightness of the program *)
  destruct (ensure_tight_cases t (et_program t)) as [[w1 ->]|[-> [Ht1 Hb]]].
  2:{ intros [= <-]. split; [|split; [left; reflexivity|exact Ht1]]. unfold c_tight. rewrite Hb, Ht1. reflexivity. }
  (* private recursion of the program *)
  destruct (has_private_recursion (et_program t) _) eqn:E3.
  { intros [= <-]. split; [|left; split; [reflexivity|exact E3]].
    unfold c_no_private_recursion, task_prog_private. rewrite E3. reflexivity. }
  (* input predicates in rule heads of the program *)
  destruct (is_nil (iset_inter pred_dec (ug_input_predicates (et_user_guide t)) (head_predicates_fol (et_program t)))) eqn:E4; cbn [negb].
  2:{ intros [= <-]. split; [unfold c_no_input_in_head; rewrite E4; reflexivity|].
      split; [apply is_nil_false, E4|]. exists (et_program t). split; [left; reflexivity|].
      split; [reflexivity|]. intros p. apply in_iset_inter. }
  (* placeholders *)
  destruct (placeholder_clash_name (ug_placeholders (et_user_guide t)) []) as [n|] eqn:E5.
  { intros [= <-]. split; [|exact (placeholder_clash_name_sorts _ _ E5)].
    unfold c_placeholders_single_sorted.
    destruct (placeholder_clash (ug_placeholders (et_user_guide t)) []) eqn:Ec; [reflexivity|].
    apply placeholder_clash_name_none in Ec. congruence. }
  (* user-guide assumptions *)
  destruct (first_non_input_assumption [] (ug_input_predicates (et_user_guide t)) (ug_formulas (et_user_guide t))) as [a|] eqn:E6.
  { intros [= <-]. destruct (first_non_input_some _ _ _ _ E6) as [Hin [Hr [p [Hp [_ Hni]]]]].
    split; [exact Hr|]. left. split; [exact (bool_not_true_none _ _ (first_non_input_none _ _ _) _ E6)|].
    split; [exact Hin|]. exists p. auto. }
  destruct (et_specification t) as [p|s] eqn:Es.
  - (* specification program *)
    destruct (ensure_tight_cases t p) as [[w2 ->]|[-> [Ht2 Hb]]].
    2:{ intros [= <-]. split; [|split; [right; reflexivity|exact Ht2]].
        unfold c_tight. rewrite Hb, Es, Ht2. apply andb_false_r. }
    destruct (has_private_recursion p _) eqn:E8.
    { intros [= <-]. split.
      - unfold c_no_private_recursion, task_spec_private. rewrite Es, E8. apply andb_false_r.
      - right. split; [reflexivity|]. unfold task_spec_private. rewrite Es. exact E8. }
    destruct (is_nil (iset_inter pred_dec (ug_input_predicates (et_user_guide t)) (head_predicates_fol p))) eqn:E9; cbn [negb]; [discriminate|].
    intros [= <-]. split; [unfold c_no_input_in_head; rewrite Es, E9; apply andb_false_r|].
    split; [apply is_nil_false, E9|]. exists p. split; [right; reflexivity|].
    split; [reflexivity|]. intros q. apply in_iset_inter.
  - (* specification *)
    destruct (first_output_overlap (ug_output_predicates (et_user_guide t)) s) as [ps|] eqn:E7.
    { intros [= <-]. destruct (first_output_overlap_some _ _ _ E7) as [Hne [a [Hin [Hr Eps]]]].
      split; [unfold c_spec_assumptions_no_output; rewrite Es;
              exact (bool_not_true_none _ _ (first_output_overlap_none _ _) _ E7)|].
      split; [exact Hne|]. exists s, a. split; [reflexivity|]. split; [exact Hin|]. split; [exact Hr|].
      split; [exact Eps|]. intros q. rewrite Eps. apply in_output_overlap. }
    destruct (first_non_input_assumption _ (ug_input_predicates (et_user_guide t)) s) as [a|] eqn:E10.
    { intros [= <-]. destruct (first_non_input_some _ _ _ _ E10) as [Hin [Hr [q [Hq [Hnp Hni]]]]].
      split; [exact Hr|]. right. exists s. split; [reflexivity|].
      split; [exact (bool_not_true_none _ _ (first_non_input_none _ _ _) _ E10)|].
      split; [exact Hin|]. exists q. auto. }
    destruct (first_unsupported_role s) as [a|] eqn:E11; [|discriminate].
    intros [= <-]. exists s. split; [reflexivity|].
    split; [exact (bool_not_true_none _ _ (first_unsupported_role_none _) _ E11)|].
    exact (first_unsupported_role_some _ _ E11).
Qed.

(* ... and the variant is the one of the violated condition when it is the only one violated
   (the checks run in source order and stop at the first failure, so with several violations the
   first one in that order is reported: validate_error_sound) *)
Definition variant_index (e : ext_error) : nat :=
  match e with
  | NonTightProgram _ => 1 | ProgramContainsPrivateRecursion _ => 2 | InputPredicateInRuleHead _ => 3
  | InputOutputPredicatesOverlap _ => 4 | AssumptionContainsNonInputSymbols _ => 5
  | OutputPredicateInSpecificationAssumption _ => 6 | PlaceholdersWithIdenticalNamesDifferentSorts _ => 7
  | _ => 0
  end.
Definition condition (k : nat) (t : ext_task) : bool :=
  match k with
  | 1 => c_tight is_tight t | 2 => c_no_private_recursion has_private_recursion t
  | 3 => c_no_input_in_head t | 4 => c_io_disjoint t | 5 => c_ug_assumptions_inputs_only t
  | 6 => c_spec_assumptions_no_output t | _ => c_placeholders_single_sorted t
  end.

Lemma first_non_input_cases pis ins fs :
  (assumptions_only_input pis ins fs = true /\ first_non_input_assumption pis ins fs = None) \/
  (assumptions_only_input pis ins fs = false /\ exists a, first_non_input_assumption pis ins fs = Some a).
Proof.
  destruct (first_non_input_assumption pis ins fs) as [a|] eqn:E.
  - right. split; [exact (bool_not_true_none _ _ (first_non_input_none _ _ _) _ E)|eauto].
  - left. split; [apply first_non_input_none, E|reflexivity].
Qed.
Lemma first_output_overlap_cases outs fs :
  (spec_assumptions_no_output outs fs = true /\ first_output_overlap outs fs = None) \/
  (spec_assumptions_no_output outs fs = false /\ exists ps, first_output_overlap outs fs = Some ps).
Proof.
  destruct (first_output_overlap outs fs) as [a|] eqn:E.
  - right. split; [exact (bool_not_true_none _ _ (first_output_overlap_none _ _) _ E)|eauto].
  - left. split; [apply first_output_overlap_none, E|reflexivity].
Qed.
Lemma placeholder_clash_cases l names :
  (placeholder_clash l names = false /\ placeholder_clash_name l names = None) \/
  (placeholder_clash l names = true /\ exists n, placeholder_clash_name l names = Some n).
Proof.
  destruct (placeholder_clash_name l names) as [n|] eqn:E.
  - right. split; [|eauto]. destruct (placeholder_clash l names) eqn:Ec; [reflexivity|].
    apply placeholder_clash_name_none in Ec. congruence.
  - left. split; [apply placeholder_clash_name_none, E|reflexivity].
Qed.

Lemma single_violation_index t k e : 1 <= k <= 7 -> et_repr t = ReprTauStar ->
  condition k t = false -> (forall j, 1 <= j <= 7 -> j <> k -> condition j t = true) ->
  validate t = Err e -> variant_index e = k.
Proof using is_tight has_private_recursion.
  clear tau_star completion simp_classic.
  intros Hk Hr Hv Ho. revert e.
  assert (H1 := Ho 1). assert (H2 := Ho 2). assert (H3 := Ho 3). assert (H4 := Ho 4).
  assert (H5 := Ho 5). assert (H6 := Ho 6). assert (H7 := Ho 7). clear Ho.
  destruct t as [spec prog ug po dec dir repr byp simp brk]. cbn in Hr. subst repr.
  destruct Hk as [Hk1 Hk7].
  destruct k as [|[|[|[|[|[|[|[|k]]]]]]]]; try lia; clear Hk1 Hk7;
  repeat match goal with H : 1 <= ?j <= 7 -> ?j <> ?i -> _ |- _ =>
    first [specialize (H ltac:(lia) ltac:(lia)) | clear H] end;
  unfold condition, c_tight, c_no_private_recursion, c_no_input_in_head, c_io_disjoint,
    c_ug_assumptions_inputs_only, c_spec_assumptions_no_output, c_placeholders_single_sorted,
    task_prog_private, task_spec_private, external_validate, ensure_program_tightness in *;
  cbn [et_specification et_program et_user_guide et_repr et_bypass_tightness] in *;
  destruct spec as [p|s];
  repeat (match goal with
          | |- context [match first_non_input_assumption ?a ?b ?c with _ => _ end] =>
              destruct (first_non_input_cases a b c) as [[? ->]|[? [? ->]]]
          | |- context [match first_output_overlap ?a ?b with _ => _ end] =>
              destruct (first_output_overlap_cases a b) as [[? ->]|[? [? ->]]]
          | |- context [match placeholder_clash_name ?a ?b with _ => _ end] =>
              destruct (placeholder_clash_cases a b) as [[? ->]|[? [? ->]]]
          | |- context [match first_unsupported_role ?a with _ => _ end] =>
              destruct (first_unsupported_role a)
          | |- context [if negb ?c then _ else _] => destruct c eqn:?; cbn [negb]
          | |- context [if ?c then _ else _] => destruct c eqn:?
          end);
  intros e He; try discriminate He; injection He as <-; cbn [variant_index];
  try reflexivity; exfalso;
  first [congruence |
    repeat match goal with E : ?x = _, H : context [?x] |- _ =>
      lazymatch x with true => fail | false => fail | _ => idtac end; progress (rewrite E in H) end;
    cbn in *; first [congruence | destruct byp; cbn in *; congruence]].
Qed.

Theorem single_violation_variant t k : 1 <= k <= 7 -> et_repr t = ReprTauStar ->
  condition k t = false -> (forall j, 1 <= j <= 7 -> j <> k -> condition j t = true) ->
  exists e, validate t = Err e /\ decompose_ext t = Err e /\
            variant_index e = k /\ error_names_violation t e.
Proof.
  intros Hk Hr Hv Ho.
  assert (Ha : all_seven t = false).
  { unfold all_seven. destruct Hk as [Hk1 Hk7].
    destruct k as [|[|[|[|[|[|[|[|k]]]]]]]]; try lia; cbn [condition] in Hv; rewrite Hv;
      rewrite ?andb_false_r; reflexivity. }
  destruct (violation_refused t Ha) as [e [He Hd]]. exists e.
  split; [exact He|]. split; [exact Hd|].
  split; [exact (single_violation_index t k e Hk Hr Hv Ho He)|exact (validate_error_sound t e He)].
Qed.

(* converse for the validation step: the seven conditions together with the three remaining
   admissibility checks of the code (tau-star representation, specification assumptions over
   input and program-private predicates, supported roles) make the validation succeed *)
Theorem validate_complete t :
  c_tight is_tight t = true -> c_no_private_recursion has_private_recursion t = true ->
  c_no_input_in_head t = true -> c_io_disjoint t = true -> c_ug_assumptions_inputs_only t = true ->
  c_spec_assumptions_no_output t = true -> c_placeholders_single_sorted t = true ->
  et_repr t = ReprTauStar ->
  (forall s, et_specification t = inr s ->
     assumptions_only_input (task_prog_private t) (ug_input_predicates (et_user_guide t)) s = true /\
     spec_roles_supported s = true) ->
  exists w, validate t = Ok w.
Proof using is_tight has_private_recursion.
  clear tau_star completion simp_classic.
  unfold external_validate, c_tight, c_no_private_recursion, c_no_input_in_head, c_io_disjoint,
    c_ug_assumptions_inputs_only, c_spec_assumptions_no_output, c_placeholders_single_sorted,
    task_prog_private, task_spec_private.
  intros H1 H2 H3 H4 H5 H6 H7 Hr Hs. rewrite Hr, H4. cbn [negb].
  apply andb_true_iff in H2. destruct H2 as [H2a H2b]. apply negb_true_iff in H2a.
  apply andb_true_iff in H3. destruct H3 as [H3a H3b]. apply negb_true_iff in H7.
  assert (Ht : forall p, (et_bypass_tightness t || is_tight p = true)%bool -> exists w, ensure_program_tightness is_tight t p = Ok w).
  { intros p Hp. unfold ensure_program_tightness. destruct (is_tight p); [eexists; reflexivity|].
    destruct (et_bypass_tightness t); [eexists; reflexivity|discriminate]. }
  destruct (Ht (et_program t)) as [w1 ->].
  { destruct (et_bypass_tightness t); [reflexivity|]. cbn in H1. apply andb_true_iff in H1. cbn. tauto. }
  apply placeholder_clash_name_none in H7. apply first_non_input_none in H5.
  rewrite H2a, H3a, H7, H5. cbn [negb].
  destruct (et_specification t) as [p|s].
  - destruct (Ht p) as [w2 ->].
    { destruct (et_bypass_tightness t); [reflexivity|]. cbn in H1. apply andb_true_iff in H1. cbn. tauto. }
    apply negb_true_iff in H2b. rewrite H2b, H3b. cbn. eexists; reflexivity.
  - apply first_output_overlap_none in H6. rewrite H6. destruct (Hs s eq_refl) as [Ha Hro].
    apply first_non_input_none in Ha. apply first_unsupported_role_none in Hro.
    rewrite Ha, Hro. eexists; reflexivity.
Qed.
End Enforce.

(* ================= assembled problems ================= *)
Definition pre_problem (name : string) (l : list pformula) : problem := mkproblem name (map normalize_pf l).
Definition finished (name : string) (l : list pformula) : problem :=
  create_unique_formula_names (rename_conflicting_symbols (pre_problem name l)).

Lemma outline_problem_finished name ax c : outline_problem name ax c = finished name (ax ++ [c]).
Proof.
  unfold outline_problem, finished, pre_problem, add_annotated_formulas, with_name. cbn [pb_name pb_formulas].
  rewrite map_app. reflexivity.
Qed.

Lemma normalize_role a : pf_role (normalize_pf a) = pf_role a.
Proof. unfold normalize_pf. destruct (String.eqb (pf_name a) ""); [reflexivity|]. destruct (starts_with_underscore (pf_name a)); reflexivity. Qed.
Lemma normalize_formula a : pf_formula (normalize_pf a) = pf_formula a.
Proof. unfold normalize_pf. destruct (String.eqb (pf_name a) ""); [reflexivity|]. destruct (starts_with_underscore (pf_name a)); reflexivity. Qed.
Lemma filter_normalize r l :
  map pf_formula (filter (fun a => prole_eqb (pf_role a) r) (map normalize_pf l)) =
  map pf_formula (filter (fun a => prole_eqb (pf_role a) r) l).
Proof.
  induction l as [|a l IH]; cbn; [reflexivity|]. rewrite normalize_role.
  destruct (prole_eqb (pf_role a) r); cbn; rewrite ?normalize_formula, IH; reflexivity.
Qed.

Definition ax_forms (l : list pformula) : theory := map pf_formula (filter (fun a => prole_eqb (pf_role a) PAxiom) l).
Definition cj_forms (l : list pformula) : theory := map pf_formula (filter (fun a => prole_eqb (pf_role a) PConjecture) l).

Lemma finished_forms name l : no_clash_problem (pre_problem name l) ->
  map pf_formula (axioms (finished name l)) = ax_forms l /\
  map pf_formula (conjectures (finished name l)) = cj_forms l.
Proof.
  intros Hn. unfold finished. rewrite (rename_id _ Hn).
  unfold axioms, conjectures, create_unique_formula_names, pre_problem, ax_forms, cj_forms. cbn [pb_formulas].
  rewrite !unique_names_filter, !filter_normalize. auto.
Qed.

Lemma ax_forms_app l1 l2 : ax_forms (l1 ++ l2) = ax_forms l1 ++ ax_forms l2.
Proof. unfold ax_forms. rewrite filter_app, map_app. reflexivity. Qed.
Lemma cj_forms_app l1 l2 : cj_forms (l1 ++ l2) = cj_forms l1 ++ cj_forms l2.
Proof. unfold cj_forms. rewrite filter_app, map_app. reflexivity. Qed.
Lemma ax_forms_conj l : all_role PConjecture l -> ax_forms l = [] /\ cj_forms l = map pf_formula l.
Proof.
  intros Hl. unfold ax_forms, cj_forms.
  rewrite (filter_role_all PAxiom PConjecture l Hl), (filter_role_all PConjecture PConjecture l Hl). auto.
Qed.
Lemma ax_forms_ax l : all_role PAxiom l -> ax_forms l = map pf_formula l /\ cj_forms l = [].
Proof.
  intros Hl. unfold ax_forms, cj_forms.
  rewrite (filter_role_all PAxiom PAxiom l Hl), (filter_role_all PConjecture PAxiom l Hl). auto.
Qed.

(* a sufficient condition for the absence of clashes: no symbol of any formula of the task is a
   0-ary predicate of any formula of the task *)
Definition flist_no_clash (fs : list formula) : Prop :=
  forall f g s, In f fs -> In g fs -> In s (symbols f) -> ~ In (mkpred s 0) (predicates g).

Lemma pre_problem_no_clash name l fs : flist_no_clash fs ->
  (forall a, In a l -> In (pf_formula a) fs) -> no_clash_problem (pre_problem name l).
Proof.
  intros Hf Hl a s Ha Hs Hp. unfold pre_problem in *. cbn [pb_formulas] in Ha.
  apply in_map_iff in Ha. destruct Ha as [a0 [<- Ha0]]. rewrite normalize_formula in Hs.
  unfold problem_predicates in Hp. cbn [pb_formulas] in Hp. apply in_extend_all in Hp.
  destruct Hp as [[]|[b [Hb Hp]]]. apply in_map_iff in Hb. destruct Hb as [b0 [<- Hb0]].
  rewrite normalize_formula in Hp.
  exact (Hf _ _ s (Hl _ Ha0) (Hl _ Hb0) Hs Hp).
Qed.

Section Refutes.
Variable FI : fint.
Variable M : pint.
Notation tv := (tvalid FI M).

Lemma finished_refutes name l : no_clash_problem (pre_problem name l) ->
  (refutes FI M (finished name l) <-> tv (ax_forms l) /\ ~ tv (cj_forms l)).
Proof.
  intros Hn. destruct (finished_forms name l Hn) as [Ea Ec].
  rewrite refutes_forms, Ea, Ec, not_tvalid_exists. reflexivity.
Qed.

(* ---------- the outline problems: which axioms each of them sees (C13_order) ---------- *)
Definition outline_name (prefix : string) (i j : N) : string :=
  (prefix ++ "_outline_" ++ nat_str i ++ "_" ++ nat_str j)%string.

Lemma lemma_problems_in prefix i ax : forall cs j p,
  In p (lemma_problems prefix i ax j cs) <->
  exists k c, nth_error cs k = Some c /\ p = outline_problem (outline_name prefix i (j + N.of_nat k)) ax c.
Proof.
  induction cs as [|c cs IH]; intros j p; cbn.
  - split; [tauto|]. intros [k [c [Hk _]]]. destruct k; discriminate.
  - rewrite IH. split.
    + intros [<-|[k [c' [Hk ->]]]].
      * exists 0%nat, c. split; [reflexivity|]. unfold outline_name. rewrite N.add_0_r. reflexivity.
      * exists (S k), c'. split; [exact Hk|]. f_equal. f_equal. lia.
    + intros [k [c' [Hk ->]]]. destruct k as [|k]; cbn in Hk.
      * injection Hk as <-. left. unfold outline_name. rewrite N.add_0_r. reflexivity.
      * right. exists k, c'. split; [exact Hk|]. f_equal. f_equal. lia.
Qed.

(* C13_order: the problems emitted for the lemmas are exactly, for the k-th lemma g and its j-th
   conjecture c, the problem whose axioms are the initial axioms followed by the consequences of
   the lemmas BEFORE k, and whose conjecture is c *)
Theorem outline_problems_in prefix : forall ls i ax p,
  In p (outline_problems prefix i ax ls) <->
  exists k g j c, nth_error ls k = Some g /\ nth_error (gl_conjectures g) j = Some c /\
    p = outline_problem (outline_name prefix (i + N.of_nat k) (N.of_nat j))
          (ax ++ flat_map gl_consequences (firstn k ls)) c.
Proof.
  induction ls as [|g ls IH]; intros i ax p; cbn [outline_problems].
  - split; [intros []|]. intros [k [g [j [c [Hk _]]]]]. destruct k; discriminate.
  - rewrite in_app_iff, lemma_problems_in, IH. split.
    + intros [[j [c [Hj ->]]]|[k [g' [j [c [Hk [Hj ->]]]]]]].
      * exists 0%nat, g, j, c. split; [reflexivity|]. split; [exact Hj|].
        cbn. rewrite app_nil_r, N.add_0_r. reflexivity.
      * exists (S k), g', j, c. split; [exact Hk|]. split; [exact Hj|].
        cbn [firstn flat_map]. rewrite <- app_assoc. f_equal. f_equal. lia.
    + intros [k [g' [j [c [Hk [Hj ->]]]]]]. destruct k as [|k]; cbn in Hk.
      * injection Hk as <-. left. exists j, c. split; [exact Hj|].
        cbn. rewrite app_nil_r, N.add_0_r. reflexivity.
      * right. exists k, g', j, c. split; [exact Hk|]. split; [exact Hj|].
        cbn [firstn flat_map]. rewrite <- app_assoc. f_equal. f_equal. lia.
Qed.
End Refutes.

(* ================= C19 for external tasks: eq-break and decomposition ================= *)
(* all formulas that can occur in a problem of an assembled task *)
Definition lemma_forms (g : general_lemma) : list formula :=
  map pf_formula (gl_conjectures g) ++ map pf_formula (gl_consequences g).
Definition at_formulas (t : assembled_task) : list formula :=
  map pf_formula (at_stable_premises t) ++ map pf_formula (at_forward_premises t)
  ++ map pf_formula (at_forward_conclusions t) ++ map pf_formula (at_backward_premises t)
  ++ map pf_formula (at_backward_conclusions t)
  ++ map an_formula (forward_definitions (at_proof_outline t))
  ++ map an_formula (backward_definitions (at_proof_outline t))
  ++ flat_map lemma_forms (forward_lemmas (at_proof_outline t))
  ++ flat_map lemma_forms (backward_lemmas (at_proof_outline t)).
Definition assembled_no_clash (t : assembled_task) : Prop := flist_no_clash (at_formulas t).
Definition validated_no_clash (vt : validated_task) : Prop :=
  forall w a, validated_assemble vt = Some (w, a) -> assembled_no_clash a.

(* the final problem of a direction *)
Lemma final_problem_eq name stable premises lemmas conclusions dec :
  final_problem name stable premises lemmas conclusions dec =
  decompose (finished name (stable ++ premises ++ flat_map gl_consequences lemmas ++ conclusions)) dec.
Proof.
  unfold final_problem, finished, pre_problem, add_annotated_formulas, with_name. cbn [pb_name pb_formulas].
  rewrite !map_app, <- !app_assoc. reflexivity.
Qed.

Section BreakDec.
Variable FI : fint.
Variable M : pint.
Notation tv := (tvalid FI M).

Lemma tv_app t1 t2 : tv (t1 ++ t2) <-> tv t1 /\ tv t2.
Proof. apply tvalid_app. Qed.

(* refutation of the final problems of a direction, for conclusions that are all conjectures *)
Lemma final_refutes name stable premises lemmas conclusions dec :
  no_clash_problem (pre_problem name (stable ++ premises ++ flat_map gl_consequences lemmas ++ conclusions)) ->
  all_role PConjecture conclusions ->
  (refutes_some FI M (final_problem name stable premises lemmas conclusions dec) <->
   tv (ax_forms (stable ++ premises ++ flat_map gl_consequences lemmas)) /\
   ~ (tv (cj_forms (stable ++ premises ++ flat_map gl_consequences lemmas)) /\ tv (map pf_formula conclusions))).
Proof.
  intros Hn Hc. rewrite final_problem_eq, decompose_refutes, (finished_refutes FI M _ _ Hn).
  destruct (ax_forms_conj conclusions Hc) as [Ea Ec].
  rewrite !app_assoc. rewrite ax_forms_app, cj_forms_app, Ea, Ec, app_nil_r, tv_app.
  rewrite <- !app_assoc. reflexivity.
Qed.
End BreakDec.

(* conclusions with and without equivalence breaking *)
Lemma annotate_from_forms a l : forall i, map an_formula (annotate_from a i l) = l.
Proof. induction l as [|f l IH]; intros i; cbn; [reflexivity|]. rewrite IH. reflexivity. Qed.
Lemma conclusions_of_forms brk a :
  map pf_formula (conclusions_of brk a) =
  if brk then break_equivalences_formula (an_formula a) else [an_formula a].
Proof.
  unfold conclusions_of. destruct brk; [|reflexivity].
  rewrite map_map. cbn. unfold break_equivalences_annotated_formula.
  rewrite <- (annotate_from_forms a (break_equivalences_formula (an_formula a)) 0) at 2.
  reflexivity.
Qed.
Lemma conclusions_of_role brk a : all_role PConjecture (conclusions_of brk a).
Proof.
  unfold conclusions_of. destruct brk.
  - intros x Hx. apply in_map_iff in Hx. destruct Hx as [b [<- _]]. reflexivity.
  - intros x [<-|[]]. reflexivity.
Qed.
Lemma conclusions_of_valid FI M brk brk' a :
  tvalid FI M (map pf_formula (conclusions_of brk a)) <-> tvalid FI M (map pf_formula (conclusions_of brk' a)).
Proof.
  assert (H : forall b, tvalid FI M (map pf_formula (conclusions_of b a)) <-> cvalid FI M (an_formula a)).
  { intros b. rewrite conclusions_of_forms. destruct b.
    - unfold tvalid. symmetry. apply break_cvalid.
    - unfold tvalid. split; [intros Hv; apply Hv; left; reflexivity|intros Hv f [<-|[]]; exact Hv]. }
  rewrite (H brk), (H brk'). reflexivity.
Qed.

(* two accumulators of the validated task that differ only in how conclusions were broken *)
Definition vacc_rel (s s' : vacc) : Prop :=
  va_stable s = va_stable s' /\ va_fp s = va_fp s' /\ va_bp s = va_bp s' /\ va_warn s = va_warn s' /\
  all_role PConjecture (va_fc s) /\ all_role PConjecture (va_fc s') /\
  all_role PConjecture (va_bc s) /\ all_role PConjecture (va_bc s') /\
  (forall FI M, tvalid FI M (map pf_formula (va_fc s)) <-> tvalid FI M (map pf_formula (va_fc s'))) /\
  (forall FI M, tvalid FI M (map pf_formula (va_bc s)) <-> tvalid FI M (map pf_formula (va_bc s'))).

Lemma all_role_app r l1 l2 : all_role r l1 -> all_role r l2 -> all_role r (l1 ++ l2).
Proof. intros H1 H2 a Ha. apply in_app_iff in Ha. destruct Ha; auto. Qed.
Lemma tvalid_app_congr FI M a a' b b' :
  (tvalid FI M a <-> tvalid FI M a') -> (tvalid FI M b <-> tvalid FI M b') ->
  (tvalid FI M (a ++ b) <-> tvalid FI M (a' ++ b')).
Proof. intros H1 H2. rewrite !tvalid_app. tauto. Qed.

Lemma left_step_rel brk brk' s s' a : vacc_rel s s' ->
  match validated_left_step brk s a, validated_left_step brk' s' a with
  | Some r, Some r' => vacc_rel r r'
  | None, None => True
  | _, _ => False
  end.
Proof.
  intros [E1 [E2 [E3 [E4 [R1 [R2 [R3 [R4 [V1 V2]]]]]]]]].
  unfold validated_left_step. destruct (an_role a); auto.
  - destruct (an_dir a); unfold vacc_rel; cbn; rewrite ?E1, ?E2, ?E3, ?E4;
      (split; [reflexivity|]); (split; [reflexivity|]); (split; [reflexivity|]); (split; [reflexivity|]);
      (split; [exact R1|]); (split; [exact R2|]); (split; [exact R3|]); (split; [exact R4|]);
      (split; [exact V1|exact V2]).
  - unfold vacc_rel; cbn. rewrite ?E1, ?E2, ?E3, ?E4.
    (split; [reflexivity|]); (split; [reflexivity|]); (split; [reflexivity|]); (split; [reflexivity|]).
    (split; [exact R1|]); (split; [exact R2|]).
    split; [destruct (dir_backward (an_dir a)); [apply all_role_app; [exact R3|apply conclusions_of_role]|exact R3]|].
    split; [destruct (dir_backward (an_dir a)); [apply all_role_app; [exact R4|apply conclusions_of_role]|exact R4]|].
    split; [exact V1|]. intros FI M.
    destruct (dir_backward (an_dir a)); [|apply V2]. rewrite !map_app.
    apply tvalid_app_congr; [apply V2|apply conclusions_of_valid].
Qed.
Lemma right_step_rel brk brk' s s' a : vacc_rel s s' ->
  match validated_right_step brk s a, validated_right_step brk' s' a with
  | Some r, Some r' => vacc_rel r r'
  | None, None => True
  | _, _ => False
  end.
Proof.
  intros [E1 [E2 [E3 [E4 [R1 [R2 [R3 [R4 [V1 V2]]]]]]]]].
  unfold validated_right_step. destruct (an_role a); auto.
  - destruct (an_dir a); unfold vacc_rel; cbn; rewrite ?E1, ?E2, ?E3, ?E4;
      (split; [reflexivity|]); (split; [reflexivity|]); (split; [reflexivity|]); (split; [reflexivity|]);
      (split; [exact R1|]); (split; [exact R2|]); (split; [exact R3|]); (split; [exact R4|]);
      (split; [exact V1|exact V2]).
  - unfold vacc_rel; cbn. rewrite ?E1, ?E2, ?E3, ?E4.
    (split; [reflexivity|]); (split; [reflexivity|]); (split; [reflexivity|]); (split; [reflexivity|]).
    split; [destruct (dir_forward (an_dir a)); [apply all_role_app; [exact R1|apply conclusions_of_role]|exact R1]|].
    split; [destruct (dir_forward (an_dir a)); [apply all_role_app; [exact R2|apply conclusions_of_role]|exact R2]|].
    (split; [exact R3|]); (split; [exact R4|]).
    split; [|exact V2]. intros FI M.
    destruct (dir_forward (an_dir a)); [|apply V1]. rewrite !map_app.
    apply tvalid_app_congr; [apply V1|apply conclusions_of_valid].
Qed.

Lemma fold_rel (f f' : vacc -> aformula_annot -> option vacc) :
  (forall s s' a, vacc_rel s s' ->
     match f s a, f' s' a with Some r, Some r' => vacc_rel r r' | None, None => True | _, _ => False end) ->
  forall l s s', vacc_rel s s' ->
    match fold_opt f l s, fold_opt f' l s' with Some r, Some r' => vacc_rel r r' | None, None => True | _, _ => False end.
Proof.
  intros Hstep. induction l as [|a l IH]; intros s s' Hr; cbn; [exact Hr|].
  specialize (Hstep s s' a Hr). destruct (f s a) as [r|], (f' s' a) as [r'|]; try contradiction; [|exact I].
  apply IH, Hstep.
Qed.

Lemma vacc_rel_refl s : all_role PConjecture (va_fc s) -> all_role PConjecture (va_bc s) -> vacc_rel s s.
Proof. intros H1 H2. repeat split; auto. Qed.

(* the family of one direction, for related conclusions *)
Lemma direction_refutes FI M prefix stable premises defs lemmas cs cs' dec dec' :
  no_clash_problem (pre_problem (prefix ++ "_problem") (stable ++ premises ++ flat_map gl_consequences lemmas ++ cs)) ->
  no_clash_problem (pre_problem (prefix ++ "_problem") (stable ++ premises ++ flat_map gl_consequences lemmas ++ cs')) ->
  all_role PConjecture cs -> all_role PConjecture cs' ->
  (tvalid FI M (map pf_formula cs) <-> tvalid FI M (map pf_formula cs')) ->
  (refutes_some FI M (direction_problems prefix stable premises defs lemmas cs dec) <->
   refutes_some FI M (direction_problems prefix stable premises defs lemmas cs' dec')).
Proof.
  intros Hn Hn' Hc Hc' Hv. unfold direction_problems. rewrite !refutes_some_app.
  rewrite (final_refutes FI M _ _ _ _ _ dec Hn Hc), (final_refutes FI M _ _ _ _ _ dec' Hn' Hc'), Hv. reflexivity.
Qed.

Lemma in_at_formulas_final t (fwd : bool) a :
  In a ((at_stable_premises t)
        ++ (if fwd then at_forward_premises t else at_backward_premises t)
        ++ flat_map gl_consequences (if fwd then forward_lemmas (at_proof_outline t) else backward_lemmas (at_proof_outline t))
        ++ (if fwd then at_forward_conclusions t else at_backward_conclusions t)) ->
  In (pf_formula a) (at_formulas t).
Proof.
  unfold at_formulas. rewrite !in_app_iff. intros [H|[H|[H|H]]].
  - left. apply in_map, H.
  - destruct fwd; [right; left; apply in_map, H|do 3 right; left; apply in_map, H].
  - apply in_flat_map in H. destruct H as [g [Hg Ha]].
    destruct fwd; [do 7 right; left|do 8 right]; apply in_flat_map; exists g; split; auto;
      unfold lemma_forms; apply in_app_iff; right; apply in_map, Ha.
  - destruct fwd; [do 2 right; left; apply in_map, H|do 4 right; left; apply in_map, H].
Qed.

Theorem external_break_dec (vt vt' : validated_task) :
  vt_left vt = vt_left vt' -> vt_right vt = vt_right vt' ->
  vt_user_guide_assumptions vt = vt_user_guide_assumptions vt' ->
  vt_proof_outline vt = vt_proof_outline vt' -> vt_direction vt = vt_direction vt' ->
  forall w pbs w' pbs',
    validated_decompose vt = Ok (w, pbs) -> validated_decompose vt' = Ok (w', pbs') ->
    validated_no_clash vt -> validated_no_clash vt' ->
    forall (FI : fint) (M : pint), refutes_some FI M pbs <-> refutes_some FI M pbs'.
Proof.
  intros EL ER EU EO ED w pbs w' pbs' Hd Hd' Hn Hn' FI M.
  unfold validated_decompose in Hd, Hd'.
  destruct (validated_assemble vt) as [[w0 a]|] eqn:Ea; [|discriminate]. injection Hd as <- <-.
  destruct (validated_assemble vt') as [[w0' a']|] eqn:Ea'; [|discriminate]. injection Hd' as <- <-.
  specialize (Hn _ _ Ea). specialize (Hn' _ _ Ea').
  unfold validated_assemble in Ea, Ea'. rewrite <- EL, <- ER, <- EU in Ea'.
  set (s0 := mkvacc (map (fun a => into_problem_formula a PAxiom) (vt_user_guide_assumptions vt)) [] [] [] [] []) in *.
  assert (R0 : vacc_rel s0 s0) by (apply vacc_rel_refl; intros x []).
  pose proof (fold_rel _ _ (left_step_rel (vt_break vt) (vt_break vt')) (vt_left vt) s0 s0 R0) as R1.
  destruct (fold_opt (validated_left_step (vt_break vt)) (vt_left vt) s0) as [s1|]; [|discriminate].
  destruct (fold_opt (validated_left_step (vt_break vt')) (vt_left vt) s0) as [s1'|]; [|discriminate].
  pose proof (fold_rel _ _ (right_step_rel (vt_break vt) (vt_break vt')) (vt_right vt) s1 s1' R1) as R2.
  destruct (fold_opt (validated_right_step (vt_break vt)) (vt_right vt) s1) as [s|]; [|discriminate].
  destruct (fold_opt (validated_right_step (vt_break vt')) (vt_right vt) s1') as [s'|]; [|discriminate].
  injection Ea as _ <-. injection Ea' as _ <-.
  destruct R2 as [E1 [E2 [E3 [E4 [R1' [R2' [R3' [R4' [V1 V2]]]]]]]]].
  unfold assembled_decompose. cbn [at_direction at_stable_premises at_forward_premises at_forward_conclusions
    at_backward_premises at_backward_conclusions at_proof_outline at_decomposition].
  rewrite <- EO, <- ED, <- E1, <- E2, <- E3. rewrite !refutes_some_app.
  assert (Hf : dir_forward (vt_direction vt) = true ->
    (refutes_some FI M (direction_problems "forward" (va_stable s) (va_fp s) (forward_definitions (vt_proof_outline vt))
        (forward_lemmas (vt_proof_outline vt)) (va_fc s) (vt_decomposition vt)) <->
     refutes_some FI M (direction_problems "forward" (va_stable s) (va_fp s) (forward_definitions (vt_proof_outline vt))
        (forward_lemmas (vt_proof_outline vt)) (va_fc s') (vt_decomposition vt')))).
  { intros _. apply direction_refutes; auto.
    - apply (pre_problem_no_clash _ _ _ Hn). intros x Hx. apply (in_at_formulas_final _ true x). exact Hx.
    - apply (pre_problem_no_clash _ _ _ Hn'). intros x Hx. apply (in_at_formulas_final _ true x).
      cbn. rewrite <- EO, <- E1, <- E2. exact Hx. }
  assert (Hb : dir_backward (vt_direction vt) = true ->
    (refutes_some FI M (direction_problems "backward" (va_stable s) (va_bp s) (backward_definitions (vt_proof_outline vt))
        (backward_lemmas (vt_proof_outline vt)) (va_bc s) (vt_decomposition vt)) <->
     refutes_some FI M (direction_problems "backward" (va_stable s) (va_bp s) (backward_definitions (vt_proof_outline vt))
        (backward_lemmas (vt_proof_outline vt)) (va_bc s') (vt_decomposition vt')))).
  { intros _. apply direction_refutes; auto.
    - apply (pre_problem_no_clash _ _ _ Hn). intros x Hx. apply (in_at_formulas_final _ false x). exact Hx.
    - apply (pre_problem_no_clash _ _ _ Hn'). intros x Hx. apply (in_at_formulas_final _ false x).
      cbn. rewrite <- EO, <- E1, <- E3. exact Hx. }
  destruct (dir_forward (vt_direction vt)), (dir_backward (vt_direction vt));
    rewrite ?(Hf eq_refl), ?(Hb eq_refl); reflexivity.
Qed.
