(* C11 (regularity part) and the totality half of C08: natural_rule never panics, accepts exactly
   the regular rules, and mu has one formula per rule.

   [regular_rule] is an INDUCTIVE transcription of the documented definition of regular rules,
   /repo/res/manual/src/analyze.md, section "Regularity":

     "a rule fulfilling the following restrictions is called regular: Its body contains only terms
      regular of first kind and/or comparisons of first or second kind. [...] Its head is either
      empty (constraint), an atom (basic rule) or an atom in braces (choice rule).  It contains only
      terms regular of first and/or second kind.
      A term is called regular of first kind if it - is a Variable - is a precomputed term [...]
      - makes use of only Multiplication, Addition and Substraction and does not contain symbolic
      constants, #inf or #sup.
      A term is called regular of second kind if it is of form t1..t2 where t1 and t2 are regular
      of first kind and do not contain symbolic constants, #inf or #sup.
      A comparison of first kind is of form t1 c t2 where t1 and t2 are regular of first kind and c
      is any comparison operator.  A comparison of second kind is of form t1=t2, where t1 is regular
      of first kind and t2 is regular of second kind."

   Reading decisions (also in docs/C08.md): unary minus counts as a use of subtraction (-t is 0-t,
   as in Sem/AspRef.v and in tau-star); "the body contains only terms regular of first kind" is read
   as: every argument of every body literal is regular of the first kind. *)
From Coq Require Import List Ascii String ZArith Bool Lia.
From Anthem Require Import Base.ISet Syntax.Fol Syntax.Asp Model.Natural Model.Regularity Model.Mu
  Proofs.NatTerms Proofs.NatFresh Proofs.NaturalOk.
Import ListNotations.
Open Scope string_scope.
Open Scope list_scope.

(* ---------- the documented definition ---------- *)
(* t contains a symbolic constant, #inf or #sup *)
Inductive has_sym : term -> Prop :=
| HS_sym s : has_sym (TPre (PSym s))
| HS_inf : has_sym (TPre PInf)
| HS_sup : has_sym (TPre PSup)
| HS_un o t : has_sym t -> has_sym (TUn o t)
| HS_bin_l o l r : has_sym l -> has_sym (TBin o l r)
| HS_bin_r o l r : has_sym r -> has_sym (TBin o l r).

(* t makes use of only multiplication, addition and subtraction (unary minus = 0 - t) *)
Inductive only_arith : term -> Prop :=
| OA_var x : only_arith (TVar x)
| OA_pre p : only_arith (TPre p)
| OA_neg t : only_arith t -> only_arith (TUn AUNeg t)
| OA_add l r : only_arith l -> only_arith r -> only_arith (TBin AAdd l r)
| OA_sub l r : only_arith l -> only_arith r -> only_arith (TBin ASub l r)
| OA_mul l r : only_arith l -> only_arith r -> only_arith (TBin AMul l r).

Inductive regular_first_kind : term -> Prop :=
| R1_var x : regular_first_kind (TVar x)
| R1_pre p : regular_first_kind (TPre p)
| R1_arith t : only_arith t -> ~ has_sym t -> regular_first_kind t.

Inductive regular_second_kind : term -> Prop :=
| R2_interval t1 t2 :
    regular_first_kind t1 -> ~ has_sym t1 -> regular_first_kind t2 -> ~ has_sym t2 ->
    regular_second_kind (TBin AInterval t1 t2).

Inductive regular_body_item : bformula -> Prop :=
| RB_literal l : Forall regular_first_kind (aterms (latom l)) -> regular_body_item (BLit l)
| RB_comparison_first_kind c :
    regular_first_kind (clhs c) -> regular_first_kind (crhs c) -> regular_body_item (BCmp c)
| RB_comparison_second_kind c :
    crel c = AEq -> regular_first_kind (clhs c) -> regular_second_kind (crhs c) -> regular_body_item (BCmp c).

Inductive regular_head : head -> Prop :=
| RH_constraint : regular_head HFalsity
| RH_basic a : Forall (fun t => regular_first_kind t \/ regular_second_kind t) (aterms a) -> regular_head (HBasic a)
| RH_choice a : Forall (fun t => regular_first_kind t \/ regular_second_kind t) (aterms a) -> regular_head (HChoice a).

Inductive regular_rule : rule -> Prop :=
| RR r : regular_head (rhead r) -> Forall regular_body_item (rbody r) -> regular_rule r.

(* ---------- the code's tests against the definition ---------- *)
Lemma contains_spec t : contains_symbol_or_infimum_or_supremum t = true <-> has_sym t.
Proof.
  induction t as [p|y|o t IH|o l IHl r IHr]; cbn.
  - destruct p; split; try discriminate; try constructor; intros H; inversion H.
  - split; [discriminate|intros H; inversion H].
  - destruct o. rewrite IH. split; [constructor; auto|intros H; inversion H; auto].
  - rewrite orb_true_iff, IHl, IHr. split.
    + intros [?|?]; [apply HS_bin_l|apply HS_bin_r]; auto.
    + intros H; inversion H; auto.
Qed.
Lemma contains_false t : contains_symbol_or_infimum_or_supremum t = false <-> ~ has_sym t.
Proof. rewrite <- contains_spec. destruct (contains_symbol_or_infimum_or_supremum t); split; congruence. Qed.

Lemma arithb_spec t : arithb t = true <-> only_arith t /\ ~ has_sym t.
Proof.
  induction t as [p|y|o t IH|o l IHl r IHr].
  - unfold arithb. cbn [is_term_regular_of_first_kind]. rewrite andb_true_l, negb_true_iff, contains_false.
    split; [intros; split; [constructor|auto]|tauto].
  - unfold arithb. cbn. split; [intros _; split; [constructor|intros H; inversion H]|auto].
  - destruct o. split.
    + intros H. pose proof (arithb_op _ H eq_refl) as H'. apply IH in H'. destruct H' as [A B].
      split; [constructor; auto|intros Hs; inversion Hs; auto].
    + intros [A B]. inversion A; subst. assert (Ht : arithb t = true).
      { apply IH. split; auto. intros Hs. apply B. constructor; auto. }
      unfold arithb. rewrite first_kind_un, Ht. cbn. unfold arithb in Ht.
      apply andb_true_iff in Ht. tauto.
  - split.
    + intros H. pose proof (arithb_op _ H eq_refl) as [Ho [Hl Hr]].
      apply IHl in Hl. apply IHr in Hr. destruct Hl as [A1 B1], Hr as [A2 B2]. split.
      * destruct Ho as [->|[->| ->]]; constructor; auto.
      * intros Hs; inversion Hs; auto.
    + intros [A B].
      assert (Hl : arithb l = true).
      { apply IHl. split; [inversion A; auto|intros Hs; apply B; apply HS_bin_l; auto]. }
      assert (Hr : arithb r = true).
      { apply IHr. split; [inversion A; auto|intros Hs; apply B; apply HS_bin_r; auto]. }
      unfold arithb. rewrite first_kind_bin.
      assert (Hc : contains_symbol_or_infimum_or_supremum (TBin o l r) = false).
      { apply contains_false. exact B. }
      rewrite Hc, Hl, Hr. inversion A; reflexivity.
Qed.

Lemma first_kind_spec t : is_term_regular_of_first_kind t = true <-> regular_first_kind t.
Proof.
  split.
  - intros H. destruct t as [p|y|o t|o l r].
    + apply R1_pre.
    + apply R1_var.
    + apply R1_arith; apply (arithb_spec (TUn o t)); apply first_kind_op_arith; auto.
    + apply R1_arith; apply (arithb_spec (TBin o l r)); apply first_kind_op_arith; auto.
  - intros H. inversion H as [x|p|t' A B]; subst; auto.
    assert (Ha : arithb t = true) by (apply arithb_spec; auto).
    unfold arithb in Ha. apply andb_true_iff in Ha. tauto.
Qed.

Lemma second_kind_reg t : is_term_regular_of_second_kind t = true <-> regular_second_kind t.
Proof.
  rewrite second_kind_spec. split.
  - intros [l [r [-> [A B]]]]. apply arithb_spec in A, B. destruct A as [A1 A2], B as [B1 B2].
    constructor; auto; apply R1_arith; auto.
  - intros H. inversion H as [t1 t2 A1 A2 B1 B2]; subst. exists t1, t2. split; auto.
    apply first_kind_spec in A1, B1. apply contains_false in A2, B2.
    unfold arithb. rewrite A1, A2, B1, B2. auto.
Qed.

(* ---------- boolean form of regular_rule ---------- *)
Definition head_term_b (t : term) : bool :=
  is_term_regular_of_first_kind t || is_term_regular_of_second_kind t.
Definition regular_headb (h : head) : bool :=
  match h with HFalsity => true | HBasic a | HChoice a => forallb head_term_b (aterms a) end.
Definition regular_body_itemb (b : bformula) : bool :=
  match b with
  | BLit l => forallb is_term_regular_of_first_kind (aterms (latom l))
  | BCmp c =>
      is_term_regular_of_first_kind (clhs c) &&
      (eq_interval c || is_term_regular_of_first_kind (crhs c))
  end.
Definition regular_ruleb (r : rule) : bool :=
  regular_headb (rhead r) && forallb regular_body_itemb (rbody r).

Lemma forallb_Forall {A} (f : A -> bool) (P : A -> Prop) l :
  (forall x, f x = true <-> P x) -> (forallb f l = true <-> Forall P l).
Proof.
  intros Hf. rewrite forallb_forall, Forall_forall. split; intros H x Hx; apply Hf; auto.
Qed.

Lemma regular_ruleb_spec r : regular_ruleb r = true <-> regular_rule r.
Proof.
  unfold regular_ruleb. rewrite andb_true_iff.
  assert (Hh : regular_headb (rhead r) = true <-> regular_head (rhead r)).
  { assert (Ht : forall t, head_term_b t = true <-> regular_first_kind t \/ regular_second_kind t).
    { intros t. unfold head_term_b. rewrite orb_true_iff, first_kind_spec, second_kind_reg. tauto. }
    destruct (rhead r) as [a|a|]; cbn.
    - rewrite (forallb_Forall _ _ _ Ht). split; [constructor; auto|intros H; inversion H; auto].
    - rewrite (forallb_Forall _ _ _ Ht). split; [constructor; auto|intros H; inversion H; auto].
    - split; [constructor|auto]. }
  assert (Hb : forallb regular_body_itemb (rbody r) = true <-> Forall regular_body_item (rbody r)).
  { apply forallb_Forall. intros b. destruct b as [l|c]; cbn.
    - rewrite (forallb_Forall _ _ _ first_kind_spec). split; [constructor; auto|intros H; inversion H; auto].
    - rewrite andb_true_iff, orb_true_iff, !first_kind_spec. unfold eq_interval.
      rewrite andb_true_iff, second_kind_reg. split.
      + intros [A [[B C]|B]]; [apply RB_comparison_second_kind; auto; destruct (crel c); try discriminate; reflexivity
                              |apply RB_comparison_first_kind; auto].
      + intros H; inversion H as [|c' A B|c' E A B]; subst; [tauto|]. rewrite E. tauto. }
  rewrite Hh, Hb. split; [intros [A B]; constructor; auto|intros H; inversion H; auto].
Qed.

Lemma forallb_false_ex' {A} (f : A -> bool) l : forallb f l = false -> exists x, In x l /\ f x = false.
Proof.
  induction l as [|a l IH]; cbn; [discriminate|].
  destruct (f a) eqn:E; cbn; [intros H; destruct (IH H) as [x [? ?]]; eauto|eauto].
Qed.

(* ---------- what natural_rule returns ---------- *)
Lemma p2f_none t iv : is_term_regular_of_first_kind t = false -> p2f t iv = None.
Proof. intros H. unfold p2f. rewrite H. reflexivity. Qed.

Lemma collect_options_some {A B} (f : A -> option B) l :
  (forall x, In x l -> exists y, f x = Some y) -> exists ys, collect_options f l = Some ys.
Proof.
  induction l as [|x l IH]; intros H; cbn; [eauto|].
  destruct (H x (or_introl eq_refl)) as [y ->].
  destruct IH as [ys ->]; [intros; apply H; cbn; auto|]. eauto.
Qed.
Lemma collect_options_none {A B} (f : A -> option B) l x :
  In x l -> f x = None -> collect_options f l = None.
Proof.
  induction l as [|a l IH]; intros Hin Hx; [destruct Hin|]. cbn.
  destruct Hin as [->|Hin]; [rewrite Hx; reflexivity|].
  destruct (f a); [|reflexivity]. rewrite IH; auto.
Qed.

Lemma body_item_result iv b :
  (regular_body_itemb b = true ->
     exists f, match b with BLit l => natural_b_literal l iv | BCmp c => natural_comparison c iv end = Some f) /\
  (regular_body_itemb b = false ->
     match b with BLit l => natural_b_literal l iv | BCmp c => natural_comparison c iv end = None).
Proof.
  destruct b as [l|c]; cbn [regular_body_itemb].
  - unfold natural_b_literal, natural_b_atom. split.
    + intros H. rewrite forallb_forall in H.
      destruct (collect_options_some (fun t => p2f t iv) (aterms (latom l))) as [ys ->].
      { intros t Ht. apply p2f_total. apply H; auto. }
      eauto.
    + intros H. apply forallb_false_ex' in H. destruct H as [t [Ht Hf]].
      rewrite (collect_options_none (fun t => p2f t iv) _ t Ht (p2f_none t iv Hf)). reflexivity.
  - unfold natural_comparison, eq_interval. split.
    + intros H. apply andb_true_iff in H. destruct H as [Hl Hr].
      destruct (p2f_total (clhs c) iv Hl) as [gl ->].
      assert (Erel : (match arel_to_rel (crel c) with REq => true | _ => false end)
                     = (match crel c with AEq => true | _ => false end)) by (destruct (crel c); reflexivity).
      rewrite Erel.
      destruct ((match crel c with AEq => true | _ => false end) && is_term_regular_of_second_kind (crhs c)) eqn:Ei.
      * apply andb_true_iff in Ei. destruct Ei as [_ Hs]. apply second_kind_spec in Hs.
        destruct Hs as [t2 [t3 [-> [A2 A3]]]].
        unfold arithb in A2, A3. apply andb_true_iff in A2, A3.
        destruct (p2f_total t2 iv (proj1 A2)) as [g2 ->]. destruct (p2f_total t3 iv (proj1 A3)) as [g3 ->]. eauto.
      * cbn in Hr. destruct (p2f_total (crhs c) iv Hr) as [gr ->]. eauto.
    + intros H. apply andb_false_iff in H.
      destruct (is_term_regular_of_first_kind (clhs c)) eqn:Hl.
      * destruct H as [H|H]; [discriminate|]. apply orb_false_iff in H. destruct H as [Hi Hr].
        destruct (p2f_total (clhs c) iv Hl) as [gl ->].
        assert (Erel : (match arel_to_rel (crel c) with REq => true | _ => false end)
                       = (match crel c with AEq => true | _ => false end)) by (destruct (crel c); reflexivity).
        rewrite Erel, Hi. rewrite (p2f_none _ iv Hr). reflexivity.
      * rewrite (p2f_none _ iv Hl). reflexivity.
Qed.

Lemma body_result iv b :
  (forallb regular_body_itemb b = true -> exists F, natural_body b iv = Some F) /\
  (forallb regular_body_itemb b = false -> natural_body b iv = None).
Proof.
  unfold natural_body. split.
  - intros H. rewrite forallb_forall in H.
    destruct (collect_options_some
                (fun f => match f with BLit l => natural_b_literal l iv | BCmp c => natural_comparison c iv end) b)
      as [ys ->]; eauto.
    intros x Hx. apply (proj1 (body_item_result iv x)). apply H; auto.
  - intros H. apply forallb_false_ex' in H. destruct H as [x [Hx Hf]].
    rewrite (collect_options_none _ b x Hx); auto. apply (proj2 (body_item_result iv x)). exact Hf.
Qed.

(* the head: with one fresh variable per term that is not of the first kind, the iterator never
   runs dry, and the result is a refusal exactly when some term is of neither kind *)
Lemma head_atom_terms_result iv ts : forall fr, List.length fr = count_nonfirst ts ->
  (forallb head_term_b ts = true -> exists gs, natural_head_atom_terms ts iv fr = NOk gs) /\
  (forallb head_term_b ts = false -> natural_head_atom_terms ts iv fr = NRefused).
Proof.
  induction ts as [|t ts IH]; intros fr L; cbn [natural_head_atom_terms forallb].
  - split; [eauto|discriminate].
  - unfold count_nonfirst in L. cbn [filter] in L. unfold head_term_b at 1 3.
    destruct (is_term_regular_of_first_kind t) eqn:Hf; cbn [negb orb andb] in *.
    + destruct (p2f_total t iv Hf) as [g ->]. cbn [of_option nbind].
      destruct (IH fr L) as [I1 I2]. split.
      * intros H. destruct (I1 H) as [gs ->]. cbn. eauto.
      * intros H. rewrite (I2 H). reflexivity.
    + destruct (is_term_regular_of_second_kind t) eqn:Hs; cbn [andb].
      * destruct fr as [|f fr']; [discriminate|]. cbn in L.
        destruct (IH fr') as [I1 I2]; [unfold count_nonfirst; lia|]. split.
        -- intros H. destruct (I1 H) as [gs ->]. cbn. eauto.
        -- intros H. rewrite (I2 H). reflexivity.
      * split; [discriminate|reflexivity].
Qed.

Lemma head_interval_result iv ts : forall fr, List.length fr = count_nonfirst ts ->
  forallb head_term_b ts = true -> exists cs, natural_head_interval_formulas ts iv fr = NOk cs.
Proof.
  induction ts as [|t ts IH]; intros fr L H; cbn [natural_head_interval_formulas]; [eauto|].
  cbn [forallb] in H. apply andb_true_iff in H. destruct H as [Ht H].
  unfold count_nonfirst in L. cbn [filter] in L. unfold head_term_b in Ht.
  destruct (is_term_regular_of_first_kind t) eqn:Hf; cbn [negb orb] in *.
  - rewrite (first_not_second t Hf). apply IH; auto.
  - rewrite Ht. apply second_kind_spec in Ht. destruct Ht as [t1 [t2 [-> [A1 A2]]]].
    destruct fr as [|f fr']; [discriminate|]. cbn in L.
    unfold arithb in A1, A2. apply andb_true_iff in A1, A2.
    destruct (p2f_total t1 iv (proj1 A1)) as [g1 ->]. destruct (p2f_total t2 iv (proj1 A2)) as [g2 ->].
    cbn [unwrap nbind]. destruct (IH fr') as [cs ->]; [unfold count_nonfirst; lia|auto|]. cbn. eauto.
Qed.

Lemma head_result iv h :
  (regular_headb h = true -> exists F, natural_head h iv = NOk F) /\
  (regular_headb h = false -> natural_head h iv = NRefused).
Proof.
  assert (Hatom : forall a (wrap : formula -> formula),
    (forallb head_term_b (aterms a) = true ->
       exists F, nbind (unwrap (fresh_variables_for_head_atom a))
         (fun fresh_vars => nbind (natural_head_atom a iv fresh_vars)
            (fun head_atom => match fresh_vars with
                              | [] => NOk (wrap head_atom)
                              | _ => nbind (natural_head_interval a iv fresh_vars)
                                       (fun conditions => NOk (FQ QForall (int_binders fresh_vars)
                                                                  (FBin CImp conditions (wrap head_atom))))
                              end)) = NOk F) /\
    (forallb head_term_b (aterms a) = false ->
       nbind (unwrap (fresh_variables_for_head_atom a))
         (fun fresh_vars => nbind (natural_head_atom a iv fresh_vars)
            (fun head_atom => match fresh_vars with
                              | [] => NOk (wrap head_atom)
                              | _ => nbind (natural_head_interval a iv fresh_vars)
                                       (fun conditions => NOk (FQ QForall (int_binders fresh_vars)
                                                                  (FBin CImp conditions (wrap head_atom))))
                              end)) = NRefused)).
  { intros a wrap. destruct (fresh_variables_for_head_atom_total a) as [fr Efr]. rewrite Efr.
    destruct (fresh_variables_for_head_atom_spec a fr Efr) as [_ [L _]]. cbn [unwrap nbind].
    unfold natural_head_atom, natural_head_interval.
    destruct (head_atom_terms_result iv (aterms a) fr L) as [I1 I2]. split.
    - intros H. destruct (I1 H) as [gs ->]. cbn [nbind].
      destruct fr as [|f fr']; [eauto|].
      destruct (head_interval_result iv (aterms a) (f :: fr') L H) as [cs ->]. cbn. eauto.
    - intros H. rewrite (I2 H). reflexivity. }
  destruct h as [a|a|]; cbn [regular_headb natural_head].
  - unfold natural_basic_head. apply (Hatom a (fun x => x)).
  - unfold natural_choice_head. apply (Hatom a (fun x => FBin COr x (FNot x))).
  - split; [eauto|discriminate].
Qed.

Theorem natural_rule_result r :
  (regular_ruleb r = true -> exists F, natural_rule r = NOk F) /\
  (regular_ruleb r = false -> natural_rule r = NRefused).
Proof.
  unfold natural_rule, regular_ruleb.
  destruct (head_result (int_variables r) (rhead r)) as [H1 H2].
  destruct (body_result (int_variables r) (rbody r)) as [B1 B2].
  destruct (regular_headb (rhead r)).
  - destruct (H1 eq_refl) as [hd ->]. cbn [nbind andb].
    destruct (forallb regular_body_itemb (rbody r)).
    + split; [|discriminate]. intros _. destruct (B1 eq_refl) as [bd ->]. cbn. eauto.
    + split; [discriminate|]. intros _. rewrite (B2 eq_refl). reflexivity.
  - cbn [andb]. split; [discriminate|]. intros _. rewrite (H2 eq_refl). reflexivity.
Qed.

Theorem natural_rule_no_panic r : natural_rule r <> NPanic.
Proof.
  destruct (natural_rule_result r) as [A B]. destruct (regular_ruleb r).
  - destruct (A eq_refl) as [F ->]. discriminate.
  - rewrite (B eq_refl). discriminate.
Qed.

Theorem natural_rule_accepts r : (exists F, natural_rule r = NOk F) <-> regular_rule r.
Proof.
  rewrite <- regular_ruleb_spec. destruct (natural_rule_result r) as [A B]. split.
  - intros [F E]. destruct (regular_ruleb r); auto. rewrite (B eq_refl) in E. discriminate.
  - exact A.
Qed.

Theorem natural_rule_refuses r : natural_rule r = NRefused <-> ~ regular_rule r.
Proof.
  rewrite <- regular_ruleb_spec. destruct (natural_rule_result r) as [A B]. split.
  - intros E Hr. destruct (A Hr) as [F E']. congruence.
  - intros Hn. apply B. destruct (regular_ruleb r); auto. elim Hn; reflexivity.
Qed.

(* ---------- programs ---------- *)
Theorem natural_result P :
  (Forall regular_rule P -> exists th, natural P = NOk th) /\
  (~ Forall regular_rule P -> natural P = NRefused).
Proof.
  induction P as [|r P [IH1 IH2]]; cbn [natural].
  - split; [eauto|]. intros H; elim H; constructor.
  - split.
    + intros H. inversion H as [|? ? Hr HP]; subst.
      apply natural_rule_accepts in Hr. destruct Hr as [f ->]. destruct (IH1 HP) as [th ->]. cbn. eauto.
    + intros H. destruct (regular_ruleb r) eqn:Er.
      * destruct (proj1 (natural_rule_result r) Er) as [f ->]. cbn [nbind].
        rewrite IH2; [reflexivity|]. intros HP. apply H. constructor; auto. apply regular_ruleb_spec; auto.
      * rewrite (proj2 (natural_rule_result r) Er). reflexivity.
Qed.

Theorem is_regular_true P : is_regular P = NOk true <-> Forall regular_rule P.
Proof.
  unfold is_regular. destruct (natural_result P) as [A B]. split.
  - intros E. destruct (natural P) as [th| |] eqn:En; try discriminate.
    destruct (forallb regular_ruleb P) eqn:Ef.
    + rewrite forallb_forall in Ef. apply Forall_forall. intros r Hr. apply regular_ruleb_spec, Ef, Hr.
    + exfalso. assert (X : @NOk theory th = NRefused); [|discriminate X].
      apply B. intros HF. rewrite Forall_forall in HF.
      apply forallb_false_ex' in Ef. destruct Ef as [r [Hr Hf]].
      apply HF, regular_ruleb_spec in Hr. congruence.
  - intros HF. destruct (A HF) as [th ->]. reflexivity.
Qed.

Theorem is_regular_false P : is_regular P = NOk false <-> ~ Forall regular_rule P.
Proof.
  unfold is_regular. destruct (natural_result P) as [A B]. split.
  - intros E HF. destruct (A HF) as [th En]. rewrite En in E. discriminate.
  - intros HF. rewrite (B HF). reflexivity.
Qed.

Theorem is_regular_no_panic P : is_regular P <> NPanic.
Proof.
  unfold is_regular. destruct (natural_result P) as [A B].
  destruct (forallb regular_ruleb P) eqn:Ef.
  - destruct A as [th ->]; [|discriminate]. rewrite forallb_forall in Ef. apply Forall_forall.
    intros r Hr. apply regular_ruleb_spec, Ef, Hr.
  - rewrite B; [discriminate|]. intros HF. rewrite Forall_forall in HF.
    apply forallb_false_ex' in Ef. destruct Ef as [r [Hr Hf]].
    apply HF, regular_ruleb_spec in Hr. congruence.
Qed.

(* ---------- mu ---------- *)
Section MuShape.
Variable choose_fresh_global_variables : program -> list string.
Variable tau_star_rule : rule -> list string -> formula.

Definition mu_formula (globals : list string) (r : rule) : formula :=
  match natural_rule r with NOk f => f | _ => tau_star_rule r globals end.

Lemma mu_rules_map rules globals :
  mu_rules tau_star_rule rules globals = NOk (map (mu_formula globals) rules).
Proof.
  induction rules as [|r rules IH]; cbn [mu_rules map]; [reflexivity|].
  unfold mu_formula at 1. pose proof (natural_rule_no_panic r) as Hp.
  destruct (natural_rule r) as [f| |]; [| |congruence]; rewrite IH; reflexivity.
Qed.

(* mu never fails; it has one formula per rule; the i-th formula is natural's formula for the
   i-th rule when that rule is regular and tau*'s formula (with the program-wide fresh global
   variables) otherwise *)
Theorem mu_shape P :
  exists th, mu choose_fresh_global_variables tau_star_rule P = NOk th /\
    List.length th = List.length P /\
    forall i r, nth_error P i = Some r ->
      (regular_rule r -> exists f, natural_rule r = NOk f /\ nth_error th i = Some f) /\
      (~ regular_rule r ->
         nth_error th i = Some (tau_star_rule r (choose_fresh_global_variables P))).
Proof.
  unfold mu. rewrite mu_rules_map. eexists. split; [reflexivity|]. split; [apply map_length|].
  intros i r Hi. rewrite (map_nth_error _ _ _ Hi). unfold mu_formula. split.
  - intros Hr. apply natural_rule_accepts in Hr. destruct Hr as [f E]. rewrite E. eauto.
  - intros Hr. apply natural_rule_refuses in Hr. rewrite Hr. reflexivity.
Qed.
End MuShape.

(* the part of mu that does not depend on tau*, as extracted for the correspondence run *)
Theorem mu_branches_spec P :
  mu_branches P = NOk (map (fun r => match natural_rule r with NOk f => Some f | _ => None end) P).
Proof.
  induction P as [|r P IH]; cbn [mu_branches map]; [reflexivity|].
  pose proof (natural_rule_no_panic r) as Hp.
  destruct (natural_rule r) as [f| |]; [| |congruence]; rewrite IH; reflexivity.
Qed.

(* on its natural branch mu is equivalent to the reference semantics *)
From Anthem Require Import Sem.Domain Sem.Sat Sem.AspRef Proofs.NaturalMain.
Theorem mu_natural_branch
  (choose_fresh_global_variables : program -> list string)
  (tau_star_rule : rule -> list string -> formula) (P : program) (th : theory) :
  mu choose_fresh_global_variables tau_star_rule P = NOk th ->
  forall i r f, nth_error P i = Some r -> regular_rule r -> nth_error th i = Some f ->
  forall (FI : fint) (H T : pint), sub H T -> (hvalid FI H T f <-> ref_rule_sat H T r).
Proof.
  intros E i r f Hi Hr Hf FI H T HS.
  destruct (mu_shape choose_fresh_global_variables tau_star_rule P) as [th' [E' [_ Hall]]].
  rewrite E in E'. inversion E'; subst th'.
  destruct (proj1 (Hall i r Hi) Hr) as [f' [En Hf']]. rewrite Hf in Hf'. inversion Hf'; subst f'.
  apply natural_rule_ok; auto.
Qed.

(* non-vacuity of the oracle *)
Lemma oracle_nontrivial :
  let r := mkrule (HBasic (mkatom "p" [TBin AInterval (TPre (PNum 1)) (TPre (PNum 2))])) [] in
  let H : pint := fun p a => p = "p" /\ a = [VNum 1%Z] in
  let T : pint := fun p a => p = "p" /\ (a = [VNum 1%Z] \/ a = [VNum 2%Z]) in
  sub H T /\ ref_rule_sat T T r /\ ~ ref_rule_sat H T r /\ (exists F, natural_rule r = NOk F).
Proof.
  cbv zeta. split; [|split; [|split]].
  - intros p a [-> ->]. auto.
  - intros sg. cbn. assert (G : forall vs, tuple_vals sg [TBin AInterval (TPre (PNum 1)) (TPre (PNum 2))] vs ->
                               "p" = "p" /\ (vs = [VNum 1%Z] \/ vs = [VNum 2%Z])).
    { intros vs F. inversion F as [|? v ? vs' Hv F']; subst. inversion F'; subst.
      cbn in Hv. destruct Hv as [n1 [n2 [k [A [B [C ->]]]]]]. inversion A; inversion B; subst.
      split; auto. assert (k = 1 \/ k = 2)%Z as [->| ->] by lia; auto. }
    split; intros _; exact G.
  - intros Hr. destruct (Hr (fun _ => VInf)) as [Hh _]. cbn in Hh.
    destruct (Hh (Forall_nil _) [VNum 2%Z]) as [_ E]; [|discriminate].
    constructor; [|constructor]. cbn. exists 1%Z, 2%Z, 2%Z. repeat split; lia.
  - apply (proj1 (natural_rule_result _)). vm_compute. reflexivity.
Qed.

Lemma is_regular_by_ruleb P : is_regular P = NOk (forallb regular_ruleb P).
Proof.
  destruct (forallb regular_ruleb P) eqn:Ef.
  - apply is_regular_true. rewrite forallb_forall in Ef. apply Forall_forall.
    intros r Hr. apply regular_ruleb_spec, Ef, Hr.
  - apply is_regular_false. intros HF. rewrite Forall_forall in HF.
    apply forallb_false_ex' in Ef. destruct Ef as [r [Hr Hf]].
    apply HF, regular_ruleb_spec in Hr. congruence.
Qed.

Lemma regularity_examples :
  let X := TVar "X" in let Y := TVar "Y" in let n z := TPre (PNum z) in let a := TPre (PSym "a") in
  let fact t := [mkrule (HBasic (mkatom "p" [t])) []] in
  is_regular (fact (TBin ADiv (n 2%Z) X)) = NOk false /\
  is_regular (fact (TBin AMul (n 3%Z) (TBin AInterval X Y))) = NOk false /\
  is_regular (fact (TBin AAdd a (n 1%Z))) = NOk false /\
  is_regular (fact (TBin AInterval a (n 5%Z))) = NOk false /\
  is_regular (fact (TBin AInterval X Y)) = NOk true /\
  is_regular (fact (TBin AMul (n 1%Z) (n 2%Z))) = NOk true /\
  is_regular (fact a) = NOk true.
Proof. cbv zeta. rewrite !is_regular_by_ruleb. repeat split. Qed.

(* "If every rule in the program is regular, the outputs of mu and nu are identical" (manual) *)
Theorem mu_on_regular_program
  (choose_fresh_global_variables : program -> list string)
  (tau_star_rule : rule -> list string -> formula) (P : program) (th : theory) :
  natural P = NOk th -> mu choose_fresh_global_variables tau_star_rule P = NOk th.
Proof.
  unfold mu. rewrite mu_rules_map. generalize (choose_fresh_global_variables P) as g. intros g.
  revert th. induction P as [|r P IH]; intros th E.
  - cbn in E. inversion E. reflexivity.
  - apply natural_cons in E. destruct E as [f [fs [Er [Ers ->]]]].
    cbn [map]. unfold mu_formula at 1. rewrite Er. specialize (IH fs Ers). inversion IH as [IH'].
    rewrite IH'. reflexivity.
Qed.
