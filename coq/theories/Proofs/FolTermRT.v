(* Round trip for integer terms, general terms, atoms and comparisons at token level:
     peg_iterm fuel (print_iterm false t ++ R) = Ok t R    etc.
   over the REAL tables of Gen/TablesFol.v (the facts about the tables are obtained by computation on the
   generated definitions, so an edited precedence is re-checked - or refuted - by the next build). *)
From Coq Require Import List Ascii String ZArith NArith Bool Arith Lia.
From Anthem Require Import Syntax.Fol Gen.TablesFol Model.FolPrint Model.FolLex Model.FolPratt Model.FolParse
  Proofs.FolPrattOk.
Import ListNotations.
Open Scope list_scope.

(* ---------- the item view of the printer ---------- *)
Inductive iit := IILeaf (t : iterm) | IIGroup (t : iterm) | IINeg | IIOp (o : binop).
Definition to_ip (i : iit) : ipitem :=
  match i with IILeaf t => PPrim t | IIGroup t => PPrim t | IINeg => PPre tt | IIOp o => PIn o end.
Definition iflat1 (i : iit) : list token :=
  match i with
  | IILeaf t => print_iterm false t
  | IIGroup t => TLParen :: print_iterm false t ++ [TRParen]
  | IINeg => [TMinus]
  | IIOp o => [binop_tok o]
  end.
Definition iflat (l : list iit) : list token := flat_map iflat1 l.

Definition iwrap (b : bool) (items : list iit) (c : iterm) : list iit := if b then [IIGroup c] else items.
Fixpoint iitems (t : iterm) : list iit :=
  match t with
  | INum _ | IFun _ | IVar _ => [IILeaf t]
  | IUn UNeg a => IINeg :: iwrap (paren_unary (iprec t) (iprec a) (imand a)) (iitems a) a
  | IBin o l r =>
      iwrap (paren_lhs (iprec t) (iprec l) (imand l) (iassoc l)) (iitems l) l
      ++ IIOp o :: iwrap (paren_rhs (iprec t) (iprec r) (imand r) (iassoc t)) (iitems r) r
  end.

Lemma iflat_app a b : iflat (a ++ b) = iflat a ++ iflat b.
Proof. unfold iflat. apply flat_map_app. Qed.

(* facts about the generated tables (by computation) *)
Lemma iassoc_left t : iassoc t = Some ALeft.
Proof. destruct t as [z| | |[] ?|[] ? ?]; unfold iassoc, ikind_of; try reflexivity. destruct (0 <? z)%Z; reflexivity. Qed.

Lemma print_iterm_items t : print_iterm false t = iflat (iitems t).
Proof.
  induction t as [z|c|x|[] a IH|o l IHl r IHr]; try reflexivity.
  - cbn [print_iterm iitems]. rewrite (iassoc_left (IUn UNeg a)). cbn [fmt_unary is_left is_right app].
    rewrite app_nil_r. unfold iwrap, parens.
    destruct (paren_unary _ _ _); cbn [iflat flat_map iflat1 app]; [rewrite app_nil_r; reflexivity|].
    fold (iflat (iitems a)). rewrite IH. reflexivity.
  - cbn [print_iterm iitems tsp app]. rewrite iflat_app. cbn [iflat flat_map iflat1 app]. fold iflat.
    unfold iwrap, parens.
    destruct (paren_lhs _ _ _ _), (paren_rhs _ _ _ _); cbn [iflat flat_map iflat1 app];
      rewrite ?app_nil_r, ?IHl, ?IHr; reflexivity.
Qed.

(* ---------- Pratt level ---------- *)
Definition ipn : nat := match iterm_pre_bp tt with Some p => p | None => 0 end.
Definition ilvl (t : iterm) : nat :=
  match t with IBin o _ _ => match iterm_in_bp o with Some (p, _) => p | None => 0 end | _ => ipn end.
Definition iflw (t : iterm) : nat :=
  match t with IBin o _ _ => match iterm_in_bp o with Some (p, a) => rhs_bp p a | None => 0 end | _ => ipn - 1 end.

Definition imk_un (_ : unit) (t : iterm) : iterm := IUn UNeg t.
Definition imk_bin (o : binop) (l r : iterm) : iterm := IBin o l r.
Notation IPr := (Pr iterm unit binop imk_un imk_bin iterm_pre_bp iterm_in_bp).

Lemma IPr_pre a is lv fl lv' : IPr a is lv fl -> ipn - 1 < lv -> IPr (IUn UNeg a) (PPre tt :: is) lv' (Nat.min fl (ipn - 1)).
Proof. intros H1 H2. exact (Pr_pre _ _ _ imk_un imk_bin _ _ tt a is lv fl ipn lv' eq_refl H1 H2). Qed.
Lemma IPr_bin o l r isl isr lvl fll lvr flr p a :
  iterm_in_bp o = Some (p, a) -> IPr l isl lvl fll -> IPr r isr lvr flr -> p <= lvl -> p <= fll -> rhs_bp p a < lvr ->
  IPr (IBin o l r) (isl ++ PIn o :: isr) p (Nat.min (rhs_bp p a) flr).
Proof. intros. exact (Pr_bin _ _ _ imk_un imk_bin _ _ o l r isl isr lvl fll lvr flr p a H H0 H1 H2 H3 H4). Qed.

Lemma map_iwrap b c : map to_ip (iwrap b (iitems c) c) = if b then [PPrim c] else map to_ip (iitems c).
Proof. destruct b; reflexivity. Qed.

(* the printed items of a term are a printed form in the sense of FolPrattOk, at the term's level *)
Lemma Pr_iterm t : IPr t (map to_ip (iitems t)) (ilvl t) (iflw t).
Proof.
  induction t as [z|c|x|[] a IH|o l IHl r IHr].
  - constructor.
  - constructor.
  - constructor.
  - cbn [iitems map to_ip]. rewrite map_iwrap.
    destruct (paren_unary (iprec (IUn UNeg a)) (iprec a) (imand a)) eqn:W.
    + eapply Pr_weaken; [apply (IPr_pre a [PPrim a] ipn (ipn - 1) ipn); [constructor|]| |].
      * vm_compute. lia.
      * cbn. lia.
      * cbn [iflw]. lia.
    + eapply Pr_weaken; [apply (IPr_pre a _ (ilvl a) (iflw a) ipn); [exact IH|]| |].
      * destruct a as [z| | |[] ?|[] ? ?]; try (vm_compute; lia); vm_compute in W; try discriminate.
      * cbn. lia.
      * destruct a as [z| | |[] ?|[] ? ?]; try (vm_compute; lia); vm_compute in W; discriminate.
  - cbn [iitems]. rewrite map_app. cbn [map to_ip]. rewrite !map_iwrap.
    destruct (iterm_in_bp o) as [[p a]|] eqn:Hp; [|destruct o; discriminate].
    set (bl := paren_lhs _ _ _ _). set (br := paren_rhs _ _ _ _).
    assert (HL : exists lvl fll, IPr l (if bl then [PPrim l] else map to_ip (iitems l)) lvl fll /\ p <= lvl /\ p <= fll).
    { destruct bl eqn:W.
      - exists p, p. split; [constructor|lia].
      - exists (ilvl l), (iflw l). split; [exact IHl|]. subst bl.
        destruct o, l as [z| | |[] ?|[] ? ?]; vm_compute in Hp; injection Hp as <- <-;
          try (vm_compute; lia); vm_compute in W; discriminate. }
    assert (HR : exists lvr flr, IPr r (if br then [PPrim r] else map to_ip (iitems r)) lvr flr /\ rhs_bp p a < lvr /\ rhs_bp p a <= flr).
    { destruct br eqn:W.
      - exists (S (rhs_bp p a)), (rhs_bp p a). split; [constructor|lia].
      - exists (ilvl r), (iflw r). split; [exact IHr|]. subst br.
        destruct o, r as [z| | |[] ?|[] ? ?]; vm_compute in Hp; injection Hp as <- <-;
          try (vm_compute; lia); vm_compute in W; discriminate. }
    destruct HL as (lvl & fll & PL & L1 & L2). destruct HR as (lvr & flr & PR & R1 & R2).
    eapply Pr_weaken; [exact (IPr_bin o l r _ _ lvl fll lvr flr p a Hp PL PR L1 L2 R1)| |].
    + cbn [ilvl]. rewrite Hp. lia.
    + cbn [iflw]. rewrite Hp. lia.
Qed.

Lemma ilvl_pos t : 0 < ilvl t.
Proof. destruct t as [| | |[] ?|[] ? ?]; vm_compute; lia. Qed.

Lemma pratt_iterm_items t : pratt_iterm (map to_ip (iitems t)) = Some t.
Proof. unfold pratt_iterm. change (fun (_ : unit) (t0 : iterm) => IUn UNeg t0) with imk_un.
  change (fun (o : binop) (l r : iterm) => IBin o l r) with imk_bin.
  eapply pratt_ok; [apply Pr_iterm|apply ilvl_pos]. Qed.

(* ---------- PEG level ---------- *)
Fixpoint isize (t : iterm) : nat :=
  match t with
  | INum _ | IFun _ | IVar _ => 1
  | IUn _ a => S (isize a)
  | IBin _ l r => S (isize l + isize r)
  end.

Definition is_leaf (t : iterm) : Prop := match t with INum _ | IFun _ | IVar _ => True | _ => False end.
(* operand = unary_operator* n_primary;  sequence = operand (binary_operator operand)* *)
Inductive opnd : list iit -> Prop :=
| opnd_leaf t : is_leaf t -> opnd [IILeaf t]
| opnd_group g : opnd [IIGroup g]
| opnd_neg its : opnd its -> opnd (IINeg :: its).
Inductive iseq : list iit -> Prop :=
| iseq_one o : opnd o -> iseq o
| iseq_more o op rest : opnd o -> iseq rest -> iseq (o ++ IIOp op :: rest).

Lemma iseq_app a op b : iseq a -> iseq b -> iseq (a ++ IIOp op :: b).
Proof.
  induction 1 as [o Ho|o op' rest Ho Hr IH]; intros Hb.
  - apply iseq_more; assumption.
  - rewrite <- app_assoc. cbn [app]. apply iseq_more; [assumption|]. apply IH. exact Hb.
Qed.

(* an unparenthesised operand of unary minus is itself an operand (never a binary operation) *)
Lemma iitems_opnd a : paren_unary (iprec (IUn UNeg a)) (iprec a) (imand a) = false -> opnd (iitems a) -> True.
Proof. trivial. Qed.

Lemma iitems_shape t : iseq (iitems t) /\ (match t with IBin _ _ _ => True | _ => opnd (iitems t) end).
Proof.
  induction t as [z|c|x|[] a IH|o l IHl r IHr].
  - split; [apply iseq_one|]; apply opnd_leaf; exact I.
  - split; [apply iseq_one|]; apply opnd_leaf; exact I.
  - split; [apply iseq_one|]; apply opnd_leaf; exact I.
  - assert (H : opnd (iitems (IUn UNeg a))).
    { cbn [iitems]. apply opnd_neg. unfold iwrap.
      destruct (paren_unary _ _ _) eqn:W; [apply opnd_group|].
      destruct a as [z| | |[] ?|[] ? ?]; try (apply IH); vm_compute in W; discriminate. }
    split; [apply iseq_one|]; exact H.
  - split; [|exact I]. cbn [iitems]. apply iseq_app; unfold iwrap.
    + destruct (paren_lhs _ _ _ _); [apply iseq_one, opnd_group|apply IHl].
    + destruct (paren_rhs _ _ _ _); [apply iseq_one, opnd_group|apply IHr].
Qed.

(* groups are strict subterms *)
Lemma iitems_groups t g : In (IIGroup g) (iitems t) -> isize g < isize t.
Proof.
  induction t as [z|c|x|[] a IH|o l IHl r IHr]; cbn [iitems isize].
  - intros [H|[]]; discriminate.
  - intros [H|[]]; discriminate.
  - intros [H|[]]; discriminate.
  - intros [H|H]; [discriminate|]. unfold iwrap in H. destruct (paren_unary _ _ _).
    + destruct H as [[= ->]|[]]. lia.
    + apply IH in H. lia.
  - intros H. apply in_app_or in H. destruct H as [H|[H|H]]; [|discriminate|]; unfold iwrap in H.
    + destruct (paren_lhs _ _ _ _); [destruct H as [[= ->]|[]]; lia|apply IHl in H; lia].
    + destruct (paren_rhs _ _ _ _); [destruct H as [[= ->]|[]]; lia|apply IHr in H; lia].
Qed.

Definition ifollow (R : list token) : Prop := split_binop R = None.

Section ItermSeq.
  Variable rec : list token -> res iterm.
  (* every group of the sequence is parsed back by the recursive parser *)
  Definition groups_ok (its : list iit) : Prop :=
    forall g, In (IIGroup g) its -> forall R, rec (print_iterm false g ++ TRParen :: R) = Ok g (TRParen :: R).

  Lemma i_operand_neg ts :
    i_operand rec (TMinus :: ts) =
    match i_operand rec ts with Ok its r => Ok (PPre tt :: its) r | Fail => Fail | Oof => Oof end.
  Proof.
    unfold i_operand. cbn [unary_ops]. destruct (unary_ops ts) as [us r]. destruct (n_primary rec r); reflexivity.
  Qed.

  Lemma leaf_tokens t : is_leaf t -> forall R,
    i_operand rec (print_iterm false t ++ R) = Ok [PPrim t] R.
  Proof.
    destruct t as [z|c|x| |]; cbn; try tauto; intros _ R; try reflexivity.
    unfold num_tok. destruct (z <? 0)%Z eqn:E; unfold i_operand; cbn.
    - apply Z.ltb_lt in E. rewrite Z2N.id by lia. rewrite Z.opp_involutive. reflexivity.
    - apply Z.ltb_ge in E. rewrite Z2N.id by lia. reflexivity.
  Qed.

  Lemma operand_ok o : opnd o -> groups_ok o -> forall R, i_operand rec (iflat o ++ R) = Ok (map to_ip o) R.
  Proof.
    induction 1 as [t Ht|g|its Hits IH]; intros HG R.
    - cbn [iflat flat_map iflat1]. rewrite app_nil_r. apply leaf_tokens. exact Ht.
    - cbn [iflat flat_map iflat1 app map to_ip]. rewrite app_nil_r. unfold i_operand. cbn [unary_ops n_primary].
      rewrite <- app_assoc. cbn [app]. rewrite (HG g (or_introl eq_refl)). reflexivity.
    - cbn [iflat flat_map iflat1 app map to_ip]. rewrite i_operand_neg. fold (iflat its).
      rewrite IH; [reflexivity|]. intros g Hg. apply HG. right. exact Hg.
  Qed.

  (* the number of binary operators of a sequence *)
  Definition nops (its : list iit) : nat := List.length (filter (fun i => match i with IIOp _ => true | _ => false end) its).

  Lemma groups_ok_app a b : groups_ok (a ++ b) -> groups_ok a /\ groups_ok b.
  Proof. intros H; split; intros g Hg; apply H; apply in_or_app; [left|right]; exact Hg. Qed.

  Lemma split_binop_tok op R : split_binop (binop_tok op :: R) = Some (op, R).
  Proof. destruct op; reflexivity. Qed.

  Lemma seq_ok s : iseq s -> groups_ok s -> forall R fuel, ifollow R -> nops s < fuel ->
    exists a b R1, i_operand rec (iflat s ++ R) = Ok a R1 /\ i_tail rec fuel R1 = Ok b R /\ a ++ b = map to_ip s.
  Proof.
    induction 1 as [o Ho|o op rest Ho Hrest IH]; intros HG R fuel HF Hfuel.
    - exists (map to_ip o), [], R. split; [apply operand_ok; assumption|]. split; [|apply app_nil_r].
      destruct fuel as [|f]; [lia|]. cbn [i_tail]. unfold ifollow in HF. rewrite HF. reflexivity.
    - apply groups_ok_app in HG. destruct HG as [HGo HGr].
      assert (HGr' : groups_ok rest) by (intros g Hg; apply HGr; right; exact Hg).
      rewrite iflat_app. cbn [iflat flat_map iflat1]. fold (iflat rest). rewrite <- !app_assoc. cbn [app].
      destruct fuel as [|f]; [lia|].
      assert (Hn : nops rest < f).
      { unfold nops in *. rewrite filter_app in Hfuel. cbn [filter] in Hfuel. rewrite app_length in Hfuel. cbn [List.length] in Hfuel. lia. }
      destruct (IH HGr' R f HF Hn) as (a & b & R1 & E1 & E2 & E3).
      exists (map to_ip o), (PIn op :: a ++ b), (binop_tok op :: iflat rest ++ R). split; [apply operand_ok; assumption|]. split.
      + cbn [i_tail]. rewrite split_binop_tok. rewrite E1, E2. reflexivity.
      + rewrite map_app. cbn [map to_ip]. rewrite E3. reflexivity.
  Qed.
End ItermSeq.

Lemma nops_le t : nops (iitems t) < isize t.
Proof.
  unfold nops. induction t as [z|c|x|[] a IH|o l IHl r IHr]; cbn [iitems isize]; try (cbn; lia).
  - cbn [filter]. unfold iwrap. destruct (paren_unary _ _ _); cbn; lia.
  - rewrite filter_app, app_length. cbn [filter List.length]. unfold iwrap.
    destruct (paren_lhs _ _ _ _), (paren_rhs _ _ _ _); cbn [filter List.length]; lia.
Qed.

(* round trip for integer terms *)
Theorem iterm_rt : forall fuel t R, isize t < fuel -> ifollow R ->
  peg_iterm fuel (print_iterm false t ++ R) = Ok t R.
Proof.
  induction fuel as [|f IH]; intros t R Hf HF; [lia|].
  cbn [peg_iterm]. rewrite print_iterm_items.
  assert (HG : groups_ok (peg_iterm f) (iitems t)).
  { intros g Hg R'. apply IH; [apply iitems_groups in Hg; lia|reflexivity]. }
  assert (Hn : nops (iitems t) < f) by (pose proof (nops_le t); lia).
  destruct (seq_ok (peg_iterm f) (iitems t) (proj1 (iitems_shape t)) HG R f HF Hn) as (a & b & R1 & E1 & E2 & E3).
  rewrite E1, E2, E3, pratt_iterm_items. reflexivity.
Qed.

(* ---------- general terms ---------- *)
Definition ihead (tok : token) : Prop :=
  match tok with
  | TNum _ | TNegNum _ | TMinus | TLParen => True
  | TFun _ SInteger | TVar _ SInteger => True
  | _ => False
  end.
Lemma print_iterm_head t : exists tok rest, print_iterm false t = tok :: rest /\ ihead tok.
Proof.
  induction t as [z|c|x|[] a IH|o l IHl r IHr].
  - cbn. unfold num_tok. destruct (z <? 0)%Z; eexists _, _; split; reflexivity || exact I.
  - eexists _, _; split; reflexivity || exact I.
  - eexists _, _; split; reflexivity || exact I.
  - cbn [print_iterm]. rewrite iassoc_left. cbn [fmt_unary is_left app]. eexists _, _; split; reflexivity || exact I.
  - cbn [print_iterm]. unfold parens. destruct (paren_lhs _ _ _ _).
    + cbn. eexists _, _; split; reflexivity || exact I.
    + destruct IHl as (tok & rest & E & H). rewrite E. cbn. eexists _, _; split; [reflexivity|exact H].
Qed.

Definition gsize (t : gterm) : nat := match t with GInt t => isize t | _ => 1 end.

Lemma peg_iterm_fail_tok f tok R :
  match tok with
  | TWord _ | TInf | TSup | TTrue | TFalse | TRParen | TDot | TComma | TIff | TImp | TRimp | TRel _ | TColon => True
  | TFun _ SSymbol | TFun _ SGeneral | TVar _ SSymbol | TVar _ SGeneral => True
  | _ => False
  end -> peg_iterm (S f) (tok :: R) = Fail.
Proof.
  destruct tok as [| | c [] | | x [] | | | | | | | | | | | | | | | | | | | | | | | | |]; cbn; tauto || reflexivity.
Qed.

Theorem gterm_rt t fuel R : gsize t < fuel -> ifollow R -> peg_gterm fuel (print_gterm false t ++ R) = Ok t R.
Proof.
  intros Hf HF. destruct fuel as [|f]; [lia|].
  destruct t as [| |c|x|t|[s|c|x]]; cbn [print_gterm print_sterm app]; try reflexivity.
  - destruct (print_iterm_head t) as (tok & rest & E & H).
    unfold peg_gterm. rewrite iterm_rt by assumption.
    rewrite E. cbn [app]. destruct tok as [| | c [] | | x [] | | | | | | | | | | | | | | | | | | | | | | | | |]; cbn in H; try tauto; reflexivity.
Qed.

(* ---------- atoms, comparisons, atomic formulas ---------- *)
Definition args_size (ts : list gterm) : nat := fold_right (fun t n => S (gsize t) + n) 0 ts.

Lemma peg_terms_ok ts : ts <> [] -> forall fuel R, args_size ts < fuel ->
  peg_terms fuel (print_args false ts ++ TRParen :: R) = Ok ts (TRParen :: R).
Proof.
  induction ts as [|t ts IH]; [congruence|]. intros _ fuel R Hf.
  destruct fuel as [|f]; [lia|]. cbn [args_size fold_right] in Hf. fold (args_size ts) in Hf.
  destruct ts as [|t2 ts].
  - cbn [print_args peg_terms]. rewrite gterm_rt; [reflexivity|lia|reflexivity].
  - cbn [print_args tsp app peg_terms]. rewrite <- !app_assoc. cbn [app].
    rewrite gterm_rt; [|lia|reflexivity].
    rewrite IH; [reflexivity|congruence|lia].
Qed.

Definition no_lparen (R : list token) : Prop := match R with TLParen :: _ => False | _ => True end.

Lemma peg_atom_ok p ts fuel R : args_size ts < fuel -> no_lparen R ->
  peg_atom fuel (print_atom false p ts ++ R) = Ok (AAtom p ts) R.
Proof.
  intros Hf HR. destruct ts as [|t ts].
  - cbn [print_atom app peg_atom]. destruct R as [|[] R]; cbn in HR; try tauto; reflexivity.
  - cbn [print_atom app peg_atom peg_tuple]. rewrite <- app_assoc. cbn [app].
    rewrite peg_terms_ok; [reflexivity|congruence|exact Hf].
Qed.

(* what follows a comparison does not continue the guard chain *)
Definition stops_guards (k : nat) (R : list token) : Prop := forall fuel, k < fuel -> peg_guards fuel R = Ok [] R.

Definition guards_size (gs : list guard) : nat := fold_right (fun g n => S (gsize (gterm_of g)) + n) 0 gs.

Lemma ifollow_guards gs R : ifollow R -> ifollow (print_guards false gs ++ R).
Proof. destruct gs as [|[rl t] gs]; [exact (fun H => H)|]. intros _. reflexivity. Qed.

Lemma peg_guards_ok gs k : forall fuel R, guards_size gs + k < fuel -> ifollow R -> stops_guards k R ->
  peg_guards fuel (print_guards false gs ++ R) = Ok gs R.
Proof.
  induction gs as [|[rl t] gs IH]; intros fuel R Hf HF HS.
  - cbn [print_guards app]. apply HS. lia.
  - destruct fuel as [|f]; [lia|]. cbn [guards_size fold_right gterm_of] in Hf. fold (guards_size gs) in Hf.
    cbn [print_guards print_guard tsp app grel gterm_of peg_guards split_rel]. rewrite <- app_assoc.
    rewrite gterm_rt; [|lia|apply ifollow_guards; exact HF].
    rewrite IH; [reflexivity|lia|exact HF|exact HS].
Qed.

Definition asize (a : aformula) : nat :=
  match a with
  | ATrue | AFalse => 1
  | AAtom _ ts => S (args_size ts)
  | ACmp t gs => S (gsize t + guards_size gs)
  end.

Definition aends_term (a : aformula) : bool := match a with ACmp _ _ | AAtom _ [] => true | _ => false end.
(* what may follow an atomic formula: no binary operator, no "(", and - when the formula ends in a general
   term - nothing that continues the chain of guards (k: fuel needed to find that out) *)
Definition afollow (a : aformula) (k : nat) (R : list token) : Prop :=
  ifollow R /\ no_lparen R /\ (aends_term a = true -> stops_guards k R).

Lemma print_gterm_head t : exists tok rest, print_gterm false t = tok :: rest /\
  match tok with TTrue | TFalse => False | _ => True end.
Proof.
  destruct t as [| |c|x|t|[s|c|x]]; try (eexists _, _; split; [reflexivity|exact I]).
  destruct (print_iterm_head t) as (tok & rest & E & H). exists tok, rest. split; [exact E|].
  destruct tok; cbn in H; tauto.
Qed.

Theorem atomic_rt a k fuel R : asize a + k < fuel -> (match a with ACmp _ [] => False | _ => True end) -> afollow a k R ->
  peg_atomic fuel (print_atomic false a ++ R) = Ok a R.
Proof.
  intros Hf Hne (HF & HL & HS). destruct fuel as [|f]; [lia|].
  destruct a as [| |p ts|t gs]; cbn [print_atomic app]; try reflexivity.
  - (* atom: the comparison alternative fails first *)
    assert (EC : peg_comparison (S f) (print_atom false p ts ++ R) = Fail).
    { unfold peg_comparison. destruct ts as [|t ts].
      - cbn [print_atom app]. unfold peg_gterm. rewrite peg_iterm_fail_tok by exact I.
        rewrite (HS eq_refl) by (cbn [asize args_size fold_right] in Hf; lia). reflexivity.
      - cbn [print_atom app]. unfold peg_gterm. rewrite peg_iterm_fail_tok by exact I. reflexivity. }
    assert (EA : peg_atom (S f) (print_atom false p ts ++ R) = Ok (AAtom p ts) R).
    { apply peg_atom_ok; [cbn [asize] in Hf; lia|exact HL]. }
    unfold peg_atomic. rewrite EC, EA.
    destruct ts; reflexivity.
  - destruct gs as [|g gs]; [tauto|]. cbn [asize] in Hf.
    assert (EC : peg_comparison (S f) (print_gterm false t ++ print_guards false (g :: gs) ++ R) = Ok (ACmp t (g :: gs)) R).
    { unfold peg_comparison. rewrite gterm_rt; [|lia|apply ifollow_guards; exact HF].
      rewrite (peg_guards_ok (g :: gs) k); [reflexivity|lia|exact HF|exact (HS eq_refl)]. }
    rewrite <- app_assoc. unfold peg_atomic. rewrite EC.
    destruct (print_gterm_head t) as (tok & rest & E & H). rewrite E. cbn [app].
    destruct tok; try tauto; reflexivity.
Qed.
