(* Audit B8 (C09 tie), part 1: "every quantifier binds at least one variable" ([binders_nonempty],
   the non-identifier half of [closed_formula] besides "no free variable") is an INVARIANT of the
   simplification portfolios the verification tasks run.

   Single rewrites do not preserve it: remove_orphaned_variables produces `FQ q [] g` when none of the
   bound variables occurs; remove_empty_quantifications is the NEXT member of INTUITIONISTIC and
   removes it again.  So the invariant is proved for the composed portfolios
   (compose (INTUITIONISTIC ++ HT), compose (INTUITIONISTIC ++ HT ++ CLASSIC)), through the
   intermediate class [bnw] = "binders_nonempty, except possibly the outermost block", and then for
   Apply::apply and apply_fixpoint.  The structure follows Proofs/ParserImage.v. *)
From Coq Require Import List Ascii String ZArith NArith Bool Lia.
From Anthem Require Import Base.ISet Base.Fresh Syntax.Fol
  Model.Apply Model.Subst Model.SimplIntuit Model.SimplClassic Model.StrategyCls Model.ClsTerm
  Model.ProblemPrint
  Proofs.SubstTerm Proofs.SubstOk Proofs.SimplClassicBase Proofs.SimplClassicOk Proofs.StrategyClsOk
  Proofs.SimplClassicTotal Proofs.SimplClassicClosed.
Import ListNotations.
Open Scope string_scope.
Open Scope list_scope.

Definition bn (F : formula) : Prop := binders_nonempty F = true.

Lemma bn_atomic a : bn (FAtomic a).
Proof. reflexivity. Qed.
Lemma bn_not f : bn (FNot f) <-> bn f.
Proof. unfold bn. cbn. tauto. Qed.
Lemma bn_bin c l r : bn (FBin c l r) <-> bn l /\ bn r.
Proof. unfold bn. cbn. rewrite andb_true_iff. tauto. Qed.
Lemma bn_q q vs f : bn (FQ q vs f) <-> vs <> [] /\ bn f.
Proof.
  unfold bn. cbn. rewrite andb_true_iff, negb_true_iff, Nat.eqb_neq.
  destruct vs; cbn; split; intros [A B]; split; auto; congruence.
Qed.
Lemma bn_quantify f q vs : bn f -> bn (quantify f q vs).
Proof. intros Hf. unfold quantify. destruct vs; [exact Hf|]. apply bn_q. split; [discriminate|exact Hf]. Qed.

Lemma bn_reduce c x xs : bn x -> (forall y, In y xs -> bn y) ->
  bn (fold_left (fun acc e => FBin c acc e) xs x).
Proof.
  revert x. induction xs as [|y ys IH]; intros x Hx H; cbn [fold_left]; [exact Hx|].
  apply IH; [apply bn_bin; split; [exact Hx|apply H; left; reflexivity]|intros z Hz; apply H; right; exact Hz].
Qed.
Lemma bn_conjoin l : (forall x, In x l -> bn x) -> bn (conjoin l).
Proof.
  intros H. unfold conjoin, reduce_bin. destruct l as [|x xs]; [apply bn_atomic|].
  apply bn_reduce; [apply H; left; reflexivity|intros y Hy; apply H; right; exact Hy].
Qed.
Lemma bn_disjoin l : (forall x, In x l -> bn x) -> bn (disjoin l).
Proof.
  intros H. unfold disjoin, reduce_bin. destruct l as [|x xs]; [apply bn_atomic|].
  apply bn_reduce; [apply H; left; reflexivity|intros y Hy; apply H; right; exact Hy].
Qed.
Lemma bn_conjoin_invert F : bn F -> forall ct, In ct (conjoin_invert F) -> bn ct.
Proof.
  induction F as [a|f IH|c l IHl r IHr|q vs f IH]; intros H ct;
    try (cbn [conjoin_invert]; intros [<-|[]]; exact H).
  destruct c; try (cbn [conjoin_invert]; intros [<-|[]]; exact H).
  cbn [conjoin_invert]. rewrite in_app_iff. apply bn_bin in H. destruct H as [Hl Hr]. intros [Hc|Hc]; auto.
Qed.

(* =========================================================== the ten INTUITIONISTIC rewrites *)
Definition bn_pres (r : formula -> formula) : Prop := forall F, bn F -> bn (r F).

Lemma evaluate_comparisons_guards_bn lhs gs x : In x (evaluate_comparisons_guards lhs gs) -> bn x.
Proof.
  revert lhs. induction gs as [|g gs IH]; intros lhs; cbn [evaluate_comparisons_guards]; [intros []|].
  intros [<-|H]; [|exact (IH _ H)].
  destruct (gterm_eqb lhs (gterm_of g)); [destruct (grel g)|]; apply bn_atomic.
Qed.
Lemma evaluate_comparisons_bn : bn_pres evaluate_comparisons.
Proof.
  intros F H. destruct F as [[| |p ts|t gs]|f|c l r|q vs f]; try exact H.
  cbn [evaluate_comparisons]. apply bn_conjoin. apply evaluate_comparisons_guards_bn.
Qed.
Lemma apply_negation_definition_inverse_bn : bn_pres apply_negation_definition_inverse.
Proof.
  intros F H. destruct F as [a|f|c l r|q vs f]; try exact H.
  destruct c; try exact H. destruct r as [[| |p ts|t gs]|f|c' l' r'|q vs f]; try exact H.
  cbn. apply bn_not. apply bn_bin in H. tauto.
Qed.
Lemma apply_reverse_implication_definition_bn : bn_pres apply_reverse_implication_definition.
Proof.
  intros F H. destruct F as [a|f|c l r|q vs f]; try exact H. destruct c; try exact H.
  cbn. apply bn_bin in H. apply bn_bin. tauto.
Qed.
Lemma apply_equivalence_definition_inverse_bn : bn_pres apply_equivalence_definition_inverse.
Proof.
  intros F H. destruct F as [a|f|c l r|q vs f]; try exact H. destruct c; try exact H.
  assert (Hc : bn (conjoin [l; r])) by (cbn; exact H).
  cbn [apply_equivalence_definition_inverse].
  destruct l as [a|f|c l1 l2|q vs f]; try exact Hc. destruct c; try exact Hc.
  destruct r as [a|f|c r1 r2|q vs f]; try exact Hc. destruct c; try exact Hc.
  destruct (formula_eqb l1 r2 && formula_eqb l2 r1); [|exact Hc].
  apply bn_bin in H. destruct H as [H1 _]. apply bn_bin in H1. apply bn_bin. exact H1.
Qed.
Lemma remove_identities_bn : bn_pres remove_identities.
Proof.
  intros F H. destruct F as [a|f|c l r|q vs f]; try exact H.
  apply bn_bin in H. destruct H as [Hl Hr].
  assert (HF : bn (FBin c l r)) by (apply bn_bin; auto).
  destruct c; try exact HF; cbn [remove_identities];
    destruct l as [[| |p ts|t gs]|f|c' l1 l2|q vs f]; destruct r as [[| |p' ts'|t' gs']|f'|c'' r1 r2|q' vs' f'];
    first [exact HF|exact Hl|exact Hr].
Qed.
Lemma remove_annihilations_bn : bn_pres remove_annihilations.
Proof.
  intros F H. destruct F as [a|f|c l r|q vs f]; try exact H.
  destruct c; try exact H; cbn [remove_annihilations];
    destruct l as [[| |p ts|t gs]|f|c' l1 l2|q vs f]; destruct r as [[| |p' ts'|t' gs']|f'|c'' r1 r2|q' vs' f'];
    try (apply bn_atomic); try exact H;
    match goal with |- context [if ?b then _ else _] => destruct b end; first [apply bn_atomic|exact H].
Qed.
Lemma remove_idempotences_bn : bn_pres remove_idempotences.
Proof.
  intros F H. destruct F as [a|f|c l r|q vs f]; try exact H.
  destruct c; try exact H; cbn [remove_idempotences]; destruct (formula_eqb l r); try exact H;
    apply bn_bin in H; tauto.
Qed.
(* the pair remove_orphaned_variables ; remove_empty_quantifications *)
Lemma orphaned_then_empty_bn F : bn F -> bn (remove_empty_quantifications (remove_orphaned_variables F)).
Proof.
  intros H. destruct F as [a|f|c l r|q vs f]; try exact H.
  cbn [remove_orphaned_variables]. apply bn_q in H. destruct H as [_ Hf].
  destruct (filter (fun v => memb var_dec v (free_variables f)) vs) as [|w ws] eqn:E; cbn [remove_empty_quantifications].
  - exact Hf.
  - apply bn_q. split; [discriminate|exact Hf].
Qed.
Lemma join_nested_quantifiers_bn : bn_pres join_nested_quantifiers.
Proof.
  intros F H. destruct F as [a|f|c l r|q vs f]; try exact H.
  destruct f as [a|f|c l r|q' vs' f]; try exact H.
  cbn [join_nested_quantifiers]. destruct (quant_dec q q'); [|exact H].
  apply bn_q in H. destruct H as [_ H]. apply bn_q in H. apply bn_quantify. tauto.
Qed.

Lemma compose_cons {X} (r : X -> X) rs x : compose (r :: rs) x = compose rs (r x).
Proof. reflexivity. Qed.
Lemma compose_app {X} (rs ss : list (X -> X)) x : compose (rs ++ ss) x = compose ss (compose rs x).
Proof. unfold compose. apply fold_left_app. Qed.
Lemma compose_bn rs : Forall bn_pres rs -> bn_pres (compose rs).
Proof.
  unfold compose. induction 1 as [|r rs Hr _ IH]; intros F HF; cbn [fold_left]; [exact HF|].
  apply IH, Hr, HF.
Qed.

Theorem INTUITIONISTIC_bn : bn_pres (compose INTUITIONISTIC).
Proof.
  intros F H. unfold INTUITIONISTIC. rewrite !compose_cons.
  apply join_nested_quantifiers_bn. change (compose [] ?x) with x.
  apply evaluate_comparisons_bn, apply_negation_definition_inverse_bn, apply_reverse_implication_definition_bn,
    apply_equivalence_definition_inverse_bn, remove_identities_bn, remove_annihilations_bn,
    remove_idempotences_bn in H.
  exact (orphaned_then_empty_bn _ H).
Qed.

(* =========================================================================== Formula::substitute *)
Section RenameBlock.
Variable sub : formula -> var -> gterm -> option formula.
Variables tvs avoid0 : list var.
Hypothesis Hsub : forall f v t f1, sub f v t = Some f1 -> bn f -> bn f1.
Lemma rb_bn : forall vs f ch f' o, rename_block sub tvs avoid0 vs f ch = Some (f', o) ->
  bn f -> (vs <> [] -> o <> []) /\ bn f'.
Proof.
  induction vs as [|v vs IH]; intros f ch f' o EQ Hf.
  - cbn in EQ. inversion EQ; subst. split; [congruence|exact Hf].
  - apply (rb_cons_inv sub tvs avoid0) in EQ.
    destruct EQ as [[_ [f1 [o1 [E1 [E2 ->]]]]]|[_ [o1 [E2 ->]]]].
    + destruct (IH _ _ _ _ E2 (Hsub _ _ _ _ E1 Hf)) as [_ Hf']. split; [discriminate|exact Hf'].
    + destruct (IH _ _ _ _ E2 Hf) as [_ Hf']. split; [discriminate|exact Hf'].
Qed.
End RenameBlock.

Lemma subst_fuel_bn n : forall F x t G, subst_fuel n F x t = Some G -> bn F -> bn G.
Proof.
  induction n as [|n IH]; intros F x t G E HF; [cbn in E; inversion E; subst; exact HF|].
  destruct F as [a|f|c l r|q vs f].
  - apply subst_atomic_inv in E. destruct E as [a' [Ea ->]]. apply bn_atomic.
  - apply subst_not_inv in E. destruct E as [f' [E ->]]. apply bn_not. apply bn_not in HF. eauto.
  - apply subst_bin_inv in E. destruct E as [l' [r' [El [Er ->]]]]. apply bn_bin in HF. apply bn_bin.
    split; [eapply IH; [exact El|tauto]|eapply IH; [exact Er|tauto]].
  - apply subst_q_inv in E. destruct E as [[_ ->]|[_ [f' [vs' [f'' [E1 [E2 ->]]]]]]]; [exact HF|].
    apply bn_q in HF. destruct HF as [Hn Hf].
    destruct (rb_bn (subst_fuel n) _ _ (fun f0 v t0 f1 => IH f0 v t0 f1) _ _ _ _ _ E1 Hf) as [_ Hf'].
    apply bn_quantify. exact (IH _ _ _ _ E2 Hf').
Qed.
Theorem substitute_bn F x t G : substitute F x t = Some G -> bn F -> bn G.
Proof. apply subst_fuel_bn. Qed.

(* ================================================================== the five CLASSIC rewrites *)
Lemma remove_double_negation_bn : bn_pres remove_double_negation.
Proof. intros F H. destruct F as [a|[a|g|c l r|q vs g]|c l r|q vs g]; exact H. Qed.

Lemma extend_quantifier_scope_bn : bn_pres extend_quantifier_scope.
Proof.
  intros F H.
  destruct (extend_quantifier_scope_cases F)
    as [E|[(c&q&vs&f&rhs&Hc&->&_&->)|(c&q&vs&f&lhs&Hc&->&_&->)]]; [rewrite E; exact H| |].
  - apply bn_bin in H. destruct H as [H1 H2]. apply bn_q in H1. apply bn_q. split; [tauto|]. apply bn_bin. tauto.
  - apply bn_bin in H. destruct H as [H1 H2]. apply bn_q in H2. apply bn_q. split; [tauto|]. apply bn_bin. tauto.
Qed.

Lemma sdv_loop_bn : forall vs f f', sdv_loop vs f = Some f' -> bn f -> bn f'.
Proof.
  induction vs as [|v vs IH]; intros f f'; cbn [sdv_loop]; [intros [= <-]; auto|].
  destruct (find_definition v f) as [d|]; [|apply IH].
  destruct (substitute f v d) as [f1|] eqn:Es; [|discriminate].
  intros H Hf. exact (IH _ _ H (substitute_bn _ _ _ _ Es Hf)).
Qed.
Lemma substitute_defined_variables_bn : bn_pres substitute_defined_variables.
Proof.
  intros F H. unfold substitute_defined_variables, total.
  destruct F as [a|g|c l r|q vs f]; cbn [substitute_defined_variables_opt]; try exact H.
  destruct q; try exact H.
  destruct (sdv_loop (rev vs) f) as [f'|] eqn:E; [|exact H].
  apply bn_q in H. destruct H as [Hn Hf]. apply bn_quantify. exact (sdv_loop_bn _ _ _ E Hf).
Qed.

Lemma replacement_helper_bn ivar ovar comp F G :
  replacement_helper ivar ovar comp F = Some (G, true) -> bn F -> bn G.
Proof.
  unfold replacement_helper.
  match goal with |- (if ?c then _ else _) = _ -> _ => destruct c end; [|intros [= _ ?]; discriminate].
  destruct (SimplClassic.choose_fresh_variable_names (variables F) (fresh_variant (vname ivar)) 1) as [|fvar rest] eqn:CF; [discriminate|].
  destruct F as [a|g|c l r|q vars f]; try discriminate.
  destruct (substitute f ovar (GInt (IVar fvar))) as [f'|] eqn:Sub; [|discriminate].
  intros [= <-] H. apply bn_q in H. destruct H as [Hn HF]. apply bn_q. split.
  - intros E. apply app_eq_nil in E. destruct E as [_ E]. discriminate.
  - exact (substitute_bn _ _ _ _ Sub HF).
Qed.
Lemma rqd_hit_bn F outer inner cond comps G : rqd_hit F outer inner cond comps G -> bn F -> bn G.
Proof. intros (ivar & ovar & comp & _ & _ & _ & _ & _ & R). exact (replacement_helper_bn _ _ _ _ _ R). Qed.

Lemma restrict_quantifier_domain_bn : bn_pres restrict_quantifier_domain.
Proof.
  intros F HF. unfold restrict_quantifier_domain, total.
  destruct F as [a|g|c l r|q outer body]; cbn [restrict_quantifier_domain_opt]; try exact HF.
  destruct q.
  - destruct body as [a|g|c lhs rhs|q' vs' g]; try exact HF.
    destruct c; try exact HF.
    destruct lhs as [a|g|c l r|q' inner inner_formula]; try exact HF.
    destruct q'; try exact HF.
    set (B := FBin CImp (FQ QExists inner inner_formula) rhs) in *. set (F := FQ QForall outer B) in *.
    fold (cond_all inner rhs).
    match goal with |- context [option_map fst ?x] => destruct x as [s'|] eqn:L end; [|exact HF].
    cbn [option_map].
    assert (P : fst s' = F \/ rqd_hit F outer inner (cond_all inner rhs) (conjoin_invert inner_formula) (fst s')).
    { revert L.
      apply (for_break_inv (fun s => fst s = F \/
               rqd_hit F outer inner (cond_all inner rhs) (conjoin_invert inner_formula) (fst s)));
        [|left; reflexivity].
      intros s0 x s2 b0 Hx P0.
      apply (rqd_comp_body_inv F outer inner (cond_all inner rhs) (conjoin_invert inner_formula)
               (fun s => fst s = F \/
                  rqd_hit F outer inner (cond_all inner rhs) (conjoin_invert inner_formula) (fst s))
               (fun G HG => or_intror HG) false s0 x s2 b0 Hx P0). }
    destruct P as [->|P]; [exact HF|]. exact (rqd_hit_bn _ _ _ _ _ _ P HF).
  - destruct body as [a|g|c lhs rhs|q' vs' g]; try exact HF.
    destruct c; try exact HF.
    set (B := FBin CAnd lhs rhs) in *. set (F := FQ QExists outer B) in *.
    set (cts := conjoin_invert lhs ++ conjoin_invert rhs).
    match goal with |- context [option_map fst ?x] => destruct x as [s'|] eqn:L end; [|exact HF].
    cbn [option_map].
    assert (P : fst s' = F \/ rqd_hit_ex F outer cts (fst s')).
    { revert L. apply (for_break_inv (fun s => fst s = F \/ rqd_hit_ex F outer cts (fst s))); [|left; reflexivity].
      intros s0 x s2 b0 Hx P0. apply (rqd_ct_body_inv F outer cts s0 x s2 b0 Hx P0). }
    destruct P as [->|[inner [inner_formula [_ P]]]]; [exact HF|]. exact (rqd_hit_bn _ _ _ _ _ _ P HF).
Qed.

Lemma ste_good_bn vars f G : vars <> [] -> bn f -> ste_good vars (conjoin_invert f) G -> bn G.
Proof.
  intros Hn Hf (c1 & c2 & k & d & dt & inner & _ & _ & _ & _ & _ & _ & Sub & ->).
  apply bn_q. split; [exact Hn|]. apply (substitute_bn _ _ _ _ Sub).
  apply bn_conjoin. intros x Hx. apply filter_In in Hx. exact (bn_conjoin_invert f Hf x (proj1 Hx)).
Qed.
Lemma simplify_transitive_equality_bn : bn_pres simplify_transitive_equality.
Proof.
  intros F HF. unfold simplify_transitive_equality, total.
  destruct F as [a|g|c l r|q vs f]; cbn [simplify_transitive_equality_opt]; try exact HF.
  destruct q; try exact HF.
  destruct f as [a|g|c l r|q' vs' g]; try exact HF.
  destruct c; try exact HF.
  set (f := FBin CAnd l r) in *. set (F := FQ QExists vs f) in *.
  destruct (for_break (ste_outer_body vs (conjoin_invert f)) (F, false) (enumerate (conjoin_invert f)))
    as [s'|] eqn:L; [|exact HF].
  cbn [option_map].
  assert (P : fst s' = F \/ ste_good vs (conjoin_invert f) (fst s')).
  { revert L. apply (for_break_inv (fun s => fst s = F \/ ste_good vs (conjoin_invert f) (fst s))); [|left; reflexivity].
    intros s0 x s2 b0 Hx P0. apply (ste_outer_body_inv F vs (conjoin_invert f)); auto.
    destruct x as [j ct]. cbn [snd]. eapply in_enumerate; eauto. }
  destruct P as [->|P]; [exact HF|].
  apply bn_q in HF. destruct HF as [Hn Hf]. exact (ste_good_bn vs f _ Hn Hf P).
Qed.

Lemma CLASSIC_bn : Forall bn_pres CLASSIC.
Proof.
  unfold CLASSIC. repeat (apply Forall_cons || apply Forall_nil).
  - exact remove_double_negation_bn.
  - exact substitute_defined_variables_bn.
  - exact restrict_quantifier_domain_bn.
  - exact extend_quantifier_scope_bn.
  - exact simplify_transitive_equality_bn.
Qed.

(* the two portfolios of `verify` *)
Theorem portfolio_ht_bn : bn_pres (compose (INTUITIONISTIC ++ HT)).
Proof. unfold HT. rewrite app_nil_r. exact INTUITIONISTIC_bn. Qed.
Theorem portfolio_full_bn : bn_pres (compose (INTUITIONISTIC ++ HT ++ CLASSIC)).
Proof.
  intros F H. unfold HT. rewrite app_nil_l, compose_app. apply (compose_bn _ CLASSIC_bn), INTUITIONISTIC_bn, H.
Qed.

(* ============================================================ apply, apply_fixpoint *)
Lemma apply_bn r : bn_pres r -> bn_pres (apply r).
Proof.
  intros Hr F. induction F as [a|f IH|c l IHl r' IHr|q vs f IH]; intros HF; cbn [apply]; apply Hr.
  - exact HF.
  - apply bn_not. apply bn_not in HF. auto.
  - apply bn_bin. apply bn_bin in HF. tauto.
  - apply bn_q. apply bn_q in HF. tauto.
Qed.
Lemma apply_fixpoint_from_bn fuel r : bn_pres r -> forall previous current G,
  bn current -> apply_fixpoint_from fuel r previous current = Some G -> bn G.
Proof.
  intros Hr. induction fuel as [|n IH]; intros previous current G Hc; cbn [apply_fixpoint_from];
    destruct (formula_eqb previous current); try discriminate; try (intros [= <-]; exact Hc).
  apply IH. apply apply_bn; assumption.
Qed.
Theorem apply_fixpoint_bn fuel r F G : bn_pres r -> bn F -> apply_fixpoint fuel r F = Some G -> bn G.
Proof. intros Hr HF. unfold apply_fixpoint. apply apply_fixpoint_from_bn; [exact Hr|apply apply_bn; assumption]. Qed.
