(* Correctness of pest's Pratt algorithm (Model/FolPratt.v) on the output of a precedence printer, generic
   in the tree type and in the binding-power tables (generalisation of design-probes/Pratt_probe.v to
   tables with several operators per level, left and right associativity, several prefix operators).
     1. big-step relation Expr / Loop for pratt_expr / pratt_loop (keeps fuel out of the induction);
     2. adequacy: a derivation is computed by the fuelled functions with fuel = number of items;
     3. [Pr t is lv fl]: "is is a printed form of t exposing infix operators of binding power >= lv
        at its top level, and whatever follows must be an infix operator of power <= fl";
     4. the generalised claim: parsing  is ++ R  at any rbp < lv yields t and continues the operator
        loop on R, provided R may follow (follow_ok fl R). *)
From Coq Require Import List Arith Lia Bool.
From Anthem Require Import Gen.TablesFol Model.FolPratt.
Import ListNotations.

Section PrattOk.
  Variables T U B : Type.
  Variable mk_un : U -> T -> T.
  Variable mk_bin : B -> T -> T -> T.
  Variable pre_bp : U -> option nat.
  Variable in_bp : B -> option (nat * assoc).
  Notation item := (pitem T U B).
  Notation expr := (pratt_expr mk_un mk_bin pre_bp in_bp).
  Notation loop := (pratt_loop mk_un mk_bin pre_bp in_bp).

  Inductive Expr : nat -> list item -> T -> list item -> Prop :=
  | E_prim rbp t r t' r' : Loop rbp t r t' r' -> Expr rbp (PPrim t :: r) t' r'
  | E_pre rbp u r p t r1 t' r' :
      pre_bp u = Some p -> Expr (p - 1) r t r1 -> Loop rbp (mk_un u t) r1 t' r' -> Expr rbp (PPre u :: r) t' r'
  with Loop : nat -> T -> list item -> T -> list item -> Prop :=
  | L_nil rbp lhs : Loop rbp lhs [] lhs []
  | L_stop rbp lhs o r p a : in_bp o = Some (p, a) -> ~ rbp < p -> Loop rbp lhs (PIn o :: r) lhs (PIn o :: r)
  | L_step rbp lhs o r p a rhs r1 t' r' :
      in_bp o = Some (p, a) -> rbp < p -> Expr (rhs_bp p a) r rhs r1 -> Loop rbp (mk_bin o lhs rhs) r1 t' r' ->
      Loop rbp lhs (PIn o :: r) t' r'.

  Scheme Expr_mut := Induction for Expr Sort Prop
    with Loop_mut := Induction for Loop Sort Prop.
  Combined Scheme Expr_Loop_ind from Expr_mut, Loop_mut.

  (* the rest is never longer than the input *)
  Lemma rest_length :
    (forall rbp is t r, Expr rbp is t r -> length r <= length is) /\
    (forall rbp lhs is t r, Loop rbp lhs is t r -> length r <= length is).
  Proof.
    apply Expr_Loop_ind; intros; cbn [length] in *; lia.
  Qed.

  (* unfolding equations (the mutual fixpoint does not refold under cbn) *)
  Lemma expr_S f rbp is :
    expr (S f) rbp is =
    match is with
    | PPrim t :: r => loop f rbp t r
    | PPre u :: r =>
        match pre_bp u with
        | Some p => match expr f (p - 1) r with Some (t, r') => loop f rbp (mk_un u t) r' | None => None end
        | None => None
        end
    | PIn _ :: _ => None
    | [] => None
    end.
  Proof. reflexivity. Qed.
  Lemma loop_eq fuel rbp lhs is :
    loop fuel rbp lhs is =
    match is with
    | [] => Some (lhs, [])
    | PIn o :: r =>
        match in_bp o with
        | Some (p, a) =>
            if rbp <? p then
              match fuel with
              | O => None
              | S f => match expr f (rhs_bp p a) r with Some (rhs, r') => loop f rbp (mk_bin o lhs rhs) r' | None => None end
              end
            else Some (lhs, is)
        | None => None
        end
    | _ :: _ => None
    end.
  Proof. destruct fuel; reflexivity. Qed.

  (* adequacy: fuel = number of items is enough *)
  Lemma adequacy :
    (forall rbp is t r, Expr rbp is t r -> forall fuel, length is <= fuel -> expr fuel rbp is = Some (t, r)) /\
    (forall rbp lhs is t r, Loop rbp lhs is t r -> forall fuel, length is <= fuel -> loop fuel rbp lhs is = Some (t, r)).
  Proof.
    apply Expr_Loop_ind.
    - intros rbp t r t' r' HL IH fuel Hf. destruct fuel as [|f]; [cbn in Hf; lia|].
      rewrite expr_S. apply IH. cbn in Hf; lia.
    - intros rbp u r p t r1 t' r' Hp HE IHE HL IHL fuel Hf. destruct fuel as [|f]; [cbn in Hf; lia|].
      rewrite expr_S, Hp. cbn in Hf. rewrite (IHE f) by lia.
      apply IHL. pose proof (proj1 rest_length _ _ _ _ HE). lia.
    - intros rbp lhs fuel _. rewrite loop_eq. reflexivity.
    - intros rbp lhs o r p a Hp Hn fuel _.
      assert (E : (rbp <? p) = false) by (apply Nat.ltb_ge; lia).
      rewrite loop_eq, Hp, E. reflexivity.
    - intros rbp lhs o r p a rhs r1 t' r' Hp Hlt HE IHE HL IHL fuel Hf.
      destruct fuel as [|f]; [cbn in Hf; lia|]. rewrite loop_eq, Hp.
      assert (E : (rbp <? p) = true) by (apply Nat.ltb_lt; lia). rewrite E.
      cbn in Hf. rewrite (IHE f) by lia. apply IHL.
      pose proof (proj1 rest_length _ _ _ _ HE). lia.
  Qed.

  (* what may follow a printed form whose follow bound is fl *)
  Definition follow_ok (fl : nat) (R : list item) : Prop :=
    R = [] \/ exists o r p a, R = PIn o :: r /\ in_bp o = Some (p, a) /\ p <= fl.

  Lemma follow_weaken b b' R : b <= b' -> follow_ok b R -> follow_ok b' R.
  Proof.
    intros L [->|(o & r & p & a & -> & H & Hp)]; [left; reflexivity|].
    right. exists o, r, p, a. repeat split; auto; lia.
  Qed.
  Lemma loop_stops b t R : follow_ok b R -> Loop b t R t R.
  Proof.
    intros [->|(o & r & p & a & -> & H & Hp)]; [constructor|].
    eapply L_stop; [exact H|lia].
  Qed.

  (* printed forms *)
  Inductive Pr : T -> list item -> nat -> nat -> Prop :=
  | Pr_prim t lv fl : Pr t [PPrim t] lv fl
  | Pr_pre u t is lv fl p lv' :
      pre_bp u = Some p -> Pr t is lv fl -> p - 1 < lv -> Pr (mk_un u t) (PPre u :: is) lv' (Nat.min fl (p - 1))
  | Pr_bin o l r isl isr lvl fll lvr flr p a :
      in_bp o = Some (p, a) -> Pr l isl lvl fll -> Pr r isr lvr flr ->
      p <= lvl -> p <= fll -> rhs_bp p a < lvr ->
      Pr (mk_bin o l r) (isl ++ PIn o :: isr) p (Nat.min (rhs_bp p a) flr)
  | Pr_weaken t is lv fl lv' fl' : Pr t is lv fl -> lv' <= lv -> fl' <= fl -> Pr t is lv' fl'.

  Theorem pratt_claim t is lv fl : Pr t is lv fl ->
    forall rbp R t' R', rbp < lv -> follow_ok fl R -> Loop rbp t R t' R' -> Expr rbp (is ++ R) t' R'.
  Proof.
    induction 1 as [t lv fl | u t is lv fl p lv' Hp HP IH Hlv | o l r isl isr lvl fll lvr flr p a Hp HPl IHl HPr IHr H1 H2 H3
                   | t is lv fl lv' fl' HP IH Hlv Hfl];
      intros rbp R t' R' Hr HF HL.
    - cbn. constructor. exact HL.
    - cbn [app]. eapply E_pre; [exact Hp| |exact HL].
      apply IH; [exact Hlv| |].
      + eapply follow_weaken; [|exact HF]. apply Nat.le_min_l.
      + apply loop_stops. eapply follow_weaken; [|exact HF]. apply Nat.le_min_r.
    - rewrite <- app_assoc. cbn [app].
      apply IHl; [lia| |].
      + right. exists o, (isr ++ R), p, a. repeat split; auto.
      + eapply L_step; [exact Hp|exact Hr| |exact HL].
        apply IHr; [exact H3| |].
        * eapply follow_weaken; [|exact HF]. apply Nat.le_min_r.
        * apply loop_stops. eapply follow_weaken; [|exact HF]. apply Nat.le_min_l.
    - apply IH; [lia| |exact HL]. eapply follow_weaken; [exact Hfl|exact HF].
  Qed.

  Corollary pratt_ok t is lv fl : Pr t is lv fl -> 0 < lv -> pratt mk_un mk_bin pre_bp in_bp is = Some t.
  Proof.
    intros HP Hlv. unfold pratt.
    assert (E : Expr 0 (is ++ []) t []).
    { eapply pratt_claim; [exact HP|exact Hlv|left; reflexivity|constructor]. }
    rewrite app_nil_r in E.
    rewrite (proj1 adequacy _ _ _ _ E (length is)) by lia. reflexivity.
  Qed.
End PrattOk.
