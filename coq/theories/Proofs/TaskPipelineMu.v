(* Audit B8 (C09 tie), part 3b: the mu representation (Model/MuFull.v) delivers parser-image sentences.
   A rule the natural translation accepts becomes  universal_closure (body -> head): closed by
   construction; its only quantifier besides the closure is the block of fresh integer variables
   of the head, present only when the list is non-empty.  Refused rules go through tau*. *)
From Coq Require Import List Ascii String ZArith NArith Bool Lia.
From Anthem Require Import Base.ISet Base.Fresh Syntax.Fol Syntax.Asp
  Model.Natural Model.Mu Model.TauStar Model.MuFull Model.ProblemPrint
  Proofs.FreeVars Proofs.TauStarClosed Proofs.SimplClassicTotal Proofs.ParserImage Proofs.ParserImagePipeline
  Proofs.ParserImageNatural
  Proofs.TaskPipelineBn Proofs.TaskPipelineClosed Proofs.TaskPipelineTrans.
Import ListNotations.
Open Scope string_scope.
Open Scope list_scope.

Lemma collect_options_in {A B} (f : A -> option B) : forall l m, collect_options f l = Some m ->
  forall y, In y m -> exists x, In x l /\ f x = Some y.
Proof.
  induction l as [|x l IH]; intros m; cbn [collect_options]; [intros [= <-] y []|].
  destruct (f x) as [y0|] eqn:E; [|discriminate]. destruct (collect_options f l) as [ys|]; [|discriminate].
  intros [= <-] y [<-|Hy]; [exists x; split; [left; reflexivity|exact E]|].
  destruct (IH ys eq_refl y Hy) as [x' [Hx' E']]. exists x'. split; [right; exact Hx'|exact E'].
Qed.

Lemma natural_comparison_bn c iv f : natural_comparison c iv = Some f -> bn f.
Proof.
  unfold natural_comparison. destruct (p2f (clhs c) iv) as [lhs|]; [|discriminate].
  destruct (_ && _).
  - destruct (crhs c) as [| | |o t2 t3]; try discriminate.
    destruct (p2f t2 iv); [|discriminate]. destruct (p2f t3 iv); [|discriminate]. intros [= <-]. reflexivity.
  - destruct (p2f (crhs c) iv); [|discriminate]. intros [= <-]. reflexivity.
Qed.
Lemma natural_b_literal_bn l iv f : natural_b_literal l iv = Some f -> bn f.
Proof.
  unfold natural_b_literal. destruct (natural_b_atom (latom l) iv) as [[p ts]|]; [|discriminate].
  intros [= <-]. destruct (lsign l); reflexivity.
Qed.
Lemma natural_body_bn b iv f : natural_body b iv = Some f -> bn f.
Proof.
  unfold natural_body.
  match goal with |- match collect_options ?g b with _ => _ end = _ -> _ => destruct (collect_options g b) as [fs|] eqn:E end; [|discriminate].
  intros [= <-]. apply bn_conjoin. intros x Hx. destruct (collect_options_in _ _ _ E x Hx) as [y [_ Ey]].
  destruct y as [l|c]; [exact (natural_b_literal_bn l iv x Ey)|exact (natural_comparison_bn c iv x Ey)].
Qed.

Lemma natural_head_interval_formulas_bn ts iv : forall fv fs,
  natural_head_interval_formulas ts iv fv = NOk fs -> forall x, In x fs -> bn x.
Proof.
  induction ts as [|t ts IH]; intros fv fs; cbn [natural_head_interval_formulas]; [intros [= <-] x []|].
  destruct (is_term_regular_of_second_kind t); [|apply IH].
  destruct t as [| | |o t1 t2]; try discriminate. destruct fv as [|v fv']; [discriminate|].
  destruct (p2f t1 iv) as [t1'|]; cbn [unwrap nbind]; [|discriminate].
  destruct (p2f t2 iv) as [t2'|]; cbn [unwrap nbind]; [|discriminate].
  destruct (natural_head_interval_formulas ts iv fv') as [fs'| |] eqn:E; cbn [nbind]; try discriminate.
  intros [= <-] x [<-|Hx]; [reflexivity|exact (IH _ _ E x Hx)].
Qed.

Lemma natural_head_shape_bn a iv (wrap : formula -> formula) f :
  (forall h, bn h -> bn (wrap h)) ->
  nbind (unwrap (fresh_variables_for_head_atom a))
    (fun fresh_vars =>
       nbind (natural_head_atom a iv fresh_vars)
         (fun head_atom =>
            match fresh_vars with
            | [] => NOk (wrap head_atom)
            | _ => nbind (natural_head_interval a iv fresh_vars)
                     (fun conditions => NOk (FQ QForall (int_binders fresh_vars) (FBin CImp conditions (wrap head_atom))))
            end)) = NOk f -> bn f.
Proof.
  intros Hwrap. destruct (fresh_variables_for_head_atom a) as [fv|]; cbn [unwrap nbind]; [|discriminate].
  unfold natural_head_atom.
  destruct (natural_head_atom_terms (aterms a) iv fv) as [terms| |]; cbn [nbind]; try discriminate.
  assert (Hh : bn (wrap (FAtomic (AAtom (apred a) terms)))) by (apply Hwrap; reflexivity).
  destruct fv as [|v0 fv'].
  - intros [= <-]. exact Hh.
  - unfold natural_head_interval.
    destruct (natural_head_interval_formulas (aterms a) iv (v0 :: fv')) as [fs| |] eqn:Ei; cbn [nbind]; try discriminate.
    intros [= <-]. apply bn_q. split; [discriminate|]. apply bn_bin. split; [|exact Hh].
    apply bn_conjoin. exact (natural_head_interval_formulas_bn _ _ _ _ Ei).
Qed.
Lemma natural_head_bn h iv f : natural_head h iv = NOk f -> bn f.
Proof.
  destruct h as [a|a|]; cbn [natural_head].
  - unfold natural_basic_head. apply (natural_head_shape_bn a iv (fun x => x)). auto.
  - unfold natural_choice_head. apply (natural_head_shape_bn a iv (fun x => FBin COr x (FNot x))).
    intros x Hx. apply bn_bin. split; [exact Hx|apply bn_not, Hx].
  - intros [= <-]. reflexivity.
Qed.

Theorem natural_rule_closed r f : natural_rule r = NOk f -> closed_formula f = true.
Proof.
  unfold natural_rule.
  destruct (natural_head (rhead r) (int_variables r)) as [head| |] eqn:Eh; cbn [nbind]; try discriminate.
  destruct (natural_body (rbody r) (int_variables r)) as [body|] eqn:Eb; cbn [of_option nbind]; [|discriminate].
  intros [= <-]. apply universal_closure_closed. apply bn_bin. split; [exact (natural_body_bn _ _ _ Eb)|exact (natural_head_bn _ _ _ Eh)].
Qed.

Theorem mu_full_psent P G : program_vars_named P -> mu_full P = Some G -> forall f, In f G -> psent f.
Proof.
  intros HP E f Hf. split; [exact (mu_full_pi P G HP E f Hf)|].
  revert E f Hf. unfold mu_full. destruct (choose_fresh_global_variables P) as [globals|]; [|discriminate].
  clear HP. revert G. induction P as [|r P IH]; intros G; cbn [mu_full_rules]; [intros [= <-] f []|].
  destruct (natural_rule r) as [f0| |] eqn:En.
  - destruct (mu_full_rules P globals) as [rest|] eqn:Er; cbn [option_map]; [|discriminate].
    intros [= <-] f [<-|Hf]; [exact (natural_rule_closed r f0 En)|exact (IH rest eq_refl f Hf)].
  - destruct (tau_star_rule r globals) as [f0|] eqn:Et; [|discriminate].
    destruct (mu_full_rules P globals) as [rest|] eqn:Er; cbn [option_map]; [|discriminate].
    intros [= <-] f [<-|Hf]; [|exact (IH rest eq_refl f Hf)].
    apply closed_iff. split; [exact (tau_star_rule_bn r globals f0 Et)|exact (tau_star_rule_closed r globals f0 Et)].
  - discriminate.
Qed.
