(* C14, the ASP parser model's own fuel (second audit, B17): every recursion of Model/AspParse.v and
   Model/AspNodes.v that is not structural runs on a counter computed from the length of its input
   (characters for the lexer, tokens for the PEG phase, items for the Pratt phase).  When such a counter
   runs out the model answers None / PFail (lex_go, peg_term, pratt_expr/nud/loop) or silently stops iterating
   (skip_layout, peg_tail, parse_more_terms, parse_more_bformulas, parse_rules) -- which would look like
   a rejection, or like a shorter parse, of the text.  This file proves that it never happens:

     * for each of these functions, the result at the bound that the model computes is the result at
       EVERY larger counter ([*_fuel] lemmas: any two counters above the bound agree);
     * in the Pratt phase PFail arises from an exhausted counter only, and it never arises at or above
       the computed bound ([pratt_expr_no_fail], [pratt_never_fails]).

   The reason is the same everywhere: every iteration / recursive call consumes at least one character,
   token or item ([*_len] lemmas). *)
From Coq Require Import List Ascii String ZArith NArith Bool Lia.
From Anthem Require Import Base.Fresh Syntax.Asp Model.AspTableTypes Gen.TablesAsp Model.AspPrint Model.AspParse
  Model.AspNodes Proofs.AspRoundTrip Proofs.AspLex Proofs.AspImage.
Import ListNotations.
Open Scope list_scope.

(* ================================================================ A. the lexer *)

Lemma span_length p s a b : span p s = (a, b) -> String.length s = String.length a + String.length b.
Proof.
  revert a b. induction s as [|c s IH]; cbn; intros a b H.
  - inversion H; subst. reflexivity.
  - destruct (p c).
    + destruct (span p s) as [a' b'] eqn:E. inversion H; subst. cbn. rewrite (IH _ _ eq_refl). reflexivity.
    + inversion H; subst. reflexivity.
Qed.

Lemma span_head_length p c s a b : p c = true -> span p (String c s) = (a, b) ->
  String.length b < String.length (String c s).
Proof.
  intros Hc. cbn [span]. rewrite Hc. destruct (span p s) as [a' b'] eqn:E. intros [= <- <-].
  apply span_length in E. cbn. lia.
Qed.

Lemma skip_comment_len s : String.length (skip_comment s) <= String.length s.
Proof. induction s as [|c s IH]; cbn; [lia|]. destruct (is_newline c); lia. Qed.

Lemma prefix_drop_len kw s : prefix kw s = true ->
  String.length (drop (String.length kw) s) + String.length kw = String.length s.
Proof.
  revert s. induction kw as [|k kw IH]; intros s.
  - intros _. destruct s; cbn; lia.
  - destruct s as [|c s]; cbn [prefix]; [discriminate|]. destruct (ascii_dec k c); [|discriminate].
    intros H. cbn. rewrite <- (IH _ H). lia.
Qed.

Lemma try_kw_len kw t s t' r : kw <> ""%string -> try_kw kw t s = Some (t', r) ->
  String.length r < String.length s.
Proof.
  intros NE. unfold try_kw. destruct (prefix kw s) eqn:P; [|discriminate]. intros [= _ <-].
  apply prefix_drop_len in P. destruct kw; [congruence|]. cbn in *. lia.
Qed.

Lemma lex_symbol_len c r0 t r : is_symchar c = true -> lex_symbol (String c r0) = Some (t, r) ->
  String.length r < String.length (String c r0).
Proof.
  intros SC. unfold lex_symbol. destruct (span is_symchar (String c r0)) as [id r'] eqn:E.
  pose proof (span_head_length _ _ _ _ _ SC E) as L.
  destruct ((id =? "not")%string && at_ws_or_eoi r'); intros [= _ <-]; exact L.
Qed.

Lemma tail_len s : String.length (tail s) <= String.length s.
Proof. destruct s; cbn; lia. Qed.

(* every token consumes at least one character *)
Lemma lex_token_len o s t r : lex_token o s = Some (t, r) -> String.length r < String.length s.
Proof.
  unfold lex_token. destruct s as [|c r0]; [discriminate|].
  destruct (is_digit c) eqn:D.
  { destruct (c =? "0")%char; [intros [= _ <-]; cbn; lia|].
    destruct (span is_digit (String c r0)) as [ds r'] eqn:E. intros [= _ <-].
    eapply span_head_length; eassumption. }
  destruct (is_lower c) eqn:L.
  { apply lex_symbol_len. destruct (char_classes c) as [CL _]. destruct (CL L) as [_ [_ [S _]]]. exact S. }
  destruct (c =? "_")%char eqn:U.
  { destruct r0 as [|c2 r2]; [discriminate|]. destruct (is_lower c2); [|discriminate].
    apply lex_symbol_len. destruct (char_classes c) as [_ [_ [_ [_ [_ CU]]]]].
    destruct (CU U) as [_ [_ [_ [_ [_ [_ S]]]]]]. exact S. }
  destruct (is_upper c) eqn:UP.
  { destruct (span is_alnum (String c r0)) as [id r'] eqn:E. intros [= _ <-].
    destruct (char_classes c) as [_ [CU _]]. destruct (CU UP) as [_ [_ [_ [AN _]]]].
    eapply span_head_length; eassumption. }
  pose proof (tail_len r0) as TL.
  repeat match goal with
         | |- context [if ?b then _ else _] => destruct b
         | |- context [match ?x with String _ _ => _ | EmptyString => _ end] => destruct x
         end;
    try discriminate; try (intros [= _ <-]; cbn in *; lia).
  - destruct (span is_digit (String a r0)) as [ds r'] eqn:E. intros [= _ <-].
    apply span_length in E. cbn in *. lia.
  - intros H. repeat (apply orelse_some in H; destruct H as [H|H]);
      (eapply try_kw_len in H; [exact H|discriminate]).
Qed.

(* any two counters above the length of the text give the same tokens *)
Lemma lex_go_fuel : forall f1 f2 o s, String.length s < f1 -> String.length s < f2 ->
  lex_go f1 o s = lex_go f2 o s.
Proof.
  induction f1 as [|f1 IH]; intros f2 o s H1 H2; [lia|]. destruct f2 as [|f2]; [lia|].
  cbn [lex_go]. destruct s as [|c r]; [reflexivity|]. cbn [String.length] in *.
  destruct (is_ws c); [apply IH; lia|].
  destruct (c =? "%")%char; [pose proof (skip_comment_len r); apply IH; lia|].
  destruct (lex_token o (String c r)) as [[t r']|] eqn:E; [|reflexivity].
  apply lex_token_len in E. cbn [String.length] in E. rewrite (IH f2); [reflexivity|lia|lia].
Qed.

Theorem lex_fuel s f : String.length s < f -> lex_go f true s = lex s.
Proof. intros H. unfold lex. apply lex_go_fuel; lia. Qed.

Lemma skip_layout_fuel : forall f1 f2 s, String.length s < f1 -> String.length s < f2 ->
  skip_layout f1 s = skip_layout f2 s.
Proof.
  induction f1 as [|f1 IH]; intros f2 s H1 H2; [lia|]. destruct f2 as [|f2]; [lia|].
  cbn [skip_layout]. destruct s as [|c r]; [reflexivity|]. cbn [String.length] in *.
  destruct (is_ws c); [apply IH; lia|].
  destruct (c =? "%")%char; [pose proof (skip_comment_len r); apply IH; lia|reflexivity].
Qed.

Lemma skip_layout_len : forall f s, String.length (skip_layout f s) <= String.length s.
Proof.
  induction f as [|f IH]; intros s; cbn [skip_layout]; [lia|]. destruct s as [|c r]; [cbn; lia|].
  destruct (is_ws c); [specialize (IH r); cbn; lia|].
  destruct (c =? "%")%char; [|lia].
  pose proof (skip_comment_len r). specialize (IH (skip_comment r)). cbn. lia.
Qed.

(* [lex_node] with arbitrary counters above the bounds it computes *)
Definition lex_node_with (f1 f2 f3 : nat) (s : string) : option (list token) :=
  if leading_skip s then
    match skip_layout f1 s with
    | String "-" r => option_map (cons TkNeg) (lex_go f2 true r)
    | _ => lex_go f3 true s
    end
  else lex_go f3 true s.

Theorem lex_node_fuel s f1 f2 f3 :
  String.length s < f1 -> String.length s < f2 -> String.length s < f3 ->
  lex_node_with f1 f2 f3 s = lex_node s.
Proof.
  intros H1 H2 H3. unfold lex_node_with, lex_node.
  rewrite (skip_layout_fuel f1 (S (String.length s))) by lia.
  pose proof (skip_layout_len (S (String.length s)) s) as L.
  rewrite (lex_fuel s f3 H3).
  destruct (leading_skip s); [|reflexivity].
  destruct (skip_layout (S (String.length s)) s) as [|c r]; [reflexivity|].
  cbn [String.length] in L.
  destruct c as [[] [] [] [] [] [] [] []]; try reflexivity.
  rewrite (lex_go_fuel f2 (S (String.length r))) by lia. reflexivity.
Qed.

(* ================================================================ B. terms: PEG phase *)

Definition rec_len (rec : list token -> option (list item * list token)) : Prop :=
  forall ts l r, rec ts = Some (l, r) -> List.length r <= List.length ts.

Lemma peg_prefixes_len ts : List.length (snd (peg_prefixes ts)) <= List.length ts.
Proof.
  induction ts as [|t ts IH]; [cbn; lia|].
  destruct t; cbn [peg_prefixes snd List.length]; try lia.
  destruct (peg_prefixes ts) as [p r]. cbn [snd] in *. lia.
Qed.

(* an operand consumes at least one token *)
Lemma peg_operand_len rec : rec_len rec -> forall ts l r, peg_operand rec ts = Some (l, r) ->
  List.length r < List.length ts.
Proof.
  intros Hrec ts l r. unfold peg_operand. pose proof (peg_prefixes_len ts) as HP.
  destruct (peg_prefixes ts) as [pres r0]. cbn [snd] in HP.
  destruct r0 as [|t r1]; [discriminate|]. cbn [List.length] in HP.
  destruct t; try (cbn [leaf_of_token]; first [discriminate | intros [= _ <-]; lia]).
  destruct (rec r1) as [[l0 r2]|] eqn:E; [|discriminate]. apply Hrec in E.
  destruct r2 as [|[] r2]; try discriminate. intros [= _ <-]. cbn [List.length] in E. lia.
Qed.

Lemma peg_tail_len rec : rec_len rec -> forall n ts,
  List.length (snd (peg_tail rec n ts)) <= List.length ts.
Proof.
  intros Hrec. induction n as [|n IH]; intros ts; [cbn; lia|].
  cbn [peg_tail]. destruct ts as [|t r]; [cbn; lia|].
  destruct t; try (cbn; lia).
  destruct (peg_operand rec r) as [[op r']|] eqn:E; [|cbn; lia].
  apply (peg_operand_len rec Hrec) in E. specialize (IH r').
  destruct (peg_tail rec n r') as [tl r'']. cbn [snd List.length] in *. lia.
Qed.

Lemma peg_term_len f : forall ts l r, peg_term f ts = Some (l, r) -> List.length r < List.length ts.
Proof.
  induction f as [|f IH]; intros ts l r; [discriminate|].
  assert (Hrec : rec_len (peg_term f)) by (intros ts' l' r' E; apply IH in E; lia).
  cbn [peg_term]. destruct (peg_operand (peg_term f) ts) as [[op r0]|] eqn:E; [|discriminate].
  apply (peg_operand_len _ Hrec) in E.
  pose proof (peg_tail_len _ Hrec (List.length r0) r0) as HT.
  destruct (peg_tail (peg_term f) (List.length r0) r0) as [tl r1]. cbn [snd] in HT.
  intros [= _ <-]. lia.
Qed.

Lemma peg_term_rec_len f : rec_len (peg_term f).
Proof. intros ts l r E. apply peg_term_len in E. lia. Qed.

(* two parsers of the parenthesised term that agree on everything shorter than ts *)
Lemma peg_operand_ext rec1 rec2 ts :
  (forall ts', List.length ts' < List.length ts -> rec1 ts' = rec2 ts') ->
  peg_operand rec1 ts = peg_operand rec2 ts.
Proof.
  intros H. unfold peg_operand. pose proof (peg_prefixes_len ts) as HP.
  destruct (peg_prefixes ts) as [pres r0]. cbn [snd] in HP.
  destruct r0 as [|t r1]; [reflexivity|]. cbn [List.length] in HP.
  destruct t; try reflexivity. rewrite H by lia. reflexivity.
Qed.

Lemma peg_tail_ext rec1 rec2 : rec_len rec1 -> forall n ts,
  (forall ts', List.length ts' < List.length ts -> rec1 ts' = rec2 ts') ->
  peg_tail rec1 n ts = peg_tail rec2 n ts.
Proof.
  intros Hrec. induction n as [|n IH]; intros ts H; [reflexivity|].
  cbn [peg_tail]. destruct ts as [|t r]; [reflexivity|]. destruct t; try reflexivity.
  cbn [List.length] in H.
  rewrite <- (peg_operand_ext rec1 rec2 r) by (intros; apply H; lia).
  destruct (peg_operand rec1 r) as [[op r']|] eqn:E; [|reflexivity].
  apply (peg_operand_len _ Hrec) in E. rewrite IH by (intros; apply H; lia). reflexivity.
Qed.

(* the iteration counter of the operator tail: anything >= the number of tokens *)
Lemma peg_tail_fuel rec : rec_len rec -> forall n m ts, List.length ts <= n -> List.length ts <= m ->
  peg_tail rec n ts = peg_tail rec m ts.
Proof.
  intros Hrec. induction n as [|n IH]; intros m ts Hn Hm.
  - destruct ts; [|cbn in Hn; lia]. destruct m; reflexivity.
  - destruct m as [|m]; [destruct ts; [reflexivity|cbn in Hm; lia]|].
    cbn [peg_tail]. destruct ts as [|t r]; [reflexivity|]. destruct t; try reflexivity.
    cbn [List.length] in *.
    destruct (peg_operand rec r) as [[op r']|] eqn:E; [|reflexivity].
    apply (peg_operand_len _ Hrec) in E. rewrite (IH m) by lia. reflexivity.
Qed.

(* the nesting counter of `term`: anything > the number of tokens *)
Lemma peg_term_fuel : forall f1 f2 ts, List.length ts < f1 -> List.length ts < f2 ->
  peg_term f1 ts = peg_term f2 ts.
Proof.
  induction f1 as [|f1 IH]; intros f2 ts H1 H2; [lia|]. destruct f2 as [|f2]; [lia|].
  cbn [peg_term].
  assert (A : forall ts', List.length ts' < List.length ts -> peg_term f1 ts' = peg_term f2 ts')
    by (intros; apply IH; lia).
  rewrite <- (peg_operand_ext (peg_term f1) (peg_term f2) ts A).
  destruct (peg_operand (peg_term f1) ts) as [[op r]|] eqn:E; [|reflexivity].
  apply (peg_operand_len _ (peg_term_rec_len f1)) in E.
  rewrite (peg_tail_ext (peg_term f1) (peg_term f2) (peg_term_rec_len f1)) by (intros; apply A; lia).
  reflexivity.
Qed.

(* ================================================================ C. terms: Pratt phase *)

Lemma pratt_len F :
  (forall rbp items t rest, pratt_expr F rbp items = POk (t, rest) -> items_size rest < items_size items) /\
  (forall items t rest, pratt_nud F items = POk (t, rest) -> items_size rest < items_size items) /\
  (forall rbp lhs items t rest, pratt_loop F rbp lhs items = POk (t, rest) ->
     items_size rest <= items_size items).
Proof.
  induction F as [|f [IHE [IHN IHL]]]; [repeat split; discriminate|].
  split; [|split].
  - intros rbp items t rest. cbn [pratt_expr].
    destruct (pratt_nud f items) as [[lhs r0]| |] eqn:E; try discriminate.
    intros H. apply IHN in E. apply IHL in H. lia.
  - intros items t rest. cbn [pratt_nud].
    destruct items as [|i items]; [discriminate|]. cbn [items_size].
    pose proof (item_size_pos i) as P.
    destruct i.
    + intros [= _ <-]. lia.
    + destruct (pratt_expr f 0 l) as [[t0 r0]| |]; try discriminate. intros [= _ <-]. lia.
    + destruct (ops_get RNegative) as [[[] prec]|]; try discriminate.
      destruct (pratt_expr f (prec - 1) items) as [[rhs r0]| |] eqn:E; try discriminate.
      intros [= _ <-]. apply IHE in E. lia.
    + discriminate.
  - intros rbp lhs items t rest. cbn [pratt_loop].
    destruct items as [|i items]; [intros [= _ <-]; lia|].
    destruct (item_rule i) as [r|]; [|discriminate].
    destruct (ops_get r) as [[aff prec]|]; [|discriminate].
    destruct (Nat.ltb rbp prec); [|intros [= _ <-]; lia].
    destruct aff as [| |a]; try discriminate. destruct i; try discriminate.
    destruct (pratt_expr f (match a with ALeft => prec | ARight => prec - 1 end) items) as [[rhs r0]| |] eqn:E;
      try discriminate.
    intros H. apply IHE in E. apply IHL in H. cbn [items_size item_size]. lia.
Qed.

(* in the Pratt phase PFail is an exhausted counter and nothing else; with the counter the model
   computes (2 * items_size + 2), or any larger one, it does not arise *)
Lemma pratt_no_fail F :
  (forall rbp items, 2 * items_size items + 2 <= F -> pratt_expr F rbp items <> PFail) /\
  (forall items, 2 * items_size items + 1 <= F -> pratt_nud F items <> PFail) /\
  (forall rbp lhs items, 2 * items_size items + 1 <= F -> pratt_loop F rbp lhs items <> PFail).
Proof.
  induction F as [|f [IHE [IHN IHL]]]; [repeat split; intros; lia|].
  split; [|split].
  - intros rbp items H. cbn [pratt_expr].
    destruct (pratt_nud f items) as [[lhs r0]| |] eqn:E; [| |discriminate].
    + apply (proj1 (proj2 (pratt_len f))) in E. apply IHL. lia.
    + exfalso. revert E. apply IHN. lia.
  - intros items H. cbn [pratt_nud].
    destruct items as [|i items]; [discriminate|]. cbn [items_size] in H.
    destruct i.
    + discriminate.
    + rewrite item_size_paren in H.
      destruct (pratt_expr f 0 l) as [[t0 r0]| |] eqn:E; [discriminate| |discriminate].
      exfalso. revert E. apply IHE. lia.
    + cbn [item_size] in H. destruct (ops_get RNegative) as [[[] prec]|]; try discriminate.
      destruct (pratt_expr f (prec - 1) items) as [[rhs r0]| |] eqn:E; [discriminate| |discriminate].
      exfalso. revert E. apply IHE. lia.
    + discriminate.
  - intros rbp lhs items H. cbn [pratt_loop].
    destruct items as [|i items]; [discriminate|]. cbn [items_size] in H. pose proof (item_size_pos i) as P.
    destruct (item_rule i) as [r|]; [|discriminate].
    destruct (ops_get r) as [[aff prec]|]; [|discriminate].
    destruct (Nat.ltb rbp prec); [|discriminate].
    destruct aff as [| |a]; try discriminate. destruct i; try discriminate.
    destruct (pratt_expr f (match a with ALeft => prec | ARight => prec - 1 end) items) as [[rhs r0]| |] eqn:E;
      [| |discriminate].
    + apply (proj1 (pratt_len f)) in E. apply IHL. lia.
    + exfalso. revert E. apply IHE. lia.
Qed.

(* a result other than PFail is stable under a larger counter *)
Lemma pratt_mono F :
  (forall rbp items, pratt_expr F rbp items <> PFail -> pratt_expr (S F) rbp items = pratt_expr F rbp items) /\
  (forall items, pratt_nud F items <> PFail -> pratt_nud (S F) items = pratt_nud F items) /\
  (forall rbp lhs items, pratt_loop F rbp lhs items <> PFail ->
     pratt_loop (S F) rbp lhs items = pratt_loop F rbp lhs items).
Proof.
  induction F as [|f [IHE [IHN IHL]]]; [repeat split; intros; cbn in *; congruence|].
  split; [|split].
  - intros rbp items H. cbn [pratt_expr] in H.
    change (pratt_expr (S (S f)) rbp items) with
      (match pratt_nud (S f) items with
       | POk (lhs, rest) => pratt_loop (S f) rbp lhs rest | PFail => PFail | PPanic => PPanic end).
    cbn [pratt_expr].
    destruct (pratt_nud f items) as [[lhs r0]| |] eqn:E; [| congruence |].
    + rewrite IHN, E by (rewrite E; discriminate). apply IHL, H.
    + rewrite IHN, E by (rewrite E; discriminate). reflexivity.
  - intros items H. cbn [pratt_nud] in H.
    change (pratt_nud (S (S f)) items) with
      (match items with
       | [] => PPanic
       | ILeaf t :: rest => POk (t, rest)
       | IParen l :: rest =>
         match pratt_expr (S f) 0 l with POk (t, _) => POk (t, rest) | PFail => PFail | PPanic => PPanic end
       | IPre :: rest =>
         match ops_get RNegative with
         | Some (Prefix, prec) =>
           match pratt_expr (S f) (prec - 1) rest with
           | POk (rhs, rest') => POk (TUn AUNeg rhs, rest') | PFail => PFail | PPanic => PPanic end
         | _ => PPanic
         end
       | IIn _ :: _ => PPanic
       end).
    cbn [pratt_nud].
    destruct items as [|i items]; [reflexivity|]. destruct i; try reflexivity.
    + destruct (pratt_expr f 0 l) as [[t0 r0]| |] eqn:E; [| congruence |];
        rewrite IHE, E by (rewrite E; discriminate); reflexivity.
    + destruct (ops_get RNegative) as [[[] prec]|]; try reflexivity.
      destruct (pratt_expr f (prec - 1) items) as [[rhs r0]| |] eqn:E; [| congruence |];
        rewrite IHE, E by (rewrite E; discriminate); reflexivity.
  - intros rbp lhs items H. cbn [pratt_loop] in H.
    change (pratt_loop (S (S f)) rbp lhs items) with
      (match items with
       | [] => POk (lhs, [])
       | it :: rest =>
         match item_rule it with
         | None => PPanic
         | Some r =>
           match ops_get r with
           | None => PPanic
           | Some (aff, prec) =>
             if Nat.ltb rbp prec then
               match aff, it with
               | Infix a, IIn o =>
                 match pratt_expr (S f) (match a with ALeft => prec | ARight => prec - 1 end) rest with
                 | POk (rhs, rest') => pratt_loop (S f) rbp (TBin o lhs rhs) rest'
                 | PFail => PFail
                 | PPanic => PPanic
                 end
               | _, _ => PPanic
               end
             else POk (lhs, items)
           end
         end
       end).
    cbn [pratt_loop].
    destruct items as [|i items]; [reflexivity|].
    destruct (item_rule i) as [r|]; [|reflexivity].
    destruct (ops_get r) as [[aff prec]|]; [|reflexivity].
    destruct (Nat.ltb rbp prec); [|reflexivity].
    destruct aff as [| |a]; try reflexivity. destruct i; try reflexivity.
    destruct (pratt_expr f (match a with ALeft => prec | ARight => prec - 1 end) items) as [[rhs r0]| |] eqn:E;
      [| congruence |].
    + rewrite IHE, E by (rewrite E; discriminate). apply IHL, H.
    + rewrite IHE, E by (rewrite E; discriminate). reflexivity.
Qed.

Theorem pratt_expr_no_fail rbp items F : 2 * items_size items + 2 <= F -> pratt_expr F rbp items <> PFail.
Proof. apply (proj1 (pratt_no_fail F)). Qed.

Theorem pratt_expr_fuel rbp items F : 2 * items_size items + 2 <= F ->
  pratt_expr F rbp items = pratt_expr (2 * items_size items + 2) rbp items.
Proof.
  intros H. replace F with ((F - (2 * items_size items + 2)) + (2 * items_size items + 2)) by lia.
  induction (F - (2 * items_size items + 2)) as [|d IH]; [reflexivity|].
  cbn [Nat.add]. rewrite (proj1 (pratt_mono _)); [exact IH|]. apply pratt_expr_no_fail. lia.
Qed.

Theorem pratt_never_fails items : pratt items <> PFail.
Proof.
  unfold pratt. pose proof (pratt_expr_no_fail 0 items _ (Nat.le_refl _)) as H.
  destruct (pratt_expr (2 * items_size items + 2) 0 items) as [[t r]| |]; congruence.
Qed.

(* ================================================================ D. atoms ... programs *)

Lemma parse_term_len ts t rest : parse_term ts = POk (t, rest) -> List.length rest < List.length ts.
Proof.
  unfold parse_term. destruct (peg_term (S (List.length ts)) ts) as [[items r]|] eqn:E; [|discriminate].
  apply peg_term_len in E. destruct (pratt items); try discriminate. cbn [pbind]. intros [= _ <-]. exact E.
Qed.

(* [parse_term] with arbitrary counters above the bounds it computes *)
Definition parse_term_with (f : nat) (g : list item -> nat) (ts : list token) : pres (term * list token) :=
  match peg_term f ts with
  | None => PFail
  | Some (items, rest) =>
    pbind (match pratt_expr (g items) 0 items with
           | POk (t, _) => POk t | PFail => PFail | PPanic => PPanic end)
          (fun t => POk (t, rest))
  end.

Theorem parse_term_fuel f g ts : List.length ts < f -> (forall items, 2 * items_size items + 2 <= g items) ->
  parse_term_with f g ts = parse_term ts.
Proof.
  intros Hf Hg. unfold parse_term_with, parse_term, pratt.
  rewrite (peg_term_fuel f (S (List.length ts))) by lia.
  destruct (peg_term (S (List.length ts)) ts) as [[items r]|]; [|reflexivity].
  rewrite (pratt_expr_fuel 0 items (g items) (Hg items)). reflexivity.
Qed.

Lemma parse_more_terms_len n : forall ts l rest, parse_more_terms n ts = POk (l, rest) ->
  List.length rest <= List.length ts.
Proof.
  induction n as [|n IH]; intros ts l rest; cbn [parse_more_terms]; [intros [= _ <-]; lia|].
  destruct ts as [|t r]; [intros [= _ <-]; lia|].
  destruct t; try (intros [= _ <-]; lia).
  destruct (parse_term r) as [[u r']| |] eqn:E; try discriminate; [|intros [= _ <-]; lia].
  apply parse_term_len in E.
  destruct (parse_more_terms n r') as [[l' r'']| |] eqn:E2; try discriminate.
  cbn [pbind]. intros [= _ <-]. apply IH in E2. cbn [List.length]. lia.
Qed.

Lemma parse_more_terms_fuel : forall n m ts, List.length ts <= n -> List.length ts <= m ->
  parse_more_terms n ts = parse_more_terms m ts.
Proof.
  induction n as [|n IH]; intros m ts Hn Hm.
  - destruct ts; [|cbn in Hn; lia]. destruct m; reflexivity.
  - destruct m as [|m]; [destruct ts; [reflexivity|cbn in Hm; lia]|].
    cbn [parse_more_terms]. destruct ts as [|t r]; [reflexivity|]. destruct t; try reflexivity.
    cbn [List.length] in *.
    destruct (parse_term r) as [[u r']| |] eqn:E; try reflexivity.
    apply parse_term_len in E. rewrite (IH m) by lia. reflexivity.
Qed.

Lemma parse_term_tuple_len ts l rest : parse_term_tuple ts = POk (l, rest) ->
  List.length rest < List.length ts.
Proof.
  unfold parse_term_tuple. destruct ts as [|t r]; [discriminate|]. destruct t; try discriminate.
  cbn [List.length].
  destruct (parse_term r) as [[u r']| |] eqn:E; try discriminate.
  - apply parse_term_len in E.
    destruct (parse_more_terms (List.length r') r') as [[l' r'']| |] eqn:E2; try discriminate.
    cbn [pbind]. apply parse_more_terms_len in E2.
    destruct r'' as [|[] r3]; try discriminate. intros [= _ <-]. cbn [List.length] in E2. lia.
  - cbn [pbind]. destruct r as [|[] r3]; try discriminate. intros [= _ <-]. cbn [List.length]. lia.
Qed.

Lemma parse_atom_len ts a rest : parse_atom ts = POk (a, rest) -> List.length rest < List.length ts.
Proof.
  unfold parse_atom. destruct ts as [|t r]; [discriminate|]. destruct t; try discriminate.
  cbn [List.length].
  destruct (parse_term_tuple r) as [[args r']| |] eqn:E; try discriminate.
  - intros [= _ <-]. apply parse_term_tuple_len in E. lia.
  - intros [= _ <-]. lia.
Qed.

Lemma parse_sign_len ts : List.length (snd (parse_sign ts)) <= List.length ts.
Proof. destruct ts as [|[] [|[] r]]; cbn; lia. Qed.

Lemma parse_literal_len ts l rest : parse_literal ts = POk (l, rest) -> List.length rest < List.length ts.
Proof.
  unfold parse_literal. pose proof (parse_sign_len ts) as HS.
  destruct (parse_sign ts) as [s r]. cbn [snd] in HS.
  destruct (parse_atom r) as [[a r']| |] eqn:E; try discriminate.
  cbn [pbind]. intros [= _ <-]. apply parse_atom_len in E. lia.
Qed.

Lemma parse_comparison_len ts c rest : parse_comparison ts = POk (c, rest) ->
  List.length rest < List.length ts.
Proof.
  unfold parse_comparison.
  destruct (parse_term ts) as [[l r]| |] eqn:E; try discriminate. cbn [pbind].
  apply parse_term_len in E.
  destruct r as [|t r1]; [discriminate|]. destruct t; try discriminate.
  destruct (parse_term r1) as [[rh r2]| |] eqn:E2; try discriminate. cbn [pbind].
  intros [= _ <-]. apply parse_term_len in E2. cbn [List.length] in E. lia.
Qed.

Lemma parse_bformula_len ts f rest : parse_bformula ts = POk (f, rest) -> List.length rest < List.length ts.
Proof.
  unfold parse_bformula.
  destruct (parse_comparison ts) as [[c r]| |] eqn:E; try discriminate.
  - intros [= _ <-]. exact (parse_comparison_len _ _ _ E).
  - destruct (parse_literal ts) as [[l r]| |] eqn:E2; try discriminate. cbn [pbind].
    intros [= _ <-]. exact (parse_literal_len _ _ _ E2).
Qed.

Lemma parse_more_bformulas_len n : forall ts l rest, parse_more_bformulas n ts = POk (l, rest) ->
  List.length rest <= List.length ts.
Proof.
  induction n as [|n IH]; intros ts l rest; cbn [parse_more_bformulas]; [intros [= _ <-]; lia|].
  destruct ts as [|t r]; [intros [= _ <-]; lia|].
  destruct t; try (intros [= _ <-]; lia).
  - destruct (parse_bformula r) as [[u r']| |] eqn:E; try discriminate; [|intros [= _ <-]; lia].
    apply parse_bformula_len in E.
    destruct (parse_more_bformulas n r') as [[l' r'']| |] eqn:E2; try discriminate.
    cbn [pbind]. intros [= _ <-]. apply IH in E2. cbn [List.length]. lia.
  - destruct (parse_bformula r) as [[u r']| |] eqn:E; try discriminate; [|intros [= _ <-]; lia].
    apply parse_bformula_len in E.
    destruct (parse_more_bformulas n r') as [[l' r'']| |] eqn:E2; try discriminate.
    cbn [pbind]. intros [= _ <-]. apply IH in E2. cbn [List.length]. lia.
Qed.

Lemma parse_more_bformulas_fuel : forall n m ts, List.length ts <= n -> List.length ts <= m ->
  parse_more_bformulas n ts = parse_more_bformulas m ts.
Proof.
  induction n as [|n IH]; intros m ts Hn Hm.
  - destruct ts; [|cbn in Hn; lia]. destruct m; reflexivity.
  - destruct m as [|m]; [destruct ts; [reflexivity|cbn in Hm; lia]|].
    cbn [parse_more_bformulas]. destruct ts as [|t r]; [reflexivity|]. cbn [List.length] in *.
    destruct t; try reflexivity.
    + destruct (parse_bformula r) as [[u r']| |] eqn:E; try reflexivity.
      apply parse_bformula_len in E. rewrite (IH m) by lia. reflexivity.
    + destruct (parse_bformula r) as [[u r']| |] eqn:E; try reflexivity.
      apply parse_bformula_len in E. rewrite (IH m) by lia. reflexivity.
Qed.

Lemma parse_body_len ts b rest : parse_body ts = POk (b, rest) -> List.length rest <= List.length ts.
Proof.
  unfold parse_body.
  destruct (parse_bformula ts) as [[f r]| |] eqn:E; try discriminate; [|intros [= _ <-]; lia].
  apply parse_bformula_len in E.
  destruct (parse_more_bformulas (List.length r) r) as [[l r']| |] eqn:E2; try discriminate.
  cbn [pbind]. intros [= _ <-]. apply parse_more_bformulas_len in E2. lia.
Qed.

Lemma parse_head_len ts h rest : parse_head ts = POk (h, rest) -> List.length rest <= List.length ts.
Proof.
  unfold parse_head.
  destruct (parse_atom ts) as [[a r]| |] eqn:E; try discriminate.
  - intros [= _ <-]. apply parse_atom_len in E. lia.
  - assert (F : forall h rest, (match ts with TkFalse :: r => POk (HFalsity, r) | _ => POk (HFalsity, ts) end) = POk (h, rest) ->
                List.length rest <= List.length ts).
    { intros h0 rest0. destruct ts as [|t r]; [intros [= _ <-]; lia|].
      destruct t; intros [= _ <-]; cbn [List.length]; lia. }
    destruct ts as [|t r]; [apply F|]. destruct t; try apply F.
    destruct (parse_atom r) as [[a r']| |] eqn:E2; try discriminate; try apply F.
    apply parse_atom_len in E2.
    destruct r' as [|t' r'']; [apply F|]. destruct t'; try apply F.
    intros [= _ <-]. cbn [List.length] in *. lia.
Qed.

(* a rule consumes at least its final "." *)
Lemma parse_rule_len g ts r rest : parse_rule g ts = POk (r, rest) -> List.length rest < List.length ts.
Proof.
  intros H.
  assert (H' : parse_rule_core ts = POk (r, rest)).
  { unfold parse_rule in H. destruct ts as [|[] ts'], g; try exact H; discriminate. }
  clear H. unfold parse_rule_core in H'.
  destruct (parse_head ts) as [[h r0]| |] eqn:E; try discriminate. cbn [pbind] in H'.
  apply parse_head_len in E.
  assert (B : forall b r2, (match r0 with TkIf :: r1 => parse_body r1 | _ => POk ([], r0) end) = POk (b, r2) ->
              List.length r2 <= List.length r0).
  { intros b r2. destruct r0 as [|t r1]; [intros [= _ <-]; lia|].
    destruct t; try (intros [= _ <-]; lia).
    intros HB. apply parse_body_len in HB. cbn [List.length]. lia. }
  destruct (match r0 with TkIf :: r1 => parse_body r1 | _ => POk ([], r0) end) as [[b r2]| |]; try discriminate.
  cbn [pbind] in H'. specialize (B _ _ eq_refl).
  destruct r2 as [|[] r3]; try discriminate. inversion H'; subst. cbn [List.length] in B. lia.
Qed.

Lemma parse_rules_fuel : forall n m g ts, List.length ts < n -> List.length ts < m ->
  parse_rules n g ts = parse_rules m g ts.
Proof.
  induction n as [|n IH]; intros m g ts Hn Hm; [lia|]. destruct m as [|m]; [lia|].
  cbn [parse_rules].
  destruct (parse_rule g ts) as [[r ts']| |] eqn:E; try reflexivity.
  apply parse_rule_len in E. rewrite (IH m) by lia. reflexivity.
Qed.

(* [parse_program_from] with an arbitrary counter above the bound it computes *)
Theorem parse_program_from_fuel n g ts : List.length ts < n ->
  pbind (parse_rules n g ts) (fun '(p, rest) => match rest with [] => POk p | _ => PFail end)
  = parse_program_from g ts.
Proof. intros H. unfold parse_program_from. rewrite (parse_rules_fuel n (S (List.length ts))) by lia. reflexivity. Qed.

(* ================================================================ E. packaged for Properties/C14.v *)

Theorem fuel_lexer :
  (forall f o s, String.length s < f -> lex_go f o s = lex_go (S (String.length s)) o s) /\
  (forall f s, String.length s < f -> skip_layout f s = skip_layout (S (String.length s)) s) /\
  (forall f1 f2 f3 s, String.length s < f1 -> String.length s < f2 -> String.length s < f3 ->
     lex_node_with f1 f2 f3 s = lex_node s).
Proof.
  split; [|split].
  - intros. apply lex_go_fuel; lia.
  - intros. apply skip_layout_fuel; lia.
  - intros. apply lex_node_fuel; assumption.
Qed.

Theorem fuel_term :
  (forall f ts, List.length ts < f -> peg_term f ts = peg_term (S (List.length ts)) ts) /\
  (forall f n ts, List.length ts <= n ->
     peg_tail (peg_term f) n ts = peg_tail (peg_term f) (List.length ts) ts) /\
  (forall F rbp items, 2 * items_size items + 2 <= F ->
     pratt_expr F rbp items = pratt_expr (2 * items_size items + 2) rbp items /\
     pratt_expr F rbp items <> PFail) /\
  (forall items, pratt items <> PFail) /\
  (forall f g ts, List.length ts < f -> (forall items, 2 * items_size items + 2 <= g items) ->
     parse_term_with f g ts = parse_term ts).
Proof.
  split; [|split; [|split; [|split]]].
  - intros. apply peg_term_fuel; lia.
  - intros. apply peg_tail_fuel; [apply peg_term_rec_len|lia|lia].
  - intros. split; [apply pratt_expr_fuel|apply pratt_expr_no_fail]; assumption.
  - exact pratt_never_fails.
  - intros. apply parse_term_fuel; assumption.
Qed.

Theorem fuel_lists :
  (forall n ts, List.length ts <= n -> parse_more_terms n ts = parse_more_terms (List.length ts) ts) /\
  (forall n ts, List.length ts <= n ->
     parse_more_bformulas n ts = parse_more_bformulas (List.length ts) ts) /\
  (forall n g ts, List.length ts < n -> parse_rules n g ts = parse_rules (S (List.length ts)) g ts).
Proof.
  split; [|split].
  - intros. apply parse_more_terms_fuel; lia.
  - intros. apply parse_more_bformulas_fuel; lia.
  - intros. apply parse_rules_fuel; lia.
Qed.
