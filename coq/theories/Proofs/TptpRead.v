(* C06, part (ii), the parenthesisation theorem: the TPTP reader applied to the tokens anthem
   prints for F returns exactly the intended reading [tff_of_formula F].
   Technique (design-probes/Pratt_probe.v): generalised claims "reading the printed form of X in
   front of any legal continuation R yields X's translation and leaves R". *)
From Coq Require Import List Ascii String ZArith NArith Bool Lia Arith.
From Anthem Require Import Syntax.Fol Syntax.Tff Sem.TffSem Model.TptpPrint.
Import ListNotations.
Open Scope string_scope.
Open Scope list_scope.

Ltac norm := repeat (rewrite <- app_assoc || rewrite <- app_comm_cons); cbn [app].
Ltac len := repeat (progress (rewrite ?app_length in *; cbn [List.length] in *)).

(* ---------- word classes ---------- *)
Lemma all_chars_app p a b : all_chars p (a ++ b) = all_chars p a && all_chars p b.
Proof. induction a as [|c a IH]; cbn; [reflexivity|]. rewrite IH, andb_assoc. reflexivity. Qed.
Lemma upper_suffix x s : is_upper_word x = true -> is_upper_word (x ++ suffix s) = true.
Proof.
  destruct x as [|c r]; [discriminate|]. cbn [is_upper_word append]. rewrite !andb_true_iff.
  intros [H1 H2]; split; [exact H1|]. rewrite all_chars_app, H2. destruct s; reflexivity.
Qed.
Lemma lower_suffix x s : is_lower_word x = true -> is_lower_word (x ++ suffix s) = true.
Proof.
  destruct x as [|c r]; [discriminate|]. cbn [is_lower_word append]. rewrite !andb_true_iff.
  intros [H1 H2]; split; [exact H1|]. rewrite all_chars_app, H2. destruct s; reflexivity.
Qed.
Lemma lower_not_upper w : is_lower_word w = true -> is_upper_word w = false.
Proof.
  destruct w as [|c r]; [discriminate|]. cbn [is_lower_word is_upper_word]. rewrite andb_true_iff.
  intros [H _]. unfold is_lower in H. unfold is_upper.
  apply andb_true_iff in H. destruct H as [H1 H2]. apply Nat.leb_le in H1.
  destruct (Nat.leb_spec (nat_of_ascii c) 90); [lia|]. rewrite andb_false_r. reflexivity.
Qed.
Lemma lower_functor w : is_lower_word w = true -> is_functor_word w = true.
Proof. unfold is_functor_word. intros ->. reflexivity. Qed.
Lemma sym_ok_lower s : sym_ok s = true -> is_lower_word s = true.
Proof. unfold sym_ok. rewrite !andb_true_iff. tauto. Qed.
Lemma pred_ok_lower p : pred_ok p = true -> is_lower_word p = true.
Proof. unfold pred_ok. rewrite !andb_true_iff. tauto. Qed.

(* the lexical half of wf_tptp *)
Lemma gterm_ok_lex t : gterm_ok t = true -> gterm_lex t = true.
Proof. destruct t as [| | | | |[s| |]]; cbn; auto using sym_ok_lower. Qed.
Lemma forallb_impl {A} (f g : A -> bool) l : (forall x, f x = true -> g x = true) ->
  forallb f l = true -> forallb g l = true.
Proof. intros H. rewrite !forallb_forall. auto. Qed.
Lemma wf_tptp_lex F : wf_tptp F = true -> wf_lex F = true.
Proof.
  induction F as [a|g IH|c l IHl r IHr|q vs g IH]; cbn [wf_tptp wf_lex].
  - destruct a as [| |p ts|t gs]; cbn [aformula_ok aformula_lex]; auto; rewrite !andb_true_iff.
    + intros [Hp Hts]. split; [apply pred_ok_lower, Hp|]. revert Hts. apply forallb_impl, gterm_ok_lex.
    + intros [[Ht Hn] Hgs]. repeat split; auto using gterm_ok_lex.
      revert Hgs. apply forallb_impl. intros g. apply gterm_ok_lex.
  - exact IH.
  - rewrite !andb_true_iff. intros [H1 H2]. auto.
  - rewrite !andb_true_iff. intros [[H1 H2] H3]. auto.
Qed.

(* ---------- what may follow ---------- *)
(* after a term: anything but '(' ; after an atomic formula: neither '(' nor '=' nor '!=' *)
Definition tfollow (R : list token) : Prop := match R with KLPar :: _ => False | _ => True end.
Definition follow (R : list token) : Prop :=
  match R with KLPar :: _ | KEq :: _ | KNeq :: _ => False | _ => True end.
(* after a whole formula: the end of the input or ')' *)
Definition endf (R : list token) : Prop := R = [] \/ exists R', R = KRPar :: R'.
Lemma follow_tfollow R : follow R -> tfollow R.
Proof. destruct R as [|[] R]; cbn; auto. Qed.
Lemma endf_follow R : endf R -> follow R.
Proof. intros [->|[R' ->]]; cbn; auto. Qed.

(* ---------- one-step equations of the reader ---------- *)
Lemma read_var_eq n w R : is_upper_word w = true -> read_term (S n) (KWord w :: R) = Some (TVar w, R).
Proof. intros H. cbn [read_term]. rewrite H. reflexivity. Qed.
Lemma read_const_eq n w R : is_lower_word w = true -> tfollow R ->
  read_term (S n) (KWord w :: R) = Some (TApp w [], R).
Proof.
  intros H HR. cbn [read_term]. rewrite (lower_not_upper w H), (lower_functor w H).
  destruct R as [|[] R]; cbn in HR; try contradiction; reflexivity.
Qed.
Lemma read_const_fun n w R : is_upper_word w = false -> is_functor_word w = true -> tfollow R ->
  read_term (S n) (KWord w :: R) = Some (TApp w [], R).
Proof.
  intros H1 H2 HR. cbn [read_term]. rewrite H1, H2.
  destruct R as [|[] R]; cbn in HR; try contradiction; reflexivity.
Qed.
Lemma read_app_eq n w r1 args r2 : is_upper_word w = false -> is_functor_word w = true ->
  read_args n r1 = Some (args, r2) -> read_term (S n) (KWord w :: KLPar :: r1) = Some (TApp w args, r2).
Proof. intros H1 H2 H3. cbn [read_term]. rewrite H1, H2, H3. reflexivity. Qed.
Lemma read_args_one n ts t r : read_term n ts = Some (t, KRPar :: r) -> read_args (S n) ts = Some ([t], r).
Proof. intros H. cbn [read_args]. rewrite H. reflexivity. Qed.
Lemma read_args_cons n ts t r a r' : read_term n ts = Some (t, KComma :: r) ->
  read_args n r = Some (a, r') -> read_args (S n) ts = Some (t :: a, r').
Proof. intros H1 H2. cbn [read_args]. rewrite H1, H2. reflexivity. Qed.

Lemma read_unit_not n r :
  read_unit (S n) (KNot :: r) = match read_unit n r with Some (f, r') => Some (TNot f, r') | None => None end.
Proof. reflexivity. Qed.
Lemma read_unit_paren n r :
  read_unit (S n) (KLPar :: r) = match read_formula n r with Some (f, KRPar :: r') => Some (f, r') | _ => None end.
Proof. reflexivity. Qed.
Lemma read_unit_quant q n r :
  read_unit (S n) (quant_token q :: KLBrack :: r) =
  match read_vars n r with
  | Some (vs, KColon :: r') =>
      match read_unit n r' with Some (f, r'') => Some (TQ q vs f, r'') | None => None end
  | _ => None
  end.
Proof. destruct q; reflexivity. Qed.
Definition atomic_start (ts : list token) : Prop :=
  match ts with KWord _ :: _ | KNum _ :: _ => True | _ => False end.
Lemma read_unit_atomic n ts : atomic_start ts -> read_unit (S n) ts = read_atomic n ts.
Proof. destruct ts as [|[] ts]; cbn [atomic_start]; try contradiction; reflexivity. Qed.
Lemma read_formula_eq n ts :
  read_formula (S n) ts =
  match read_unit n ts with
  | Some (l, k :: r) =>
      if token_eqb_conn k CAnd then read_chain n CAnd l r
      else if token_eqb_conn k COr then read_chain n COr l r
      else match nonassoc_of k with
           | Some c => match read_unit n r with Some (rf, r') => Some (TBin c l rf, r') | None => None end
           | None => Some (l, k :: r)
           end
  | other => other
  end.
Proof. reflexivity. Qed.
Lemma read_chain_eq n c acc ts :
  read_chain (S n) c acc ts =
  match read_unit n ts with
  | Some (u, k :: r) =>
      if token_eqb_conn k c then read_chain n c (TBin c acc u) r else Some (TBin c acc u, k :: r)
  | Some (u, []) => Some (TBin c acc u, [])
  | None => None
  end.
Proof. reflexivity. Qed.

(* a unit formula that is followed by the end of the formula is a formula *)
Lemma unit_is_formula n ts f R : endf R -> read_unit n ts = Some (f, R) -> read_formula (S n) ts = Some (f, R).
Proof. intros [->|[R' ->]] H; rewrite read_formula_eq, H; reflexivity. Qed.

(* ---------- readable terms ---------- *)
Definition rdt (toks : list token) (tm : tff_term) : Prop :=
  (forall n R, tfollow R -> 2 * List.length toks <= n -> read_term n (toks ++ R) = Some (tm, R))
  /\ atomic_start toks /\ 1 <= List.length toks.

Lemma rdt_iterm t : iterm_ok t = true -> rdt (print_iterm t) (tff_of_iterm t).
Proof.
  induction t as [z|c|x|[] a IH|o l IHl r IHr]; cbn [iterm_ok print_iterm tff_of_iterm]; intros Hok.
  - destruct (z <? 0)%Z; (split; [|split; cbn; auto; lia]); intros n R HR Hn; cbn [List.length] in Hn.
    + do 3 (destruct n as [|n]; [lia|]). reflexivity.
    + destruct n as [|n]; [lia|]. reflexivity.
  - split; [|split; cbn; auto]. intros n R HR Hn. cbn [List.length] in Hn. destruct n as [|n]; [lia|].
    cbn [app]. apply read_const_eq; [apply (lower_suffix c SInteger Hok)|exact HR].
  - split; [|split; cbn; auto]. intros n R HR Hn. cbn [List.length] in Hn. destruct n as [|n]; [lia|].
    cbn [app]. apply read_var_eq. apply (upper_suffix x SInteger Hok).
  - destruct (IH Hok) as [Ha [_ La]]. split; [|split; cbn; auto; lia]. intros n R HR Hn. len.
    do 2 (destruct n as [|n]; [lia|]). norm.
    apply read_app_eq; [reflexivity|reflexivity|]. apply read_args_one. apply Ha; [exact I|lia].
  - apply andb_true_iff in Hok. destruct Hok as [Hl Hr].
    destruct (IHl Hl) as [Al [_ Ll]]. destruct (IHr Hr) as [Ar [_ Lr]].
    split; [|split; cbn; auto; lia]. intros n R HR Hn. len.
    do 3 (destruct n as [|n]; [lia|]). norm.
    apply read_app_eq; [destruct o; reflexivity|destruct o; reflexivity|].
    eapply read_args_cons; [apply Al; [exact I|lia]|]. apply read_args_one. apply Ar; [exact I|lia].
Qed.
Lemma rdt_sterm t : sterm_lex t = true -> rdt (print_sterm t) (tff_of_sterm t).
Proof.
  destruct t as [s|c|x]; cbn [sterm_lex print_sterm tff_of_sterm]; intros Hok;
    (split; [|split; cbn; auto]); intros n R HR Hn; cbn [List.length] in Hn; (destruct n as [|n]; [lia|]); cbn [app].
  - apply read_const_eq; [exact Hok|exact HR].
  - apply read_const_eq; [apply (lower_suffix c SSymbol Hok)|exact HR].
  - apply read_var_eq. apply (upper_suffix x SSymbol Hok).
Qed.
Lemma rdt_gterm t : gterm_lex t = true -> rdt (print_gterm t) (tff_of_gterm t).
Proof.
  destruct t as [| |c|x|a|a]; cbn [gterm_lex print_gterm tff_of_gterm]; intros Hok.
  - split; [|split; cbn; auto]. intros n R HR Hn. cbn [List.length] in Hn. destruct n as [|n]; [lia|].
    cbn [app]. apply read_const_eq; [reflexivity|exact HR].
  - split; [|split; cbn; auto]. intros n R HR Hn. cbn [List.length] in Hn. destruct n as [|n]; [lia|].
    cbn [app]. apply read_const_eq; [reflexivity|exact HR].
  - split; [|split; cbn; auto]. intros n R HR Hn. cbn [List.length] in Hn. destruct n as [|n]; [lia|].
    cbn [app]. apply read_const_eq; [apply (lower_suffix c SGeneral Hok)|exact HR].
  - split; [|split; cbn; auto]. intros n R HR Hn. cbn [List.length] in Hn. destruct n as [|n]; [lia|].
    cbn [app]. apply read_var_eq. apply (upper_suffix x SGeneral Hok).
  - destruct (rdt_iterm a Hok) as [Ha [_ La]]. split; [|split; cbn; auto; lia]. intros n R HR Hn. len.
    do 2 (destruct n as [|n]; [lia|]). norm.
    apply read_app_eq; [reflexivity|reflexivity|]. apply read_args_one. apply Ha; [exact I|lia].
  - destruct (rdt_sterm a Hok) as [Ha [_ La]]. split; [|split; cbn; auto; lia]. intros n R HR Hn. len.
    do 2 (destruct n as [|n]; [lia|]). norm.
    apply read_app_eq; [reflexivity|reflexivity|]. apply read_args_one. apply Ha; [exact I|lia].
Qed.

Lemma atomic_start_app a b : atomic_start a -> atomic_start (a ++ b).
Proof. destruct a as [|[] a]; cbn; tauto. Qed.

(* ---------- atomic formulas ---------- *)
(* `A = B` / `A != B` *)
Lemma rd_eq A a B b r n R : rdt A a -> rdt B b -> is_eq_rel r = true -> follow R ->
  2 * (List.length A + 1 + List.length B) + 1 <= n ->
  read_unit n (A ++ eq_token r :: B ++ R) = Some (tff_eq r a b, R).
Proof.
  intros [HA [SA LA]] [HB [SB LB]] Hr HR Hn. destruct n as [|n]; [lia|].
  rewrite read_unit_atomic by (apply atomic_start_app, SA). unfold read_atomic.
  rewrite (HA n (eq_token r :: B ++ R)); [|destruct r; exact I|lia].
  rewrite (HB n R); [|apply follow_tfollow, HR|lia].
  destruct r; try discriminate; cbn [eq_token tff_eq]; destruct a; reflexivity.
Qed.
(* `name(A, B)` *)
Lemma rd_pred2 A a B b w n R : rdt A a -> rdt B b -> is_upper_word w = false -> is_functor_word w = true ->
  follow R -> 2 * (List.length A + List.length B + 4) + 1 <= n ->
  read_unit n (KWord w :: KLPar :: A ++ KComma :: B ++ KRPar :: R) = Some (TPred w [a; b], R).
Proof.
  intros [HA [SA LA]] [HB [SB LB]] Hw1 Hw2 HR Hn. do 4 (destruct n as [|n]; [lia|]).
  rewrite read_unit_atomic by exact I. unfold read_atomic.
  rewrite (read_app_eq _ w _ [a; b] R Hw1 Hw2).
  - destruct R as [|[] R]; cbn in HR; try contradiction; reflexivity.
  - eapply read_args_cons; [apply HA; [exact I|lia]|]. apply read_args_one. apply HB; [exact I|lia].
Qed.

Lemma cmp1_length_pos l r rhs : 1 <= List.length (print_cmp1 l r rhs).
Proof.
  unfold print_cmp1. destruct l, rhs; destruct (is_eq_rel r); len; lia.
Qed.

Lemma rd_cmp1 l r rhs n R : gterm_lex l = true -> gterm_lex rhs = true -> follow R ->
  2 * List.length (print_cmp1 l r rhs) + 1 <= n ->
  read_unit n (print_cmp1 l r rhs ++ R) = Some (tff_of_cmp1 l r rhs, R).
Proof.
  intros Hl Hr HR.
  assert (G : forall n, 2 * List.length (if is_eq_rel r then print_gterm l ++ eq_token r :: print_gterm rhs
                  else KWord (rel_gen r) :: KLPar :: print_gterm l ++ KComma :: print_gterm rhs ++ [KRPar]) + 1 <= n ->
              read_unit n ((if is_eq_rel r then print_gterm l ++ eq_token r :: print_gterm rhs
                  else KWord (rel_gen r) :: KLPar :: print_gterm l ++ KComma :: print_gterm rhs ++ [KRPar]) ++ R)
              = Some ((if is_eq_rel r then tff_eq r (tff_of_gterm l) (tff_of_gterm rhs)
                       else TPred (rel_gen r) [tff_of_gterm l; tff_of_gterm rhs]), R)).
  { intros m Hm. destruct (is_eq_rel r) eqn:Er.
    - norm. apply rd_eq; auto using rdt_gterm. len. lia.
    - norm. apply rd_pred2; auto using rdt_gterm; [destruct r; try discriminate; reflexivity ..|]. len. lia. }
  unfold print_cmp1, tff_of_cmp1.
  destruct l as [| |c|x|a|a]; destruct rhs as [| |c'|x'|b|b]; try exact (G n).
  - (* integer terms on both sides *)
    cbn [gterm_lex] in Hl, Hr. intros Hn. destruct (is_eq_rel r) eqn:Er.
    + norm. apply rd_eq; auto using rdt_iterm. len. lia.
    + norm. apply rd_pred2; auto using rdt_iterm; [destruct r; try discriminate; reflexivity ..|]. len. lia.
  - (* symbolic terms on both sides *)
    cbn [gterm_lex] in Hl, Hr. intros Hn. destruct (is_eq_rel r) eqn:Er.
    + norm. apply rd_eq; auto using rdt_sterm. len. lia.
    + exact (G n Hn).
Qed.

(* the tail of a chain: after an '&' *)
Lemma rd_chain_tail : forall gs l g acc n R, gterm_lex l = true -> gterm_lex (gterm_of g) = true ->
  forallb (fun g => gterm_lex (gterm_of g)) gs = true -> endf R ->
  2 * List.length (print_cmp1 l (grel g) (gterm_of g) ++ print_chain false (gterm_of g) gs) + 2 <= n ->
  read_chain n CAnd acc (print_cmp1 l (grel g) (gterm_of g) ++ print_chain false (gterm_of g) gs ++ R)
  = Some (tff_of_chain_from (TBin CAnd acc (tff_of_cmp1 l (grel g) (gterm_of g))) (gterm_of g) gs, R).
Proof.
  induction gs as [|g' gs IH]; intros l g acc n R Hl Hg Hgs HR Hn.
  - cbn [print_chain tff_of_chain_from app] in *. rewrite app_nil_r in Hn.
    destruct n as [|n]; [lia|]. rewrite read_chain_eq.
    rewrite rd_cmp1; [|assumption|assumption|apply endf_follow, HR|lia].
    destruct HR as [->|[R' ->]]; reflexivity.
  - cbn in Hgs. apply andb_true_iff in Hgs. destruct Hgs as [Hg' Hgs].
    cbn [print_chain tff_of_chain_from] in *. norm. len.
    destruct n as [|n]; [lia|]. rewrite read_chain_eq.
    rewrite rd_cmp1; [|assumption|assumption|exact I|lia].
    cbn [token_eqb_conn]. apply IH; try assumption. len. lia.
Qed.

(* arguments of an atom *)
Lemma rd_args : forall ts n R, ts <> [] -> forallb gterm_lex ts = true ->
  2 * List.length (print_args ts) + 1 <= n ->
  read_args n (print_args ts ++ KRPar :: R) = Some (map tff_of_gterm ts, R).
Proof.
  induction ts as [|t ts IH]; intros n R Hne Hok Hn; [congruence|].
  cbn in Hok. apply andb_true_iff in Hok. destruct Hok as [Ht Hts].
  destruct (rdt_gterm t Ht) as [HT [_ LT]].
  destruct ts as [|t' ts'].
  - cbn [print_args map] in *. destruct n as [|n]; [lia|].
    apply read_args_one. apply HT; [exact I|lia].
  - change (print_args (t :: t' :: ts')) with (print_gterm t ++ KComma :: print_args (t' :: ts')) in *.
    norm. len. destruct n as [|n]; [lia|]. cbn [map].
    eapply read_args_cons; [apply HT; [exact I|lia]|].
    apply IH; [discriminate|exact Hts|lia].
Qed.
Lemma rd_atom p ts n R : is_lower_word p = true -> forallb gterm_lex ts = true -> follow R ->
  2 * List.length (print_atom p ts) + 1 <= n ->
  read_unit n (print_atom p ts ++ R) = Some (TPred p (map tff_of_gterm ts), R).
Proof.
  intros Hp Hts HR Hn.
  destruct ts as [|t ts]; cbn [print_atom] in *.
  - cbn [List.length app map] in *. do 2 (destruct n as [|n]; [lia|]).
    rewrite read_unit_atomic by exact I. unfold read_atomic.
    rewrite read_const_eq by (auto using follow_tfollow).
    destruct R as [|[] R]; cbn in HR; try contradiction; reflexivity.
  - norm. len. do 2 (destruct n as [|n]; [lia|]).
    rewrite read_unit_atomic by exact I. unfold read_atomic.
    rewrite (read_app_eq _ p _ (map tff_of_gterm (t :: ts)) R (lower_not_upper p Hp) (lower_functor p Hp)).
    + destruct R as [|[] R]; cbn in HR; try contradiction; reflexivity.
    + apply rd_args; [discriminate|exact Hts|lia].
Qed.

(* quantified variables *)
Lemma rd_vars : forall vs n R, vs <> [] -> forallb (fun v => is_upper_word (vname v)) vs = true ->
  2 * List.length (print_vars vs) <= n ->
  read_vars n (print_vars vs ++ KRBrack :: R) = Some (map tff_of_var vs, R).
Proof.
  induction vs as [|[x s] vs IH]; intros n R Hne Hok Hn; [congruence|].
  cbn in Hok. apply andb_true_iff in Hok. destruct Hok as [Hv Hvs].
  pose proof (upper_suffix x s Hv) as Hu.
  destruct vs as [|v' vs'].
  - cbn [print_vars print_var map app List.length vname vsort] in *. destruct n as [|n]; [lia|].
    cbn [read_vars]. rewrite Hu. unfold tff_of_var; cbn [vname vsort]. destruct s; reflexivity.
  - change (print_vars (mkvar x s :: v' :: vs')) with (print_var (mkvar x s) ++ KComma :: print_vars (v' :: vs')) in *.
    unfold print_var in *; cbn [vname vsort] in *. norm. len. destruct n as [|n]; [lia|].
    cbn [read_vars]. rewrite Hu.
    rewrite (IH n R) by (try discriminate; try assumption; lia).
    change (map tff_of_var (mkvar x s :: v' :: vs')) with (tff_of_var (mkvar x s) :: map tff_of_var (v' :: vs')).
    unfold tff_of_var at 1; cbn [vname vsort]. destruct s; reflexivity.
Qed.

(* ---------- formulas ---------- *)
(* printed without parentheses of its own, yet a single unit of the TPTP grammar *)
Definition unitlike (f : formula) : bool :=
  match f with FBin _ _ _ => false | _ => negb (mandatory_parentheses f) || match f with FNot _ => true | _ => false end end.
Lemma not_mandatory_unitlike f : mandatory_parentheses f = false -> unitlike f = true.
Proof. destruct f as [[]| | |]; cbn; intros H; try discriminate; try reflexivity. rewrite H. reflexivity. Qed.

Definition claimF (F : formula) : Prop := forall n R, endf R ->
  2 * List.length (print_formula F) + 2 <= n -> read_formula n (print_formula F ++ R) = Some (tff_of_formula F, R).
Definition claimU (F : formula) : Prop := forall n R, follow R ->
  2 * List.length (print_formula F) + 1 <= n -> read_unit n (print_formula F ++ R) = Some (tff_of_formula F, R).

(* a child printed through [parens]: in parentheses, or bare when it is a unit *)
Lemma rd_child g b n R : claimF g -> (b = false -> claimU g) -> follow R ->
  2 * List.length (parens b (print_formula g)) + 1 <= n ->
  read_unit n (parens b (print_formula g) ++ R) = Some (tff_of_formula g, R).
Proof.
  intros HF HU HR Hn. destruct b; cbn [parens] in *.
  - norm. len. destruct n as [|n]; [lia|]. rewrite read_unit_paren.
    rewrite HF; [reflexivity|right; eauto|lia].
  - apply HU; auto.
Qed.

Lemma chain_claimF t g gs : gterm_lex t = true -> gterm_lex (gterm_of g) = true ->
  forallb (fun g => gterm_lex (gterm_of g)) gs = true -> claimF (FAtomic (ACmp t (g :: gs))).
Proof.
  intros Ht Hg Hgs n R HR Hn. cbn [print_formula print_aformula print_chain tff_of_formula tff_of_aformula app] in *.
  destruct gs as [|g' gs].
  - cbn [print_chain tff_of_chain_from] in *. rewrite app_nil_r in *.
    destruct n as [|n]; [lia|]. apply unit_is_formula; [exact HR|].
    apply rd_cmp1; auto using endf_follow. lia.
  - cbn in Hgs. apply andb_true_iff in Hgs. destruct Hgs as [Hg' Hgs].
    cbn [print_chain tff_of_chain_from] in *. norm. len.
    destruct n as [|n]; [lia|]. rewrite read_formula_eq.
    rewrite rd_cmp1; [|assumption|assumption|exact I|lia].
    cbn [token_eqb_conn]. apply rd_chain_tail; try assumption. len. lia.
Qed.

Theorem read_print F : wf_lex F = true -> claimF F /\ (unitlike F = true -> claimU F).
Proof.
  induction F as [a|g IH|c l IHl r IHr|q vs g IH]; intros Hwf.
  - (* atomic *)
    cbn [wf_lex] in Hwf.
    assert (U : unitlike (FAtomic a) = true -> claimU (FAtomic a)).
    { intros Hu n R HR Hn. cbn [print_formula tff_of_formula] in *.
      destruct a as [| |p ts|t gs]; cbn [print_aformula tff_of_aformula] in *.
      - cbn [app List.length] in *. do 2 (destruct n as [|n]; [lia|]).
        rewrite read_unit_atomic by exact I. unfold read_atomic. rewrite read_const_fun.
        + destruct R as [|[] R]; cbn in HR; try contradiction; reflexivity.
        + reflexivity. + reflexivity. + apply follow_tfollow, HR.
      - cbn [app List.length] in *. do 2 (destruct n as [|n]; [lia|]).
        rewrite read_unit_atomic by exact I. unfold read_atomic. rewrite read_const_fun.
        + destruct R as [|[] R]; cbn in HR; try contradiction; reflexivity.
        + reflexivity. + reflexivity. + apply follow_tfollow, HR.
      - cbn [aformula_lex] in Hwf. apply andb_true_iff in Hwf. destruct Hwf as [Hp Hts].
        apply rd_atom; assumption.
      - cbn [aformula_lex] in Hwf. rewrite !andb_true_iff in Hwf. destruct Hwf as [[Ht Hn0] Hgs].
        destruct gs as [|g [|g' gs]]; [discriminate| |discriminate].
        cbn in Hgs. rewrite andb_true_r in Hgs.
        cbn [print_chain app tff_of_chain_from] in *. rewrite app_nil_r in *.
        apply rd_cmp1; assumption. }
    split; [|exact U].
    destruct a as [| |p ts|t gs].
    + intros n R HR Hn. destruct n as [|n]; [lia|]. apply unit_is_formula; [exact HR|].
      apply U; [reflexivity|apply endf_follow, HR|lia].
    + intros n R HR Hn. destruct n as [|n]; [lia|]. apply unit_is_formula; [exact HR|].
      apply U; [reflexivity|apply endf_follow, HR|lia].
    + intros n R HR Hn. destruct n as [|n]; [lia|]. apply unit_is_formula; [exact HR|].
      apply U; [reflexivity|apply endf_follow, HR|lia].
    + cbn [aformula_lex] in Hwf. rewrite !andb_true_iff in Hwf. destruct Hwf as [[Ht Hn0] Hgs].
      destruct gs as [|g gs]; [discriminate|].
      cbn in Hgs. apply andb_true_iff in Hgs. destruct Hgs as [Hg Hgs].
      apply chain_claimF; assumption.
  - (* negation *)
    cbn [wf_lex] in Hwf. destruct (IH Hwf) as [HF HU].
    assert (U : claimU (FNot g)).
    { intros n R HR Hn. cbn [print_formula tff_of_formula] in *. norm. len.
      destruct n as [|n]; [lia|]. rewrite read_unit_not.
      rewrite (rd_child g _ n R HF); [reflexivity| |exact HR|lia].
      intros Hb. apply orb_false_iff in Hb. destruct Hb as [Hb _]. apply HU, not_mandatory_unitlike, Hb. }
    split; [|intros _; exact U].
    intros n R HR Hn. destruct n as [|n]; [lia|]. apply unit_is_formula; [exact HR|].
    apply U; [apply endf_follow, HR|lia].
  - (* binary connective *)
    cbn [wf_lex] in Hwf. apply andb_true_iff in Hwf. destruct Hwf as [Hl Hr].
    destruct (IHl Hl) as [HFl HUl]. destruct (IHr Hr) as [HFr HUr].
    split; [|discriminate].
    intros n R HR Hn. cbn [print_formula tff_of_formula] in *. norm. len.
    destruct n as [|n]; [lia|]. rewrite read_formula_eq.
    rewrite (rd_child l _ n _ HFl); [| |destruct c; exact I|lia].
    2:{ intros Hb. apply orb_false_iff in Hb. destruct Hb as [Hb _]. apply HUl, not_mandatory_unitlike, Hb. }
    assert (RR : forall m, n <= S m -> read_unit m (parens (mandatory_parentheses r || (3 <=? precedence r)%nat) (print_formula r) ++ R)
                 = Some (tff_of_formula r, R)).
    { intros m Hm. apply (rd_child r _ m R HFr); [|apply endf_follow, HR|lia].
      intros Hb. apply orb_false_iff in Hb. destruct Hb as [Hb _]. apply HUr, not_mandatory_unitlike, Hb. }
    destruct c; cbn [conn_token token_eqb_conn nonassoc_of].
    + destruct n as [|n]; [lia|]. rewrite read_chain_eq, RR by lia. destruct HR as [->|[R' ->]]; reflexivity.
    + destruct n as [|n]; [lia|]. rewrite read_chain_eq, RR by lia. destruct HR as [->|[R' ->]]; reflexivity.
    + rewrite RR by lia. reflexivity.
    + rewrite RR by lia. reflexivity.
    + rewrite RR by lia. reflexivity.
  - (* quantifier *)
    cbn [wf_lex] in Hwf. rewrite !andb_true_iff in Hwf. destruct Hwf as [[Hne Hvs] Hg].
    destruct (IH Hg) as [HF _].
    assert (U : claimU (FQ q vs g)).
    { intros n R HR Hn. cbn [print_formula tff_of_formula] in *. norm. len.
      do 2 (destruct n as [|n]; [lia|]). rewrite read_unit_quant.
      rewrite rd_vars; [| |exact Hvs|lia].
      2:{ intros ->. discriminate. }
      rewrite read_unit_paren. rewrite HF; [reflexivity|right; eauto|lia]. }
    split; [|intros _; exact U].
    intros n R HR Hn. destruct n as [|n]; [lia|]. apply unit_is_formula; [exact HR|].
    apply U; [apply endf_follow, HR|lia].
Qed.

Theorem tff_read_print_lex F : wf_lex F = true -> tff_read (print_formula F) = Some (tff_of_formula F).
Proof.
  intros Hwf. unfold tff_read. destruct (read_print F Hwf) as [HF _].
  pose proof (HF (2 * List.length (print_formula F) + 2) [] (or_introl eq_refl) (le_n _)) as H.
  rewrite app_nil_r in H. rewrite H. reflexivity.
Qed.
Theorem tff_read_print F : wf_tptp F = true -> tff_read (print_formula F) = Some (tff_of_formula F).
Proof. intros H. apply tff_read_print_lex, wf_tptp_lex, H. Qed.
