(* C02, the re-packaging of layer (d): in C02_modulo_private_uniqueness "the other program, with the
   private extents M carries, is not an external stable model" is replaced by "NO interpretation
   with M's public part is an external stable model of the other program".

   Ingredients: C02Priv.accepted_assumptions_supported (the Assumption formulas say that M is
   supported on the private predicates), PrivateUnique.private_extension_unique (two supported
   interpretations that agree on the public predicates agree on the private ones),
   C02Full.translate_meaning_full (external stable models = models of the translated theory) and
   the fact that the validity of a translated theory depends only on the program's vocabulary. *)
From Coq Require Import List Ascii String ZArith NArith Bool Lia Classical_Prop.
From Anthem Require Import Base.ISet Syntax.Fol Syntax.Asp Sem.Domain Sem.Sat Sem.AspRef
  Model.Problem Model.Outline Model.Strong Model.External Model.Tightness Model.PrivRec Model.TauStar
  Model.Completion Model.ExternalFull
  Proofs.ExtendAll Proofs.SemBase Proofs.DecomposeOk Proofs.StrongOk Proofs.ExternalOk Proofs.AssemblyOk Proofs.RenameOk
  Proofs.TightnessOk Proofs.TauStarClassical Proofs.CompletionOk Proofs.FagesBridge Proofs.PlaceholderOk
  Proofs.PrivateUnique Proofs.C19Ext Proofs.C02Ok Proofs.C02Full Proofs.HeadPred Proofs.HeadPredPipeline Proofs.C02Priv
  Proofs.MissingOutputs.
Import ListNotations.
Open Scope string_scope.
Open Scope list_scope.

(* replacing placeholders does not change the private-recursion test *)
Lemma ph_private_choice_heads FI m priv P :
  existsb (private_choice_head priv) (ph_program FI m P) = existsb (private_choice_head priv) P.
Proof.
  unfold ph_program. induction P as [|r P IH]; cbn [map existsb]; [reflexivity|]. rewrite IH. f_equal.
  unfold private_choice_head. cbn. destruct (rhead r); cbn; rewrite ?ph_atom_pred; reflexivity.
Qed.
Lemma ph_priv_edges FI m priv P :
  flat_map (rule_priv_edges priv) (ph_program FI m P) = flat_map (rule_priv_edges priv) P.
Proof.
  unfold ph_program. induction P as [|r P IH]; cbn [map flat_map]; [reflexivity|]. rewrite IH. f_equal.
  unfold rule_priv_edges. cbn [rhead rbody ph_rule]. rewrite ph_head_pred, ph_body_preds. reflexivity.
Qed.
Lemma ph_has_private_recursion FI m P priv :
  has_private_recursion (ph_program FI m P) priv = has_private_recursion P priv.
Proof.
  unfold has_private_recursion, priv_nodes, priv_edges.
  rewrite ph_program_preds, ph_private_choice_heads, ph_priv_edges. reflexivity.
Qed.

Section Behaviour.
Variable fuel : nat.
Notation translate := (theory_translate tau_star_total completion (simp_classic_total fuel)).
Notation tl := (task_left tau_star_total completion (simp_classic_total fuel)).
Notation tr := (task_right tau_star_total completion (simp_classic_total fuel)).

(* the validity of a program's translated theory depends only on the program's vocabulary *)
Lemma translated_pagree t P G th FI N1 N2 :
  TauStar.tau_star P = Some G -> translate t (task_placeholders t) P = Some th ->
  pagree (ext_voc t P) N1 N2 -> (tvalid FI N1 th <-> tvalid FI N2 th).
Proof.
  intros Hts Htr Hag. unfold theory_translate, tau_star_total in Htr. rewrite Hts in Htr.
  fold (task_inputs t) in Htr.
  destruct (completion (rp_theory (task_placeholders t) G) (task_inputs t)) as [D|] eqn:HD; [|discriminate].
  cbv zeta in Htr. set (outs := ug_output_predicates (et_user_guide t)) in *.
  set (occ := task_occurring_predicates t) in *.
  assert (E : forall N, tvalid FI N th <->
                (forall f, In f D -> cvalid FI N f) /\
                (forall q, In q outs -> In q occ -> ~ In q (theory_predicates D) -> forall d, List.length d = parity q -> ~ N (psym q) d)).
  { intros N. rewrite <- (missing_outputs_valid FI N outs occ D).
    assert (E0 : tvalid FI N th <-> (forall f, In f (D ++ missing_output_definitions outs occ D) -> cvalid FI N f)).
    { injection Htr as <-. unfold tvalid. destruct (et_simplify t); [apply simp_theory_sound|tauto]. }
    rewrite E0. split.
    - intros H. split; intros f Hf; apply H, in_or_app; auto.
    - intros [H1 H2] f Hf. apply in_app_or in Hf. destruct Hf; auto. }
  rewrite !E.
  assert (Hincl : incl (theory_predicates (rp_theory (task_placeholders t) G)) (ext_voc t P)).
  { intros q Hq. rewrite rp_theory_predicates in Hq. apply (tau_star_predicates P G q Hts) in Hq.
    apply in_ext_voc. left; exact Hq. }
  rewrite (completion_restrict _ _ _ FI N1 (ext_voc t P) HD Hincl), (completion_restrict _ _ _ FI N2 (ext_voc t P) HD Hincl).
  assert (Hr : forall f e, csat FI (restrict (ext_voc t P) N1) e f <-> csat FI (restrict (ext_voc t P) N2) e f).
  { intros f e. apply csat_pagree. intros p a _. unfold restrict. split; intros [H1 H2]; split; auto; apply (Hag p a H2); exact H1. }
  assert (Ho : forall q d, In q outs -> In q occ -> List.length d = parity q -> (N1 (psym q) d <-> N2 (psym q) d)).
  { intros q d Hq Hoc Hl. apply Hag. apply in_ext_voc. right. right. rewrite Hl. destruct q; split; [exact Hq|exact Hoc]. }
  split; intros [H H'].
  - split; [intros f Hf e; apply Hr; apply H; exact Hf|].
    intros q Hq Hoc Hn d Hl Hd. apply (H' q Hq Hoc Hn d Hl). apply (Ho q d Hq Hoc Hl). exact Hd.
  - split; [intros f Hf e; apply Hr; apply H; exact Hf|].
    intros q Hq Hoc Hn d Hl Hd. apply (H' q Hq Hoc Hn d Hl). apply (Ho q d Hq Hoc Hl). exact Hd.
Qed.

(* the public predicates of the task *)
Definition pub_agree (t : ext_task) (N M : pint) : Prop :=
  forall q, In q (ug_public_predicates (et_user_guide t)) -> agree_on N M q.

(* one side: if M is supported on P's private predicates, then "some interpretation with M's public
   part is an external stable model of P" already means that M itself is one *)
Theorem ext_stable_public_part t P G th FI M :
  is_tight P = true ->
  (forall r h, In r P -> head_pred (rhead r) = Some h -> ~ In h (task_inputs t)) ->
  c_io_disjoint t = true ->
  TauStar.tau_star P = Some G -> translate t (task_placeholders t) P = Some th ->
  has_private_recursion P (private_predicates (ug_public_predicates (et_user_guide t)) (program_preds P)) = false ->
  tvalid FI M (assumptions_of (control_translate (ug_public_predicates (et_user_guide t)) th)) ->
  ((exists N, pub_agree t N M /\ ext_stable_full t FI N P) <-> ext_stable_full t FI M P).
Proof.
  intros Ht Hins Hout Hts Htr Hpr HM. split; [|intros H; exists M; split; [intros q _ d _; tauto|exact H]].
  intros [N [Hpub HN]].
  set (public := ug_public_predicates (et_user_guide t)) in *.
  set (priv := private_predicates public (program_preds P)) in *.
  pose proof (translate_meaning_full fuel t P G th Ht Hins Hout Hts Htr FI) as Hmean.
  apply Hmean in HN. apply Hmean.
  (* N is supported on the private predicates as well *)
  assert (HNa : tvalid FI N (assumptions_of (control_translate public th))).
  { pose proof (control_translate_forms public th 0) as Ef. fold (control_translate public th) in Ef.
    rewrite <- Ef in HN. apply (translated_split FI N _ (control_translate_translated public th 0)) in HN. tauto. }
  apply (translated_assumptions_supported fuel t P G th Hts Htr Hpr FI) in HNa, HM.
  assert (Hpr' : has_private_recursion (ph_program FI (task_placeholders t) P) priv = false)
    by (rewrite ph_has_private_recursion; exact Hpr).
  assert (Hin_priv : forall q, In q priv <-> In q (program_preds P) /\ ~ In q public).
  { intros q. unfold priv, private_predicates. rewrite filter_In, negb_true_iff.
    destruct (memb_spec pred_dec q public); split; intros [H1 H2]; split; auto; try discriminate. contradiction. }
  assert (Hagp : forall q, In q priv -> agree_on N M q).
  { apply (private_extension_unique (ph_program FI (task_placeholders t) P) priv N M Hpr'); auto.
    intros q Hq Hnp. rewrite ph_program_preds in Hq. apply Hpub.
    destruct (in_dec pred_dec q public) as [Hp|Hp]; [exact Hp|]. exfalso. apply Hnp, Hin_priv. auto. }
  (* hence N and M agree on the whole vocabulary of P *)
  assert (Hag : pagree (ext_voc t P) N M).
  { intros p a Hin. apply ext_voc_incl_public in Hin. unfold ext_voc_public in Hin. apply in_app_or in Hin.
    assert (Hq : In (mkpred p (List.length a)) public \/ In (mkpred p (List.length a)) priv).
    { destruct Hin as [Hin|Hin].
      - destruct (in_dec pred_dec (mkpred p (List.length a)) public) as [Hp|Hp]; [left; exact Hp|right; apply Hin_priv; auto].
      - left. exact Hin. }
    destruct Hq as [Hq|Hq]; [apply (Hpub _ Hq a eq_refl)|apply (Hagp _ Hq a eq_refl)]. }
  apply (translated_pagree t P G th FI N M Hts Htr Hag). exact HN.
Qed.

(* C02 for accepted program-vs-program tasks, quantified over the public part: an interpretation M
   that satisfies the user-guide assumptions and is supported on the private predicates of both
   sides (= satisfies the Assumption formulas) refutes an emitted problem iff, for an enabled
   direction, it is an external stable model of one program while NO interpretation with the same
   public part is an external stable model of the other (the program side read through the renaming
   of the private predicates) *)
Theorem C02_behaviour_proof t L w pbs lft rgt :
  et_specification t = inl L -> et_proof_outline t = [] ->
  external_decompose_full fuel t = XOk w pbs ->
  is_tight L = true -> is_tight (et_program t) = true ->
  tl t L = Some lft -> tr t = Some rgt ->
  (forall vt, task_validated tau_star_total completion (simp_classic_total fuel) t = Some vt -> validated_no_clash vt) ->
  forall FI M,
    tvalid FI M (map (fun a => rp_formula (task_placeholders t) (an_formula a)) (filter is_assumption (ug_formulas (et_user_guide t)))) ->
    tvalid FI M (assumptions_of lft) -> tvalid FI M (assumptions_of rgt) ->
    (refutes_some FI M pbs <->
     (dir_forward (et_direction t) = true /\
      ext_stable_full t FI M L /\
      ~ exists N, pub_agree t N (reindex (task_mapping t) M) /\ ext_stable_full t FI N (et_program t)) \/
     (dir_backward (et_direction t) = true /\
      ext_stable_full t FI (reindex (task_mapping t) M) (et_program t) /\
      ~ exists N, pub_agree t N M /\ ext_stable_full t FI N L)).
Proof.
  intros Hs Ho Hfull HtL HtR El Er Hn FI M Hug Hal Har.
  rewrite (C02_full_proof fuel t L w pbs lft rgt Hs Ho Hfull HtL HtR El Er Hn FI M Hug Hal Har).
  destruct (full_ok_inv fuel t w pbs Hfull) as [[w0 Hv] [_ [[GR HGR] HGL]]].
  destruct (HGL L Hs) as [GL HGL'].
  destruct (validate_conditions _ _ t w0 Hv) as [_ [Hpr [Hhead [HoL _]]]]. pose proof HoL as HoR.
  unfold c_no_private_recursion in Hpr. rewrite Hs in Hpr. apply andb_true_iff in Hpr.
  destruct Hpr as [HpR HpL]. apply negb_true_iff in HpR, HpL.
  unfold c_no_input_in_head in Hhead. rewrite Hs in Hhead. apply andb_true_iff in Hhead. destruct Hhead as [HhR HhL].
  unfold task_left in El. destruct (translate t (task_placeholders t) L) as [thl|] eqn:Etl; [|discriminate].
  injection El as <-.
  unfold task_right in Er. destruct (translate t (task_placeholders t) (et_program t)) as [thr|] eqn:Etr; [|discriminate].
  injection Er as <-.
  unfold task_spec_private in HpL. rewrite Hs in HpL.
  assert (EL : (exists N, pub_agree t N M /\ ext_stable_full t FI N L) <-> ext_stable_full t FI M L).
  { apply (ext_stable_public_part t L GL thl FI M HtL (no_input_in_head t L HhL) HoL HGL' Etl HpL Hal). }
  assert (Harr : tvalid FI (reindex (task_mapping t) M)
                   (assumptions_of (control_translate (ug_public_predicates (et_user_guide t)) thr))).
  { assert (E : assumptions_of (map (rename_predicates_annot (task_mapping t))
                                  (control_translate (ug_public_predicates (et_user_guide t)) thr))
                = map (rename_predicates (task_mapping t))
                      (assumptions_of (control_translate (ug_public_predicates (et_user_guide t)) thr))).
    { unfold assumptions_of. generalize (control_translate (ug_public_predicates (et_user_guide t)) thr).
      intros l. induction l as [|a l IH]; cbn; [reflexivity|]. destruct (an_role a); cbn; rewrite IH; reflexivity. }
    rewrite E, tvalid_rename in Har. exact Har. }
  assert (ER : (exists N, pub_agree t N (reindex (task_mapping t) M) /\ ext_stable_full t FI N (et_program t)) <->
               ext_stable_full t FI (reindex (task_mapping t) M) (et_program t)).
  { apply (ext_stable_public_part t (et_program t) GR thr FI _ HtR (no_input_in_head t _ HhR) HoR HGR Etr HpR Harr). }
  rewrite EL, ER. reflexivity.
Qed.
(* a countermodel of an emitted problem satisfies all stable premises: the user-guide assumptions
   and the Assumption formulas of both sides are axioms of every problem *)
Lemma refuted_stable_premises vt w pbs :
  validated_decompose vt = Ok (w, pbs) -> vt_proof_outline vt = empty_outline -> validated_no_clash vt ->
  translated (vt_left vt) -> translated (vt_right vt) ->
  forall FI M, refutes_some FI M pbs ->
    tvalid FI M (map an_formula (vt_user_guide_assumptions vt)) /\
    tvalid FI M (assumptions_of (vt_left vt)) /\ tvalid FI M (assumptions_of (vt_right vt)).
Proof.
  intros Hd Ho Hn Hl Hr FI M Href.
  destruct (validated_refutes_no_outline vt w pbs Hd Ho Hn) as [cl [cr [El [Er Hchar]]]].
  destruct (left_translated FI M (vt_break vt) _ Hl) as [cl' [El' [L1 _]]].
  destruct (right_translated FI M (vt_break vt) _ Hr) as [cr' [Er' [R1 _]]].
  rewrite El in El'. injection El' as <-. rewrite Er in Er'. injection Er' as <-.
  apply (Hchar FI M) in Href. cbv zeta in Href. rewrite L1, R1, !tvalid_app in Href. tauto.
Qed.

(* soundness of countermodels, no hypothesis on M: an interpretation that refutes an emitted problem
   of an accepted program-vs-program task witnesses a difference in external behaviour *)
Theorem C02_countermodel_proof t L w pbs lft rgt :
  et_specification t = inl L -> et_proof_outline t = [] ->
  external_decompose_full fuel t = XOk w pbs ->
  is_tight L = true -> is_tight (et_program t) = true ->
  tl t L = Some lft -> tr t = Some rgt ->
  (forall vt, task_validated tau_star_total completion (simp_classic_total fuel) t = Some vt -> validated_no_clash vt) ->
  forall FI M,
    refutes_some FI M pbs ->
    (dir_forward (et_direction t) = true /\
     ext_stable_full t FI M L /\
     ~ exists N, pub_agree t N (reindex (task_mapping t) M) /\ ext_stable_full t FI N (et_program t)) \/
    (dir_backward (et_direction t) = true /\
     ext_stable_full t FI (reindex (task_mapping t) M) (et_program t) /\
     ~ exists N, pub_agree t N M /\ ext_stable_full t FI N L).
Proof.
  intros Hs Ho Hfull HtL HtR El Er Hn FI M Href.
  destruct (full_ok_inv fuel t w pbs Hfull) as [_ [Hd _]].
  destruct (external_validated is_tight has_private_recursion tau_star_total completion (simp_classic_total fuel)
              t L w pbs Hs Ho Hd) as [lft' [rgt' [uga [w' [El' [Er' [Eu [Hv Htv]]]]]]]].
  rewrite El in El'. injection El' as <-. rewrite Er in Er'. injection Er' as <-.
  assert (Tl : translated lft).
  { unfold task_left in El. destruct (translate t (task_placeholders t) L); [|discriminate]. injection El as <-.
    apply control_translate_translated. }
  assert (Tr : translated rgt).
  { unfold task_right in Er. destruct (translate t (task_placeholders t) (et_program t)); [|discriminate]. injection Er as <-.
    apply rename_translated, control_translate_translated. }
  destruct (refuted_stable_premises _ w' pbs Hv eq_refl (Hn _ Htv) Tl Tr FI M Href) as [Hug [Hal Har]].
  cbn in Hug, Hal, Har. rewrite Eu in Hug.
  exact (proj1 (C02_behaviour_proof t L w pbs lft rgt Hs Ho Hfull HtL HtR El Er Hn FI M Hug Hal Har) Href).
Qed.
End Behaviour.
