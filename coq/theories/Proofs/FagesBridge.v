(* C04_fages: for a tight program, the models of the completion of a theory that *represents* the
   program rule by rule (as tau* does) are exactly the stable models (Sem/AspRef.v) of the program
   extended with the model's own input facts.
   Pieces: (1) the ground instances of a program as semantic ground rules (Proofs/Fages.v) and
   equilibrium = AspRef.stable; (2) the rank certified by is_tight (TightnessOk.is_tight_rank);
   (3) Clark's characterisation (CompletionOk.C04_clark_proof) = "supported model".
   The tau* translation itself is modelled elsewhere; what this proof needs from it is the
   relation [represents] below (the bridge lemma  represents FI (tau_star P) P  is the explicit
   hypothesis of C04_fages_partial).  Classical logic: Classical_Prop.classic. *)
From Coq Require Import List Ascii String ZArith Bool Lia Classical_Prop.
From Anthem Require Import Base.ISet Syntax.Fol Syntax.Asp Sem.Domain Sem.Sat Sem.AspRef
  Model.Completion Model.Tightness Proofs.ExtendAll Proofs.EnvFacts Proofs.CompletionShape
  Proofs.CompletionOk Proofs.TightnessOk Proofs.Fages.
Import ListNotations.
Open Scope string_scope.
Open Scope list_scope.

(* ---------- what the proof needs from the translation of rules ---------- *)
Definition general_vars (V : list var) : Prop := Forall (fun v => vsort v = SGeneral) V.

(* f is the translation of rule r: a constraint formula equivalent to "no ground instance of the
   body holds", or a definition  forall.. (F -> p(V))  with V general variables, one per head
   argument, whose body F holds at V := d (for some values of the other variables) exactly when
   some ground instance of the rule has d among the value tuples of its head terms and a true
   body (and, for a choice rule, p(d) is not false) *)
Definition rule_formula (FI : fint) (r : rule) (f : formula) : Prop :=
  match rhead r with
  | HFalsity =>
      constraint_formula f /\
      forall T, cvalid FI T f <-> forall sg, ~ body_sat T T sg (rbody r)
  | HBasic a =>
      exists F V, definition_of f F (apred a) V /\ List.length V = List.length (aterms a) /\ general_vars V /\
        forall T d, (exists e, map (getv e) V = d /\ csat FI T e F) <->
                    (exists sg, tuple_vals sg (aterms a) d /\ body_sat T T sg (rbody r))
  | HChoice a =>
      exists F V, definition_of f F (apred a) V /\ List.length V = List.length (aterms a) /\ general_vars V /\
        forall T d, (exists e, map (getv e) V = d /\ csat FI T e F) <->
                    (exists sg, tuple_vals sg (aterms a) d /\ body_sat T T sg (rbody r) /\ ~ ~ T (apred a) d)
  end.
Definition represents (FI : fint) (G : theory) (P : program) : Prop :=
  Forall2 (rule_formula FI) P G /\
  forall p, In p (theory_predicates G) <-> In p (program_preds P).

(* the model's own facts over the input predicates *)
Definition input_facts (T : pint) (ins : list pred) : pint :=
  fun p d => T p d /\ In (mkpred p (List.length d)) ins.

(* ---------- ground instances as semantic ground rules ---------- *)
Definition gatom := (string * list gval)%type.
Definition gpred_of (a : gatom) : pred := mkpred (fst a) (List.length (snd a)).
Definition of_pint (W : pint) : interp gatom := fun a => W (fst a) (snd a).
Definition to_pint (W : interp gatom) : pint := fun p d => W (p, d).

Definition atoms_of (sg : assignment) (a : atom) : gatom -> Prop :=
  fun g => fst g = apred a /\ tuple_vals sg (aterms a) (snd g).
Definition ground_item (sg : assignment) (b : bformula) : item gatom :=
  match b with
  | BLit (mklit SNone a) => Pos gatom (atoms_of sg a)
  | _ => Fix gatom (fun T => bformula_sat (to_pint T) (to_pint T) sg b)
  end.
Definition ground (r : rule) (sg : assignment) : grule gatom :=
  mkgrule gatom
    (match rhead r with HBasic _ => Basic | HChoice _ => Choice | HFalsity => Constraint end)
    (match rhead r with HBasic a | HChoice a => atoms_of sg a | HFalsity => fun _ => False end)
    (map (ground_item sg) (rbody r)).

Lemma tuple_vals_length sg ts vs : tuple_vals sg ts vs -> List.length vs = List.length ts.
Proof. intros H. induction H; cbn; auto. Qed.

Lemma ground_item_holds sg b (W T : interp gatom) :
  item_holds gatom W T (ground_item sg b) <-> bformula_sat (to_pint W) (to_pint T) sg b.
Proof.
  destruct b as [[[| |] a]|c]; cbn; try tauto.
  unfold atoms_of, to_pint. split.
  - intros [[p vs] [[E Hv] Hw]]. cbn in *. subst p. eauto.
  - intros [vs [Hv Hw]]. exists (apred a, vs). cbn. auto.
Qed.
Lemma ground_body_holds r sg (W T : interp gatom) :
  body_holds gatom W T (ground r sg) <-> body_sat (to_pint W) (to_pint T) sg (rbody r).
Proof.
  unfold body_holds, body_sat, ground. cbn [body]. rewrite Forall_map.
  split; apply Forall_impl; intros b; apply ground_item_holds.
Qed.
Lemma ground_head_holds r sg (W T : interp gatom) :
  head_holds gatom W T (ground r sg) <-> head_sat (to_pint W) (to_pint T) sg (rhead r).
Proof.
  unfold head_holds, ground, head_sat. cbn [kind hatoms]. destruct (rhead r) as [a|a|]; [| |tauto];
    unfold atoms_of, to_pint; split.
  - intros H vs Hv. apply (H (apred a, vs)). cbn; auto.
  - intros H [p vs] [E Hv]. cbn in *. subst p. auto.
  - intros H vs Hv. apply (H (apred a, vs)). cbn; auto.
  - intros H [p vs] [E Hv]. cbn in *. subst p. auto.
Qed.
Lemma ground_rule_sat r (H T : interp gatom) :
  (forall sg, rule_sat gatom H T (ground r sg)) <-> ref_rule_sat (to_pint H) (to_pint T) r.
Proof.
  unfold rule_sat, ref_rule_sat. split; intros X sg; specialize (X sg);
    rewrite !ground_body_holds, !ground_head_holds in *; exact X.
Qed.

Section Bridge.
Variable P : program.
Variable ins : list pred.

Definition gprog (gr : grule gatom) : Prop := exists r sg, In r P /\ gr = ground r sg.
Definition ginput (a : gatom) : Prop := In (gpred_of a) ins.

Lemma gprog_sat (H T : interp gatom) :
  (forall gr, gprog gr -> rule_sat gatom H T gr) <-> ref_sat (to_pint H) (to_pint T) P.
Proof.
  unfold ref_sat. split.
  - intros X r Hr. apply ground_rule_sat. intros sg. apply X. exists r, sg. auto.
  - intros X gr [r [sg [Hr ->]]]. apply ground_rule_sat. auto.
Qed.
Lemma ht_model_iff (H : interp gatom) (T : pint) :
  ht_model gatom gprog ginput H (of_pint T) <->
  ref_sat (to_pint H) T P /\ facts_sat (to_pint H) (input_facts T ins).
Proof.
  unfold ht_model. rewrite gprog_sat. unfold facts_sat, input_facts, ginput, gpred_of, of_pint, to_pint.
  split; intros [X Y]; split; auto.
  - intros p d [Ht Hi]. apply (Y (p, d)); auto.
  - intros [p d] Hi Ht. cbn in *. auto.
Qed.

Lemma equilibrium_stable (T : pint) :
  equilibrium gatom gprog ginput (of_pint T) <-> stable T P (input_facts T ins).
Proof.
  unfold equilibrium, stable. rewrite ht_model_iff. split.
  - intros [X Y]. split; [exact X|].
    intros H HS HR HF p d Ht. apply (Y (of_pint H) (fun a Hh => HS (fst a) (snd a) Hh) (proj2 (ht_model_iff (of_pint H) T) (conj HR HF)) (p, d) Ht).
  - intros [X Y]. split; [exact X|].
    intros H HS HM [p d] Ht. apply ht_model_iff in HM. destruct HM as [HR HF].
    apply (Y (to_pint H)); auto. intros q vs Hh. apply (HS (q, vs)), Hh.
Qed.

(* the rank certified by is_tight *)
Lemma gtight : is_tight P = true ->
  exists rank : pred -> nat, forall gr A b h, gprog gr -> In (Pos gatom A) (body gatom gr) -> A b ->
    hatoms gatom gr h -> rank (gpred_of b) < rank (gpred_of h).
Proof.
  intros Ht. destruct (is_tight_rank P Ht) as [rank Hr]. exists rank.
  intros gr A b h [r [sg [Hin ->]]] HA Hb Hh. cbn [body ground] in HA.
  apply in_map_iff in HA. destruct HA as [bf [E Hbf]].
  destruct bf as [[[| |] a']|c]; cbn in E; try discriminate.
  injection E as <-. destruct Hb as [Eb Hv]. cbn [hatoms ground] in Hh.
  assert (Gb : gpred_of b = atom_pred a').
  { unfold gpred_of, atom_pred. rewrite Eb, (tuple_vals_length _ _ _ Hv). reflexivity. }
  rewrite Gb.
  destruct (rhead r) as [a|a|] eqn:Eh; [| |destruct Hh]; destruct Hh as [Ea Hva];
    (assert (Gh : gpred_of h = atom_pred a)
      by (unfold gpred_of, atom_pred; rewrite Ea, (tuple_vals_length _ _ _ Hva); reflexivity));
    rewrite Gh; apply (Hr r a' (atom_pred a)); auto; rewrite Eh; reflexivity.
Qed.

(* ---------- supported model = model of the completion ---------- *)
Variable FI : fint.
Variable G : theory.
Variable D : theory.
Hypothesis Hrep : represents FI G P.
Hypothesis Hcomp : completion G ins = Some D.
Hypothesis Hins : forall r h, In r P -> head_pred (rhead r) = Some h -> ~ In h ins.

Lemma forall2_in_l {A B} (R : A -> B -> Prop) l1 l2 x : Forall2 R l1 l2 -> In x l1 -> exists y, In y l2 /\ R x y.
Proof.
  intros H. induction H as [|a b l1 l2 Hab H IH]; cbn; [tauto|].
  intros [<-|Hx]; [eauto|]. destruct (IH Hx) as [y [Hy Hr]]. eauto.
Qed.
Lemma forall2_in_r {A B} (R : A -> B -> Prop) l1 l2 y : Forall2 R l1 l2 -> In y l2 -> exists x, In x l1 /\ R x y.
Proof.
  intros H. induction H as [|a b l1 l2 Hab H IH]; cbn; [tauto|].
  intros [<-|Hy]; [eauto|]. destruct (IH Hy) as [x [Hx Hr]]. eauto.
Qed.

Lemma definition_constraint_excl f F p V : definition_of f F p V -> constraint_formula f -> False.
Proof.
  intros [_ [H1 _]] [_ [F' H2]]. unfold implication in *.
  destruct H1 as [E1|E1], H2 as [E2|E2]; rewrite E1 in E2; discriminate.
Qed.
Lemma definition_of_fun f F p V F' p' V' :
  definition_of f F p V -> definition_of f F' p' V' -> F = F' /\ p = p' /\ V = V'.
Proof.
  intros [_ [H1 _]] [_ [H2 _]]. unfold implication in *.
  destruct H1 as [E1|E1], H2 as [E2|E2]; rewrite E1 in E2; try discriminate;
    injection E2; intros; repeat split; try congruence; apply map_var_to_gterm_inj; congruence.
Qed.
Lemma in_sorts_general_vars V : general_vars V -> forall d, List.length d = List.length V -> in_sorts V d.
Proof.
  intros H. induction H as [|v V Hv H IH]; intros [|x d]; cbn; try discriminate; intros Hl; constructor.
  - rewrite Hv. exact Logic.I.
  - apply IH. lia.
Qed.

(* the definitions of p in G are the translations of the rules with head predicate p *)
Lemma support_iff (T : pint) p d :
  (exists F V, defines G p F V /\ exists e, map (getv e) V = d /\ csat FI T e F) <->
  (exists r a sg, In r P /\ atom_pred a = p /\ tuple_vals sg (aterms a) d /\ body_sat T T sg (rbody r) /\
     (rhead r = HBasic a \/ (rhead r = HChoice a /\ ~ ~ T (apred a) d))).
Proof.
  destruct Hrep as [HF _]. split.
  - intros [F [V [[f [Hf [HD Hl]]] He]]].
    destruct (forall2_in_r _ _ _ _ HF Hf) as [r [Hr Hrf]]. unfold rule_formula in Hrf.
    destruct (rhead r) as [a|a|] eqn:Eh.
    + destruct Hrf as [F' [V' [HD' [Hl' [_ Hsem]]]]].
      destruct (definition_of_fun _ _ _ _ _ _ _ HD HD') as [-> [Ep ->]].
      apply Hsem in He. destruct He as [sg [Hv Hb]]. exists r, a, sg. repeat split; auto.
      unfold atom_pred. rewrite <- Ep, <- Hl', Hl. destruct p; reflexivity.
    + destruct Hrf as [F' [V' [HD' [Hl' [_ Hsem]]]]].
      destruct (definition_of_fun _ _ _ _ _ _ _ HD HD') as [-> [Ep ->]].
      apply Hsem in He. destruct He as [sg [Hv [Hb Hn]]]. exists r, a, sg. repeat split; auto.
      unfold atom_pred. rewrite <- Ep, <- Hl', Hl. destruct p; reflexivity.
    + destruct Hrf as [Hk _]. exfalso. eapply definition_constraint_excl; eauto.
  - intros [r [a [sg [Hr [Ep [Hv [Hb Hh]]]]]]].
    destruct (forall2_in_l _ _ _ _ HF Hr) as [f [Hf Hrf]]. unfold rule_formula in Hrf.
    destruct Hh as [Eh|[Eh Hn]]; rewrite Eh in Hrf; destruct Hrf as [F [V [HD [Hl [_ Hsem]]]]];
      exists F, V; (split; [exists f; split; auto; subst p; cbn; auto|]); apply Hsem; eauto.
Qed.

Lemma head_in_preds r h : In r P -> head_pred (rhead r) = Some h -> In h (program_preds P).
Proof. intros Hr Hh. apply in_program_preds. exists r. split; auto. apply in_rule_preds. auto. Qed.

Theorem supported_completion (T : pint) :
  (forall p d, T p d -> In (mkpred p (List.length d)) (program_preds P) \/ In (mkpred p (List.length d)) ins) ->
  (supported gatom gprog ginput (of_pint T) <-> forall f, In f D -> cvalid FI T f).
Proof.
  intros Hvoc. rewrite (C04_clark_proof G ins D Hcomp FI T).
  destruct Hrep as [HF Hpreds].
  (* sort side condition of Clark's characterisation: heads are general variables *)
  assert (Hsort : forall p d, List.length d = parity p -> forall F V, defines G p F V -> in_sorts V d).
  { intros p d Hl F V [f [Hf [HD HlV]]]. apply in_sorts_general_vars; [|congruence].
    destruct (forall2_in_r _ _ _ _ HF Hf) as [r [Hr Hrf]]. unfold rule_formula in Hrf.
    destruct (rhead r) as [a|a|].
    - destruct Hrf as [F' [V' [HD' [_ [Hg _]]]]]. destruct (definition_of_fun _ _ _ _ _ _ _ HD HD') as [_ [_ ->]]. exact Hg.
    - destruct Hrf as [F' [V' [HD' [_ [Hg _]]]]]. destruct (definition_of_fun _ _ _ _ _ _ _ HD HD') as [_ [_ ->]]. exact Hg.
    - destruct Hrf as [Hk _]. exfalso. eapply definition_constraint_excl; eauto. }
  unfold supported. split.
  - (* supported -> completion *)
    intros [HM HS]. apply gprog_sat in HM. change (to_pint (of_pint T)) with T in HM. split.
    + intros f Hf Hk. destruct (forall2_in_r _ _ _ _ HF Hf) as [r [Hr Hrf]]. unfold rule_formula in Hrf.
      specialize (HM r Hr). destruct (rhead r) as [a|a|] eqn:Eh.
      * destruct Hrf as [F [V [HD _]]]. exfalso. eapply definition_constraint_excl; eauto.
      * destruct Hrf as [F [V [HD _]]]. exfalso. eapply definition_constraint_excl; eauto.
      * destruct Hrf as [_ Hsem]. apply Hsem. intros sg Hb. destruct (HM sg) as [_ X].
        rewrite Eh in X. apply (X Hb).
    + intros p Hp Hn d Hl _. rewrite support_iff. split.
      * intros Ht. destruct (HS (psym p, d)) as [Hi|[gr [[r [sg [Hr ->]]] [Hk [Hh Hb]]]]].
        -- exact Ht.
        -- exfalso. apply Hn. unfold ginput, gpred_of in Hi. cbn in Hi. rewrite Hl in Hi. destruct p; exact Hi.
        -- apply ground_body_holds in Hb. change (to_pint (of_pint T)) with T in Hb.
           cbn [hatoms kind ground] in Hh, Hk. destruct (rhead r) as [a|a|] eqn:Eh; [| |destruct Hh];
             destruct Hh as [Ea Hv]; cbn in Ea, Hv; exists r, a, sg; repeat split; auto.
           ++ unfold atom_pred. rewrite <- Ea, <- (tuple_vals_length _ _ _ Hv), Hl. destruct p; reflexivity.
           ++ unfold atom_pred. rewrite <- Ea, <- (tuple_vals_length _ _ _ Hv), Hl. destruct p; reflexivity.
           ++ right. split; auto. rewrite <- Ea. intros X. apply X. exact Ht.
      * intros [r [a [sg [Hr [Ep [Hv [Hb Hh]]]]]]]. destruct (HM r Hr sg) as [_ X]. specialize (X Hb).
        destruct Hh as [Eh|[Eh Hnn]]; rewrite Eh in X; cbn in X.
        -- rewrite <- Ep. cbn. apply X, Hv.
        -- rewrite <- Ep. cbn. apply NNPP. exact Hnn.
  - (* completion -> supported *)
    intros [HC HDf]. split.
    + apply gprog_sat. change (to_pint (of_pint T)) with T. intros r Hr sg.
      assert (X : body_sat T T sg (rbody r) -> head_sat T T sg (rhead r)).
      { intros Hb. destruct (forall2_in_l _ _ _ _ HF Hr) as [f [Hf Hrf]]. unfold rule_formula in Hrf.
        destruct (rhead r) as [a|a|] eqn:Eh; cbn.
        - intros vs Hv.
          assert (Hp : In (atom_pred a) (theory_predicates G)).
          { apply Hpreds. eapply head_in_preds; eauto. rewrite Eh. reflexivity. }
          assert (Hn : ~ In (atom_pred a) ins) by (eapply Hins; eauto; rewrite Eh; reflexivity).
          assert (Hl : List.length vs = parity (atom_pred a)) by (apply (tuple_vals_length _ _ _ Hv)).
          apply (HDf (atom_pred a) Hp Hn vs Hl (Hsort _ _ Hl)). apply support_iff.
          exists r, a, sg. repeat split; auto.
        - intros vs Hv. apply classic.
        - destruct Hrf as [Hk Hsem]. apply (proj1 (Hsem T) (HC f Hf Hk) sg Hb). }
      split; exact X.
    + intros [p d] Ht. unfold of_pint in Ht. cbn in Ht.
      destruct (Hvoc p d Ht) as [Hp|Hi]; [|left; exact Hi].
      destruct (in_dec pred_dec (mkpred p (List.length d)) ins) as [Hi|Hn]; [left; exact Hi|right].
      apply Hpreds in Hp.
      pose proof (HDf (mkpred p (List.length d)) Hp Hn d eq_refl (Hsort (mkpred p (List.length d)) d eq_refl)) as X. cbn [psym] in X.
      apply X in Ht. apply support_iff in Ht.
      destruct Ht as [r [a [sg [Hr [Ep [Hv [Hb Hh]]]]]]].
      exists (ground r sg). split; [exists r, sg; auto|]. split; [|split].
      * cbn. destruct Hh as [->|[-> _]]; discriminate.
      * cbn. injection Ep as Ep _. destruct Hh as [->|[-> _]]; unfold atoms_of; cbn; auto.
      * apply ground_body_holds. exact Hb.
Qed.
End Bridge.

(* ---------- the theorem ---------- *)
Theorem C04_fages_partial_proof (P : program) (G : theory) (ins : list pred) (D : theory) (FI : fint) (T : pint) :
  represents FI G P ->
  is_tight P = true ->
  (forall r h, In r P -> head_pred (rhead r) = Some h -> ~ In h ins) ->
  completion G ins = Some D ->
  (forall p d, T p d -> In (mkpred p (List.length d)) (program_preds P) \/ In (mkpred p (List.length d)) ins) ->
  ((forall f, In f D -> cvalid FI T f) <-> stable T P (input_facts T ins)).
Proof.
  intros Hrep Ht Hins Hcomp Hvoc.
  rewrite <- (supported_completion P ins FI G D Hrep Hcomp Hins T Hvoc).
  rewrite <- (equilibrium_stable P ins T).
  destruct (gtight P Ht) as [rank Hrank].
  symmetry. apply (fages gatom pred gpred_of (gprog P) (ginput ins) rank Hrank).
Qed.
