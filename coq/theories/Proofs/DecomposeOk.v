(* C19_dec: the independent and the sequential decomposition of a problem are refuted by exactly
   the same interpretations, namely those that satisfy all axioms and falsify some conjecture.
   An interpretation is a pair (FI, I): values of the placeholders and extents of the predicates.
   The direction "some conjecture fails -> the FIRST failing conjecture exists" uses excluded middle
   (Classical_Prop.classic): truth of a formula in an infinite structure is not decidable. *)
From Coq Require Import List Ascii String ZArith NArith Bool Classical_Prop.
From Anthem Require Import Base.Fresh Syntax.Fol Sem.Domain Sem.Sat Model.Problem.
Import ListNotations.
Open Scope list_scope.

Section WithM.
Variable FI : fint.
Variable I : pint.

Definition pf_valid (a : pformula) : Prop := cvalid FI I (pf_formula a).
(* M refutes a problem: all axioms true, some conjecture false *)
Definition refutes (p : problem) : Prop :=
  (forall a, In a (axioms p) -> pf_valid a) /\ exists c, In c (conjectures p) /\ ~ pf_valid c.
Definition refutes_some (ps : list problem) : Prop := exists p, In p ps /\ refutes p.

Definition all_role (r : prole) (l : list pformula) : Prop := forall a, In a l -> pf_role a = r.

Lemma filter_all_axiom l : all_role PAxiom l ->
  filter (fun a => prole_eqb (pf_role a) PAxiom) l = l /\ filter (fun a => prole_eqb (pf_role a) PConjecture) l = [].
Proof.
  induction l as [|a l IH]; intros Hl; cbn; [auto|].
  rewrite (Hl a (or_introl eq_refl)). cbn.
  destruct IH as [E1 E2]; [intros x Hx; apply Hl; right; exact Hx|]. rewrite E1, E2. auto.
Qed.
Lemma axioms_role p : all_role PAxiom (axioms p).
Proof.
  intros a Ha. unfold axioms in Ha. apply filter_In in Ha. destruct Ha as [_ Ha].
  destruct (pf_role a); [reflexivity|discriminate].
Qed.
Lemma conjectures_role p : all_role PConjecture (conjectures p).
Proof.
  intros a Ha. unfold conjectures in Ha. apply filter_In in Ha. destruct Ha as [_ Ha].
  destruct (pf_role a); [discriminate|reflexivity].
Qed.

(* a problem consisting of axioms followed by one conjecture *)
Lemma axioms_snoc name l c : all_role PAxiom l -> pf_role c = PConjecture ->
  axioms (mkproblem name (l ++ [c])) = l /\ conjectures (mkproblem name (l ++ [c])) = [c].
Proof.
  intros Hl Hc. unfold axioms, conjectures. cbn. rewrite !filter_app. cbn. rewrite Hc. cbn.
  destruct (filter_all_axiom l Hl) as [E1 E2]. rewrite E1, E2, app_nil_r. auto.
Qed.
Lemma refutes_snoc name l c : all_role PAxiom l -> pf_role c = PConjecture ->
  refutes (mkproblem name (l ++ [c])) <-> (forall a, In a l -> pf_valid a) /\ ~ pf_valid c.
Proof.
  intros Hl Hc. unfold refutes. destruct (axioms_snoc name l c Hl Hc) as [-> ->]. split.
  - intros [Ha [x [[<-|[]] Hx]]]. auto.
  - intros [Ha Hx]. split; auto. exists c. split; [left; reflexivity|exact Hx].
Qed.

(* ---------- independent ---------- *)
Lemma independent_from name ax : all_role PAxiom ax -> forall cs i, all_role PConjecture cs ->
  refutes_some (dec_independent_from name ax i cs) <->
  (forall a, In a ax -> pf_valid a) /\ exists c, In c cs /\ ~ pf_valid c.
Proof.
  intros Hax. induction cs as [|c cs IH]; intros i Hcs; cbn.
  - split; [intros [p [[] _]]|intros [_ [c [[] _]]]].
  - assert (Hc : pf_role c = PConjecture) by (apply Hcs; left; reflexivity).
    assert (Hcs' : all_role PConjecture cs) by (intros x Hx; apply Hcs; right; exact Hx).
    split.
    + intros [p [[<-|Hp] Hr]].
      * apply refutes_snoc in Hr; auto. destruct Hr as [Ha Hn]. split; auto. exists c; split; [left; reflexivity|exact Hn].
      * destruct (proj1 (IH (N.succ i) Hcs')) as [Ha [x [Hx Hn]]]; [exists p; auto|].
        split; auto. exists x; split; [right; exact Hx|exact Hn].
    + intros [Ha [x [[<-|Hx] Hn]]].
      * eexists; split; [left; reflexivity|]. apply refutes_snoc; auto.
      * destruct (proj2 (IH (N.succ i) Hcs')) as [p [Hp Hr]]; [split; auto; exists x; auto|].
        exists p; split; [right; exact Hp|exact Hr].
Qed.

Theorem independent_refutes p : refutes_some (decompose_independent p) <-> refutes p.
Proof.
  unfold decompose_independent. rewrite independent_from; [reflexivity|apply axioms_role|apply conjectures_role].
Qed.

(* ---------- sequential ---------- *)
Definition forms (l : list pformula) : list formula := map pf_formula l.

Lemma set_last_axiom_snoc l a :
  set_last_axiom (l ++ [a]) = l ++ [mkpf (pf_name a) PAxiom (pf_formula a)].
Proof. unfold set_last_axiom. rewrite rev_app_distr. cbn. rewrite rev_involutive. reflexivity. Qed.
Lemma set_last_axiom_nil : set_last_axiom [] = [].
Proof. reflexivity. Qed.
Lemma list_snoc_case {A} (l : list A) : l = [] \/ exists l' a, l = l' ++ [a].
Proof.
  destruct (rev l) as [|a r] eqn:E.
  - left. rewrite <- (rev_involutive l), E. reflexivity.
  - right. exists (rev r), a. rewrite <- (rev_involutive l), E. reflexivity.
Qed.
Lemma forms_set_last_axiom l : forms (set_last_axiom l) = forms l.
Proof.
  destruct (list_snoc_case l) as [->|[l' [a ->]]]; [reflexivity|].
  rewrite set_last_axiom_snoc. unfold forms. rewrite !map_app. reflexivity.
Qed.

(* invariant of the accumulator: everything except possibly the last formula is an axiom *)
Definition seq_inv (acc : list pformula) : Prop := all_role PAxiom (set_last_axiom acc).

Lemma seq_inv_step acc c : seq_inv acc -> seq_inv (set_last_axiom acc ++ [c]).
Proof.
  unfold seq_inv. intros Hi. rewrite set_last_axiom_snoc. intros a Ha.
  apply in_app_iff in Ha. destruct Ha as [Ha|[<-|[]]]; [apply Hi, Ha|reflexivity].
Qed.
Lemma seq_inv_axioms l : all_role PAxiom l -> seq_inv l.
Proof.
  intros Hl. unfold seq_inv. destruct (list_snoc_case l) as [->|[l' [a ->]]]; [intros x []|].
  rewrite set_last_axiom_snoc. intros x Hx. apply in_app_iff in Hx.
  destruct Hx as [Hx|[<-|[]]]; [apply Hl; apply in_app_iff; auto|reflexivity].
Qed.

Definition all_valid (l : list formula) : Prop := forall f, In f l -> cvalid FI I f.
(* the first failing conjecture *)
Definition first_failure (cs : list pformula) : Prop :=
  exists cs1 c cs2, cs = cs1 ++ c :: cs2 /\ (forall x, In x cs1 -> pf_valid x) /\ ~ pf_valid c.

Lemma all_valid_forms l : all_valid (forms l) <-> (forall a, In a l -> pf_valid a).
Proof.
  unfold all_valid, forms, pf_valid. split.
  - intros Hv a Ha. apply Hv. apply in_map. exact Ha.
  - intros Hv f Hf. apply in_map_iff in Hf. destruct Hf as [a [<- Ha]]. apply Hv, Ha.
Qed.

Lemma sequential_from name : forall cs acc i, seq_inv acc -> all_role PConjecture cs ->
  refutes_some (dec_sequential_from name acc i cs) <-> all_valid (forms acc) /\ first_failure cs.
Proof.
  induction cs as [|c cs IH]; intros acc i Hinv Hcs; cbn.
  - split; [intros [p [[] _]]|]. intros [_ [cs1 [c [cs2 [E _]]]]]. destruct cs1; discriminate.
  - assert (Hc : pf_role c = PConjecture) by (apply Hcs; left; reflexivity).
    assert (Hcs' : all_role PConjecture cs) by (intros x Hx; apply Hcs; right; exact Hx).
    pose proof (seq_inv_step acc c Hinv) as Hinv'.
    assert (Hforms : forms (set_last_axiom acc ++ [c]) = forms acc ++ [pf_formula c]).
    { unfold forms. rewrite map_app. fold (forms (set_last_axiom acc)). rewrite forms_set_last_axiom. reflexivity. }
    assert (Hfirst : refutes (mkproblem (name ++ "_" ++ nat_str i) (set_last_axiom acc ++ [c])) <->
                     all_valid (forms acc) /\ ~ pf_valid c).
    { rewrite refutes_snoc; auto. rewrite <- all_valid_forms, forms_set_last_axiom. reflexivity. }
    split.
    + intros [p [[<-|Hp] Hr]].
      * apply Hfirst in Hr. destruct Hr as [Ha Hn]. split; auto.
        exists [], c, cs. split; [reflexivity|]. split; [intros x []|exact Hn].
      * destruct (proj1 (IH _ (N.succ i) Hinv' Hcs')) as [Ha [cs1 [x [cs2 [E [H1 Hn]]]]]]; [exists p; auto|].
        rewrite Hforms in Ha. split.
        -- intros f Hf. apply Ha. apply in_app_iff; auto.
        -- exists (c :: cs1), x, cs2. split; [rewrite E; reflexivity|]. split; [|exact Hn].
           intros y [<-|Hy]; [apply Ha; apply in_app_iff; right; left; reflexivity|apply H1, Hy].
    + intros [Ha [cs1 [x [cs2 [E [H1 Hn]]]]]]. destruct cs1 as [|y cs1]; cbn in E; injection E as <- ->.
      * eexists; split; [left; reflexivity|]. apply Hfirst. auto.
      * destruct (proj2 (IH (set_last_axiom acc ++ [c]) (N.succ i) Hinv' Hcs')) as [p [Hp Hr]].
        { split.
          - rewrite Hforms. intros f Hf. apply in_app_iff in Hf. destruct Hf as [Hf|[<-|[]]]; [apply Ha, Hf|].
            apply (H1 c). left; reflexivity.
          - exists cs1, x, cs2. split; [reflexivity|]. split; [|exact Hn]. intros z Hz. apply H1. right; exact Hz. }
        exists p; split; [right; exact Hp|exact Hr].
Qed.

(* excluded middle: among finitely many conjectures one of which fails there is a first one *)
Lemma first_failure_exists cs : (exists c, In c cs /\ ~ pf_valid c) <-> first_failure cs.
Proof.
  split.
  - induction cs as [|c cs IH]; intros [x [Hx Hn]]; [destruct Hx|].
    destruct (classic (pf_valid c)) as [Hv|Hv].
    + destruct Hx as [<-|Hx]; [contradiction|].
      destruct IH as [cs1 [y [cs2 [E [H1 Hy]]]]]; [exists x; auto|].
      exists (c :: cs1), y, cs2. split; [rewrite E; reflexivity|]. split; [|exact Hy].
      intros z [<-|Hz]; [exact Hv|apply H1, Hz].
    + exists [], c, cs. split; [reflexivity|]. split; [intros z []|exact Hv].
  - intros [cs1 [c [cs2 [-> [_ Hn]]]]]. exists c. split; [apply in_app_iff; right; left; reflexivity|exact Hn].
Qed.

Theorem sequential_refutes p : refutes_some (decompose_sequential p) <-> refutes p.
Proof.
  unfold decompose_sequential.
  rewrite sequential_from; [|apply seq_inv_axioms, axioms_role|apply conjectures_role].
  rewrite <- first_failure_exists, all_valid_forms. reflexivity.
Qed.

(* C19_dec *)
Theorem decompose_refutes p d : refutes_some (decompose p d) <-> refutes p.
Proof. destruct d; [apply independent_refutes|apply sequential_refutes]. Qed.
Theorem independent_sequential p :
  refutes_some (decompose_independent p) <-> refutes_some (decompose_sequential p).
Proof. rewrite independent_refutes, sequential_refutes. reflexivity. Qed.

(* families: flat_map *)
Lemma refutes_some_app l1 l2 : refutes_some (l1 ++ l2) <-> refutes_some l1 \/ refutes_some l2.
Proof.
  unfold refutes_some. split.
  - intros [p [Hp Hr]]. apply in_app_iff in Hp. destruct Hp; [left|right]; exists p; auto.
  - intros [[p [Hp Hr]]|[p [Hp Hr]]]; exists p; split; auto; apply in_app_iff; auto.
Qed.
Lemma refutes_some_flat_map_decompose ps d :
  refutes_some (flat_map (fun p => decompose p d) ps) <-> exists p, In p ps /\ refutes p.
Proof.
  induction ps as [|p ps IH]; cbn.
  - split; [intros [q [[] _]]|intros [q [[] _]]].
  - rewrite refutes_some_app, IH, decompose_refutes. split.
    + intros [Hr|[q [Hq Hr]]]; [exists p; auto|exists q; auto].
    + intros [q [[<-|Hq] Hr]]; [left; exact Hr|right; exists q; auto].
Qed.
End WithM.
