(* Proofs about Model/Prover.v (C10). *)
From Coq Require Import List Ascii String Bool Arith Lia Permutation.
Import ListNotations.
From Anthem Require Import Model.Prover.
Open Scope string_scope.
Open Scope nat_scope.

(* ---------------------------------------------------------------- strings *)

Lemma sapp_assoc (a b c : string) : (a ++ b) ++ c = a ++ (b ++ c).
Proof. induction a; cbn; congruence. Qed.
Lemma sapp_length (a b : string) : String.length (a ++ b) = String.length a + String.length b.
Proof. induction a; cbn; auto. Qed.

Lemma strip_prefix_spec p s r : strip_prefix p s = Some r <-> s = p ++ r.
Proof.
  revert s; induction p as [|a p IH]; intros s; cbn.
  - split; [intros [= ->]|intros ->]; reflexivity.
  - destruct s as [|b s]; [split; discriminate|].
    destruct (Ascii.eqb_spec a b) as [->|N].
    + rewrite IH. split; [intros ->; reflexivity|intros [= ->]; reflexivity].
    + split; [discriminate|intros [= E _]; congruence].
Qed.

Definition all_word (w : string) : Prop := forall c, In c (list_ascii_of_string w) -> is_word c = true.
(* a status word as the regex sees it: a non-empty run of [0-9A-Za-z_] *)
Definition word (w : string) : Prop := w <> "" /\ all_word w.
(* [r] does not begin with a word byte *)
Definition stops (r : string) : Prop := match r with EmptyString => True | String c _ => is_word c = false end.

Lemma span_word_spec s w r : span_word s = (w, r) -> s = w ++ r /\ all_word w /\ stops r.
Proof.
  revert w r; induction s as [|c s IH]; intros w r; cbn.
  - intros [= <- <-]. repeat split. intros c [].
  - destruct (is_word c) eqn:E.
    + destruct (span_word s) as [w' r'] eqn:Es. intros [= <- <-].
      destruct (IH _ _ eq_refl) as [-> [Hw Hs]]. repeat split; auto.
      intros d [<-|Hd]; auto.
    + intros [= <- <-]. repeat split; [intros d []|exact E].
Qed.

Lemma span_word_app w r : all_word w -> stops r -> span_word (w ++ r) = (w, r).
Proof.
  induction w as [|c w IH]; cbn; intros Hw Hs.
  - destruct r as [|d r]; cbn in *; [reflexivity|]. rewrite Hs. reflexivity.
  - rewrite (Hw c (or_introl eq_refl)). rewrite IH; auto. intros d Hd. apply Hw. right. exact Hd.
Qed.

(* ---------------------------------------------------------------- the regex, declaratively *)

(* "a well-formed status line starts at offset i of s and carries the word w" *)
Definition status_line_at (s : string) (i : nat) (w : string) : Prop :=
  exists pre post, s = pre ++ "SZS status " ++ w ++ " for " ++ post /\ String.length pre = i /\ word w.

(* "the leftmost well-formed status line of s carries the word w" *)
Definition leftmost_status_line (s : string) (w : string) : Prop :=
  exists i, status_line_at s i w /\ forall j w', status_line_at s j w' -> i <= j.

Definition no_status_line (s : string) : Prop := forall i w, ~ status_line_at s i w.

Lemma match_at_spec s w : match_at s = Some w <-> status_line_at s 0 w.
Proof.
  unfold status_line_at. split.
  - unfold match_at. destruct (strip_prefix "SZS status " s) as [r|] eqn:E1; [|discriminate].
    apply strip_prefix_spec in E1.
    destruct (span_word r) as [w0 r'] eqn:E2. apply span_word_spec in E2. destruct E2 as [-> [Hw Hs]].
    destruct w0 as [|c w0]; [discriminate|].
    destruct (strip_prefix " for " r') as [post|] eqn:E3; [|discriminate].
    apply strip_prefix_spec in E3. intros [= <-].
    exists "", post. subst. repeat split; auto. discriminate.
  - intros [pre [post [-> [L [Hne Hw]]]]]. destruct pre; [|discriminate].
    change (match_at ("SZS status " ++ (w ++ " for " ++ post)) = Some w). unfold match_at.
    assert (E1 : strip_prefix "SZS status " ("SZS status " ++ (w ++ " for " ++ post)) = Some (w ++ " for " ++ post))
      by (apply strip_prefix_spec; reflexivity).
    rewrite E1. rewrite (span_word_app w (" for " ++ post) Hw); [|reflexivity].
    destruct w; [congruence|].
    assert (E3 : strip_prefix " for " (" for " ++ post) = Some post) by (apply strip_prefix_spec; reflexivity).
    rewrite E3. reflexivity.
Qed.

Lemma status_line_shift c s i w : status_line_at (String c s) (S i) w <-> status_line_at s i w.
Proof.
  unfold status_line_at. split.
  - intros [pre [post [E [L W]]]]. destruct pre as [|d pre]; [discriminate|]. cbn in E, L.
    inversion E; subst. exists pre, post. repeat split; auto. apply W. apply W.
  - intros [pre [post [-> [L W]]]]. exists (String c pre), post. cbn. repeat split; auto; apply W.
Qed.

(* at a given offset the carried word is unique *)
Lemma status_line_word_unique s i w w' : status_line_at s i w -> status_line_at s i w' -> w = w'.
Proof.
  revert s; induction i as [|i IH]; intros s H H'.
  - apply match_at_spec in H, H'. congruence.
  - destruct s as [|c s].
    + destruct H as [pre [post [E [L _]]]]. destruct pre; [discriminate L|discriminate E].
    + apply (proj1 (status_line_shift _ _ _ _)) in H. apply (proj1 (status_line_shift _ _ _ _)) in H'. eauto.
Qed.

Lemma find_status_some s w : find_status s = Some w -> leftmost_status_line s w.
Proof.
  revert w; induction s as [|c s IH]; intros w; cbn [find_status].
  - destruct (match_at "") eqn:E; [|discriminate]. intros [= ->].
    exists 0. split; [apply match_at_spec; exact E|intros; lia].
  - destruct (match_at (String c s)) as [w0|] eqn:E.
    + intros [= ->]. exists 0. split; [apply match_at_spec; exact E|intros; lia].
    + intros H. destruct (IH _ H) as [i [Hi Hmin]]. exists (S i). split; [apply (proj2 (status_line_shift _ _ _ _)); exact Hi|].
      intros j w' Hj. destruct j as [|j].
      * apply match_at_spec in Hj. congruence.
      * apply (proj1 (status_line_shift _ _ _ _)) in Hj. apply Hmin in Hj. lia.
Qed.

Lemma find_status_none s : find_status s = None -> no_status_line s.
Proof.
  induction s as [|c s IH]; cbn [find_status].
  - destruct (match_at "") eqn:E; [discriminate|]. intros _ i w H.
    destruct i; [apply match_at_spec in H; congruence|].
    destruct H as [pre [post [E' [L _]]]]. destruct pre; [discriminate L|discriminate E'].
  - destruct (match_at (String c s)) eqn:E; [discriminate|]. intros H i w Hi.
    destruct i; [apply match_at_spec in Hi; congruence|].
    apply (proj1 (status_line_shift _ _ _ _)) in Hi. exact (IH H _ _ Hi).
Qed.

Lemma leftmost_unique s w w' : leftmost_status_line s w -> leftmost_status_line s w' -> w = w'.
Proof.
  intros [i [Hi Mi]] [j [Hj Mj]]. pose proof (Mi _ _ Hj). pose proof (Mj _ _ Hi).
  assert (i = j) by lia. subst. eapply status_line_word_unique; eauto.
Qed.

Theorem find_status_iff s w : find_status s = Some w <-> leftmost_status_line s w.
Proof.
  split; [apply find_status_some|].
  intros H. destruct (find_status s) as [w0|] eqn:E.
  - f_equal. eapply leftmost_unique; [apply find_status_some; exact E|exact H].
  - destruct H as [i [Hi _]]. exfalso. exact (find_status_none _ E _ _ Hi).
Qed.

Theorem find_status_none_iff s : find_status s = None <-> no_status_line s.
Proof.
  split; [apply find_status_none|].
  intros H. destruct (find_status s) as [w|] eqn:E; [|reflexivity].
  apply find_status_some in E. destruct E as [i [Hi _]]. exfalso. exact (H _ _ Hi).
Qed.

Lemma status_of_word_theorem w : status_of_word w = Some StTheorem <-> w = "Theorem".
Proof.
  unfold status_of_word, status_table. cbn [assoc_status].
  destruct (String.eqb_spec w "Theorem") as [->|N]; [tauto|].
  repeat match goal with |- context [String.eqb w ?k] => destruct (String.eqb w k) end;
    split; intros H; try discriminate; contradiction.
Qed.

(* the table is the inverse of Display for Status *)
Lemma status_of_word_iff w st : status_of_word w = Some st <-> w = status_word st.
Proof.
  unfold status_of_word, status_table. cbn [assoc_status]. split.
  - repeat match goal with |- context [String.eqb w ?k] => destruct (String.eqb_spec w k) as [->|?] end;
      intros [= <-]; reflexivity.
  - intros ->. destruct st; reflexivity.
Qed.

Theorem status_theorem_iff s : status_of_stdout s = SOk StTheorem <-> leftmost_status_line s "Theorem".
Proof.
  unfold status_of_stdout. split.
  - destruct (find_status s) as [w|] eqn:E; [|discriminate].
    destruct (status_of_word w) as [st|] eqn:Ew; [|discriminate]. intros [= ->].
    apply status_of_word_theorem in Ew. subst. apply find_status_iff. exact E.
  - intros H. apply find_status_iff in H. rewrite H. reflexivity.
Qed.

(* full characterisation of the three kinds of answers *)
Theorem status_ok_iff s st : status_of_stdout s = SOk st <-> leftmost_status_line s (status_word st).
Proof.
  unfold status_of_stdout. split.
  - destruct (find_status s) as [w|] eqn:E; [|discriminate].
    destruct (status_of_word w) as [st'|] eqn:Ew; [|discriminate]. intros [= ->].
    apply status_of_word_iff in Ew. subst. apply find_status_iff. exact E.
  - intros H. apply find_status_iff in H. rewrite H.
    rewrite (proj2 (status_of_word_iff _ st) eq_refl). reflexivity.
Qed.
Theorem status_missing_iff s : status_of_stdout s = SMissing <-> no_status_line s.
Proof.
  unfold status_of_stdout. rewrite <- find_status_none_iff.
  destruct (find_status s) as [w|]; [|tauto]. destruct (status_of_word w); split; discriminate.
Qed.
Theorem status_unknown_iff s w :
  status_of_stdout s = SUnknown w <-> leftmost_status_line s w /\ forall st, w <> status_word st.
Proof.
  unfold status_of_stdout. split.
  - destruct (find_status s) as [w0|] eqn:E; [|discriminate].
    destruct (status_of_word w0) as [st'|] eqn:Ew; [discriminate|]. intros [= ->].
    split; [apply find_status_iff; exact E|]. intros st ->.
    rewrite (proj2 (status_of_word_iff _ st) eq_refl) in Ew. discriminate.
  - intros [H N]. apply find_status_iff in H. rewrite H.
    destruct (status_of_word w) as [st|] eqn:Ew; [|reflexivity].
    apply status_of_word_iff in Ew. destruct (N _ Ew).
Qed.

(* status parsing is total (C16): a value of the three-way result type for every byte string *)
Theorem status_of_stdout_total s :
  (exists st, status_of_stdout s = SOk st) \/ status_of_stdout s = SMissing \/ exists w, status_of_stdout s = SUnknown w.
Proof. destruct (status_of_stdout s); eauto. Qed.

(* ---------------------------------------------------------------- verdict *)

Lemma fold_step_success rs s :
  success (fold_left step rs s) = success s && forallb is_theorem rs.
Proof.
  revert s; induction rs as [|r rs IH]; intros s; cbn.
  - now rewrite andb_true_r.
  - rewrite IH. cbn. now rewrite andb_assoc.
Qed.
Lemma fold_step_received rs s :
  received (fold_left step rs s) = received s + List.length rs.
Proof.
  revert s; induction rs as [|r rs IH]; intros s; cbn; [lia|]. rewrite IH. cbn. lia.
Qed.

Lemma verdict_eq rs n : verdict rs n = forallb is_theorem rs && (List.length rs =? n).
Proof.
  unfold verdict, finish. rewrite fold_step_success, fold_step_received. reflexivity.
Qed.

Theorem verdict_iff rs n :
  verdict rs n = true <-> List.length rs = n /\ Forall (fun r => is_theorem r = true) rs.
Proof.
  rewrite verdict_eq, andb_true_iff, forallb_forall, Nat.eqb_eq, Forall_forall. tauto.
Qed.

Theorem verdict_perm rs rs' n : Permutation rs rs' -> verdict rs n = verdict rs' n.
Proof.
  intros P. rewrite !verdict_eq. rewrite (Permutation_length P). f_equal.
  destruct (forallb is_theorem rs) eqn:E, (forallb is_theorem rs') eqn:E'; auto.
  - rewrite forallb_forall in E. assert (forallb is_theorem rs' = true).
    { apply forallb_forall. intros x Hx. apply E. eapply Permutation_in; [symmetry; exact P|exact Hx]. }
    congruence.
  - rewrite forallb_forall in E'. assert (forallb is_theorem rs = true).
    { apply forallb_forall. intros x Hx. apply E'. eapply Permutation_in; [exact P|exact Hx]. }
    congruence.
Qed.

(* exactly which results count as proven *)
Theorem is_theorem_iff r : is_theorem r = true <-> r = Reported (SOk StTheorem).
Proof. destruct r as [[[]| |]|]; cbn; split; intros H; try discriminate; auto. Qed.

(* the failure cases of the property text *)
Theorem prove_failures :
  forall o, is_theorem (prove o) = true ->
  exists out err code, o = Exited out err code /\ utf8_valid out = true /\ utf8_valid err = true /\
                       leftmost_status_line out "Theorem".
Proof.
  intros o. destruct o as [| | |out err code]; cbn; try discriminate.
  destruct (utf8_valid out) eqn:U1; [|discriminate]. destruct (utf8_valid err) eqn:U2; [|discriminate].
  intros H. apply is_theorem_iff in H. injection H as H. apply status_theorem_iff in H.
  exists out, err, code. auto.
Qed.

(* ---------------------------------------------------------------- fan-in *)

Lemma msgs_from_snd i ws : map snd (msgs_from i ws) = flat_map (fun w => match w with Some r => [r] | None => [] end) ws.
Proof. revert i; induction ws as [|[r|] ws IH]; intros i; cbn; [reflexivity| |]; rewrite IH; reflexivity. Qed.

Lemma msgs_from_fst i ws k r : In (k, r) (msgs_from i ws) <-> i <= k /\ nth_error ws (k - i) = Some (Some r).
Proof.
  revert i; induction ws as [|w ws IH]; intros i; cbn [msgs_from].
  - split; [intros []|]. intros [_ H]. destruct (k - i); discriminate.
  - assert (Hrec : In (k, r) (msgs_from (S i) ws) <-> i <= k /\ k <> i /\ nth_error (w :: ws) (k - i) = Some (Some r)).
    { rewrite IH. split.
      - intros [L H]. repeat split; try lia. replace (k - i) with (S (k - S i)) by lia. exact H.
      - intros [L [N H]]. split; [lia|]. replace (k - i) with (S (k - S i)) in H by lia. exact H. }
    destruct w as [r0|].
    + cbn [In]. rewrite Hrec. split.
      * intros [[= <- <-]|[L [N H]]]; [split; [lia|rewrite Nat.sub_diag; reflexivity]|auto].
      * intros [L H]. destruct (Nat.eq_dec k i) as [->|N]; [|right; auto].
        rewrite Nat.sub_diag in H. cbn in H. left. congruence.
    + rewrite Hrec. split; [intros [L [N H]]; auto|]. intros [L H].
      destruct (Nat.eq_dec k i) as [->|N]; [|auto]. rewrite Nat.sub_diag in H. discriminate.
Qed.

Lemma flat_opt_all ws :
  List.length (flat_map (fun w : option run_result => match w with Some r => [r] | None => [] end) ws) = List.length ws /\
  Forall (fun r => is_theorem r = true) (flat_map (fun w => match w with Some r => [r] | None => [] end) ws)
  <-> Forall (fun w => exists r, w = Some r /\ is_theorem r = true) ws.
Proof.
  assert (Hle : forall l : list (option run_result),
             List.length (flat_map (fun w => match w with Some r => [r] | None => [] end) l) <= List.length l).
  { induction l as [|[|] l IH]; cbn; lia. }
  induction ws as [|w ws IH]; cbn.
  - split; [constructor|split; [reflexivity|constructor]].
  - destruct w as [r|]; cbn.
    + split.
      * intros [L F]. inversion F; subst. constructor; [eauto|]. apply IH. split; [lia|assumption].
      * intros F. inversion F as [|? ? Hd F']; subst. destruct Hd as [r' [E T]]. injection E as E. subst r'.
        apply IH in F'. destruct F' as [L F']. split; [lia|constructor; assumption].
    + split.
      * intros [L _]. specialize (Hle ws). lia.
      * intros F. inversion F as [|? ? Hd F']; subst. destruct Hd as [r' [E _]]. discriminate E.
Qed.

(* every schedule: the receiving loop sees the messages that are ever sent, each once, in any order *)
Theorem fan_in_iff (ws : list (option run_result)) (sched : list event) :
  Permutation sched (msgs ws) ->
  (fan_in sched (List.length ws) = true <->
   Forall (fun w => exists r, w = Some r /\ is_theorem r = true) ws).
Proof.
  intros P. unfold fan_in.
  rewrite (verdict_perm _ _ _ (Permutation_map snd P)). unfold msgs. rewrite msgs_from_snd.
  rewrite verdict_iff. apply flat_opt_all.
Qed.

Lemma nodup_fst_fun {A} (l : list (nat * A)) k r r' :
  NoDup (map fst l) -> In (k, r) l -> In (k, r') l -> r = r'.
Proof.
  induction l as [|[k0 r0] l IH]; cbn; [tauto|]. intros ND H H'. inversion ND as [|? ? Hn ND']; subst.
  destruct H as [H|H], H' as [H'|H'].
  - congruence.
  - inversion H; subst. exfalso. apply Hn. apply (in_map fst) in H'. exact H'.
  - inversion H'; subst. exfalso. apply Hn. apply (in_map fst) in H. exact H.
  - eauto.
Qed.

(* the same without naming the workers' fates: any sequence of arrivals in which no problem
   reports twice and only submitted problems report *)
Theorem fan_in_exactly_once (n : nat) (evs : list event) :
  NoDup (map fst evs) -> (forall e, In e evs -> fst e < n) ->
  (fan_in evs n = true <-> forall k, k < n -> exists r, In (k, r) evs /\ is_theorem r = true).
Proof.
  intros ND R. unfold fan_in. rewrite verdict_iff, map_length. split.
  - intros [L F] k Hk.
    assert (Hin : In k (map fst evs)).
    { assert (I : incl (map fst evs) (seq 0 n)).
      { intros x Hx. apply in_map_iff in Hx. destruct Hx as [e [<- He]]. apply in_seq. specialize (R _ He). lia. }
      apply (@NoDup_length_incl _ (map fst evs) (seq 0 n) ND); [rewrite map_length, seq_length; lia|exact I|].
      apply in_seq. lia. }
    apply in_map_iff in Hin. destruct Hin as [[k' r] [E He]]. cbn in E. subst k'.
    exists r. split; [exact He|]. rewrite Forall_forall in F. apply F. apply (in_map snd) in He. exact He.
  - intros H. split.
    + assert (I1 : incl (seq 0 n) (map fst evs)).
      { intros k Hk. apply in_seq in Hk. destruct (H k) as [r [Hr _]]; [lia|]. apply (in_map fst) in Hr. exact Hr. }
      assert (I2 : incl (map fst evs) (seq 0 n)).
      { intros x Hx. apply in_map_iff in Hx. destruct Hx as [e [<- He]]. apply in_seq. specialize (R _ He). lia. }
      pose proof (NoDup_incl_length (seq_NoDup n 0) I1) as L1.
      pose proof (NoDup_incl_length ND I2) as L2.
      rewrite seq_length, map_length in *. lia.
    + apply Forall_forall. intros r Hr. apply in_map_iff in Hr. destruct Hr as [[k r'] [E He]]. cbn in E. subst r'.
      destruct (H k) as [r' [Hr' T]]; [exact (R _ He)|].
      rewrite (nodup_fst_fun _ _ _ _ ND He Hr'). exact T.
Qed.

(* a worker that dies makes the verdict Failure, whatever the others deliver (the repaired F10) *)
Corollary fan_in_dead_worker ws sched :
  Permutation sched (msgs ws) -> In None ws -> fan_in sched (List.length ws) = false.
Proof.
  intros P H. destruct (fan_in sched (List.length ws)) eqn:E; [|reflexivity].
  apply (fan_in_iff _ _ P) in E. rewrite Forall_forall in E. destruct (E _ H) as [r [D _]]. discriminate.
Qed.

(* instances == 1 is the schedule "in submission order" *)
Theorem sequential_iff os :
  sequential os = true <-> Forall (fun o => is_theorem (prove o) = true) os.
Proof.
  unfold sequential. rewrite verdict_iff, map_length, Forall_map. tauto.
Qed.
