(* C02 and the output predicates that occur on NEITHER side of a task (/repo 18b2e85).

   Since 18b2e85 `theory_translate` gives the empty completed definition only to the missing output
   predicates that occur in the task; a declared output predicate that occurs in no program of the
   task is mentioned by no emitted formula.  Whether an interpretation M refutes a problem therefore
   does not depend on M's extent on such a predicate, and the vocabulary on which external stability
   is read ([C02Full.ext_voc]) leaves it out: M is judged on the predicates of the program, the
   inputs and the output predicates that occur on some side.

   This file relates that reading to the one with ALL public predicates in the vocabulary
   ([ext_voc_public], the definition of ext_voc between the audit (A4) and 18b2e85):

     ext_stable_public_iff        the two readings coincide on every interpretation that is empty
                                  on the unused output predicates
     ext_stable_public_unused     an external stable model in the public reading IS empty on them
     countermodel_sound_public    C02_countermodel_sound in the public reading, for interpretations
                                  empty on the unused output predicates (without that hypothesis it
                                  is false: add an atom of an unused output predicate to a
                                  countermodel - it still refutes, and is a stable model of nothing)
     countermodel_complete_public, external_equivalence_public
                                  the converse and the iff "some interpretation refutes a problem
                                  iff the programs differ in external behaviour" hold verbatim in
                                  the public reading: nothing was lost by the change of vocabulary. *)
From Coq Require Import List Ascii String ZArith NArith Bool Lia Classical_Prop.
From Anthem Require Import Base.ISet Syntax.Fol Syntax.Asp Sem.Domain Sem.Sat Sem.AspRef
  Model.Problem Model.Outline Model.Strong Model.External Model.Tightness Model.PrivRec Model.TauStar
  Model.Completion Model.ExternalFull
  Proofs.ExtendAll Proofs.SemBase Proofs.DecomposeOk Proofs.StrongOk Proofs.ExternalOk Proofs.AssemblyOk Proofs.RenameOk
  Proofs.TightnessOk Proofs.TauStarClassical Proofs.CompletionOk Proofs.FagesBridge Proofs.PlaceholderOk
  Proofs.PrivateUnique Proofs.C19Ext Proofs.C02Ok Proofs.C02Full Proofs.HeadPred Proofs.HeadPredPipeline Proofs.C02Priv
  Proofs.C02Behaviour Proofs.C02Complete.
Import ListNotations.
Open Scope string_scope.
Open Scope list_scope.

(* ---------- the reference semantics respects extensional equality of interpretations ---------- *)
Definition pequiv (A B : pint) : Prop := forall p a, A p a <-> B p a.

Lemma bformula_sat_ext W W' T T' sg b : pequiv W W' -> pequiv T T' -> bformula_sat W T sg b -> bformula_sat W' T' sg b.
Proof.
  intros HW HT. destruct b as [[[| |] a]|c]; cbn; auto.
  - intros [vs [Hv H]]. exists vs. split; [exact Hv|apply HW; exact H].
  - intros [vs [Hv H]]. exists vs. split; [exact Hv|]. intros H'. apply H, HT, H'.
  - intros [vs [Hv H]]. exists vs. split; [exact Hv|]. intros H'. apply H. intros H''. apply H', HT, H''.
Qed.
Lemma body_sat_ext W W' T T' sg b : pequiv W W' -> pequiv T T' -> body_sat W T sg b -> body_sat W' T' sg b.
Proof. intros HW HT H. unfold body_sat in *. eapply Forall_impl; [|exact H]. intros x. apply bformula_sat_ext; assumption. Qed.
Lemma head_sat_ext W W' T T' sg h : pequiv W W' -> pequiv T T' -> head_sat W T sg h -> head_sat W' T' sg h.
Proof.
  intros HW HT. destruct h as [a|a|]; cbn; auto.
  - intros H vs Hv. apply HW, H, Hv.
  - intros H vs Hv. destruct (H vs Hv) as [H1|H1]; [left; apply HW, H1|right; intros H2; apply H1, HT, H2].
Qed.
Lemma pequiv_sym A B : pequiv A B -> pequiv B A.
Proof. intros H p a. symmetry. apply H. Qed.
Lemma ref_sat_ext H H' T T' P : pequiv H H' -> pequiv T T' -> ref_sat H T P -> ref_sat H' T' P.
Proof.
  intros HH HT Hs r Hr sg. destruct (Hs r Hr sg) as [H1 H2]. split; intros Hb.
  - apply (head_sat_ext H H' T T'); auto. apply H1. apply (body_sat_ext H' H T' T); auto using pequiv_sym.
  - apply (head_sat_ext T T' T T'); auto. apply H2. apply (body_sat_ext T' T T' T); auto using pequiv_sym.
Qed.
Theorem stable_ext T T' P F F' : pequiv T T' -> pequiv F F' -> stable T P F -> stable T' P F'.
Proof.
  intros HT HF [[Hs Hf] Hmin]. split; [split|].
  - apply (ref_sat_ext T T' T T'); auto.
  - intros p a H. apply HT, Hf, HF, H.
  - intros H Hsub Href Hfacts p a Hp. apply (Hmin H).
    + intros q d Hq. apply HT, Hsub, Hq.
    + apply (ref_sat_ext H H T' T); auto using pequiv_sym. intros q d; tauto.
    + intros q d Hq. apply Hfacts, HF, Hq.
    + apply HT, Hp.
Qed.

(* ---------- the two vocabularies ---------- *)
(* M is empty on every declared output predicate that occurs on neither side of the task *)
Definition unused_outputs_empty (t : ext_task) (M : pint) : Prop :=
  forall q, In q (ug_output_predicates (et_user_guide t)) -> ~ In q (task_occurring_predicates t) ->
            forall d, List.length d = parity q -> ~ M (psym q) d.

(* external stability read on the predicates of P and ALL public predicates of the user guide *)
Definition ext_stable_public (t : ext_task) (FI : fint) (M : pint) (P : program) : Prop :=
  stable (restrict (ext_voc_public t P) M)
         (ph_program FI (task_placeholders t) P)
         (input_facts (restrict (ext_voc_public t P) M) (task_inputs t)).

Lemma restrict_public_iff t P M : unused_outputs_empty t M ->
  pequiv (restrict (ext_voc_public t P) M) (restrict (ext_voc t P) M).
Proof.
  intros He p d. unfold restrict. split; intros [HM Hin]; (split; [exact HM|]).
  - apply in_ext_voc_public in Hin. apply in_ext_voc. destruct Hin as [Hin|[Hin|Hin]]; [tauto|tauto|].
    right. right. split; [exact Hin|].
    destruct (in_dec pred_dec (mkpred p (List.length d)) (task_occurring_predicates t)) as [Ho|Ho]; [exact Ho|].
    exfalso. exact (He _ Hin Ho d eq_refl HM).
  - apply ext_voc_incl_public. exact Hin.
Qed.

Theorem ext_stable_public_iff t FI M P :
  unused_outputs_empty t M -> (ext_stable_public t FI M P <-> ext_stable_full t FI M P).
Proof.
  intros He. pose proof (restrict_public_iff t P M He) as Hr.
  assert (Hf : pequiv (input_facts (restrict (ext_voc_public t P) M) (task_inputs t))
                      (input_facts (restrict (ext_voc t P) M) (task_inputs t))).
  { intros p d. unfold input_facts. rewrite (Hr p d). reflexivity. }
  unfold ext_stable_public, ext_stable_full. split; apply stable_ext; auto using pequiv_sym.
Qed.

(* an external stable model in the public reading is empty on the unused output predicates (they
   head no rule and are not inputs) *)
Theorem ext_stable_public_unused t FI M P :
  c_io_disjoint t = true -> incl (program_preds P) (task_occurring_predicates t) ->
  ext_stable_public t FI M P -> unused_outputs_empty t M.
Proof.
  intros Hio HP Hst q Hq Hno d Hd HM. apply c_io_disjoint_spec in Hio. destruct q as [p n]. cbn in *. subst n.
  apply (stable_nonhead_empty _ _ _ p d Hst).
  - intros r' Hr' Hh. destruct (ph_in_heads FI _ P r' _ Hr' Hh) as [r [Hr Hh']].
    apply Hno, HP. apply in_program_preds. exists r. split; [exact Hr|]. apply in_rule_preds. left. exact Hh'.
  - intros [_ Hin]. exact (Hio _ Hin Hq).
  - split; [exact HM|]. apply in_ext_voc_public. right. right. exact Hq.
Qed.
Corollary ext_stable_public_full t FI M P :
  c_io_disjoint t = true -> incl (program_preds P) (task_occurring_predicates t) ->
  ext_stable_public t FI M P -> ext_stable_full t FI M P.
Proof.
  intros Hio HP Hst. apply (ext_stable_public_iff t FI M P); [|exact Hst].
  exact (ext_stable_public_unused t FI M P Hio HP Hst).
Qed.

(* ---------- the task-level theorems in the public reading ---------- *)
Section Public.
Variable fuel : nat.
Notation translate := (theory_translate tau_star_total completion (simp_classic_total fuel)).
Notation tl := (task_left tau_star_total completion (simp_classic_total fuel)).
Notation tr := (task_right tau_star_total completion (simp_classic_total fuel)).
Notation ug_assumptions t :=
  (map (fun a => rp_formula (task_placeholders t) (an_formula a)) (filter is_assumption (ug_formulas (et_user_guide t)))).

Definition behavioural_difference_public (t : ext_task) (L : program) (FI : fint) (T : pint) : Prop :=
  tvalid FI T (ug_assumptions t) /\
  ((dir_forward (et_direction t) = true /\ ext_stable_public t FI T L /\
    ~ exists N, pub_agree t N T /\ ext_stable_public t FI N (et_program t)) \/
   (dir_backward (et_direction t) = true /\ ext_stable_public t FI T (et_program t) /\
    ~ exists N, pub_agree t N T /\ ext_stable_public t FI N L)).

Lemma accepted_io_disjoint t w pbs : external_decompose_full fuel t = XOk w pbs -> c_io_disjoint t = true.
Proof.
  intros Hfull. destruct (full_ok_inv fuel t w pbs Hfull) as [[w0 Hv] _].
  destruct (validate_conditions _ _ t w0 Hv) as [_ [_ [_ [Hio _]]]]. exact Hio.
Qed.

Lemma pub_agree_unused t N T : pub_agree t N T -> unused_outputs_empty t T -> unused_outputs_empty t N.
Proof.
  intros Hpub He q Hq Hno d Hd HN. apply (He q Hq Hno d Hd). apply (Hpub q); [|exact Hd|exact HN].
  unfold ug_public_predicates. apply (in_iset_extend pred_dec). right. exact Hq.
Qed.

Lemma reindex_unused t M : unused_outputs_empty t M -> unused_outputs_empty t (reindex (task_mapping t) M).
Proof.
  intros He q Hq Hno d Hd. unfold reindex. destruct q as [p n]. cbn in *. subst n.
  rewrite (mapping_public t p (List.length d)).
  - exact (He _ Hq Hno d eq_refl).
  - unfold ug_public_predicates. apply (in_iset_extend pred_dec). right. exact Hq.
Qed.

(* a behavioural difference in the public reading is one in the reading of ext_voc (same T) *)
Lemma difference_public_full t L FI T :
  et_specification t = inl L -> c_io_disjoint t = true ->
  behavioural_difference_public t L FI T -> behavioural_difference t L FI T.
Proof.
  intros Hs Hio [Hug Hd]. split; [exact Hug|].
  pose proof (spec_program_occurring t L Hs) as HL. pose proof (program_occurring t) as HR.
  destruct Hd as [[Hd [H1 H2]]|[Hd [H1 H2]]]; [left|right]; (split; [exact Hd|]).
  - pose proof (ext_stable_public_unused t FI T L Hio HL H1) as He.
    split; [apply (ext_stable_public_iff t FI T L He); exact H1|].
    intros [N [HN1 HN2]]. apply H2. exists N. split; [exact HN1|].
    apply (ext_stable_public_iff t FI N _ (pub_agree_unused t N T HN1 He)). exact HN2.
  - pose proof (ext_stable_public_unused t FI T _ Hio HR H1) as He.
    split; [apply (ext_stable_public_iff t FI T _ He); exact H1|].
    intros [N [HN1 HN2]]. apply H2. exists N. split; [exact HN1|].
    apply (ext_stable_public_iff t FI N _ (pub_agree_unused t N T HN1 He)). exact HN2.
Qed.

(* soundness of countermodels in the public reading: for interpretations that are empty on the
   unused output predicates *)
Theorem countermodel_sound_public t L w pbs lft rgt :
  et_specification t = inl L -> et_proof_outline t = [] ->
  external_decompose_full fuel t = XOk w pbs ->
  is_tight L = true -> is_tight (et_program t) = true ->
  tl t L = Some lft -> tr t = Some rgt ->
  (forall vt, task_validated tau_star_total completion (simp_classic_total fuel) t = Some vt -> validated_no_clash vt) ->
  forall FI M,
    unused_outputs_empty t M ->
    refutes_some FI M pbs ->
    (dir_forward (et_direction t) = true /\
     ext_stable_public t FI M L /\
     ~ exists N, pub_agree t N (reindex (task_mapping t) M) /\ ext_stable_public t FI N (et_program t)) \/
    (dir_backward (et_direction t) = true /\
     ext_stable_public t FI (reindex (task_mapping t) M) (et_program t) /\
     ~ exists N, pub_agree t N M /\ ext_stable_public t FI N L).
Proof.
  intros Hs Ho Hfull HtL HtR El Er Hn FI M He Href.
  pose proof (accepted_io_disjoint t w pbs Hfull) as Hio.
  pose proof (spec_program_occurring t L Hs) as HL. pose proof (program_occurring t) as HR.
  destruct (C02_countermodel_proof fuel t L w pbs lft rgt Hs Ho Hfull HtL HtR El Er Hn FI M Href)
    as [[Hd [H1 H2]]|[Hd [H1 H2]]]; [left|right]; (split; [exact Hd|]).
  - split; [apply (ext_stable_public_iff t FI M L He); exact H1|].
    intros [N [HN1 HN2]]. apply H2. exists N. split; [exact HN1|].
    exact (ext_stable_public_full t FI N _ Hio HR HN2).
  - split; [apply (ext_stable_public_iff t FI _ _ (reindex_unused t M He)); exact H1|].
    intros [N [HN1 HN2]]. apply H2. exists N. split; [exact HN1|].
    exact (ext_stable_public_full t FI N L Hio HL HN2).
Qed.

(* completeness of countermodels in the public reading: verbatim *)
Theorem countermodel_complete_public t L w pbs lft rgt :
  et_specification t = inl L -> et_proof_outline t = [] ->
  external_decompose_full fuel t = XOk w pbs ->
  is_tight L = true -> is_tight (et_program t) = true ->
  tl t L = Some lft -> tr t = Some rgt ->
  (forall vt, task_validated tau_star_total completion (simp_classic_total fuel) t = Some vt -> validated_no_clash vt) ->
  rename_faithful t L -> ug_over_inputs t ->
  forall FI T, behavioural_difference_public t L FI T -> exists M, pub_agree t M T /\ refutes_some FI M pbs.
Proof.
  intros Hs Ho Hfull HtL HtR El Er Hn Hrf Hov FI T HT.
  apply (countermodel_complete fuel t L w pbs lft rgt Hs Ho Hfull HtL HtR El Er Hn Hrf Hov FI T).
  exact (difference_public_full t L FI T Hs (accepted_io_disjoint t w pbs Hfull) HT).
Qed.

(* from a behavioural difference in the reading of ext_voc to one in the public reading: empty T
   on the unused output predicates *)
Definition unusedb (t : ext_task) (p : string) (n : nat) : bool :=
  memb pred_dec (mkpred p n) (ug_output_predicates (et_user_guide t))
  && negb (memb pred_dec (mkpred p n) (task_occurring_predicates t)).
Lemma unusedb_spec t p n :
  unusedb t p n = true <->
  In (mkpred p n) (ug_output_predicates (et_user_guide t)) /\ ~ In (mkpred p n) (task_occurring_predicates t).
Proof.
  unfold unusedb. rewrite andb_true_iff, negb_true_iff.
  destruct (memb_spec pred_dec (mkpred p n) (ug_output_predicates (et_user_guide t)));
    destruct (memb_spec pred_dec (mkpred p n) (task_occurring_predicates t)); intuition congruence.
Qed.
Definition drop_unused (t : ext_task) (T : pint) : pint :=
  fun p d => T p d /\ unusedb t p (List.length d) = false.
(* N outside the unused output predicates, T on them *)
Definition patch_unused (t : ext_task) (N T : pint) : pint :=
  fun p d => if unusedb t p (List.length d) then T p d else N p d.

Lemma drop_unused_empty t T : unused_outputs_empty t (drop_unused t T).
Proof.
  intros [p n] Hq Hno d Hd [_ H]. cbn in *. subst n.
  assert (Hu : unusedb t p (List.length d) = true) by (apply unusedb_spec; auto). congruence.
Qed.
(* the vocabulary of a program of the task contains no unused output predicate *)
Lemma ext_voc_not_unused t P p n :
  c_io_disjoint t = true -> incl (program_preds P) (task_occurring_predicates t) ->
  In (mkpred p n) (ext_voc t P) -> unusedb t p n = false.
Proof.
  intros Hio HP Hin. apply c_io_disjoint_spec in Hio.
  destruct (unusedb t p n) eqn:E; [|reflexivity]. exfalso. apply unusedb_spec in E. destruct E as [Ho Hno].
  apply in_ext_voc in Hin. destruct Hin as [Hin|[Hin|[_ Hin]]].
  - exact (Hno (HP _ Hin)).
  - exact (Hio _ Hin Ho).
  - exact (Hno Hin).
Qed.
Lemma drop_unused_pagree t P T :
  c_io_disjoint t = true -> incl (program_preds P) (task_occurring_predicates t) ->
  pagree (ext_voc t P) (drop_unused t T) T.
Proof.
  intros Hio HP p a Hin. unfold drop_unused. rewrite (ext_voc_not_unused t P p _ Hio HP Hin). tauto.
Qed.
Lemma patch_unused_pagree t P N T :
  c_io_disjoint t = true -> incl (program_preds P) (task_occurring_predicates t) ->
  pagree (ext_voc t P) (patch_unused t N T) N.
Proof.
  intros Hio HP p a Hin. unfold patch_unused. rewrite (ext_voc_not_unused t P p _ Hio HP Hin). tauto.
Qed.
Lemma patch_unused_pub t N T : pub_agree t N (drop_unused t T) -> pub_agree t (patch_unused t N T) T.
Proof.
  intros Hpub q Hq d Hd. destruct q as [p n]. cbn in *. subst n. unfold patch_unused.
  destruct (unusedb t p (List.length d)) eqn:E; [reflexivity|].
  rewrite (Hpub _ Hq d eq_refl). unfold drop_unused. cbn [psym]. rewrite E. tauto.
Qed.

Lemma difference_full_public t L w pbs lft rgt :
  et_specification t = inl L ->
  external_decompose_full fuel t = XOk w pbs ->
  is_tight L = true -> is_tight (et_program t) = true ->
  tl t L = Some lft -> tr t = Some rgt ->
  ug_over_inputs t ->
  forall FI T, behavioural_difference t L FI T -> behavioural_difference_public t L FI (drop_unused t T).
Proof.
  intros Hs Hfull HtL HtR El Er Hov FI T [Hug Hd].
  pose proof (accepted_io_disjoint t w pbs Hfull) as Hio.
  pose proof (spec_program_occurring t L Hs) as HL. pose proof (program_occurring t) as HR.
  destruct (full_ok_inv fuel t w pbs Hfull) as [[w0 Hv] [_ [[GR HGR] HGL]]].
  destruct (HGL L Hs) as [GL HGL'].
  destruct (validate_conditions _ _ t w0 Hv) as [_ [_ [Hhead _]]].
  unfold c_no_input_in_head in Hhead. rewrite Hs in Hhead. apply andb_true_iff in Hhead. destruct Hhead as [HhR HhL].
  unfold task_left in El. destruct (translate t (task_placeholders t) L) as [thl|] eqn:Etl; [|discriminate].
  unfold task_right in Er. destruct (translate t (task_placeholders t) (et_program t)) as [thr|] eqn:Etr; [|discriminate].
  pose proof (drop_unused_empty t T) as He.
  assert (PL : forall N1 N2, pagree (ext_voc t L) N1 N2 -> (ext_stable_full t FI N1 L <-> ext_stable_full t FI N2 L)).
  { intros N1 N2. apply (ext_stable_pagree fuel t L GL thl FI N1 N2 HtL (no_input_in_head t L HhL) Hio HGL' Etl). }
  assert (PR : forall N1 N2, pagree (ext_voc t (et_program t)) N1 N2 ->
                 (ext_stable_full t FI N1 (et_program t) <-> ext_stable_full t FI N2 (et_program t))).
  { intros N1 N2. apply (ext_stable_pagree fuel t _ GR thr FI N1 N2 HtR (no_input_in_head t _ HhR) Hio HGR Etr). }
  split.
  { apply (ug_assumptions_pagree t FI T _ Hov); [|exact Hug].
    intros [p n] Hq d Hl. cbn in *. subst n. unfold drop_unused.
    assert (E : unusedb t p (List.length d) = false).
    { destruct (unusedb t p (List.length d)) eqn:E; [|reflexivity]. exfalso. apply unusedb_spec in E.
      exact (c_io_disjoint_spec t Hio _ Hq (proj1 E)). }
    rewrite E. tauto. }
  destruct Hd as [[Hd [H1 H2]]|[Hd [H1 H2]]]; [left|right]; (split; [exact Hd|]).
  - split.
    + apply (ext_stable_public_iff t FI _ L He). apply (PL _ T (drop_unused_pagree t L T Hio HL)). exact H1.
    + intros [N [HN1 HN2]]. apply H2. exists (patch_unused t N T). split; [apply patch_unused_pub; exact HN1|].
      apply (PR _ N (patch_unused_pagree t _ N T Hio HR)). exact (ext_stable_public_full t FI N _ Hio HR HN2).
  - split.
    + apply (ext_stable_public_iff t FI _ _ He). apply (PR _ T (drop_unused_pagree t _ T Hio HR)). exact H1.
    + intros [N [HN1 HN2]]. apply H2. exists (patch_unused t N T). split; [apply patch_unused_pub; exact HN1|].
      apply (PL _ N (patch_unused_pagree t L N T Hio HL)). exact (ext_stable_public_full t FI N L Hio HL HN2).
Qed.

(* the property in the public reading: the emitted problems are refuted by some interpretation
   exactly when the programs differ in external behaviour read on ALL public predicates *)
Theorem external_equivalence_public t L w pbs lft rgt :
  et_specification t = inl L -> et_proof_outline t = [] ->
  external_decompose_full fuel t = XOk w pbs ->
  is_tight L = true -> is_tight (et_program t) = true ->
  tl t L = Some lft -> tr t = Some rgt ->
  (forall vt, task_validated tau_star_total completion (simp_classic_total fuel) t = Some vt -> validated_no_clash vt) ->
  rename_faithful t L -> ug_over_inputs t ->
  forall FI, (exists M, refutes_some FI M pbs) <-> (exists T, behavioural_difference_public t L FI T).
Proof.
  intros Hs Ho Hfull HtL HtR El Er Hn Hrf Hov FI.
  rewrite (external_equivalence_iff fuel t L w pbs lft rgt Hs Ho Hfull HtL HtR El Er Hn Hrf Hov FI). split.
  - intros [T HT]. exists (drop_unused t T).
    exact (difference_full_public t L w pbs lft rgt Hs Hfull HtL HtR El Er Hov FI T HT).
  - intros [T HT]. exists T. exact (difference_public_full t L FI T Hs (accepted_io_disjoint t w pbs Hfull) HT).
Qed.
End Public.
