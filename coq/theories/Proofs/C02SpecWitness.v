(* C02 for specification-vs-program tasks: a concrete accepted task on which EVERY premise of
   spec_refuted_iff_difference is discharged (non-vacuity), with both sides of the conclusion
   exhibited - the left-hand side by evaluation of the emitted problems, the right-hand side THROUGH
   the theorem - in both directions.

   The task is the one of seeded/C02_r4 (universal direction, equivalence breaking on):
       specification   spec: exists X (p(X) <-> q(X)).
       program         q(X) :- not p(X).
       user guide      input: p/1.  output: q/1.
   The claim "the program implements the specification" is false for every input: in every external
   stable model q is the complement of p.  Mb = {p(1)} + {q(x) | x <> 1} is an external stable model
   and refutes backward_problem_0 (conjecture: the UNBROKEN exists X (p(X) <-> q(X)); splitting it
   under the existential quantifier - the seeded regression - yields two conjectures that Mb
   satisfies).  Mf = {p(1), q(1)} satisfies the specification and refutes forward_problem_0. *)
From Coq Require Import List Ascii String ZArith NArith Bool Lia Classical_Prop.
From Anthem Require Import Base.ISet Syntax.Fol Syntax.Asp Sem.Domain Sem.Sat Sem.AspRef
  Model.Problem Model.Outline Model.Strong Model.External Model.Tightness Model.PrivRec Model.TauStar
  Model.Completion Model.StrategyCls Model.ExternalFull
  Proofs.ExtendAll Proofs.SemBase Proofs.DecomposeOk Proofs.StrongOk Proofs.ExternalOk Proofs.AssemblyOk Proofs.RenameOk
  Proofs.PlaceholderOk Proofs.PrivateUnique
  Proofs.C19Ext Proofs.NoClashDec Proofs.C02Ok Proofs.C02Full Proofs.C02Priv Proofs.C02Behaviour Proofs.C02Complete Proofs.C02Spec
  Proofs.C02SpecComplete.
Import ListNotations.
Open Scope string_scope.
Open Scope list_scope.

Definition Sx : specification :=
  [mkannot RSpec DUniversal ""
     (FQ QExists [mkvar "X" SGeneral] (FBin CIff (FAtomic (AAtom "p" [GVar "X"])) (FAtomic (AAtom "q" [GVar "X"]))))].
Definition Px : program := [mkrule (HBasic (mkatom "q" [TVar "X"])) [BLit (mklit SNeg (mkatom "p" [TVar "X"]))]].
Definition tx : ext_task :=
  mkext (inr Sx) Px [UGInput (mkpred "p" 1); UGOutput (mkpred "q" 1)] [] DSequential DUniversal ReprTauStar false true true.

Definition pbsx : list problem :=
  match external_decompose_full full_fuel tx with XOk _ pbs => pbs | _ => [] end.

Lemma tx_accepted : external_decompose_full full_fuel tx = XOk [] pbsx /\ List.length pbsx = 3.
Proof. split; vm_compute; reflexivity. Qed.
Lemma tx_tight : is_tight (et_program tx) = true. Proof. vm_compute. reflexivity. Qed.
Lemma tx_no_clash :
  forall vt, task_validated tau_star_total completion (simp_classic_total full_fuel) tx = Some vt -> validated_no_clash vt.
Proof. apply task_no_clashb_spec. vm_compute. reflexivity. Qed.

(* backward: an external stable model of the program that violates the specification *)
Definition Mb : pint := fun r d =>
  (r = "p" /\ d = [VNum 1]) \/ (r = "q" /\ exists v, d = [v] /\ v <> VNum 1).
(* forward: a model of the specification that the program cannot produce *)
Definition Mf : pint := fun r d => (r = "p" \/ r = "q") /\ d = [VNum 1].

Lemma tx_refuted_backward FI : refutes_some FI Mb pbsx.
Proof.
  remember pbsx as l eqn:E. vm_compute in E. subst l. eexists. split; [right; right; left; reflexivity|]. split.
  - intros a Ha. cbn in Ha. destruct Ha as [<-|[]]. intros e d _. cbn. unfold Mb. split.
    + intros [[H _]|[_ [v [Hv Hn]]]]; [discriminate|]. intros [[_ Hp]|[H _]]; [|discriminate]. congruence.
    + intros Hn. right. split; [reflexivity|]. eexists. split; [reflexivity|]. intros ->. apply Hn. left. auto.
  - eexists. split; [cbn; left; reflexivity|]. intros H.
    specialize (H (mkenv (fun _ => VInf) (fun _ => 0%Z) (fun _ => ""))). cbn in H.
    destruct H as [d [_ [H1 H2]]]. unfold Mb in H1, H2. cbn in H1, H2.
    destruct (gval_dec d (VNum 1)) as [->|Hd].
    + assert (Hp : ("p" = "p" /\ [VNum 1] = [VNum 1]) \/ ("p" = "q" /\ exists v, [VNum 1] = [v] /\ v <> VNum 1)) by (left; auto).
      apply H1 in Hp. destruct Hp as [[H _]|[_ [v [Hv Hn]]]]; [discriminate|]. congruence.
    + assert (Hq : ("q" = "p" /\ [d] = [VNum 1]) \/ ("q" = "q" /\ exists v, [d] = [v] /\ v <> VNum 1)).
      { right. split; [reflexivity|]. exists d. auto. }
      apply H2 in Hq. destruct Hq as [[_ Hq]|[H _]]; [|discriminate]. congruence.
Qed.

Lemma tx_refuted_forward FI : refutes_some FI Mf pbsx.
Proof.
  remember pbsx as l eqn:E. vm_compute in E. subst l. eexists. split; [left; reflexivity|]. split.
  - intros a Ha. cbn in Ha. destruct Ha as [<-|[]]. intros e. cbn. exists (VNum 1). split; [exact I|].
    unfold Mf. cbn. tauto.
  - eexists. split; [cbn; left; reflexivity|]. intros H.
    specialize (H (mkenv (fun _ => VInf) (fun _ => 0%Z) (fun _ => "")) (VNum 1) I). cbn in H. unfold Mf in H. cbn in H.
    apply H; auto.
Qed.

(* the right-hand sides, THROUGH the theorem *)
Lemma tx_difference_backward FI : spec_difference tx Sx FI Mb.
Proof.
  exact (spec_countermodel_sound full_fuel tx Sx [] pbsx eq_refl eq_refl (proj1 tx_accepted) tx_tight tx_no_clash
           FI Mb (tx_refuted_backward FI)).
Qed.
Lemma tx_difference_forward FI : spec_difference tx Sx FI Mf.
Proof.
  exact (spec_countermodel_sound full_fuel tx Sx [] pbsx eq_refl eq_refl (proj1 tx_accepted) tx_tight tx_no_clash
           FI Mf (tx_refuted_forward FI)).
Qed.
(* and which disjunct it is: Mb violates the specification, so it can only be the backward one *)
Lemma tx_Mb_violates_spec FI : ~ tvalid FI Mb (spec_backward_conclusions (task_spec_left tx Sx)).
Proof.
  intros H. specialize (H _ (or_introl eq_refl) (mkenv (fun _ => VInf) (fun _ => 0%Z) (fun _ => ""))). cbn in H.
  destruct H as [d [_ [H1 H2]]]. unfold Mb in H1, H2. cbn in H1, H2.
  destruct (gval_dec d (VNum 1)) as [->|Hd].
  - assert (Hp : ("p" = "p" /\ [VNum 1] = [VNum 1]) \/ ("p" = "q" /\ exists v, [VNum 1] = [v] /\ v <> VNum 1)) by (left; auto).
    apply H1 in Hp. destruct Hp as [[H _]|[_ [v [Hv Hn]]]]; [discriminate|]. congruence.
  - assert (Hq : ("q" = "p" /\ [d] = [VNum 1]) \/ ("q" = "q" /\ exists v, [d] = [v] /\ v <> VNum 1)).
    { right. split; [reflexivity|]. exists d. auto. }
    apply H2 in Hq. destruct Hq as [[_ Hq]|[H _]]; [|discriminate]. congruence.
Qed.
Lemma tx_Mb_external_stable FI :
  ext_stable_full tx FI (reindex (task_mapping tx) Mb) (et_program tx).
Proof.
  destruct (tx_difference_backward FI) as [_ [_ [[_ [Hfp _]]|[_ [Hes _]]]]]; [|exact Hes].
  exfalso. apply (tx_Mb_violates_spec FI). exact Hfp.
Qed.

(* everything together: the non-vacuity Example of Properties/C02spec.v *)
Lemma tx_nonvacuous :
  et_specification tx = inr Sx /\ et_proof_outline tx = [] /\
  external_decompose_full full_fuel tx = XOk [] pbsx /\ List.length pbsx = 3 /\
  is_tight (et_program tx) = true /\
  (forall vt, task_validated tau_star_total completion (simp_classic_total full_fuel) tx = Some vt -> validated_no_clash vt) /\
  forall FI,
    refutes_some FI Mb pbsx /\ spec_difference tx Sx FI Mb /\
    ext_stable_full tx FI (reindex (task_mapping tx) Mb) (et_program tx) /\
    ~ tvalid FI Mb (spec_backward_conclusions (task_spec_left tx Sx)) /\
    refutes_some FI Mf pbsx /\ spec_difference tx Sx FI Mf.
Proof.
  split; [reflexivity|]. split; [reflexivity|]. split; [exact (proj1 tx_accepted)|]. split; [exact (proj2 tx_accepted)|].
  split; [exact tx_tight|]. split; [exact tx_no_clash|]. intros FI.
  split; [exact (tx_refuted_backward FI)|]. split; [exact (tx_difference_backward FI)|].
  split; [exact (tx_Mb_external_stable FI)|]. split; [exact (tx_Mb_violates_spec FI)|].
  split; [exact (tx_refuted_forward FI)|exact (tx_difference_forward FI)].
Qed.

(* ---------- the public-level reading on tx ---------- *)
Lemma tx_rename_faithful : spec_rename_faithful tx Sx.
Proof. apply spec_rename_faithfulb_ok. vm_compute. reflexivity. Qed.
(* "=>" of spec_external_equivalence: from the refutation to a difference stated on the two sides *)
Lemma tx_public_difference FI : exists J T, spec_public_difference tx Sx FI J T.
Proof.
  apply (proj1 (spec_external_equivalence full_fuel tx Sx [] pbsx eq_refl eq_refl (proj1 tx_accepted) tx_tight tx_no_clash
                  tx_rename_faithful FI)).
  exists Mb. exact (tx_refuted_backward FI).
Qed.
(* "<=": from the public-level difference (J = Mb, T = Mb through the renaming) back to a countermodel *)
Lemma tx_public_complete FI : exists M, pagree (spec_voc tx Sx) M Mb /\ refutes_some FI M pbsx.
Proof.
  apply (spec_public_complete full_fuel tx Sx [] pbsx eq_refl eq_refl (proj1 tx_accepted) tx_tight tx_no_clash
           tx_rename_faithful FI Mb (reindex (task_mapping tx) Mb)).
  apply spec_difference_public. exact (tx_difference_backward FI).
Qed.

(* ---------- F9 on a specification task: the renaming is not faithful ----------
   specification   assumption: forall X (aux(X) -> p(X)).  spec: forall X (q(X) -> p(X)).
   program         aux(X) :- p(X).  aux_p(X) :- p(X).  q(X) :- aux(X), not aux_p(X).
   aux/1 is private on both sides, so the program's aux is renamed aux_p - the name of another private
   predicate of the program: the emitted problems contain two completed definitions of aux_p/1. *)
Definition pos1 (p : string) : bformula := BLit (mklit SNone (mkatom p [TVar "X"])).
Definition neg1 (p : string) : bformula := BLit (mklit SNeg (mkatom p [TVar "X"])).
Definition rule1 (h : string) (b : list bformula) : rule := mkrule (HBasic (mkatom h [TVar "X"])) b.
Definition at1 (p : string) : formula := FAtomic (AAtom p [GVar "X"]).
Definition S9 : specification :=
  [mkannot RAssumption DUniversal "" (FQ QForall [mkvar "X" SGeneral] (FBin CImp (at1 "aux") (at1 "p")));
   mkannot RSpec DUniversal "" (FQ QForall [mkvar "X" SGeneral] (FBin CImp (at1 "q") (at1 "p")))].
Definition P9 : program :=
  [rule1 "aux" [pos1 "p"]; rule1 "aux_p" [pos1 "p"]; rule1 "q" [pos1 "aux"; neg1 "aux_p"]].
Definition t9s : ext_task :=
  mkext (inr S9) P9 [UGInput (mkpred "p" 1); UGOutput (mkpred "q" 1)] [] DSequential DBackward ReprTauStar false true true.
Lemma t9s_accepted : exists w pbs, external_decompose_full full_fuel t9s = XOk w pbs.
Proof. eexists _, _. vm_compute. reflexivity. Qed.
Lemma t9s_not_faithful : ~ spec_rename_faithful t9s S9.
Proof.
  intros [_ H]. specialize (H "aux" "aux_p" 1 ltac:(vm_compute; auto) ltac:(vm_compute; auto) ltac:(vm_compute; reflexivity)).
  discriminate.
Qed.

(* ---------- a shipped example: res/examples/external_equivalence/trivial/propositional ----------
       specification   spec: q <-> t or r.   spec: p <-> #true.
       program         p.  q :- t.  q :- r.
       user guide      input: t/0. input: r/0. output: p/0. output: q/0.
   The claim is TRUE.  Every emitted problem (universal direction, equivalence breaking on, simplification
   on) is valid in every interpretation - shown by evaluation - and THROUGH
   spec_verified_iff_no_difference no interpretation witnesses a difference: every model of the
   specification is an external stable model of the program, and every external stable model satisfies
   the specification. *)
Definition at0 (p : string) : formula := FAtomic (AAtom p []).
Definition Sprop : specification :=
  [mkannot RSpec DUniversal "" (FBin CIff (at0 "q") (FBin COr (at0 "t") (at0 "r")));
   mkannot RSpec DUniversal "" (FBin CIff (at0 "p") (FAtomic ATrue))].
Definition fact0 (h : string) : rule := mkrule (HBasic (mkatom h [])) [].
Definition rule0 (h b : string) : rule := mkrule (HBasic (mkatom h [])) [BLit (mklit SNone (mkatom b []))].
Definition Pprop : program := [fact0 "p"; rule0 "q" "t"; rule0 "q" "r"].
Definition tprop : ext_task :=
  mkext (inr Sprop) Pprop [UGInput (mkpred "t" 0); UGInput (mkpred "r" 0); UGOutput (mkpred "p" 0); UGOutput (mkpred "q" 0)]
        [] DSequential DUniversal ReprTauStar false true true.
Definition pbsprop : list problem :=
  match external_decompose_full full_fuel tprop with XOk _ pbs => pbs | _ => [] end.
Lemma tprop_accepted : external_decompose_full full_fuel tprop = XOk [] pbsprop.
Proof. vm_compute. reflexivity. Qed.
Lemma tprop_tight : is_tight (et_program tprop) = true. Proof. vm_compute. reflexivity. Qed.
Lemma tprop_no_clash :
  forall vt, task_validated tau_star_total completion (simp_classic_total full_fuel) tprop = Some vt -> validated_no_clash vt.
Proof. apply task_no_clashb_spec. vm_compute. reflexivity. Qed.
Lemma tprop_irrefutable FI M : ~ refutes_some FI M pbsprop.
Proof.
  remember pbsprop as l eqn:E. vm_compute in E. subst l. intros [pb [Hin [Hax [c [Hc Hnc]]]]].
  cbn in Hin.
  (* one case per problem: its single conjecture follows propositionally from its (at most five) axioms *)
  repeat (destruct Hin as [<-|Hin];
          [cbn in Hc; destruct Hc as [<-|[]]; apply Hnc; intros e; cbn; cbn in Hax;
           try (pose proof (Hax _ (or_introl eq_refl) e) as A1; cbn in A1);
           try (pose proof (Hax _ (or_intror (or_introl eq_refl)) e) as A2; cbn in A2);
           try (pose proof (Hax _ (or_intror (or_intror (or_introl eq_refl))) e) as A3; cbn in A3);
           try (pose proof (Hax _ (or_intror (or_intror (or_intror (or_introl eq_refl)))) e) as A4; cbn in A4);
           try (pose proof (Hax _ (or_intror (or_intror (or_intror (or_intror (or_introl eq_refl))))) e) as A5; cbn in A5);
           tauto|]).
  destruct Hin.
Qed.
Lemma tprop_no_difference FI M : ~ spec_difference tprop Sprop FI M.
Proof.
  exact (proj1 (spec_verified_iff_no_difference full_fuel tprop Sprop [] pbsprop eq_refl eq_refl tprop_accepted tprop_tight tprop_no_clash)
           tprop_irrefutable FI M).
Qed.
