(* C08, term level: values of terms regular of the first kind are the value of their translation
   (p2f lemma); a non-numeral below an operator leaves a term without values; characterisation of
   int_variables; C08_int. *)
From Coq Require Import List Ascii String ZArith Bool Lia.
From Anthem Require Import Base.ISet Syntax.Fol Syntax.Asp Sem.Domain Sem.Sat Sem.AspRef
  Model.Natural Proofs.NatBase.
Import ListNotations.
Open Scope string_scope.
Open Scope list_scope.

Definition is_num (v : gval) : Prop := exists n, v = VNum n.
Definition is_numb (v : gval) : bool := match v with VNum _ => true | _ => false end.
Lemma is_numb_spec v : reflect (is_num v) (is_numb v).
Proof. destruct v; cbn; constructor; try (intros [n E]; discriminate). eexists; reflexivity. Qed.

(* t is an operation (not a variable, not a precomputed term) *)
Definition is_op (t : term) : bool := match t with TUn _ _ | TBin _ _ _ => true | _ => false end.

(* ---------- generic iset / fold facts ---------- *)
Lemma in_iset_of_list {A} (dec : forall x y : A, {x = y} + {x <> y}) l y :
  In y (iset_of_list dec l) <-> In y l.
Proof. unfold iset_of_list. rewrite in_iset_extend. cbn. tauto. Qed.

Lemma fold_left_in {A B} (step : list B -> A -> list B) (g : A -> list B) :
  (forall acc x y, In y (step acc x) <-> In y acc \/ In y (g x)) ->
  forall l init y, In y (fold_left step l init) <-> In y init \/ exists x, In x l /\ In y (g x).
Proof.
  intros Hs. induction l as [|a l IH]; intros init y; cbn.
  - split; [auto|intros [?|[x [[] _]]]; auto].
  - rewrite IH, Hs. split.
    + intros [[?|?]|[x [? ?]]]; eauto.
    + intros [?|[x [[->|?] ?]]]; eauto.
Qed.
Lemma in_extend_all {A B} (dec : forall x y : B, {x = y} + {x <> y}) (f : A -> list B) l init y :
  In y (extend_all dec f init l) <-> In y init \/ exists x, In x l /\ In y (f x).
Proof.
  unfold extend_all. apply (fold_left_in (fun acc x => iset_extend dec acc (f x)) f).
  intros acc x z. apply in_iset_extend.
Qed.

Lemma in_atom_vars a x : In x (atom_vars a) <-> exists t, In t (aterms a) /\ In x (term_vars t).
Proof. unfold atom_vars. rewrite in_extend_all. cbn. split; [intros [[]|?]; auto|auto]. Qed.

Lemma term_vars_bin o l r x : In x (term_vars (TBin o l r)) <-> In x (term_vars l) \/ In x (term_vars r).
Proof. cbn. apply in_iset_extend. Qed.

(* ---------- a non-numeral below an operator leaves no value ---------- *)
Section Vals.
Variable sg : assignment.

Lemma vals_num_vars t : forall v, vals sg t v -> is_num v -> forall x, In x (term_vars t) -> is_num (sg x).
Proof.
  induction t as [p|y|o t IH|o l IHl r IHr]; intros v Hv Hn x Hx.
  - destruct Hx.
  - cbn in Hx. destruct Hx as [->|[]]. cbn in Hv. subst v. exact Hn.
  - destruct o. cbn in Hv. destruct Hv as [n [Hv _]]. cbn in Hx.
    apply (IH (VNum n)); auto. eexists; reflexivity.
  - apply term_vars_bin in Hx.
    assert (Hlr : exists n1 n2, vals sg l (VNum n1) /\ vals sg r (VNum n2)).
    { destruct o; cbn in Hv.
      - destruct Hv as [n1 [n2 [A [B _]]]]; eauto.
      - destruct Hv as [n1 [n2 [A [B _]]]]; eauto.
      - destruct Hv as [n1 [n2 [A [B _]]]]; eauto.
      - destruct Hv as [n1 [n2 [q [m [A [B _]]]]]]; eauto.
      - destruct Hv as [n1 [n2 [q [m [A [B _]]]]]]; eauto.
      - destruct Hv as [n1 [n2 [k [A [B _]]]]]; eauto. }
    destruct Hlr as [n1 [n2 [A B]]].
    destruct Hx as [Hx|Hx]; [apply (IHl (VNum n1))|apply (IHr (VNum n2))]; auto; eexists; reflexivity.
Qed.

Lemma vals_op_is_num t v : is_op t = true -> vals sg t v -> is_num v.
Proof.
  destruct t as [p|y|o t|o l r]; cbn [is_op]; try discriminate; intros _ Hv.
  - destruct o. cbn in Hv. destruct Hv as [n [_ ->]]. eexists; reflexivity.
  - destruct o; cbn in Hv.
    + destruct Hv as [n1 [n2 [_ [_ ->]]]]; eexists; reflexivity.
    + destruct Hv as [n1 [n2 [_ [_ ->]]]]; eexists; reflexivity.
    + destruct Hv as [n1 [n2 [_ [_ ->]]]]; eexists; reflexivity.
    + destruct Hv as [n1 [n2 [q [m [_ [_ [_ ->]]]]]]]; eexists; reflexivity.
    + destruct Hv as [n1 [n2 [q [m [_ [_ [_ ->]]]]]]]; eexists; reflexivity.
    + destruct Hv as [n1 [n2 [k [_ [_ [_ ->]]]]]]; eexists; reflexivity.
Qed.

(* the "empty value set" half of the p2f lemma, for ALL terms (regular or not) *)
Lemma vals_op_empty t x : is_op t = true -> In x (term_vars t) -> ~ is_num (sg x) -> forall v, ~ vals sg t v.
Proof.
  intros Hop Hx Hn v Hv. apply Hn.
  apply (vals_num_vars t v Hv (vals_op_is_num t v Hop Hv) x Hx).
Qed.
End Vals.

(* ---------- the p2f lemma ---------- *)
(* "arithmetic" terms: regular of the first kind and free of symbols, #inf, #sup *)
Definition arithb (t : term) : bool :=
  is_term_regular_of_first_kind t && negb (contains_symbol_or_infimum_or_supremum t).

Lemma first_kind_un t : is_term_regular_of_first_kind (TUn AUNeg t) = arithb t.
Proof. reflexivity. Qed.
Lemma first_kind_bin o l r :
  is_term_regular_of_first_kind (TBin o l r) =
  match o with AAdd | ASub | AMul => arithb l && arithb r | _ => false end.
Proof. unfold arithb. destruct o; cbn; auto; rewrite !andb_assoc; reflexivity. Qed.
Lemma second_kind_spec t :
  is_term_regular_of_second_kind t = true <-> exists l r, t = TBin AInterval l r /\ arithb l = true /\ arithb r = true.
Proof.
  unfold arithb. destruct t as [p|y|o t|o l r]; cbn; try (split; [discriminate|intros [l0 [r0 [E _]]]; discriminate]).
  destruct o; try (split; [discriminate|intros [l0 [r0 [E _]]]; discriminate]).
  rewrite !andb_true_iff. split.
  - intros [[[A B] C] D]. exists l, r. rewrite A, B, C, D. auto.
  - intros [l0 [r0 [E [A B]]]]. inversion E; subst. apply andb_true_iff in A, B. tauto.
Qed.

Lemma arithb_op t : arithb t = true -> is_op t = true ->
  match t with
  | TUn AUNeg a => arithb a = true
  | TBin o l r => (o = AAdd \/ o = ASub \/ o = AMul) /\ arithb l = true /\ arithb r = true
  | _ => False
  end.
Proof.
  unfold arithb at 1. destruct t as [p|y|o t|o l r]; cbn [is_op]; try discriminate; intros H _.
  - destruct o. apply andb_true_iff in H. destruct H as [H _]. rewrite first_kind_un in H. exact H.
  - apply andb_true_iff in H. destruct H as [H _]. rewrite first_kind_bin in H.
    destruct o; try discriminate; apply andb_true_iff in H; intuition.
Qed.

Section P2F.
Variable FI : fint.
Variable sg : assignment.
Variable e : env.

Lemma p2f_int_term_total t : arithb t = true -> exists it, p2f_int_term t = Some it.
Proof.
  induction t as [p|y|o t IH|o l IHl r IHr]; intros H.
  - destruct p; cbn in H; try discriminate. eexists; reflexivity.
  - eexists; reflexivity.
  - pose proof (arithb_op _ H eq_refl) as H'. destruct o. destruct (IH H') as [it E].
    cbn. rewrite E. eexists; reflexivity.
  - pose proof (arithb_op _ H eq_refl) as [Ho [Hl Hr]].
    destruct (IHl Hl) as [il El], (IHr Hr) as [ir Er]. cbn. rewrite El, Er.
    destruct Ho as [->|[->| ->]]; eexists; reflexivity.
Qed.

(* for an arithmetic term all of whose variables denote integers (given by the integer part of
   e), the value set is the singleton of the value of p2f_int_term *)
Lemma p2f_int_term_vals t : forall it, arithb t = true -> p2f_int_term t = Some it ->
  (forall x, In x (term_vars t) -> sg x = VNum (ei e x)) ->
  forall v, vals sg t v <-> v = VNum (ev_i FI e it).
Proof.
  induction t as [p|y|o t IH|o l IHl r IHr]; intros it H E Hx v.
  - destruct p; cbn in H; try discriminate. cbn in E. inversion E; subst. cbn. tauto.
  - cbn in E. inversion E; subst. cbn. rewrite (Hx y) by (cbn; auto). tauto.
  - pose proof (arithb_op _ H eq_refl) as H'. destruct o. cbn in E.
    destruct (p2f_int_term t) as [a|] eqn:Ea; [|discriminate]. inversion E; subst.
    cbn. split.
    + intros [n [Hn ->]]. apply (IH a H' eq_refl Hx) in Hn. inversion Hn; subst. f_equal; lia.
    + intros ->. exists (ev_i FI e a). split; [apply (IH a H' eq_refl Hx); reflexivity|f_equal; lia].
  - pose proof (arithb_op _ H eq_refl) as [Ho [Hl Hr]]. cbn in E.
    assert (Hxl : forall x, In x (term_vars l) -> sg x = VNum (ei e x))
      by (intros x Hin; apply Hx, term_vars_bin; auto).
    assert (Hxr : forall x, In x (term_vars r) -> sg x = VNum (ei e x))
      by (intros x Hin; apply Hx, term_vars_bin; auto).
    destruct (p2f_int_term l) as [il|] eqn:El; [|destruct Ho as [->|[->| ->]]; discriminate].
    destruct (p2f_int_term r) as [ir|] eqn:Er; [|destruct Ho as [->|[->| ->]]; discriminate].
    pose proof (IHl il Hl eq_refl Hxl) as Il. pose proof (IHr ir Hr eq_refl Hxr) as Ir.
    destruct Ho as [->|[->| ->]]; inversion E; subst; cbn; (split;
      [intros [n1 [n2 [A [B ->]]]]; apply Il in A; apply Ir in B; inversion A; inversion B; subst; reflexivity
      |intros ->; exists (ev_i FI e il), (ev_i FI e ir); repeat split; [apply Il|apply Ir]; reflexivity]).
Qed.

(* agreement of the rule assignment sg with the target assignment e on a variable, relative to
   the set of integer variables *)
Definition agree (iv : list string) (x : string) : Prop :=
  if memb string_dec x iv then sg x = VNum (ei e x) else sg x = eg e x.

(* variables below operators are integer variables *)
Definition opvars_in (iv : list string) (t : term) : Prop :=
  is_op t = true -> forall x, In x (term_vars t) -> In x iv.

Lemma p2f_total t iv : is_term_regular_of_first_kind t = true -> exists g, p2f t iv = Some g.
Proof.
  intros H. unfold p2f. rewrite H. cbn [negb].
  destruct t as [p|y|o t|o l r].
  - eexists; reflexivity.
  - destruct (memb string_dec y iv); eexists; reflexivity.
  - destruct o. rewrite first_kind_un in H.
    destruct (p2f_int_term_total (TUn AUNeg t)) as [it E].
    { unfold arithb. cbn. unfold arithb in H. apply andb_true_iff in H. destruct H as [A B].
      rewrite A, B. reflexivity. }
    rewrite E. eexists; reflexivity.
  - destruct (p2f_int_term_total (TBin o l r)) as [it E].
    { rewrite first_kind_bin in H. unfold arithb. rewrite first_kind_bin.
      destruct o; try discriminate; rewrite H; cbn;
        apply andb_true_iff in H; destruct H as [A B]; unfold arithb in A, B;
        apply andb_true_iff in A, B; destruct A as [_ A], B as [_ B];
        apply negb_true_iff in A, B; rewrite A, B; reflexivity. }
    rewrite E. eexists; reflexivity.
Qed.

Lemma first_kind_op_arith t : is_term_regular_of_first_kind t = true -> is_op t = true -> arithb t = true.
Proof.
  intros H Hop. unfold arithb. rewrite H. cbn.
  destruct t as [p|y|o t|o l r]; cbn in Hop; try discriminate.
  - destruct o. rewrite first_kind_un in H. unfold arithb in H. apply andb_true_iff in H.
    destruct H as [_ B]. cbn. exact B.
  - rewrite first_kind_bin in H. destruct o; try discriminate;
      apply andb_true_iff in H; destruct H as [A B]; unfold arithb in A, B;
      apply andb_true_iff in A, B; destruct A as [_ A], B as [_ B];
      apply negb_true_iff in A, B; cbn; rewrite A, B; reflexivity.
Qed.

(* THE p2f LEMMA: a term regular of the first kind has exactly one value, the value of p2f *)
Lemma p2f_vals t iv g : p2f t iv = Some g ->
  (forall x, In x (term_vars t) -> agree iv x) -> opvars_in iv t ->
  forall v, vals sg t v <-> v = ev_g FI e g.
Proof.
  unfold p2f. destruct (is_term_regular_of_first_kind t) eqn:H; cbn [negb]; [|discriminate].
  intros E Hag Hop v.
  destruct t as [p|y|o t|o l r].
  - inversion E; subst. destruct p; cbn; tauto.
  - specialize (Hag y (or_introl eq_refl)). unfold agree in Hag.
    destruct (memb string_dec y iv); inversion E; subst; cbn; rewrite Hag; tauto.
  - destruct (p2f_int_term (TUn o t)) as [it|] eqn:Ei; [|discriminate]. inversion E; subst.
    cbn [ev_g]. apply (p2f_int_term_vals (TUn o t) it); auto.
    + apply first_kind_op_arith; auto.
    + intros x Hx. specialize (Hag x Hx). unfold agree in Hag.
      destruct (memb_spec string_dec x iv) as [_|Hn]; auto. elim Hn. apply Hop; auto.
  - destruct (p2f_int_term (TBin o l r)) as [it|] eqn:Ei; [|discriminate]. inversion E; subst.
    cbn [ev_g]. apply (p2f_int_term_vals (TBin o l r) it); auto.
    + apply first_kind_op_arith; auto.
    + intros x Hx. specialize (Hag x Hx). unfold agree in Hag.
      destruct (memb_spec string_dec x iv) as [_|Hn]; auto. elim Hn. apply Hop; auto.
Qed.
End P2F.

(* ---------- int_variables ---------- *)
Lemma in_rule_terms r t :
  In t (rule_terms r) <->
  (exists ts, head_terms (rhead r) = Some ts /\ In t ts) \/
  (exists b, In b (rbody r) /\ In t (bformula_terms b)).
Proof.
  unfold rule_terms, body_terms. rewrite in_iset_extend, in_extend_all. cbn [In].
  destruct (head_terms (rhead r)) as [ts|].
  - rewrite in_iset_of_list. split.
    + intros [?|[[]|?]]; eauto.
    + intros [[ts' [E ?]]|?]; [inversion E; subst; auto|auto].
  - split.
    + intros [[]|[[]|?]]; eauto.
    + intros [[ts' [E ?]]|?]; [discriminate|auto].
Qed.

Definition eq_interval (c : comparison) : bool :=
  (match crel c with AEq => true | _ => false end) && is_term_regular_of_second_kind (crhs c).

Lemma in_int_variables r x :
  In x (int_variables r) <->
  (exists t, In t (rule_terms r) /\ is_op t = true /\ In x (term_vars t)) \/
  (exists c, In (BCmp c) (rbody r) /\ eq_interval c = true /\ In x (term_vars (clhs c))).
Proof.
  unfold int_variables.
  rewrite (fold_left_in _ (fun f => match f with
                                    | BCmp c => if eq_interval c then term_vars (clhs c) else []
                                    | BLit _ => [] end)).
  2:{ intros acc b y. destruct b as [l|c]; [cbn; tauto|]. unfold eq_interval.
      destruct ((match crel c with AEq => true | _ => false end) && is_term_regular_of_second_kind (crhs c)).
      - apply in_iset_extend.
      - cbn; tauto. }
  rewrite (fold_left_in _ (fun t => if is_op t then term_vars t else [])).
  2:{ intros acc t y. destruct t as [p|z|o t|o l r']; cbn [is_op]; try (cbn; tauto).
      - cbn [term_vars]. apply in_iset_extend.
      - rewrite !in_iset_extend, term_vars_bin. tauto. }
  cbn [In]. split.
  - intros [[[]|[t [Ht Hx]]]|[b [Hb Hx]]].
    + left. exists t. destruct (is_op t); [auto|destruct Hx].
    + right. destruct b as [l|c]; [destruct Hx|]. exists c.
      destruct (eq_interval c); [auto|destruct Hx].
  - intros [[t [Ht [Hop Hx]]]|[c [Hc [He Hx]]]].
    + left; right. exists t. rewrite Hop. auto.
    + right. exists (BCmp c). rewrite He. auto.
Qed.

(* every variable below an operator of a top-level term of r is an integer variable *)
Lemma opvars_in_rule r t : In t (rule_terms r) -> opvars_in (int_variables r) t.
Proof. intros Ht Hop x Hx. apply in_int_variables. left. eauto. Qed.

(* the bounds of a top-level interval are below an operator *)
Lemma opvars_in_sub r o l rr : In (TBin o l rr) (rule_terms r) ->
  (forall x, In x (term_vars l) -> In x (int_variables r)) /\
  (forall x, In x (term_vars rr) -> In x (int_variables r)).
Proof.
  intros Ht. split; intros x Hx; apply (opvars_in_rule r _ Ht eq_refl), term_vars_bin; auto.
Qed.

(* ---------- C08_int ---------- *)
Lemma tuple_vals_in sg ts vs t : tuple_vals sg ts vs -> In t ts -> exists v, vals sg t v.
Proof.
  intros F. induction F as [|t0 v0 ts vs Hv F IH]; intros Hin; [destruct Hin|].
  destruct Hin as [->|Hin]; eauto.
Qed.

Lemma int_variables_num_nat (r : rule) (x : string) (sg : assignment) (W T : pint) :
  In x (int_variables r) -> ~ is_num (sg x) ->
  body_sat W T sg (rbody r) -> head_sat W T sg (rhead r).
Proof.
  intros Hx Hn Hb. apply in_int_variables in Hx.
  destruct Hx as [[t [Ht [Hop Hxt]]]|[c [Hc [He Hxt]]]].
  - pose proof (vals_op_empty sg t x Hop Hxt Hn) as Hemp.
    apply in_rule_terms in Ht. destruct Ht as [[ts [Hh Ht]]|[b [Hbin Ht]]].
    + (* the head has no value tuple *)
      destruct (rhead r) as [a|a|]; cbn in Hh; inversion Hh; subst; cbn;
        intros vs Hvs; destruct (tuple_vals_in _ _ _ _ Hvs Ht) as [v Hv]; elim (Hemp v Hv).
    + (* a body item is false *)
      unfold body_sat in Hb. rewrite Forall_forall in Hb. specialize (Hb b Hbin).
      destruct b as [[s a]|c]; unfold bformula_terms in Ht; apply in_iset_of_list in Ht; cbn in Ht.
      * idtac.
        assert (Hvs : exists vs, tuple_vals sg (aterms a) vs)
          by (destruct s; cbn in Hb; destruct Hb as [vs [Hvs _]]; eauto).
        destruct Hvs as [vs Hvs]. destruct (tuple_vals_in _ _ _ _ Hvs Ht) as [v Hv]. elim (Hemp v Hv).
      * cbn in Hb. destruct Hb as [v1 [v2 [H1 [H2 _]]]].
        destruct Ht as [<-|[<-|[]]]; [elim (Hemp v1 H1)|elim (Hemp v2 H2)].
  - (* x = t1..t2: the left-hand side equals a numeral *)
    unfold body_sat in Hb. rewrite Forall_forall in Hb. specialize (Hb _ Hc). cbn in Hb.
    destruct Hb as [v1 [v2 [H1 [H2 Hrel]]]].
    unfold eq_interval in He. apply andb_true_iff in He. destruct He as [Hrel' Hsk].
    destruct (crel c); try discriminate. cbn in Hrel.
    destruct (gval_eqb_spec v1 v2) as [->|]; [|discriminate].
    apply second_kind_spec in Hsk. destruct Hsk as [l [rr [Erhs _]]].
    rewrite Erhs in H2. elim Hn.
    apply (vals_num_vars sg (clhs c) v2 H1); auto.
    apply (vals_op_is_num sg (TBin AInterval l rr)); auto.
Qed.
