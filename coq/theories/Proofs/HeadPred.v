(* Role stability of external equivalence (hypothesis 1 of docs/C02full.md, the missing half of C19):

     external_equivalence.rs classifies the formulas of a completed theory AFTER simplification by
     their syntactic shape ([head_predicate]: a block of `forall`s over `atom <-> _`).  This file
     proves that the portfolio `[INTUITIONISTIC, HT, CLASSIC].concat()` applied with
     `apply_fixpoint` (Model/Apply.v) never changes that classification on the formulas
     `completion` produces:

     * [head_atom_stable]: if [head_atom F = Some a] (any formula, not only completed definitions)
       then every pass of the composed portfolio, and hence the fixpoint, keeps the same head atom:
       no rewrite of the three portfolios matches an `<->` node (apply_equivalence_definition, the
       only rewrite that would, is `#[allow(dead_code)]` and in no portfolio), none matches a
       predicate atom, and the rewrites that match a `forall` node (remove_orphaned_variables,
       remove_empty_quantifications, join_nested_quantifiers, restrict_quantifier_domain) only
       change the variable block, remove an empty block or merge two `forall` blocks - shapes that
       [head_predicate] looks through.
     * [constraint_stable]: the other direction.  `apply_equivalence_definition_inverse`
       ((F -> G) and (G -> F) => F <-> G) CAN create an `<->` node, so a formula that is not a
       definition could become one.  It cannot happen to the constraints of a completed tau*
       theory: they are `forall V (B -> #false)` with B free of `->`, `<-`, `<->` ([imp_free]),
       the class of imp_free formulas is closed under all 15 rewrites (including the three that
       substitute), and an imp_free formula has no head atom.  *)
From Coq Require Import List Ascii String ZArith NArith Bool Lia.
From Anthem Require Import Base.ISet Base.Fresh Syntax.Fol Model.Apply Model.Subst
  Model.SimplIntuit Model.SimplClassic Model.External
  Proofs.SubstOk Proofs.SimplClassicBase Proofs.SimplClassicOk.
Import ListNotations.
Open Scope string_scope.
Open Scope list_scope.

(* ------------------------------------------------------------------ the recognised shape *)
(* head_predicate with the whole atom kept *)
Fixpoint head_atom (f : formula) : option (string * list gterm) :=
  match f with
  | FBin CIff (FAtomic (AAtom p ts)) _ => Some (p, ts)
  | FQ QForall _ g => head_atom g
  | _ => None
  end.
Definition head_atom_pred (a : string * list gterm) : pred := mkpred (fst a) (List.length (snd a)).

Lemma head_predicate_atom f : head_predicate f = option_map head_atom_pred (head_atom f).
Proof.
  induction f as [a|g IH|c l IHl r IHr|q vs g IH]; cbn; try reflexivity.
  - destruct c; try reflexivity. destruct l as [[| |p ts|]| | |]; reflexivity.
  - destruct q; [exact IH|reflexivity].
Qed.

(* F is syntactically a completed definition of p/n as `completion` emits it:
   forall V (p(t1..tn) <-> B) with a non-empty block V, or p(t1..tn) <-> B without quantifier *)
Inductive def_shape (p : string) (n : nat) : formula -> Prop :=
| ds_prop ts B : List.length ts = n -> def_shape p n (FBin CIff (FAtomic (AAtom p ts)) B)
| ds_forall vs ts B : List.length ts = n -> def_shape p n (FQ QForall vs (FBin CIff (FAtomic (AAtom p ts)) B)).

Lemma def_shape_head_atom p n F : def_shape p n F -> exists ts, head_atom F = Some (p, ts) /\ List.length ts = n.
Proof. intros [ts B H|vs ts B H]; exists ts; auto. Qed.
Lemma def_shape_head_predicate p n F : def_shape p n F -> head_predicate F = Some (mkpred p n).
Proof.
  intros H. destruct (def_shape_head_atom p n F H) as [ts [E <-]]. rewrite head_predicate_atom, E. reflexivity.
Qed.

Lemma head_atom_quantify f vs : head_atom (quantify f QForall vs) = head_atom f.
Proof. destruct vs; reflexivity. Qed.

(* ------------------------------------------------------------------ generic: apply, compose, fixpoint *)
Lemma compose_inv (P : formula -> Prop) (rs : list (formula -> formula)) :
  Forall (fun r => forall x, P x -> P (r x)) rs -> forall x, P x -> P (compose rs x).
Proof.
  unfold compose. induction rs as [|r rs IH]; intros Hrs x Hx; cbn; [exact Hx|].
  inversion Hrs; subst. apply IH; auto.
Qed.
Lemma compose_fix (rs : list (formula -> formula)) x :
  Forall (fun r => r x = x) rs -> compose rs x = x.
Proof.
  unfold compose. induction rs as [|r rs IH]; intros Hrs; cbn; [reflexivity|].
  inversion Hrs; subst. rewrite H1. apply IH; auto.
Qed.
Lemma apply_fixpoint_from_inv (P : formula -> Prop) f :
  (forall x, P x -> P (apply f x)) ->
  forall fuel prev cur G, P cur -> apply_fixpoint_from fuel f prev cur = Some G -> P G.
Proof.
  intros Hf. induction fuel as [|n IH]; intros prev cur G Hc; cbn.
  - destruct (formula_eqb prev cur); [intros [= <-]; exact Hc|discriminate].
  - destruct (formula_eqb prev cur); [intros [= <-]; exact Hc|]. apply IH. apply Hf, Hc.
Qed.
Lemma apply_fixpoint_inv (P : formula -> Prop) f :
  (forall x, P x -> P (apply f x)) ->
  forall fuel x G, P x -> apply_fixpoint fuel f x = Some G -> P G.
Proof.
  intros Hf fuel x G Hx. unfold apply_fixpoint. apply (apply_fixpoint_from_inv P f Hf). apply Hf, Hx.
Qed.

(* ------------------------------------------------------------------ part 1: the head atom is kept *)
(* what a rewrite must satisfy: it is the identity on predicate atoms and keeps the head atom of
   the formula it is applied to (AT THE ROOT: `apply` calls it on every node, children first) *)
Definition keeps_head (r : formula -> formula) : Prop :=
  (forall p ts, r (FAtomic (AAtom p ts)) = FAtomic (AAtom p ts)) /\
  (forall x a, head_atom x = Some a -> head_atom (r x) = Some a).

(* the two shapes with a head atom *)
Lemma head_atom_cases x a : head_atom x = Some a ->
  (exists B, x = FBin CIff (FAtomic (AAtom (fst a) (snd a))) B) \/
  (exists vs g, x = FQ QForall vs g /\ head_atom g = Some a).
Proof.
  destruct x as [b|g|c l r|q vs g]; cbn; try discriminate.
  - destruct c; try discriminate. destruct l as [[| |p ts|]| | |]; try discriminate.
    intros [= <-]. left. eauto.
  - destruct q; try discriminate. intros H. right. eauto.
Qed.

Ltac head_split H :=
  match type of H with head_atom _ = Some ?a => try (is_var a; let hp := fresh "hp" in let hts := fresh "hts" in destruct a as [hp hts]) end;
  let B := fresh "B" in let vs := fresh "vs" in let g := fresh "g" in let Hg := fresh "Hg" in
  apply head_atom_cases in H; destruct H as [[B ->]|[vs [g [-> Hg]]]].

Lemma kh_evaluate_comparisons : keeps_head evaluate_comparisons.
Proof. split; [reflexivity|]. intros x a H. head_split H; cbn; auto. Qed.
Lemma kh_apply_negation_definition_inverse : keeps_head apply_negation_definition_inverse.
Proof. split; [reflexivity|]. intros x a H. head_split H; cbn; auto. Qed.
Lemma kh_apply_reverse_implication_definition : keeps_head apply_reverse_implication_definition.
Proof. split; [reflexivity|]. intros x a H. head_split H; cbn; auto. Qed.
Lemma kh_apply_equivalence_definition_inverse : keeps_head apply_equivalence_definition_inverse.
Proof. split; [reflexivity|]. intros x a H. head_split H; cbn; auto. Qed.
Lemma kh_remove_identities : keeps_head remove_identities.
Proof. split; [reflexivity|]. intros x a H. head_split H; cbn; auto. Qed.
Lemma kh_remove_annihilations : keeps_head remove_annihilations.
Proof. split; [reflexivity|]. intros x a H. head_split H; cbn; auto. Qed.
Lemma kh_remove_idempotences : keeps_head remove_idempotences.
Proof. split; [reflexivity|]. intros x a H. head_split H; cbn; auto. Qed.
(* a head variable cannot be dropped by this rewrite for a semantic reason (it occurs in the head
   atom); for the classification it would not even matter: only the block changes *)
Lemma kh_remove_orphaned_variables : keeps_head remove_orphaned_variables.
Proof. split; [reflexivity|]. intros x a H. head_split H; cbn; auto. Qed.
Lemma kh_remove_empty_quantifications : keeps_head remove_empty_quantifications.
Proof. split; [reflexivity|]. intros x a H. head_split H; cbn; auto. destruct vs; cbn; auto. Qed.
Lemma kh_join_nested_quantifiers : keeps_head join_nested_quantifiers.
Proof.
  split; [reflexivity|]. intros x a H. head_split H; cbn; auto.
  destruct g as [b|g'|c l r|q vs' g']; cbn; auto.
  destruct q; cbn in Hg; try discriminate. cbn. rewrite head_atom_quantify. exact Hg.
Qed.
Lemma kh_remove_double_negation : keeps_head remove_double_negation.
Proof. split; [reflexivity|]. intros x a H. head_split H; cbn; auto. Qed.
Lemma kh_substitute_defined_variables : keeps_head substitute_defined_variables.
Proof. split; [reflexivity|]. intros x a H. head_split H; cbn; auto. Qed.
(* the forall-case needs `forall Z (exists I (..) -> H)`: an implication, never `<->` or `forall` *)
Lemma kh_restrict_quantifier_domain : keeps_head restrict_quantifier_domain.
Proof.
  split; [reflexivity|]. intros x a H. head_split H; cbn; auto.
  unfold restrict_quantifier_domain, total. cbn [restrict_quantifier_domain_opt].
  destruct g as [b|g'|c l r|q vs' g']; cbn; auto.
  destruct c; cbn in Hg; try discriminate. cbn. exact Hg.
Qed.
(* `atom <-> exists ..` matches the second arm, whose connective test lets only and/or through *)
Lemma kh_extend_quantifier_scope : keeps_head extend_quantifier_scope.
Proof.
  split; [reflexivity|]. intros x a H. head_split H; cbn; auto.
  destruct B as [b|g'|c l r|q vs' g']; cbn; auto.
Qed.
Lemma kh_simplify_transitive_equality : keeps_head simplify_transitive_equality.
Proof. split; [reflexivity|]. intros x a H. head_split H; cbn; auto. Qed.

(* the portfolio of external_equivalence.rs: [INTUITIONISTIC, HT, CLASSIC].concat() *)
Definition FULL : list (formula -> formula) := INTUITIONISTIC ++ HT ++ CLASSIC.

Lemma FULL_keeps_head : Forall keeps_head FULL.
Proof.
  unfold FULL, INTUITIONISTIC, HT, CLASSIC. cbn [app].
  repeat apply Forall_cons; try apply Forall_nil;
    [ apply kh_evaluate_comparisons | apply kh_apply_negation_definition_inverse
    | apply kh_apply_reverse_implication_definition | apply kh_apply_equivalence_definition_inverse
    | apply kh_remove_identities | apply kh_remove_annihilations | apply kh_remove_idempotences
    | apply kh_remove_orphaned_variables | apply kh_remove_empty_quantifications
    | apply kh_join_nested_quantifiers | apply kh_remove_double_negation
    | apply kh_substitute_defined_variables | apply kh_restrict_quantifier_domain
    | apply kh_extend_quantifier_scope | apply kh_simplify_transitive_equality ].
Qed.

Lemma compose_keeps_head rs : Forall keeps_head rs -> keeps_head (compose rs).
Proof.
  intros H. split.
  - intros p ts. apply compose_fix. eapply Forall_impl; [|exact H]. intros r [Hr _]. apply Hr.
  - intros x a Hx. revert x Hx. apply (compose_inv (fun x => head_atom x = Some a)).
    eapply Forall_impl; [|exact H]. intros r [_ Hr] x. apply Hr.
Qed.

(* ONE pass of `apply s` (post-order, every node) keeps the head atom *)
Lemma apply_keeps_head s : keeps_head s -> forall F a, head_atom F = Some a -> head_atom (apply s F) = Some a.
Proof.
  intros [Hat Hroot]. induction F as [b|g IH|c l IHl r IHr|q vs g IH]; intros a H; cbn [apply].
  - discriminate.
  - discriminate.
  - apply Hroot. destruct c; cbn in H; try discriminate.
    destruct l as [[| |p ts|]| | |]; try discriminate. cbn [apply]. rewrite Hat. exact H.
  - apply Hroot. destruct q; cbn in H; try discriminate. cbn. apply IH, H.
Qed.

Theorem head_atom_pass F a :
  head_atom F = Some a -> head_atom (apply (compose FULL) F) = Some a.
Proof. apply apply_keeps_head, compose_keeps_head, FULL_keeps_head. Qed.

(* `f.apply_fixpoint(&mut portfolio)` *)
Theorem head_atom_stable F a fuel G :
  head_atom F = Some a -> apply_fixpoint fuel (compose FULL) F = Some G -> head_atom G = Some a.
Proof.
  intros H. apply (apply_fixpoint_inv (fun x => head_atom x = Some a)); [|exact H].
  intros x. apply head_atom_pass.
Qed.

Theorem head_predicate_some_stable F p fuel G :
  head_predicate F = Some p -> apply_fixpoint fuel (compose FULL) F = Some G -> head_predicate G = Some p.
Proof.
  rewrite !head_predicate_atom. destruct (head_atom F) as [a|] eqn:E; [|discriminate].
  intros [= <-] HG. rewrite (head_atom_stable F a fuel G E HG). reflexivity.
Qed.

Theorem head_predicate_stable p n F :
  def_shape p n F -> forall fuel G,
    apply_fixpoint fuel (compose FULL) F = Some G -> head_predicate G = head_predicate F.
Proof.
  intros H fuel G HG. rewrite (def_shape_head_predicate p n F H).
  apply (head_predicate_some_stable F _ fuel G); [apply (def_shape_head_predicate p n F H)|exact HG].
Qed.

(* ------------------------------------------------------------------ part 2: implication-free formulas *)
(* no `->`, `<-`, `<->` anywhere: the bodies tau* produces *)
Fixpoint imp_free (f : formula) : bool :=
  match f with
  | FAtomic _ => true
  | FNot g => imp_free g
  | FBin c l r => match c with CAnd | COr => imp_free l && imp_free r | _ => false end
  | FQ _ _ g => imp_free g
  end.

Lemma imp_free_no_head f : imp_free f = true -> head_atom f = None.
Proof.
  induction f as [a|g IH|c l IHl r IHr|q vs g IH]; cbn; auto.
  - destruct c; try discriminate; reflexivity.
  - destruct q; auto.
Qed.

Ltac ksolve :=
  cbn in *;
  repeat match goal with
         | H : _ && _ = true |- _ => apply andb_true_iff in H; destruct H
         | |- _ && _ = true => apply andb_true_iff; split
         end; try discriminate; auto.

Lemma imp_free_quantify f q vs : imp_free (quantify f q vs) = imp_free f.
Proof. destruct vs; reflexivity. Qed.
Lemma imp_free_fold (c : bconn) (Hc : c = CAnd \/ c = COr) xs : forall x,
  imp_free x = true -> forallb imp_free xs = true ->
  imp_free (fold_left (fun acc e => FBin c acc e) xs x) = true.
Proof.
  induction xs as [|y xs IH]; intros x Hx Hxs; cbn; [exact Hx|].
  cbn in Hxs. apply andb_true_iff in Hxs. destruct Hxs as [Hy Hxs].
  apply IH; auto. destruct Hc as [-> | ->]; cbn; rewrite Hx, Hy; reflexivity.
Qed.
Lemma imp_free_conjoin l : forallb imp_free l = true -> imp_free (conjoin l) = true.
Proof.
  destruct l as [|x xs]; cbn; [reflexivity|]. intros H. apply andb_true_iff in H. destruct H.
  apply imp_free_fold; auto.
Qed.
Lemma imp_free_disjoin l : forallb imp_free l = true -> imp_free (disjoin l) = true.
Proof.
  destruct l as [|x xs]; cbn; [reflexivity|]. intros H. apply andb_true_iff in H. destruct H.
  apply imp_free_fold; auto.
Qed.
Lemma imp_free_conjoin_invert F : imp_free F = true -> forallb imp_free (conjoin_invert F) = true.
Proof.
  induction F as [a|g IH|c l IHl r IHr|q vs g IH]; cbn [conjoin_invert]; intros H.
  - reflexivity.
  - cbn in *. rewrite H. reflexivity.
  - destruct c; try (cbn in H; discriminate).
    + cbn in H. apply andb_true_iff in H. destruct H. rewrite forallb_app, IHl, IHr; auto.
    + cbn in *. rewrite H. reflexivity.
  - cbn in *. rewrite H. reflexivity.
Qed.
Lemma forallb_filter {A} (p q : A -> bool) l : forallb p l = true -> forallb p (filter q l) = true.
Proof.
  induction l as [|x l IH]; cbn; auto. intros H. apply andb_true_iff in H. destruct H.
  destruct (q x); cbn; auto. rewrite H. auto.
Qed.

(* substitution changes terms and bound names only *)
Section RenameBlockInv.
Variable P : formula -> Prop.
Variable sub : formula -> var -> gterm -> option formula.
Variables tvs avoid0 : list var.
Hypothesis Hsub : forall f v t f1, sub f v t = Some f1 -> P f -> P f1.
Lemma rb_inv : forall vs f ch f' o, rename_block sub tvs avoid0 vs f ch = Some (f', o) -> P f -> P f'.
Proof.
  induction vs as [|v vs IH]; intros f ch f' o EQ Hf.
  - cbn in EQ. inversion EQ; subst. exact Hf.
  - apply rb_cons_inv in EQ. destruct EQ as [[_ [f1 [o1 [E1 [E2 _]]]]]|[_ [o1 [E2 _]]]].
    + eapply IH; eauto.
    + eapply IH; eauto.
Qed.
End RenameBlockInv.

Lemma subst_fuel_imp_free n : forall F x t G,
  subst_fuel n F x t = Some G -> imp_free F = true -> imp_free G = true.
Proof.
  induction n as [|n IH]; intros F x t G; [cbn; intros [= <-]; auto|].
  destruct F as [a|g|c l r|q vs g]; intros E HF.
  - apply subst_atomic_inv in E. destruct E as [a' [_ ->]]. reflexivity.
  - apply subst_not_inv in E. destruct E as [g' [E ->]]. cbn. eapply IH; eauto.
  - apply subst_bin_inv in E. destruct E as [l' [r' [El [Er ->]]]].
    destruct c; ksolve; eapply IH; eauto.
  - apply subst_q_inv in E. destruct E as [[_ ->]|[_ [f' [vs' [f'' [Erb [Es ->]]]]]]]; [exact HF|].
    rewrite imp_free_quantify. eapply IH; [exact Es|].
    eapply (rb_inv (fun f => imp_free f = true)); [|exact Erb|exact HF]. intros f v t0 f1. apply IH.
Qed.
Lemma substitute_imp_free F x t G : substitute F x t = Some G -> imp_free F = true -> imp_free G = true.
Proof. apply subst_fuel_imp_free. Qed.

(* what the loops of the two `unstable` rewrites can return (Proofs/SimplClassicOk.v has the loop
   invariants; here only the syntactic form of a hit is needed) *)
Lemma rqd_cases F G : restrict_quantifier_domain_opt F = Some G ->
  G = F \/ exists ivar ovar comp, replacement_helper ivar ovar comp F = Some (G, true).
Proof.
  destruct F as [a|g|c l r|q outer body]; cbn [restrict_quantifier_domain_opt]; try (intros [= <-]; auto).
  destruct q.
  - destruct body as [a|g|c lhs rhs|q' vs' g]; try (intros [= <-]; auto).
    destruct c; try (intros [= <-]; auto).
    destruct lhs as [a|g|c l r|q' inner inner_formula]; try (intros [= <-]; auto).
    destruct q'; try (intros [= <-]; auto).
    set (F := FQ QForall outer (FBin CImp (FQ QExists inner inner_formula) rhs)).
    fold (cond_all inner rhs).
    match goal with |- option_map fst ?x = _ -> _ => destruct x as [s'|] eqn:L end; [|discriminate].
    cbn [option_map]. intros [= <-].
    assert (P : fst s' = F \/ rqd_hit F outer inner (cond_all inner rhs) (conjoin_invert inner_formula) (fst s')).
    { revert L.
      apply (for_break_inv (fun s => fst s = F \/
               rqd_hit F outer inner (cond_all inner rhs) (conjoin_invert inner_formula) (fst s)));
        [|left; reflexivity].
      intros s0 x s2 b0 Hx P0.
      apply (rqd_comp_body_inv F outer inner (cond_all inner rhs) (conjoin_invert inner_formula)
               (fun s => fst s = F \/
                  rqd_hit F outer inner (cond_all inner rhs) (conjoin_invert inner_formula) (fst s))
               (fun G HG => or_intror HG) false s0 x s2 b0 Hx P0). }
    destruct P as [->|[ivar [ovar [comp [_ [_ [_ [_ [_ R]]]]]]]]]; [left; reflexivity|right; eauto].
  - destruct body as [a|g|c lhs rhs|q' vs' g]; try (intros [= <-]; auto).
    destruct c; try (intros [= <-]; auto).
    set (F := FQ QExists outer (FBin CAnd lhs rhs)).
    set (cts := conjoin_invert lhs ++ conjoin_invert rhs).
    match goal with |- option_map fst ?x = _ -> _ => destruct x as [s'|] eqn:L end; [|discriminate].
    cbn [option_map]. intros [= <-].
    assert (P : fst s' = F \/ rqd_hit_ex F outer cts (fst s')).
    { revert L. apply (for_break_inv (fun s => fst s = F \/ rqd_hit_ex F outer cts (fst s))); [|left; reflexivity].
      intros s0 x s2 b0 Hx P0. apply (rqd_ct_body_inv F outer cts s0 x s2 b0 Hx P0). }
    destruct P as [->|[inner [inner_formula [_ [ivar [ovar [comp [_ [_ [_ [_ [_ R]]]]]]]]]]]];
      [left; reflexivity|right; eauto].
Qed.

Lemma ste_cases F G : simplify_transitive_equality_opt F = Some G ->
  G = F \/ exists vs f, F = FQ QExists vs f /\ ste_good vs (conjoin_invert f) G.
Proof.
  destruct F as [a|g|c l r|q vs f]; cbn [simplify_transitive_equality_opt]; try (intros [= <-]; auto).
  destruct q; try (intros [= <-]; auto).
  destruct f as [a|g|c l r|q' vs' g]; try (intros [= <-]; auto).
  destruct c; try (intros [= <-]; auto).
  set (f := FBin CAnd l r). set (F := FQ QExists vs f).
  destruct (for_break (ste_outer_body vs (conjoin_invert f)) (F, false) (enumerate (conjoin_invert f)))
    as [s'|] eqn:L; [|discriminate].
  cbn [option_map]. intros [= <-].
  assert (P : fst s' = F \/ ste_good vs (conjoin_invert f) (fst s')).
  { revert L. apply (for_break_inv (fun s => fst s = F \/ ste_good vs (conjoin_invert f) (fst s))); [|left; reflexivity].
    intros s0 x s2 b0 Hx P0. apply (ste_outer_body_inv F vs (conjoin_invert f)); auto.
    destruct x as [j ct]. cbn [snd]. eapply in_enumerate; eauto. }
  destruct P as [->|P]; [left; reflexivity|right; exists vs, f; auto].
Qed.

(* a generic view of a restrict_quantifier_domain hit: the block changes, the body is substituted *)
Lemma rqd_hit_form F G : restrict_quantifier_domain_opt F = Some G ->
  G = F \/ exists q vars f vars' x t f', F = FQ q vars f /\ substitute f x t = Some f' /\ G = FQ q vars' f'.
Proof.
  intros H. apply rqd_cases in H. destruct H as [->|[ivar [ovar [comp R]]]]; [auto|right].
  apply replacement_helper_true in R. destruct R as [_ [q [vars [f [fvar [f' [-> [_ [Sub ->]]]]]]]]].
  do 7 eexists. split; [reflexivity|]. split; [exact Sub|reflexivity].
Qed.

Definition keeps_K (r : formula -> formula) : Prop := forall x, imp_free x = true -> imp_free (r x) = true.

Lemma evaluate_comparisons_guards_atomic gs : forall t, forallb imp_free (evaluate_comparisons_guards t gs) = true.
Proof. induction gs as [|g gs IH]; intros t; cbn; auto. Qed.
Lemma kK_evaluate_comparisons : keeps_K evaluate_comparisons.
Proof.
  intros x H. destruct x as [[| | |t gs]|g|c l r|q vs g]; cbn [evaluate_comparisons]; auto.
  apply imp_free_conjoin, evaluate_comparisons_guards_atomic.
Qed.
Lemma kK_apply_negation_definition_inverse : keeps_K apply_negation_definition_inverse.
Proof. intros x H. destruct x as [a|g|c l r|q vs g]; auto. destruct c; ksolve. Qed.
Lemma kK_apply_reverse_implication_definition : keeps_K apply_reverse_implication_definition.
Proof. intros x H. destruct x as [a|g|c l r|q vs g]; auto. destruct c; ksolve. Qed.
Lemma kK_apply_equivalence_definition_inverse : keeps_K apply_equivalence_definition_inverse.
Proof.
  intros x H. destruct x as [a|g|c l r|q vs g]; auto. destruct c; try (cbn in H; discriminate); auto.
  cbn in H. apply andb_true_iff in H. destruct H as [Hl Hr].
  destruct l as [a|g|c1 l1 r1|q1 vs1 g1]; try (cbn; rewrite Hr; ksolve; fail).
  destruct c1; try (cbn in Hl; discriminate).
  - destruct r as [a|g|c2 l2 r2|q2 vs2 g2]; cbn in *; rewrite ?Hl, ?Hr; auto.
  - destruct r as [a|g|c2 l2 r2|q2 vs2 g2]; cbn in *; rewrite ?Hl, ?Hr; auto.
Qed.
Lemma kK_remove_identities : keeps_K remove_identities.
Proof.
  intros x H. destruct x as [a|g|c l r|q vs g]; auto.
  destruct c; try (cbn in H; discriminate);
    destruct l as [[| | |]| | |]; destruct r as [[| | |]| | |]; ksolve.
Qed.
Lemma kK_remove_annihilations : keeps_K remove_annihilations.
Proof.
  intros x H. destruct x as [a|g|c l r|q vs g]; auto.
  destruct c; try (cbn in H; discriminate);
    destruct l as [[| | |]| | |]; destruct r as [[| | |]| | |]; ksolve.
Qed.
Lemma kK_remove_idempotences : keeps_K remove_idempotences.
Proof.
  intros x H. destruct x as [a|g|c l r|q vs g]; auto.
  destruct c; try (cbn in H; discriminate); cbn [remove_idempotences]; destruct (formula_eqb l r); ksolve.
Qed.
Lemma kK_remove_orphaned_variables : keeps_K remove_orphaned_variables.
Proof. intros x H. destruct x as [a|g|c l r|q vs g]; auto. Qed.
Lemma kK_remove_empty_quantifications : keeps_K remove_empty_quantifications.
Proof. intros x H. destruct x as [a|g|c l r|q vs g]; auto. destruct vs; auto. Qed.
Lemma kK_join_nested_quantifiers : keeps_K join_nested_quantifiers.
Proof.
  intros x H. destruct x as [a|g|c l r|q vs g]; auto. destruct g as [a|g'|c l r|q' vs' g']; auto.
  cbn [join_nested_quantifiers]. destruct (quant_dec q q'); auto. rewrite imp_free_quantify. exact H.
Qed.
Lemma kK_remove_double_negation : keeps_K remove_double_negation.
Proof. intros x H. destruct x as [a|g|c l r|q vs g]; auto. destruct g; auto. Qed.

Lemma sdv_loop_inv (P : formula -> Prop) :
  (forall f v t f1, substitute f v t = Some f1 -> P f -> P f1) ->
  forall vs f f', sdv_loop vs f = Some f' -> P f -> P f'.
Proof.
  intros HP. induction vs as [|v vs IH]; intros f f'; cbn [sdv_loop]; [intros [= <-]; auto|].
  destruct (find_definition v f) as [d|]; [|apply IH].
  destruct (substitute f v d) as [f1|] eqn:E; [|discriminate]. intros H Hf. eapply IH; eauto.
Qed.
Lemma kK_substitute_defined_variables : keeps_K substitute_defined_variables.
Proof.
  intros x H. unfold substitute_defined_variables, total.
  destruct x as [a|g|c l r|q vs g]; auto. destruct q; auto. cbn [substitute_defined_variables_opt].
  destruct (sdv_loop (rev vs) g) as [g'|] eqn:E; [|exact H].
  rewrite imp_free_quantify.
  apply (sdv_loop_inv (fun f => imp_free f = true) substitute_imp_free _ _ _ E). exact H.
Qed.
Lemma kK_restrict_quantifier_domain : keeps_K restrict_quantifier_domain.
Proof.
  intros x H. unfold restrict_quantifier_domain, total.
  destruct (restrict_quantifier_domain_opt x) as [G|] eqn:E; [|exact H].
  apply rqd_hit_form in E. destruct E as [->|[q [vars [f [vars' [v [t [f' [-> [Sub ->]]]]]]]]]]; [exact H|].
  cbn in *. eapply substitute_imp_free; eauto.
Qed.
Lemma kK_extend_quantifier_scope : keeps_K extend_quantifier_scope.
Proof.
  intros x H. destruct x as [a|g|c l r|q vs g]; auto.
  destruct c; try (cbn in H; discriminate);
    destruct l as [a|g|c1 l1 r1|q1 vs1 g1]; destruct r as [a'|g'|c2 l2 r2|q2 vs2 g2]; auto;
    cbn [extend_quantifier_scope];
    try match goal with |- context [collision ?a ?b] => destruct (collision a b) end; ksolve.
Qed.
Lemma kK_simplify_transitive_equality : keeps_K simplify_transitive_equality.
Proof.
  intros x H. unfold simplify_transitive_equality, total.
  destruct (simplify_transitive_equality_opt x) as [G|] eqn:E; [|exact H].
  apply ste_cases in E. destruct E as [->|[vs [f [-> [c1 [c2 [k [d [dt [inner [_ [_ [_ [_ [_ [_ [Sub ->]]]]]]]]]]]]]]]]]; [exact H|].
  cbn in *. eapply substitute_imp_free; [exact Sub|].
  apply imp_free_conjoin, forallb_filter, imp_free_conjoin_invert, H.
Qed.

Lemma FULL_keeps_K : Forall keeps_K FULL.
Proof.
  unfold FULL, INTUITIONISTIC, HT, CLASSIC. cbn [app].
  repeat apply Forall_cons; try apply Forall_nil;
    [ apply kK_evaluate_comparisons | apply kK_apply_negation_definition_inverse
    | apply kK_apply_reverse_implication_definition | apply kK_apply_equivalence_definition_inverse
    | apply kK_remove_identities | apply kK_remove_annihilations | apply kK_remove_idempotences
    | apply kK_remove_orphaned_variables | apply kK_remove_empty_quantifications
    | apply kK_join_nested_quantifiers | apply kK_remove_double_negation
    | apply kK_substitute_defined_variables | apply kK_restrict_quantifier_domain
    | apply kK_extend_quantifier_scope | apply kK_simplify_transitive_equality ].
Qed.

Lemma apply_keeps_K s : keeps_K s -> keeps_K (apply s).
Proof.
  intros Hs. intros F. induction F as [a|g IH|c l IHl r IHr|q vs g IH]; intros H; cbn [apply]; apply Hs.
  - reflexivity.
  - cbn in *. auto.
  - destruct c; ksolve.
  - cbn in *. auto.
Qed.
Lemma compose_keeps_K rs : Forall keeps_K rs -> keeps_K (compose rs).
Proof. intros H x. apply (compose_inv (fun x => imp_free x = true)). exact H. Qed.
Theorem imp_free_pass F : imp_free F = true -> imp_free (apply (compose FULL) F) = true.
Proof. apply apply_keeps_K, compose_keeps_K, FULL_keeps_K. Qed.

(* ------------------------------------------------------------------ part 3: constraints stay constraints *)
(* the constraints of a completed theory, and everything the portfolio can turn them into:
   [forall V ..] (B -> #false), [forall V ..] (#false <- B) with B implication-free, or an
   implication-free formula (after `F -> #false => not F`) *)
Inductive cs_shape : formula -> Prop :=
| cs_K F : imp_free F = true -> cs_shape F
| cs_imp B : imp_free B = true -> cs_shape (FBin CImp B ffalse)
| cs_rimp B : imp_free B = true -> cs_shape (FBin CRimp ffalse B)
| cs_forall vs F : cs_shape F -> cs_shape (FQ QForall vs F).

Lemma cs_shape_no_head F : cs_shape F -> head_atom F = None.
Proof. induction 1; cbn; auto. apply imp_free_no_head; auto. Qed.
Lemma cs_shape_body q vs F : cs_shape (FQ q vs F) -> cs_shape F.
Proof. intros H. inversion H; subst; auto. apply cs_K. assumption. Qed.
Lemma cs_quantify F vs : cs_shape F -> cs_shape (quantify F QForall vs).
Proof. destruct vs; cbn; auto. apply cs_forall. Qed.

Lemma subst_fuel_ffalse n x t : subst_fuel n ffalse x t = Some ffalse.
Proof. destruct n; reflexivity. Qed.
Lemma subst_fuel_cs n : forall F x t G, subst_fuel n F x t = Some G -> cs_shape F -> cs_shape G.
Proof.
  induction n as [|n IH]; intros F x t G; [cbn; intros [= <-]; auto|].
  intros E HF. inversion HF; subst.
  - apply cs_K. eapply subst_fuel_imp_free; eauto.
  - apply subst_bin_inv in E. destruct E as [l' [r' [El [Er ->]]]].
    rewrite subst_fuel_ffalse in Er. injection Er as <-. apply cs_imp. eapply subst_fuel_imp_free; eauto.
  - apply subst_bin_inv in E. destruct E as [l' [r' [El [Er ->]]]].
    rewrite subst_fuel_ffalse in El. injection El as <-. apply cs_rimp. eapply subst_fuel_imp_free; eauto.
  - apply subst_q_inv in E. destruct E as [[_ ->]|[_ [f' [vs' [f'' [Erb [Es ->]]]]]]]; [exact HF|].
    apply cs_quantify. eapply IH; [exact Es|].
    eapply (rb_inv cs_shape); [|exact Erb|assumption]. intros f v t0 f1. apply IH.
Qed.

(* identity on #false, closed on cs_shape at the root *)
Definition keeps_cs (r : formula -> formula) : Prop :=
  r ffalse = ffalse /\ forall x, cs_shape x -> cs_shape (r x).

Ltac cs_cases H HK :=
  inversion H as [F0 HF0|B0 HB0|B0 HB0|vs0 F0 HF0]; subst; [apply cs_K, HK; assumption| | |].

Lemma kc_evaluate_comparisons : keeps_cs evaluate_comparisons.
Proof. split; [reflexivity|]. intros x H. cs_cases H kK_evaluate_comparisons; cbn; auto. Qed.
Lemma kc_apply_negation_definition_inverse : keeps_cs apply_negation_definition_inverse.
Proof.
  split; [reflexivity|]. intros x H. cs_cases H kK_apply_negation_definition_inverse; cbn; auto.
  apply cs_K. exact HB0.
Qed.
Lemma kc_apply_reverse_implication_definition : keeps_cs apply_reverse_implication_definition.
Proof.
  split; [reflexivity|]. intros x H. cs_cases H kK_apply_reverse_implication_definition; cbn; auto.
  apply cs_imp. exact HB0.
Qed.
Lemma kc_apply_equivalence_definition_inverse : keeps_cs apply_equivalence_definition_inverse.
Proof. split; [reflexivity|]. intros x H. cs_cases H kK_apply_equivalence_definition_inverse; cbn; auto. Qed.
Lemma kc_remove_identities : keeps_cs remove_identities.
Proof.
  split; [reflexivity|]. intros x H. cs_cases H kK_remove_identities; cbn; auto.
  destruct B0 as [[| | |]| | |]; auto. apply cs_K. reflexivity.
Qed.
Lemma kc_remove_annihilations : keeps_cs remove_annihilations.
Proof.
  split; [reflexivity|]. intros x H. cs_cases H kK_remove_annihilations; try (cbn; auto; fail).
  destruct B0 as [[| | |]| | |]; cbn; auto; try (apply cs_K; reflexivity);
    match goal with |- context [formula_eqb ?a ?b] => destruct (formula_eqb a b) end; auto; apply cs_K; reflexivity.
Qed.
Lemma kc_remove_idempotences : keeps_cs remove_idempotences.
Proof. split; [reflexivity|]. intros x H. cs_cases H kK_remove_idempotences; cbn; auto. Qed.
Lemma kc_remove_orphaned_variables : keeps_cs remove_orphaned_variables.
Proof.
  split; [reflexivity|]. intros x H. cs_cases H kK_remove_orphaned_variables; cbn; auto.
  apply cs_forall. assumption.
Qed.
Lemma kc_remove_empty_quantifications : keeps_cs remove_empty_quantifications.
Proof.
  split; [reflexivity|]. intros x H. cs_cases H kK_remove_empty_quantifications; cbn; auto.
  destruct vs0; auto.
Qed.
Lemma kc_join_nested_quantifiers : keeps_cs join_nested_quantifiers.
Proof.
  split; [reflexivity|]. intros x H. cs_cases H kK_join_nested_quantifiers; try (cbn; auto; fail).
  destruct F0 as [a|g'|c l r|q' vs' g']; try exact H. destruct q'; [|exact H].
  cbn. apply cs_quantify. eapply cs_shape_body; eauto.
Qed.
Lemma kc_remove_double_negation : keeps_cs remove_double_negation.
Proof. split; [reflexivity|]. intros x H. cs_cases H kK_remove_double_negation; cbn; auto. Qed.
Lemma kc_substitute_defined_variables : keeps_cs substitute_defined_variables.
Proof. split; [reflexivity|]. intros x H. cs_cases H kK_substitute_defined_variables; cbn; auto. Qed.
(* forall Z (exists I (I = Z and G) -> #false) IS a redex of the forall-case: the block changes and
   Z is substituted in the body, which stays `_ -> #false` *)
Lemma kc_restrict_quantifier_domain : keeps_cs restrict_quantifier_domain.
Proof.
  split; [reflexivity|]. intros x H. cs_cases H kK_restrict_quantifier_domain; try (cbn; auto; fail).
  unfold restrict_quantifier_domain, total.
  destruct (restrict_quantifier_domain_opt (FQ QForall vs0 F0)) as [G|] eqn:E; [|exact H].
  apply rqd_hit_form in E. destruct E as [->|[q [vars [f [vars' [v [t [f' [EF [Sub ->]]]]]]]]]]; [exact H|].
  injection EF as <- <- <-. apply cs_forall. eapply subst_fuel_cs; eauto.
Qed.
Lemma kc_extend_quantifier_scope : keeps_cs extend_quantifier_scope.
Proof.
  split; [reflexivity|]. intros x H. cs_cases H kK_extend_quantifier_scope; cbn; auto.
  - destruct B0; auto.
  - destruct B0; auto.
Qed.
Lemma kc_simplify_transitive_equality : keeps_cs simplify_transitive_equality.
Proof. split; [reflexivity|]. intros x H. cs_cases H kK_simplify_transitive_equality; cbn; auto. Qed.

Lemma FULL_keeps_cs : Forall keeps_cs FULL.
Proof.
  unfold FULL, INTUITIONISTIC, HT, CLASSIC. cbn [app].
  repeat apply Forall_cons; try apply Forall_nil;
    [ apply kc_evaluate_comparisons | apply kc_apply_negation_definition_inverse
    | apply kc_apply_reverse_implication_definition | apply kc_apply_equivalence_definition_inverse
    | apply kc_remove_identities | apply kc_remove_annihilations | apply kc_remove_idempotences
    | apply kc_remove_orphaned_variables | apply kc_remove_empty_quantifications
    | apply kc_join_nested_quantifiers | apply kc_remove_double_negation
    | apply kc_substitute_defined_variables | apply kc_restrict_quantifier_domain
    | apply kc_extend_quantifier_scope | apply kc_simplify_transitive_equality ].
Qed.
Lemma compose_keeps_cs rs : Forall keeps_cs rs -> keeps_cs (compose rs).
Proof.
  intros H. split.
  - apply compose_fix. eapply Forall_impl; [|exact H]. intros r [Hr _]. exact Hr.
  - apply (compose_inv cs_shape). eapply Forall_impl; [|exact H]. intros r [_ Hr]. exact Hr.
Qed.

Lemma apply_keeps_cs s : keeps_K s -> keeps_cs s -> forall F, cs_shape F -> cs_shape (apply s F).
Proof.
  intros HK [Hff Hroot] F H. induction H as [F HF|B HB|B HB|vs F HF IH].
  - apply cs_K. apply apply_keeps_K; assumption.
  - cbn [apply ffalse]. apply Hroot. fold ffalse. rewrite Hff. apply cs_imp. apply apply_keeps_K; assumption.
  - cbn [apply ffalse]. apply Hroot. fold ffalse. rewrite Hff. apply cs_rimp. apply apply_keeps_K; assumption.
  - cbn [apply]. apply Hroot. apply cs_forall. exact IH.
Qed.

Theorem cs_shape_pass F : cs_shape F -> cs_shape (apply (compose FULL) F).
Proof.
  apply apply_keeps_cs; [apply compose_keeps_K, FULL_keeps_K|apply compose_keeps_cs, FULL_keeps_cs].
Qed.

(* a constraint is never turned into something head_predicate recognises *)
Theorem constraint_stable F fuel G :
  cs_shape F -> apply_fixpoint fuel (compose FULL) F = Some G -> head_predicate G = None.
Proof.
  intros H HG. rewrite head_predicate_atom.
  rewrite (cs_shape_no_head G); [reflexivity|].
  revert HG. apply (apply_fixpoint_inv cs_shape); [apply cs_shape_pass|exact H].
Qed.

(* both directions: the classification of a completed theory's formula is invariant *)
Definition classified (F : formula) : Prop := (exists a, head_atom F = Some a) \/ cs_shape F.

Theorem head_predicate_invariant F fuel G :
  classified F -> apply_fixpoint fuel (compose FULL) F = Some G ->
  head_predicate G = head_predicate F /\ classified G.
Proof.
  intros [[a Ha]|Hc] HG.
  - pose proof (head_atom_stable F a fuel G Ha HG) as Ha'. split; [|left; eauto].
    rewrite !head_predicate_atom, Ha, Ha'. reflexivity.
  - assert (HcG : cs_shape G).
    { revert HG. apply (apply_fixpoint_inv cs_shape); [apply cs_shape_pass|exact Hc]. }
    split; [|right; exact HcG].
    rewrite !head_predicate_atom, (cs_shape_no_head F Hc), (cs_shape_no_head G HcG). reflexivity.
Qed.

(* ------------------------------------------------------------------ control_translate *)
(* same names, roles, directions; the formulas are the simplified ones *)
Definition annot_map (s : formula -> formula) (a : aformula_annot) : aformula_annot :=
  mkannot (an_role a) (an_dir a) (an_name a) (s (an_formula a)).

Lemma control_translate_from_map (s : formula -> formula) public th :
  (forall f, In f th -> head_predicate (s f) = head_predicate f) ->
  forall k, control_translate_from public k (map s th) = map (annot_map s) (control_translate_from public k th).
Proof.
  induction th as [|f th IH]; intros H k; cbn [map control_translate_from]; [reflexivity|].
  rewrite (H f (or_introl eq_refl)).
  assert (H' : forall g, In g th -> head_predicate (s g) = head_predicate g) by (intros g Hg; apply H; right; exact Hg).
  destruct (head_predicate f) as [p|]; cbn [map]; rewrite (IH H'); reflexivity.
Qed.

