(* Role stability of external equivalence (hypothesis 1 of docs/C02full.md, the missing half of C19):

     external_equivalence.rs classifies the formulas of a completed theory AFTER simplification by
     their syntactic shape ([head_predicate]: a block of `forall`s over `atom <-> _`).  This file
     proves that the portfolio `[INTUITIONISTIC, HT, CLASSIC].concat()` applied with
     `apply_fixpoint` (Model/Apply.v) never changes that classification on the formulas
     `completion` produces:

     * [head_atom_stable]: if [head_atom F = Some a] (any formula, not only completed definitions)
       then every pass of the composed portfolio, and hence the fixpoint, keeps the same head atom:
       no rewrite of the three portfolios matches an `<->` node (apply_equivalence_definition, the
       only rewrite that would, is `#[allow(dead_code)]` and in no portfolio), none matches a
       predicate atom, and the rewrites that match a `forall` node (remove_orphaned_variables,
       remove_empty_quantifications, join_nested_quantifiers, restrict_quantifier_domain) only
       change the variable block, remove an empty block or merge two `forall` blocks - shapes that
       [head_predicate] looks through.
     * [constraint_stable]: the other direction.  `apply_equivalence_definition_inverse`
       ((F -> G) and (G -> F) => F <-> G) CAN create an `<->` node, so a formula that is not a
       definition could become one.  It cannot happen to the constraints of a completed tau*
       theory: they are `forall V (B -> #false)` with B free of `->`, `<-`, `<->` ([imp_free]),
       the class of imp_free formulas is closed under all 15 rewrites (including the three that
       substitute), and an imp_free formula has no head atom.  *)
From Coq Require Import List Ascii String ZArith NArith Bool Lia.
From Anthem Require Import Base.ISet Base.Fresh Syntax.Fol Model.Apply Model.Subst
  Model.SimplIntuit Model.SimplClassic Model.External
  Proofs.SubstOk Proofs.SimplClassicBase Proofs.SimplClassicOk.
Import ListNotations.
Open Scope string_scope.
Open Scope list_scope.

(* ------------------------------------------------------------------ the recognised shape *)
(* head_predicate with the whole atom kept *)
Fixpoint head_atom (f : formula) : option (string * list gterm) :=
  match f with
  | FBin CIff (FAtomic (AAtom p ts)) _ => Some (p, ts)
  | FQ QForall _ g => head_atom g
  | _ => None
  end.
Definition atom_pred (a : string * list gterm) : pred := mkpred (fst a) (List.length (snd a)).

Lemma head_predicate_atom f : head_predicate f = option_map atom_pred (head_atom f).
Proof.
  induction f as [a|g IH|c l IHl r IHr|q vs g IH]; cbn; try reflexivity.
  - destruct c; try reflexivity. destruct l as [[| |p ts|]| | |]; reflexivity.
  - destruct q; [exact IH|reflexivity].
Qed.

(* F is syntactically a completed definition of p/n as `completion` emits it:
   forall V (p(t1..tn) <-> B) with a non-empty block V, or p(t1..tn) <-> B without quantifier *)
Inductive def_shape (p : string) (n : nat) : formula -> Prop :=
| ds_prop ts B : List.length ts = n -> def_shape p n (FBin CIff (FAtomic (AAtom p ts)) B)
| ds_forall vs ts B : List.length ts = n -> def_shape p n (FQ QForall vs (FBin CIff (FAtomic (AAtom p ts)) B)).

Lemma def_shape_head_atom p n F : def_shape p n F -> exists ts, head_atom F = Some (p, ts) /\ List.length ts = n.
Proof. intros [ts B H|vs ts B H]; exists ts; auto. Qed.
Lemma def_shape_head_predicate p n F : def_shape p n F -> head_predicate F = Some (mkpred p n).
Proof.
  intros H. destruct (def_shape_head_atom p n F H) as [ts [E <-]]. rewrite head_predicate_atom, E. reflexivity.
Qed.

Lemma head_atom_quantify f vs : head_atom (quantify f QForall vs) = head_atom f.
Proof. destruct vs; reflexivity. Qed.

(* ------------------------------------------------------------------ generic: apply, compose, fixpoint *)
Lemma compose_inv (P : formula -> Prop) (rs : list (formula -> formula)) :
  Forall (fun r => forall x, P x -> P (r x)) rs -> forall x, P x -> P (compose rs x).
Proof.
  unfold compose. induction rs as [|r rs IH]; intros Hrs x Hx; cbn; [exact Hx|].
  inversion Hrs; subst. apply IH; auto.
Qed.
Lemma compose_fix (rs : list (formula -> formula)) x :
  Forall (fun r => r x = x) rs -> compose rs x = x.
Proof.
  unfold compose. induction rs as [|r rs IH]; intros Hrs; cbn; [reflexivity|].
  inversion Hrs; subst. rewrite H1. apply IH; auto.
Qed.
Lemma apply_fixpoint_from_inv (P : formula -> Prop) f :
  (forall x, P x -> P (apply f x)) ->
  forall fuel prev cur G, P cur -> apply_fixpoint_from fuel f prev cur = Some G -> P G.
Proof.
  intros Hf. induction fuel as [|n IH]; intros prev cur G Hc; cbn.
  - destruct (formula_eqb prev cur); [intros [= <-]; exact Hc|discriminate].
  - destruct (formula_eqb prev cur); [intros [= <-]; exact Hc|]. apply IH. apply Hf, Hc.
Qed.
Lemma apply_fixpoint_inv (P : formula -> Prop) f :
  (forall x, P x -> P (apply f x)) ->
  forall fuel x G, P x -> apply_fixpoint fuel f x = Some G -> P G.
Proof.
  intros Hf fuel x G Hx. unfold apply_fixpoint. apply (apply_fixpoint_from_inv P f Hf). apply Hf, Hx.
Qed.

(* ------------------------------------------------------------------ part 1: the head atom is kept *)
(* what a rewrite must satisfy: it is the identity on predicate atoms and keeps the head atom of
   the formula it is applied to (AT THE ROOT: `apply` calls it on every node, children first) *)
Definition keeps_head (r : formula -> formula) : Prop :=
  (forall p ts, r (FAtomic (AAtom p ts)) = FAtomic (AAtom p ts)) /\
  (forall x a, head_atom x = Some a -> head_atom (r x) = Some a).

(* the two shapes with a head atom *)
Lemma head_atom_cases x a : head_atom x = Some a ->
  (exists B, x = FBin CIff (FAtomic (AAtom (fst a) (snd a))) B) \/
  (exists vs g, x = FQ QForall vs g /\ head_atom g = Some a).
Proof.
  destruct x as [b|g|c l r|q vs g]; cbn; try discriminate.
  - destruct c; try discriminate. destruct l as [[| |p ts|]| | |]; try discriminate.
    intros [= <-]. left. eauto.
  - destruct q; try discriminate. intros H. right. eauto.
Qed.

Ltac head_split H :=
  match type of H with head_atom _ = Some ?a => try (is_var a; let hp := fresh "hp" in let hts := fresh "hts" in destruct a as [hp hts]) end;
  let B := fresh "B" in let vs := fresh "vs" in let g := fresh "g" in let Hg := fresh "Hg" in
  apply head_atom_cases in H; destruct H as [[B ->]|[vs [g [-> Hg]]]].

Lemma kh_evaluate_comparisons : keeps_head evaluate_comparisons.
Proof. split; [reflexivity|]. intros x a H. head_split H; cbn; auto. Qed.
Lemma kh_apply_negation_definition_inverse : keeps_head apply_negation_definition_inverse.
Proof. split; [reflexivity|]. intros x a H. head_split H; cbn; auto. Qed.
Lemma kh_apply_reverse_implication_definition : keeps_head apply_reverse_implication_definition.
Proof. split; [reflexivity|]. intros x a H. head_split H; cbn; auto. Qed.
Lemma kh_apply_equivalence_definition_inverse : keeps_head apply_equivalence_definition_inverse.
Proof. split; [reflexivity|]. intros x a H. head_split H; cbn; auto. Qed.
Lemma kh_remove_identities : keeps_head remove_identities.
Proof. split; [reflexivity|]. intros x a H. head_split H; cbn; auto. Qed.
Lemma kh_remove_annihilations : keeps_head remove_annihilations.
Proof. split; [reflexivity|]. intros x a H. head_split H; cbn; auto. Qed.
Lemma kh_remove_idempotences : keeps_head remove_idempotences.
Proof. split; [reflexivity|]. intros x a H. head_split H; cbn; auto. Qed.
(* a head variable cannot be dropped by this rewrite for a semantic reason (it occurs in the head
   atom); for the classification it would not even matter: only the block changes *)
Lemma kh_remove_orphaned_variables : keeps_head remove_orphaned_variables.
Proof. split; [reflexivity|]. intros x a H. head_split H; cbn; auto. Qed.
Lemma kh_remove_empty_quantifications : keeps_head remove_empty_quantifications.
Proof. split; [reflexivity|]. intros x a H. head_split H; cbn; auto. destruct vs; cbn; auto. Qed.
Lemma kh_join_nested_quantifiers : keeps_head join_nested_quantifiers.
Proof.
  split; [reflexivity|]. intros x a H. head_split H; cbn; auto.
  destruct g as [b|g'|c l r|q vs' g']; cbn; auto.
  destruct q; cbn in Hg; try discriminate. cbn. rewrite head_atom_quantify. exact Hg.
Qed.
Lemma kh_remove_double_negation : keeps_head remove_double_negation.
Proof. split; [reflexivity|]. intros x a H. head_split H; cbn; auto. Qed.
Lemma kh_substitute_defined_variables : keeps_head substitute_defined_variables.
Proof. split; [reflexivity|]. intros x a H. head_split H; cbn; auto. Qed.
(* the forall-case needs `forall Z (exists I (..) -> H)`: an implication, never `<->` or `forall` *)
Lemma kh_restrict_quantifier_domain : keeps_head restrict_quantifier_domain.
Proof.
  split; [reflexivity|]. intros x a H. head_split H; cbn; auto.
  unfold restrict_quantifier_domain, total. cbn [restrict_quantifier_domain_opt].
  destruct g as [b|g'|c l r|q vs' g']; cbn; auto.
  destruct c; cbn in Hg; try discriminate. cbn. exact Hg.
Qed.
(* `atom <-> exists ..` matches the second arm, whose connective test lets only and/or through *)
Lemma kh_extend_quantifier_scope : keeps_head extend_quantifier_scope.
Proof.
  split; [reflexivity|]. intros x a H. head_split H; cbn; auto.
  destruct B as [b|g'|c l r|q vs' g']; cbn; auto.
Qed.
Lemma kh_simplify_transitive_equality : keeps_head simplify_transitive_equality.
Proof. split; [reflexivity|]. intros x a H. head_split H; cbn; auto. Qed.

(* the portfolio of external_equivalence.rs: [INTUITIONISTIC, HT, CLASSIC].concat() *)
Definition FULL : list (formula -> formula) := INTUITIONISTIC ++ HT ++ CLASSIC.

Lemma FULL_keeps_head : Forall keeps_head FULL.
Proof.
  unfold FULL, INTUITIONISTIC, HT, CLASSIC. cbn [app].
  repeat constructor;
    [ apply kh_evaluate_comparisons | apply kh_apply_negation_definition_inverse
    | apply kh_apply_reverse_implication_definition | apply kh_apply_equivalence_definition_inverse
    | apply kh_remove_identities | apply kh_remove_annihilations | apply kh_remove_idempotences
    | apply kh_remove_orphaned_variables | apply kh_remove_empty_quantifications
    | apply kh_join_nested_quantifiers | apply kh_remove_double_negation
    | apply kh_substitute_defined_variables | apply kh_restrict_quantifier_domain
    | apply kh_extend_quantifier_scope | apply kh_simplify_transitive_equality ].
Qed.

Lemma compose_keeps_head rs : Forall keeps_head rs -> keeps_head (compose rs).
Proof.
  intros H. split.
  - intros p ts. apply compose_fix. eapply Forall_impl; [|exact H]. intros r [Hr _]. apply Hr.
  - intros x a Hx. revert x Hx. apply (compose_inv (fun x => head_atom x = Some a)).
    eapply Forall_impl; [|exact H]. intros r [_ Hr] x. apply Hr.
Qed.

(* ONE pass of `apply s` (post-order, every node) keeps the head atom *)
Lemma apply_keeps_head s : keeps_head s -> forall F a, head_atom F = Some a -> head_atom (apply s F) = Some a.
Proof.
  intros [Hat Hroot]. induction F as [b|g IH|c l IHl r IHr|q vs g IH]; intros a H; cbn [apply].
  - discriminate.
  - discriminate.
  - apply Hroot. destruct c; cbn in H; try discriminate.
    destruct l as [[| |p ts|]| | |]; try discriminate. cbn [apply]. rewrite Hat. exact H.
  - apply Hroot. destruct q; cbn in H; try discriminate. cbn. apply IH, H.
Qed.

Theorem head_atom_pass F a :
  head_atom F = Some a -> head_atom (apply (compose FULL) F) = Some a.
Proof. apply apply_keeps_head, compose_keeps_head, FULL_keeps_head. Qed.

(* `f.apply_fixpoint(&mut portfolio)` *)
Theorem head_atom_stable F a fuel G :
  head_atom F = Some a -> apply_fixpoint fuel (compose FULL) F = Some G -> head_atom G = Some a.
Proof.
  intros H. apply (apply_fixpoint_inv (fun x => head_atom x = Some a)); [|exact H].
  intros x. apply head_atom_pass.
Qed.

Theorem head_predicate_some_stable F p fuel G :
  head_predicate F = Some p -> apply_fixpoint fuel (compose FULL) F = Some G -> head_predicate G = Some p.
Proof.
  rewrite !head_predicate_atom. destruct (head_atom F) as [a|] eqn:E; [|discriminate].
  intros [= <-] HG. rewrite (head_atom_stable F a fuel G E HG). reflexivity.
Qed.

Theorem head_predicate_stable p n F :
  def_shape p n F -> forall fuel G,
    apply_fixpoint fuel (compose FULL) F = Some G -> head_predicate G = head_predicate F.
Proof.
  intros H fuel G HG. rewrite (def_shape_head_predicate p n F H).
  apply (head_predicate_some_stable F _ fuel G); [apply (def_shape_head_predicate p n F H)|exact HG].
Qed.
