(* C08_nat: assembling the per-instance correspondence of Proofs/NaturalOk.v into
   hvalid (natural_rule r) <-> ref_rule_sat r. *)
From Coq Require Import List Ascii String ZArith Bool Lia.
From Anthem Require Import Base.ISet Syntax.Fol Syntax.Asp Sem.Domain Sem.Sat Sem.AspRef
  Model.Natural Proofs.NatBase Proofs.NatTerms Proofs.NatFresh Proofs.NaturalOk.
Import ListNotations.
Open Scope string_scope.
Open Scope list_scope.

Lemma forallb_false_ex {A} (f : A -> bool) l : forallb f l = false -> exists x, In x l /\ f x = false.
Proof.
  induction l as [|a l IH]; cbn; [discriminate|].
  destruct (f a) eqn:E; cbn; [intros H; destruct (IH H) as [x [? ?]]; eauto|eauto].
Qed.

(* one ground instance of the rule, in both worlds *)
Definition ref_instance (H T : pint) (sg : assignment) (r : rule) : Prop :=
  (body_sat H T sg (rbody r) -> head_sat H T sg (rhead r)) /\
  (body_sat T T sg (rbody r) -> head_sat T T sg (rhead r)).

Lemma natural_instance_ok FI H T r hd bd (sg : assignment) (e : env) :
  sub H T ->
  natural_head (rhead r) (int_variables r) = NOk hd ->
  natural_body (rbody r) (int_variables r) = Some bd ->
  (forall x, agree sg e (int_variables r) x) ->
  (hsat FI H T e (FBin CImp bd hd) <-> ref_instance H T sg r).
Proof.
  intros HS Eh Eb Hag.
  assert (HopB : forall bf t, In bf (rbody r) -> In t (bformula_terms bf) -> opvars_in (int_variables r) t).
  { intros bf t Hbf Ht. apply opvars_in_rule. apply in_rule_terms. right. eauto. }
  assert (HopH : forall ts t, head_terms (rhead r) = Some ts -> In t ts -> opvars_in (int_variables r) t).
  { intros ts t Hts Ht. apply opvars_in_rule. apply in_rule_terms. left. eauto. }
  pose proof (body_ok FI sg _ e Hag H T _ _ Eb HopB) as BH.
  pose proof (body_ok FI sg _ e Hag T T _ _ Eb HopB) as BT.
  pose proof (head_ok FI sg _ H T e _ _ HS Eh HopH Hag) as HH.
  pose proof (head_ok FI sg _ T T e _ _ (fun p a x => x) Eh HopH Hag) as HT.
  unfold ref_instance. cbn [hsat]. rewrite <- !hsat_total. tauto.
Qed.

Theorem natural_rule_ok r F : natural_rule r = NOk F ->
  forall FI H T, sub H T -> (hvalid FI H T F <-> ref_rule_sat H T r).
Proof.
  unfold natural_rule. intros E FI H T HS.
  destruct (natural_head (rhead r) (int_variables r)) as [hd| |] eqn:Eh; try discriminate.
  cbn [nbind] in E.
  destruct (natural_body (rbody r) (int_variables r)) as [bd|] eqn:Eb; try discriminate.
  cbn in E. inversion E; subst F. clear E.
  rewrite hvalid_universal_closure. unfold hvalid, ref_rule_sat. split.
  - intros Hv sg.
    destruct (forallb (fun x => is_numb (sg x)) (int_variables r)) eqn:Hall.
    + (* every integer variable denotes a numeral: the instance is an instance of the formula *)
      pose (e := mkenv sg (fun x => match sg x with VNum z => z | _ => 0%Z end) (fun _ => "")).
      apply (natural_instance_ok FI H T r hd bd sg e HS Eh Eb); [|apply Hv].
      intros x. unfold agree. destruct (memb_spec string_dec x (int_variables r)) as [Hin|_]; [|reflexivity].
      rewrite forallb_forall in Hall. specialize (Hall x Hin). cbn.
      destruct (sg x); try discriminate. reflexivity.
    + (* some integer variable denotes a non-numeral: the instance holds vacuously (C08_int) *)
      apply forallb_false_ex in Hall. destruct Hall as [x [Hin Hx]].
      assert (Hn : ~ is_num (sg x)) by (destruct (is_numb_spec (sg x)); [discriminate|auto]).
      split; intros Hb; eapply int_variables_num_nat; eauto.
  - intros Hr e.
    pose (sg := fun x => if memb string_dec x (int_variables r) then VNum (ei e x) else eg e x).
    apply (natural_instance_ok FI H T r hd bd sg e HS Eh Eb); [|apply Hr].
    intros x. unfold agree, sg. destruct (memb string_dec x (int_variables r)); reflexivity.
Qed.

(* C08_int in the form used above, restated *)
Theorem int_variables_are_integers (r : rule) (x : string) :
  In x (int_variables r) ->
  forall (H T : pint) (sg : assignment), ~ is_num (sg x) ->
    (body_sat H T sg (rbody r) -> head_sat H T sg (rhead r)) /\
    (body_sat T T sg (rbody r) -> head_sat T T sg (rhead r)).
Proof. intros Hx H T sg Hn. split; intros Hb; eapply int_variables_num_nat; eauto. Qed.

(* theory level *)
Lemma natural_cons r rest th : natural (r :: rest) = NOk th ->
  exists f fs, natural_rule r = NOk f /\ natural rest = NOk fs /\ th = f :: fs.
Proof.
  cbn. destruct (natural_rule r) as [f| |]; try discriminate. cbn.
  destruct (natural rest) as [fs| |]; try discriminate. cbn. intros [= <-]. eauto.
Qed.

Theorem natural_ok P : forall th, natural P = NOk th ->
  List.length th = List.length P /\
  forall FI H T, sub H T ->
    Forall2 (fun r f => hvalid FI H T f <-> ref_rule_sat H T r) P th.
Proof.
  induction P as [|r P IH]; intros th E.
  - cbn in E. inversion E; subst. split; [reflexivity|]. intros; constructor.
  - apply natural_cons in E. destruct E as [f [fs [Er [Ers ->]]]].
    destruct (IH fs Ers) as [L Hall]. split; [cbn; f_equal; exact L|].
    intros FI H T HS. constructor; [apply natural_rule_ok; auto|apply Hall; auto].
Qed.

Corollary natural_theory_ok P th : natural P = NOk th ->
  forall FI H T, sub H T -> (theory_hsat FI H T th <-> ref_sat H T P).
Proof.
  intros E FI H T HS. destruct (natural_ok P th E) as [_ Hall]. specialize (Hall FI H T HS).
  clear E. unfold theory_hsat, ref_sat. induction Hall as [|r f P' th' Hrf Hall IH].
  - split; intros _ x Hx; destruct Hx.
  - split.
    + intros Hth r' [<-|Hin]; [apply Hrf, Hth; cbn; auto|].
      apply IH; auto. intros f' Hf'. apply Hth; cbn; auto.
    + intros Hp f' [<-|Hin]; [apply Hrf, Hp; cbn; auto|].
      apply IH; auto. intros r' Hr'. apply Hp; cbn; auto.
Qed.
