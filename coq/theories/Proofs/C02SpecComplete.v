(* C02 for specification-vs-program tasks, the PUBLIC-LEVEL reading.

   spec_refuted_iff_difference (Proofs/C02Spec.v) is per interpretation M of the vocabulary of the
   emitted problems, where the private predicates of the program occur under their RENAMED names
   (p_p when the specification has a private p/n as well).  The claim a user makes is about the two
   sides separately:
     J  interprets the specification side (public predicates, private predicates of the specification),
     T  interprets the program side (the predicates of the program, under their own names),
   both with the same public part.  [spec_public_difference] states the difference in those terms
   and [spec_external_equivalence] proves
        (exists M, refutes_some FI M pbs)  <->  (exists J T, spec_public_difference t S FI J T)
   - "=>" always; "<=" constructs ONE interpretation carrying J on the specification side's vocabulary
   and the program's private extents under the renamed names, which is faithful exactly when those
   names are pairwise distinct and none of them is a predicate of the specification or public:
   [spec_rename_faithful] (decidable; outside it: finding F9, which hits specification tasks as well -
   docs/C02spec.md). *)
From Coq Require Import List Ascii String ZArith NArith Bool Lia Classical_Prop.
From Anthem Require Import Base.ISet Syntax.Fol Syntax.Asp Sem.Domain Sem.Sat Sem.AspRef
  Model.Break Model.Problem Model.Outline Model.Strong Model.External Model.Tightness Model.PrivRec Model.TauStar
  Model.Completion Model.ExternalFull
  Proofs.ExtendAll Proofs.SemBase Proofs.OutlineOk Proofs.DecomposeOk Proofs.StrongOk Proofs.ExternalOk Proofs.AssemblyOk Proofs.RenameOk
  Proofs.TightnessOk Proofs.PlaceholderOk Proofs.PrivateUnique Proofs.C19Ext Proofs.C02Ok Proofs.C02Full
  Proofs.C02Priv Proofs.C02Behaviour Proofs.C02Complete Proofs.C02Spec.
Import ListNotations.
Open Scope string_scope.
Open Scope list_scope.

(* the only fact about the vocabulary of a program that is used here: a predicate of ext_voc t P is a
   predicate of P or public *)
Lemma ext_voc_cases t P q : In q (ext_voc t P) -> In q (program_preds P) \/ In q (ug_public_predicates (et_user_guide t)).
Proof. intros H. apply ext_voc_incl_public in H. unfold ext_voc_public in H. rewrite in_app_iff in H. exact H. Qed.

(* the vocabulary of the specification side: the predicates of the specification and the public ones *)
Definition spec_voc (t : ext_task) (S : specification) : list pred :=
  spec_predicates S ++ ug_public_predicates (et_user_guide t).

(* class exclusion of the public-level converse: the names under which the program's private predicates
   occur in the problems are pairwise distinct, and none of them is a predicate of the specification
   or public *)
Definition spec_rename_faithful (t : ext_task) (S : specification) : Prop :=
  (forall p n, In (mkpred p n) (task_prog_private t) ->
               ~ In (mkpred (rn_name (task_mapping t) p n) n) (spec_voc t S)) /\
  no_rename_clash (task_mapping t) (task_prog_private t).
Definition spec_rename_faithfulb (t : ext_task) (S : specification) : bool :=
  let m := task_mapping t in let privR := task_prog_private t in
  forallb (fun q => negb (memb pred_dec (mkpred (rn_name m (psym q) (parity q)) (parity q)) (spec_voc t S))) privR
  && forallb (fun q => forallb (fun q' =>
        negb (Nat.eqb (parity q) (parity q') && String.eqb (rn_name m (psym q) (parity q)) (rn_name m (psym q') (parity q')))
        || String.eqb (psym q) (psym q')) privR) privR.
Lemma spec_rename_faithfulb_ok t S : spec_rename_faithfulb t S = true -> spec_rename_faithful t S.
Proof.
  unfold spec_rename_faithfulb, spec_rename_faithful. cbv zeta. rewrite andb_true_iff, !forallb_forall. intros [H1 H2]. split.
  - intros p n Hp. specialize (H1 _ Hp). cbn in H1. apply negb_true_iff in H1. exact (memb_false_not_in _ _ _ H1).
  - intros p p' n Hp Hp' E. specialize (H2 _ Hp). rewrite forallb_forall in H2. specialize (H2 _ Hp'). cbn in H2.
    rewrite Nat.eqb_refl, E, String.eqb_refl in H2. cbn in H2. apply String.eqb_eq. exact H2.
Qed.

(* the formulas of the specification side mention predicates of spec_voc only *)
Lemma spec_formula_voc t S (sel : aformula_annot -> bool) f :
  In f (map an_formula (filter sel (task_spec_left t S))) -> incl (predicates f) (spec_voc t S).
Proof.
  intros Hf q Hq. apply in_map_iff in Hf. destruct Hf as [a [<- Ha]]. apply filter_In in Ha. destruct Ha as [Ha _].
  unfold task_spec_left, rp_spec in Ha. apply in_map_iff in Ha. destruct Ha as [a0 [<- Ha0]].
  cbn in Hq. rewrite rp_predicates in Hq.
  unfold spec_voc. apply in_or_app. left. unfold spec_predicates. apply in_extend_all. right. exists a0. auto.
Qed.
Lemma tvalid_spec_pagree t S sel FI N1 N2 :
  pagree (spec_voc t S) N1 N2 ->
  (tvalid FI N1 (map an_formula (filter sel (task_spec_left t S))) <-> tvalid FI N2 (map an_formula (filter sel (task_spec_left t S)))).
Proof.
  intros Hag. unfold tvalid, cvalid. split; intros H f Hf e; specialize (H f Hf e).
  - apply (csat_pagree FI N1 N2 f); [|exact H]. intros p a Hp. apply Hag. apply (spec_formula_voc t S sel f Hf). exact Hp.
  - apply (csat_pagree FI N1 N2 f); [|exact H]. intros p a Hp. apply Hag. apply (spec_formula_voc t S sel f Hf). exact Hp.
Qed.

(* acceptance: the assumptions of the user guide mention input predicates only *)
Lemma accepted_ug_over_inputs t : c_ug_assumptions_inputs_only t = true -> ug_over_inputs t.
Proof.
  unfold c_ug_assumptions_inputs_only, assumptions_only_input, ug_over_inputs. rewrite forallb_forall.
  intros H a Ha Hr q Hq. specialize (H a Ha). rewrite Hr in H.
  apply (proj1 (subsetb_spec pred_dec _ _) H) in Hq. apply in_iset_extend in Hq. destruct Hq as [[]|Hq]. exact Hq.
Qed.

(* ---------- the premise ug_over_inputs of C02_countermodel_complete / C02_external_equivalence follows
              from acceptance (audit2 B9) ---------- *)
Section AcceptedUg.
Variable fuel : nat.
Lemma accepted_task_ug_over_inputs t w pbs : external_decompose_full fuel t = XOk w pbs -> ug_over_inputs t.
Proof.
  intros Hfull. destruct (full_ok_inv fuel t w pbs Hfull) as [[w0 Hv] _].
  destruct (validate_conditions _ _ t w0 Hv) as [_ [_ [_ [_ [Hugi _]]]]]. exact (accepted_ug_over_inputs t Hugi).
Qed.
Theorem countermodel_complete_accepted t L w pbs lft rgt :
  et_specification t = inl L -> et_proof_outline t = [] ->
  external_decompose_full fuel t = XOk w pbs ->
  is_tight L = true -> is_tight (et_program t) = true ->
  task_left tau_star_total completion (simp_classic_total fuel) t L = Some lft ->
  task_right tau_star_total completion (simp_classic_total fuel) t = Some rgt ->
  (forall vt, task_validated tau_star_total completion (simp_classic_total fuel) t = Some vt -> validated_no_clash vt) ->
  rename_faithful t L ->
  forall FI T, behavioural_difference t L FI T -> exists M, pub_agree t M T /\ refutes_some FI M pbs.
Proof.
  intros Hs Ho Hfull HtL HtR El Er Hn Hrf.
  exact (countermodel_complete fuel t L w pbs lft rgt Hs Ho Hfull HtL HtR El Er Hn Hrf (accepted_task_ug_over_inputs t w pbs Hfull)).
Qed.
Theorem external_equivalence_accepted t L w pbs lft rgt :
  et_specification t = inl L -> et_proof_outline t = [] ->
  external_decompose_full fuel t = XOk w pbs ->
  is_tight L = true -> is_tight (et_program t) = true ->
  task_left tau_star_total completion (simp_classic_total fuel) t L = Some lft ->
  task_right tau_star_total completion (simp_classic_total fuel) t = Some rgt ->
  (forall vt, task_validated tau_star_total completion (simp_classic_total fuel) t = Some vt -> validated_no_clash vt) ->
  rename_faithful t L ->
  forall FI, (exists M, refutes_some FI M pbs) <-> (exists T, behavioural_difference t L FI T).
Proof.
  intros Hs Ho Hfull HtL HtR El Er Hn Hrf.
  exact (external_equivalence_iff fuel t L w pbs lft rgt Hs Ho Hfull HtL HtR El Er Hn Hrf (accepted_task_ug_over_inputs t w pbs Hfull)).
Qed.
End AcceptedUg.

Section Public.
Variable fuel : nat.
Notation translate := (theory_translate tau_star_total completion (simp_classic_total fuel)).
Notation ug_assumptions t :=
  (map (fun a => rp_formula (task_placeholders t) (an_formula a)) (filter is_assumption (ug_formulas (et_user_guide t)))).

(* the difference between the specification and the program, stated on the two sides separately *)
Definition spec_public_difference (t : ext_task) (S : specification) (FI : fint) (J T : pint) : Prop :=
  pub_agree t J T /\
  tvalid FI J (ug_assumptions t) /\ tvalid FI J (spec_stable (task_spec_left t S)) /\
  ((dir_forward (et_direction t) = true /\
    tvalid FI J (spec_forward_premises (task_spec_left t S)) /\
    ~ exists N, pub_agree t N J /\ ext_stable_full t FI N (et_program t)) \/
   (dir_backward (et_direction t) = true /\
    ext_stable_full t FI T (et_program t) /\
    ~ tvalid FI J (spec_backward_conclusions (task_spec_left t S)))).

Lemma reindex_pub_agree t M : pub_agree t M (reindex (task_mapping t) M).
Proof.
  intros [p n] Hq d Hl. cbn in *. subst n. unfold reindex. rewrite (mapping_public t p _ Hq). reflexivity.
Qed.
Lemma pub_agree_trans t A B C : pub_agree t A B -> pub_agree t B C -> pub_agree t A C.
Proof. intros H1 H2 q Hq d Hl. rewrite (H1 q Hq d Hl). apply (H2 q Hq d Hl). Qed.
Lemma pub_agree_sym t A B : pub_agree t A B -> pub_agree t B A.
Proof. intros H q Hq d Hl. symmetry. apply (H q Hq d Hl). Qed.

(* "=>": a per-interpretation difference is a public-level one (J := M, T := M through the renaming) *)
Theorem spec_difference_public t S FI M :
  spec_difference t S FI M -> spec_public_difference t S FI M (reindex (task_mapping t) M).
Proof.
  intros [Hu [Hst Hd]]. split; [apply reindex_pub_agree|]. split; [exact Hu|]. split; [exact Hst|].
  destruct Hd as [[Hf [Hfp [_ Hno]]]|[Hb [Hes Hnc]]].
  - left. split; [exact Hf|]. split; [exact Hfp|]. intros [N [HN Hs]]. apply Hno. exists N. split; [|exact Hs].
    apply (pub_agree_trans t N M _ HN). apply reindex_pub_agree.
  - right. auto.
Qed.

(* "<=": from a public-level difference ONE interpretation of the problems' vocabulary is constructed *)
Theorem spec_public_complete t S w pbs :
  et_specification t = inr S -> et_proof_outline t = [] ->
  external_decompose_full fuel t = XOk w pbs ->
  is_tight (et_program t) = true ->
  (forall vt, task_validated tau_star_total completion (simp_classic_total fuel) t = Some vt -> validated_no_clash vt) ->
  spec_rename_faithful t S ->
  forall FI J T, spec_public_difference t S FI J T ->
    exists M, pagree (spec_voc t S) M J /\ refutes_some FI M pbs.
Proof.
  intros Hs Ho Hfull HtR Hn [HC1 HC2] FI J T [Hpub [Hug [Hst Hd]]].
  destruct (full_ok_inv fuel t w pbs Hfull) as [[w0 Hv] [Hdec [[GR HGR] _]]].
  destruct (validate_conditions _ _ t w0 Hv) as [_ [Hpr [Hhead [Hio [Hugi _]]]]].
  unfold c_no_private_recursion in Hpr. rewrite Hs in Hpr. rewrite andb_true_r in Hpr. apply negb_true_iff in Hpr.
  unfold c_no_input_in_head in Hhead. rewrite Hs in Hhead. rewrite andb_true_r in Hhead.
  pose proof (accepted_ug_over_inputs t Hugi) as Hov.
  destruct (external_validated_spec is_tight has_private_recursion tau_star_total completion (simp_classic_total fuel)
              t S w pbs Hs Ho Hdec) as [rgt [_ [_ [Er _]]]].
  unfold task_right in Er. destruct (translate t (task_placeholders t) (et_program t)) as [thr|] eqn:Etr; [|discriminate].
  set (m := task_mapping t) in *. set (ph := task_placeholders t) in *.
  set (R := et_program t) in *. set (public := ug_public_predicates (et_user_guide t)) in *.
  set (privR := task_prog_private t) in *.
  assert (HprivR : forall q, In q privR -> In q (program_preds R) /\ ~ In q public).
  { intros q Hq. unfold privR, task_prog_private, private_predicates in Hq. apply filter_In in Hq. destruct Hq as [H1 H2].
    split; [exact H1|]. apply negb_true_iff in H2. exact (memb_false_not_in _ _ _ H2). }
  assert (Hpub_voc : forall q, In q public -> In q (spec_voc t S)).
  { intros q Hq. unfold spec_voc. apply in_or_app. right. exact Hq. }
  (* the program side's extents T': T itself (backward), or the supported private extension of J's
     public part (forward) *)
  assert (HpR' : has_private_recursion (ph_program FI ph R) privR = false) by (rewrite ph_has_private_recursion; exact Hpr).
  assert (Hconstruct : forall T' : pint, (forall q, In q public -> agree_on J T' q) ->
            exists M, pagree (spec_voc t S) M J /\ pagree (ext_voc t R) (reindex m M) T' /\
                      (forall q, In q (program_preds R) -> agree_on (reindex m M) T' q)).
  { intros T' HJT.
    set (M := fun (r : string) (a : list gval) =>
                (J r a /\ In (mkpred r (List.length a)) (spec_voc t S)) \/
                (exists p, In (mkpred p (List.length a)) privR /\ rn_name m p (List.length a) = r /\ T' p a)).
    assert (F1 : pagree (spec_voc t S) M J).
    { intros r a Hin. unfold M. split.
      - intros [[H _]|[p [Hp [E _]]]]; [exact H|]. exfalso. apply (HC1 p _ Hp). fold m. rewrite E. exact Hin.
      - intros H. left. auto. }
    assert (F2 : forall p a, In (mkpred p (List.length a)) privR -> (reindex m M p a <-> T' p a)).
    { intros p a Hp. unfold reindex, M. split.
      - intros [[_ Hin]|[p' [Hp' [E H]]]]; [exfalso; exact (HC1 p _ Hp Hin)|].
        rewrite (HC2 p p' _ Hp Hp' (eq_sym E)). exact H.
      - intros H. right. exists p. auto. }
    assert (F3 : forall p a, In (mkpred p (List.length a)) public -> (reindex m M p a <-> T' p a)).
    { intros p a Hq. unfold reindex. pose proof (mapping_public t p _ Hq) as Em. fold m in Em. rewrite Em.
      rewrite (F1 p a (Hpub_voc _ Hq)). apply (HJT _ Hq a eq_refl). }
    assert (F4 : forall p a, In (mkpred p (List.length a)) (program_preds R) -> (reindex m M p a <-> T' p a)).
    { intros p a Hq. destruct (in_dec pred_dec (mkpred p (List.length a)) privR) as [Hp|Hp]; [apply F2; exact Hp|].
      apply F3. destruct (in_dec pred_dec (mkpred p (List.length a)) public) as [H|H]; [exact H|]. exfalso. apply Hp.
      unfold privR, task_prog_private, private_predicates. apply filter_In. split; [exact Hq|]. apply negb_true_iff.
      apply not_in_memb_false. exact H. }
    exists M. split; [exact F1|]. split.
    - intros p a Hin. apply ext_voc_cases in Hin. destruct Hin as [Hin|Hin]; [apply F4; exact Hin|apply F3; exact Hin].
    - intros [p n] Hq d Hl. cbn in *. subst n. apply F4. exact Hq. }
  (* what the constructed M satisfies on the specification side *)
  assert (Hspec_side : forall M, pagree (spec_voc t S) M J ->
            tvalid FI M (ug_assumptions t) /\ tvalid FI M (spec_stable (task_spec_left t S))).
  { intros M F1. split.
    - apply (ug_assumptions_pagree t FI J M Hov); [|exact Hug].
      intros [p n] Hq d Hl. cbn in *. subst n. symmetry. apply F1. apply Hpub_voc.
      unfold public, ug_public_predicates. apply in_iset_extend. left. exact Hq.
    - unfold spec_stable in *. apply (tvalid_spec_pagree t S _ FI M J F1). exact Hst. }
  destruct Hd as [[Hf [Hfp Hno]]|[Hb [Hes Hnc]]].
  - (* forward *)
    destruct (private_extension_exists (ph_program FI ph R) privR J HpR') as [T' [HT1 HT2]].
    destruct (Hconstruct T') as [M [F1 [F4 F5]]].
    { intros q Hq d Hl. symmetry. destruct q as [p n]. cbn in *. subst n. apply HT1.
      intros Hp. exact (proj2 (HprivR _ Hp) Hq). }
    exists M. split; [exact F1|].
    apply (spec_countermodel_complete fuel t S w pbs Hs Ho Hfull HtR Hn FI M).
    destruct (Hspec_side M F1) as [HuM HstM]. split; [exact HuM|]. split; [exact HstM|]. left.
    split; [exact Hf|]. split.
    { unfold spec_forward_premises in *. apply (tvalid_spec_pagree t S _ FI M J F1). exact Hfp. }
    split.
    { fold m ph R privR. apply (supported_agree T' (reindex m M) (ph_program FI ph R) privR); [| |exact HT2].
      - intros q Hq. rewrite ph_program_preds in Hq. intros d Hl. symmetry. apply (F5 q Hq d Hl).
      - intros p Hp. rewrite ph_program_preds. apply (HprivR p Hp). }
    intros [N [HN Hs']]. apply Hno. exists N. split; [|exact Hs'].
    apply (pub_agree_trans t N _ J HN). intros q Hq d Hl.
    destruct q as [p n]. cbn in *. subst n.
    rewrite <- (F1 p d (Hpub_voc _ Hq)). symmetry. apply (reindex_pub_agree t M (mkpred p (List.length d)) Hq d eq_refl).
  - (* backward *)
    destruct (Hconstruct T) as [M [F1 [F4 _]]].
    { intros q Hq. apply (Hpub q Hq). }
    exists M. split; [exact F1|].
    apply (spec_countermodel_complete fuel t S w pbs Hs Ho Hfull HtR Hn FI M).
    destruct (Hspec_side M F1) as [HuM HstM]. split; [exact HuM|]. split; [exact HstM|]. right.
    split; [exact Hb|]. split.
    { fold m R. apply (ext_stable_pagree fuel t R GR thr FI (reindex m M) T HtR (no_input_in_head t R Hhead) Hio HGR Etr F4). exact Hes. }
    intros Hc. apply Hnc. unfold spec_backward_conclusions in *. apply (tvalid_spec_pagree t S _ FI M J F1). exact Hc.
Qed.

(* C02 for specification-vs-program tasks, public level: some interpretation refutes an emitted problem
   iff the specification and the program differ *)
Theorem spec_external_equivalence t S w pbs :
  et_specification t = inr S -> et_proof_outline t = [] ->
  external_decompose_full fuel t = XOk w pbs ->
  is_tight (et_program t) = true ->
  (forall vt, task_validated tau_star_total completion (simp_classic_total fuel) t = Some vt -> validated_no_clash vt) ->
  spec_rename_faithful t S ->
  forall FI, (exists M, refutes_some FI M pbs) <-> (exists J T, spec_public_difference t S FI J T).
Proof.
  intros Hs Ho Hfull HtR Hn Hrf FI. split.
  - intros [M HM]. exists M, (reindex (task_mapping t) M). apply spec_difference_public.
    apply (spec_countermodel_sound fuel t S w pbs Hs Ho Hfull HtR Hn FI M HM).
  - intros [J [T HD]]. destruct (spec_public_complete t S w pbs Hs Ho Hfull HtR Hn Hrf FI J T HD) as [M [_ HM]].
    exists M. exact HM.
Qed.
End Public.
