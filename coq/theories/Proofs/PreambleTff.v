(* C12 at the TFF level: every axiom of the regenerated preamble, AS TFF SYNTAX (the syntax trees
   that Proofs/ProblemText.v [preamble_reads] shows to be the reading of the preamble's bytes), is
   true under [tff_sat] in EVERY structure of Sem/TffSem.v -- whatever the problem's predicates,
   constants and the assignment are: the preamble only mentions symbols with a fixed meaning.
   One fixed tactic per axiom shape; an edited axiom either re-proves or the build fails. *)
From Coq Require Import List Ascii String ZArith NArith Bool Lia.
From Anthem Require Import Syntax.Fol Syntax.Tff Sem.Domain Sem.TffSem Gen.Preamble Proofs.PreambleOk.
Import ListNotations.
Open Scope string_scope.

Ltac intro_typed :=
  repeat (let v := fresh "v" in let H := fresh "H" in
          intros v H; destruct v; cbn [has_type] in H; try contradiction; clear H).
Ltac ptff_tac :=
  first
  [ solve [reflexivity]
  | solve [apply gle_total]
  | solve [intros [? ?]; f_equal; eauto using gle_antisym]
  | solve [intros [? ?]; eauto using gle_trans]
  | solve [tauto]
  | solve [split; congruence]
  | solve [cbn; rewrite Z.leb_le; tauto]
  | solve [rewrite glt_iff; split; (intros [? H]; split; [assumption|]; intro E; apply H; congruence)]
  | solve [match goal with d : gval |- _ => destruct d; cbn; eauto 8 end]
  | solve [split;
           [ let x := fresh "x" in intros [x ->]; first [exists (TI x) | exists (TS x)]; split; [exact I|reflexivity]
           | intros [v [Hv E]]; destruct v; try contradiction; injection E as ->; eexists; reflexivity ]] ].

Theorem preamble_tff_true :
  Forall (fun a => forall (S : tstruct) (te : tenv), tff_sat S te (snd a)) preamble_formulas.
Proof.
  unfold preamble_formulas.
  repeat (apply Forall_cons;
          [cbn [snd]; intros S te; cbn [tff_sat tqsat]; intro_typed; cbn -[gle glt]; ptff_tac|]).
  apply Forall_nil.
Qed.
