(* C15, character level, second half: the token lists written by the printers of Model/FolPrint.v
   satisfy the invariant [lexable] of Proofs/FolLexRT.v, hence

     lex_render_theory : wf_theory t = true -> lex (show_theory t) = Some (strip (print_theory true t))

   (and specifications, user guides), and the composition with the token-level round trip
   (Proofs/FolC15.v) and with the parser image (Proofs/FolImage.v):

     text_theory     : wf_theory t = true -> known_class_theory t = None -> parse_theory_str (show_theory t) = PR_ok t
     accepted_theory : parse_theory_str s = PR_ok t -> known_class_theory t = None ->
                       parse_theory_str (show_theory t) = PR_ok t /\ (any re-parse prints the same bytes)

   The induction is continuation-passing: [K ts] says that [ts] followed by any lexable rest whose text
   begins with a separator (blank, newline, bracket, comma, dot, colon, slash) is lexable.  Every printed
   fragment (term, atom, comparison, formula, annotated formula, user-guide entry) is a [K]; the
   parenthesisation decisions of the printer are irrelevant here (K is closed under [parens b]) except
   below a unary minus, where the generated precedence table must put a positive numeral in
   parentheses ([neg_body_not_pos]): "-5" is one token, "-(5)" three. *)
From Coq Require Import List Ascii String ZArith NArith Bool Arith Lia.
From Anthem Require Import Syntax.Fol Gen.TablesFol Model.FolPrint Model.FolLex Model.FolParse Model.FolClass
  Proofs.FolC15 Proofs.FolImage Proofs.FolLexRT.
Import ListNotations.
Open Scope char_scope.
Open Scope list_scope.

(* ================================================================ A. fragments *)

Definition K (ts : list token) : Prop :=
  forall rest, lexable rest -> sep_next (rchars rest) = true -> lexable (ts ++ rest).

(* tokens whose spelling is a separator *)
Definition sep_tok (t : token) : bool :=
  match t with
  | TSp | TNl | TLParen | TRParen | TLBrack | TRBrack | TComma | TDot | TColon | TSlash => true
  | _ => false
  end.
Lemma sep_tok_next t ts : sep_tok t = true -> sep_next (rchars (t :: ts)) = true.
Proof. intros H. rewrite rchars_cons. destruct t; try discriminate H; reflexivity. Qed.

Lemma K_nil : K [].
Proof. intros rest HL _. exact HL. Qed.

Lemma K_parens b ts : K ts -> K (parens b ts).
Proof.
  intros H. destruct b; [|exact H]. intros rest HL HS. cbn [parens app lexable]. split; [reflexivity|].
  rewrite <- app_assoc. apply H; [|apply sep_tok_next; reflexivity].
  cbn [app lexable]. split; [reflexivity|exact HL].
Qed.

(* a single word-like token *)
Lemma K_one t : (forall l, sep_next l = true -> tok_ok t l = true) -> K [t].
Proof. intros H rest HL HS. cbn [app lexable]. split; [apply H; exact HS|exact HL]. Qed.

Lemma tok_ok_and b l : b = true -> sep_next l = true -> b && sep_next l = true.
Proof. intros -> ->. reflexivity. Qed.

(* ================================================================ B. what follows a unary minus *)

(* the printed text begins with a positive numeral *)
Fixpoint starts_pos (t : iterm) : bool :=
  match t with
  | INum z => (0 <? z)%Z
  | IFun _ | IVar _ => false
  | IUn _ _ => false
  | IBin _ l _ => if paren_lhs (iprec t) (iprec l) (imand l) (iassoc l) then false else starts_pos l
  end.

(* table fact: the operand of a unary minus that is NOT parenthesised does not begin with a positive numeral *)
Lemma neg_body_not_pos a : paren_unary (iprec (IUn UNeg a)) (iprec a) (imand a) = false -> starts_pos a = false.
Proof.
  destruct a as [z|c|x|u a|o l r]; try reflexivity.
  - cbn [starts_pos]. unfold iprec, imand, ikind_of. destruct (0 <? z)%Z; [intros H; vm_compute in H; discriminate H|reflexivity].
  - destruct o; intros H; vm_compute in H; discriminate H.
Qed.
(* table fact: unary minus is a prefix operator *)
Lemma neg_is_prefix a : is_left (iassoc (IUn UNeg a)) = true /\ is_right (iassoc (IUn UNeg a)) = false.
Proof. split; reflexivity. Qed.

Lemma name_head s l : word_class (chars s) <> WBad -> minus_next (chars s ++ l) = true.
Proof.
  intros H. destruct (word_class_nonempty _ H) as (c & r & E & Hc). rewrite E.
  destruct (wordstart_facts c Hc) as (_ & _ & _ & Hn & Hg). cbn [app minus_next]. rewrite Hn, Hg. reflexivity.
Qed.
Lemma symbol_head s l : is_symbol_name s = true -> minus_next (chars s ++ l) = true.
Proof. intros W. apply name_head. destruct (symbol_name_spec s W) as [_ ->]. discriminate. Qed.
Lemma variable_head s l : is_variable_name s = true -> minus_next (chars s ++ l) = true.
Proof. intros W. apply name_head. destruct (variable_name_spec s W) as [_ ->]. discriminate. Qed.

Lemma iterm_head t : wf_iterm t = true -> starts_pos t = false ->
  forall rest, minus_next (rchars (print_iterm true t ++ rest)) = true.
Proof.
  induction t as [z|c|x|u a IH|o l IHl r IHr]; intros W P rest.
  - cbn [print_iterm app starts_pos] in *. rewrite rchars_cons. unfold num_tok.
    destruct (z <? 0)%Z eqn:E; [reflexivity|].
    apply Z.ltb_ge in E. apply Z.ltb_ge in P. assert (z = 0%Z) as -> by lia. reflexivity.
  - cbn [print_iterm app wf_iterm] in *. rewrite rchars_cons. cbn [tok_str]. rewrite chars_app, <- app_assoc.
    apply symbol_head. exact W.
  - cbn [print_iterm app wf_iterm] in *. rewrite rchars_cons. cbn [tok_str sort_letter]. rewrite chars_app, <- app_assoc.
    apply variable_head. exact W.
  - destruct u. cbn [print_iterm]. unfold fmt_unary. destruct (neg_is_prefix a) as [-> ->].
    cbn [app]. rewrite rchars_cons. reflexivity.
  - cbn [print_iterm starts_pos wf_iterm] in *. apply andb_true_iff in W. destruct W as [Wl Wr].
    destruct (paren_lhs (iprec (IBin o l r)) (iprec l) (imand l) (iassoc l)).
    + cbn [parens app]. rewrite rchars_cons. reflexivity.
    + cbn [parens]. rewrite <- app_assoc. apply IHl; assumption.
Qed.

(* ================================================================ C. terms *)

Lemma K_iterm t : wf_iterm t = true -> K (print_iterm true t).
Proof.
  induction t as [z|c|x|u a IH|o l IHl r IHr]; intros W.
  - cbn [print_iterm]. apply K_one. intros l HS. unfold num_tok. destruct (z <? 0)%Z eqn:E; cbn [tok_ok]; [|exact HS].
    apply tok_ok_and; [|exact HS]. apply Z.ltb_lt in E. apply N.ltb_lt. lia.
  - cbn [print_iterm wf_iterm] in *. apply K_one. intros l HS. cbn [tok_ok]. apply tok_ok_and; assumption.
  - cbn [print_iterm wf_iterm] in *. apply K_one. intros l HS. cbn [tok_ok]. apply tok_ok_and; assumption.
  - destruct u. cbn [wf_iterm] in W. specialize (IH W). intros rest HL HS.
    cbn [print_iterm]. unfold fmt_unary. destruct (neg_is_prefix a) as [-> ->].
    rewrite app_nil_r. cbn [app lexable]. split.
    + cbn [tok_ok]. destruct (paren_unary (iprec (IUn UNeg a)) (iprec a) (imand a)) eqn:E.
      * cbn [parens app]. rewrite rchars_cons. reflexivity.
      * cbn [parens]. apply iterm_head; [exact W|apply neg_body_not_pos; exact E].
    + apply K_parens; assumption.
  - cbn [wf_iterm] in W. apply andb_true_iff in W. destruct W as [Wl Wr].
    specialize (IHl Wl). specialize (IHr Wr). intros rest HL HS.
    cbn [print_iterm tsp]. rewrite <- !app_assoc. apply K_parens; [exact IHl| |apply sep_tok_next; reflexivity].
    cbn [app lexable]. split; [reflexivity|]. split.
    + rewrite rchars_cons. destruct o; reflexivity.
    + split; [reflexivity|]. apply K_parens; assumption.
Qed.

Lemma K_sterm t : wf_sterm t = true -> K (print_sterm t).
Proof.
  destruct t as [s|c|x]; cbn [wf_sterm print_sterm]; intros W; apply K_one; intros l HS; cbn [tok_ok];
    apply tok_ok_and; assumption.
Qed.

Lemma K_gterm t : wf_gterm t = true -> K (print_gterm true t).
Proof.
  destruct t as [| |c|x|t|t]; cbn [wf_gterm print_gterm]; intros W.
  - apply K_one. reflexivity.
  - apply K_one. reflexivity.
  - apply K_one. intros l HS. cbn [tok_ok]. apply tok_ok_and; assumption.
  - apply K_one. intros l HS. cbn [tok_ok]. apply tok_ok_and; assumption.
  - apply K_iterm; exact W.
  - apply K_sterm; exact W.
Qed.

Lemma K_args ts : forallb wf_gterm ts = true -> K (print_args true ts).
Proof.
  induction ts as [|t ts IH]; intros W; [exact K_nil|].
  cbn [forallb] in W. apply andb_true_iff in W. destruct W as [Wt Wts].
  destruct ts as [|t2 ts]; [apply K_gterm; exact Wt|].
  change (print_args true (t :: t2 :: ts)) with (print_gterm true t ++ [TComma] ++ tsp true ++ print_args true (t2 :: ts)).
  intros rest HL HS. rewrite <- !app_assoc. apply K_gterm; [exact Wt| |apply sep_tok_next; reflexivity].
  cbn [tsp app lexable]. split; [reflexivity|]. split; [reflexivity|]. apply IH; assumption.
Qed.

(* ================================================================ D. atomic formulas *)

Lemma K_atom p ts : is_symbol_name p = true -> forallb wf_gterm ts = true -> K (print_atom true p ts).
Proof.
  intros Wp Wts. destruct ts as [|t ts].
  - cbn [print_atom]. apply K_one. intros l HS. cbn [tok_ok]. apply tok_ok_and; assumption.
  - intros rest HL HS.
    change (print_atom true p (t :: ts)) with (TWord p :: TLParen :: print_args true (t :: ts) ++ [TRParen]).
    cbn [app lexable]. split; [|split; [reflexivity|]].
    + cbn [tok_ok]. apply tok_ok_and; [exact Wp|apply sep_tok_next; reflexivity].
    + rewrite <- app_assoc. apply K_args; [exact Wts| |apply sep_tok_next; reflexivity].
      cbn [app lexable]. split; [reflexivity|exact HL].
Qed.

Lemma guards_sep gs rest : sep_next (rchars rest) = true -> sep_next (rchars (print_guards true gs ++ rest)) = true.
Proof. destruct gs as [|g gs]; [exact (fun H => H)|]. intros _. cbn [print_guards tsp app]. apply sep_tok_next. reflexivity. Qed.

Lemma K_guards gs : forallb wf_guard gs = true -> K (print_guards true gs).
Proof.
  induction gs as [|g gs IH]; intros W; [exact K_nil|].
  cbn [forallb] in W. apply andb_true_iff in W. destruct W as [Wg Wgs].
  intros rest HL HS. cbn [print_guards]. unfold print_guard. cbn [tsp]. rewrite <- !app_assoc.
  cbn [app lexable]. split; [reflexivity|]. split; [|split; [reflexivity|]].
  - cbn [tok_ok]. apply sep_tok_next. reflexivity.
  - apply K_gterm; [exact Wg|apply IH; assumption|apply guards_sep; exact HS].
Qed.

Lemma K_atomic a : wf_atomic a = true -> K (print_atomic true a).
Proof.
  destruct a as [| |p ts|t gs]; cbn [wf_atomic print_atomic]; intros W.
  - apply K_one. reflexivity.
  - apply K_one. reflexivity.
  - apply andb_true_iff in W. destruct W as [Wp Wts]. apply K_atom; assumption.
  - apply andb_true_iff in W. destruct W as [W Wgs]. apply andb_true_iff in W. destruct W as [Wt _].
    intros rest HL HS. rewrite <- app_assoc.
    apply K_gterm; [exact Wt|apply K_guards; assumption|apply guards_sep; exact HS].
Qed.

(* ================================================================ E. formulas *)

Lemma vars_sep vs rest : sep_next (rchars rest) = true -> sep_next (rchars (print_vars true vs ++ rest)) = true.
Proof. destruct vs as [|v vs]; [exact (fun H => H)|]. intros _. cbn [print_vars tsp app]. apply sep_tok_next. reflexivity. Qed.

Lemma K_vars vs : forallb wf_var vs = true -> K (print_vars true vs).
Proof.
  induction vs as [|v vs IH]; intros W; [exact K_nil|].
  cbn [forallb] in W. apply andb_true_iff in W. destruct W as [Wv Wvs].
  intros rest HL HS. cbn [print_vars tsp]. rewrite <- !app_assoc. cbn [app lexable]. split; [reflexivity|]. split.
  - unfold var_tok. cbn [tok_ok]. apply tok_ok_and; [exact Wv|apply vars_sep; exact HS].
  - apply IH; assumption.
Qed.

(* table facts: negation and quantification are prefix operators *)
Lemma not_is_prefix g : is_left (fassoc (FNot g)) = true /\ is_right (fassoc (FNot g)) = false.
Proof. split; reflexivity. Qed.

Lemma conn_tok_ok c l : sep_next l = true -> tok_ok (conn_tok c) l = true.
Proof. intros H. destruct c; try reflexivity; exact H. Qed.
Lemma quant_tok_ok q l : sep_next l = true -> tok_ok (quant_tok q) l = true.
Proof. intros H. destruct q; exact H. Qed.

Lemma K_formula f : wf_formula f = true -> K (print_formula true f).
Proof.
  induction f as [a|g IH|c l IHl r IHr|q vs g IH]; intros W.
  - cbn [print_formula]. apply K_atomic. exact W.
  - cbn [wf_formula] in W. specialize (IH W). intros rest HL HS.
    cbn [print_formula]. unfold fmt_unary. destruct (not_is_prefix g) as [-> ->].
    rewrite app_nil_r. cbn [tsp app lexable]. split; [|split; [reflexivity|]].
    + cbn [tok_ok]. apply tok_ok_and; [reflexivity|apply sep_tok_next; reflexivity].
    + apply K_parens; assumption.
  - cbn [wf_formula] in W. apply andb_true_iff in W. destruct W as [Wl Wr].
    specialize (IHl Wl). specialize (IHr Wr). intros rest HL HS.
    cbn [print_formula tsp]. rewrite <- !app_assoc. apply K_parens; [exact IHl| |apply sep_tok_next; reflexivity].
    cbn [app lexable]. split; [reflexivity|]. split.
    + apply conn_tok_ok. apply sep_tok_next. reflexivity.
    + split; [reflexivity|]. apply K_parens; assumption.
  - cbn [wf_formula] in W. apply andb_true_iff in W. destruct W as [W Wg]. apply andb_true_iff in W. destruct W as [_ Wvs].
    specialize (IH Wg). intros rest HL HS.
    cbn [print_formula tsp]. unfold print_quantification. rewrite <- !app_assoc. cbn [app lexable].
    assert (HB : lexable (TSp :: parens (begins_with_variable (render (print_formula true g)) || fmand g
                                          || (fprec (FQ q vs g) <? fprec g)%nat) (print_formula true g) ++ rest)).
    { cbn [lexable]. split; [reflexivity|]. apply K_parens; assumption. }
    split.
    + apply quant_tok_ok. apply vars_sep. apply sep_tok_next. reflexivity.
    + apply K_vars; [exact Wvs|exact HB|apply sep_tok_next; reflexivity].
Qed.

(* ================================================================ F. theories, specifications, user guides *)

Lemma lexable_theory t : wf_theory t = true -> lexable (print_theory true t).
Proof.
  induction t as [|f t IH]; intros W; [exact I|].
  cbn [wf_theory forallb] in W. apply andb_true_iff in W. destruct W as [Wf Wt].
  cbn [print_theory tnl]. apply K_formula; [exact Wf| |apply sep_tok_next; reflexivity].
  cbn [app lexable]. split; [reflexivity|]. split; [reflexivity|]. apply IH. exact Wt.
Qed.

Lemma role_tok_ok r l : sep_next l = true -> tok_ok (role_tok r) l = true.
Proof. intros H. destruct r; exact H. Qed.

Lemma K_annot a : wf_annot a = true -> K (print_annot true a).
Proof.
  destruct a as [ro d n F]. unfold wf_annot, print_annot. cbn [an_role an_dir an_name an_formula]. intros W.
  apply andb_true_iff in W. destruct W as [Wn WF]. intros rest HL HS.
  assert (H3 : lexable ([TColon] ++ tsp true ++ print_formula true F ++ rest)).
  { cbn [tsp app lexable]. split; [reflexivity|]. split; [reflexivity|]. apply K_formula; assumption. }
  assert (S3 : sep_next (rchars ([TColon] ++ tsp true ++ print_formula true F ++ rest)) = true)
    by (apply sep_tok_next; reflexivity).
  set (R3 := [TColon] ++ tsp true ++ print_formula true F ++ rest) in *.
  assert (H2 : lexable ((if is_empty n then [] else [TLBrack; TWord n; TRBrack]) ++ R3)
               /\ sep_next (rchars ((if is_empty n then [] else [TLBrack; TWord n; TRBrack]) ++ R3)) = true).
  { destruct (is_empty n) eqn:En; [split; assumption|]. cbn [orb] in Wn. split; [|apply sep_tok_next; reflexivity].
    cbn [app lexable]. split; [reflexivity|]. split; [|split; [reflexivity|exact H3]].
    cbn [tok_ok]. apply tok_ok_and; [exact Wn|apply sep_tok_next; reflexivity]. }
  destruct H2 as [H2 S2]. set (R2 := (if is_empty n then [] else [TLBrack; TWord n; TRBrack]) ++ R3) in *.
  assert (H1 : lexable ((if is_universal d then [] else [TLParen; TWord (direction_str d); TRParen]) ++ R2)
               /\ sep_next (rchars ((if is_universal d then [] else [TLParen; TWord (direction_str d); TRParen]) ++ R2)) = true).
  { destruct (is_universal d) eqn:Ed; [split; assumption|]. split; [|apply sep_tok_next; reflexivity].
    cbn [app lexable]. split; [reflexivity|]. split; [|split; [reflexivity|exact H2]].
    cbn [tok_ok]. apply tok_ok_and; [destruct d; reflexivity|apply sep_tok_next; reflexivity]. }
  destruct H1 as [H1 S1].
  rewrite <- !app_assoc. cbn [app lexable]. split; [apply role_tok_ok; exact S1|exact H1].
Qed.

Lemma lexable_spec s : wf_spec s = true -> lexable (print_spec true s).
Proof.
  induction s as [|a s IH]; intros W; [exact I|].
  cbn [wf_spec forallb] in W. apply andb_true_iff in W. destruct W as [Wa Ws].
  cbn [print_spec tnl]. apply K_annot; [exact Wa| |apply sep_tok_next; reflexivity].
  cbn [app lexable]. split; [reflexivity|]. split; [reflexivity|]. apply IH. exact Ws.
Qed.

Lemma K_pred p : is_symbol_name (psym p) = true -> K (print_pred p).
Proof.
  intros W rest HL HS. unfold print_pred. cbn [app lexable]. split; [|split; [reflexivity|split; [exact HS|exact HL]]].
  cbn [tok_ok]. apply tok_ok_and; [exact W|apply sep_tok_next; reflexivity].
Qed.

Lemma K_ug_entry e : wf_ug_entry e = true -> K (print_ug_entry true e).
Proof.
  destruct e as [p|p|n s|a]; cbn [wf_ug_entry print_ug_entry]; intros W.
  - unfold wf_pred in W. apply andb_true_iff in W. destruct W as [W _]. intros rest HL HS.
    cbn [tsp app lexable]. split; [reflexivity|]. split; [reflexivity|]. split; [reflexivity|]. apply K_pred; assumption.
  - unfold wf_pred in W. apply andb_true_iff in W. destruct W as [W _]. intros rest HL HS.
    cbn [tsp app lexable]. split; [reflexivity|]. split; [reflexivity|]. split; [reflexivity|]. apply K_pred; assumption.
  - intros rest HL HS. cbn [tsp app lexable].
    split; [reflexivity|]. split; [reflexivity|]. split; [reflexivity|].
    split; [cbn [tok_ok]; apply tok_ok_and; [exact W|apply sep_tok_next; reflexivity]|].
    split; [reflexivity|]. split; [reflexivity|]. split; [reflexivity|].
    split; [|exact HL]. cbn [tok_ok]. apply tok_ok_and; [destruct s; reflexivity|exact HS].
  - apply K_annot. exact W.
Qed.

Lemma lexable_ug u : wf_ug u = true -> lexable (print_ug true u).
Proof.
  induction u as [|e u IH]; intros W; [exact I|].
  cbn [wf_ug forallb] in W. apply andb_true_iff in W. destruct W as [We Wu].
  cbn [print_ug tnl]. apply K_ug_entry; [exact We| |apply sep_tok_next; reflexivity].
  cbn [app lexable]. split; [reflexivity|]. split; [reflexivity|]. apply IH. exact Wu.
Qed.

(* ================================================================ G. the lexical step *)

Theorem lex_render_theory t : wf_theory t = true -> lex (show_theory t) = Some (strip (print_theory true t)).
Proof. intros W. apply lex_lexable, lexable_theory, W. Qed.
Theorem lex_render_spec s : wf_spec s = true -> lex (show_spec s) = Some (strip (print_spec true s)).
Proof. intros W. apply lex_lexable, lexable_spec, W. Qed.
Theorem lex_render_ug u : wf_ug u = true -> lex (show_ug u) = Some (strip (print_ug true u)).
Proof. intros W. apply lex_lexable, lexable_ug, W. Qed.
(* formulas, as fragments: followed by the "." of a theory *)
Theorem lex_render_formula_dot f : wf_formula f = true ->
  lex (render (print_formula true f ++ [TDot])) = Some (strip (print_formula true f) ++ [TDot]).
Proof.
  intros W. rewrite lex_lexable.
  - rewrite FolStrip.strip_app. reflexivity.
  - apply K_formula; [exact W|cbn; auto|reflexivity].
Qed.

(* ================================================================ H. text-level round trip *)

Theorem text_theory t : wf_theory t = true -> known_class_theory t = None ->
  parse_theory_str (show_theory t) = PR_ok t.
Proof. intros W Kc. unfold parse_theory_str, on_text. rewrite (lex_render_theory t W). apply C15_theory; assumption. Qed.
Theorem text_spec s : wf_spec s = true -> known_class_spec s = None ->
  parse_spec_str (show_spec s) = PR_ok s.
Proof. intros W Kc. unfold parse_spec_str, on_text. rewrite (lex_render_spec s W). apply C15_spec; assumption. Qed.
Theorem text_ug u : wf_ug u = true -> known_class_ug u = None ->
  parse_ug_str (show_ug u) = PR_ok u.
Proof. intros W Kc. unfold parse_ug_str, on_text. rewrite (lex_render_ug u W). apply C15_ug; assumption. Qed.

(* every accepted text: print the parsed tree, parse again: same tree; any re-parse prints the same bytes *)
Theorem accepted_theory s t : parse_theory_str s = PR_ok t -> known_class_theory t = None ->
  parse_theory_str (show_theory t) = PR_ok t /\
  (forall t', parse_theory_str (show_theory t) = PR_ok t' -> show_theory t' = show_theory t).
Proof.
  intros E Kc. pose proof (text_theory t (image_theory_str s t E) Kc) as H. split; [exact H|].
  intros t' E'. rewrite H in E'. injection E' as <-. reflexivity.
Qed.
Theorem accepted_spec s t : parse_spec_str s = PR_ok t -> known_class_spec t = None ->
  parse_spec_str (show_spec t) = PR_ok t /\
  (forall t', parse_spec_str (show_spec t) = PR_ok t' -> show_spec t' = show_spec t).
Proof.
  intros E Kc. pose proof (text_spec t (image_spec_str s t E) Kc) as H. split; [exact H|].
  intros t' E'. rewrite H in E'. injection E' as <-. reflexivity.
Qed.
Theorem accepted_ug s t : parse_ug_str s = PR_ok t -> known_class_ug t = None ->
  parse_ug_str (show_ug t) = PR_ok t /\
  (forall t', parse_ug_str (show_ug t) = PR_ok t' -> show_ug t' = show_ug t).
Proof.
  intros E Kc. pose proof (text_ug t (image_ug_str s t E) Kc) as H. split; [exact H|].
  intros t' E'. rewrite H in E'. injection E' as <-. reflexivity.
Qed.
