(* Proofs about Model/CliVerify.v (the `verify` arm of procedures::main).

   Vocabulary:
     reads_as read parse path a        the role [path] is present, the file is readable and [parse]
                                       accepts its text with the tree [a]
     strong_task_described read c t    t is the StrongEquivalenceTask the command line [c] describes:
                                       Files.sort succeeds on the path arguments (no walkdir error: no
                                       dangling link, no link to a containing directory), left / right =
                                       the parsed first / second program file (Files.sort order), the
                                       three value options passed on, simplify = not --no-simplify,
                                       break_equivalences = not --no-eq-break
     external_task_described read c t  the same for ExternalEquivalenceTask (specification = a program
                                       or a specification file, empty outline if there is no .po file)
     saved_as dir problems writes      [writes] is, problem by problem, (<dir>/<name>.p, problem_display)
     flags_only c c'                   c and c' differ at most in --no-simplify, --no-eq-break,
                                       --decomposition (and --save-problems / --no-proof-search)

   Results:
     run_verify_exit0_inv / run_verify_exit0_intro    exit 0 with these files  <->  the described task
                                       decomposes into problems whose Display texts are those files
     run_verify_panic_inv              a panic never comes from writing the files
     run_verify_sort_error             a walkdir error of Files::sort -> exit status 1, whatever else
     cli_c19_strong / cli_c19_external C19 at the command line: composed with C19_strong_fuel_proof
                                       (Proofs/StrongFullOk.v) and C19_external_proof (Proofs/C19ExtFull.v) *)
From Coq Require Import List Ascii String Bool.
From Anthem Require Import Syntax.Fol Syntax.Asp Sem.Domain Sem.Sat Model.Problem Model.Strong Model.External
  Model.StrongFull Model.ExternalFull Model.ProblemPrint Model.CliVerify
  Model.Tightness Model.PrivRec Model.Completion
  Proofs.DecomposeOk Proofs.StrongOk Proofs.StrongFullOk Proofs.ExternalOk Proofs.C19Ext Proofs.C19ExtFull Proofs.ProblemText Proofs.ExtFuel Proofs.StrongFuel.
From Anthem Require Model.Files Model.Cli.
Import ListNotations.
Open Scope list_scope.
Open Scope string_scope.

(* ---------------------------------------------------------------- the monad *)
Lemma vthen_got {A B} (x : vstep A) (k : A -> vstep B) b :
  vthen x k = VGot b <-> exists a, x = VGot a /\ k a = VGot b.
Proof.
  split.
  - destruct x as [a|r]; cbn; intros H; [exists a; auto|discriminate].
  - intros [a [-> H]]. exact H.
Qed.

Definition clean {A} (x : vstep A) : Prop :=
  match x with VStop (VExit0 _ _) => False | _ => True end.

Lemma clean_vthen {A B} (x : vstep A) (k : A -> vstep B) :
  clean x -> (forall a, clean (k a)) -> clean (vthen x k).
Proof. destruct x as [a|r]; cbn; auto. Qed.
Lemma clean_got {A} (a : A) : clean (VGot a).
Proof. exact I. Qed.
Lemma clean_ok_or {A} (o : option A) : clean (ok_or o).
Proof. destruct o; exact I. Qed.
Lemma clean_of_cli_step {A} (x : Cli.step A) : clean (of_cli_step x).
Proof. destruct x as [a|[]]; exact I. Qed.
Lemma clean_from_file {A} read (parse : string -> Cli.step A) path : clean (from_file read parse path).
Proof. unfold from_file. destruct (read path); [apply clean_of_cli_step|exact I]. Qed.

Lemma ok_or_got {A} (o : option A) a : ok_or o = VGot a <-> o = Some a.
Proof. destruct o; cbn; split; intros H; inversion H; auto. Qed.
Lemma of_cli_step_got {A} (x : Cli.step A) a : of_cli_step x = VGot a <-> x = Cli.Got a.
Proof. destruct x as [b|[]]; cbn; split; intros H; inversion H; auto. Qed.

(* ---------------------------------------------------------------- reading the role files *)
Section Read.
Variable read : string -> option string.

Definition reads_as {A} (parse : string -> Cli.step A) (path : option string) (a : A) : Prop :=
  exists p text, path = Some p /\ read p = Some text /\ parse text = Cli.Got a.

Lemma reads_as_fun {A} (parse : string -> Cli.step A) path a a' :
  reads_as parse path a -> reads_as parse path a' -> a = a'.
Proof.
  intros [p [tx [Hp [Hr Hq]]]] [p' [tx' [Hp' [Hr' Hq']]]].
  rewrite Hp in Hp'. inversion Hp'; subst p'. rewrite Hr in Hr'. inversion Hr'; subst tx'.
  rewrite Hq in Hq'. inversion Hq'. reflexivity.
Qed.

Lemma from_file_got {A} (parse : string -> Cli.step A) p a :
  from_file read parse p = VGot a <-> exists text, read p = Some text /\ parse text = Cli.Got a.
Proof.
  unfold from_file. destruct (read p) as [tx|].
  - rewrite of_cli_step_got. split.
    + intros H. exists tx. auto.
    + intros [tx' [E H]]. inversion E; subst. exact H.
  - split; [discriminate|]. intros [tx [E _]]. discriminate.
Qed.

Lemma role_got {A} (parse : string -> Cli.step A) (path : option string) (B : Type) (k : A -> vstep B) b :
  vthen (ok_or path) (fun p => vthen (from_file read parse p) k) = VGot b <->
  exists a, reads_as parse path a /\ k a = VGot b.
Proof.
  rewrite vthen_got. split.
  - intros [p [Hp H]]. apply ok_or_got in Hp. apply vthen_got in H. destruct H as [a [Ha Hk]].
    apply from_file_got in Ha. destruct Ha as [tx [Hr Hq]].
    exists a. split; [exists p, tx; auto|exact Hk].
  - intros [a [[p [tx [Hp [Hr Hq]]]] Hk]]. exists p. split; [apply ok_or_got; exact Hp|].
    apply vthen_got. exists a. split; [apply from_file_got; exists tx; auto|exact Hk].
Qed.

(* ---------------------------------------------------------------- the task a command line describes *)
(* [.._in c files t]: over the sorted files [files]; [.._described c t]: Files::sort returns Ok(files) *)
Definition strong_task_described_in (c : verify_command) (files : Files.files string) (t : strong_task) : Prop :=
  exists left right,
    reads_as Cli.program_from_file (Files.left files) left /\
    reads_as Cli.program_from_file (Files.right files) right /\
    t = mkstrong left right (v_decomposition c) (v_direction c) (v_formula_representation c)
                 (negb (v_no_simplify c)) (negb (v_no_eq_break c)).
Definition strong_task_described (c : verify_command) (t : strong_task) : Prop :=
  exists files, Files.sort (v_files c) = Files.WOk files /\ strong_task_described_in c files t.

Definition specification_read (files : Files.files string) (sp : program + specification) : Prop :=
  match sp with
  | inl p => exists path, Files.specification files = Some (inl path) /\ reads_as Cli.program_from_file (Some path) p
  | inr s => exists path, Files.specification files = Some (inr path) /\ reads_as Cli.specification_from_file (Some path) s
  end.

Definition outline_read (files : Files.files string) (o : specification) : Prop :=
  match Files.proof_outline files with
  | Some path => reads_as Cli.specification_from_file (Some path) o
  | None => o = []
  end.

Definition external_task_described_in (c : verify_command) (files : Files.files string) (t : ext_task) : Prop :=
  exists sp prog ug outline,
    specification_read files sp /\
    reads_as Cli.program_from_file (Files.program files) prog /\
    reads_as Cli.user_guide_from_file (Files.user_guide files) ug /\
    outline_read files outline /\
    t = mkext sp prog ug outline (v_decomposition c) (v_direction c) (v_formula_representation c)
              (v_bypass_tightness c) (negb (v_no_simplify c)) (negb (v_no_eq_break c)).
Definition external_task_described (c : verify_command) (t : ext_task) : Prop :=
  exists files, Files.sort (v_files c) = Files.WOk files /\ external_task_described_in c files t.

Lemma sort_files_got c files : sort_files c = VGot files <-> Files.sort (v_files c) = Files.WOk files.
Proof. unfold sort_files. destruct (Files.sort (v_files c)); split; intros H; inversion H; reflexivity. Qed.
Lemma clean_sort_files c : clean (sort_files c).
Proof. unfold sort_files. destruct (Files.sort (v_files c)); exact I. Qed.

Lemma strong_task_from_files_got_in c files t :
  strong_task_from_files read c files = VGot t <-> strong_task_described_in c files t.
Proof.
  unfold strong_task_from_files, strong_task_described_in.
  rewrite role_got. split.
  - intros [l [Hl H]]. apply role_got in H. destruct H as [r [Hr H]]. inversion H; subst t.
    exists l, r. auto.
  - intros [l [r [Hl [Hr ->]]]]. exists l. split; [exact Hl|]. apply role_got. exists r. split; [exact Hr|reflexivity].
Qed.

Lemma reads_as_some {A} (parse : string -> Cli.step A) p a :
  reads_as parse (Some p) a <-> from_file read parse p = VGot a.
Proof.
  rewrite from_file_got. split.
  - intros [p' [tx [E [Hr Hq]]]]. inversion E; subst. exists tx. auto.
  - intros [tx [Hr Hq]]. exists p, tx. auto.
Qed.

(* the task of a command line: Files::sort, then the role files *)
Lemma strong_task_from_files_got c t :
  vthen (sort_files c) (strong_task_from_files read c) = VGot t <-> strong_task_described c t.
Proof.
  unfold strong_task_described. rewrite vthen_got. split; intros [files [Hs Ht]]; exists files.
  - split; [apply sort_files_got; exact Hs|apply strong_task_from_files_got_in; exact Ht].
  - split; [apply sort_files_got; exact Hs|apply strong_task_from_files_got_in; exact Ht].
Qed.

Lemma external_task_from_files_got_in c files t :
  external_task_from_files read c files = VGot t <-> external_task_described_in c files t.
Proof.
  unfold external_task_from_files, external_task_described_in.
  rewrite vthen_got. split.
  - intros [spath [Hsp H]]. apply ok_or_got in Hsp.
    apply vthen_got in H. destruct H as [sp [Hsr H]].
    apply role_got in H. destruct H as [prog [Hprog H]].
    apply role_got in H. destruct H as [ug [Hug H]].
    apply vthen_got in H. destruct H as [o [Ho H]]. inversion H; subst t.
    exists sp, prog, ug, o. repeat split; auto.
    + destruct spath as [path|path]; apply vthen_got in Hsr; destruct Hsr as [x [Hx Hx']]; inversion Hx'; subst sp;
        cbn; exists path; split; auto; apply reads_as_some; exact Hx.
    + unfold outline_read. destruct (Files.proof_outline files) as [path|].
      * apply reads_as_some. exact Ho.
      * inversion Ho. reflexivity.
  - intros [sp [prog [ug [o [Hsp [Hprog [Hug [Ho ->]]]]]]]].
    destruct sp as [p|s]; cbn in Hsp; destruct Hsp as [path [Hpath Hr]]; apply reads_as_some in Hr.
    + exists (inl path). split; [apply ok_or_got; exact Hpath|].
      apply vthen_got. exists (inl p). split; [apply vthen_got; exists p; auto|].
      apply role_got. exists prog. split; [exact Hprog|]. apply role_got. exists ug. split; [exact Hug|].
      apply vthen_got. exists o. split; [|reflexivity].
      unfold outline_read in Ho. destruct (Files.proof_outline files) as [path'|].
      * apply reads_as_some. exact Ho.
      * subst o. reflexivity.
    + exists (inr path). split; [apply ok_or_got; exact Hpath|].
      apply vthen_got. exists (inr s). split; [apply vthen_got; exists s; auto|].
      apply role_got. exists prog. split; [exact Hprog|]. apply role_got. exists ug. split; [exact Hug|].
      apply vthen_got. exists o. split; [|reflexivity].
      unfold outline_read in Ho. destruct (Files.proof_outline files) as [path'|].
      * apply reads_as_some. exact Ho.
      * subst o. reflexivity.
Qed.

Lemma external_task_from_files_got c t :
  vthen (sort_files c) (external_task_from_files read c) = VGot t <-> external_task_described c t.
Proof.
  unfold external_task_described. rewrite vthen_got. split; intros [files [Hs Ht]]; exists files.
  - split; [apply sort_files_got; exact Hs|apply external_task_from_files_got_in; exact Ht].
  - split; [apply sort_files_got; exact Hs|apply external_task_from_files_got_in; exact Ht].
Qed.

(* the described task is unique *)
Lemma strong_task_described_fun c t t' : strong_task_described c t -> strong_task_described c t' -> t = t'.
Proof.
  intros H H'. apply strong_task_from_files_got in H. apply strong_task_from_files_got in H'.
  rewrite H in H'. inversion H'. reflexivity.
Qed.
Lemma external_task_described_fun c t t' : external_task_described c t -> external_task_described c t' -> t = t'.
Proof.
  intros H H'. apply external_task_from_files_got in H. apply external_task_from_files_got in H'.
  rewrite H in H'. inversion H'. reflexivity.
Qed.

(* ---------------------------------------------------------------- nothing stops with an exit-0 answer *)
Lemma clean_strong_task_from_files c files : clean (strong_task_from_files read c files).
Proof.
  unfold strong_task_from_files.
  repeat (apply clean_vthen; [first [apply clean_ok_or|apply clean_from_file]|intros ?]). exact I.
Qed.
Lemma clean_external_task_from_files c files : clean (external_task_from_files read c files).
Proof.
  unfold external_task_from_files.
  apply clean_vthen; [apply clean_ok_or|intros sp].
  apply clean_vthen.
  { destruct sp; (apply clean_vthen; [apply clean_from_file|intros ?; exact I]). }
  intros ?.
  repeat (apply clean_vthen; [first [apply clean_ok_or|apply clean_from_file]|intros ?]).
  apply clean_vthen; [|intros ?; exact I].
  destruct (Files.proof_outline files); [apply clean_from_file|exact I].
Qed.
Lemma clean_decompose_strong fuel t : clean (decompose_strong fuel t).
Proof. unfold decompose_strong. destruct (strong_decompose_full_fuel fuel t); exact I. Qed.
Lemma clean_decompose_external fuel t : clean (decompose_external fuel t).
Proof. unfold decompose_external. destruct (external_decompose_full fuel t); exact I. Qed.
Lemma clean_problems_of fuel c : clean (problems_of read fuel c).
Proof.
  unfold problems_of. apply clean_vthen; [apply clean_sort_files|intros files].
  destruct (v_equivalence c); apply clean_vthen.
  - apply clean_strong_task_from_files.
  - intros ?. apply clean_decompose_strong.
  - apply clean_external_task_from_files.
  - intros ?. apply clean_decompose_external.
Qed.

(* ---------------------------------------------------------------- the problems of a command line *)
(* [decomposes_to fuel c w problems]: the task [c] describes exists and its decompose() returns
   [problems] with warnings [w] *)
Definition decomposes_to (fuel : nat) (c : verify_command) (w : list ext_warning) (problems : list problem) : Prop :=
  match v_equivalence c with
  | Strong => w = [] /\ exists t, strong_task_described c t /\ strong_decompose_full_fuel fuel t = SOk problems
  | External => exists t, external_task_described c t /\ external_decompose_full fuel t = XOk w problems
  end.

Lemma problems_of_got fuel c w problems :
  problems_of read fuel c = VGot (w, problems) <-> decomposes_to fuel c w problems.
Proof.
  unfold problems_of, decomposes_to. rewrite vthen_got. destruct (v_equivalence c).
  - split.
    + intros [files [Hs H]]. apply vthen_got in H. destruct H as [t [Ht Hd]].
      unfold decompose_strong in Hd.
      destruct (strong_decompose_full_fuel fuel t) as [pbs| |] eqn:E; inversion Hd; subst.
      split; [reflexivity|]. exists t. split; [|exact E]. apply strong_task_from_files_got.
      apply vthen_got. exists files. auto.
    + intros [-> [t [Ht Hd]]]. apply strong_task_from_files_got in Ht. apply vthen_got in Ht.
      destruct Ht as [files [Hs Ht]]. exists files. split; [exact Hs|]. apply vthen_got. exists t. split; [exact Ht|].
      unfold decompose_strong. rewrite Hd. reflexivity.
  - split.
    + intros [files [Hs H]]. apply vthen_got in H. destruct H as [t [Ht Hd]].
      unfold decompose_external in Hd.
      destruct (external_decompose_full fuel t) as [w0 pbs|e| |] eqn:E; inversion Hd; subst.
      exists t. split; [|exact E]. apply external_task_from_files_got. apply vthen_got. exists files. auto.
    + intros [t [Ht Hd]]. apply external_task_from_files_got in Ht. apply vthen_got in Ht.
      destruct Ht as [files [Hs Ht]]. exists files. split; [exact Hs|]. apply vthen_got. exists t. split; [exact Ht|].
      unfold decompose_external. rewrite Hd. reflexivity.
Qed.

(* Files::sort fails (a dangling link, a link to a directory that contains it): exit status 1 *)
Theorem run_verify_sort_error fuel c e :
  Files.sort (v_files c) = Files.WErr e -> run_verify_fuel read fuel c = VError.
Proof. intros H. unfold run_verify_fuel, problems_of, sort_files. rewrite H. reflexivity. Qed.
(* ... and a described task exists only if it succeeds *)
Lemma strong_task_described_sorted c t : strong_task_described c t -> exists files, Files.sort (v_files c) = Files.WOk files.
Proof. intros [files [H _]]. exists files. exact H. Qed.
Lemma external_task_described_sorted c t : external_task_described c t -> exists files, Files.sort (v_files c) = Files.WOk files.
Proof. intros [files [H _]]. exists files. exact H. Qed.

(* ---------------------------------------------------------------- --save-problems *)
Definition saved_as (out_dir : option string) (problems : list problem) (writes : list (string * string)) : Prop :=
  match out_dir with
  | Some d => Forall2 (fun p w => fst w = path_push d (pb_name p ++ ".p") /\ problem_display p = Some (snd w)) problems writes
  | None => writes = []
  end.

Lemma save_problems_spec d problems writes :
  save_problems d problems = Some writes <-> saved_as (Some d) problems writes.
Proof.
  unfold saved_as. revert writes. induction problems as [|p ps IH]; intros writes; cbn.
  - split; [intros H; inversion H; constructor|intros H; inversion H; reflexivity].
  - destruct (problem_display p) as [tx|] eqn:Ep.
    + destruct (save_problems d ps) as [ws|] eqn:Es.
      * split.
        -- intros H. inversion H; subst. constructor; [split; [reflexivity|exact Ep]|apply IH; reflexivity].
        -- intros H. inversion H as [|p0 w0 ps0 ws0 [Hf Hs] Hrest]; subst.
           apply IH in Hrest. inversion Hrest; subst. cbn in Hs. rewrite Ep in Hs. inversion Hs.
           destruct w0 as [a b]; cbn in *. subst. reflexivity.
      * split; [discriminate|]. intros H. inversion H as [|p0 w0 ps0 ws0 _ Hrest]; subst.
        apply IH in Hrest. discriminate.
    + split; [discriminate|]. intros H. inversion H as [|p0 w0 ps0 ws0 [_ Hs] _]; subst. rewrite Ep in Hs. discriminate.
Qed.

Lemma save_problems_total d problems : exists writes, save_problems d problems = Some writes.
Proof.
  induction problems as [|p ps [ws IH]]; cbn; [eexists; reflexivity|].
  destruct (problem_display_total p) as [tx ->]. rewrite IH. eexists; reflexivity.
Qed.

Lemma saved_as_total o problems : exists writes, saved_as o problems writes.
Proof.
  destruct o as [d|]; [|exists []; reflexivity].
  destruct (save_problems_total d problems) as [ws H]. exists ws. apply save_problems_spec. exact H.
Qed.

Lemma saved_as_fun o problems writes writes' : saved_as o problems writes -> saved_as o problems writes' -> writes = writes'.
Proof.
  destruct o as [d|]; [|cbn; congruence].
  intros H H'. apply save_problems_spec in H. apply save_problems_spec in H'. congruence.
Qed.

(* ---------------------------------------------------------------- exit 0 *)
Theorem run_verify_exit0_iff fuel c w writes :
  run_verify_fuel read fuel c = VExit0 w writes <->
  exists problems, decomposes_to fuel c w problems /\ saved_as (v_save_problems c) problems writes.
Proof.
  unfold run_verify_fuel. split.
  - intros H. pose proof (clean_problems_of fuel c) as Hc.
    destruct (problems_of read fuel c) as [[w0 pbs]|r] eqn:E; cbn in H.
    + exists pbs. destruct (v_save_problems c) as [d|] eqn:Es; cbn [fst snd] in H.
      * destruct (save_problems d pbs) as [ws|] eqn:Esv; inversion H; subst.
        split; [apply problems_of_got; exact E|]. apply save_problems_spec. exact Esv.
      * inversion H; subst. split; [apply problems_of_got; exact E|reflexivity].
    + subst r. exact (False_ind _ Hc).
  - intros [pbs [Hd Hs]]. apply problems_of_got in Hd. rewrite Hd. cbn.
    destruct (v_save_problems c) as [d|]; cbn [fst snd].
    + apply save_problems_spec in Hs. rewrite Hs. reflexivity.
    + cbn in Hs. subst writes. reflexivity.
Qed.

(* a panic is the parser's or decompose()'s, never the writing of the files *)
Theorem run_verify_panic_inv fuel c :
  run_verify_fuel read fuel c = VPanic -> problems_of read fuel c = VStop VPanic.
Proof.
  unfold run_verify_fuel. destruct (problems_of read fuel c) as [[w pbs]|r]; cbn.
  - destruct (v_save_problems c) as [d|]; [|discriminate].
    destruct (save_problems_total d pbs) as [ws ->]. discriminate.
  - intros ->. reflexivity.
Qed.

(* --no-proof-search does not change the files (nor does anything else that only reaches the prover) *)
Lemma run_verify_no_proof_search fuel c b :
  run_verify_fuel read fuel
    (mkverify (v_equivalence c) (v_decomposition c) (v_direction c) (v_formula_representation c)
              (v_bypass_tightness c) (v_no_simplify c) (v_no_eq_break c) b (v_save_problems c) (v_files c))
  = run_verify_fuel read fuel c.
Proof. reflexivity. Qed.

(* ---------------------------------------------------------------- C19 at the command line *)
Definition flags_only (c c' : verify_command) : Prop :=
  v_equivalence c = v_equivalence c' /\ v_direction c = v_direction c' /\
  v_formula_representation c = v_formula_representation c' /\
  v_bypass_tightness c = v_bypass_tightness c' /\ v_files c = v_files c'.

Lemma described_same_claim_strong c c' t t' :
  flags_only c c' -> strong_task_described c t -> strong_task_described c' t' -> StrongOk.same_claim t t'.
Proof.
  intros [_ [Hd [Hr [_ Hf]]]] [files [Hs [l [r [Hl [Hrr ->]]]]]] [files' [Hs' [l' [r' [Hl' [Hrr' ->]]]]]].
  rewrite <- Hf, Hs in Hs'. inversion Hs'; subst files'.
  rewrite (reads_as_fun _ _ _ _ Hl Hl'), (reads_as_fun _ _ _ _ Hrr Hrr').
  unfold StrongOk.same_claim. cbn. auto.
Qed.

Lemma specification_read_fun files sp sp' : specification_read files sp -> specification_read files sp' -> sp = sp'.
Proof.
  destruct sp as [p|s], sp' as [p'|s']; cbn; intros [path [E H]] [path' [E' H']]; rewrite E in E'; inversion E'; subst.
  - f_equal. eapply reads_as_fun; eauto.
  - f_equal. eapply reads_as_fun; eauto.
Qed.
Lemma outline_read_fun files o o' : outline_read files o -> outline_read files o' -> o = o'.
Proof.
  unfold outline_read. destruct (Files.proof_outline files).
  - intros H H'. eapply reads_as_fun; eauto.
  - congruence.
Qed.

Lemma described_same_claim_external c c' t t' :
  flags_only c c' -> external_task_described c t -> external_task_described c' t' -> C19Ext.same_claim t t'.
Proof.
  intros [_ [Hd [_ [_ Hf]]]] [files [Hs [sp [p [u [o [Hsp [Hp [Hu [Ho ->]]]]]]]]]]
         [files' [Hs' [sp' [p' [u' [o' [Hsp' [Hp' [Hu' [Ho' ->]]]]]]]]]].
  rewrite <- Hf, Hs in Hs'. inversion Hs'; subst files'.
  rewrite (specification_read_fun _ _ _ Hsp Hsp'), (reads_as_fun _ _ _ _ Hp Hp'), (reads_as_fun _ _ _ _ Hu Hu'),
    (outline_read_fun _ _ _ Ho Ho').
  unfold C19Ext.same_claim. cbn. auto.
Qed.

Theorem cli_c19_strong fuel c c' w writes w' writes' :
  v_equivalence c = Strong -> flags_only c c' ->
  run_verify_fuel read fuel c = VExit0 w writes -> run_verify_fuel read fuel c' = VExit0 w' writes' ->
  (forall t, strong_task_described c t -> no_symbol_pred_clash_full_fuel fuel t) ->
  (forall t, strong_task_described c' t -> no_symbol_pred_clash_full_fuel fuel t) ->
  exists problems problems',
    saved_as (v_save_problems c) problems writes /\ saved_as (v_save_problems c') problems' writes' /\
    forall FI M, refutes_some FI M problems <-> refutes_some FI M problems'.
Proof.
  intros He Hf H H' Hn Hn'.
  apply run_verify_exit0_iff in H. apply run_verify_exit0_iff in H'.
  destruct H as [pbs [Hd Hs]]. destruct H' as [pbs' [Hd' Hs']].
  unfold decomposes_to in Hd, Hd'. destruct Hf as [Heq Hrest]. rewrite <- Heq in Hd'. rewrite He in Hd, Hd'.
  destruct Hd as [_ [t [Ht Ed]]]. destruct Hd' as [_ [t' [Ht' Ed']]].
  exists pbs, pbs'. split; [exact Hs|]. split; [exact Hs'|].
  apply (C19_strong_fuel_proof fuel t t' pbs pbs'); auto.
  eapply described_same_claim_strong; eauto. split; auto.
Qed.

Theorem cli_c19_external fuel c c' w writes w' writes' :
  v_equivalence c = External -> flags_only c c' ->
  run_verify_fuel read fuel c = VExit0 w writes -> run_verify_fuel read fuel c' = VExit0 w' writes' ->
  (forall t vt, external_task_described c t ->
     task_validated tau_star_total completion (simp_classic_total fuel) t = Some vt -> validated_no_clash vt) ->
  (forall t vt, external_task_described c' t ->
     task_validated tau_star_total completion (simp_classic_total fuel) t = Some vt -> validated_no_clash vt) ->
  exists problems problems',
    saved_as (v_save_problems c) problems writes /\ saved_as (v_save_problems c') problems' writes' /\
    forall FI M, refutes_some FI M problems <-> refutes_some FI M problems'.
Proof.
  intros He Hf H H' Hn Hn'.
  apply run_verify_exit0_iff in H. apply run_verify_exit0_iff in H'.
  destruct H as [pbs [Hd Hs]]. destruct H' as [pbs' [Hd' Hs']].
  unfold decomposes_to in Hd, Hd'. destruct Hf as [Heq Hrest]. rewrite <- Heq in Hd'. rewrite He in Hd, Hd'.
  destruct Hd as [t [Ht Ed]]. destruct Hd' as [t' [Ht' Ed']].
  exists pbs, pbs'. split; [exact Hs|]. split; [exact Hs'|].
  apply (C19_external_proof fuel t t' w pbs w' pbs'); eauto.
  eapply described_same_claim_external; eauto. split; auto.
Qed.

(* ---------------------------------------------------------------- spelled out *)
Lemma decomposes_to_meaning fuel c w problems :
  decomposes_to fuel c w problems <->
  match v_equivalence c with
  | Strong => w = [] /\ exists t, strong_task_described c t /\ strong_decompose_full_fuel fuel t = SOk problems
  | External => exists t, external_task_described c t /\ external_decompose_full fuel t = XOk w problems
  end.
Proof. reflexivity. Qed.

Lemma strong_task_flags c t : strong_task_described c t ->
  st_simplify t = negb (v_no_simplify c) /\ st_break t = negb (v_no_eq_break c) /\
  st_decomposition t = v_decomposition c /\ st_direction t = v_direction c /\
  st_repr t = v_formula_representation c.
Proof. intros [files [_ [l [r [_ [_ ->]]]]]]. cbn. auto. Qed.

Lemma external_task_flags c t : external_task_described c t ->
  et_simplify t = negb (v_no_simplify c) /\ et_break t = negb (v_no_eq_break c) /\
  et_decomposition t = v_decomposition c /\ et_direction t = v_direction c /\
  et_repr t = v_formula_representation c /\ et_bypass_tightness t = v_bypass_tightness c.
Proof. intros [files [_ [sp [p [u [o [_ [_ [_ [_ ->]]]]]]]]]]. cbn. repeat split. Qed.

(* ---------------------------------------------------------------- the fuel *)
Lemma problems_of_fuel_mono n c x :
  problems_of read n c = x -> x <> VStop VOutOfFuel -> forall m, n <= m -> problems_of read m c = x.
Proof.
  unfold problems_of. intros H Hx m Hm. destruct (sort_files c) as [files|r0]; cbn [vthen] in *; [|exact H].
  destruct (v_equivalence c).
  - destruct (strong_task_from_files read c files) as [t|r]; cbn in *; [|exact H].
    unfold decompose_strong in *.
    destruct (strong_decompose_full_fuel n t) as [pbs| |] eqn:E.
    + rewrite (strong_decompose_full_fuel_mono n t (SOk pbs) E ltac:(discriminate) m Hm). exact H.
    + rewrite (strong_decompose_full_fuel_mono n t SPanic E ltac:(discriminate) m Hm). exact H.
    + subst x. exfalso. apply Hx. reflexivity.
  - destruct (external_task_from_files read c files) as [t|r]; cbn in *; [|exact H].
    unfold decompose_external in *.
    destruct (external_decompose_full n t) as [w pbs|e| |] eqn:E.
    + rewrite (external_decompose_full_mono n t _ E ltac:(discriminate) m Hm). exact H.
    + rewrite (external_decompose_full_mono n t _ E ltac:(discriminate) m Hm). exact H.
    + rewrite (external_decompose_full_mono n t _ E ltac:(discriminate) m Hm). exact H.
    + subst x. exfalso. apply Hx. reflexivity.
Qed.

Theorem run_verify_fuel_mono n c r :
  run_verify_fuel read n c = r -> r <> VOutOfFuel -> forall m, n <= m -> run_verify_fuel read m c = r.
Proof.
  unfold run_verify_fuel. intros H Hr m Hm.
  assert (Hx : problems_of read n c <> VStop VOutOfFuel).
  { intros E. rewrite E in H. cbn in H. subst r. apply Hr. reflexivity. }
  rewrite (problems_of_fuel_mono n c _ eq_refl Hx m Hm). exact H.
Qed.

End Read.

(* ---------------------------------------------------------------- defaults, directory listing *)
Lemma clap_parse_defaults a :
  v_decomposition (clap_parse a) = match a_decomposition a with Some d => d | None => DSequential end /\
  v_direction (clap_parse a) = match a_direction a with Some d => d | None => DUniversal end /\
  v_formula_representation (clap_parse a) = match a_formula_representation a with Some r => r | None => ReprTauStar end.
Proof. destruct a as [? [?|] [?|] [?|] ? ? ? ? ? ?]; cbn; auto. Qed.

(* fuel: an exit-0 / error / panic answer is the answer of every larger fuel *)
Lemma run_verify_executable read c : run_verify read c = run_verify_fuel read 64 c.
Proof. reflexivity. Qed.
