(* Semantic facts about assignments: update/lookup, the coincidence lemma (satisfaction depends
   only on the free variables), quantifier blocks as simultaneous updates, validity of
   universally quantified formulas, left-nested disjunctions. *)
From Coq Require Import List Ascii String ZArith Bool Lia.
From Anthem Require Import Base.ISet Syntax.Fol Sem.Domain Sem.Sat Proofs.ExtendAll.
Import ListNotations.
Open Scope string_scope.
Open Scope list_scope.

(* ---------- lookup / update ---------- *)
Lemma getv_in_sort e v : in_sort (vsort v) (getv e v).
Proof. destruct v as [n s]; destruct s; cbn; auto. Qed.
Lemma getv_upd_same e v d : in_sort (vsort v) d -> getv (upd e v d) v = d.
Proof.
  destruct v as [n s]; unfold getv, upd; cbn.
  destruct s, d; cbn; try tauto; intros _; rewrite String.eqb_refl; reflexivity.
Qed.
Lemma getv_upd_other e v d x : x <> v -> getv (upd e v d) x = getv e x.
Proof.
  destruct v as [n s], x as [m u]; unfold getv, upd; cbn. intros Hne.
  destruct s, d, u; cbn; auto; destruct (String.eqb_spec m n); subst; congruence.
Qed.

Fixpoint upds (e : env) (vs : list var) (ds : list gval) : env :=
  match vs, ds with
  | v :: vs', d :: ds' => upds (upd e v d) vs' ds'
  | _, _ => e
  end.
Definition in_sorts (vs : list var) (ds : list gval) : Prop :=
  Forall2 (fun v d => in_sort (vsort v) d) vs ds.

Lemma getv_upds_other vs : forall ds e x, ~ In x vs -> getv (upds e vs ds) x = getv e x.
Proof.
  induction vs as [|v vs IH]; intros [|d ds] e x Hx; cbn; auto.
  rewrite IH by (cbn in Hx; tauto). apply getv_upd_other. cbn in Hx. intros ->; tauto.
Qed.
Lemma getv_upds_same vs : forall ds e, NoDup vs -> in_sorts vs ds -> map (getv (upds e vs ds)) vs = ds.
Proof.
  induction vs as [|v vs IH]; intros ds e Hn Hs; inversion Hs as [|? d ? ds' Hd Hs']; subst; cbn; auto.
  inversion Hn as [|? ? Hv Hn']; subst.
  rewrite IH by auto. f_equal.
  rewrite getv_upds_other by auto. apply getv_upd_same; auto.
Qed.
(* re-assigning the values another assignment gives: agreement with it on the block and,
   where the two agreed before, elsewhere *)
Lemma getv_upds_own vs : forall e e0 x,
  (In x vs \/ getv e x = getv e0 x) -> getv (upds e vs (map (getv e0) vs)) x = getv e0 x.
Proof.
  induction vs as [|v vs IH]; intros e e0 x Hx; cbn.
  - destruct Hx as [[]|Hx]; auto.
  - apply IH. destruct (var_dec x v) as [->|Hne].
    + right. apply getv_upd_same, getv_in_sort.
    + destruct Hx as [[Hx|Hx]|Hx]; [congruence|auto|]. right. rewrite getv_upd_other; auto.
Qed.
Lemma in_sorts_own e vs : in_sorts vs (map (getv e) vs).
Proof. induction vs; cbn; constructor; auto using getv_in_sort. Qed.

(* ---------- quantifier blocks ---------- *)
Lemma qsat_forall_iff vs (k : env -> Prop) : forall e,
  qsat QForall vs k e <-> forall ds, in_sorts vs ds -> k (upds e vs ds).
Proof.
  induction vs as [|v vs IH]; intros e; cbn.
  - split; [intros H ds _; destruct ds; auto|]. intros H. apply (H []). constructor.
  - split.
    + intros H ds Hs. inversion Hs as [|? d ? ds' Hd Hs']; subst. cbn. apply IH; auto.
    + intros H d Hd. apply IH. intros ds Hs. apply (H (d :: ds)). constructor; auto.
Qed.
Lemma qsat_exists_iff vs (k : env -> Prop) : forall e,
  qsat QExists vs k e <-> exists ds, in_sorts vs ds /\ k (upds e vs ds).
Proof.
  induction vs as [|v vs IH]; intros e; cbn.
  - split; [intros H; exists []; split; [constructor|auto]|]. intros [ds [Hs H]]. inversion Hs; subst; auto.
  - split.
    + intros [d [Hd H]]. apply IH in H. destruct H as [ds [Hs H]]. exists (d :: ds). split; [constructor; auto|auto].
    + intros [ds [Hs H]]. inversion Hs as [|? d ? ds' Hd Hs']; subst. exists d. split; auto.
      apply IH. exists ds'. auto.
Qed.

(* ---------- free variables ---------- *)
Lemma nodup_iterm_vars t : NoDup (iterm_vars t).
Proof.
  induction t; cbn; try constructor; auto; try constructor.
  apply nodup_iset_extend; auto.
Qed.
Lemma nodup_gterm_vars t : NoDup (gterm_vars t).
Proof.
  destruct t as [| | | |t|t]; cbn; try constructor; auto; try constructor.
  - apply nodup_iterm_vars.
  - destruct t; cbn; constructor; auto; constructor.
Qed.
Lemma nodup_aformula_vars a : NoDup (aformula_vars a).
Proof.
  destruct a; cbn; try constructor.
  - apply nodup_extend_all. constructor.
  - apply nodup_extend_all, nodup_gterm_vars.
Qed.
Lemma in_fold_remove (vs : list var) : forall l x, NoDup l ->
  (In x (fold_left (fun acc v => iset_remove var_dec v acc) vs l) <-> In x l /\ ~ In x vs).
Proof.
  induction vs as [|v vs IH]; intros l x Hl; cbn; [tauto|].
  rewrite IH by (apply nodup_iset_remove; auto). rewrite in_iset_remove by auto.
  split; [intros [[H1 H2] H3]; split; auto; intros [->|H]; auto|].
  intros [H1 H2]. repeat split; auto.
Qed.
Lemma nodup_fold_remove (vs : list var) : forall l, NoDup l ->
  NoDup (fold_left (fun acc v => iset_remove var_dec v acc) vs l).
Proof. induction vs as [|v vs IH]; intros l Hl; cbn; auto. apply IH, nodup_iset_remove, Hl. Qed.
Lemma nodup_free_variables f : NoDup (free_variables f).
Proof.
  induction f as [a|f IH|c l IHl r IHr|q vs f IH]; cbn; auto.
  - apply nodup_aformula_vars.
  - apply nodup_iset_extend; auto.
  - apply nodup_fold_remove; auto.
Qed.
Lemma in_free_variables_FQ q vs f x :
  In x (free_variables (FQ q vs f)) <-> In x (free_variables f) /\ ~ In x vs.
Proof. cbn. apply in_fold_remove, nodup_free_variables. Qed.

(* ---------- coincidence ---------- *)
Definition agree_on (vs : list var) (e e' : env) : Prop := forall v, In v vs -> getv e v = getv e' v.

Section Coincidence.
Variable FI : fint.

Lemma ev_i_agree t : forall e e', agree_on (iterm_vars t) e e' -> ev_i FI e t = ev_i FI e' t.
Proof.
  induction t as [z|c|x|o t IH|o l IHl r IHr]; intros e e' H; cbn; auto.
  - specialize (H (mkvar x SInteger) (or_introl eq_refl)). unfold getv in H; cbn in H. congruence.
  - destruct o. rewrite (IH e e'); auto.
  - assert (Hl : agree_on (iterm_vars l) e e') by (intros v Hv; apply H; cbn; apply in_iset_extend; auto).
    assert (Hr : agree_on (iterm_vars r) e e') by (intros v Hv; apply H; cbn; apply in_iset_extend; auto).
    destruct o; rewrite (IHl e e'), (IHr e e'); auto.
Qed.
Lemma ev_g_agree t e e' : agree_on (gterm_vars t) e e' -> ev_g FI e t = ev_g FI e' t.
Proof.
  destruct t as [| |c|x|t|t]; intros H; cbn; auto.
  - apply (H (mkvar x SGeneral)). cbn; auto.
  - f_equal. apply ev_i_agree; auto.
  - destruct t as [s|c|x]; cbn; auto.
    specialize (H (mkvar x SSymbol) (or_introl eq_refl)). unfold getv in H; cbn in H. congruence.
Qed.
Lemma chain_sat_agree gs : forall e e' l,
  (forall g, In g gs -> agree_on (gterm_vars (gterm_of g)) e e') ->
  chain_sat FI e l gs = chain_sat FI e' l gs.
Proof.
  induction gs as [|g gs IH]; intros e e' l H; cbn; auto.
  rewrite (ev_g_agree (gterm_of g) e e') by (apply H; cbn; auto).
  f_equal. apply IH. intros g' Hg'. apply H; cbn; auto.
Qed.
Lemma asat_agree I a e e' : agree_on (aformula_vars a) e e' -> (asat FI I e a <-> asat FI I e' a).
Proof.
  destruct a as [| |p ts|t gs]; intros H; cbn; try tauto.
  - assert (E : map (ev_g FI e) ts = map (ev_g FI e') ts).
    { apply map_ext_in. intros t Ht. apply ev_g_agree. intros v Hv. apply H. cbn.
      apply in_extend_all. right. eauto. }
    rewrite E. tauto.
  - rewrite (ev_g_agree t e e'), (chain_sat_agree gs e e'); [tauto| |].
    + intros g Hg v Hv. apply H. cbn. apply in_extend_all. right. eauto.
    + intros v Hv. apply H. cbn. apply in_extend_all. auto.
Qed.

Lemma qsat_agree q vs (k : env -> Prop) (fv : list var) :
  (forall e e', agree_on fv e e' -> (k e <-> k e')) ->
  forall e e', (forall x, In x fv -> ~ In x vs -> getv e x = getv e' x) ->
  (qsat q vs k e <-> qsat q vs k e').
Proof.
  intros Hk. induction vs as [|v vs IH]; intros e e' H; cbn.
  - apply Hk. intros x Hx. apply H; auto.
  - assert (Hu : forall d, in_sort (vsort v) d ->
                 forall x, In x fv -> ~ In x vs -> getv (upd e v d) x = getv (upd e' v d) x).
    { intros d Hd x Hx Hn. destruct (var_dec x v) as [->|Hne].
      - rewrite !getv_upd_same; auto.
      - rewrite !getv_upd_other by auto. apply H; auto. cbn. intros [E|E]; [congruence|tauto]. }
    destruct q; split.
    + intros Hq d Hd. apply (IH (upd e v d)); auto.
    + intros Hq d Hd. apply (IH (upd e v d) (upd e' v d)); auto.
    + intros [d [Hd Hq]]. exists d. split; auto. apply (IH (upd e v d)); auto.
    + intros [d [Hd Hq]]. exists d. split; auto. apply (IH (upd e v d) (upd e' v d)); auto.
Qed.

Theorem csat_agree I f : forall e e', agree_on (free_variables f) e e' -> (csat FI I e f <-> csat FI I e' f).
Proof.
  induction f as [a|f IH|c l IHl r IHr|q vs f IH]; intros e e' H.
  - apply asat_agree, H.
  - cbn. rewrite (IH e e') by auto. tauto.
  - assert (Hl : agree_on (free_variables l) e e') by (intros v Hv; apply H; cbn; apply in_iset_extend; auto).
    assert (Hr : agree_on (free_variables r) e e') by (intros v Hv; apply H; cbn; apply in_iset_extend; auto).
    specialize (IHl e e' Hl). specialize (IHr e e' Hr). destruct c; cbn; tauto.
  - cbn [csat]. apply (qsat_agree q vs _ (free_variables f)); [exact IH|].
    intros x Hx Hn. apply H. apply in_free_variables_FQ. auto.
Qed.

Corollary csat_ext I f e e' : (forall x, getv e x = getv e' x) -> (csat FI I e f <-> csat FI I e' f).
Proof. intros H. apply csat_agree. intros v _. apply H. Qed.

(* ---------- validity under a universal prefix ---------- *)
Lemma cvalid_forall I vs f : cvalid FI I (FQ QForall vs f) <-> cvalid FI I f.
Proof.
  unfold cvalid. cbn [csat]. split.
  - intros H e. specialize (H e). rewrite qsat_forall_iff in H.
    specialize (H (map (getv e) vs) (in_sorts_own e vs)).
    revert H. apply csat_ext. intros x. symmetry. apply getv_upds_own. auto.
  - intros H e. apply qsat_forall_iff. intros ds _. apply H.
Qed.
Lemma cvalid_quantify_forall I vs f : cvalid FI I (quantify f QForall vs) <-> cvalid FI I f.
Proof. destruct vs; cbn [quantify]; [tauto|apply cvalid_forall]. Qed.
Lemma cvalid_universal_closure I f : cvalid FI I (universal_closure f) <-> cvalid FI I f.
Proof. apply cvalid_quantify_forall. Qed.

Lemma csat_quantify_exists I e vs f :
  csat FI I e (quantify f QExists vs) <-> exists ds, in_sorts vs ds /\ csat FI I (upds e vs ds) f.
Proof.
  destruct vs as [|v vs]; cbn [quantify].
  - split; [intros H; exists []; split; [constructor|exact H]|].
    intros [ds [Hs H]]. inversion Hs; subst. exact H.
  - cbn [csat]. apply qsat_exists_iff.
Qed.

(* ---------- Formula::disjoin ---------- *)
Lemma csat_fold_or I e fs : forall acc,
  csat FI I e (fold_left (fun a x => FBin COr a x) fs acc) <-> csat FI I e acc \/ exists f, In f fs /\ csat FI I e f.
Proof.
  induction fs as [|f fs IH]; intros acc; cbn [fold_left].
  - split; [auto|]. intros [H|[f [[] _]]]; auto.
  - rewrite IH. cbn [csat]. split.
    + intros [[H|H]|[g [Hg H]]]; [auto|right; exists f; cbn; auto|right; exists g; cbn; auto].
    + intros [H|[g [[->|Hg] H]]]; [auto|auto|right; eauto].
Qed.
Lemma csat_disjoin I e fs : csat FI I e (disjoin fs) <-> exists f, In f fs /\ csat FI I e f.
Proof.
  unfold disjoin, reduce_bin. destruct fs as [|f fs].
  - cbn. split; [tauto|]. intros [f [[] _]].
  - rewrite csat_fold_or. split.
    + intros [H|[g [Hg H]]]; [exists f; cbn; auto|exists g; cbn; auto].
    + intros [g [[->|Hg] H]]; [auto|right; eauto].
Qed.
End Coincidence.
