(* C09: every problem the pipeline emits from closed formulas, outside IdentClass, passes the TFF
   type checker [wt_problem] (Sem/TffWt.v). *)
From Coq Require Import List Ascii String ZArith NArith Bool Lia Permutation.
From Anthem Require Import Base.ISet Base.Fresh Syntax.Fol Syntax.Tff Sem.TffSem Sem.TffWt
  Model.Problem Model.TptpPrint Model.ProblemPrint Gen.Preamble
  Proofs.TptpSem Proofs.TptpRead Proofs.ChainOk Proofs.PipelineOk.
Import ListNotations.
Open Scope string_scope.
Open Scope list_scope.

(* ================= generic lemmas ================= *)
Lemma lookup_app_l {B} (l r : list (string * B)) x v : lookup l x = Some v -> lookup (l ++ r) x = Some v.
Proof.
  induction l as [|[y b] l IH]; cbn; [discriminate|]. destruct (String.eqb x y); auto.
Qed.
Lemma lookup_in_nodup {B} (l : list (string * B)) x v : NoDup (map fst l) -> In (x, v) l -> lookup l x = Some v.
Proof.
  induction l as [|[y b] l IH]; cbn; intros Hnd Hin; [tauto|]. inversion Hnd; subst.
  destruct Hin as [[= -> ->]|Hin]; [rewrite String.eqb_refl; reflexivity|].
  destruct (String.eqb_spec x y) as [->|]; [|auto].
  exfalso. apply H1. apply in_map_iff. exists (y, v); auto.
Qed.
Lemma existsb_eqb_in x l : existsb (String.eqb x) l = true <-> In x l.
Proof.
  rewrite existsb_exists. split.
  - intros [y [Hy E]]. apply String.eqb_eq in E. subst; exact Hy.
  - intros H. exists x; split; [exact H|apply String.eqb_refl].
Qed.
Lemma nodupb_NoDup l : nodupb l = true -> NoDup l.
Proof.
  induction l as [|x l IH]; cbn; [constructor|]. rewrite andb_true_iff, negb_true_iff. intros [H1 H2].
  constructor; [|auto]. intros Hin. apply existsb_eqb_in in Hin. congruence.
Qed.
Lemma NoDup_nodupb l : NoDup l -> nodupb l = true.
Proof.
  induction 1 as [|x l Hx _ IH]; cbn; [reflexivity|]. rewrite IH, andb_true_r, negb_true_iff.
  destruct (existsb (String.eqb x) l) eqn:E; [|reflexivity]. apply existsb_eqb_in in E. contradiction.
Qed.

Lemma in_extend_all {A B} (dec : forall x y : B, {x = y} + {x <> y}) (f : A -> list B) l : forall init y,
  In y (extend_all dec f init l) <-> In y init \/ exists x, In x l /\ In y (f x).
Proof.
  unfold extend_all. induction l as [|a l IH]; intros init y; cbn.
  - split; [auto|]. intros [H|[x [[] _]]]; exact H.
  - rewrite IH, (in_iset_extend dec). split.
    + intros [[H|H]|[x [H1 H2]]]; [auto|right; exists a; auto|right; exists x; auto].
    + intros [H|[x [[<-|H1] H2]]]; [auto|auto|right; exists x; auto].
Qed.

(* the special words of the $int signature are not lower words *)
Lemma lower_not_special w : is_lower_word w = true ->
  int_fun1 w = false /\ int_fun2 w = false /\ int_pred2 w = false /\ prop_const w = false.
Proof.
  intros H. unfold int_fun1, int_fun2, int_pred2, prop_const.
  assert (G : forall k, is_lower_word k = false -> String.eqb w k = false).
  { intros k Hk. destruct (String.eqb_spec w k); [subst; congruence|reflexivity]. }
  rewrite !G by reflexivity. auto.
Qed.

(* names with suffix determine the variable *)
Lemma var_name_inj v w : (vname v ++ suffix (vsort v))%string = (vname w ++ suffix (vsort w))%string -> v = w.
Proof.
  intros E. pose proof (decode_suffix (vname v) (vsort v)) as H1. rewrite E, decode_suffix in H1.
  destruct v, w; cbn in *. congruence.
Qed.
Lemma lookup_bound B v : In v B -> lookup (map tff_of_var B) (vname v ++ suffix (vsort v)) = Some (ty_of (vsort v)).
Proof.
  induction B as [|w B IH]; cbn; [tauto|]. intros Hin.
  destruct (String.eqb_spec (vname v ++ suffix (vsort v)) (vname w ++ suffix (vsort w))) as [E|Hne].
  - apply var_name_inj in E. subst. reflexivity.
  - destruct Hin as [->|Hin]; [congruence|auto].
Qed.
Lemma bound_in B v : bound B v = true -> In v B.
Proof. unfold bound. destruct (memb_spec var_dec v B); [auto|discriminate]. Qed.

(* ================= typing of the intended reading ================= *)
Section Typing.
Variable Sg : sigs.
Hypothesis sg_fint : lookup Sg "f__integer__" = Some (SigFun [TyInt] TyGeneral).
Hypothesis sg_fsym : lookup Sg "f__symbolic__" = Some (SigFun [TySymbol] TyGeneral).
Hypothesis sg_inf : lookup Sg "c__infimum__" = Some (SigFun [] TyGeneral).
Hypothesis sg_sup : lookup Sg "c__supremum__" = Some (SigFun [] TyGeneral).
Hypothesis sg_rel : forall r, is_eq_rel r = false -> lookup Sg (rel_gen r) = Some (SigPred [TyGeneral; TyGeneral]).

Definition fc_ok (c : fconst) : Prop :=
  is_lower_word (fcname c ++ suffix (fcsort c)) = true /\
  lookup Sg (fcname c ++ suffix (fcsort c)) = Some (SigFun [] (ty_of (fcsort c))).
Definition sym_decl (s : string) : Prop := is_lower_word s = true /\ lookup Sg s = Some (SigFun [] TySymbol).
Definition pred_decl (p : pred) : Prop :=
  is_lower_word (psym p) = true /\ lookup Sg (psym p) = Some (SigPred (repeat TyGeneral (parity p))).

Lemma type_const n ty : is_lower_word n = true -> lookup Sg n = Some (SigFun [] ty) ->
  forall G, type_of Sg G (TApp n []) = Some ty.
Proof.
  intros Hl Hs G. cbn [type_of map]. destruct (lower_not_special n Hl) as (-> & -> & _ & _). rewrite Hs. reflexivity.
Qed.

Lemma type_iterm B t : (forall c, In c (iterm_fconsts t) -> fc_ok c) -> iterm_closed B t = true ->
  type_of Sg (map tff_of_var B) (tff_of_iterm t) = Some TyInt.
Proof.
  induction t as [z|c|x|[] a IH|o l IHl r IHr]; cbn [iterm_fconsts iterm_closed tff_of_iterm]; intros Hc Hb.
  - destruct (z <? 0)%Z; reflexivity.
  - destruct (Hc (mkfconst c SInteger) (or_introl eq_refl)) as [H1 H2]. exact (type_const _ _ H1 H2 _).
  - cbn [type_of]. exact (lookup_bound B (mkvar x SInteger) (bound_in _ _ Hb)).
  - cbn [type_of map]. rewrite (IH Hc Hb). reflexivity.
  - apply andb_true_iff in Hb. destruct Hb as [Hl Hr].
    cbn [type_of map]. rewrite IHl, IHr; auto.
    + destruct o; reflexivity.
    + intros c Hin. apply Hc. apply (in_iset_extend fconst_dec). auto.
    + intros c Hin. apply Hc. apply (in_iset_extend fconst_dec). auto.
Qed.
Lemma type_sterm B t : (forall c, In c (sterm_fconsts t) -> fc_ok c) -> (forall s, In s (sterm_symbols t) -> sym_decl s) ->
  sterm_closed B t = true -> type_of Sg (map tff_of_var B) (tff_of_sterm t) = Some TySymbol.
Proof.
  destruct t as [s|c|x]; cbn [sterm_fconsts sterm_symbols sterm_closed tff_of_sterm]; intros Hc Hs Hb.
  - destruct (Hs s (or_introl eq_refl)) as [H1 H2]. exact (type_const _ _ H1 H2 _).
  - destruct (Hc (mkfconst c SSymbol) (or_introl eq_refl)) as [H1 H2]. exact (type_const _ _ H1 H2 _).
  - cbn [type_of]. exact (lookup_bound B (mkvar x SSymbol) (bound_in _ _ Hb)).
Qed.
Lemma type_gterm B t : (forall c, In c (gterm_fconsts t) -> fc_ok c) -> (forall s, In s (gterm_symbols t) -> sym_decl s) ->
  gterm_closed B t = true -> type_of Sg (map tff_of_var B) (tff_of_gterm t) = Some TyGeneral.
Proof.
  destruct t as [| |c|x|a|a]; cbn [gterm_fconsts gterm_symbols gterm_closed tff_of_gterm]; intros Hc Hs Hb.
  - exact (type_const "c__infimum__" _ eq_refl sg_inf _).
  - exact (type_const "c__supremum__" _ eq_refl sg_sup _).
  - destruct (Hc (mkfconst c SGeneral) (or_introl eq_refl)) as [H1 H2]. exact (type_const _ _ H1 H2 _).
  - cbn [type_of]. exact (lookup_bound B (mkvar x SGeneral) (bound_in _ _ Hb)).
  - cbn [type_of map]. rewrite (type_iterm B a Hc Hb). cbn. rewrite sg_fint. reflexivity.
  - cbn [type_of map]. rewrite (type_sterm B a Hc Hs Hb). cbn. rewrite sg_fsym. reflexivity.
Qed.

Definition gterm_decl (t : gterm) : Prop :=
  (forall c, In c (gterm_fconsts t) -> fc_ok c) /\ (forall s, In s (gterm_symbols t) -> sym_decl s).

Lemma wt_cmp1 B l r rhs : gterm_decl l -> gterm_decl rhs -> gterm_closed B l = true -> gterm_closed B rhs = true ->
  wt_formula Sg (map tff_of_var B) (tff_of_cmp1 l r rhs) = true.
Proof.
  intros [Hlc Hls] [Hrc Hrs] Hlb Hrb.
  pose proof (type_gterm B l Hlc Hls Hlb) as Tl. pose proof (type_gterm B rhs Hrc Hrs Hrb) as Tr.
  assert (G : wt_formula Sg (map tff_of_var B)
                (if is_eq_rel r then tff_eq r (tff_of_gterm l) (tff_of_gterm rhs)
                 else TPred (rel_gen r) [tff_of_gterm l; tff_of_gterm rhs]) = true).
  { destruct (is_eq_rel r) eqn:Er.
    - destruct r; try discriminate; cbn [tff_eq wt_formula]; rewrite Tl, Tr; reflexivity.
    - cbn [wt_formula map]. rewrite Tl, Tr, (sg_rel r Er). destruct r; try discriminate; reflexivity. }
  unfold tff_of_cmp1. destruct l as [| |c|x|a|a]; destruct rhs as [| |c'|x'|b|b]; try exact G.
  - cbn [gterm_fconsts gterm_symbols gterm_closed] in *.
    pose proof (type_iterm B a Hlc Hlb) as Ta. pose proof (type_iterm B b Hrc Hrb) as Tb.
    destruct (is_eq_rel r) eqn:Er.
    + destruct r; try discriminate; cbn [tff_eq wt_formula]; rewrite Ta, Tb; reflexivity.
    + cbn [wt_formula map]. rewrite Ta, Tb. destruct r; try discriminate; reflexivity.
  - cbn [gterm_fconsts gterm_symbols gterm_closed] in *.
    pose proof (type_sterm B a Hlc Hls Hlb) as Ta. pose proof (type_sterm B b Hrc Hrs Hrb) as Tb.
    destruct (is_eq_rel r) eqn:Er; [|exact G].
    destruct r; try discriminate; cbn [tff_eq wt_formula]; rewrite Ta, Tb; reflexivity.
Qed.

Lemma wt_chain B : forall gs acc l, wt_formula Sg (map tff_of_var B) acc = true ->
  gterm_decl l -> gterm_closed B l = true ->
  (forall g, In g gs -> gterm_decl (gterm_of g) /\ gterm_closed B (gterm_of g) = true) ->
  wt_formula Sg (map tff_of_var B) (tff_of_chain_from acc l gs) = true.
Proof.
  induction gs as [|g gs IH]; intros acc l Hacc Hl Hlb Hgs; cbn [tff_of_chain_from]; [exact Hacc|].
  destruct (Hgs g (or_introl eq_refl)) as [Hg Hgb].
  apply IH; auto.
  - cbn [wt_formula]. rewrite Hacc. apply wt_cmp1; assumption.
  - intros g' Hg'. apply Hgs. right; exact Hg'.
Qed.

Lemma args_general B : forall ts, (forall t, In t ts -> gterm_decl t /\ gterm_closed B t = true) ->
  args_match (map (type_of Sg (map tff_of_var B)) (map tff_of_gterm ts)) (repeat TyGeneral (List.length ts)) = true.
Proof.
  induction ts as [|t ts IH]; intros H; cbn; [reflexivity|].
  destruct (H t (or_introl eq_refl)) as [[Hc Hs] Hb]. rewrite (type_gterm B t Hc Hs Hb). cbn.
  apply IH. intros t' Ht'. apply H. right; exact Ht'.
Qed.

Definition aformula_decl (a : aformula) : Prop :=
  (forall p, In p (aformula_preds a) -> pred_decl p) /\
  (forall c, In c (aformula_fconsts a) -> fc_ok c) /\ (forall s, In s (aformula_symbols a) -> sym_decl s).

Lemma atom_terms_decl p ts t : aformula_decl (AAtom p ts) -> In t ts -> gterm_decl t.
Proof.
  intros (_ & Hc & Hs) Hin. split.
  - intros c Hc'. apply Hc. cbn. apply in_extend_all. right. exists t; auto.
  - intros s Hs'. apply Hs. cbn. apply in_extend_all. right. exists t; auto.
Qed.
Lemma cmp_terms_decl t gs : aformula_decl (ACmp t gs) ->
  gterm_decl t /\ forall g, In g gs -> gterm_decl (gterm_of g).
Proof.
  intros (_ & Hc & Hs). split; [split|intros g Hg; split].
  - intros c Hc'. apply Hc. cbn. apply in_extend_all. left; exact Hc'.
  - intros s Hs'. apply Hs. cbn. apply in_extend_all. left; exact Hs'.
  - intros c Hc'. apply Hc. cbn. apply in_extend_all. right. exists g; auto.
  - intros s Hs'. apply Hs. cbn. apply in_extend_all. right. exists g; auto.
Qed.

Lemma wt_aformula B a : aformula_decl a -> aformula_closed B a = true ->
  wt_formula Sg (map tff_of_var B) (tff_of_aformula a) = true.
Proof.
  intros Hd Hb. destruct a as [| |p ts|t gs]; cbn [tff_of_aformula aformula_closed] in *.
  - reflexivity.
  - reflexivity.
  - destruct Hd as (Hp & Hrest). destruct (Hp (mkpred p (List.length ts)) (or_introl eq_refl)) as [H1 H2].
    cbn [psym parity] in *. cbn [wt_formula]. destruct (lower_not_special p H1) as (_ & _ & -> & ->). rewrite H2.
    apply args_general. intros t Ht. split.
    + apply (atom_terms_decl p ts t); [split; assumption|exact Ht].
    + rewrite forallb_forall in Hb. apply Hb, Ht.
  - apply andb_true_iff in Hb. destruct Hb as [Htb Hgb]. rewrite forallb_forall in Hgb.
    destruct (cmp_terms_decl t gs Hd) as [Ht Hgs].
    destruct gs as [|g gs]; [reflexivity|].
    apply wt_chain.
    + apply wt_cmp1; auto; [apply Hgs|apply Hgb]; left; reflexivity.
    + apply Hgs. left; reflexivity.
    + apply Hgb. left; reflexivity.
    + intros g' Hg'. split; [apply Hgs|apply Hgb]; right; exact Hg'.
Qed.

Definition formula_decl (F : formula) : Prop :=
  (forall p, In p (predicates F) -> pred_decl p) /\
  (forall c, In c (function_constants F) -> fc_ok c) /\ (forall s, In s (symbols F) -> sym_decl s).

Lemma wt_tff_of_formula F : formula_decl F -> formula_vars_ok F = true ->
  forall B, closedb B F = true -> wt_formula Sg (map tff_of_var B) (tff_of_formula F) = true.
Proof.
  induction F as [a|g IH|c l IHl r IHr|q vs g IH]; intros Hd Hv B Hb; cbn [tff_of_formula closedb formula_vars_ok] in *.
  - apply wt_aformula; assumption.
  - cbn [wt_formula]. apply IH; assumption.
  - apply andb_true_iff in Hb, Hv. destruct Hb as [Hlb Hrb]. destruct Hv as [Hlv Hrv].
    destruct Hd as (Hp & Hc & Hs). cbn [predicates function_constants symbols] in *.
    cbn [wt_formula]. rewrite IHl, IHr; auto.
    + unfold formula_decl. split; [|split]; intros x Hx;
        [apply Hp; apply (in_iset_extend pred_dec)|apply Hc; apply (in_iset_extend fconst_dec)
        |apply Hs; apply (in_iset_extend string_dec)]; auto.
    + unfold formula_decl. split; [|split]; intros x Hx;
        [apply Hp; apply (in_iset_extend pred_dec)|apply Hc; apply (in_iset_extend fconst_dec)
        |apply Hs; apply (in_iset_extend string_dec)]; auto.
  - apply andb_true_iff in Hb, Hv. destruct Hb as [Hne Hgb]. destruct Hv as [Hvs Hgv].
    apply andb_true_iff in Hvs. destruct Hvs as [Hvs Hnd].
    cbn [wt_formula]. rewrite map_length, Hne. cbn [andb].
    assert (Hnd' : nodupb (map fst (map tff_of_var vs)) = true).
    { rewrite map_map. exact Hnd. }
    rewrite Hnd', andb_true_r.
    assert (Hup : forallb (fun v : string * tff_type => is_upper_word (fst v)) (map tff_of_var vs) = true).
    { rewrite forallb_forall in *. intros v Hv. apply in_map_iff in Hv. destruct Hv as [w [<- Hw]].
      cbn. apply upper_suffix, Hvs, Hw. }
    rewrite Hup. cbn [andb]. rewrite <- map_rev, <- map_app. apply IH; assumption.
Qed.
End Typing.

(* ================= weakening: declarations may be appended ================= *)
Fixpoint tff_term_ind' (P : tff_term -> Prop) (HN : forall n, P (TNum n)) (HV : forall x, P (TVar x))
    (HA : forall f args, Forall P args -> P (TApp f args)) (t : tff_term) : P t :=
  match t with
  | TNum n => HN n
  | TVar x => HV x
  | TApp f args =>
      HA f args ((fix go (l : list tff_term) : Forall P l :=
                    match l with
                    | [] => Forall_nil P
                    | a :: l' => Forall_cons a (tff_term_ind' P HN HV HA a) (go l')
                    end) args)
  end.

Section Weaken.
Variables S1 S2 : sigs.

Lemma args_match_some got want : args_match got want = true -> Forall (fun o => o <> None) got.
Proof.
  revert want; induction got as [|[x|] got IH]; intros [|y want]; cbn; try discriminate; [constructor|].
  rewrite andb_true_iff. intros [_ H]. constructor; [discriminate|eauto].
Qed.
Lemma type_of_weaken G t ty : type_of S1 G t = Some ty -> type_of (S1 ++ S2) G t = Some ty.
Proof.
  revert ty. induction t as [n|x|f args IH] using tff_term_ind'; intros ty; cbn [type_of]; auto.
  assert (M : forall want, args_match (map (type_of S1 G) args) want = true ->
              map (type_of (S1 ++ S2) G) args = map (type_of S1 G) args).
  { intros want Hm. apply args_match_some in Hm. clear want.
    induction args as [|a args IHa]; cbn; [reflexivity|].
    inversion IH; subst. inversion Hm; subst. f_equal; [|auto].
    destruct (type_of S1 G a) as [ta|] eqn:E; [|congruence]. auto. }
  destruct (int_fun1 f).
  - destruct (args_match (map (type_of S1 G) args) [TyInt]) eqn:E; [|discriminate]. rewrite (M _ E), E. auto.
  - destruct (int_fun2 f).
    + destruct (args_match (map (type_of S1 G) args) [TyInt; TyInt]) eqn:E; [|discriminate]. rewrite (M _ E), E. auto.
    + destruct (lookup S1 f) as [[|want res|]|] eqn:L; try discriminate.
      rewrite (lookup_app_l S1 S2 f _ L).
      destruct (args_match (map (type_of S1 G) args) want) eqn:E; [|discriminate]. rewrite (M _ E), E. auto.
Qed.
Lemma map_type_of_weaken G args want : args_match (map (type_of S1 G) args) want = true ->
  map (type_of (S1 ++ S2) G) args = map (type_of S1 G) args.
Proof.
  intros Hm. apply args_match_some in Hm. induction args as [|a args IH]; cbn; [reflexivity|].
  inversion Hm; subst. f_equal; [|auto].
  destruct (type_of S1 G a) as [ta|] eqn:E; [|congruence]. apply type_of_weaken, E.
Qed.
Lemma wt_formula_weaken f : forall G, wt_formula S1 G f = true -> wt_formula (S1 ++ S2) G f = true.
Proof.
  induction f as [p args|l r|l r|g IH|c l IHl r IHr|q vs g IH]; intros G; cbn [wt_formula].
  - destruct (prop_const p).
    + intros E. rewrite (map_type_of_weaken G args _ E). exact E.
    + destruct (int_pred2 p).
      * intros E. rewrite (map_type_of_weaken G args _ E). exact E.
      * destruct (lookup S1 p) as [[| |want]|] eqn:L; try discriminate.
        rewrite (lookup_app_l S1 S2 p _ L). intros E. rewrite (map_type_of_weaken G args _ E). exact E.
  - destruct (type_of S1 G l) as [a|] eqn:El; [|discriminate]. destruct (type_of S1 G r) as [b|] eqn:Er; [|discriminate].
    rewrite (type_of_weaken G l a El), (type_of_weaken G r b Er). auto.
  - destruct (type_of S1 G l) as [a|] eqn:El; [|discriminate]. destruct (type_of S1 G r) as [b|] eqn:Er; [|discriminate].
    rewrite (type_of_weaken G l a El), (type_of_weaken G r b Er). auto.
  - apply IH.
  - rewrite !andb_true_iff. intros [H1 H2]. auto.
  - rewrite !andb_true_iff. intros [[H1 H2] H3]. auto.
Qed.
End Weaken.

(* ================= the emitted problem ================= *)
Definition preamble_sigs : sigs := map (fun d => (snd (fst d), snd d)) preamble_decls.
Definition own_sigs (p : problem) : sigs :=
  map (fun q => (psym q, SigPred (repeat TyGeneral (parity q)))) (problem_predicates p)
  ++ map (fun s => (s, SigFun [] TySymbol)) (problem_symbols p)
  ++ map (fun c => ((fcname c ++ suffix (fcsort c))%string, SigFun [] (ty_of (fcsort c)))) (problem_function_constants p).

Lemma map_mapi_from {A B C} (g : B -> C) (f : N -> A -> B) (h : A -> C) : (forall i x, g (f i x) = h x) ->
  forall l i, map g (mapi_from f i l) = map h l.
Proof. intros H. induction l as [|x l IH]; intros i; cbn; [reflexivity|]. rewrite H, IH. reflexivity. Qed.

Lemma decl_sigs_emit p : decl_sigs (emit p) = preamble_sigs ++ own_sigs p.
Proof.
  unfold decl_sigs, emit, own_sigs, preamble_sigs. cbn [tp_decls]. rewrite !map_app, map_map.
  rewrite (map_mapi_from _ predicate_decl (fun q => (psym q, SigPred (repeat TyGeneral (parity q))))) by reflexivity.
  rewrite (map_mapi_from _ symbol_decl (fun s => (s, SigFun [] TySymbol))) by reflexivity.
  rewrite (map_mapi_from _ fconst_decl (fun c => ((fcname c ++ suffix (fcsort c))%string, SigFun [] (ty_of (fcsort c))))) by reflexivity.
  reflexivity.
Qed.
Lemma idents_emit p : map fst (decl_sigs (emit p)) = preamble_idents ++ problem_idents p.
Proof.
  rewrite decl_sigs_emit. unfold preamble_sigs, own_sigs, preamble_idents, problem_idents.
  rewrite !map_app, !map_map. cbn [fst]. rewrite map_id. reflexivity.
Qed.
Lemma d_idents_emit p : map d_ident (tp_decls (emit p)) = preamble_idents ++ problem_idents p.
Proof. rewrite <- idents_emit. unfold decl_sigs. rewrite map_map. reflexivity. Qed.

Lemma ident_ok_inv p : ident_ok p = true ->
  forallb is_lower_word (problem_idents p) = true /\ NoDup (preamble_idents ++ problem_idents p) /\
  (forall a, In a (pb_formulas p) -> formula_vars_ok (pf_formula a) = true) /\
  (forall a, In a (pb_formulas p) -> is_lower_word (pf_name a) = true).
Proof.
  unfold ident_ok. rewrite !andb_true_iff. intros [[[H1 H2] H3] H4].
  rewrite forallb_forall in H3, H4. auto using nodupb_NoDup.
Qed.

Section Emit.
Variable p : problem.
Hypothesis Hok : ident_ok p = true.
Let Sg := decl_sigs (emit p).

Lemma sg_pre x v : lookup preamble_sigs x = Some v -> lookup Sg x = Some v.
Proof. unfold Sg. rewrite decl_sigs_emit. apply lookup_app_l. Qed.
Lemma sg_own x v : In (x, v) (own_sigs p) -> lookup Sg x = Some v.
Proof.
  intros Hin. apply lookup_in_nodup.
  - unfold Sg. rewrite idents_emit. apply (ident_ok_inv p Hok).
  - unfold Sg. rewrite decl_sigs_emit. apply in_app_iff. right; exact Hin.
Qed.
Lemma own_lower x : In x (problem_idents p) -> is_lower_word x = true.
Proof. destruct (ident_ok_inv p Hok) as [H _]. rewrite forallb_forall in H. apply H. Qed.

Lemma pred_declared q : In q (problem_predicates p) -> pred_decl Sg q.
Proof.
  intros Hin. split.
  - apply own_lower. unfold problem_idents. apply in_app_iff. left. apply in_map, Hin.
  - apply sg_own. unfold own_sigs. apply in_app_iff. left.
    apply in_map_iff. exists q; auto.
Qed.
Lemma sym_declared s : In s (problem_symbols p) -> sym_decl Sg s.
Proof.
  intros Hin. split.
  - apply own_lower. unfold problem_idents. rewrite !in_app_iff. right; left. exact Hin.
  - apply sg_own. unfold own_sigs. rewrite !in_app_iff. right; left. apply in_map_iff. exists s; auto.
Qed.
Lemma fconst_declared c : In c (problem_function_constants p) -> fc_ok Sg c.
Proof.
  intros Hin. split.
  - apply own_lower. unfold problem_idents. rewrite !in_app_iff. right; right.
    apply in_map_iff. exists c; auto.
  - apply sg_own. unfold own_sigs. rewrite !in_app_iff. right; right. apply in_map_iff. exists c; auto.
Qed.

Lemma formula_declared a : In a (pb_formulas p) -> formula_decl Sg (pf_formula a).
Proof.
  intros Hin. unfold formula_decl. split; [|split].
  - intros q Hq. apply pred_declared. unfold problem_predicates. apply in_extend_all. right. exists a; auto.
  - intros c Hc. apply fconst_declared. unfold problem_function_constants. apply in_extend_all. right. exists a; auto.
  - intros s Hs. apply sym_declared. unfold problem_symbols. apply in_extend_all. right. exists a; auto.
Qed.

Lemma sg_rel_ok r : is_eq_rel r = false -> lookup Sg (rel_gen r) = Some (SigPred [TyGeneral; TyGeneral]).
Proof. intros H. apply sg_pre. destruct r; try discriminate; reflexivity. Qed.

Lemma sg1 : lookup Sg "f__integer__" = Some (SigFun [TyInt] TyGeneral).
Proof. apply sg_pre. reflexivity. Qed.
Lemma sg2 : lookup Sg "f__symbolic__" = Some (SigFun [TySymbol] TyGeneral).
Proof. apply sg_pre. reflexivity. Qed.
Lemma sg3 : lookup Sg "c__infimum__" = Some (SigFun [] TyGeneral).
Proof. apply sg_pre. reflexivity. Qed.
Lemma sg4 : lookup Sg "c__supremum__" = Some (SigFun [] TyGeneral).
Proof. apply sg_pre. reflexivity. Qed.

Lemma wt_own a : In a (pb_formulas p) -> closed_formula (pf_formula a) = true ->
  wt_formula Sg [] (tff_of_formula (pf_formula a)) = true.
Proof.
  intros Hin Hc.
  apply (wt_tff_of_formula Sg sg1 sg2 sg3 sg4 sg_rel_ok (pf_formula a) (formula_declared a Hin)) with (B := []).
  - apply (ident_ok_inv p Hok), Hin.
  - exact Hc.
Qed.

Lemma windows2_in {A} (l : list A) ab : In ab (windows2 l) -> In (fst ab) l /\ In (snd ab) l.
Proof.
  induction l as [|a l IH]; [intros []|]. destruct l as [|b l]; [intros []|]. cbn [windows2].
  intros [<-|H]; cbn [fst snd]; [split; [left|right; left]; reflexivity|].
  destruct (IH H) as [H1 H2]. split; right; assumption.
Qed.
Lemma wt_symbol_order ab : In ab (windows2 (sort_strings (problem_symbols p))) ->
  wt_formula Sg [] (tff_of_formula (symbol_order_formula ab)) = true.
Proof.
  intros Hin. apply windows2_in in Hin. destruct Hin as [Ha Hb].
  assert (Ha' : In (fst ab) (problem_symbols p)) by (eapply Permutation_in; [apply sort_strings_perm|exact Ha]).
  assert (Hb' : In (snd ab) (problem_symbols p)) by (eapply Permutation_in; [apply sort_strings_perm|exact Hb]).
  apply (wt_tff_of_formula Sg sg1 sg2 sg3 sg4 sg_rel_ok (symbol_order_formula ab)) with (B := []); [|reflexivity|reflexivity].
  unfold formula_decl, symbol_order_formula. cbn. split; [|split].
  - intros q [].
  - intros c [].
  - intros s Hs. apply sym_declared. unfold iset_extend, iset_insert in Hs. cbn in Hs.
    destruct (memb string_dec (snd ab) [fst ab]); cbn in Hs; intuition (subst; assumption).
Qed.

Lemma wt_preamble_formulas : forallb (fun a => wt_formula Sg [] (snd a)) preamble_formulas = true.
Proof.
  assert (H : forallb (fun a => wt_formula preamble_sigs [] (snd a)) preamble_formulas = true) by (vm_compute; reflexivity).
  rewrite forallb_forall in *. intros a Ha. unfold Sg. rewrite decl_sigs_emit. apply wt_formula_weaken, H, Ha.
Qed.
End Emit.

(* ================= names ================= *)
Lemma mapi_names {A} (f : N -> A -> tff_decl) pre : (forall i x, d_name (f i x) = (pre ++ nat_str i)%string) ->
  forall l i, map d_name (mapi_from f i l) = cands pre i (List.length l).
Proof. intros H. induction l as [|x l IH]; intros i; cbn; [reflexivity|]. rewrite H, IH. reflexivity. Qed.
Lemma mapi_names' {A} (f : N -> A -> tff_named) pre : (forall i x, n_name (f i x) = (pre ++ nat_str i)%string) ->
  forall l i, map n_name (mapi_from f i l) = cands pre i (List.length l).
Proof. intros H. induction l as [|x l IH]; intros i; cbn; [reflexivity|]. rewrite H, IH. reflexivity. Qed.

Definition tag (n : string) : nat :=
  if String.prefix "predicate_" n then 1
  else if String.prefix "type_symbol_" n then 2
  else if String.prefix "type_function_constant_" n then 3
  else if String.prefix "symbol_order_" n then 4
  else if String.prefix "formula_" n then 5
  else 0.
Lemma prefix_app a b : String.prefix a (a ++ b) = true.
Proof. induction a as [|c a IH]; cbn; [destruct b; reflexivity|]. destruct (ascii_dec c c); [exact IH|congruence]. Qed.

Lemma prefix_app_neq : forall a b s, String.prefix a b = false -> String.prefix b a = false ->
  String.prefix a (b ++ s) = false.
Proof.
  induction a as [|c a IH]; intros [|d b] s; cbn [String.prefix append]; intros H1 H2.
  - discriminate H1.
  - discriminate H1.
  - discriminate H2.
  - destruct (ascii_dec c d) as [->|Hne]; [|reflexivity].
    destruct (ascii_dec d d); [|congruence]. apply IH; assumption.
Qed.
Ltac tag_tac := unfold tag; repeat (rewrite prefix_app_neq by reflexivity); rewrite prefix_app; reflexivity.
Lemma tag1 s : tag ("predicate_" ++ s) = 1. Proof. tag_tac. Qed.
Lemma tag2 s : tag ("type_symbol_" ++ s) = 2. Proof. tag_tac. Qed.
Lemma tag3 s : tag ("type_function_constant_" ++ s) = 3. Proof. tag_tac. Qed.
Lemma tag4 s : tag ("symbol_order_" ++ s) = 4. Proof. tag_tac. Qed.
Lemma tag5 s : tag ("formula_" ++ s) = 5. Proof. tag_tac. Qed.

Definition pre_decl_names : list string := map (fun d => fst (fst d)) preamble_decls.
Definition pre_ax_names : list string := map fst preamble_formulas.

Lemma all_names_emit p :
  all_names (emit p) =
  (pre_decl_names ++ cands "predicate_" 0 (List.length (problem_predicates p))
   ++ cands "type_symbol_" 0 (List.length (problem_symbols p))
   ++ cands "type_function_constant_" 0 (List.length (problem_function_constants p)))
  ++ (pre_ax_names ++ cands "symbol_order_" 0 (List.length (windows2 (sort_strings (problem_symbols p))))
      ++ map pf_name (pb_formulas p)).
Proof.
  unfold all_names, emit. cbn [tp_decls tp_formulas]. rewrite !map_app, !map_map.
  rewrite (mapi_names predicate_decl "predicate_") by reflexivity.
  rewrite (mapi_names symbol_decl "type_symbol_") by reflexivity.
  rewrite (mapi_names fconst_decl "type_function_constant_") by reflexivity.
  rewrite (mapi_names' symbol_order_named "symbol_order_") by reflexivity.
  reflexivity.
Qed.

Lemma cands_tag pre k m n : (forall s, tag (pre ++ s) = k) -> Forall (fun x => tag x = k) (cands pre m n).
Proof.
  intros H. rewrite Forall_forall. intros x Hx. apply cands_in in Hx. destruct Hx as [j [_ ->]]. apply H.
Qed.
Lemma cands_lower pre m n : is_lower_word pre = true -> Forall (fun x => is_lower_word x = true) (cands pre m n).
Proof.
  intros H. rewrite Forall_forall. intros x Hx. apply cands_in in Hx. destruct Hx as [j [_ ->]].
  destruct pre as [|c r]; [discriminate|]. cbn [is_lower_word append] in *. rewrite andb_true_iff in *.
  destruct H as [H1 H2]. split; [exact H1|]. rewrite all_chars_app, H2. apply nat_str_alnum.
Qed.

Lemma nodup_app_pred (P : string -> Prop) l1 l2 : NoDup l1 -> NoDup l2 -> Forall P l1 -> Forall (fun x => ~ P x) l2 ->
  NoDup (l1 ++ l2).
Proof.
  intros H1 H2 F1 F2. apply nodup_app; auto. rewrite Forall_forall in *. intros x Hx1 Hx2. exact (F2 x Hx2 (F1 x Hx1)).
Qed.

Lemma nodup_app_l {A} (l1 l2 : list A) : NoDup (l1 ++ l2) -> NoDup l1.
Proof. induction l1 as [|a l1 IH]; cbn; intros H; [constructor|]. inversion H; subst. constructor; [rewrite in_app_iff in *; tauto|auto]. Qed.
Lemma nodup_app_r {A} (l1 l2 : list A) : NoDup (l1 ++ l2) -> NoDup l2.
Proof. induction l1 as [|a l1 IH]; cbn; intros H; [exact H|]. inversion H; subst. auto. Qed.

Lemma names_unique_emit p : NoDup (map pf_name (pb_formulas p)) ->
  (forall x, In x (map pf_name (pb_formulas p)) -> exists j n, x = unique_name j n) ->
  NoDup (all_names (emit p)).
Proof.
  intros Hnd Hshape. rewrite all_names_emit.
  set (G1 := cands "predicate_" 0 _). set (G2 := cands "type_symbol_" 0 _).
  set (G3 := cands "type_function_constant_" 0 _). set (G4 := cands "symbol_order_" 0 _).
  set (G5 := map pf_name (pb_formulas p)).
  assert (T1 : Forall (fun x => tag x = 1) G1) by (apply cands_tag, tag1).
  assert (T2 : Forall (fun x => tag x = 2) G2) by (apply cands_tag, tag2).
  assert (T3 : Forall (fun x => tag x = 3) G3) by (apply cands_tag, tag3).
  assert (T4 : Forall (fun x => tag x = 4) G4) by (apply cands_tag, tag4).
  assert (T5 : Forall (fun x => tag x = 5) G5).
  { rewrite Forall_forall. intros x Hx. destruct (Hshape x Hx) as [j [n ->]]. apply tag5. }
  assert (T0 : Forall (fun x => tag x = 0) (pre_decl_names ++ pre_ax_names)) by (vm_compute; repeat constructor).
  assert (N0 : NoDup (pre_decl_names ++ pre_ax_names)) by (apply nodupb_NoDup; vm_compute; reflexivity).
  apply Forall_app in T0. destruct T0 as [T0d T0a].
  assert (W : forall k (l : list string), Forall (fun x => tag x = k) l -> forall j, j <> k -> Forall (fun x => ~ tag x = j) l).
  { intros k l H j Hj. rewrite Forall_forall in *. intros x Hx E. rewrite (H x Hx) in E. congruence. }
  rewrite <- !app_assoc.
  (* from the right: G4 ++ G5, pre_ax ++ .., G3 ++ .., G2 ++ .., G1 ++ .., pre_decl ++ .. *)
  assert (L6 : NoDup (G4 ++ G5)).
  { apply (nodup_app_pred (fun x => tag x = 4)); [apply cands_nodup|exact Hnd|exact T4|(eapply (W 5); [exact T5|lia])]. }
  assert (L5 : NoDup (pre_ax_names ++ G4 ++ G5)).
  { apply (nodup_app_pred (fun x => tag x = 0)); [eapply nodup_app_r, N0|exact L6|exact T0a|].
    apply Forall_app; split; [(eapply (W 4); [exact T4|lia])|(eapply (W 5); [exact T5|lia])]. }
  assert (L4 : NoDup (G3 ++ pre_ax_names ++ G4 ++ G5)).
  { apply (nodup_app_pred (fun x => tag x = 3)); [apply cands_nodup|exact L5|exact T3|].
    repeat (apply Forall_app; split); [(eapply (W 0); [exact T0a|lia])|(eapply (W 4); [exact T4|lia])|(eapply (W 5); [exact T5|lia])]. }
  assert (L3 : NoDup (G2 ++ G3 ++ pre_ax_names ++ G4 ++ G5)).
  { apply (nodup_app_pred (fun x => tag x = 2)); [apply cands_nodup|exact L4|exact T2|].
    repeat (apply Forall_app; split); [(eapply (W 3); [exact T3|lia])|(eapply (W 0); [exact T0a|lia])|(eapply (W 4); [exact T4|lia])|(eapply (W 5); [exact T5|lia])]. }
  assert (L2 : NoDup (G1 ++ G2 ++ G3 ++ pre_ax_names ++ G4 ++ G5)).
  { apply (nodup_app_pred (fun x => tag x = 1)); [apply cands_nodup|exact L3|exact T1|].
    repeat (apply Forall_app; split); [(eapply (W 2); [exact T2|lia])|(eapply (W 3); [exact T3|lia])|(eapply (W 0); [exact T0a|lia])|(eapply (W 4); [exact T4|lia])|(eapply (W 5); [exact T5|lia])]. }
  apply (nodup_app_pred (fun x => In x pre_decl_names)); [eapply nodup_app_l, N0|exact L2|rewrite Forall_forall; auto|].
  assert (D : forall k (l : list string), Forall (fun x => tag x = k) l -> k <> 0 -> Forall (fun x => ~ In x pre_decl_names) l).
  { intros k l H Hk. rewrite Forall_forall in *. intros x Hx Hin. specialize (H x Hx). rewrite (T0d x Hin) in H. congruence. }
  repeat (apply Forall_app; split); [(eapply (D 1); [exact T1|lia])|(eapply (D 2); [exact T2|lia])|(eapply (D 3); [exact T3|lia])| |(eapply (D 4); [exact T4|lia])|(eapply (D 5); [exact T5|lia])].
  rewrite Forall_forall. intros x Hx Hin. revert Hx.
  assert (Dj : forall (l1 l2 : list string), NoDup (l1 ++ l2) -> forall y, In y l1 -> ~ In y l2).
  { induction l1 as [|z l1 IH]; cbn; intros l2 H y; [tauto|]. inversion H; subst.
    intros [->|Hy]; [rewrite in_app_iff in *; tauto|apply IH; auto]. }
  apply (Dj _ _ N0 x Hin).
Qed.

(* ================= assembly ================= *)
Lemma forallb_map' {A B} (f : B -> bool) (g : A -> B) l : forallb f (map g l) = forallb (fun x => f (g x)) l.
Proof. induction l as [|x l IH]; cbn; [reflexivity|]. rewrite IH. reflexivity. Qed.
Lemma conjecture_count_emit p : conjecture_count (emit p) = cc (pb_formulas p).
Proof.
  unfold conjecture_count, emit, cc. cbn [tp_formulas]. rewrite !filter_app, !app_length.
  assert (Z1 : forall (l : list (string * tff_formula)),
             filter (fun a => tff_role_eqb (n_role a) RoleConjecture) (map (fun a => mknamed (fst a) RoleAxiom (snd a)) l) = []).
  { induction l; cbn; auto. }
  assert (Z2 : forall (l : list (string * string)) i,
             filter (fun a => tff_role_eqb (n_role a) RoleConjecture) (mapi_from symbol_order_named i l) = []).
  { induction l; intros i; cbn; auto. }
  rewrite Z1, Z2. cbn [List.length plus].
  induction (pb_formulas p) as [|a l IH]; cbn; [reflexivity|].
  unfold is_conj. destruct (pf_role a); cbn; rewrite IH; reflexivity.
Qed.

Theorem emit_wt p : ident_ok p = true ->
  (forall a, In a (pb_formulas p) -> closed_formula (pf_formula a) = true) ->
  cc (pb_formulas p) = 1 -> NoDup (map pf_name (pb_formulas p)) ->
  (forall x, In x (map pf_name (pb_formulas p)) -> exists j n, x = unique_name j n) ->
  wt_problem (emit p) = true.
Proof.
  intros Hok Hclosed Hcc Hnd Hshape. unfold wt_problem.
  destruct (ident_ok_inv p Hok) as (Hlow & Hdup & Hvars & Hnames).
  assert (C1 : wt_idents (emit p) = true).
  { unfold wt_idents. rewrite <- (forallb_map' is_lower_word d_ident).
    rewrite d_idents_emit, forallb_app, Hlow, andb_true_r. vm_compute. reflexivity. }
  assert (C2 : wt_decl_once (emit p) = true).
  { unfold wt_decl_once. rewrite d_idents_emit. apply NoDup_nodupb, Hdup. }
  assert (C3 : wt_decl_types (emit p) = true).
  { unfold wt_decl_types. apply forallb_forall. intros d _.
    assert (TD : forall ty, type_declared (decl_sigs (emit p)) ty = true).
    { intros []; cbn [type_declared]; [reflexivity| |].
      - rewrite (sg_pre p "general" SigType eq_refl). reflexivity.
      - rewrite (sg_pre p "symbol" SigType eq_refl). reflexivity. }
    destruct (d_sig d); cbn [sig_types_ok]; rewrite ?andb_true_iff; repeat split;
      try apply forallb_forall; intros; apply TD. }
  assert (C4 : wt_names (emit p) = true).
  { unfold wt_names. rewrite all_names_emit, !forallb_app.
    assert (CL : forall pre m n, is_lower_word pre = true -> forallb is_lower_word (cands pre m n) = true).
    { intros pre m n H. apply forallb_forall. apply Forall_forall, cands_lower, H. }
    rewrite !CL by reflexivity.
    assert (F : forallb is_lower_word (map pf_name (pb_formulas p)) = true).
    { apply forallb_forall. intros x Hx. apply in_map_iff in Hx. destruct Hx as [a [<- Ha]]. apply Hnames, Ha. }
    rewrite F. vm_compute. reflexivity. }
  assert (C5 : wt_names_unique (emit p) = true).
  { unfold wt_names_unique. apply NoDup_nodupb, names_unique_emit; assumption. }
  assert (C6 : wt_formulas (emit p) = true).
  { unfold wt_formulas, emit. cbn [tp_formulas]. rewrite !forallb_app. fold (emit p).
    rewrite !andb_true_iff. split; [|split].
    - rewrite forallb_forall. intros a Ha. apply in_map_iff in Ha. destruct Ha as [b [<- Hb]]. cbn [n_formula].
      pose proof (wt_preamble_formulas p) as H. rewrite forallb_forall in H. apply H, Hb.
    - rewrite forallb_forall. intros a Ha.
      assert (G : forall l i, In a (mapi_from symbol_order_named i l) ->
                  exists ab, In ab l /\ n_formula a = tff_of_formula (symbol_order_formula ab)).
      { induction l as [|x l IH]; intros i; cbn; [tauto|]. intros [<-|H]; [exists x; auto|].
        destruct (IH _ H) as [ab [H1 H2]]. exists ab; auto. }
      destruct (G _ _ Ha) as [ab [H1 ->]]. apply (wt_symbol_order p Hok), H1.
    - rewrite forallb_forall. intros a Ha. apply in_map_iff in Ha. destruct Ha as [b [<- Hb]]. cbn [n_formula].
      apply (wt_own p Hok); [exact Hb|apply Hclosed, Hb]. }
  assert (C7 : wt_one_conjecture (emit p) = true).
  { unfold wt_one_conjecture. rewrite conjecture_count_emit, Hcc. reflexivity. }
  rewrite C1, C2, C3, C4, C5, C6, C7. reflexivity.
Qed.

(* ---------- formulas of an emitted problem are renamed formulas of the input ---------- *)
Lemma rcs_closed conf F : forall B, closedb B (rcs_formula conf F) = closedb B F.
Proof.
  assert (T : forall B t, gterm_closed B (rcs_gterm conf t) = gterm_closed B t).
  { intros B [| | | | |[s| |]]; cbn; try reflexivity. destruct (memb pred_dec _ conf); reflexivity. }
  induction F as [a|g IH|c l IHl r IHr|q vs g IH]; intros B; cbn [rcs_formula closedb].
  - destruct a as [| |p ts|t gs]; cbn; try reflexivity.
    + induction ts as [|t ts IHt]; cbn; [reflexivity|]. rewrite T, IHt. reflexivity.
    + rewrite T. f_equal. induction gs as [|g gs IHg]; cbn; [reflexivity|]. rewrite T, IHg. reflexivity.
  - apply IH.
  - rewrite IHl, IHr. reflexivity.
  - rewrite IH. reflexivity.
Qed.

Lemma set_last_axiom_formulas l : map pf_formula (set_last_axiom l) = map pf_formula l.
Proof.
  destruct l as [|x l'] using rev_ind; [reflexivity|].
  rewrite set_last_axiom_snoc, !map_app. reflexivity.
Qed.
Lemma sequential_formulas name : forall cs acc i pb, In pb (dec_sequential_from name acc i cs) ->
  incl (map pf_formula (pb_formulas pb)) (map pf_formula acc ++ map pf_formula cs).
Proof.
  induction cs as [|c cs IH]; intros acc i pb; cbn [dec_sequential_from]; [intros []|].
  intros [<-|H].
  - cbn [pb_formulas]. rewrite map_app, set_last_axiom_formulas. intros x Hx.
    rewrite in_app_iff in *. cbn in *. tauto.
  - intros x Hx. apply (IH _ _ _ H) in Hx. rewrite map_app, set_last_axiom_formulas in Hx.
    rewrite !in_app_iff in *. cbn in *. tauto.
Qed.
Lemma decompose_formulas p d pb : In pb (decompose p d) ->
  incl (map pf_formula (pb_formulas pb)) (map pf_formula (pb_formulas p)).
Proof.
  assert (A : incl (map pf_formula (axioms p) ++ map pf_formula (conjectures p)) (map pf_formula (pb_formulas p))).
  { intros x Hx. apply in_app_iff in Hx. destruct Hx as [Hx|Hx]; apply in_map_iff in Hx; destruct Hx as [a [<- Ha]];
      apply in_map; [unfold axioms in Ha|unfold conjectures in Ha]; apply filter_In in Ha; tauto. }
  destruct d; cbn [decompose]; intros H x Hx; apply A.
  - apply independent_shape in H. destruct H as [c [Hc E]]. rewrite E, map_app in Hx.
    rewrite in_app_iff in *. destruct Hx as [Hx|[<-|[]]]; [left; exact Hx|right; apply in_map, Hc].
  - apply (sequential_formulas _ _ _ _ _ H), Hx.
Qed.

Lemma pipeline_closed raw d pb : (forall a, In a (pb_formulas raw) -> closed_formula (pf_formula a) = true) ->
  In pb (pipeline raw d) -> forall a, In a (pb_formulas pb) -> closed_formula (pf_formula a) = true.
Proof.
  unfold pipeline. intros Hc Hin a Ha.
  pose proof (decompose_formulas _ _ _ Hin (pf_formula a) (in_map _ _ _ Ha)) as H.
  cbn in H.
  assert (U : forall l i, map pf_formula (unique_names_from i l) = map pf_formula l).
  { induction l as [|x l IH]; intros i; cbn; [reflexivity|]. rewrite IH. reflexivity. }
  rewrite U, map_map in H. cbn [pf_formula] in H. apply in_map_iff in H. destruct H as [b [E Hb]].
  apply in_map_iff in Hb. destruct Hb as [b0 [<- Hb0]].
  unfold closed_formula in *. rewrite <- E, rcs_closed.
  assert (N : pf_formula (normalize_pf b0) = pf_formula b0).
  { unfold normalize_pf. destruct (String.eqb (pf_name b0) ""); [reflexivity|]. destruct (starts_with_underscore (pf_name b0)); reflexivity. }
  rewrite N. apply Hc, Hb0.
Qed.

Theorem pipeline_wt raw d pb :
  (forall a, In a (pb_formulas raw) -> closed_formula (pf_formula a) = true) ->
  In pb (pipeline raw d) -> ~ (ident_ok pb = false) -> wt_problem (emit pb) = true.
Proof.
  intros Hc Hin Hid. destruct (pipeline_names raw d pb Hin) as [Hnd Hshape].
  apply emit_wt; auto.
  - destruct (ident_ok pb); [reflexivity|congruence].
  - apply (pipeline_closed raw d pb Hc Hin).
  - apply (pipeline_cc raw d pb Hin).
Qed.
Theorem pipeline_one_conjecture raw d pb : In pb (pipeline raw d) -> wt_one_conjecture (emit pb) = true.
Proof.
  intros Hin. unfold wt_one_conjecture. rewrite conjecture_count_emit, (pipeline_cc raw d pb Hin). reflexivity.
Qed.
