(* C09: the structural [closed_formula] of Model/ProblemPrint.v follows from the Rust notion
   `free_variables() is empty` (Syntax/Fol.v free_variables) for formulas of the parser image
   (every quantifier binds at least one variable). *)
From Coq Require Import List Ascii String ZArith Bool.
From Anthem Require Import Base.ISet Syntax.Fol Model.ProblemPrint Proofs.FreeVars.
Import ListNotations.
Open Scope list_scope.

Lemma bound_of_in B v : In v B -> bound B v = true.
Proof. unfold bound. destruct (memb_spec var_dec v B); [reflexivity|contradiction]. Qed.

Lemma iterm_closed_of B t : incl (iterm_vars t) B -> iterm_closed B t = true.
Proof.
  induction t as [z|c|x|o a IH|o l IHl r IHr]; cbn [iterm_vars iterm_closed]; intros H; auto.
  - apply bound_of_in, H. left; reflexivity.
  - rewrite IHl, IHr; [reflexivity| |]; intros w Hw; apply H, (in_iset_extend var_dec); auto.
Qed.
Lemma gterm_closed_of B t : incl (gterm_vars t) B -> gterm_closed B t = true.
Proof.
  destruct t as [| |c|x|a|[s|c|x]]; cbn [gterm_vars gterm_closed sterm_vars sterm_closed]; intros H; auto.
  - apply bound_of_in, H. left; reflexivity.
  - apply iterm_closed_of, H.
  - apply bound_of_in, H. left; reflexivity.
Qed.
Lemma aformula_closed_of B a : incl (aformula_vars a) B -> aformula_closed B a = true.
Proof.
  destruct a as [| |p ts|t gs]; cbn [aformula_closed]; intros H; auto.
  - apply forallb_forall. intros g Hg. apply gterm_closed_of. intros w Hw. apply H.
    apply in_aformula_vars_atom. exists g; auto.
  - apply andb_true_iff; split.
    + apply gterm_closed_of. intros w Hw. apply H. apply in_aformula_vars_cmp. left; exact Hw.
    + apply forallb_forall. intros g Hg. apply gterm_closed_of. intros w Hw. apply H.
      apply in_aformula_vars_cmp. right. exists g; auto.
Qed.

Theorem closedb_of_fv F : binders_nonempty F = true -> forall B, incl (free_variables F) B -> closedb B F = true.
Proof.
  induction F as [a|g IH|c l IHl r IHr|q vs g IH]; cbn [binders_nonempty closedb]; intros Hn B H.
  - apply aformula_closed_of, H.
  - apply IH; assumption.
  - apply andb_true_iff in Hn. destruct Hn as [Hl Hr]. rewrite IHl, IHr; auto.
    + intros w Hw. apply H, in_fv_bin. right; exact Hw.
    + intros w Hw. apply H, in_fv_bin. left; exact Hw.
  - apply andb_true_iff in Hn. destruct Hn as [Hne Hg]. rewrite Hne. cbn [andb].
    apply IH; [exact Hg|]. intros w Hw. apply in_app_iff.
    destruct (in_dec var_dec w vs) as [Hin|Hnin].
    + left. apply in_rev in Hin. exact Hin.
    + right. apply H, in_fv_q. split; assumption.
Qed.
Corollary closed_of_fv F : binders_nonempty F = true -> free_variables F = [] -> closed_formula F = true.
Proof. intros Hn E. apply closedb_of_fv; [exact Hn|]. rewrite E. intros w []. Qed.
