(* C02 for SPECIFICATION-vs-program tasks (no proof outline, tight program).

   The left side of the validated task is the user's specification with the placeholders replaced
   (no completion); the right side is the program's translated theory, exactly as in the
   program-vs-program development.  Layers:
     (a) assembly        AssemblyOk.validated_refutes_no_outline with the contributions of a
                         user-written specification ([spec_contribs]) and of a translated program
                         (C02Ok.right_translated);
     (b) renaming        C02Ok.tvalid_rename (the program side is read through `reindex`);
     (c) completion      C02Full.translate_meaning_full (translated theory = external stable models);
     (d) private extension
                         C02Priv.translated_assumptions_supported (Assumption formulas = the private
                         predicates are supported) and C02Behaviour.ext_stable_public_part (then "not an
                         external stable model" = "NO interpretation with this public part is one").
   Result: [spec_refuted_iff_difference] - an interpretation refutes an emitted problem IFF it
   witnesses a difference in that direction ([spec_difference]); no hypothesis on the interpretation. *)
From Coq Require Import List Ascii String ZArith NArith Bool Lia Classical_Prop.
From Anthem Require Import Base.ISet Syntax.Fol Syntax.Asp Sem.Domain Sem.Sat Sem.AspRef
  Model.Break Model.Problem Model.Outline Model.Strong Model.External Model.Tightness Model.PrivRec Model.TauStar
  Model.Completion Model.ExternalFull
  Proofs.ExtendAll Proofs.SemBase Proofs.BreakOk Proofs.DecomposeOk Proofs.StrongOk Proofs.ExternalOk Proofs.AssemblyOk Proofs.RenameOk
  Proofs.TightnessOk Proofs.PlaceholderOk Proofs.PrivateUnique Proofs.C19Ext Proofs.C02Ok Proofs.C02Full
  Proofs.C02Priv Proofs.C02Behaviour.
Import ListNotations.
Open Scope string_scope.
Open Scope list_scope.

(* ---------- the parts of a user-written specification (ValidatedExternalEquivalenceTask::decompose,
              loop over `left`) ---------- *)
Definition is_spec_role (a : aformula_annot) : bool := match an_role a with RSpec => true | _ => false end.
Definition dir_universalb (d : direction) : bool := match d with DUniversal => true | _ => false end.
Definition dir_forward_only (d : direction) : bool := match d with DForward => true | _ => false end.

(* assumption-role formulas annotated universal: stable premises (axioms of both directions) *)
Definition spec_stable (s : specification) : theory :=
  map an_formula (filter (fun a => is_assumption a && dir_universalb (an_dir a)) s).
(* premises of the forward direction: assumptions annotated forward and spec-role formulas annotated
   universal or forward, in the order of the specification *)
Definition spec_forward_premises (s : specification) : theory :=
  map an_formula (filter (fun a => (is_assumption a && dir_forward_only (an_dir a))
                                   || (is_spec_role a && dir_forward (an_dir a))) s).
(* conclusions of the backward direction: spec-role formulas annotated universal or backward
   (each broken into its implications when equivalence breaking is on) *)
Definition spec_backward_conclusions (s : specification) : theory :=
  map an_formula (filter (fun a => is_spec_role a && dir_backward (an_dir a)) s).
(* an assumption annotated backward is ignored (warning InconsistentDirectionAnnotation) *)

(* an assumption annotated backward contributes to NEITHER direction (anthem: warning
   InconsistentDirectionAnnotation "ignored in the forward direction" - it is not a premise of the
   backward direction either; audit2 B9, finding F26) *)
Lemma spec_backward_assumption_nothing (a : aformula_annot) (s1 s2 : specification) :
  an_role a = RAssumption -> an_dir a = DBackward ->
  spec_stable (s1 ++ a :: s2) = spec_stable (s1 ++ s2) /\
  spec_forward_premises (s1 ++ a :: s2) = spec_forward_premises (s1 ++ s2) /\
  spec_backward_conclusions (s1 ++ a :: s2) = spec_backward_conclusions (s1 ++ s2).
Proof.
  intros Hr Hd. unfold spec_stable, spec_forward_premises, spec_backward_conclusions, is_assumption, is_spec_role.
  rewrite !filter_app. cbn [filter]. rewrite Hr, Hd. cbn. rewrite <- !filter_app. auto.
Qed.

Lemma spec_roles_supported_in s a : spec_roles_supported s = true -> In a s ->
  an_role a = RAssumption \/ an_role a = RSpec.
Proof.
  unfold spec_roles_supported. rewrite forallb_forall. intros H Ha. specialize (H a Ha).
  destruct (an_role a); auto; discriminate.
Qed.

Section Sides.
Variable FI : fint.
Variable M : pint.
Notation tv := (tvalid FI M).

(* contributions of a user-written specification on the left *)
Lemma spec_contribs brk s : spec_roles_supported s = true ->
  exists c, contribs (left_contrib brk) s = Some c /\
    forms_of (c_stable c) = spec_stable s /\ forms_of (c_fp c) = spec_forward_premises s /\
    c_fc c = [] /\ c_bp c = [] /\ (tv (forms_of (c_bc c)) <-> tv (spec_backward_conclusions s)).
Proof.
  induction s as [|a s IH]; intros Hr.
  - exists cempty. cbn. repeat split; auto.
  - assert (Hr' : spec_roles_supported s = true).
    { unfold spec_roles_supported in *. cbn in Hr. apply andb_true_iff in Hr. tauto. }
    destruct (IH Hr') as [c [Ec [E1 [E2 [E3 [E4 E5]]]]]].
    destruct (spec_roles_supported_in (a :: s) a Hr (or_introl eq_refl)) as [Ha|Ha].
    + (* assumption *)
      destruct (an_dir a) eqn:Hd.
      * eexists. cbn [contribs]. unfold left_contrib at 1. rewrite Ha, Hd, Ec. split; [reflexivity|].
        unfold spec_stable, spec_forward_premises, spec_backward_conclusions, forms_of, is_assumption, is_spec_role in *.
        cbn. rewrite Ha, Hd. cbn. rewrite E1, E2, E3, E4. repeat split; auto; apply E5.
      * eexists. cbn [contribs]. unfold left_contrib at 1. rewrite Ha, Hd, Ec. split; [reflexivity|].
        unfold spec_stable, spec_forward_premises, spec_backward_conclusions, forms_of, is_assumption, is_spec_role in *.
        cbn. rewrite Ha, Hd. cbn. rewrite E1, E2, E3, E4. repeat split; auto; apply E5.
      * eexists. cbn [contribs]. unfold left_contrib at 1. rewrite Ha, Hd, Ec. split; [reflexivity|].
        unfold spec_stable, spec_forward_premises, spec_backward_conclusions, forms_of, is_assumption, is_spec_role in *.
        cbn. rewrite Ha, Hd. cbn. rewrite E1, E2, E3, E4. repeat split; auto; apply E5.
    + (* spec *)
      eexists. cbn [contribs]. unfold left_contrib at 1. rewrite Ha, Ec. split; [reflexivity|].
      unfold spec_stable, spec_forward_premises, spec_backward_conclusions, forms_of, is_assumption, is_spec_role in *.
      cbn. rewrite Ha. cbn. rewrite E1, E3, E4.
      assert (Hcon : tv (map pf_formula (conclusions_of brk a ++ c_bc c)) <->
                     tv (an_formula a :: map an_formula (filter (fun a0 => match an_role a0 with RSpec => true | _ => false end
                                                                         && dir_backward (an_dir a0)) s))).
      { rewrite map_app, tvalid_app, E5, tv_cons.
        pose proof (conclusions_of_valid FI M brk false a) as Hc. rewrite Hc. cbn. rewrite tv_cons. pose proof (tv_nil FI M). tauto. }
      destruct (dir_forward (an_dir a)) eqn:Hf, (dir_backward (an_dir a)) eqn:Hb; cbn; rewrite ?E2;
        (split; [reflexivity|]); (split; [reflexivity|]); (split; [reflexivity|]); (split; [reflexivity|]);
        first [exact Hcon | exact E5].
Qed.
End Sides.

(* ---------- layer (a): validated tasks whose left side is a specification, right side a translated program ---------- *)
Theorem validated_spec_refutes vt w pbs :
  validated_decompose vt = Ok (w, pbs) -> vt_proof_outline vt = empty_outline -> validated_no_clash vt ->
  spec_roles_supported (vt_left vt) = true -> translated (vt_right vt) ->
  forall FI M,
    (refutes_some FI M pbs <->
     (dir_forward (vt_direction vt) = true /\
      tvalid FI M (map an_formula (vt_user_guide_assumptions vt)) /\ tvalid FI M (spec_stable (vt_left vt)) /\
      tvalid FI M (assumptions_of (vt_right vt)) /\
      tvalid FI M (spec_forward_premises (vt_left vt)) /\ ~ tvalid FI M (specs_of (vt_right vt))) \/
     (dir_backward (vt_direction vt) = true /\
      tvalid FI M (map an_formula (vt_user_guide_assumptions vt)) /\ tvalid FI M (spec_stable (vt_left vt)) /\
      tvalid FI M (assumptions_of (vt_right vt)) /\
      tvalid FI M (specs_of (vt_right vt)) /\ ~ tvalid FI M (spec_backward_conclusions (vt_left vt)))).
Proof.
  intros Hd Ho Hn Hl Hr FI M.
  destruct (validated_refutes_no_outline vt w pbs Hd Ho Hn) as [cl [cr [El [Er Hchar]]]].
  destruct (spec_contribs FI M (vt_break vt) _ Hl) as [cl' [El' [L1 [L2 [L3 [L4 L5]]]]]].
  destruct (right_translated FI M (vt_break vt) _ Hr) as [cr' [Er' [R1 [R2 [R3 [R4 R5]]]]]].
  rewrite El in El'. injection El' as <-. rewrite Er in Er'. injection Er' as <-.
  rewrite (Hchar FI M). cbv zeta.
  unfold forms_of in *. rewrite !map_app, !tvalid_app, L1, L2, L3, L4, R1, R2, R3, R4. cbn [map].
  rewrite L5, R5. pose proof (tv_nil FI M). tauto.
Qed.

(* ---------- from the task ---------- *)
Section Task.
Variable is_tight : program -> bool.
Variable has_private_recursion : program -> list pred -> bool.
Variable tau_star : program -> theory.
Variable completion : theory -> list pred -> option theory.
Variable simp_classic : formula -> formula.
Notation decompose_ext := (external_decompose is_tight has_private_recursion tau_star completion simp_classic).
Notation translate := (theory_translate tau_star completion simp_classic).
Notation validate := (external_validate is_tight has_private_recursion).

(* the specification with the placeholders replaced: the left side of the validated task *)
Definition task_spec_left (t : ext_task) (S : specification) : specification := rp_spec (task_placeholders t) S.

Lemma rp_spec_roles m s : spec_roles_supported (rp_spec m s) = spec_roles_supported s.
Proof. unfold spec_roles_supported, rp_spec. induction s as [|a s IH]; cbn; [reflexivity|]. rewrite IH. reflexivity. Qed.

Lemma validate_spec_roles t S w : et_specification t = inr S -> validate t = Ok w -> spec_roles_supported S = true.
Proof.
  intros Hs. unfold external_validate. rewrite Hs.
  destruct (et_repr t); [discriminate|].
  destruct (is_nil (iset_inter pred_dec (ug_input_predicates (et_user_guide t)) (ug_output_predicates (et_user_guide t)))); cbn [negb]; [|discriminate].
  destruct (ensure_program_tightness is_tight t (et_program t)) as [w1|e|]; [|discriminate|discriminate].
  destruct (has_private_recursion (et_program t) _); [discriminate|].
  destruct (is_nil (iset_inter pred_dec (ug_input_predicates (et_user_guide t)) (head_predicates_fol (et_program t)))); cbn [negb]; [|discriminate].
  destruct (placeholder_clash_name (ug_placeholders (et_user_guide t)) []); [discriminate|].
  destruct (first_non_input_assumption [] (ug_input_predicates (et_user_guide t)) (ug_formulas (et_user_guide t))); [discriminate|].
  destruct (first_output_overlap (ug_output_predicates (et_user_guide t)) S); [discriminate|].
  destruct (first_non_input_assumption _ (ug_input_predicates (et_user_guide t)) S); [discriminate|].
  destruct (first_unsupported_role S) eqn:Er; [discriminate|].
  intros _. apply first_unsupported_role_none. exact Er.
Qed.

(* the validated task behind an accepted specification-vs-program task without proof outline *)
Theorem external_validated_spec t S w pbs :
  et_specification t = inr S -> et_proof_outline t = [] -> decompose_ext t = Ok (w, pbs) ->
  exists rgt uga w',
    task_right tau_star completion simp_classic t = Some rgt /\
    map an_formula uga = map (fun a => rp_formula (task_placeholders t) (an_formula a)) (filter is_assumption (ug_formulas (et_user_guide t))) /\
    validated_decompose (mkvalidated (task_spec_left t S) rgt uga empty_outline (et_decomposition t) (et_direction t) (et_break t)) = Ok (w', pbs) /\
    task_validated tau_star completion simp_classic t
    = Some (mkvalidated (task_spec_left t S) rgt uga empty_outline (et_decomposition t) (et_direction t) (et_break t)) /\
    spec_roles_supported S = true.
Proof.
  intros Hs Ho. unfold external_decompose.
  destruct (validate t) as [w0|e|] eqn:Ev; try discriminate.
  pose proof (validate_spec_roles t S w0 Hs Ev) as Hroles.
  rewrite Hs, Ho.
  unfold task_validated, side_left, side_right, task_m, task_public, task_renaming.
  fold (task_placeholders t). unfold task_right, task_mapping, task_spec_private, task_prog_private, task_spec_left. rewrite Hs, Ho.
  destruct (translate t (task_placeholders t) (et_program t)) as [thr|]; cbn [option_map]; [|discriminate].
  destruct (user_guide_assumptions _ _ _ [] []) as [[uga w1]|e|] eqn:Eu; try discriminate.
  cbn [from_specification from_specification_loop].
  destruct (validated_decompose _) as [[w3 pbs']|e|] eqn:Evd; try discriminate.
  intros [= _ <-]. destruct (user_guide_assumptions_forms _ _ _ _ _ _ _ Eu) as [rest [-> Er]]. cbn in Evd.
  eexists _, rest, w3. repeat split; [exact Er|exact Evd|exact Hroles].
Qed.

(* C02_assembly for specification-vs-program tasks: the refutation set of the emitted problems in
   terms of the user's formulas and the program's translated side *)
Theorem spec_assembly t S w pbs rgt :
  et_specification t = inr S -> et_proof_outline t = [] -> decompose_ext t = Ok (w, pbs) ->
  task_right tau_star completion simp_classic t = Some rgt ->
  (forall vt, task_validated tau_star completion simp_classic t = Some vt -> validated_no_clash vt) ->
  forall FI M,
    let uga := map (fun a => rp_formula (task_placeholders t) (an_formula a)) (filter is_assumption (ug_formulas (et_user_guide t))) in
    (refutes_some FI M pbs <->
     (dir_forward (et_direction t) = true /\
      tvalid FI M uga /\ tvalid FI M (spec_stable (task_spec_left t S)) /\ tvalid FI M (assumptions_of rgt) /\
      tvalid FI M (spec_forward_premises (task_spec_left t S)) /\ ~ tvalid FI M (specs_of rgt)) \/
     (dir_backward (et_direction t) = true /\
      tvalid FI M uga /\ tvalid FI M (spec_stable (task_spec_left t S)) /\ tvalid FI M (assumptions_of rgt) /\
      tvalid FI M (specs_of rgt) /\ ~ tvalid FI M (spec_backward_conclusions (task_spec_left t S)))).
Proof.
  intros Hs Ho Hd Er Hn FI M uga.
  destruct (external_validated_spec t S w pbs Hs Ho Hd) as [rgt' [uga' [w' [Er' [Eu [Hv [Htv Hroles]]]]]]].
  rewrite Er in Er'. injection Er' as <-.
  pose proof (validated_spec_refutes _ w' pbs Hv eq_refl (Hn _ Htv)) as H. cbn in H.
  unfold uga. rewrite <- Eu. apply H.
  - unfold task_spec_left. rewrite rp_spec_roles. exact Hroles.
  - unfold task_right in Er. destruct (translate t (task_placeholders t) (et_program t)); [|discriminate]. injection Er as <-.
    apply rename_translated, control_translate_translated.
Qed.
End Task.

(* ---------- layers (b) (c) (d): the program side ---------- *)
Section Full.
Variable fuel : nat.
Notation translate := (theory_translate tau_star_total completion (simp_classic_total fuel)).
Notation tr := (task_right tau_star_total completion (simp_classic_total fuel)).

(* "M witnesses a difference between the specification S and the program of t"
   (M interprets the public predicates, the private predicates of the specification, and the private
   predicates of the program under their names in the problems: reindex reads them back):
   M satisfies the user-guide assumptions and the universal assumptions of the specification, and
   - forward:  M satisfies the forward assumptions and the spec formulas of direction
               universal / forward, carries the supported private extension of the program, and NO
               interpretation with its public part is an external stable model of the program;
   - backward: M is an external stable model of the program and violates a spec formula of direction
               universal / backward. *)
Definition spec_difference (t : ext_task) (S : specification) (FI : fint) (M : pint) : Prop :=
  let m := task_placeholders t in
  let P := et_program t in
  let MP := reindex (task_mapping t) M in
  tvalid FI M (map (fun a => rp_formula m (an_formula a)) (filter is_assumption (ug_formulas (et_user_guide t)))) /\
  tvalid FI M (spec_stable (task_spec_left t S)) /\
  ((dir_forward (et_direction t) = true /\
    tvalid FI M (spec_forward_premises (task_spec_left t S)) /\
    priv_supported MP (ph_program FI m P) (task_prog_private t) /\
    ~ exists N, pub_agree t N MP /\ ext_stable_full t FI N P) \/
   (dir_backward (et_direction t) = true /\
    ext_stable_full t FI MP P /\
    ~ tvalid FI M (spec_backward_conclusions (task_spec_left t S)))).

Lemma assumptions_of_rename m l :
  assumptions_of (map (rename_predicates_annot m) l) = map (rename_predicates m) (assumptions_of l).
Proof. unfold assumptions_of. induction l as [|a l IH]; cbn; [reflexivity|]. destruct (an_role a); cbn; rewrite IH; reflexivity. Qed.
Lemma specs_of_rename m l :
  specs_of (map (rename_predicates_annot m) l) = map (rename_predicates m) (specs_of l).
Proof. unfold specs_of. induction l as [|a l IH]; cbn; [reflexivity|]. destruct (an_role a); cbn; rewrite IH; reflexivity. Qed.

Theorem spec_refuted_iff_difference t S w pbs :
  et_specification t = inr S -> et_proof_outline t = [] ->
  external_decompose_full fuel t = XOk w pbs ->
  is_tight (et_program t) = true ->
  (forall vt, task_validated tau_star_total completion (simp_classic_total fuel) t = Some vt -> validated_no_clash vt) ->
  forall FI M, refutes_some FI M pbs <-> spec_difference t S FI M.
Proof.
  intros Hs Ho Hfull HtR Hn FI M.
  destruct (full_ok_inv fuel t w pbs Hfull) as [[w0 Hv] [Hd [[GR HGR] _]]].
  destruct (validate_conditions _ _ t w0 Hv) as [_ [Hpr [Hhead [Hio _]]]].
  unfold c_no_private_recursion in Hpr. rewrite Hs in Hpr. rewrite andb_true_r in Hpr. apply negb_true_iff in Hpr.
  unfold c_no_input_in_head in Hhead. rewrite Hs in Hhead. rewrite andb_true_r in Hhead.
  destruct (external_validated_spec is_tight has_private_recursion tau_star_total completion (simp_classic_total fuel)
              t S w pbs Hs Ho Hd) as [rgt [_ [_ [Er _]]]].
  rewrite (spec_assembly is_tight has_private_recursion tau_star_total completion (simp_classic_total fuel)
             t S w pbs rgt Hs Ho Hd Er Hn FI M). cbv zeta.
  unfold task_right in Er. destruct (translate t (task_placeholders t) (et_program t)) as [thr|] eqn:Etr; [|discriminate].
  injection Er as <-.
  set (public := ug_public_predicates (et_user_guide t)) in *.
  set (mu := task_mapping t) in *.
  set (rgt0 := control_translate public thr) in *.
  assert (Tr0 : translated rgt0) by apply control_translate_translated.
  (* the Assumption formulas of the program side: supported private predicates *)
  assert (HA : tvalid FI M (assumptions_of (map (rename_predicates_annot mu) rgt0)) <->
               tvalid FI (reindex mu M) (assumptions_of rgt0)).
  { rewrite assumptions_of_rename. apply tvalid_rename. }
  assert (HS : tvalid FI M (specs_of (map (rename_predicates_annot mu) rgt0)) <->
               tvalid FI (reindex mu M) (specs_of rgt0)).
  { rewrite specs_of_rename. apply tvalid_rename. }
  assert (Hsup : tvalid FI (reindex mu M) (assumptions_of rgt0) <->
                 priv_supported (reindex mu M) (ph_program FI (task_placeholders t) (et_program t)) (task_prog_private t)).
  { apply (translated_assumptions_supported fuel t (et_program t) GR thr HGR Etr Hpr). }
  (* the whole translated theory: external stable models *)
  assert (Hmean : tvalid FI (reindex mu M) (assumptions_of rgt0) /\ tvalid FI (reindex mu M) (specs_of rgt0) <->
                  ext_stable_full t FI (reindex mu M) (et_program t)).
  { rewrite <- (translate_meaning_full fuel t (et_program t) GR thr HtR (no_input_in_head t _ Hhead) Hio HGR Etr FI (reindex mu M)).
    rewrite <- (translated_split FI (reindex mu M) rgt0 Tr0).
    assert (E : map an_formula rgt0 = thr) by apply control_translate_forms.
    rewrite E. reflexivity. }
  (* under the Assumption formulas: not a model of the public part = no interpretation with this public part *)
  assert (Hpub : tvalid FI (reindex mu M) (assumptions_of rgt0) ->
                 ((exists N, pub_agree t N (reindex mu M) /\ ext_stable_full t FI N (et_program t)) <->
                  ext_stable_full t FI (reindex mu M) (et_program t))).
  { intros HAr. apply (ext_stable_public_part fuel t (et_program t) GR thr FI _ HtR (no_input_in_head t _ Hhead) Hio HGR Etr Hpr HAr). }
  unfold spec_difference. cbv zeta. fold mu.
  rewrite HA, HS.
  split.
  - intros [[Hf [Hu [Hst [Har [Hfp Hns]]]]]|[Hb [Hu [Hst [Har [Hsp Hnc]]]]]].
    + split; [exact Hu|]. split; [exact Hst|]. left. split; [exact Hf|]. split; [exact Hfp|].
      split; [apply Hsup; exact Har|]. rewrite (Hpub Har). intros Hes. apply Hmean in Hes. tauto.
    + split; [exact Hu|]. split; [exact Hst|]. right. split; [exact Hb|]. split; [apply Hmean; tauto|exact Hnc].
  - intros [Hu [Hst [[Hf [Hfp [Hsp Hno]]]|[Hb [Hes Hnc]]]]].
    + left. apply Hsup in Hsp. repeat split; auto. intros Hss. apply Hno. apply (Hpub Hsp). apply Hmean. tauto.
    + right. apply Hmean in Hes. repeat split; auto; tauto.
Qed.

(* the two halves, as in the program-vs-program development *)
Corollary spec_countermodel_sound t S w pbs :
  et_specification t = inr S -> et_proof_outline t = [] ->
  external_decompose_full fuel t = XOk w pbs ->
  is_tight (et_program t) = true ->
  (forall vt, task_validated tau_star_total completion (simp_classic_total fuel) t = Some vt -> validated_no_clash vt) ->
  forall FI M, refutes_some FI M pbs -> spec_difference t S FI M.
Proof. intros Hs Ho Hf Ht Hn FI M. apply (spec_refuted_iff_difference t S w pbs Hs Ho Hf Ht Hn). Qed.
Corollary spec_countermodel_complete t S w pbs :
  et_specification t = inr S -> et_proof_outline t = [] ->
  external_decompose_full fuel t = XOk w pbs ->
  is_tight (et_program t) = true ->
  (forall vt, task_validated tau_star_total completion (simp_classic_total fuel) t = Some vt -> validated_no_clash vt) ->
  forall FI M, spec_difference t S FI M -> refutes_some FI M pbs.
Proof. intros Hs Ho Hf Ht Hn FI M. apply (spec_refuted_iff_difference t S w pbs Hs Ho Hf Ht Hn). Qed.

Corollary spec_verified_iff_no_difference t S w pbs :
  et_specification t = inr S -> et_proof_outline t = [] ->
  external_decompose_full fuel t = XOk w pbs ->
  is_tight (et_program t) = true ->
  (forall vt, task_validated tau_star_total completion (simp_classic_total fuel) t = Some vt -> validated_no_clash vt) ->
  ((forall FI M, ~ refutes_some FI M pbs) <-> (forall FI M, ~ spec_difference t S FI M)).
Proof.
  intros Hs Ho Hf Ht Hn. split; intros H FI M HM; apply (H FI M);
    apply (spec_refuted_iff_difference t S w pbs Hs Ho Hf Ht Hn FI M); exact HM.
Qed.

(* tightness follows from acceptance when --bypass-tightness is off *)
Lemma spec_accepted_tight t w pbs : external_decompose_full fuel t = XOk w pbs ->
  et_bypass_tightness t = false -> is_tight (et_program t) = true.
Proof.
  intros Hfull Hb. destruct (full_ok_inv fuel t w pbs Hfull) as [[w0 Hv] _].
  destruct (validate_conditions _ _ t w0 Hv) as [Hc _]. unfold c_tight in Hc. rewrite Hb in Hc. cbn in Hc.
  apply andb_true_iff in Hc. tauto.
Qed.
End Full.
