(* The classic portfolio with the hypotheses about Formula::substitute discharged by the C17
   theorems (Proofs/SubstOk.v): closed statements. *)
From Coq Require Import List String ZArith.
From Anthem Require Import Syntax.Fol Sem.Domain Sem.Sat Model.Apply Model.Subst
  Model.SimplClassic Model.StrategyCls
  Proofs.SubstOk Proofs.SimplClassicOk Proofs.StrategyClsOk Proofs.SimplClassicTotal.
Import ListNotations.

(* the free-variable bound in the shape the classic proofs use (weaker than substitute_fv) *)
Lemma substitute_fv_weak F x t G w : sort_ok x t = true -> substitute F x t = Some G ->
  In w (free_variables G) -> (In w (free_variables F) /\ w <> x) \/ In w (gterm_vars t).
Proof. intros OK E H. apply (substitute_fv F x t G OK E w) in H. tauto. Qed.

Theorem substitute_defined_variables_closed : rewrite_ok substitute_defined_variables.
Proof. exact (substitute_defined_variables_ok substitute_sem substitute_fv_weak). Qed.
Theorem restrict_quantifier_domain_closed : rewrite_ok restrict_quantifier_domain.
Proof. exact (restrict_quantifier_domain_ok substitute_sem substitute_fv_weak). Qed.
Theorem simplify_transitive_equality_closed : rewrite_ok simplify_transitive_equality.
Proof. exact (simplify_transitive_equality_ok substitute_sem substitute_fv_weak). Qed.
Theorem CLASSIC_closed : forall r, In r CLASSIC -> rewrite_ok r.
Proof. exact (CLASSIC_ok substitute_sem substitute_fv_weak). Qed.
Theorem run_classic_closed fuel s F G :
  run_strategy fuel CLASSIC s F = Some G -> cequiv F G /\ fv_incl F G.
Proof. exact (run_strategy_ok fuel CLASSIC s F G CLASSIC_closed). Qed.

Theorem substitute_defined_variables_no_panic F : exists G, substitute_defined_variables_opt F = Some G.
Proof. exact (substitute_defined_variables_total substitute_total F). Qed.
Theorem restrict_quantifier_domain_no_panic F :
  guards_ok F -> names_ok F -> exists G, restrict_quantifier_domain_opt F = Some G.
Proof. exact (restrict_quantifier_domain_total substitute_total F). Qed.
Theorem simplify_transitive_equality_no_panic F :
  guards_ok F -> exists G, simplify_transitive_equality_opt F = Some G.
Proof. exact (simplify_transitive_equality_total substitute_total F). Qed.
