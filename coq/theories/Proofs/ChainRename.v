(* C12, the symbol_order chain and rename_conflicting_symbols (audit A2; findings F8b / F8c).

   `impl Display for Problem` builds the chain from the symbols of the problem it prints, i.e.
   AFTER Problem::rename_conflicting_symbols has replaced every symbolic constant s that equals a
   0-ary predicate of the problem by `s__s`.  ChainOk.chain_true is about those printed names
   (it lets `a__s` denote the string "a__s").  In the problem, however, `a__s` stands for the
   program's constant `a`, and the renaming is not monotone for the byte order
   ("a" < "a1" but "a1" < "a__s"): read for the constants the names stand for, a chain axiom can be
   FALSE.  This file states the honest version: the chain read through the renaming. *)
From Coq Require Import List Ascii String ZArith NArith Bool Lia Permutation.
From Anthem Require Import Base.ISet Syntax.Fol Syntax.Asp Sem.Domain Sem.Sat Model.Problem Model.ProblemPrint
  Proofs.ExtendAll Proofs.StrongOk Proofs.ChainOk.
Import ListNotations.
Open Scope string_scope.
Open Scope list_scope.

(* the name under which the constant s of problem p is printed *)
Definition renamed_symbol (p : problem) (s : string) : string :=
  if memb pred_dec (mkpred s 0) (problem_predicates p) then s ++ "__s" else s.
(* the constants of p that are renamed: the class of F8b / F8c *)
Definition renamed_symbols (p : problem) : list string :=
  filter (fun s => memb pred_dec (mkpred s 0) (problem_predicates p)) (problem_symbols p).

(* "the emitted chain is true for the constants the printed names stand for": p is the problem
   BEFORE rename_conflicting_symbols; every axiom `x < y` of the chain printed for the renamed
   problem holds for all constants s1, s2 of p that are printed as x, y *)
Definition chain_true_for_originals (p : problem) : Prop :=
  forall x y, In (x, y) (windows2 (sort_strings (problem_symbols (rename_conflicting_symbols p)))) ->
  forall s1 s2, In s1 (problem_symbols p) -> In s2 (problem_symbols p) ->
    renamed_symbol p s1 = x -> renamed_symbol p s2 = y ->
    forall (FI : fint) (M : pint) (e : env), csat FI M e (symbol_order_formula (s1, s2)).

Lemma problem_symbols_in p s : In s (problem_symbols p) ->
  exists a, In a (pb_formulas p) /\ In s (symbols (pf_formula a)).
Proof.
  unfold problem_symbols. intros H. apply in_extend_all in H. destruct H as [[]|H]. exact H.
Qed.

Lemma no_clash_renamed_symbol p s : no_clash_problem p -> In s (problem_symbols p) -> renamed_symbol p s = s.
Proof.
  intros Hn Hs. destruct (problem_symbols_in p s Hs) as [a [Ha Hsa]]. unfold renamed_symbol.
  destruct (memb_spec pred_dec (mkpred s 0) (problem_predicates p)) as [Hin|Hin]; [|reflexivity].
  exfalso. exact (Hn a s Ha Hsa Hin).
Qed.

(* exclusion class: when no symbolic constant equals a 0-ary predicate of the problem nothing is
   renamed and the chain is true for the original constants *)
Theorem chain_true_original p : no_clash_problem p -> chain_true_for_originals p.
Proof.
  intros Hn x y Hin s1 s2 H1 H2 E1 E2 FI M e.
  rewrite (rename_id p Hn) in Hin.
  rewrite (no_clash_renamed_symbol p s1 Hn H1) in E1. rewrite (no_clash_renamed_symbol p s2 Hn H2) in E2. subst x y.
  apply (chain_true p). unfold symbol_order. apply in_map_iff. exists (s1, s2). split; [reflexivity|exact Hin].
Qed.

Lemma no_clash_problem_iff_nothing_renamed p : no_clash_problem p <-> renamed_symbols p = [].
Proof.
  unfold renamed_symbols. split.
  - intros Hn. destruct (filter _ (problem_symbols p)) as [|s l] eqn:E; [reflexivity|exfalso].
    assert (Hs : In s (filter (fun s => memb pred_dec (mkpred s 0) (problem_predicates p)) (problem_symbols p)))
      by (rewrite E; left; reflexivity).
    apply filter_In in Hs. destruct Hs as [Hs Hm].
    pose proof (no_clash_renamed_symbol p s Hn Hs) as Hr. unfold renamed_symbol in Hr. rewrite Hm in Hr.
    assert (Hl : String.length (s ++ "__s") = String.length s) by (rewrite Hr; reflexivity).
    clear -Hl. induction s as [|c s IH]; cbn in Hl; [discriminate|]. injection Hl as Hl. auto.
  - intros He a s Ha Hs Hin.
    assert (Hf : In s (filter (fun s => memb pred_dec (mkpred s 0) (problem_predicates p)) (problem_symbols p))).
    { apply filter_In. split.
      - unfold problem_symbols. apply in_extend_all. right. exists a. auto.
      - destruct (memb_spec pred_dec (mkpred s 0) (problem_predicates p)); [reflexivity|contradiction]. }
    rewrite He in Hf. destruct Hf.
Qed.

(* ---------- the witness (finding F8c): the problem anthem builds for
   `a. q :- a, a1 < a.` vs `a. q :- a.`, `output: q/0. output: a/0.` (one direction, shortened):
   axiom a <-> #true, conjecture q <-> a and a1 < a.  The constant a equals the 0-ary predicate a
   and is printed a__s; the chain axiom is p__less__(a1, a__s); for the constant a that a__s stands
   for it says a1 < a, which is false. ---------- *)
Definition cmp_lt (a b : string) : formula :=
  FAtomic (ACmp (GSym (SSym a)) [mkguard RLt (GSym (SSym b))]).
Definition pb_f8c : problem :=
  mkproblem "backward_problem"
    [ mkpf "completed_definition_of_a_0" PAxiom (FBin CIff (FAtomic (AAtom "a" [])) (FAtomic ATrue));
      mkpf "completed_definition_of_q_0" PConjecture
        (FBin CIff (FAtomic (AAtom "q" [])) (FBin CAnd (FAtomic (AAtom "a" [])) (cmp_lt "a1" "a"))) ].

Lemma f8c_chain :
  windows2 (sort_strings (problem_symbols pb_f8c)) = [("a", "a1")] /\
  windows2 (sort_strings (problem_symbols (rename_conflicting_symbols pb_f8c))) = [("a1", "a__s")] /\
  renamed_symbols pb_f8c = ["a"].
Proof. repeat split; vm_compute; reflexivity. Qed.

Theorem chain_refuted_after_rename :
  ~ chain_true_for_originals pb_f8c /\
  (forall FI M e, csat FI M e (symbol_order_formula ("a1", "a__s")) /\ ~ csat FI M e (symbol_order_formula ("a1", "a"))).
Proof.
  split.
  - intros H.
    specialize (H "a1" "a__s" ltac:(vm_compute; left; reflexivity) "a1" "a"
                  ltac:(vm_compute; auto) ltac:(vm_compute; auto) ltac:(vm_compute; reflexivity) ltac:(vm_compute; reflexivity)
                  (mkfint (fun _ => VInf) (fun _ => 0%Z) (fun _ => "")) (fun _ _ => True)
                  (mkenv (fun _ => VInf) (fun _ => 0%Z) (fun _ => ""))).
    vm_compute in H. discriminate.
  - intros FI M e. split; [vm_compute; reflexivity|vm_compute; discriminate].
Qed.

(* the renaming changes the truth value of the program's own comparison: a1 < a is false, the
   printed a1 < a__s is true - which is why every problem of the two non-equivalent programs
   becomes provable *)
Theorem rename_changes_meaning :
  let conf := filter (fun q => Nat.eqb (parity q) 0) (problem_predicates pb_f8c) in
  rcs_formula conf (cmp_lt "a1" "a") = cmp_lt "a1" "a__s" /\
  forall FI M e, ~ csat FI M e (cmp_lt "a1" "a") /\ csat FI M e (rcs_formula conf (cmp_lt "a1" "a")).
Proof.
  cbv zeta. split; [vm_compute; reflexivity|]. intros FI M e. split; [vm_compute; discriminate|vm_compute; reflexivity].
Qed.
