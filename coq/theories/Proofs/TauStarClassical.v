(* Classical (H = T) reading of the tau* rule formulas and their vocabulary, for clients that work
   with the completion (C04): the body part of a rule's formula, read existentially over the
   assignments, describes exactly the tuples the rule derives; tau*(P) mentions exactly the
   predicates of P. *)
From Coq Require Import List Ascii String ZArith Bool Lia.
From Anthem Require Import Base.ISet Syntax.Fol Syntax.Asp Sem.Domain Sem.Sat Sem.AspRef
  Model.FreshNames Model.TauStar Proofs.FreshNamesOk Proofs.TauStarBase Proofs.TauStarVal Proofs.TauStarBody
  Proofs.TauStarRule Proofs.TauStarProgram.
Import ListNotations.
Open Scope string_scope.
Open Scope list_scope.

Section Classical.
Variable FI : fint.
Variable T : pint.

(* val_t1(V1) & ... & val_tn(Vn) & tau^B(Body): the tuples d for which some assignment makes it true *)
Theorem fo_body_classical r a globals :
  head_atom (rhead r) = Some a -> fresh_globals r globals ->
  let fvars := firstn (List.length (aterms a)) globals in
  forall d,
    (exists e, map (getv e) (map gvar fvars) = d /\
               csat FI T e (FBin CAnd (valtz (aterms a) (map gvar fvars)) (tau_body (rbody r)))) <->
    (exists sg, tuple_vals sg (aterms a) d /\ body_sat T T sg (rbody r)).
Proof.
  intros Ha [Hlen [Hnd Hfresh]] fvars d.
  assert (Har : head_arity (rhead r) = List.length (aterms a)).
  { destruct (rhead r) as [a'|a'|]; cbn in Ha; try discriminate; injection Ha as ->; reflexivity. }
  rewrite Har in *. fold fvars in Hnd, Hfresh.
  assert (Hfl : List.length fvars = List.length (aterms a)) by (unfold fvars; rewrite firstn_length; lia).
  assert (Hcore : forall e, csat FI T e (FBin CAnd (valtz (aterms a) (map gvar fvars)) (tau_body (rbody r))) <->
                            tuple_vals (eg e) (aterms a) (map (eg e) fvars) /\ body_sat T T (eg e) (rbody r)).
  { intros e. rewrite <- hsat_total. cbn [hsat]. unfold valtz.
    rewrite valtz_sat_gen by (symmetry; exact Hfl). rewrite tau_body_sat. tauto. }
  assert (Hget : forall e, map (getv e) (map gvar fvars) = map (eg e) fvars) by (intros e; rewrite map_map; reflexivity).
  split.
  - intros [e [<- Hc]]. apply Hcore in Hc. exists (eg e). rewrite Hget. exact Hc.
  - intros [sg [Hv Hb]].
    assert (Hl : List.length d = List.length fvars).
    { rewrite Hfl. symmetry. exact (Forall2_len _ _ _ Hv). }
    set (e := upd_gs (env_of sg) fvars d).
    assert (Hmap : map (eg e) fvars = d) by (apply eg_upd_gs_nth; auto).
    assert (Hsame : forall x, In x (rule_vars r) -> eg e x = sg x).
    { intros x Hx. unfold e. rewrite eg_upd_gs_other; [reflexivity|]. intros Hin. exact (Hfresh x Hin Hx). }
    exists e. rewrite Hget. split; [exact Hmap|]. apply Hcore. rewrite Hmap. split.
    + apply (tuple_vals_coincide (eg e) sg); [|exact Hv].
      intros t x Ht Hx. apply Hsame. eapply rule_vars_head; eauto.
    + apply (body_sat_coincide T T (eg e) sg); [|exact Hb].
      intros x Hx. apply Hsame. apply rule_vars_body; exact Hx.
Qed.

(* the extra conjunct of a choice head *)
Lemma choice_guard_classical e p fvars :
  csat FI T e (FNot (FNot (FAtomic (AAtom p (map (fun x => GVar x) fvars))))) <->
  ~ ~ T p (map (getv e) (map gvar fvars)).
Proof. cbn. rewrite !map_map. cbn. tauto. Qed.

Theorem body_classical b : (exists e, csat FI T e (tau_body b)) <-> (exists sg, body_sat T T sg b).
Proof.
  split.
  - intros [e He]. exists (eg e). apply tau_body_csat in He. exact He.
  - intros [sg Hs]. exists (env_of sg). apply tau_body_csat. exact Hs.
Qed.
End Classical.

(* ---------- vocabulary ---------- *)
Lemma posfree_predicates f : posfree f -> predicates f = [].
Proof.
  induction f as [a|f IH|c l IHl r IHr|q vs f IH]; cbn; intros P; try tauto.
  - destruct a; cbn in *; tauto.
  - destruct c; try tauto; destruct P as [Pl Pr]; rewrite (IHl Pl), (IHr Pr); reflexivity.
Qed.
Lemma val_predicates t z : predicates (val t z) = [].
Proof. apply posfree_predicates. apply val_posfree. Qed.

Lemma pred_bin p c l r : In p (predicates (FBin c l r)) <-> In p (predicates l) \/ In p (predicates r).
Proof. cbn [predicates]. apply in_iset_extend. Qed.
Lemma pred_fold_and p xs : forall x,
  In p (predicates (fold_left (fun acc y => FBin CAnd acc y) xs x)) <->
  In p (predicates x) \/ exists y, In y xs /\ In p (predicates y).
Proof.
  induction xs as [|y xs IH]; intros x; cbn [fold_left].
  - split; [auto|]. intros [H|[y [[] _]]]; exact H.
  - rewrite IH, pred_bin. split.
    + intros [[H|H]|[y' [Hy H]]]; eauto. right. exists y. split; [left; reflexivity|exact H].
      right. exists y'. split; [right; exact Hy|exact H].
    + intros [H|[y' [[<-|Hy] H]]]; eauto.
Qed.
Lemma pred_conjoin p l : In p (predicates (conjoin l)) <-> exists y, In y l /\ In p (predicates y).
Proof.
  unfold conjoin, reduce_bin. destruct l as [|x xs].
  - cbn. split; [intros []|intros [y [[] _]]].
  - rewrite pred_fold_and. split.
    + intros [H|[y [Hy H]]]; [exists x; split; [left; reflexivity|exact H]|exists y; split; [right; exact Hy|exact H]].
    + intros [y [[<-|Hy] H]]; eauto.
Qed.
Lemma valtz_predicates ts zs : predicates (conjoin (map (fun tv => val (fst tv) (snd tv)) (combine ts zs))) = [].
Proof.
  destruct (predicates _) as [|p l] eqn:E; [reflexivity|]. exfalso.
  assert (Hp : In p (predicates (conjoin (map (fun tv => val (fst tv) (snd tv)) (combine ts zs)))))
    by (rewrite E; left; reflexivity).
  apply pred_conjoin in Hp. destruct Hp as [y [Hy Hp]]. apply in_map_iff in Hy.
  destruct Hy as [[t z] [<- _]]. rewrite val_predicates in Hp. exact Hp.
Qed.
Lemma pred_sign_wrap s f : predicates (sign_wrap s f) = predicates f.
Proof. destruct s; reflexivity. Qed.

Lemma tau_b_predicates b p : In p (predicates (tau_b b)) <-> In p (bformula_preds b).
Proof.
  unfold tau_b. destruct b as [l|c]; cbn [bformula_preds].
  - destruct (aterms (latom l)) eqn:Ets.
    + unfold tau_b_propositional_literal. rewrite pred_sign_wrap. cbn. unfold atom_pred. rewrite Ets. tauto.
    + unfold tau_b_first_order_literal. cbn [predicates]. rewrite in_iset_extend.
      rewrite valtz_predicates, pred_sign_wrap. cbn [predicates aformula_preds].
      rewrite map_length, choose_fresh_length. unfold atom_pred. cbn. tauto.
  - unfold tau_b_comparison. cbn [predicates]. rewrite in_iset_extend.
    change [val (clhs c) (gvar (nth 0 (choose_fresh_variable_names _ "Z" 2) "Z"));
            val (crhs c) (gvar (nth 1 (choose_fresh_variable_names _ "Z" 2) "Z"))]
      with (map (fun tv => val (fst tv) (snd tv))
              (combine [clhs c; crhs c]
                 [gvar (nth 0 (choose_fresh_variable_names (map vname (iset_extend vdec [] (map gvar (bformula_vars (BCmp c))))) "Z" 2) "Z");
                  gvar (nth 1 (choose_fresh_variable_names (map vname (iset_extend vdec [] (map gvar (bformula_vars (BCmp c))))) "Z" 2) "Z")])).
    rewrite valtz_predicates. cbn. tauto.
Qed.
Lemma tau_body_predicates b p : In p (predicates (tau_body b)) <-> In p (body_preds b).
Proof.
  unfold tau_body, body_preds. rewrite pred_conjoin, in_extend_all. split.
  - intros [y [Hy Hp]]. apply in_map_iff in Hy. destruct Hy as [bf [<- Hbf]]. right. exists bf.
    split; [exact Hbf|apply tau_b_predicates; exact Hp].
  - intros [[]|[bf [Hbf Hp]]]. exists (tau_b bf). split; [apply in_map; exact Hbf|apply tau_b_predicates; exact Hp].
Qed.

Lemma pred_closure p xs imp :
  In p (predicates (match sort_vars (map gvar xs) with [] => imp | vs => FQ QForall vs imp end)) <->
  In p (predicates imp).
Proof. destruct (sort_vars (map gvar xs)); reflexivity. Qed.

Lemma pred_atom p q ts : In p (predicates (FAtomic (AAtom q ts))) <-> p = mkpred q (List.length ts).
Proof. cbn. split; [intros [<-|[]]; reflexivity|intros ->; left; reflexivity]. Qed.
Lemma pred_nn p f : In p (predicates (FNot (FNot f))) <-> In p (predicates f).
Proof. reflexivity. Qed.

Lemma pred_q p q vs f : In p (predicates (FQ q vs f)) <-> In p (predicates f).
Proof. reflexivity. Qed.

(* body [& ~~head] -> head *)
Lemma pred_rule_imp p core hd (choice : bool) :
  In p (predicates (FBin CImp (if choice then FBin CAnd core (FNot (FNot hd)) else core) hd)) <->
  In p (predicates hd) \/ In p (predicates core).
Proof.
  destruct choice; rewrite !pred_bin, ?pred_nn; tauto.
Qed.

Theorem tau_star_rule_predicates r globals F p : tau_star_rule r globals = Some F ->
  (In p (predicates F) <-> In p (rule_preds r)).
Proof.
  unfold tau_star_rule, rule_preds. rewrite in_iset_extend.
  assert (Hfo : forall a, head_atom (rhead r) = Some a -> head_pred (rhead r) = Some (atom_pred a) ->
                tau_star_fo_head_rule r globals = Some F ->
                (In p (predicates F) <-> In p [atom_pred a] \/ In p (body_preds (rbody r)))).
  { intros a Ha _. unfold tau_star_fo_head_rule. rewrite Ha.
    destruct (Nat.ltb_spec (List.length globals) (List.length (aterms a))) as [|Hge]; [discriminate|].
    intros [= <-]. rewrite pred_q, pred_rule_imp, pred_bin.
    unfold valtz. rewrite valtz_predicates, tau_body_predicates, pred_atom.
    rewrite map_length, firstn_length, (Nat.min_l _ _ Hge). unfold atom_pred. cbn. intuition congruence. }
  assert (Hprop : forall a, head_atom (rhead r) = Some a -> aterms a = [] ->
                tau_star_prop_head_rule r = Some F ->
                (In p (predicates F) <-> In p [atom_pred a] \/ In p (body_preds (rbody r)))).
  { intros a Ha Hn. unfold tau_star_prop_head_rule. rewrite Ha. intros [= <-].
    rewrite pred_closure, pred_rule_imp, tau_body_predicates, pred_atom.
    unfold atom_pred. rewrite Hn. cbn. intuition congruence. }
  destruct (rhead r) as [a|a|] eqn:Hh; cbn [head_pred head_arity].
  - destruct (Nat.ltb_spec 0 (List.length (aterms a))) as [_|Hz].
    + apply Hfo; reflexivity.
    + apply Hprop; [reflexivity|]. destruct (aterms a); [reflexivity|cbn in Hz; lia].
  - destruct (Nat.ltb_spec 0 (List.length (aterms a))) as [_|Hz].
    + apply Hfo; reflexivity.
    + apply Hprop; [reflexivity|]. destruct (aterms a); [reflexivity|cbn in Hz; lia].
  - intros [= <-]. unfold tau_star_constraint_rule. rewrite pred_closure, pred_bin, tau_body_predicates.
    cbn. tauto.
Qed.

Theorem tau_star_predicates P G p : tau_star P = Some G ->
  (In p (theory_predicates G) <-> In p (program_preds P)).
Proof.
  unfold tau_star. destruct (choose_fresh_global_variables P) as [globals|]; [|discriminate].
  intros Hm. apply map_opt_forall2 in Hm. unfold theory_predicates, program_preds.
  rewrite !in_extend_all. split.
  - intros [[]|[F [HF Hp]]]. right.
    assert (Hex : exists r, In r P /\ tau_star_rule r globals = Some F).
    { clear Hp. induction Hm as [|r F' P' G' HrF _ IH]; [destruct HF|].
      destruct HF as [<-|HF]; [exists r; split; [left; reflexivity|exact HrF]|].
      destruct (IH HF) as [r' [Hr' E]]. exists r'. split; [right; exact Hr'|exact E]. }
    destruct Hex as [r [Hr E]]. exists r. split; [exact Hr|]. apply (tau_star_rule_predicates r globals F p E). exact Hp.
  - intros [[]|[r [Hr Hp]]]. right.
    assert (Hex : exists F, In F G /\ tau_star_rule r globals = Some F).
    { clear Hp. induction Hm as [|r' F' P' G' HrF _ IH]; [destruct Hr|].
      destruct Hr as [<-|Hr]; [exists F'; split; [left; reflexivity|exact HrF]|].
      destruct (IH Hr) as [F [HF E]]. exists F. split; [right; exact HF|exact E]. }
    destruct Hex as [F [HF E]]. exists F. split; [exact HF|]. apply (tau_star_rule_predicates r globals F p E). exact Hp.
Qed.
