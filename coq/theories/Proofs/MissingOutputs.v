(* The empty completed definitions `theory_translate` appends for the output predicates of the user
   guide that do not occur in the completed theory but occur in the task (/repo 70e6ace, finding
   F17, refined by 18b2e85; Model/External.v: empty_definition, missing_output_definitions,
   task_occurring_predicates).

     empty_definition_valid        forall V (q(V) <-> #false)  is valid in M  iff  M is empty on q
     missing_outputs_valid         the appended block is valid iff M is empty on every declared
                                   output predicate that occurs in the task and is not a predicate
                                   of the completed theory
     completion_predicates_incl    the completion introduces no predicate
     completion_predicates_defined every non-input predicate of the theory occurs in its completion
                                   (it heads a completed definition)
   hence: an output predicate is missing from completion(G) iff it is missing from G. *)
From Coq Require Import List Ascii String ZArith NArith Bool Lia.
From Anthem Require Import Base.ISet Base.Fresh Syntax.Fol Sem.Domain Sem.Sat Model.Completion Model.External
  Proofs.ExtendAll Proofs.EnvFacts Proofs.CompletionShape Proofs.CompletionOk.
Import ListNotations.
Open Scope string_scope.
Open Scope list_scope.

(* ---------- meaning ---------- *)
Lemma implicit_head_vars_length q : List.length (implicit_head_vars q) = parity q.
Proof.
  pose proof (atomic_formula_from_pred q) as E. unfold hatom_pred in E.
  rewrite atomic_formula_from_args, map_length in E. apply (f_equal parity) in E. exact E.
Qed.
Lemma atomic_formula_from_eta q :
  atomic_formula_from q = mkhatom (psym q) (map var_to_gterm (implicit_head_vars q)).
Proof.
  rewrite <- atomic_formula_from_args. unfold atomic_formula_from. reflexivity.
Qed.

Theorem empty_definition_valid FI M q :
  cvalid FI M (empty_definition q) <-> forall d, List.length d = parity q -> ~ M (psym q) d.
Proof.
  unfold empty_definition. rewrite atomic_formula_from_eta.
  rewrite (entry_clark FI M (psym q) (implicit_head_vars q) [] (implicit_head_vars_nodup q)).
  split.
  - intros H d Hl Hd.
    assert (Hs : in_sorts (implicit_head_vars q) d).
    { pose proof (implicit_head_vars_length q) as Hv. unfold implicit_head_vars in *. apply in_sorts_general.
      rewrite map_length in Hv. congruence. }
    destruct (proj1 (H d Hs) Hd) as [F [[] _]].
  - intros H d Hs. split.
    + intros Hd. exfalso. apply (H d); [|exact Hd].
      rewrite (in_sorts_length _ _ Hs). apply implicit_head_vars_length.
    + intros [F [[] _]].
Qed.

Lemma in_iset_diff (a b : list pred) q : In q (iset_diff pred_dec a b) <-> In q a /\ ~ In q b.
Proof.
  unfold iset_diff. rewrite filter_In, negb_true_iff.
  destruct (memb_spec pred_dec q b); intuition congruence.
Qed.

(* membership in the list the code iterates over: declared outputs, not predicates of the completed
   theory (IndexSet::difference), occurring in the task (the filter of /repo 18b2e85) *)
Lemma in_missing_outputs (outs occ : list pred) (D : theory) q :
  In q (filter (fun p => memb pred_dec p occ) (iset_diff pred_dec outs (theory_predicates D))) <->
  In q outs /\ In q occ /\ ~ In q (theory_predicates D).
Proof.
  rewrite filter_In, in_iset_diff. destruct (memb_spec pred_dec q occ); intuition congruence.
Qed.

Theorem missing_outputs_valid FI M outs occ D :
  (forall f, In f (missing_output_definitions outs occ D) -> cvalid FI M f) <->
  (forall q, In q outs -> In q occ -> ~ In q (theory_predicates D) -> forall d, List.length d = parity q -> ~ M (psym q) d).
Proof.
  unfold missing_output_definitions. split.
  - intros H q Ho Hc Hn. apply (proj1 (empty_definition_valid FI M q)). apply H. apply in_map. apply in_missing_outputs. auto.
  - intros H f Hf. apply in_map_iff in Hf. destruct Hf as [q [<- Hq]]. apply in_missing_outputs in Hq.
    apply (proj2 (empty_definition_valid FI M q)). apply H; tauto.
Qed.

(* an output predicate that occurs on neither side of the task gets NO definition (/repo 18b2e85) *)
Lemma missing_outputs_only_occurring outs occ D f :
  In f (missing_output_definitions outs occ D) -> exists q, f = empty_definition q /\ In q outs /\ In q occ /\ ~ In q (theory_predicates D).
Proof.
  unfold missing_output_definitions. intros Hf. apply in_map_iff in Hf. destruct Hf as [q [<- Hq]].
  apply in_missing_outputs in Hq. eauto.
Qed.

(* ---------- predicates of a completion ---------- *)
Lemma predicates_quantify' f q vs : predicates (quantify f q vs) = predicates f.
Proof. destruct vs; reflexivity. Qed.

Lemma definition_predicates f F p V : definition_of f F p V -> incl (predicates F) (predicates f).
Proof.
  intros [_ [Hi _]] q Hq.
  assert (Hs : In q (predicates (strip f))).
  { destruct Hi as [E|E]; rewrite E; cbn [predicates]; apply (in_iset_extend pred_dec); auto. }
  destruct f as [| | |[] vs g]; exact Hs.
Qed.
Lemma strip_predicates f : predicates (strip f) = predicates f.
Proof. destruct f as [| | |[] vs g]; reflexivity. Qed.

Lemma in_predicates_fold_or l : forall acc q,
  In q (predicates (fold_left (FBin COr) l acc)) -> In q (predicates acc) \/ exists f, In f l /\ In q (predicates f).
Proof.
  induction l as [|f l IH]; intros acc q; cbn [fold_left]; [auto|].
  intros H. apply IH in H. destruct H as [H|[g [Hg H]]].
  - cbn [predicates] in H. apply (in_iset_extend pred_dec) in H. destruct H as [H|H]; [auto|].
    right. exists f. split; [left; reflexivity|exact H].
  - right. exists g. split; [right; exact Hg|exact H].
Qed.
Lemma in_predicates_disjoin l q : In q (predicates (disjoin l)) -> exists f, In f l /\ In q (predicates f).
Proof.
  unfold disjoin, reduce_bin. destruct l as [|f l]; [intros []|].
  intros H. apply in_predicates_fold_or in H. destruct H as [H|[g [Hg H]]].
  - exists f. split; [left; reflexivity|exact H].
  - exists g. split; [right; exact Hg|exact H].
Qed.

Lemma complete_definition_head_pred e : In (hatom_pred (fst e)) (predicates (complete_definition e)).
Proof.
  unfold complete_definition. rewrite predicates_quantify'. cbn [predicates].
  apply (in_iset_extend pred_dec). left. destruct e as [[s ts] bodies]. cbn. auto.
Qed.
Lemma complete_definition_predicates e q : In q (predicates (complete_definition e)) ->
  q = hatom_pred (fst e) \/ exists F, In F (snd e) /\ In q (predicates F).
Proof.
  unfold complete_definition. rewrite predicates_quantify'. cbn [predicates]. intros H.
  apply (in_iset_extend pred_dec) in H. destruct H as [H|H].
  - left. destruct e as [[s ts] bodies]. cbn in H. destruct H as [<-|[]]. reflexivity.
  - right. apply in_predicates_disjoin in H. destruct H as [f [Hf H]]. apply in_map_iff in Hf.
    destruct Hf as [F [<- HF]]. rewrite predicates_quantify' in H. eauto.
Qed.

Theorem completion_predicates_incl G ins D :
  completion G ins = Some D -> incl (theory_predicates D) (theory_predicates G).
Proof.
  intros HD q Hq. apply completion_structure in HD. destruct HD as [defs [cs [Hc [_ ->]]]].
  apply in_theory_predicates in Hq. destruct Hq as [d [Hd Hq]].
  apply in_app_iff in Hd. destruct Hd as [Hd|Hd]; apply in_map_iff in Hd.
  - destruct Hd as [c [<- Hcin]]. destruct (components_spec _ _ _ Hc) as [_ [-> _]].
    apply in_flat_map in Hcin. destruct Hcin as [f [Hf Hcin]]. unfold split_constraints in Hcin.
    destruct (split f) as [[? ?|c']|] eqn:E; try (destruct Hcin; fail). destruct Hcin as [<-|[]].
    apply split_constraint in E. destruct E as [-> _].
    unfold universal_closure in Hq. rewrite predicates_quantify', strip_predicates in Hq.
    apply in_theory_predicates. eauto.
  - destruct Hd as [e [<- He]]. apply filter_In in He. destruct He as [He _].
    apply complete_definition_predicates in Hq. destruct Hq as [->|[F [HF Hq]]].
    + apply (preds_all G defs cs _ Hc). apply (in_map (fun e => hatom_pred (fst e))). exact He.
    + unfold all_definitions in He. apply in_app_iff in He. destruct He as [He|He].
      * destruct (components_spec _ _ _ Hc) as [_ [_ [_ [_ H5]]]]. destruct e as [a bodies]. cbn [snd] in HF.
        destruct (proj1 (H5 a F) (ex_intro _ bodies (conj He HF))) as [f [Hf Ef]].
        apply split_definition in Ef. destruct Ef as [V [_ HDf]].
        apply in_theory_predicates. exists f. split; [exact Hf|]. exact (definition_predicates _ _ _ _ HDf q Hq).
      * apply in_map_iff in He. destruct He as [p [<- _]]. destruct HF.
Qed.

Theorem completion_predicates_defined G ins D q :
  completion G ins = Some D -> In q (theory_predicates G) -> ~ In q ins -> In q (theory_predicates D).
Proof.
  intros HD Hq Hn. destruct (C04_total_defs_proof G ins D HD) as [defs [-> [_ Hp]]].
  pose proof (proj2 (Hp q) (conj Hq Hn)) as Hin. apply in_map_iff in Hin. destruct Hin as [e [<- He]].
  apply in_theory_predicates. exists (complete_definition e). split.
  - apply in_app_iff. right. apply in_map. exact He.
  - apply complete_definition_head_pred.
Qed.
