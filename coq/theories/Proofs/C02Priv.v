(* Hypothesis 1 of docs/C02full.md: the formulas `control_translate` labels Assumption are exactly
   the completed definitions of the private predicates - also AFTER simplification - and an
   interpretation satisfies them iff every private predicate holds exactly on the tuples supported
   by one of its rules ([priv_supported], the premise of layer (d), Proofs/PrivateUnique.v).

     assumptions_simplified  : assumptions_of (control_translate public (map simp D))
                               = map simp (assumptions_of (control_translate public D))
                               (role stability, Proofs/HeadPredPipeline.v)
     assumptions_completion  : assumptions_of (control_translate public D), D = completion G ins,
                               = the completed definitions of the non-input, non-public predicates
     clark_filtered          : C04_clark restricted to a set of predicates
     private_definitions_supported :
                               tvalid (those definitions) <-> priv_supported M P priv *)
From Coq Require Import List Ascii String ZArith NArith Bool Lia Classical_Prop.
From Anthem Require Import Base.ISet Syntax.Fol Syntax.Asp Sem.Domain Sem.Sat Sem.AspRef
  Model.Outline Model.External Model.PrivRec Model.TauStar Model.Completion Model.ExternalFull
  Proofs.ExtendAll Proofs.EnvFacts Proofs.StrongOk Proofs.TightnessOk Proofs.CompletionShape Proofs.CompletionOk Proofs.FagesBridge
  Proofs.FagesTauStar Proofs.PrivateUnique Proofs.C02Ok Proofs.HeadPred Proofs.HeadPredPipeline Proofs.MissingOutputs.
Import ListNotations.
Open Scope string_scope.
Open Scope list_scope.

(* ------------------------------------------------------------------ which formulas are assumptions *)
Definition is_private_def (public : list pred) (f : formula) : bool :=
  match head_predicate f with Some p => negb (memb pred_dec p public) | None => false end.

Lemma assumptions_of_control_translate public th : forall k,
  assumptions_of (control_translate_from public k th) = filter (is_private_def public) th.
Proof.
  unfold assumptions_of. induction th as [|f th IH]; intros k; cbn [control_translate_from filter map]; [reflexivity|].
  unfold is_private_def at 1. destruct (head_predicate f) as [p|].
  - cbn [filter an_role]. destruct (memb pred_dec p public); cbn [negb map filter an_formula]; rewrite IH; reflexivity.
  - cbn [filter an_role map]. apply IH.
Qed.

Lemma assumptions_of_annot_map s l : assumptions_of (map (annot_map s) l) = map s (assumptions_of l).
Proof.
  unfold assumptions_of. induction l as [|a l IH]; cbn; [reflexivity|].
  destruct (an_role a); cbn; rewrite IH; reflexivity.
Qed.

(* role stability, for the assumptions: simplification maps the private definitions to the private
   definitions *)
Theorem assumptions_simplified fuel public th :
  (forall f, In f th -> classified f) ->
  assumptions_of (control_translate public (map (simp_classic_total fuel) th))
  = map (simp_classic_total fuel) (assumptions_of (control_translate public th)).
Proof. intros H. rewrite (control_translate_simplified fuel public th H). apply assumptions_of_annot_map. Qed.

Lemma head_predicate_complete_definition e : head_predicate (complete_definition e) = Some (hatom_pred (fst e)).
Proof. rewrite head_predicate_atom, complete_definition_head. reflexivity. Qed.

Definition private_entry (public : list pred) (e : hatom * list formula) : bool :=
  negb (memb pred_dec (hatom_pred (fst e)) public).

Lemma filter_map_comm {A B} (g : A -> B) (p : B -> bool) l : filter p (map g l) = map g (filter (fun x => p (g x)) l).
Proof. induction l as [|x l IH]; cbn; [reflexivity|]. destruct (p (g x)); cbn; rewrite IH; reflexivity. Qed.
Lemma filter_none {A} (p : A -> bool) l : (forall x, In x l -> p x = false) -> filter p l = [].
Proof. induction l as [|x l IH]; intros H; cbn; [reflexivity|]. rewrite (H x (or_introl eq_refl)). apply IH. intros y Hy. apply H. right; exact Hy. Qed.

(* the assumptions of a completed theory are the completed definitions of the private predicates *)
Theorem assumptions_completion G ins D public :
  completion G ins = Some D -> (forall f, In f G -> rule_like f) ->
  exists defs cs, components G = Some (defs, cs) /\ has_head_mismatches (all_definitions G defs) = false /\
    assumptions_of (control_translate public D)
    = map complete_definition (filter (private_entry public) (filter (non_input ins) (all_definitions G defs))).
Proof.
  intros HD HG.
  apply completion_structure in HD. destruct HD as [defs [cs [Hc [Hm ->]]]].
  exists defs, cs. split; [exact Hc|]. split; [exact Hm|].
  unfold control_translate. rewrite assumptions_of_control_translate, filter_app.
  rewrite (filter_none (is_private_def public) (map universal_closure cs)).
  - cbn [app]. rewrite filter_map_comm. f_equal. apply filter_ext. intros e.
    unfold is_private_def, private_entry. rewrite head_predicate_complete_definition. reflexivity.
  - intros f Hf. apply in_map_iff in Hf. destruct Hf as [c [<- Hcin]].
    unfold is_private_def. rewrite head_predicate_atom.
    rewrite (cs_shape_no_head _ (constraints_cs_shape G defs cs Hc HG c Hcin)). reflexivity.
Qed.

(* the empty completed definitions of the missing OUTPUT predicates (/repo 70e6ace, 18b2e85) are
   public: they never are Assumption formulas *)
Lemma assumptions_missing_outputs public outs occ D :
  incl outs public ->
  assumptions_of (control_translate public (D ++ missing_output_definitions outs occ D))
  = assumptions_of (control_translate public D).
Proof.
  intros Hi. unfold control_translate. rewrite !assumptions_of_control_translate, filter_app.
  rewrite (filter_none (is_private_def public) (missing_output_definitions outs occ D)); [apply app_nil_r|].
  intros f Hf. apply missing_outputs_only_occurring in Hf. destruct Hf as [q [-> [Hq _]]].
  unfold is_private_def, empty_definition. rewrite head_predicate_complete_definition. cbn [fst].
  rewrite atomic_formula_from_pred. apply negb_false_iff.
  destruct (memb_spec pred_dec q public) as [_|Hn]; [reflexivity|]. exfalso. exact (Hn (Hi q Hq)).
Qed.

(* ------------------------------------------------------------------ Clark's reading, one predicate set at a time *)
(* C04_clark (Proofs/CompletionOk.v) for the completed definitions of the predicates in S only *)
Theorem clark_filtered G defs cs ins (S : pred -> Prop) FI I :
  components G = Some (defs, cs) -> has_head_mismatches (all_definitions G defs) = false ->
  ((forall e, In e (all_definitions G defs) -> ~ In (hatom_pred (fst e)) ins -> S (hatom_pred (fst e)) ->
      cvalid FI I (complete_definition e)) <->
   (forall p, In p (theory_predicates G) -> ~ In p ins -> S p ->
      forall d, List.length d = parity p -> (forall F V, defines G p F V -> in_sorts V d) ->
        (I (psym p) d <-> exists F V, defines G p F V /\ exists e, map (getv e) V = d /\ csat FI I e F))).
Proof.
  intros Hc Hm.
  assert (Hhead : forall a bodies, In (a, bodies) (all_definitions G defs) ->
            exists V, hargs a = map var_to_gterm V /\ NoDup V /\
                      (forall d, List.length d = List.length V -> (forall F V', defines G (hatom_pred a) F V' -> in_sorts V' d) -> in_sorts V d)).
  { intros a bodies Hin. pose proof Hin as Hin0. unfold all_definitions in Hin. apply in_app_iff in Hin. destruct Hin as [Hin|Hin].
    - destruct (explicit_key _ _ _ a Hc (in_map fst _ _ Hin)) as [f [F [V [Hf [E HDf]]]]].
      exists V. split; auto. split; [apply HDf|]. intros d Hl Hs. apply (Hs F).
      exists f. split; auto. split; [exact HDf|]. unfold hatom_pred. cbn. rewrite E, map_length. reflexivity.
    - apply in_map_iff in Hin. destruct Hin as [q [[= <- <-] Hq]].
      exists (implicit_head_vars q). split; [apply atomic_formula_from_args|split; [apply implicit_head_vars_nodup|]].
      intros d Hl _. unfold implicit_head_vars in *. apply in_sorts_general. rewrite map_length in Hl. exact Hl. }
  split.
  - intros H2 p Hp Hn HS d Hl Hs.
    apply (preds_all G defs cs p Hc) in Hp. apply in_map_iff in Hp. destruct Hp as [[a bodies] [<- Hin]]. cbn [fst] in *.
    destruct (Hhead a bodies Hin) as [V [Ha [HV Hsort]]].
    specialize (H2 (a, bodies) Hin Hn HS).
    assert (Ea : a = mkhatom (hsym a) (map var_to_gterm V)) by (destruct a; cbn in *; congruence).
    rewrite Ea in H2. rewrite (entry_clark FI I (hsym a) V bodies HV) in H2.
    assert (Hd : in_sorts V d).
    { apply Hsort; auto. rewrite Hl. unfold hatom_pred. cbn. rewrite Ha, map_length. reflexivity. }
    rewrite (H2 d Hd). split.
    + intros [F [HF He]]. exists F, V. split; auto.
      apply (defines_entry G defs cs a bodies V Hc Hm Hin Ha). auto.
    + intros [F [V' [HDf He]]].
      apply (defines_entry G defs cs a bodies V Hc Hm Hin Ha) in HDf. destruct HDf as [-> HF]. eauto.
  - intros H2 [a bodies] Hin Hn HS. cbn [fst] in Hn, HS.
    destruct (Hhead a bodies Hin) as [V [Ha [HV _]]].
    assert (Ea : a = mkhatom (hsym a) (map var_to_gterm V)) by (destruct a; cbn in *; congruence).
    rewrite Ea. apply (entry_clark FI I (hsym a) V bodies HV). intros d Hd.
    assert (Hp : In (hatom_pred a) (theory_predicates G)).
    { apply (preds_all G defs cs _ Hc). apply in_map_iff. exists (a, bodies). auto. }
    specialize (H2 (hatom_pred a) Hp Hn HS d).
    assert (Hl : List.length d = parity (hatom_pred a)).
    { rewrite (in_sorts_length _ _ Hd). unfold hatom_pred. cbn. rewrite Ha, map_length. reflexivity. }
    assert (Hs : forall F V', defines G (hatom_pred a) F V' -> in_sorts V' d).
    { intros F V' HDf. apply (defines_entry G defs cs a bodies V Hc Hm Hin Ha) in HDf. destruct HDf as [-> _]. exact Hd. }
    specialize (H2 Hl Hs). cbn [psym hatom_pred] in H2. rewrite H2. split.
    + intros [F [V' [HDf He]]].
      apply (defines_entry G defs cs a bodies V Hc Hm Hin Ha) in HDf. destruct HDf as [-> HF]. eauto.
    + intros [F [HF He]]. exists F, V. split; auto.
      apply (defines_entry G defs cs a bodies V Hc Hm Hin Ha). auto.
Qed.

(* ------------------------------------------------------------------ private definitions = supportedness *)
(* the completed definitions of the non-public predicates of a program's completed theory hold in M
   iff every such predicate holds exactly on the tuples supported by one of its rules *)
Theorem private_definitions_supported (FI : fint) (P : program) (G D : theory) (ins public priv : list pred) (M : pint) :
  represents FI G P -> completion G ins = Some D -> (forall f, In f G -> rule_like f) ->
  ~ private_choice P priv ->
  (forall p, In p priv <-> In p (program_preds P) /\ ~ In p public) ->
  incl ins public ->
  (tvalid FI M (assumptions_of (control_translate public D)) <-> priv_supported M P priv).
Proof.
  intros Hrep HD HG Hnc Hpriv Hins.
  destruct (assumptions_completion G ins D public HD HG) as [defs [cs [Hc [Hm ->]]]].
  assert (E : tvalid FI M (map complete_definition (filter (private_entry public) (filter (non_input ins) (all_definitions G defs)))) <->
              (forall e, In e (all_definitions G defs) -> ~ In (hatom_pred (fst e)) ins -> ~ In (hatom_pred (fst e)) public ->
                 cvalid FI M (complete_definition e))).
  { unfold tvalid. split.
    - intros H e He Hni Hnp. apply H. apply in_map. apply filter_In. split.
      + apply filter_In. split; [exact He|]. unfold non_input. apply negb_true_iff.
        destruct (memb_spec pred_dec (hatom_pred (fst e)) ins); tauto.
      + unfold private_entry. apply negb_true_iff. destruct (memb_spec pred_dec (hatom_pred (fst e)) public); tauto.
    - intros H f Hf. apply in_map_iff in Hf. destruct Hf as [e [<- He]].
      apply filter_In in He. destruct He as [He Hp]. apply filter_In in He. destruct He as [He Hn].
      unfold non_input in Hn. unfold private_entry in Hp. apply negb_true_iff in Hn, Hp.
      apply H; auto.
      + destruct (memb_spec pred_dec (hatom_pred (fst e)) ins); [discriminate|auto].
      + destruct (memb_spec pred_dec (hatom_pred (fst e)) public); [discriminate|auto]. }
  rewrite E. clear E.
  rewrite (clark_filtered G defs cs ins (fun p => ~ In p public) FI M Hc Hm).
  assert (Hsort : forall p d, In p (theory_predicates G) -> List.length d = parity p -> forall F V, defines G p F V -> in_sorts V d).
  { intros p d HpG Hl F V [f [Hf [HDf HlV]]]. apply in_sorts_general_vars; [|congruence].
    destruct Hrep as [HF _]. destruct (forall2_in_r _ _ _ _ HF Hf) as [r [Hr Hrf]]. unfold rule_formula in Hrf.
    destruct (rhead r) as [a|a|].
    - destruct Hrf as [F' [V' [HD' [_ [Hg _]]]]]. destruct (definition_of_fun _ _ _ _ _ _ _ HDf HD') as [_ [_ ->]]. exact Hg.
    - destruct Hrf as [F' [V' [HD' [_ [Hg _]]]]]. destruct (definition_of_fun _ _ _ _ _ _ _ HDf HD') as [_ [_ ->]]. exact Hg.
    - destruct Hrf as [Hk _]. exfalso. eapply definition_constraint_excl; eauto. }
  assert (Hsup : forall p d, In p priv ->
    ((exists F V, defines G p F V /\ exists e, map (getv e) V = d /\ csat FI M e F) <->
     (exists r a sg, In r P /\ rhead r = HBasic a /\ atom_pred a = p /\ tuple_vals sg (aterms a) d /\ body_sat M M sg (rbody r)))).
  { intros p d Hp. rewrite (support_iff P FI G Hrep M p d). split.
    - intros [r [a [sg [Hr [Ea [Hv [Hb [Hh|[Hh _]]]]]]]]].
      + exists r, a, sg. auto.
      + exfalso. apply Hnc. exists r, a. rewrite Ea. auto.
    - intros [r [a [sg [Hr [Hh [Ea [Hv Hb]]]]]]]. exists r, a, sg. auto 10. }
  split.
  - intros HC p Hp d Hl. destruct (proj1 (Hpriv p) Hp) as [Hin Hnp].
    assert (HpG : In p (theory_predicates G)) by (apply (proj2 Hrep); exact Hin).
    assert (Hni : ~ In p ins) by (intros Hi; apply Hnp, Hins, Hi).
    rewrite (HC p HpG Hni Hnp d Hl (Hsort p d HpG Hl)). apply Hsup, Hp.
  - intros HS p HpG Hni Hnp d Hl _.
    assert (Hp : In p priv) by (apply Hpriv; split; [apply (proj1 (proj2 Hrep p)); exact HpG|exact Hnp]).
    rewrite (HS p Hp d Hl). symmetry. apply Hsup, Hp.
Qed.

(* ------------------------------------------------------------------ at the level of the task *)
From Anthem Require Import Model.Tightness Proofs.PlaceholderOk Proofs.RenameOk Proofs.ExternalOk Proofs.C02Full.

Lemma ph_private_choice FI m P priv : private_choice (ph_program FI m P) priv -> private_choice P priv.
Proof.
  intros [r' [a' [Hr' [Hh Ha]]]]. unfold ph_program in Hr'. apply in_map_iff in Hr'. destruct Hr' as [r [<- Hr]].
  cbn in Hh. destruct (rhead r) as [a|a|] eqn:E; cbn in Hh; try discriminate.
  injection Hh as <-. rewrite ph_atom_pred in Ha. exists r, a. auto.
Qed.

Section TaskLevel.
Variable fuel : nat.
Notation translate := (theory_translate tau_star_total completion (simp_classic_total fuel)).
Notation tl := (task_left tau_star_total completion (simp_classic_total fuel)).
Notation tr := (task_right tau_star_total completion (simp_classic_total fuel)).

(* one program of an external task: the formulas labelled Assumption in its translated
   (completed, possibly simplified) theory hold iff its private predicates are supported *)
Theorem translated_assumptions_supported t P G th :
  TauStar.tau_star P = Some G -> translate t (task_placeholders t) P = Some th ->
  has_private_recursion P (private_predicates (ug_public_predicates (et_user_guide t)) (program_preds P)) = false ->
  forall FI M,
    tvalid FI M (assumptions_of (control_translate (ug_public_predicates (et_user_guide t)) th)) <->
    priv_supported M (ph_program FI (task_placeholders t) P)
                   (private_predicates (ug_public_predicates (et_user_guide t)) (program_preds P)).
Proof.
  intros Hts Htr Hpr FI M. unfold theory_translate, tau_star_total in Htr. rewrite Hts in Htr.
  set (m := task_placeholders t) in *. set (public := ug_public_predicates (et_user_guide t)) in *.
  set (ins := ug_input_predicates (et_user_guide t)) in *.
  destruct (completion (rp_theory m G) ins) as [D|] eqn:HD; [|discriminate].
  assert (Hrl : forall f, In f (rp_theory m G) -> rule_like f).
  { intros f Hf. unfold rp_theory in Hf. apply in_map_iff in Hf. destruct Hf as [f0 [<- Hf0]].
    apply rule_like_rp. eapply tau_star_rule_like_all; eauto. }
  cbv zeta in Htr. set (outs := ug_output_predicates (et_user_guide t)) in *.
  set (occ := task_occurring_predicates t) in *.
  assert (Hcl : forall f, In f (D ++ missing_output_definitions outs occ D) -> classified f).
  { intros f Hf. apply in_app_or in Hf. destruct Hf as [Hf|Hf].
    - eapply completion_all_classified; eauto.
    - eapply missing_outputs_classified; eauto. }
  assert (Hop : incl outs public).
  { intros q Hq. unfold public, ug_public_predicates. apply in_iset_extend. right. exact Hq. }
  assert (E : tvalid FI M (assumptions_of (control_translate public th)) <->
              tvalid FI M (assumptions_of (control_translate public D))).
  { injection Htr as <-. rewrite <- (assumptions_missing_outputs public outs occ D Hop).
    destruct (et_simplify t); [|reflexivity].
    rewrite (assumptions_simplified fuel public _ Hcl). unfold tvalid. apply simp_theory_sound. }
  rewrite E. clear E.
  apply (private_definitions_supported FI (ph_program FI m P) (rp_theory m G) D ins public); auto.
  - apply rp_tau_star_represents. exact Hts.
  - intros Hc. apply ph_private_choice in Hc. apply (proj1 (priv_rank P _ Hpr)). exact Hc.
  - intros p. rewrite ph_program_preds. unfold private_predicates. rewrite filter_In, negb_true_iff.
    destruct (memb_spec pred_dec p public); split; intros [H1 H2]; split; auto; try discriminate. contradiction.
  - intros p Hp. unfold public, ug_public_predicates. apply in_iset_extend. left. exact Hp.
Qed.

(* hypothesis 1 of docs/C02full.md for an accepted program-vs-program task: the two premises
   `tvalid (assumptions_of lft / rgt)` of C02_modulo_private_uniqueness say exactly that the private
   predicates of each side are supported in M (on the right: in M read through the renaming) *)
Theorem accepted_assumptions_supported t L w pbs lft rgt :
  et_specification t = inl L ->
  external_decompose_full fuel t = XOk w pbs ->
  tl t L = Some lft -> tr t = Some rgt ->
  forall FI M,
    (tvalid FI M (assumptions_of lft) <->
     priv_supported M (ph_program FI (task_placeholders t) L) (task_spec_private t)) /\
    (tvalid FI M (assumptions_of rgt) <->
     priv_supported (reindex (task_mapping t) M) (ph_program FI (task_placeholders t) (et_program t)) (task_prog_private t)).
Proof.
  intros Hs Hfull El Er FI M.
  destruct (full_ok_inv fuel t w pbs Hfull) as [[w0 Hv] [_ [[GR HGR] HGL]]].
  destruct (HGL L Hs) as [GL HGL'].
  destruct (validate_conditions _ _ t w0 Hv) as [_ [Hpr _]].
  unfold c_no_private_recursion in Hpr. rewrite Hs in Hpr. apply andb_true_iff in Hpr.
  destruct Hpr as [HpR HpL]. apply negb_true_iff in HpR, HpL.
  unfold task_left in El. destruct (translate t (task_placeholders t) L) as [thl|] eqn:Etl; [|discriminate].
  injection El as <-.
  unfold task_right in Er. destruct (translate t (task_placeholders t) (et_program t)) as [thr|] eqn:Etr; [|discriminate].
  injection Er as <-.
  split.
  - unfold task_spec_private in *. rewrite Hs in *.
    apply (translated_assumptions_supported t L GL thl HGL' Etl HpL).
  - assert (E : assumptions_of (map (rename_predicates_annot (task_mapping t))
                                  (control_translate (ug_public_predicates (et_user_guide t)) thr))
                = map (rename_predicates (task_mapping t))
                      (assumptions_of (control_translate (ug_public_predicates (et_user_guide t)) thr))).
    { unfold assumptions_of. generalize (control_translate (ug_public_predicates (et_user_guide t)) thr).
      intros l. induction l as [|a l IH]; cbn; [reflexivity|]. destruct (an_role a); cbn; rewrite IH; reflexivity. }
    rewrite E, tvalid_rename.
    apply (translated_assumptions_supported t (et_program t) GR thr HGR Etr HpR).
Qed.
End TaskLevel.
