(* C14 for the stand-alone entry points, character level (audit finding B5): the lexical step that
   Proofs/AspNodesOk.node_roundtrip_text_partial takes as a hypothesis is proved here for every node of
   every kind whose identifiers are in the lexical classes of the grammar and that is outside the
   recorded classes F7 / F7d ([node_known_class n = None]):

     lex_node_display : wf_node n -> node_known_class n = None ->
                        lex_node (display_node n) = Some (print_node n)

   How: the per-node lemmas of Proofs/AspLex.v (term_lexable ... rule_lexable) are stated for a printed
   node FOLLOWED by a separator token; a stand-alone node is followed by the end of the text.  The
   invariant [lexable] looks one token ahead only, so the final separator can be dropped again
   ([lexable_drop_dot]) unless the last token is the symbol `not` (class F7d: at the end of the text
   `negation = "not" ~ &(WHITESPACE | EOI)` fires) -- a prefix minus cannot be last.  Display of a
   single Rule is the program text without the newline after the final "." ([lexable_Lex_dot]).
   A node's text does not begin with layout, except for a constraint (" :- ..."), where the first
   non-layout character is ":", so [lex_node] is [lex]. *)
From Coq Require Import List Ascii String ZArith NArith Bool Lia.
From Anthem Require Import Base.Fresh Syntax.Asp Model.AspTableTypes Gen.TablesAsp Model.AspPrint Model.AspParse
  Model.AspNodes Proofs.AspRoundTrip Proofs.AspLex Proofs.AspNodesOk.
Import ListNotations.
Open Scope list_scope.
Open Scope string_scope.

(* every symbol matches  _?[a-z][A-Za-z0-9_]*  and every variable  [A-Z][A-Za-z0-9]*  *)
Definition wf_node (n : node) : Prop :=
  match n with
  | NTerm t => wf_term t
  | NAtom a => wf_atom a
  | NLiteral l => wf_atom (latom l)
  | NComparison c => wf_term (clhs c) /\ wf_term (crhs c)
  | NAtomicFormula b => wf_bformula b
  | NHead h => wf_head h
  | NBody b => Forall wf_bformula b
  | NRule r => wf_rule r
  end.

Lemma kind_rule_dec k : {k = KRule} + {k <> KRule}.
Proof. destruct k; first [left; reflexivity | right; discriminate]. Qed.

(* ================================================================ A. dropping the final separator *)

Lemma ends_with_not_cons t l : l <> [] -> ends_with_not (t :: l) = ends_with_not l.
Proof.
  intros NE. unfold ends_with_not. cbn [rev].
  destruct (rev l) as [|x xs] eqn:E.
  - exfalso. apply NE. rewrite <- (rev_involutive l), E. reflexivity.
  - reflexivity.
Qed.

Lemma lexable_drop_dot ts : forall o, lexable o (ts ++ [TkDot]) -> ends_with_not ts = false -> lexable o ts.
Proof.
  induction ts as [|t rest IH]; intros o H E; [exact I|].
  cbn [app lexable] in H. destruct H as [HT HR]. cbn [lexable].
  destruct rest as [|t' r].
  - split; [|exact I]. cbn [app hd_error] in *.
    destruct t; cbn [tok_ok next_sep] in *; try tauto.
    + (* TkSym *) destruct HT as [W [_ _]]. split; [exact W|]. split; [exact I|].
      intros ->. unfold ends_with_not in E. cbn in E. discriminate.
  - split.
    + exact HT.
    + apply IH; [exact HR|]. rewrite ends_with_not_cons in E by discriminate. exact E.
Qed.

Lemma kw_clash_snoc ts k : starts_with_space k = false -> kw_clash (ts ++ [k]) = kw_clash ts.
Proof.
  intros K. induction ts as [|t rest IH]; [reflexivity|].
  destruct rest as [|t' r].
  - cbn. rewrite K, andb_false_r. reflexivity.
  - cbn [app kw_clash] in *. rewrite IH. reflexivity.
Qed.

Lemma lexable_dot_end : lexable false [TkDot].
Proof. cbn. auto. Qed.

(* from the "followed by a separator" form of Proofs/AspLex.v to the stand-alone form *)
Lemma standalone_lexable o ts :
  (kw_clash (ts ++ [TkDot]) = false -> lexable o (ts ++ [TkDot])) ->
  kw_clash ts = false -> ends_with_not ts = false -> lexable o ts.
Proof.
  intros H K E. apply lexable_drop_dot; [|exact E]. apply H.
  rewrite kw_clash_snoc by reflexivity. exact K.
Qed.

(* ================================================================ B. a Rule: no newline after the final "." *)

Lemma sep_head_chars_gen k X : sep_token k = true ->
  head_is is_symchar (render_token k ++ X) = false /\ head_is is_digit (render_token k ++ X) = false
  /\ head_is is_alnum (render_token k ++ X) = false.
Proof. destruct k as [| | | | | |[]| | | | |[]| | | | | |]; cbn; intros; try discriminate; auto. Qed.

(* [tail_str rest] = the text of [rest ++ [TkDot]] without the final newline *)
Definition tail_str (rest : list token) : string := render rest ++ ".".

Lemma tail_str_cons k r : tail_str (k :: r) = render_token k ++ tail_str r.
Proof. unfold tail_str. rewrite render_cons, string_app_assoc. reflexivity. Qed.

Lemma next_sep_chars_dot rest : next_sep (hd_error (rest ++ [TkDot])) ->
  head_is is_symchar (tail_str rest) = false /\ head_is is_digit (tail_str rest) = false
  /\ head_is is_alnum (tail_str rest) = false.
Proof.
  destruct rest as [|k r]; cbn [app hd_error next_sep]; [cbn; auto|].
  rewrite tail_str_cons. apply sep_head_chars_gen.
Qed.

Lemma next_sep_prefix_dot rest : next_sep (hd_error (rest ++ [TkDot])) ->
  prefix "imum" (tail_str rest) = false /\ prefix "remum" (tail_str rest) = false.
Proof.
  destruct rest as [|k r]; cbn [app hd_error next_sep]; [cbn; auto|].
  rewrite tail_str_cons.
  destruct k as [| | | | | |[]| | | | |[]| | | | | |]; cbn; intros; try discriminate; auto.
Qed.

Lemma not_followed_dot rest :
  match hd_error (rest ++ [TkDot]) with Some k => starts_with_space k = false | None => False end ->
  next_sep (hd_error (rest ++ [TkDot])) -> at_ws_or_eoi (tail_str rest) = false.
Proof.
  destruct rest as [|k r]; cbn [app hd_error next_sep]; [reflexivity|].
  rewrite tail_str_cons.
  destruct k as [| | | | | |[]| | | | |[]| | | | | |]; cbn; intros; try discriminate; auto.
Qed.

Lemma Lex_neg_dot rest toks :
  match hd_error (rest ++ [TkDot]) with
  | Some (TkNum z) => (z <= 0)%Z
  | Some (TkSym s) => wf_symbol s = true
  | Some (TkVar s) => wf_variable s = true
  | Some (TkInf | TkSup | TkNeg | TkLP) => True
  | _ => False
  end ->
  Lex true (tail_str rest) toks -> Lex true ("-" ++ tail_str rest) (TkNeg :: toks).
Proof.
  intros H HL.
  assert (E : exists c2 r2, tail_str rest = String c2 r2 /\ is_nonzero_digit c2 = false).
  { destruct rest as [|k r]; cbn [app hd_error] in H; [contradiction|]. rewrite tail_str_cons.
    destruct k; try contradiction.
    - destruct (z_str_head_nonpos z H) as [c [r' [E N]]]. cbn [render_token]. rewrite E. cbn. eauto.
    - destruct (wf_symbol_head s H) as [c [r' [E [N _]]]]. cbn [render_token]. rewrite E. cbn. eauto.
    - destruct (wf_variable_head s H) as [c [r' [E N]]]. cbn [render_token]. rewrite E. cbn. eauto.
    - cbn. eauto.
    - cbn. eauto.
    - cbn. eauto.
    - cbn. eauto. }
  destruct E as [c2 [r2 [E N]]]. rewrite E in *.
  cbn [append]. eapply Lex_tok with (r' := String c2 r2); [reflexivity|reflexivity| |lia|exact HL].
  rewrite lex_token_minus_opnd, N. reflexivity.
Qed.

(* the analogue of AspLex.lexable_Lex for a token list that ends with the final "." of a rule, rendered
   without the newline *)
Theorem lexable_Lex_dot toks : forall o, lexable o (toks ++ [TkDot]) ->
  Lex o (tail_str toks) (toks ++ [TkDot]).
Proof.
  induction toks as [|t rest IH]; intros o H.
  { unfold tail_str. cbn. eapply Lex_tok; [reflexivity|reflexivity|reflexivity|cbn; lia|constructor]. }
  cbn [app lexable] in H. destruct H as [HT HR]. specialize (IH _ HR). rewrite tail_str_cons.
  cbn [app].
  destruct t; cbn [tok_ok] in HT; cbn [render_token opnd_after] in *.
  - (* TkNum *) destruct HT as [Ho HS]. apply Lex_num; [exact Ho|apply next_sep_chars_dot, HS|exact IH].
  - (* TkSym *) destruct HT as [W [HS HN]]. apply Lex_sym; [exact W|apply next_sep_chars_dot, HS| |exact IH].
    intros E. apply not_followed_dot; [exact (HN E)|exact HS].
  - (* TkVar *) destruct HT as [W HS]. apply Lex_var; [exact W|apply next_sep_chars_dot, HS|exact IH].
  - (* TkInf *) destruct (next_sep_prefix_dot rest HT) as [P _].
    change ("#inf" ++ tail_str rest) with (String "#" ("inf" ++ tail_str rest)).
    eapply Lex_tok with (r' := tail_str rest); [reflexivity|reflexivity| |cbn; lia|exact IH].
    apply (lex_token_inf o _ P).
  - (* TkSup *) destruct (next_sep_prefix_dot rest HT) as [_ P].
    change ("#sup" ++ tail_str rest) with (String "#" ("sup" ++ tail_str rest)).
    eapply Lex_tok with (r' := tail_str rest); [reflexivity|reflexivity| |cbn; lia|exact IH].
    apply (lex_token_sup o _ P).
  - (* TkNeg *) destruct HT as [-> HN]. apply Lex_neg_dot; assumption.
  - (* TkBin *) destruct o0; cbn [render_binop append].
    + lex_sp. lex_one. lex_sp. exact IH.
    + subst o. lex_sp. lex_one. lex_sp. exact IH.
    + lex_sp. lex_one. lex_sp. exact IH.
    + lex_sp. lex_one. lex_sp. exact IH.
    + lex_sp. lex_one. lex_sp. exact IH.
    + lex_one. exact IH.
  - lex_one. exact IH.
  - lex_one. exact IH.
  - lex_one. lex_sp. exact IH.
  - contradiction.
  - destruct r; cbn [render_rel append]; lex_sp; lex_one; lex_sp; exact IH.
  - (* TkNot *) lex_one. lex_sp. exact IH.
  - contradiction.
  - lex_one. exact IH.
  - lex_one. exact IH.
  - lex_sp. lex_one. lex_sp. exact IH.
  - (* TkDot *) lex_one. lex_sp. exact IH.
Qed.

Corollary lexable_lex_dot toks : lexable true (toks ++ [TkDot]) ->
  lex (tail_str toks) = Some (toks ++ [TkDot])%list.
Proof. intros H. unfold lex. apply Lex_adequate; [apply lexable_Lex_dot; exact H|lia]. Qed.

(* ================================================================ C. a node's text does not begin with layout *)

Lemma z_str_head z : exists c r, z_str z = String c r /\ is_ws c = false /\ (c =? "%")%char = false.
Proof.
  destruct (Z.ltb_spec z 0) as [N|P].
  - rewrite z_str_neg by exact N. cbn. eexists _, _. split; [reflexivity|]. split; reflexivity.
  - destruct (Z.eq_dec z 0) as [->|NZ].
    + exists "0"%char, "". repeat split.
    + rewrite z_str_nonneg by exact P.
      destruct (nat_str_pos (Z.to_N z)) as [c [r [E Hc]]]; [lia|].
      destruct (char_classes c) as [_ [_ [NZD [DG _]]]]. destruct (NZD Hc) as [Hd _].
      destruct (DG Hd) as [_ [_ [_ [_ [Hw [Hp _]]]]]].
      exists c, r. auto.
Qed.

Lemma wf_symbol_head_layout s : wf_symbol s = true ->
  exists c r, s = String c r /\ is_ws c = false /\ (c =? "%")%char = false.
Proof.
  destruct s as [|c r]; [discriminate|]. intros W. exists c, r. split; [reflexivity|].
  unfold wf_symbol in W. apply andb_true_iff in W. destruct W as [W _].
  apply orb_true_iff in W. destruct W as [W|W].
  - destruct (char_classes c) as [L _]. destruct (L W) as [_ [_ [_ [_ [Hw [Hp _]]]]]]. auto.
  - apply andb_true_iff in W. destruct W as [W _]. apply Ascii.eqb_eq in W. subst c. split; reflexivity.
Qed.

Lemma wf_variable_head_layout s : wf_variable s = true ->
  exists c r, s = String c r /\ is_ws c = false /\ (c =? "%")%char = false.
Proof.
  destruct s as [|c r]; [discriminate|]. intros W. exists c, r. split; [reflexivity|].
  unfold wf_variable in W. apply andb_true_iff in W. destruct W as [W _].
  destruct (char_classes c) as [_ [U _]]. destruct (U W) as [_ [_ [_ [_ [Hw [Hp _]]]]]]. auto.
Qed.

Lemma leading_skip_token o k nxt X : tok_ok o k nxt -> starts_with_space k = false ->
  leading_skip (render_token k ++ X) = false.
Proof.
  intros T S.
  destruct k; cbn [tok_ok] in T; cbn [render_token]; try reflexivity; try discriminate; try contradiction.
  - destruct (z_str_head z) as [c [r [E [W P]]]]. rewrite E. cbn. rewrite W, P. reflexivity.
  - destruct T as [Ws _]. destruct (wf_symbol_head_layout s Ws) as [c [r [E [W P]]]]. rewrite E. cbn.
    rewrite W, P. reflexivity.
  - destruct T as [Ws _]. destruct (wf_variable_head_layout s Ws) as [c [r [E [W P]]]]. rewrite E. cbn.
    rewrite W, P. reflexivity.
  - destruct o0; try discriminate. reflexivity.
Qed.

Definition no_lead (ts : list token) : Prop :=
  match ts with [] => True | k :: _ => starts_with_space k = false end.

Lemma leading_skip_lexable o ts : lexable o ts -> no_lead ts -> leading_skip (render ts) = false.
Proof.
  destruct ts as [|k r]; [reflexivity|]. cbn [lexable no_lead]. intros [T _] S. rewrite render_cons.
  eapply leading_skip_token; eassumption.
Qed.

Lemma no_lead_paren w ts X : no_lead ts -> ts <> [] -> no_lead (paren w ts ++ X).
Proof. destruct w; cbn [paren]; [intros; reflexivity|]. destruct ts; [congruence|]. cbn. auto. Qed.

Lemma paren_app_nonempty w ts X : ts <> [] -> (paren w ts ++ X)%list <> [].
Proof. destruct w; cbn [paren]; [discriminate|]. destruct ts; [congruence|discriminate]. Qed.

Lemma print_term_no_lead t : print_term t <> [] /\ no_lead (print_term t).
Proof.
  induction t as [p|x|[] c IH|o l [NEl IHl] r _].
  - split; [discriminate|]. destruct p; reflexivity.
  - split; [discriminate|reflexivity].
  - rewrite print_term_un. split; [discriminate|reflexivity].
  - cbn [print_term fmt_operator]. split.
    + apply paren_app_nonempty, NEl.
    + apply no_lead_paren; assumption.
Qed.

Lemma no_lead_app a b : a <> [] -> no_lead a -> no_lead (a ++ b).
Proof. destruct a; [congruence|]. cbn. auto. Qed.

Lemma print_atom_no_lead a : no_lead (print_atom a).
Proof. reflexivity. Qed.

Lemma print_literal_no_lead l : no_lead (print_literal l).
Proof. destruct l as [[] a]; reflexivity. Qed.

Lemma print_comparison_no_lead c : no_lead (print_comparison c).
Proof.
  unfold print_comparison. destruct (print_term_no_lead (clhs c)) as [NE NL]. apply no_lead_app; assumption.
Qed.

Lemma print_bformula_no_lead f : no_lead (print_bformula f).
Proof. destruct f; [apply print_literal_no_lead|apply print_comparison_no_lead]. Qed.

Lemma print_bformula_nonempty f : print_bformula f <> [].
Proof.
  destruct f as [[s a]|c]; cbn [print_bformula].
  - unfold print_literal, print_atom. destruct s; discriminate.
  - unfold print_comparison. destruct (print_term (clhs c)); discriminate.
Qed.

Lemma print_body_no_lead b : no_lead (print_body b).
Proof.
  destruct b as [|f fs]; [exact I|]. rewrite print_body_cons.
  apply no_lead_app; [apply print_bformula_nonempty|apply print_bformula_no_lead].
Qed.

Lemma print_head_no_lead h : no_lead (print_head h).
Proof. destruct h; reflexivity. Qed.

Lemma print_node_no_lead n : kind_of n <> KRule -> no_lead (print_node n).
Proof.
  destruct n; cbn [kind_of print_node]; intros K.
  - apply print_term_no_lead.
  - apply print_atom_no_lead.
  - apply print_literal_no_lead.
  - apply print_comparison_no_lead.
  - apply print_bformula_no_lead.
  - apply print_head_no_lead.
  - apply print_body_no_lead.
  - congruence.
Qed.

(* ================================================================ D. the printed node is lexable *)

Lemma node_classes n : node_known_class n = None ->
  kw_clash (print_node n) = false /\ (kind_of n <> KRule -> ends_with_not (print_node n) = false).
Proof.
  unfold node_known_class. destruct (kw_clash (print_node n)); [discriminate|]. intros H. split; [reflexivity|].
  destruct n; cbn [kind_of]; intros K; try congruence;
    destruct (ends_with_not _); try reflexivity; discriminate.
Qed.

Lemma head_lexable h : wf_head h -> kw_clash (print_head h) = false -> ends_with_not (print_head h) = false ->
  lexable true (print_head h).
Proof.
  destruct h as [a|a|]; cbn [wf_head print_head]; intros W K E.
  - apply standalone_lexable; [|exact K|exact E]. intros K'.
    apply atom_lexable; [exact W|reflexivity|exact K'|exact lexable_dot_end].
  - cbn [lexable tok_ok opnd_after]. split; [exact I|].
    apply atom_lexable; [exact W|reflexivity|eapply kw_tail, K|]. cbn. auto.
  - exact I.
Qed.

Lemma node_lexable n : wf_node n -> kind_of n <> KRule -> node_known_class n = None ->
  lexable true (print_node n).
Proof.
  intros W NR C. destruct (node_classes n C) as [K E]. specialize (E NR).
  destruct n; cbn [wf_node print_node kind_of] in *.
  - apply standalone_lexable; [|exact K|exact E]. intros K'.
    apply term_lexable; [exact W|reflexivity|exact K'|exact lexable_dot_end].
  - apply standalone_lexable; [|exact K|exact E]. intros K'.
    apply atom_lexable; [exact W|reflexivity|exact K'|exact lexable_dot_end].
  - apply standalone_lexable; [|exact K|exact E]. intros K'.
    apply literal_lexable; [exact W|reflexivity|exact K'|exact lexable_dot_end].
  - apply standalone_lexable; [|exact K|exact E]. intros K'.
    apply comparison_lexable; [exact W|reflexivity|exact K'|exact lexable_dot_end].
  - apply standalone_lexable; [|exact K|exact E]. intros K'.
    apply bformula_lexable; [exact W|reflexivity|exact K'|exact lexable_dot_end].
  - apply head_lexable; assumption.
  - apply standalone_lexable; [|exact K|exact E]. intros K'.
    apply body_lexable; [exact W|exact K'|exact I].
  - congruence.
Qed.

(* ================================================================ E. the lexical step *)

Definition rule_front (r : rule) : list token :=
  (print_head (rhead r) ++ (if is_falsity (rhead r) || negb (is_nil (rbody r)) then [TkIf] else [])
   ++ print_body (rbody r))%list.

Lemma print_rule_snoc r : print_rule r = (rule_front r ++ [TkDot])%list.
Proof. unfold print_rule, rule_front. rewrite <- !app_assoc. reflexivity. Qed.

Lemma display_rule r : display_node (NRule r) = tail_str (rule_front r).
Proof.
  cbn [display_node]. rewrite print_rule_snoc. rewrite removelast_last. reflexivity.
Qed.

(* the text of a rule begins with layout only for a constraint, and then ":" follows the blank *)
Lemma lex_node_rule r : wf_rule r -> kw_clash (print_rule r) = false ->
  lex_node (tail_str (rule_front r)) = lex (tail_str (rule_front r)).
Proof.
  intros W K.
  assert (L : lexable true (rule_front r ++ [TkDot])).
  { fold (rule_front r) in *. pose proof (rule_lexable r W [] ) as H. rewrite app_nil_r in H.
    rewrite print_rule_snoc in H. fold (rule_front r) in H. apply H; [|exact I].
    rewrite print_rule_snoc in K. exact K. }
  unfold lex_node.
  destruct (leading_skip (tail_str (rule_front r))) eqn:LS; [|reflexivity].
  destruct r as [h b]. unfold rule_front in *. cbn [rhead rbody] in *.
  destruct h as [a|a|].
  - exfalso. cbn [print_head print_atom app] in *. rewrite tail_str_cons in LS.
    cbn [lexable] in L. destruct L as [T _].
    rewrite (leading_skip_token _ _ _ _ T eq_refl) in LS. discriminate.
  - exfalso. cbn in LS. discriminate.
  - cbn [print_head is_falsity orb app] in *. rewrite tail_str_cons. cbn [render_token].
    set (X := tail_str (print_body b)).
    change (" :- " ++ X) with (String " " (String ":" (String "-" (String " " X)))).
    cbn [String.length skip_layout is_ws is_newline Ascii.eqb Bool.eqb orb andb]. reflexivity.
Qed.

Theorem lex_node_display n : wf_node n -> node_known_class n = None ->
  lex_node (display_node n) = Some (print_node n).
Proof.
  intros W C.
  destruct (kind_rule_dec (kind_of n)) as [KR|NR].
  - (* a rule *)
    destruct n; try discriminate. cbn [wf_node print_node] in *.
    destruct (node_classes _ C) as [K _]. cbn [print_node] in K.
    rewrite display_rule, lex_node_rule by assumption.
    rewrite print_rule_snoc. fold (rule_front r). apply lexable_lex_dot.
    pose proof (rule_lexable r W []) as H. rewrite app_nil_r, print_rule_snoc in H.
    apply H; [|exact I]. rewrite <- print_rule_snoc. exact K.
  - pose proof (node_lexable n W NR C) as L.
    assert (D : display_node n = render (print_node n)) by (destruct n; try reflexivity; exfalso; apply NR; reflexivity).
    rewrite D. unfold lex_node.
    rewrite (leading_skip_lexable true _ L (print_node_no_lead n NR)).
    apply lexable_lex, L.
Qed.

(* ================================================================ F. text level, no lexical hypothesis *)

Theorem node_roundtrip_text n : wf_node n -> node_numerals_ok n = true -> node_known_class n = None ->
  parse_node_text (kind_of n) (display_node n) = POk n.
Proof.
  intros W N C. apply node_roundtrip_text_partial; [apply lex_node_display; assumption| |exact N].
  destruct (kind_rule_dec (kind_of n)) as [KR|NR]; [right; exact KR|left].
  assert (D : display_node n = render (print_node n)) by (destruct n; try reflexivity; exfalso; apply NR; reflexivity).
  rewrite D. eapply leading_skip_lexable; [apply node_lexable; eassumption|apply print_node_no_lead, NR].
Qed.
