(* Evaluating [substitute] inside Coq.  The model decides equality of variables with [var_dec],
   which is built on Qed-opaque reflection lemmas (String.eqb_spec, var_eqb_spec) and therefore
   does not reduce under vm_compute.  This file gives a mirror of the model that uses the boolean
   [var_eqb] instead and proves it equal to the model, so that Examples can be checked by
   [rewrite <- substitute_b_eq; vm_compute].  Nothing else depends on it. *)
From Coq Require Import List Ascii String ZArith NArith Bool.
From Anthem Require Import Base.ISet Base.Fresh Syntax.Fol Model.Subst.
Import ListNotations.
Open Scope string_scope.
Open Scope list_scope.

Definition memb_b (x : var) (l : list var) : bool := existsb (var_eqb x) l.
Definition insert_b (l : list var) (x : var) : list var := if memb_b x l then l else l ++ [x].
Definition extend_b (l m : list var) : list var := fold_left insert_b m l.
Fixpoint remove_b (x : var) (l : list var) : list var :=
  match l with [] => [] | y :: ys => if var_eqb x y then ys else y :: remove_b x ys end.

Fixpoint iterm_vars_b (t : iterm) : list var :=
  match t with
  | INum _ | IFun _ => []
  | IVar x => [mkvar x SInteger]
  | IUn _ t => iterm_vars_b t
  | IBin _ l r => extend_b (iterm_vars_b l) (iterm_vars_b r)
  end.
Definition gterm_vars_b (t : gterm) : list var :=
  match t with GInt it => iterm_vars_b it | _ => gterm_vars t end.
Definition aformula_vars_b (a : aformula) : list var :=
  match a with
  | ATrue | AFalse => []
  | AAtom _ ts => fold_left (fun acc x => extend_b acc (gterm_vars_b x)) ts []
  | ACmp t gs => fold_left (fun acc g => extend_b acc (gterm_vars_b (gterm_of g))) gs (gterm_vars_b t)
  end.
Fixpoint free_variables_b (f : formula) : list var :=
  match f with
  | FAtomic a => aformula_vars_b a
  | FNot f => free_variables_b f
  | FBin _ l r => extend_b (free_variables_b l) (free_variables_b r)
  | FQ _ vs f => fold_left (fun acc v => remove_b v acc) vs (free_variables_b f)
  end.
Definition pick_b (v : var) (avoid : list var) : var :=
  match find_fresh_by (List.length avoid) (vname v) (fun c => memb_b (mkvar c (vsort v)) avoid) 1%N with
  | Some (c, _) => mkvar c (vsort v)
  | None => v
  end.
Fixpoint rename_block_b (sub : formula -> var -> gterm -> option formula) (tvs avoid0 : list var)
         (vs : list var) (f : formula) (chosen : list var) : option (formula * list var) :=
  match vs with
  | [] => Some (f, [])
  | v :: vs' =>
      if memb_b v tvs then
        let v' := pick_b v (avoid0 ++ chosen) in
        match sub f v (var_to_gterm v') with
        | None => None
        | Some f1 =>
            match rename_block_b sub tvs avoid0 vs' f1 (chosen ++ [v']) with
            | Some (f', o) => Some (f', v' :: o)
            | None => None
            end
        end
      else
        match rename_block_b sub tvs avoid0 vs' f (chosen ++ [v]) with
        | Some (f', o) => Some (f', v :: o)
        | None => None
        end
  end.
Fixpoint subst_fuel_b (n : nat) (F : formula) (x : var) (t : gterm) : option formula :=
  match n with
  | O => Some F
  | S n' =>
      match F with
      | FAtomic a => option_map FAtomic (asubst a x t)
      | FNot f => option_map FNot (subst_fuel_b n' f x t)
      | FBin c l r =>
          match subst_fuel_b n' l x t, subst_fuel_b n' r x t with
          | Some l', Some r' => Some (FBin c l' r')
          | _, _ => None
          end
      | FQ q vs f =>
          if memb_b x vs then Some F
          else
            let tvs := gterm_vars_b t in
            match rename_block_b (subst_fuel_b n') tvs (tvs ++ free_variables_b f ++ [x] ++ vs) vs f [] with
            | None => None
            | Some (f', vs') =>
                match subst_fuel_b n' f' x t with
                | Some f'' => Some (quantify f'' q vs')
                | None => None
                end
            end
      end
  end.
Definition substitute_b (F : formula) (x : var) (t : gterm) : option formula :=
  subst_fuel_b (fsize F) F x t.

(* ---------- the mirror is the model ---------- *)
Lemma memb_b_eq x l : memb var_dec x l = memb_b x l.
Proof.
  unfold memb_b. destruct (memb_spec var_dec x l) as [H|H]; symmetry.
  - apply existsb_exists. exists x; split; auto. destruct (var_eqb_spec x x); congruence.
  - destruct (existsb (var_eqb x) l) eqn:E; auto. apply existsb_exists in E.
    destruct E as [y [Hy E]]. destruct (var_eqb_spec x y); congruence.
Qed.
Lemma insert_b_eq l x : iset_insert var_dec l x = insert_b l x.
Proof. unfold iset_insert, insert_b. rewrite memb_b_eq. reflexivity. Qed.
Lemma extend_b_eq m : forall l, iset_extend var_dec l m = extend_b l m.
Proof.
  unfold iset_extend, extend_b. induction m as [|x m IH]; intros l; cbn; auto.
  rewrite insert_b_eq. apply IH.
Qed.
Lemma remove_b_eq x l : iset_remove var_dec x l = remove_b x l.
Proof.
  induction l as [|y l IH]; cbn; auto.
  destruct (var_dec x y), (var_eqb_spec x y); congruence.
Qed.
Lemma iterm_vars_b_eq t : iterm_vars t = iterm_vars_b t.
Proof. induction t; cbn; auto. rewrite extend_b_eq. congruence. Qed.
Lemma gterm_vars_b_eq t : gterm_vars t = gterm_vars_b t.
Proof. destruct t; cbn; auto. apply iterm_vars_b_eq. Qed.
Lemma fold_left_ext {A B} (f g : A -> B -> A) l : (forall a b, f a b = g a b) ->
  forall a, fold_left f l a = fold_left g l a.
Proof. intros H. induction l as [|b l IH]; intros a; cbn; auto. rewrite H. apply IH. Qed.
Lemma aformula_vars_b_eq a : aformula_vars a = aformula_vars_b a.
Proof.
  destruct a as [| |p ts|t gs]; cbn; auto; unfold extend_all.
  - apply fold_left_ext. intros acc g. rewrite extend_b_eq, gterm_vars_b_eq. reflexivity.
  - rewrite gterm_vars_b_eq. apply fold_left_ext. intros acc g.
    rewrite extend_b_eq, gterm_vars_b_eq. reflexivity.
Qed.
Lemma free_variables_b_eq f : free_variables f = free_variables_b f.
Proof.
  induction f as [a|f IH|c l IHl r IHr|q vs f IH]; cbn; auto.
  - apply aformula_vars_b_eq.
  - rewrite extend_b_eq. congruence.
  - rewrite IH. apply fold_left_ext. intros acc v. apply remove_b_eq.
Qed.
Lemma find_fresh_by_ext fuel v (bad1 bad2 : string -> bool) : (forall c, bad1 c = bad2 c) ->
  forall m, find_fresh_by fuel v bad1 m = find_fresh_by fuel v bad2 m.
Proof.
  intros H. induction fuel as [|fuel IH]; intros m; cbn; rewrite H; auto.
  destruct (bad2 _); auto.
Qed.
Lemma pick_b_eq v avoid : pick v avoid = pick_b v avoid.
Proof.
  unfold pick, pick_b.
  rewrite (find_fresh_by_ext _ _ _ (fun c => memb_b (mkvar c (vsort v)) avoid)); auto.
  intros c. apply memb_b_eq.
Qed.
Lemma rename_block_b_eq sub1 sub2 tvs avoid0 : (forall f v t, sub1 f v t = sub2 f v t) ->
  forall vs f ch, rename_block sub1 tvs avoid0 vs f ch = rename_block_b sub2 tvs avoid0 vs f ch.
Proof.
  intros H. induction vs as [|v vs IH]; intros f ch; cbn [rename_block rename_block_b]; auto.
  rewrite memb_b_eq, pick_b_eq, H. destruct (memb_b v tvs).
  - destruct (sub2 f v _); auto. rewrite IH. reflexivity.
  - rewrite IH. reflexivity.
Qed.
Lemma subst_fuel_b_eq n : forall F x t, subst_fuel n F x t = subst_fuel_b n F x t.
Proof.
  induction n as [|n IH]; intros F x t; cbn [subst_fuel subst_fuel_b]; auto.
  destruct F as [a|f|c l r|q vs f]; auto.
  - rewrite IH. reflexivity.
  - rewrite !IH. reflexivity.
  - rewrite memb_b_eq, gterm_vars_b_eq, free_variables_b_eq.
    rewrite (rename_block_b_eq (subst_fuel n) (subst_fuel_b n)) by (intros; apply IH).
    destruct (memb_b x vs); auto.
    destruct (rename_block_b _ _ _ vs f []) as [[f' vs']|]; auto. rewrite IH. reflexivity.
Qed.
Theorem substitute_b_eq F x t : substitute_b F x t = substitute F x t.
Proof. unfold substitute, substitute_b. symmetry. apply subst_fuel_b_eq. Qed.
