(* C19_break: a formula and the list of formulas obtained by splitting its equivalences under the
   universal prefix are satisfied by exactly the same interpretations - pointwise (every
   assignment), hence also as problem formulas (cvalid).  Classical and HT versions. *)
From Coq Require Import List Ascii String ZArith Bool.
From Anthem Require Import Syntax.Fol Sem.Domain Sem.Sat Model.Break.
Import ListNotations.
Open Scope list_scope.

Section WithFI.
Variable FI : fint.

Lemma csat_quantify I q vs f e :
  csat FI I e (quantify f q vs) <-> qsat q vs (fun e' => csat FI I e' f) e.
Proof. destruct vs as [|v vs]; cbn; tauto. Qed.
Lemma hsat_quantify H T q vs f e :
  hsat FI H T e (quantify f q vs) <-> qsat q vs (fun e' => hsat FI H T e' f) e.
Proof. destruct vs as [|v vs]; cbn; tauto. Qed.

(* a universal block distributes over a (finite) conjunction *)
Lemma qsat_forall_all {A} (L : list A) (P : env -> A -> Prop) vs : forall e,
  qsat QForall vs (fun e' => forall h, In h L -> P e' h) e <->
  (forall h, In h L -> qsat QForall vs (fun e' => P e' h) e).
Proof.
  induction vs as [|v vs IH]; intros e; cbn; [tauto|].
  split.
  - intros Hq h Hh d Hd. apply (IH (upd e v d)); auto.
  - intros Hq d Hd. apply IH. intros h Hh. apply Hq; auto.
Qed.

Theorem break_csat I : forall F e,
  csat FI I e F <-> (forall G, In G (break_equivalences_formula F) -> csat FI I e G).
Proof.
  induction F as [a|f IH|c l IHl r IHr|q vs f IH]; intros e.
  - cbn [break_equivalences_formula]. split; [intros Hs G [<-|[]]; exact Hs|intros Hs; apply Hs; left; reflexivity].
  - cbn [break_equivalences_formula]. split; [intros Hs G [<-|[]]; exact Hs|intros Hs; apply Hs; left; reflexivity].
  - destruct c;
      try (cbn [break_equivalences_formula]; split; [intros Hs G [<-|[]]; exact Hs|intros Hs; apply Hs; left; reflexivity]).
    cbn [break_equivalences_formula]. split.
    + intros Hs G [<-|[<-|[]]]; cbn in *; tauto.
    + intros Hs. pose proof (Hs _ (or_introl eq_refl)) as H1.
      pose proof (Hs _ (or_intror (or_introl eq_refl))) as H2. cbn in *; tauto.
  - destruct q;
      [|cbn [break_equivalences_formula]; split; [intros Hs G [<-|[]]; exact Hs|intros Hs; apply Hs; left; reflexivity]].
    cbn [break_equivalences_formula csat].
    rewrite (qsat_iff QForall vs _ (fun e' => forall h, In h (break_equivalences_formula f) -> csat FI I e' h) e IH).
    rewrite qsat_forall_all. split.
    + intros Hs G HG. apply in_map_iff in HG. destruct HG as [h [<- Hh]].
      apply csat_quantify. apply Hs, Hh.
    + intros Hs h Hh. apply csat_quantify. apply Hs. apply in_map_iff. exists h; auto.
Qed.

Theorem break_hsat H T : forall F e,
  hsat FI H T e F <-> (forall G, In G (break_equivalences_formula F) -> hsat FI H T e G).
Proof.
  induction F as [a|f IH|c l IHl r IHr|q vs f IH]; intros e.
  - cbn [break_equivalences_formula]. split; [intros Hs G [<-|[]]; exact Hs|intros Hs; apply Hs; left; reflexivity].
  - cbn [break_equivalences_formula]. split; [intros Hs G [<-|[]]; exact Hs|intros Hs; apply Hs; left; reflexivity].
  - destruct c;
      try (cbn [break_equivalences_formula]; split; [intros Hs G [<-|[]]; exact Hs|intros Hs; apply Hs; left; reflexivity]).
    cbn [break_equivalences_formula]. split.
    + intros Hs G [<-|[<-|[]]]; cbn in *; tauto.
    + intros Hs. pose proof (Hs _ (or_introl eq_refl)) as H1.
      pose proof (Hs _ (or_intror (or_introl eq_refl))) as H2. cbn in *; tauto.
  - destruct q;
      [|cbn [break_equivalences_formula]; split; [intros Hs G [<-|[]]; exact Hs|intros Hs; apply Hs; left; reflexivity]].
    cbn [break_equivalences_formula hsat].
    rewrite (qsat_iff QForall vs _ (fun e' => forall h, In h (break_equivalences_formula f) -> hsat FI H T e' h) e IH).
    rewrite qsat_forall_all. split.
    + intros Hs G HG. apply in_map_iff in HG. destruct HG as [h [<- Hh]].
      apply hsat_quantify. apply Hs, Hh.
    + intros Hs h Hh. apply hsat_quantify. apply Hs. apply in_map_iff. exists h; auto.
Qed.

(* as problem formulas *)
Corollary break_cvalid I F :
  cvalid FI I F <-> (forall G, In G (break_equivalences_formula F) -> cvalid FI I G).
Proof.
  unfold cvalid. split.
  - intros Hv G HG e. apply (break_csat I F e); auto.
  - intros Hv e. apply break_csat. intros G HG. apply Hv, HG.
Qed.
Corollary break_hvalid H T F :
  hvalid FI H T F <-> (forall G, In G (break_equivalences_formula F) -> hvalid FI H T G).
Proof.
  unfold hvalid. split.
  - intros Hv G HG e. apply (break_hsat H T F e); auto.
  - intros Hv e. apply break_hsat. intros G HG. apply Hv, HG.
Qed.

(* theories *)
Corollary break_theory_cvalid I (t : theory) :
  (forall F, In F t -> cvalid FI I F) <->
  (forall G, In G (break_equivalences_theory t) -> cvalid FI I G).
Proof.
  unfold break_equivalences_theory. split.
  - intros Hv G HG. apply in_flat_map in HG. destruct HG as [F [HF HG]].
    apply (break_cvalid I F); auto.
  - intros Hv F HF. apply break_cvalid. intros G HG. apply Hv. apply in_flat_map. exists F; auto.
Qed.
End WithFI.
