(* C19 for external equivalence with every component real (Model/ExternalFull.v): the two
   hypotheses of C19Ext.external_flags_partial discharged.
     simp_sound : C07 (Proofs/SimplFull.v through C02Full.simp_classic_total_sound)
     simp_roles : Proofs/HeadPredPipeline.v (role stability on completed tau* theories) *)
From Coq Require Import List Ascii String ZArith NArith Bool Lia.
From Anthem Require Import Base.ISet Syntax.Fol Syntax.Asp Sem.Domain Sem.Sat
  Model.Problem Model.Outline Model.Strong Model.External Model.Tightness Model.PrivRec Model.TauStar
  Model.Completion Model.ExternalFull
  Proofs.DecomposeOk Proofs.StrongOk Proofs.ExternalOk Proofs.C02Full
  Proofs.HeadPred Proofs.HeadPredPipeline Proofs.C19Ext.
Import ListNotations.
Open Scope string_scope.
Open Scope list_scope.

Section Full.
Variable fuel : nat.

Lemma simp_total_cvalid FI M f : cvalid FI M (simp_classic_total fuel f) <-> cvalid FI M f.
Proof. unfold cvalid. split; intros H e; apply (simp_classic_total_sound fuel f FI M e), H. Qed.

(* role stability for the components of the full model (tau_star_total is [] where tau* panics) *)
Lemma simp_total_roles ins outs occ p m D :
  completion (rp_theory m (tau_star_total p)) ins = Some D ->
  forall f, In f (D ++ missing_output_definitions outs occ D) -> head_predicate (simp_classic_total fuel f) = head_predicate f.
Proof.
  intros HD f Hf. apply simp_classic_total_head. apply in_app_or in Hf. destruct Hf as [Hf|Hf].
  - unfold tau_star_total in HD. destruct (TauStar.tau_star p) as [G|] eqn:HG.
    + eapply translated_classified; eauto.
    + eapply completion_all_classified; eauto. intros g [].
  - eapply missing_outputs_classified; eauto.
Qed.

Notation validated_of := (task_validated tau_star_total completion (simp_classic_total fuel)).

(* all flags at once: two accepted tasks stating the same claim are refuted by the same
   interpretations, whatever --no-simplify / --no-eq-break / --task-decomposition say *)
Theorem C19_external_proof t t' w pbs w' pbs' :
  same_claim t t' ->
  external_decompose_full fuel t = XOk w pbs -> external_decompose_full fuel t' = XOk w' pbs' ->
  (forall vt, validated_of t = Some vt -> validated_no_clash vt) ->
  (forall vt, validated_of t' = Some vt -> validated_no_clash vt) ->
  forall FI M, refutes_some FI M pbs <-> refutes_some FI M pbs'.
Proof.
  intros Hs Hd Hd'. destruct (full_ok_inv fuel t w pbs Hd) as [_ [Ht _]].
  destruct (full_ok_inv fuel t' w' pbs' Hd') as [_ [Ht' _]].
  unfold external_decompose_total in Ht, Ht'.
  exact (external_flags_partial is_tight has_private_recursion tau_star_total completion (simp_classic_total fuel)
           simp_total_cvalid simp_total_roles t t' w pbs w' pbs' Hs Ht Ht').
Qed.

(* the task with other flags *)
Definition with_flags (t : ext_task) (simplify brk : bool) (dec : decomposition) : ext_task :=
  mkext (et_specification t) (et_program t) (et_user_guide t) (et_proof_outline t) dec (et_direction t)
        (et_repr t) (et_bypass_tightness t) simplify brk.

Lemma with_flags_same_claim t s b d s' b' d' : same_claim (with_flags t s b d) (with_flags t s' b' d').
Proof. repeat split. Qed.

(* the simplify flag alone *)
Corollary C19_external_simplify_proof t b d w pbs w' pbs' :
  external_decompose_full fuel (with_flags t true b d) = XOk w pbs ->
  external_decompose_full fuel (with_flags t false b d) = XOk w' pbs' ->
  (forall vt, validated_of (with_flags t true b d) = Some vt -> validated_no_clash vt) ->
  (forall vt, validated_of (with_flags t false b d) = Some vt -> validated_no_clash vt) ->
  forall FI M, refutes_some FI M pbs <-> refutes_some FI M pbs'.
Proof. apply C19_external_proof, with_flags_same_claim. Qed.

(* all 8 combinations *)
Corollary C19_external_all_proof t s b d s' b' d' w pbs w' pbs' :
  external_decompose_full fuel (with_flags t s b d) = XOk w pbs ->
  external_decompose_full fuel (with_flags t s' b' d') = XOk w' pbs' ->
  (forall vt, validated_of (with_flags t s b d) = Some vt -> validated_no_clash vt) ->
  (forall vt, validated_of (with_flags t s' b' d') = Some vt -> validated_no_clash vt) ->
  forall FI M, refutes_some FI M pbs <-> refutes_some FI M pbs'.
Proof. apply C19_external_proof, with_flags_same_claim. Qed.
End Full.
