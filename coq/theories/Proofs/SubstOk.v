(* C17, formula level: Formula::substitute (Model/Subst.v) never panics on sort-compatible terms,
   has exactly the expected free variables, and satisfies the substitution lemma for classical
   and here-and-there satisfaction over the three-sorted standard domain.  Quantifier blocks may
   repeat variables (a later binding wins: Coincidence.qsat_bind_comm). *)
From Coq Require Import List Ascii String ZArith NArith Bool Lia PeanoNat.
From Anthem Require Import Base.ISet Base.Fresh Syntax.Fol Sem.Domain Sem.Sat Model.Subst
  Proofs.FreeVars Proofs.Coincidence Proofs.SubstTerm.
Import ListNotations.
Open Scope string_scope.
Open Scope list_scope.

Lemma fsize_pos F : 1 <= fsize F.
Proof. destruct F; cbn; lia. Qed.
Lemma fsize_quantify f q vs : fsize (quantify f q vs) <= S (fsize f).
Proof. destruct vs; cbn; lia. Qed.

(* ---------- one step of the recursion, inverted ---------- *)
Lemma subst_atomic_inv n a x t G : subst_fuel (S n) (FAtomic a) x t = Some G ->
  exists a', asubst a x t = Some a' /\ G = FAtomic a'.
Proof. cbn. destruct (asubst a x t) as [a'|]; cbn; [|discriminate]. intros [= <-]; eauto. Qed.
Lemma subst_not_inv n f x t G : subst_fuel (S n) (FNot f) x t = Some G ->
  exists f', subst_fuel n f x t = Some f' /\ G = FNot f'.
Proof.
  cbn [subst_fuel]. destruct (subst_fuel n f x t) as [f'|]; cbn; [|discriminate]. intros [= <-]; eauto.
Qed.
Lemma subst_bin_inv n c l r x t G : subst_fuel (S n) (FBin c l r) x t = Some G ->
  exists l' r', subst_fuel n l x t = Some l' /\ subst_fuel n r x t = Some r' /\ G = FBin c l' r'.
Proof.
  cbn [subst_fuel]. destruct (subst_fuel n l x t) as [l'|]; [|discriminate].
  destruct (subst_fuel n r x t) as [r'|]; [|discriminate]. intros [= <-]; eauto.
Qed.
Lemma subst_q_inv n q vs f x t G : subst_fuel (S n) (FQ q vs f) x t = Some G ->
  (In x vs /\ G = FQ q vs f) \/
  (~ In x vs /\ exists f' vs' f'',
     rename_block (subst_fuel n) (gterm_vars t) (gterm_vars t ++ free_variables f ++ [x] ++ vs) vs f []
       = Some (f', vs') /\
     subst_fuel n f' x t = Some f'' /\ G = quantify f'' q vs').
Proof.
  cbn [subst_fuel]. destruct (memb_spec var_dec x vs) as [Hin|Hnin].
  - intros [= <-]; auto.
  - destruct (rename_block _ _ _ vs f []) as [[f' vs']|] eqn:E1; [|discriminate].
    destruct (subst_fuel n f' x t) as [f''|] eqn:E2; [|discriminate].
    intros [= <-]. right; split; auto. exists f', vs', f''; auto.
Qed.

Lemma in_avoid0 (u : var) (tvs fvs : list var) (x : var) (vs : list var) :
  In u (tvs ++ fvs ++ [x] ++ vs) <-> In u tvs \/ In u fvs \/ u = x \/ In u vs.
Proof. rewrite !in_app_iff. cbn. intuition. Qed.

(* ---------- the renaming loop ---------- *)
Section Loop.
Variable sub : formula -> var -> gterm -> option formula.
Variables tvs avoid0 : list var.

Lemma rb_cons_inv v vs f ch f' o :
  rename_block sub tvs avoid0 (v :: vs) f ch = Some (f', o) ->
  (In v tvs /\ exists f1 o1,
     sub f v (var_to_gterm (pick v (avoid0 ++ ch))) = Some f1 /\
     rename_block sub tvs avoid0 vs f1 (ch ++ [pick v (avoid0 ++ ch)]) = Some (f', o1) /\
     o = pick v (avoid0 ++ ch) :: o1) \/
  (~ In v tvs /\ exists o1,
     rename_block sub tvs avoid0 vs f (ch ++ [v]) = Some (f', o1) /\ o = v :: o1).
Proof.
  cbn [rename_block]. destruct (memb_spec var_dec v tvs) as [Hin|Hnin].
  - destruct (sub f v _) as [f1|] eqn:E1; [|discriminate].
    destruct (rename_block sub tvs avoid0 vs f1 _) as [[f2 o1]|] eqn:E2; [|discriminate].
    intros [= <- <-]. left; split; auto. exists f1, o1; auto.
  - destruct (rename_block sub tvs avoid0 vs f _) as [[f2 o1]|] eqn:E2; [|discriminate].
    intros [= <- <-]. right; split; auto. exists o1; auto.
Qed.

Lemma rb_size (Hs : forall f v t f1, sub f v t = Some f1 -> fsize f1 <= fsize f) :
  forall vs f ch f' o, rename_block sub tvs avoid0 vs f ch = Some (f', o) -> fsize f' <= fsize f.
Proof.
  induction vs as [|v vs IH]; intros f ch f' o EQ.
  - cbn in EQ. inversion EQ; subst. lia.
  - apply rb_cons_inv in EQ. destruct EQ as [[_ [f1 [o1 [E1 [E2 _]]]]]|[_ [o1 [E2 _]]]].
    + apply IH in E2. apply Hs in E1. lia.
    + apply IH in E2. exact E2.
Qed.

Lemma rb_total
  (Ht : forall f v w, vsort w = vsort v -> exists f1, sub f v (var_to_gterm w) = Some f1) :
  forall vs f ch, exists r, rename_block sub tvs avoid0 vs f ch = Some r.
Proof.
  induction vs as [|v vs IH]; intros f ch; cbn [rename_block]; [eauto|].
  destruct (memb var_dec v tvs).
  - destruct (Ht f v (pick v (avoid0 ++ ch)) (pick_sort _ _)) as [f1 ->].
    destruct (IH f1 (ch ++ [pick v (avoid0 ++ ch)])) as [[f' o] ->]. eauto.
  - destruct (IH f (ch ++ [v])) as [[f' o] ->]. eauto.
Qed.

(* shape of the new block: same sorts position by position; every new binder is either an old
   one that the term does not mention, or a fresh name outside avoid0 and the earlier choices *)
Lemma rb_struct :
  forall vs f ch f' o, rename_block sub tvs avoid0 vs f ch = Some (f', o) ->
    Forall2 (fun v w => vsort w = vsort v) vs o /\
    (forall w, In w o -> (In w vs /\ ~ In w tvs) \/ (~ In w avoid0 /\ ~ In w ch)).
Proof.
  induction vs as [|v vs IH]; intros f ch f' o EQ.
  - cbn in EQ. inversion EQ; subst. split; [constructor|intros w []].
  - apply rb_cons_inv in EQ. destruct EQ as [[Hin [f1 [o1 [E1 [E2 ->]]]]]|[Hnin [o1 [E2 ->]]]].
    + set (v' := pick v (avoid0 ++ ch)) in *.
      destruct (IH _ _ _ _ E2) as [S1 S2]. split.
      * constructor; auto. apply pick_sort.
      * intros w [<-|Hw].
        -- right. pose proof (pick_out v (avoid0 ++ ch)) as P. fold v' in P.
           split; intros H; apply P; apply in_or_app; auto.
        -- destruct (S2 w Hw) as [[H1 H2]|[H1 H2]]; [left; split; auto; right; auto|right; split; auto].
           intros H; apply H2; apply in_or_app; auto.
    + destruct (IH _ _ _ _ E2) as [S1 S2]. split.
      * constructor; auto.
      * intros w [<-|Hw]; [left; split; auto; left; auto|].
        destruct (S2 w Hw) as [[H1 H2]|[H1 H2]]; [left; split; auto; right; auto|right; split; auto].
        intros H; apply H2; apply in_or_app; auto.
Qed.

(* free variables of the renamed body, outside the new block *)
Lemma rb_fv sz
  (Hs : forall f v t f1, sub f v t = Some f1 -> fsize f1 <= fsize f)
  (Hfv : forall f v w f1, fsize f <= sz -> vsort w = vsort v -> sub f v (var_to_gterm w) = Some f1 ->
         forall u, In u (free_variables f1) <->
                   (In u (free_variables f) /\ u <> v) \/ (In v (free_variables f) /\ u = w)) :
  forall vs f ch f' o, fsize f <= sz -> rename_block sub tvs avoid0 vs f ch = Some (f', o) ->
    forall u, ~ In u o -> (In u (free_variables f') <-> In u (free_variables f) /\ ~ In u vs).
Proof.
  induction vs as [|v vs IH]; intros f ch f' o SZ EQ u No.
  - cbn in EQ. inversion EQ; subst. cbn. tauto.
  - apply rb_cons_inv in EQ. destruct EQ as [[Hin [f1 [o1 [E1 [E2 ->]]]]]|[Hnin [o1 [E2 ->]]]].
    + set (v' := pick v (avoid0 ++ ch)) in *.
      assert (SZ1 : fsize f1 <= sz) by (apply Hs in E1; lia).
      rewrite (IH _ _ _ _ SZ1 E2 u) by (intros H; apply No; right; exact H).
      rewrite (Hfv f v v' f1 SZ (pick_sort _ _) E1 u).
      assert (u <> v') by (intros ->; apply No; left; reflexivity).
      cbn [In]. split.
      * intros [[[H1 H2]|[_ H1]] H3]; [|contradiction]. split; auto. intros [E|E]; auto.
      * intros [H1 H2]. split; [left; split; auto; intros ->; apply H2; left; reflexivity|].
        intros H3; apply H2; right; exact H3.
    + rewrite (IH _ _ _ _ SZ E2 u) by (intros H; apply No; right; exact H).
      assert (u <> v) by (intros ->; apply No; left; reflexivity).
      cbn [In]. split.
      * intros [H1 H2]; split; auto. intros [E|E]; auto.
      * intros [H1 H2]; split; auto.
Qed.
End Loop.

(* ---------- size, totality ---------- *)
Lemma subst_size n : forall F x t G, subst_fuel n F x t = Some G -> fsize G <= fsize F.
Proof.
  induction n as [|n IH]; intros F x t G E; [cbn in E; inversion E; lia|].
  destruct F as [a|f|c l r|q vs f].
  - apply subst_atomic_inv in E. destruct E as [a' [_ ->]]. cbn; lia.
  - apply subst_not_inv in E. destruct E as [f' [E ->]]. apply IH in E. cbn; lia.
  - apply subst_bin_inv in E. destruct E as [l' [r' [El [Er ->]]]]. apply IH in El, Er. cbn; lia.
  - apply subst_q_inv in E. destruct E as [[_ ->]|[_ [f' [vs' [f'' [E1 [E2 ->]]]]]]]; [lia|].
    apply rb_size in E1; [|exact IH]. apply IH in E2.
    pose proof (fsize_quantify f'' q vs'). cbn [fsize]. lia.
Qed.

Theorem subst_total n : forall F x t, sort_ok x t = true -> exists G, subst_fuel n F x t = Some G.
Proof.
  induction n as [|n IH]; intros F x t OK; [cbn; eauto|].
  destruct F as [a|f|c l r|q vs f]; cbn [subst_fuel].
  - destruct (asubst_total a x t OK) as [a' ->]. cbn; eauto.
  - destruct (IH f x t OK) as [f' ->]. cbn; eauto.
  - destruct (IH l x t OK) as [l' ->]. destruct (IH r x t OK) as [r' ->]. eauto.
  - destruct (memb var_dec x vs); [eauto|].
    destruct (rb_total (subst_fuel n) (gterm_vars t) (gterm_vars t ++ free_variables f ++ [x] ++ vs)) with
      (vs := vs) (f := f) (ch := @nil var) as [[f' vs'] ->].
    { intros f0 v w SW. apply IH. apply sort_ok_var; auto. }
    destruct (IH f' x t OK) as [f'' ->]. eauto.
Qed.

(* ---------- free variables of the result ---------- *)
Theorem subst_fv n : forall F x t G, fsize F <= n -> sort_ok x t = true ->
  subst_fuel n F x t = Some G -> forall w,
  In w (free_variables G) <->
  (In w (free_variables F) /\ w <> x) \/ (In x (free_variables F) /\ In w (gterm_vars t)).
Proof.
  induction n as [|n IH]; intros F x t G SZ OK E w; [pose proof (fsize_pos F); lia|].
  destruct F as [a|f|c l r|q vs f]; cbn [fsize] in SZ.
  - apply subst_atomic_inv in E. destruct E as [a' [E ->]]. cbn [free_variables].
    apply asubst_vars; auto.
  - apply subst_not_inv in E. destruct E as [f' [E ->]]. cbn [free_variables].
    apply (IH f x t f'); auto; lia.
  - apply subst_bin_inv in E. destruct E as [l' [r' [El [Er ->]]]].
    rewrite !in_fv_bin.
    rewrite (IH l x t l') by (auto; lia). rewrite (IH r x t r') by (auto; lia). tauto.
  - apply subst_q_inv in E. destruct E as [[Hin ->]|[Hnin [f' [vs' [f'' [E1 [E2 ->]]]]]]].
    + rewrite !in_fv_q. split.
      * intros [H1 H2]. left. repeat split; auto. intros ->; auto.
      * intros [[H _]|[[_ H] _]]; [exact H|contradiction].
    + set (tvs := gterm_vars t) in *.
      set (avoid0 := tvs ++ free_variables f ++ [x] ++ vs) in *.
      destruct (rb_struct _ _ _ _ _ _ _ _ E1) as [_ ST].
      assert (SZ' : fsize f' <= n).
      { apply rb_size in E1; [lia|]. apply subst_size. }
      assert (Hfv : forall f0 v w0 f1, fsize f0 <= n -> vsort w0 = vsort v ->
                subst_fuel n f0 v (var_to_gterm w0) = Some f1 ->
                forall u, In u (free_variables f1) <->
                  (In u (free_variables f0) /\ u <> v) \/ (In v (free_variables f0) /\ u = w0)).
      { intros f0 v w0 f1 S0 SW E0 u.
        rewrite (IH f0 v (var_to_gterm w0) f1 S0 (sort_ok_var _ _ SW) E0 u).
        rewrite gterm_vars_var_to_gterm. cbn [In]. intuition. }
      pose proof (rb_fv (subst_fuel n) tvs avoid0 n (subst_size n) Hfv vs f [] f' vs' ltac:(lia) E1) as RB.
      assert (Xo : ~ In x vs').
      { intros H. destruct (ST _ H) as [[H1 _]|[H1 _]]; [auto|].
        apply H1. apply in_avoid0. auto. }
      assert (To : forall u, In u tvs -> ~ In u vs').
      { intros u Hu H. destruct (ST _ H) as [[_ H1]|[H1 _]]; [auto|].
        apply H1. apply in_avoid0. auto. }
      assert (Fo : forall u, In u (free_variables f) -> ~ In u vs -> ~ In u vs').
      { intros u Hu Nu H. destruct (ST _ H) as [[H1 _]|[H1 _]]; [auto|].
        apply H1. apply in_avoid0. auto. }
      rewrite in_fv_quantify, in_fv_q.
      rewrite (IH f' x t f'' SZ' OK E2 w).
      rewrite (RB x Xo). rewrite in_fv_q. split.
      * intros [[[H1 H2]|[[H1 _] H2]] H3].
        -- left. apply (RB w H3) in H1. tauto.
        -- right. tauto.
      * intros [[[H1 H2] H3]|[[H1 H2] H3]].
        -- pose proof (Fo w H1 H2) as H4. split; auto. left. split; auto. apply (RB w H4). auto.
        -- split; [right; auto|]. apply To; auto.
Qed.

(* ---------- semantics ---------- *)
Section Generic.
Variable FI : fint.
Variable sat : env -> formula -> Prop.
Hypothesis sat_coinc : forall F e1 e2, agree (free_variables F) e1 e2 -> (sat e1 F <-> sat e2 F).
Hypothesis sat_q : forall q vs f e, sat e (FQ q vs f) <-> qsat q vs (fun e' => sat e' f) e.

Lemma sat_ext F : ext (fun e => sat e F).
Proof. intros e1 e2 H. apply sat_coinc, eqenv_agree, H. Qed.
Lemma sat_quantify q vs f e : sat e (quantify f q vs) <-> qsat q vs (fun e' => sat e' f) e.
Proof.
  destruct (quantify_cases f q vs) as [->|[-> ->]]; [apply sat_q|]. cbn; tauto.
Qed.

Section LoopSem.
Variable sub : formula -> var -> gterm -> option formula.
Variables tvs avoid0 : list var.
Variable sz : nat.
Hypothesis Hs : forall f v t f1, sub f v t = Some f1 -> fsize f1 <= fsize f.
Hypothesis Hfv : forall f v w f1, fsize f <= sz -> vsort w = vsort v ->
  sub f v (var_to_gterm w) = Some f1 ->
  forall u, In u (free_variables f1) -> (In u (free_variables f) /\ u <> v) \/ u = w.
Hypothesis Hsem : forall f v w f1 E, fsize f <= sz -> vsort w = vsort v ->
  sub f v (var_to_gterm w) = Some f1 -> (sat E f1 <-> sat (upd E v (getv E w)) f).

(* the new block over the renamed body means the old block over the old body *)
Lemma rb_qsem q : forall vs f ch f' o, fsize f <= sz ->
  rename_block sub tvs avoid0 vs f ch = Some (f', o) ->
  (forall u, In u (free_variables f) -> In u avoid0 \/ In u ch) ->
  (forall u, In u vs -> In u avoid0) ->
  forall E, qsat q o (fun e' => sat e' f') E <-> qsat q vs (fun e' => sat e' f) E.
Proof.
  induction vs as [|v vs IH]; intros f ch f' o SZ EQ INV AV E.
  - cbn in EQ. inversion EQ; subst. tauto.
  - apply rb_cons_inv in EQ. destruct EQ as [[Hin [f1 [o1 [E1 [E2 ->]]]]]|[Hnin [o1 [E2 ->]]]].
    + set (v' := pick v (avoid0 ++ ch)) in *.
      assert (P : ~ In v' (avoid0 ++ ch)) by apply pick_out.
      assert (PS : vsort v' = vsort v) by apply pick_sort.
      assert (Nf : ~ In v' (free_variables f)).
      { intros H. apply P. apply in_or_app. destruct (INV _ H); auto. }
      assert (Nvs : ~ In v' vs).
      { intros H. apply P. apply in_or_app. left. apply AV. right; exact H. }
      assert (Nv : v <> v').
      { intros H. apply P. apply in_or_app. left. apply AV. left. exact H. }
      rewrite !qsat_cons. rewrite PS.
      transitivity (qd q (vsort v) (fun d => qsat q vs (fun e' => sat (upd e' v d) f) E)).
      * apply qd_iff. intros d Sd.
        rewrite (IH f1 (ch ++ [v']) f' o1).
        -- apply (qsat_rel q (fun e1 e2 => getv e1 v' = d /\ forall w, w <> v' -> getv e1 w = getv e2 w)).
           ++ intros u c e1 e2 Hu Sc [R1 R2].
              assert (u <> v') by (intros ->; auto).
              split; [rewrite getv_upd_other; auto|].
              intros w Hw. destruct (var_dec u w) as [<-|NE];
                [rewrite !getv_upd_same; auto|rewrite !getv_upd_other; auto].
           ++ intros e1 e2 [R1 R2]. rewrite (Hsem f v v' f1 e1 SZ PS E1). rewrite R1.
              apply sat_coinc. intros w Hw. destruct (var_dec v w) as [<-|NE].
              ** rewrite !getv_upd_same; auto.
              ** rewrite !getv_upd_other; auto. apply R2. intros ->; auto.
           ++ split; [apply getv_upd_same; rewrite PS; auto|].
              intros w Hw. apply getv_upd_other; auto.
        -- apply Hs in E1. lia.
        -- exact E2.
        -- intros u Hu. apply (Hfv f v v' f1 SZ PS E1) in Hu. destruct Hu as [[Hu _]| ->].
           ++ destruct (INV _ Hu); auto. right; apply in_or_app; auto.
           ++ right; apply in_or_app; right; left; reflexivity.
        -- intros u Hu; apply AV; right; auto.
      * apply (qsat_bind_comm q v (fun e' => sat e' f)). apply sat_ext.
    + rewrite !qsat_cons. apply qd_iff. intros d Sd. apply (IH f (ch ++ [v]) f' o1); auto.
      * intros u Hu. destruct (INV _ Hu); auto. right; apply in_or_app; auto.
      * intros u Hu; apply AV; right; auto.
Qed.
End LoopSem.

(* the quantifier case of the substitution lemma, given the lemma at smaller fuel *)
Lemma fq_sem n
  (IH : forall F x t G e, fsize F <= n -> sort_ok x t = true -> subst_fuel n F x t = Some G ->
        (sat e G <-> sat (upd e x (ev_g FI e t)) F)) :
  forall q vs f x t G e, fsize f <= n -> sort_ok x t = true ->
  subst_fuel (S n) (FQ q vs f) x t = Some G ->
  (sat e G <-> sat (upd e x (ev_g FI e t)) (FQ q vs f)).
Proof.
  intros q vs f x t G e SZ OK E.
  set (d := ev_g FI e t).
  assert (Sd : in_sort (vsort x) d) by (apply sort_ok_in_sort; auto).
  apply subst_q_inv in E. destruct E as [[Hin ->]|[Hnin [f' [vs' [f'' [E1 [E2 ->]]]]]]].
  - apply sat_coinc. intros w Hw. apply in_fv_q in Hw. symmetry. apply getv_upd_other.
    intros <-. tauto.
  - set (tvs := gterm_vars t) in *.
    set (avoid0 := tvs ++ free_variables f ++ [x] ++ vs) in *.
    destruct (rb_struct _ _ _ _ _ _ _ _ E1) as [_ ST].
    assert (SZ' : fsize f' <= n).
    { apply rb_size in E1; [lia|]. apply subst_size. }
    assert (Xo : ~ In x vs').
    { intros H. destruct (ST _ H) as [[H1 _]|[H1 _]]; [auto|].
      apply H1. apply in_avoid0. auto. }
    assert (To : forall u, In u tvs -> ~ In u vs').
    { intros u Hu H. destruct (ST _ H) as [[_ H1]|[H1 _]]; [auto|].
      apply H1. apply in_avoid0. auto. }
    rewrite sat_quantify, sat_q.
    (* 1: the induction hypothesis under the new block; the term keeps its value there *)
    transitivity (qsat q vs' (fun e' => sat (upd e' x d) f') e).
    { apply (qsat_rel q (fun e1 e2 => eqenv e1 e2 /\ agree tvs e1 e)).
      - intros v c e1 e2 Hv Sc [R1 R2]. split; [apply eqenv_upd; auto|].
        intros w Hw. rewrite getv_upd_other; [apply R2; auto|]. intros ->. apply (To w); auto.
      - intros e1 e2 [R1 R2]. rewrite (IH f' x t f'' e1 SZ' OK E2).
        rewrite (ev_g_agree FI e1 e t R2). fold d.
        apply sat_ext. apply eqenv_upd; auto.
      - split; [apply eqenv_refl|intros w _; reflexivity]. }
    (* 2: x is not rebound by the new block *)
    rewrite (qsat_upd_comm q x d (fun e' => sat e' f') vs' (sat_ext f') Xo Sd e).
    (* 3: the loop *)
    apply (rb_qsem (subst_fuel n) tvs avoid0 n (subst_size n)) with (ch := @nil var); auto.
    + intros f0 v w f1 S0 SW E0 u Hu.
      apply (subst_fv n f0 v (var_to_gterm w) f1 S0 (sort_ok_var _ _ SW) E0 u) in Hu.
      rewrite gterm_vars_var_to_gterm in Hu. cbn [In] in Hu. intuition.
    + intros f0 v w f1 E0 S0 SW E0'.
      rewrite (IH f0 v (var_to_gterm w) f1 E0 S0 (sort_ok_var _ _ SW) E0').
      rewrite ev_var_to_gterm. tauto.
    + intros u Hu. left. apply in_avoid0. auto.
    + intros u Hu. apply in_avoid0. auto.
Qed.
End Generic.

Theorem subst_sem FI I n : forall F x t G e, fsize F <= n -> sort_ok x t = true ->
  subst_fuel n F x t = Some G ->
  (csat FI I e G <-> csat FI I (upd e x (ev_g FI e t)) F).
Proof.
  induction n as [|n IH]; intros F x t G e SZ OK E; [pose proof (fsize_pos F); lia|].
  destruct F as [a|f|c l r|q vs f]; cbn [fsize] in SZ.
  - apply subst_atomic_inv in E. destruct E as [a' [E ->]]. cbn [csat]. apply asubst_sem; auto.
  - apply subst_not_inv in E. destruct E as [f' [E ->]]. cbn [csat].
    rewrite (IH f x t f' e) by (auto; lia). tauto.
  - apply subst_bin_inv in E. destruct E as [l' [r' [El [Er ->]]]].
    pose proof (IH l x t l' e ltac:(lia) OK El). pose proof (IH r x t r' e ltac:(lia) OK Er).
    destruct c; cbn [csat]; tauto.
  - apply (fq_sem FI (fun e F => csat FI I e F)) with (n := n); auto; try lia.
    + intros; apply coincidence; auto.
    + intros; cbn [csat]; tauto.
Qed.

Theorem subst_sem_ht FI H T n : forall F x t G e, fsize F <= n -> sort_ok x t = true ->
  subst_fuel n F x t = Some G ->
  (hsat FI H T e G <-> hsat FI H T (upd e x (ev_g FI e t)) F).
Proof.
  induction n as [|n IH]; intros F x t G e SZ OK E; [pose proof (fsize_pos F); lia|].
  destruct F as [a|f|c l r|q vs f]; cbn [fsize] in SZ.
  - apply subst_atomic_inv in E. destruct E as [a' [E ->]]. cbn [hsat]. apply asubst_sem; auto.
  - apply subst_not_inv in E. destruct E as [f' [E ->]]. cbn [hsat].
    rewrite (subst_sem FI T n f x t f' e) by (auto; lia). tauto.
  - apply subst_bin_inv in E. destruct E as [l' [r' [El [Er ->]]]].
    pose proof (IH l x t l' e ltac:(lia) OK El). pose proof (IH r x t r' e ltac:(lia) OK Er).
    pose proof (subst_sem FI T n l x t l' e ltac:(lia) OK El).
    pose proof (subst_sem FI T n r x t r' e ltac:(lia) OK Er).
    destruct c; cbn [hsat]; tauto.
  - apply (fq_sem FI (fun e F => hsat FI H T e F)) with (n := n); auto; try lia.
    + intros; apply coincidence_ht; auto.
    + intros; cbn [hsat]; tauto.
Qed.

(* ---------- statements about [substitute] ---------- *)
Theorem substitute_total F x t : sort_ok x t = true -> exists G, substitute F x t = Some G.
Proof. apply subst_total. Qed.
Theorem substitute_panics_only_on_sort_mismatch F x t :
  substitute F x t = None -> sort_ok x t = false.
Proof.
  intros E. destruct (sort_ok x t) eqn:OK; auto.
  destruct (substitute_total F x t OK) as [G E']. congruence.
Qed.

Theorem substitute_fv F x t G : sort_ok x t = true -> substitute F x t = Some G -> forall w,
  In w (free_variables G) <->
  (In w (free_variables F) /\ w <> x) \/ (In x (free_variables F) /\ In w (gterm_vars t)).
Proof. intros OK E. apply (subst_fv (fsize F) F x t G); auto. Qed.

Theorem substitute_sem F x t G : sort_ok x t = true -> substitute F x t = Some G ->
  forall FI I e, csat FI I e G <-> csat FI I (upd e x (ev_g FI e t)) F.
Proof. intros OK E FI I e. apply (subst_sem FI I (fsize F)); auto. Qed.

Theorem substitute_sem_ht F x t G : sort_ok x t = true -> substitute F x t = Some G ->
  forall FI H T e, hsat FI H T e G <-> hsat FI H T (upd e x (ev_g FI e t)) F.
Proof. intros OK E FI H T e. apply (subst_sem_ht FI H T (fsize F)); auto. Qed.

(* the substituted variable is bound by the outermost block: nothing happens (also without sort_ok) *)
Theorem substitute_bound q vs f x t : In x vs -> substitute (FQ q vs f) x t = Some (FQ q vs f).
Proof.
  intros Hin. unfold substitute. cbn [fsize subst_fuel].
  destruct (memb_spec var_dec x vs); [reflexivity|contradiction].
Qed.

(* same name, other sort: different variable.  Syntactically on quantifier-free material ... *)
Theorem substitute_atomic_absent a x t G :
  ~ In x (aformula_vars a) -> substitute (FAtomic a) x t = Some G -> G = FAtomic a.
Proof.
  intros N E. unfold substitute in E. cbn [fsize] in E.
  apply subst_atomic_inv in E. destruct E as [a' [E ->]]. f_equal. eapply asubst_id; eauto.
Qed.
(* ... and in general: a variable y with x's name and another sort keeps its free occurrences
   and its value *)
Theorem substitute_other_sort F x t G y : sort_ok x t = true -> substitute F x t = Some G ->
  vname y = vname x -> vsort y <> vsort x ->
  (In y (free_variables G) <->
   In y (free_variables F) \/ (In x (free_variables F) /\ In y (gterm_vars t))) /\
  (forall e d, getv (upd e x d) y = getv e y).
Proof.
  intros OK E Hn Hs. assert (NE : y <> x) by (intros ->; auto). split.
  - rewrite (substitute_fv F x t G OK E y). tauto.
  - intros e d. apply getv_upd_other. auto.
Qed.
