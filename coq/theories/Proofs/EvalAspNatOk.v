(* The executable value-set function of Model/EvalAspNat.v is exact: it lists precisely the
   values given by the reference semantics Sem/AspRef.vals. *)
From Coq Require Import List Ascii String ZArith Bool Lia.
From Anthem Require Import Syntax.Fol Syntax.Asp Sem.Domain Sem.AspRef Model.Eval Model.EvalAspNat.
Import ListNotations.
Open Scope list_scope.

Lemma in_nums z l : In z (nums l) <-> In (VNum z) l.
Proof.
  unfold nums. rewrite in_flat_map. split.
  - intros [v [Hv Hz]]. destruct v; cbn in Hz; try contradiction. destruct Hz as [->|[]]. exact Hv.
  - intros H. exists (VNum z). split; [exact H|cbn; auto].
Qed.

Lemma in_zrange k a b : In k (zrange a b) <-> (a <= k <= b)%Z.
Proof.
  unfold zrange. rewrite in_map_iff. split.
  - intros [i [<- Hi]]. apply in_seq in Hi. lia.
  - intros H. exists (Z.to_nat (k - a)). split; [lia|]. apply in_seq. lia.
Qed.

Lemma in_binop_vals o n1 n2 v :
  In v (binop_vals o n1 n2) <->
  match o with
  | AAdd => v = VNum (n1 + n2)
  | ASub => v = VNum (n1 - n2)
  | AMul => v = VNum (n1 * n2)
  | ADiv => exists q m, (n1 = n2 * q + m /\ 0 <= m < n2)%Z /\ v = VNum q
  | AMod => exists q m, (n1 = n2 * q + m /\ 0 <= m < n2)%Z /\ v = VNum m
  | AInterval => exists k, (n1 <= k <= n2)%Z /\ v = VNum k
  end.
Proof.
  destruct o; cbn.
  - split; [intros [<-|[]]; reflexivity|intros ->; auto].
  - split; [intros [<-|[]]; reflexivity|intros ->; auto].
  - split; [intros [<-|[]]; reflexivity|intros ->; auto].
  - destruct (Z.ltb_spec 0 n2) as [Hp|Hp]; cbn.
    + split.
      * intros [<-|[]]. exists (n1 / n2)%Z, (n1 mod n2)%Z. split; [|reflexivity].
        split; [apply Z.div_mod; lia|apply Z.mod_pos_bound; lia].
      * intros [q [m [[E B] ->]]]. left. f_equal. symmetry. apply (Z.div_unique_pos n1 n2 q m); lia.
    + split; [intros []|intros [q [m [[E B] _]]]; lia].
  - destruct (Z.ltb_spec 0 n2) as [Hp|Hp]; cbn.
    + split.
      * intros [<-|[]]. exists (n1 / n2)%Z, (n1 mod n2)%Z. split; [|reflexivity].
        split; [apply Z.div_mod; lia|apply Z.mod_pos_bound; lia].
      * intros [q [m [[E B] ->]]]. left. f_equal. symmetry. apply (Z.mod_unique_pos n1 n2 q m); lia.
    + split; [intros []|intros [q [m [[E B] _]]]; lia].
  - rewrite in_map_iff. split.
    + intros [k [<- Hk]]. apply in_zrange in Hk. eauto.
    + intros [k [Hk ->]]. exists k. split; auto. apply in_zrange; auto.
Qed.

Theorem ref_vals_ok (sg : fassign) t : forall v, In v (ref_vals sg t) <-> vals (alookup sg) t v.
Proof.
  induction t as [p|y|o t IH|o l IHl r IHr]; intros v.
  - cbn. split; [intros [<-|[]]; reflexivity|intros ->; auto].
  - cbn. split; [intros [<-|[]]; reflexivity|intros ->; auto].
  - destruct o. cbn [ref_vals vals]. rewrite in_map_iff. split.
    + intros [n [<- Hn]]. apply in_nums, IH in Hn. eauto.
    + intros [n [Hn ->]]. exists n. split; auto. apply in_nums, IH; auto.
  - cbn [ref_vals]. rewrite in_flat_map.
    assert (E : (exists n1, In n1 (nums (ref_vals sg l)) /\
                  In v (flat_map (fun n2 => binop_vals o n1 n2) (nums (ref_vals sg r)))) <->
                exists n1 n2, vals (alookup sg) l (VNum n1) /\ vals (alookup sg) r (VNum n2) /\
                              In v (binop_vals o n1 n2)).
    { split.
      - intros [n1 [H1 H2]]. apply in_flat_map in H2. destruct H2 as [n2 [H2 H3]].
        apply in_nums, IHl in H1. apply in_nums, IHr in H2. eauto.
      - intros [n1 [n2 [H1 [H2 H3]]]]. exists n1. split; [apply in_nums, IHl; auto|].
        apply in_flat_map. exists n2. split; [apply in_nums, IHr; auto|auto]. }
    rewrite E. clear E.
    destruct o; cbn [vals]; split.
    all: try (intros [n1 [n2 [H1 [H2 H3]]]]; apply in_binop_vals in H3; cbn in H3).
    all: try (subst v; exists n1, n2; auto).
    all: try (destruct H3 as [q [m [Hqm ->]]]; exists n1, n2, q, m; auto).
    all: try (destruct H3 as [k [Hk ->]]; exists n1, n2, k; auto).
    + intros [n1 [n2 [H1 [H2 ->]]]]. exists n1, n2. repeat split; auto. apply in_binop_vals. reflexivity.
    + intros [n1 [n2 [H1 [H2 ->]]]]. exists n1, n2. repeat split; auto. apply in_binop_vals. reflexivity.
    + intros [n1 [n2 [H1 [H2 ->]]]]. exists n1, n2. repeat split; auto. apply in_binop_vals. reflexivity.
    + intros [n1 [n2 [q [m [H1 [H2 [H3 ->]]]]]]]. exists n1, n2. repeat split; auto. apply in_binop_vals. cbn. eauto.
    + intros [n1 [n2 [q [m [H1 [H2 [H3 ->]]]]]]]. exists n1, n2. repeat split; auto. apply in_binop_vals. cbn. eauto.
    + intros [n1 [n2 [k [H1 [H2 [H3 ->]]]]]]. exists n1, n2. repeat split; auto. apply in_binop_vals. cbn. eauto.
Qed.
