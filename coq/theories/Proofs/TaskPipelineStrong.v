(* Audit B8 (C09 tie), part 4: STRONG EQUIVALENCE.  Every problem the end-to-end model
   Model/StrongFull.v returns ([SOk pbs]) is a member of [pipeline raw d] (the shape C09 / C09_text /
   C06_in_pipeline / C12text quantify over), and - when the representation step delivers
   parser-image sentences, which tau* does (Proofs/TaskPipelineTrans.v) - all formulas of [raw]
   are closed and have no empty comparison. *)
From Coq Require Import List Ascii String ZArith NArith Bool Lia.
From Anthem Require Import Base.ISet Base.Fresh Syntax.Fol Syntax.Asp
  Model.Apply Model.Gamma Model.Break Model.Problem Model.ProblemPrint Model.Strong Model.TauStar Model.MuFull
  Model.SimplIntuit Model.SimplClassic Model.StrongFull
  Proofs.SimplCongr Proofs.SimplIntuitOk Proofs.StrategyClsOk Proofs.SimplFull Proofs.StrongFullOk
  Proofs.SimplClassicTotal Proofs.ParserImage Proofs.ParserImagePipeline Proofs.NoPanic
  Proofs.TaskPipelineBn Proofs.TaskPipelineFv Proofs.TaskPipelineClosed Proofs.TaskPipelineTrans Proofs.TaskPipelineMu.
From Anthem Require Model.StrategyCls.
Import ListNotations.
Open Scope string_scope.
Open Scope list_scope.

(* ---------- the shape: decompose (strong_problem ..) d = pipeline raw d ---------- *)
Lemma normalize_named prefix role : forall t i, prefix <> "" -> starts_with_underscore prefix = false ->
  map normalize_pf (name_theory_from prefix role i t) = name_theory_from prefix role i t.
Proof.
  induction t as [|f t IH]; intros i Hne Hu; cbn [name_theory_from map]; [reflexivity|].
  rewrite IH by assumption. f_equal.
  unfold normalize_pf. cbn [pf_name].
  destruct prefix as [|c s]; [congruence|]. cbn in Hu |- *. rewrite Hu. reflexivity.
Qed.
Definition strong_raw (name : string) (ta : theory) (axn : string) (axt : theory) (cjn : string) (cjt : theory) : problem :=
  mkproblem name (name_theory_from "transition_axiom" PAxiom 0 ta ++ name_theory_from axn PAxiom 0 axt
                  ++ name_theory_from cjn PConjecture 0 cjt).
Theorem strong_problem_in_pipeline name ta axn axt cjn cjt d :
  axn <> "" -> starts_with_underscore axn = false -> cjn <> "" -> starts_with_underscore cjn = false ->
  decompose (strong_problem name ta axn axt cjn cjt) d = pipeline (strong_raw name ta axn axt cjn cjt) d.
Proof.
  intros H1 H2 H3 H4.
  unfold pipeline, strong_raw, strong_problem, add_theory, add_annotated_formulas, with_name. cbn [pb_name pb_formulas app].
  rewrite !map_app, !normalize_named by (try assumption; try discriminate; reflexivity).
  rewrite <- app_assoc. reflexivity.
Qed.
Lemma name_theory_from_formulas prefix role : forall t i, map pf_formula (name_theory_from prefix role i t) = t.
Proof. induction t as [|f t IH]; intros i; cbn [name_theory_from map pf_formula]; [reflexivity|]. rewrite IH. reflexivity. Qed.
Lemma strong_raw_formulas name ta axn axt cjn cjt a :
  In a (pb_formulas (strong_raw name ta axn axt cjn cjt)) -> In (pf_formula a) (ta ++ axt ++ cjt).
Proof.
  intros H. apply (in_map pf_formula) in H. unfold strong_raw in H. cbn [pb_formulas] in H.
  rewrite !map_app, !name_theory_from_formulas in H. exact H.
Qed.

(* every problem of strong_assemble is a pipeline member whose raw formulas come from the three theories *)
Theorem strong_assemble_in_pipeline ta l r dir dec pb :
  In pb (strong_assemble ta l r dir dec) ->
  exists raw, In pb (pipeline raw dec) /\ forall a, In a (pb_formulas raw) -> In (pf_formula a) (ta ++ l ++ r).
Proof.
  unfold strong_assemble. intros H. apply in_flat_map in H. destruct H as [p [Hp Hpb]].
  apply in_app_iff in Hp. destruct Hp as [Hp|Hp].
  - destruct (dir_forward dir); [|destruct Hp]. destruct Hp as [<-|[]].
    rewrite strong_problem_in_pipeline in Hpb by (try discriminate; reflexivity).
    eexists. split; [exact Hpb|]. apply strong_raw_formulas.
  - destruct (dir_backward dir); [|destruct Hp]. destruct Hp as [<-|[]].
    rewrite strong_problem_in_pipeline in Hpb by (try discriminate; reflexivity).
    eexists. split; [exact Hpb|]. intros a Ha. apply strong_raw_formulas in Ha.
    rewrite !in_app_iff in *. tauto.
Qed.

(* the pure shape statement, no premise *)
Theorem strong_full_in_pipeline fuel t pbs pb :
  strong_decompose_full_fuel fuel t = SOk pbs -> In pb pbs -> exists raw, In pb (pipeline raw (st_decomposition t)).
Proof.
  intros E Hpb. apply strong_decompose_full_fuel_ok in E. destruct E as [-> _].
  unfold strong_decompose_tot_fuel, strong_decompose in Hpb.
  destruct (strong_assemble_in_pipeline _ _ _ _ _ _ Hpb) as [raw [H _]]. eauto.
Qed.

(* ---------- the simplifications keep parser-image sentences ---------- *)
Lemma fv_nil_incl F G : incl (free_variables G) (free_variables F) -> free_variables F = [] -> free_variables G = [].
Proof. intros H E. rewrite E in H. destruct (free_variables G) as [|w ws]; [reflexivity|]. destruct (H w (or_introl eq_refl)). Qed.

Lemma simp_ht_full_psent x y : simp_ht_full x = SOk y -> psent x -> psent y.
Proof.
  intros E [Hp Hc]. split; [exact (simp_ht_full_pi x y E Hp)|].
  apply closed_iff in Hc. destruct Hc as [Hb Hf]. apply closed_iff.
  unfold simp_ht_full in E. destruct (apply_fixpoint (simplify_fuel x) (compose PORTFOLIO_HT) x) as [g|] eqn:Eg; [|discriminate].
  injection E as <-. split.
  - exact (apply_fixpoint_bn _ _ _ _ portfolio_ht_bn Hb Eg).
  - apply (fv_nil_incl x g); [|exact Hf].
    exact (ht_fixpoint_fv _ _ _ Eg).
Qed.
Lemma simp_classic_full_fuel_psent fuel x y : simp_classic_full_fuel fuel x = SOk y -> psent x -> psent y.
Proof.
  intros E [Hp Hc]. split.
  - unfold simp_classic_full_fuel in E.
    destruct (StrategyCls.apply_fixpoint_opt fuel (StrategyCls.compose_opt StrongFull.FULL_CLASSIC_opt) x) as [| |g] eqn:Eg; try discriminate.
    injection E as <-.
    exact (run_strategy_opt_pi fuel _ _ StrategyCls.Fixpoint_ x g strong_FULL_CLASSIC_opt_safe Hp Eg).
  - apply closed_iff in Hc. destruct Hc as [Hb Hf]. apply closed_iff.
    apply simp_classic_full_run in E. cbn [StrategyCls.run_strategy] in E. split.
    + exact (apply_fixpoint_bn _ _ _ _ portfolio_full_bn Hb E).
    + exact (fv_nil_incl x y (full_fixpoint_fv _ _ _ E) Hf).
Qed.
Lemma smap_in {A B} (f : A -> sresult B) : forall l m, smap f l = SOk m ->
  forall y, In y m -> exists x, In x l /\ f x = SOk y.
Proof.
  induction l as [|x l IH]; intros m; cbn [smap].
  - intros [= <-] y [].
  - destruct (f x) as [y0| |] eqn:Ex; cbn [sbind]; try discriminate.
    destruct (smap f l) as [ys| |]; cbn [sbind]; try discriminate.
    intros [= <-] y [<-|Hy]; [exists x; split; [left; reflexivity|exact Ex]|].
    destruct (IH ys eq_refl y Hy) as [x' [Hx' Ex']]. exists x'. split; [right; exact Hx'|exact Ex'].
Qed.
Lemma stage_psent on (f : formula -> sresult formula) th th' :
  (forall x y, f x = SOk y -> psent x -> psent y) ->
  stage on f th = SOk th' -> (forall x, In x th -> psent x) -> forall y, In y th' -> psent y.
Proof.
  intros Hf. unfold stage. destruct on; [|intros [= <-] H; exact H].
  intros E H y Hy. destruct (smap_in f th th' E y Hy) as [x [Hx Ex]]. exact (Hf x y Ex (H x Hx)).
Qed.
Lemma gamma_psent f : psent f -> psent (gamma f).
Proof. intros [A B]. split; [apply gamma_pi, A|apply gamma_closed, B]. Qed.

(* what the representation step must deliver *)
Definition repr_sentences (t : strong_task) (P : program) : Prop :=
  forall th, repr_full (st_repr t) P = SOk th -> forall f, In f th -> psent f.

Theorem strong_full_sentences_partial fuel t pbs pb :
  repr_sentences t (st_left t) -> repr_sentences t (st_right t) ->
  strong_decompose_full_fuel fuel t = SOk pbs -> In pb pbs ->
  exists raw, In pb (pipeline raw (st_decomposition t)) /\
    forall a, In a (pb_formulas raw) -> sent (pf_formula a).
Proof.
  intros Hl Hr. unfold strong_decompose_full_fuel.
  destruct (repr_full (st_repr t) (st_left t)) as [l0| |] eqn:El0; cbn [sbind]; try discriminate.
  destruct (repr_full (st_repr t) (st_right t)) as [r0| |] eqn:Er0; cbn [sbind]; try discriminate.
  destruct (stage (st_simplify t) simp_ht_full l0) as [l1| |] eqn:El1; cbn [sbind]; try discriminate.
  destruct (stage (st_simplify t) simp_ht_full r0) as [r1| |] eqn:Er1; cbn [sbind]; try discriminate.
  destruct (stage (st_simplify t) (simp_classic_full_fuel fuel) (gamma_theory l1)) as [l3| |] eqn:El3; cbn [sbind]; try discriminate.
  destruct (stage (st_simplify t) (simp_classic_full_fuel fuel) (gamma_theory r1)) as [r3| |] eqn:Er3; cbn [sbind]; try discriminate.
  intros [= <-] Hpb.
  pose proof (stage_psent _ _ _ _ simp_ht_full_psent El1 (Hl l0 El0)) as Hl1.
  pose proof (stage_psent _ _ _ _ simp_ht_full_psent Er1 (Hr r0 Er0)) as Hr1.
  assert (Hg : forall th, (forall x, In x th -> psent x) -> forall x, In x (gamma_theory th) -> psent x).
  { intros th H x Hx. unfold gamma_theory in Hx. apply in_map_iff in Hx. destruct Hx as [x0 [<- Hx0]]. apply gamma_psent, H, Hx0. }
  pose proof (stage_psent _ _ _ _ (simp_classic_full_fuel_psent fuel) El3 (Hg _ Hl1)) as Hl3.
  pose proof (stage_psent _ _ _ _ (simp_classic_full_fuel_psent fuel) Er3 (Hg _ Hr1)) as Hr3.
  assert (Hb : forall th, (forall x, In x th -> psent x) ->
             forall x, In x (if st_break t then break_equivalences_theory th else th) -> sent x).
  { intros th H x Hx. destruct (st_break t); [|apply psent_sent, H, Hx].
    exact (break_theory_sent th (fun f Hf => psent_sent f (H f Hf)) x Hx). }
  destruct (strong_assemble_in_pipeline _ _ _ _ _ _ Hpb) as [raw [Hin Hraw]].
  exists raw. split; [exact Hin|]. intros a Ha. specialize (Hraw a Ha).
  rewrite !in_app_iff in Hraw. destruct Hraw as [H|[H|H]].
  - unfold transition_axioms in H. apply in_map_iff in H. destruct H as [p [<- _]]. apply transition_sent.
  - exact (Hb _ Hl3 _ H).
  - exact (Hb _ Hr3 _ H).
Qed.

(* both representations: the hypothesis is discharged for programs of the parser image (every
   variable has a name) - tau*: Proofs/TaskPipelineTrans.v, mu: Proofs/TaskPipelineMu.v *)
Lemma repr_sentences_named t P : program_vars_named P -> repr_sentences t P.
Proof.
  intros HP th. unfold repr_full. destruct (st_repr t).
  - destruct (mu_full P) as [G|] eqn:E; cbn [of_panic]; [|discriminate]. intros [= <-]. exact (mu_full_psent _ _ HP E).
  - destruct (tau_star P) as [G|] eqn:E; cbn [of_panic]; [|discriminate]. intros [= <-]. exact (tau_star_psent _ _ HP E).
Qed.
Theorem strong_full_sentences fuel t pbs pb :
  program_vars_named (st_left t) -> program_vars_named (st_right t) ->
  strong_decompose_full_fuel fuel t = SOk pbs -> In pb pbs ->
  exists raw, In pb (pipeline raw (st_decomposition t)) /\
    forall a, In a (pb_formulas raw) -> sent (pf_formula a).
Proof.
  intros Hl Hr. apply strong_full_sentences_partial; apply repr_sentences_named; assumption.
Qed.
