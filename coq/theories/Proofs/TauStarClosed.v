(* tau_star_closed: every formula of tau*(P) is a sentence (free_variables = []). *)
From Coq Require Import List Ascii String ZArith Bool Lia.
From Anthem Require Import Base.ISet Syntax.Fol Syntax.Asp
  Model.FreshNames Model.TauStar Proofs.FreshNamesOk Proofs.TauStarBody Proofs.TauStarProgram.
Import ListNotations.
Open Scope string_scope.
Open Scope list_scope.

(* ---------- free_variables as a set ---------- *)
Lemma nodup_extend_all {A B} (dec : forall x y : B, {x = y} + {x <> y}) (f : A -> list B) l :
  forall init, NoDup init -> NoDup (extend_all dec f init l).
Proof.
  unfold extend_all. induction l as [|a l IH]; intros init Hn; cbn [fold_left]; auto.
  apply IH. apply nodup_iset_extend. exact Hn.
Qed.
Lemma nodup_iterm_vars t : NoDup (iterm_vars t).
Proof.
  induction t; cbn; try constructor; auto; try constructor.
  apply nodup_iset_extend. assumption.
Qed.
Lemma nodup_gterm_vars t : NoDup (gterm_vars t).
Proof.
  destruct t as [| | |x|t|t]; cbn; try constructor; auto; try constructor.
  - apply nodup_iterm_vars.
  - destruct t; cbn; constructor; auto; constructor.
Qed.
Lemma nodup_aformula_vars a : NoDup (aformula_vars a).
Proof.
  destruct a; cbn; try constructor.
  - apply nodup_extend_all. constructor.
  - apply nodup_extend_all. apply nodup_gterm_vars.
Qed.
Lemma nodup_fold_remove vs : forall l, NoDup l ->
  NoDup (fold_left (fun acc v => iset_remove var_dec v acc) vs l).
Proof. induction vs as [|x vs IH]; intros l Hl; cbn [fold_left]; auto. apply IH, nodup_iset_remove, Hl. Qed.
Lemma nodup_free_variables f : NoDup (free_variables f).
Proof.
  induction f as [a|f IH|c l IHl r IHr|q vs f IH]; cbn [free_variables]; auto.
  - apply nodup_aformula_vars.
  - apply nodup_iset_extend. exact IHl.
  - apply nodup_fold_remove. exact IH.
Qed.
Lemma in_fold_remove v vs : forall l, NoDup l ->
  (In v (fold_left (fun acc x => iset_remove var_dec x acc) vs l) <-> In v l /\ ~ In v vs).
Proof.
  induction vs as [|x vs IH]; intros l Hl; cbn [fold_left].
  - cbn. tauto.
  - rewrite IH by (apply nodup_iset_remove; exact Hl). rewrite in_iset_remove by exact Hl. cbn.
    intuition congruence.
Qed.

Lemma fv_q v q vs f : In v (free_variables (FQ q vs f)) <-> In v (free_variables f) /\ ~ In v vs.
Proof. cbn [free_variables]. apply in_fold_remove. apply nodup_free_variables. Qed.
Lemma fv_bin v c l r : In v (free_variables (FBin c l r)) <-> In v (free_variables l) \/ In v (free_variables r).
Proof. cbn [free_variables]. apply in_iset_extend. Qed.
Lemma fv_not v f : In v (free_variables (FNot f)) <-> In v (free_variables f).
Proof. reflexivity. Qed.
Lemma fv_cmp v t gs : In v (free_variables (FAtomic (ACmp t gs))) <->
  In v (gterm_vars t) \/ exists g, In g gs /\ In v (gterm_vars (gterm_of g)).
Proof. cbn [free_variables aformula_vars]. apply in_extend_all. Qed.
Lemma fv_atom v p ts : In v (free_variables (FAtomic (AAtom p ts))) <-> exists t, In t ts /\ In v (gterm_vars t).
Proof.
  cbn [free_variables aformula_vars]. rewrite in_extend_all. split; [intros [[]|H]; exact H|auto].
Qed.
Lemma gterm_vars_var z : forall v, In v (gterm_vars (var_to_gterm z)) -> v = z.
Proof. destruct z as [n s]. destruct s; cbn; intros v [<-|[]]; reflexivity. Qed.

Lemma fv_eq_formula v l r : In v (free_variables (eq_formula l r)) <-> In v (gterm_vars l) \/ In v (gterm_vars r).
Proof.
  unfold eq_formula. rewrite fv_cmp. split.
  - intros [A|[g [[<-|[]] B]]]; auto.
  - intros [A|B]; auto. right. exists (mkguard REq r). split; [left; reflexivity|exact B].
Qed.

(* ---------- val ---------- *)
Definition val_fv_ok (t : term) (z v : var) : Prop := v = z \/ exists x, In x (term_vars t) /\ v = gvar x.

Lemma in_ivars v xs : In v (map ivar xs) <-> exists x, In x xs /\ v = ivar x.
Proof. rewrite in_map_iff. split; intros [x [A B]]; exists x; auto. Qed.

Fixpoint ivars_of (t : iterm) : list string :=
  match t with
  | INum _ | IFun _ => []
  | IVar x => [x]
  | IUn _ t => ivars_of t
  | IBin _ l r => ivars_of l ++ ivars_of r
  end.
Lemma iterm_vars_names v t : In v (iterm_vars t) -> exists x, In x (ivars_of t) /\ v = ivar x.
Proof.
  induction t as [z|c|y|o t IH|o l IHl r IHr]; cbn [iterm_vars ivars_of].
  - intros [].
  - intros [].
  - intros [<-|[]]. eexists; split; [left; reflexivity|reflexivity].
  - exact IH.
  - intros Hv. apply in_iset_extend in Hv. destruct Hv as [Hv|Hv]; [apply IHl in Hv|apply IHr in Hv];
      destruct Hv as [x [Hx ->]]; exists x; (split; [apply in_app_iff; auto|reflexivity]).
Qed.
(* a variable outside the block of binders [bs] does not occur in an integer term over [bs] *)
Lemma bound_ivar v bs t : ~ In v (map ivar bs) -> (forall x, In x (ivars_of t) -> In x bs) ->
  In v (iterm_vars t) -> False.
Proof.
  intros Hnb Hsub Hv. apply iterm_vars_names in Hv. destruct Hv as [x [Hx ->]].
  apply Hnb. apply in_map. apply Hsub. exact Hx.
Qed.
Lemma fv_cmp1 v a r b : In v (free_variables (FAtomic (ACmp (GInt a) [mkguard r (GInt b)]))) ->
  In v (iterm_vars a) \/ In v (iterm_vars b).
Proof. intros Hv. apply fv_cmp in Hv. destruct Hv as [Hv|[g [[<-|[]] Hv]]]; auto. Qed.

Ltac bound bs Hnb Hv :=
  exfalso; apply (bound_ivar _ bs _ Hnb) in Hv; [exact Hv|];
  let x := fresh "x" in let Hx := fresh "Hx" in intros x Hx; cbn in Hx; cbn; tauto.

Lemma val_fv t : forall z v, In v (free_variables (val t z)) -> val_fv_ok t z v.
Proof.
  induction t as [p|x|o a IHa|o l IHl r IHr]; intros z v Hv.
  - cbn [val] in Hv. unfold construct_equality_formula, z_var_term in Hv. apply fv_eq_formula in Hv.
    destruct Hv as [Hv|Hv]; [left; apply gterm_vars_var; exact Hv|]. destruct p; cbn in Hv; tauto.
  - cbn [val] in Hv. unfold construct_equality_formula, z_var_term in Hv. apply fv_eq_formula in Hv.
    destruct Hv as [Hv|Hv]; [left; apply gterm_vars_var; exact Hv|]. cbn in Hv. destruct Hv as [<-|[]].
    right. exists x. split; [left; reflexivity|reflexivity].
  - destruct o. cbn [val] in Hv. unfold construct_total_function_formula in Hv. cbn [vname ivar] in Hv.
    set (i := fresh_one _ "I") in *. set (j := fresh_one _ "J") in *.
    apply fv_q in Hv. destruct Hv as [Hv Hnb]. change [ivar i; ivar j] with (map ivar [i; j]) in Hnb.
    rewrite !fv_bin in Hv. destruct Hv as [[Hv|Hv]|Hv].
    + apply fv_eq_formula in Hv. destruct Hv as [Hv|Hv]; [left; apply gterm_vars_var; exact Hv|].
      bound [i; j] Hnb Hv.
    + unfold construct_equality_formula, z_var_term in Hv. apply fv_eq_formula in Hv. exfalso. apply Hnb.
      destruct Hv as [Hv|Hv]; [apply gterm_vars_var in Hv; subst; left; reflexivity|destruct Hv].
    + apply IHa in Hv. destruct Hv as [->|[x [Hx ->]]].
      * exfalso. apply Hnb. right; left; reflexivity.
      * right. exists x. auto.
  - assert (Hsub : forall x, In x (term_vars l) \/ In x (term_vars r) -> In x (term_vars (TBin o l r))).
    { intros x Hx. cbn [term_vars]. apply in_iset_extend. exact Hx. }
    assert (Hl : forall i v, In v (free_variables (val l (ivar i))) -> v = ivar i \/ val_fv_ok (TBin o l r) z v).
    { intros i v' Hv'. apply IHl in Hv'. destruct Hv' as [->|[x [Hx ->]]]; [left; reflexivity|].
      right. right. exists x. split; [apply Hsub; auto|reflexivity]. }
    assert (Hr : forall i v, In v (free_variables (val r (ivar i))) -> v = ivar i \/ val_fv_ok (TBin o l r) z v).
    { intros i v' Hv'. apply IHr in Hv'. destruct Hv' as [->|[x [Hx ->]]]; [left; reflexivity|].
      right. right. exists x. split; [apply Hsub; auto|reflexivity]. }
    assert (Hz : forall v', In v' (gterm_vars (z_var_term z)) -> val_fv_ok (TBin o l r) z v').
    { intros v' Hv'. left. apply gterm_vars_var. exact Hv'. }
    clear IHl IHr.
    cbn [val] in Hv.
    set (i := fresh_one _ "I") in *. set (j := fresh_one _ "J") in *. set (k := fresh_one _ "K") in *.
    assert (Htotal : In v (free_variables (construct_total_function_formula (val l (ivar i)) (val r (ivar j)) o (ivar i) (ivar j) z)) ->
                     val_fv_ok (TBin o l r) z v).
    { clear Hv. intros Hv. unfold construct_total_function_formula in Hv; cbn [vname ivar] in Hv.
      apply fv_q in Hv. destruct Hv as [Hv Hnb]. change [ivar i; ivar j] with (map ivar [i; j]) in Hnb.
      rewrite !fv_bin in Hv. destruct Hv as [[Hv|Hv]|Hv].
      - apply fv_eq_formula in Hv. destruct Hv as [Hv|Hv]; [apply Hz; exact Hv|]. bound [i; j] Hnb Hv.
      - destruct (Hl _ _ Hv) as [-> |Hok]; [exfalso; apply Hnb; left; reflexivity|exact Hok].
      - destruct (Hr _ _ Hv) as [-> |Hok]; [exfalso; apply Hnb; right; left; reflexivity|exact Hok]. }
    assert (Hpartial : In v (free_variables (construct_partial_function_formula (val l (ivar i)) (val r (ivar j)) o (ivar i) (ivar j) z)) ->
                     val_fv_ok (TBin o l r) z v).
    { clear Hv. intros Hv. unfold construct_partial_function_formula in Hv; cbn [vname ivar] in Hv.
      set (q := fresh_one _ "Q") in *. set (rr := fresh_one _ "R") in *.
      apply fv_q in Hv. destruct Hv as [Hv Hnb].
      change [ivar i; ivar j; ivar q; ivar rr] with (map ivar [i; j; q; rr]) in Hnb.
      rewrite !fv_bin in Hv. destruct Hv as [[[Hv|[Hv|Hv]]|[[Hv|Hv]|Hv]]|Hv].
      - apply fv_eq_formula in Hv. destruct Hv as [Hv|Hv]; bound [i; j; q; rr] Hnb Hv.
      - destruct (Hl _ _ Hv) as [-> |Hok]; [exfalso; apply Hnb; left; reflexivity|exact Hok].
      - destruct (Hr _ _ Hv) as [-> |Hok]; [exfalso; apply Hnb; right; left; reflexivity|exact Hok].
      - apply fv_cmp1 in Hv. destruct Hv as [Hv|Hv]; bound [i; j; q; rr] Hnb Hv.
      - apply fv_cmp1 in Hv. destruct Hv as [Hv|Hv]; bound [i; j; q; rr] Hnb Hv.
      - apply fv_cmp1 in Hv. destruct Hv as [Hv|Hv]; bound [i; j; q; rr] Hnb Hv.
      - destruct o; apply fv_eq_formula in Hv; (destruct Hv as [Hv|Hv]; [apply Hz; exact Hv|]);
          bound [i; j; q; rr] Hnb Hv. }
    destruct o; auto.
    unfold construct_interval_formula in Hv; cbn [vname ivar] in Hv.
    apply fv_q in Hv. destruct Hv as [Hv Hnb]. change [ivar i; ivar j; ivar k] with (map ivar [i; j; k]) in Hnb.
    rewrite !fv_bin in Hv. destruct Hv as [[[Hv|Hv]|Hv]|Hv].
    + destruct (Hl _ _ Hv) as [-> |Hok]; [exfalso; apply Hnb; left; reflexivity|exact Hok].
    + destruct (Hr _ _ Hv) as [-> |Hok]; [exfalso; apply Hnb; right; left; reflexivity|exact Hok].
    + apply fv_eq_formula in Hv. destruct Hv as [Hv|Hv]; [apply Hz; exact Hv|]. bound [i; j; k] Hnb Hv.
    + apply fv_cmp in Hv. destruct Hv as [Hv|[g [Hg Hv]]].
      * bound [i; j; k] Hnb Hv.
      * destruct Hg as [<-|[<-|[]]]; cbn [gterm_of] in Hv; bound [i; j; k] Hnb Hv.
Qed.

(* ---------- conjoin ---------- *)
Lemma fv_fold_and v xs : forall x,
  In v (free_variables (fold_left (fun acc y => FBin CAnd acc y) xs x)) ->
  In v (free_variables x) \/ exists y, In y xs /\ In v (free_variables y).
Proof.
  induction xs as [|y xs IH]; intros x Hv; cbn [fold_left] in Hv; auto.
  apply IH in Hv. destruct Hv as [Hv|[y' [Hy Hv]]].
  - apply fv_bin in Hv. destruct Hv as [Hv|Hv]; auto. right. exists y. split; [left; reflexivity|exact Hv].
  - right. exists y'. split; [right; exact Hy|exact Hv].
Qed.
Lemma fv_conjoin v l : In v (free_variables (conjoin l)) -> exists y, In y l /\ In v (free_variables y).
Proof.
  unfold conjoin, reduce_bin. destruct l as [|x xs]; [intros []|].
  intros Hv. apply fv_fold_and in Hv. destruct Hv as [Hv|[y [Hy Hv]]].
  - exists x. split; [left; reflexivity|exact Hv].
  - exists y. split; [right; exact Hy|exact Hv].
Qed.

Lemma fv_valtz v ts zs :
  In v (free_variables (conjoin (map (fun tv => val (fst tv) (snd tv)) (combine ts (map gvar zs))))) ->
  (exists z, In z zs /\ v = gvar z) \/ exists t x, In t ts /\ In x (term_vars t) /\ v = gvar x.
Proof.
  intros Hv. apply fv_conjoin in Hv. destruct Hv as [y [Hy Hv]].
  apply in_map_iff in Hy. destruct Hy as [[t z] [<- Hin]]. cbn [fst snd] in Hv.
  apply val_fv in Hv. destruct Hv as [->|[x [Hx ->]]].
  - left. apply in_combine_r in Hin. apply in_map_iff in Hin. destruct Hin as [z' [<- Hz]]. eauto.
  - right. exists t, x. split; [eapply in_combine_l; eauto|auto].
Qed.

Lemma fv_sign_wrap v s f : In v (free_variables (sign_wrap s f)) <-> In v (free_variables f).
Proof. destruct s; reflexivity. Qed.
Lemma fv_patom v p zs : In v (free_variables (FAtomic (AAtom p (map (fun x => GVar x) zs)))) ->
  exists z, In z zs /\ v = gvar z.
Proof.
  intros Hv. apply fv_atom in Hv. destruct Hv as [t [Ht Hv]]. apply in_map_iff in Ht.
  destruct Ht as [z [<- Hz]]. cbn in Hv. destruct Hv as [<-|[]]. eauto.
Qed.

(* ---------- tau_b, tau_body ---------- *)
Lemma tau_b_fv b v : In v (free_variables (tau_b b)) -> exists x, In x (bformula_vars b) /\ v = gvar x.
Proof.
  unfold tau_b. destruct b as [l|c].
  - destruct (aterms (latom l)) eqn:Ets.
    + unfold tau_b_propositional_literal. rewrite fv_sign_wrap. intros Hv. apply fv_atom in Hv.
      destruct Hv as [t [[] _]].
    + unfold tau_b_first_order_literal. intros Hv. apply fv_q in Hv. destruct Hv as [Hv Hnb].
      apply fv_bin in Hv. destruct Hv as [Hv|Hv].
      * apply fv_valtz in Hv. destruct Hv as [[z [Hz ->]]|[t' [x [Ht [Hx ->]]]]].
        -- exfalso. apply Hnb. apply in_map. exact Hz.
        -- exists x. split; [|reflexivity]. cbn. eapply term_vars_atom; eauto.
      * apply fv_sign_wrap in Hv. apply fv_patom in Hv. destruct Hv as [z [Hz ->]].
        exfalso. apply Hnb. apply in_map. exact Hz.
  - unfold tau_b_comparison.
    set (zs := choose_fresh_variable_names _ "Z" 2).
    assert (Hlen : List.length zs = 2) by apply choose_fresh_length.
    destruct zs as [|n0 [|n1 [|n2 zs]]]; cbn in Hlen; try discriminate. cbn [nth].
    intros Hv. apply fv_q in Hv. destruct Hv as [Hv Hnb]. apply fv_bin in Hv. destruct Hv as [Hv|Hv].
    + change [val (clhs c) (gvar n0); val (crhs c) (gvar n1)]
        with (map (fun tv => val (fst tv) (snd tv)) (combine [clhs c; crhs c] (map gvar [n0; n1]))) in Hv.
      apply fv_valtz in Hv. destruct Hv as [[z [Hz ->]]|[t' [x [Ht [Hx ->]]]]].
      * exfalso. apply Hnb. apply (in_map gvar) in Hz. exact Hz.
      * exists x. split; [|reflexivity]. cbn. unfold cmp_vars. apply in_iset_extend.
        destruct Ht as [<-|[<-|[]]]; auto.
    + exfalso. apply fv_cmp in Hv. destruct Hv as [Hv|[g [[<-|[]] Hv]]]; cbn in Hv; destruct Hv as [<-|[]];
        apply Hnb; cbn; tauto.
Qed.

Lemma tau_body_fv b v : In v (free_variables (tau_body b)) -> exists x, In x (body_vars b) /\ v = gvar x.
Proof.
  unfold tau_body. intros Hv. apply fv_conjoin in Hv. destruct Hv as [y [Hy Hv]].
  apply in_map_iff in Hy. destruct Hy as [bf [<- Hbf]]. apply tau_b_fv in Hv.
  destruct Hv as [x [Hx ->]]. exists x. split; [|reflexivity].
  unfold body_vars. apply in_extend_all. right. eauto.
Qed.

(* ---------- sorting is a permutation ---------- *)
Lemma in_insert_sorted v x l : In v (insert_sorted x l) <-> v = x \/ In v l.
Proof.
  induction l as [|y l IH]; cbn; [intuition|].
  destruct (var_leb x y); cbn; [intuition|]. rewrite IH. intuition.
Qed.
Lemma in_sort_vars v l : In v (sort_vars l) <-> In v l.
Proof.
  unfold sort_vars. induction l as [|x l IH]; cbn; [tauto|].
  rewrite in_insert_sorted, IH. intuition.
Qed.

Lemma no_elements {A} (l : list A) : (forall x, ~ In x l) -> l = [].
Proof. destruct l as [|x l]; auto. intros Hx. exfalso. apply (Hx x). left; reflexivity. Qed.

(* ---------- rules ---------- *)
Lemma closure_closed xs imp :
  (forall v, In v (free_variables imp) -> In v (map gvar xs)) ->
  free_variables (match sort_vars (map gvar xs) with [] => imp | vs => FQ QForall vs imp end) = [].
Proof.
  intros Hsub. apply no_elements. intros v Hv.
  destruct (sort_vars (map gvar xs)) as [|w ws] eqn:Es.
  - apply Hsub in Hv. apply in_sort_vars in Hv. rewrite Es in Hv. exact Hv.
  - apply fv_q in Hv. destruct Hv as [Hv Hnb]. apply Hnb. rewrite <- Es. apply in_sort_vars. apply Hsub. exact Hv.
Qed.

Lemma rule_vars_body' r x : In x (body_vars (rbody r)) -> In x (rule_vars r).
Proof. intros Hx. unfold rule_vars. apply in_iset_extend. right; exact Hx. Qed.

Theorem tau_star_rule_closed r globals F : tau_star_rule r globals = Some F -> free_variables F = [].
Proof.
  unfold tau_star_rule.
  assert (Hbody : forall v, In v (free_variables (tau_body (rbody r))) -> In v (map gvar (rule_vars r))).
  { intros v Hv. apply tau_body_fv in Hv. destruct Hv as [x [Hx ->]]. apply in_map. apply rule_vars_body'; exact Hx. }
  assert (Hprop : forall F, tau_star_prop_head_rule r = Some F -> free_variables F = []).
  { unfold tau_star_prop_head_rule. intros F'. destruct (head_atom (rhead r)) as [a|]; [|discriminate].
    intros [= <-]. apply closure_closed. intros v Hv. apply fv_bin in Hv.
    destruct Hv as [Hv|Hv]; [|apply fv_atom in Hv; destruct Hv as [t [[] _]]].
    destruct (is_choice (rhead r)); [|apply Hbody; exact Hv].
    apply fv_bin in Hv. destruct Hv as [Hv|Hv]; [apply Hbody; exact Hv|].
    apply (fv_atom v (apred a) []) in Hv. destruct Hv as [t [Ht _]]. destruct Ht. }
  assert (Hfo : forall F, tau_star_fo_head_rule r globals = Some F -> free_variables F = []).
  { unfold tau_star_fo_head_rule. intros F'. destruct (head_atom (rhead r)) as [a|] eqn:Ha; [|discriminate].
    destruct (Nat.ltb (List.length globals) (List.length (aterms a))); [discriminate|].
    intros [= <-]. set (fvars := firstn (List.length (aterms a)) globals).
    apply no_elements. intros v Hv. apply fv_q in Hv. destruct Hv as [Hv Hnb]. apply Hnb.
    apply in_sort_vars. rewrite in_app_iff.
    assert (Hcore : In v (free_variables (FBin CAnd (valtz (aterms a) (map gvar fvars)) (tau_body (rbody r)))) ->
                    In v (map gvar (rule_vars r)) \/ In v (map gvar fvars)).
    { intros Hc. apply fv_bin in Hc. destruct Hc as [Hc|Hc]; [|left; apply Hbody; exact Hc].
      unfold valtz in Hc. apply fv_valtz in Hc. destruct Hc as [[z [Hz ->]]|[t [x [Ht [Hx ->]]]]].
      - right. apply in_map. exact Hz.
      - left. apply in_map. unfold rule_vars. apply in_iset_extend. left.
        destruct (rhead r) as [a'|a'|]; cbn in Ha; try discriminate; injection Ha as ->; cbn;
          eapply term_vars_atom; eauto. }
    assert (Hhead : In v (free_variables (FAtomic (AAtom (apred a) (map (fun x => GVar x) fvars)))) ->
                    In v (map gvar fvars)).
    { intros Hh. apply fv_patom in Hh. destruct Hh as [z [Hz ->]]. apply in_map. exact Hz. }
    apply fv_bin in Hv. destruct Hv as [Hv|Hv]; [|right; apply Hhead; exact Hv].
    destruct (is_choice (rhead r)); [|apply Hcore; exact Hv].
    apply fv_bin in Hv. destruct Hv as [Hv|Hv]; [apply Hcore; exact Hv|].
    right; apply Hhead; exact Hv. }
  destruct (head_pred (rhead r)).
  - destruct (Nat.ltb 0 (head_arity (rhead r))); auto.
  - intros [= <-]. unfold tau_star_constraint_rule. apply closure_closed.
    intros v Hv. apply fv_bin in Hv. destruct Hv as [Hv|[]]. apply Hbody; exact Hv.
Qed.

Theorem tau_star_closed P G : tau_star P = Some G -> forall F, In F G -> free_variables F = [].
Proof.
  unfold tau_star. destruct (choose_fresh_global_variables P) as [globals|]; [|discriminate].
  intros Hm. apply map_opt_forall2 in Hm. induction Hm as [|r F' P' G' HrF _ IH]; intros F [].
  - subst. eapply tau_star_rule_closed; eauto.
  - apply IH; auto.
Qed.
