(* C14, image of the parser: every program the text-level parser returns is inside the lexical
   well-formedness class [wf_program] (symbols: optional underscore, a lower-case
   letter, then letters, digits, underscores; variables: an upper-case letter, then letters and digits) and its numerals fit isize -- the class for which Proofs/AspLex.v proves the
   text-level round trip.  Hence the round trip applies to everything that is parsed (outside F7). *)
From Coq Require Import List Ascii String ZArith NArith Bool Lia.
From Anthem Require Import Base.Fresh Syntax.Asp Model.AspTableTypes Gen.TablesAsp Model.AspPrint Model.AspParse
  Proofs.AspRoundTrip Proofs.AspLex.
Import ListNotations.
Open Scope list_scope.
Open Scope string_scope.

Definition wf_token (t : token) : Prop :=
  match t with TkSym s => wf_symbol s = true | TkVar x => wf_variable x = true | _ => True end.

(* ================================================================ the lexer only produces well-formed identifiers *)

Lemma lex_symbol_wf c r0 t r :
  (is_lower c = true \/ ((c =? "_")%char = true /\ head_is is_lower r0 = true)) ->
  lex_symbol (String c r0) = Some (t, r) -> wf_token t.
Proof.
  intros Hc. unfold lex_symbol.
  destruct (span is_symchar (String c r0)) as [id r'] eqn:E.
  assert (W : wf_symbol id = true).
  { destruct (span_spec _ _ _ _ E) as [_ [HA _]].
    cbn [span] in E.
    assert (SC : is_symchar c = true).
    { destruct Hc as [L|[U _]]; destruct (char_classes c) as [CL [_ [_ [_ [_ CU]]]]].
      - destruct (CL L) as [_ [_ [S _]]]. exact S.
      - destruct (CU U) as [_ [_ [_ [_ [_ [_ S]]]]]]. exact S. }
    rewrite SC in E. destruct (span is_symchar r0) as [a b] eqn:E2. inversion E; subst.
    unfold wf_symbol. rewrite HA, andb_true_r.
    destruct Hc as [L|[U HL]]; [rewrite L; reflexivity|].
    rewrite U. destruct r0 as [|c2 r2]; [discriminate|]. cbn [head_is] in HL.
    cbn [span] in E2. destruct (char_classes c2) as [CL _]. destruct (CL HL) as [_ [_ [S2 _]]].
    rewrite S2 in E2. destruct (span is_symchar r2). inversion E2; subst. cbn [head_is]. rewrite HL.
    apply orb_true_r. }
  destruct ((id =? "not") && at_ws_or_eoi r'); intros [= <- <-]; [exact I|exact W].
Qed.

Lemma orelse_some {A} (x y : option A) v : orelse x y = Some v -> x = Some v \/ y = Some v.
Proof. destruct x; cbn; auto. Qed.
Lemma try_kw_tok kw tok s t r : try_kw kw tok s = Some (t, r) -> t = tok.
Proof. unfold try_kw. destruct (prefix kw s); [intros [= <- _]; reflexivity|discriminate]. Qed.

Lemma lex_token_wf o s t r : lex_token o s = Some (t, r) -> wf_token t.
Proof.
  unfold lex_token. destruct s as [|c r0]; [discriminate|].
  destruct (is_digit c) eqn:D.
  { destruct (c =? "0")%char; [intros [= <- <-]; exact I|].
    destruct (span is_digit (String c r0)); intros [= <- <-]; exact I. }
  destruct (is_lower c) eqn:L.
  { apply lex_symbol_wf. left. exact L. }
  destruct (c =? "_")%char eqn:U.
  { destruct r0 as [|c2 r2]; [discriminate|]. destruct (is_lower c2) eqn:L2; [|discriminate].
    apply lex_symbol_wf. right. split; [exact U|exact L2]. }
  destruct (is_upper c) eqn:UP.
  { destruct (span is_alnum (String c r0)) as [id r'] eqn:E. intros [= <- <-].
    destruct (span_spec _ _ _ _ E) as [_ [HA _]]. cbn [span] in E.
    destruct (char_classes c) as [_ [CU _]]. destruct (CU UP) as [_ [_ [_ [AN _]]]].
    rewrite AN in E. destruct (span is_alnum r0). inversion E; subst.
    cbn [wf_token]. unfold wf_variable. rewrite UP, HA. reflexivity. }
  repeat match goal with
         | |- context [if ?b then _ else _] => destruct b
         | |- context [match ?x with String _ _ => _ | EmptyString => _ end] => destruct x
         end;
    try discriminate; try (intros [= <- <-]; exact I).
  - destruct (span is_digit (String a r0)). intros [= <- <-]. exact I.
  - intros H. repeat (apply orelse_some in H; destruct H as [H|H]); apply try_kw_tok in H; subst t; exact I.
Qed.

Lemma lex_go_wf f : forall o s toks, lex_go f o s = Some toks -> Forall wf_token toks.
Proof.
  induction f as [|f IH]; intros o s toks; [discriminate|].
  cbn [lex_go]. destruct s as [|c r]; [intros [= <-]; constructor|].
  destruct (is_ws c); [apply IH|]. destruct (c =? "%")%char; [apply IH|].
  destruct (lex_token o (String c r)) as [[t r']|] eqn:E; [|discriminate].
  destruct (lex_go f (opnd_after t) r') as [ts|] eqn:E2; [|discriminate].
  intros [= <-]. constructor; [eapply lex_token_wf, E|eapply IH, E2].
Qed.

Lemma lex_wf s toks : lex s = Some toks -> Forall wf_token toks.
Proof. apply lex_go_wf. Qed.

(* ================================================================ the parser only moves identifiers around *)

Notation wf_tokens := (Forall wf_token).

Fixpoint wf_item (i : item) : Prop :=
  match i with
  | ILeaf t => wf_term t
  | IParen l => (fix go (l : list item) : Prop := match l with [] => True | x :: r => wf_item x /\ go r end) l
  | IPre | IIn _ => True
  end.
Fixpoint wf_items (l : list item) : Prop := match l with [] => True | x :: r => wf_item x /\ wf_items r end.

Lemma wf_items_app a b : wf_items (a ++ b) <-> wf_items a /\ wf_items b.
Proof. induction a as [|x a IH]; cbn [app wf_items]; [tauto|]. rewrite IH. tauto. Qed.

Lemma leaf_of_token_wf t lf : wf_token t -> leaf_of_token t = Some lf -> wf_term lf.
Proof. destruct t; cbn; intros W E; inversion E; subst; cbn; auto. Qed.

Lemma peg_prefixes_wf ts : wf_tokens ts ->
  wf_items (fst (peg_prefixes ts)) /\ wf_tokens (snd (peg_prefixes ts)).
Proof.
  induction ts as [|t ts IH]; intros W; [cbn; auto|].
  inversion W as [|? ? Wt Wts]; subst.
  destruct t; cbn [peg_prefixes fst snd]; try (split; [exact I|exact W]).
  destruct (peg_prefixes ts) as [p r]. cbn [fst snd] in *. destruct (IH Wts). split; [split; [exact I|]|]; assumption.
Qed.

Definition rec_wf (rec : list token -> option (list item * list token)) : Prop :=
  forall ts l r, wf_tokens ts -> rec ts = Some (l, r) -> wf_items l /\ wf_tokens r.

Lemma peg_operand_wf rec : rec_wf rec -> rec_wf (peg_operand rec).
Proof.
  intros Hrec ts l r W. unfold peg_operand.
  pose proof (peg_prefixes_wf ts W) as HP. destruct (peg_prefixes ts) as [pres r0]. cbn [fst snd] in HP.
  destruct HP as [HP HR]. destruct r0 as [|t r1]; [discriminate|].
  inversion HR as [|? ? Wt Wr1]; subst.
  destruct t; try (cbn [leaf_of_token]; first [discriminate | intros [= <- <-]; split; [apply wf_items_app; split; [exact HP|cbn; auto]|exact Wr1]]).
  destruct (rec r1) as [[l0 r2]|] eqn:E; [|discriminate].
  destruct (Hrec _ _ _ Wr1 E) as [Hl Hr2].
  destruct r2 as [|[] r2]; try discriminate. intros [= <- <-].
  inversion Hr2; subst. split; [apply wf_items_app; split; [exact HP|cbn; auto]|assumption].
Qed.

Lemma peg_tail_wf rec : rec_wf rec -> forall n ts, wf_tokens ts ->
  wf_items (fst (peg_tail rec n ts)) /\ wf_tokens (snd (peg_tail rec n ts)).
Proof.
  intros Hrec. induction n as [|n IH]; intros ts W; [cbn; auto|].
  cbn [peg_tail]. destruct ts as [|t r]; [cbn; auto|].
  destruct t; try (cbn; auto; fail).
  inversion W as [|? ? _ Wr]; subst.
  destruct (peg_operand rec r) as [[op r']|] eqn:E; [|cbn; auto].
  destruct (peg_operand_wf rec Hrec _ _ _ Wr E) as [Ho Hr'].
  specialize (IH _ Hr'). destruct (peg_tail rec n r') as [tl r'']. cbn [fst snd] in *.
  destruct IH. split; [split; [exact I|apply wf_items_app; split; assumption]|assumption].
Qed.

Lemma peg_term_wf f : rec_wf (peg_term f).
Proof.
  induction f as [|f IH]; intros ts l r W; [discriminate|].
  cbn [peg_term]. destruct (peg_operand (peg_term f) ts) as [[op r0]|] eqn:E; [|discriminate].
  destruct (peg_operand_wf _ IH _ _ _ W E) as [Ho Hr0].
  pose proof (peg_tail_wf _ IH (List.length r0) r0 Hr0) as HT.
  destruct (peg_tail (peg_term f) (List.length r0) r0) as [tl r1]. cbn [fst snd] in HT.
  intros [= <- <-]. destruct HT. split; [apply wf_items_app; split; assumption|assumption].
Qed.

Lemma pratt_wf F :
  (forall rbp items t rest, wf_items items -> pratt_expr F rbp items = POk (t, rest) -> wf_term t /\ wf_items rest) /\
  (forall items t rest, wf_items items -> pratt_nud F items = POk (t, rest) -> wf_term t /\ wf_items rest) /\
  (forall rbp lhs items t rest, wf_term lhs -> wf_items items -> pratt_loop F rbp lhs items = POk (t, rest) ->
     wf_term t /\ wf_items rest).
Proof.
  induction F as [|f [IHE [IHN IHL]]]; [repeat split; discriminate|].
  split; [|split].
  - intros rbp items t rest W. cbn [pratt_expr].
    destruct (pratt_nud f items) as [[lhs r0]| |] eqn:E; try discriminate.
    destruct (IHN _ _ _ W E). apply IHL; assumption.
  - intros items t rest W. cbn [pratt_nud].
    destruct items as [|i items]; [discriminate|]. cbn [wf_items] in W. destruct W as [Wi Wr].
    destruct i.
    + intros [= <- <-]. split; assumption.
    + destruct (pratt_expr f 0 l) as [[t0 r0]| |] eqn:E; try discriminate.
      intros [= <- <-]. destruct (IHE _ _ _ _ Wi E). split; assumption.
    + destruct (ops_get RNegative) as [[[] prec]|]; try discriminate.
      destruct (pratt_expr f (prec - 1) items) as [[rhs r0]| |] eqn:E; try discriminate.
      intros [= <- <-]. destruct (IHE _ _ _ _ Wr E). split; assumption.
    + discriminate.
  - intros rbp lhs items t rest Wl W. cbn [pratt_loop].
    destruct items as [|i items]; [intros [= <- <-]; split; assumption|].
    destruct (item_rule i) as [r|]; [|discriminate].
    destruct (ops_get r) as [[aff prec]|]; [|discriminate].
    destruct (Nat.ltb rbp prec); [|intros [= <- <-]; split; assumption].
    cbn [wf_items] in W. destruct W as [Wi Wr].
    destruct aff as [| |a]; try discriminate. destruct i; try discriminate.
    destruct (pratt_expr f (match a with ALeft => prec | ARight => prec - 1 end) items) as [[rhs r0]| |] eqn:E; try discriminate.
    destruct (IHE _ _ _ _ Wr E). apply IHL; [cbn; split; assumption|assumption].
Qed.

Lemma parse_term_wf ts t rest : wf_tokens ts -> parse_term ts = POk (t, rest) -> wf_term t /\ wf_tokens rest.
Proof.
  intros W. unfold parse_term.
  destruct (peg_term (S (List.length ts)) ts) as [[items r]|] eqn:E; [|discriminate].
  destruct (peg_term_wf _ _ _ _ W E) as [Hi Hr]. unfold pratt.
  destruct (pratt_expr (2 * items_size items + 2) 0 items) as [[t0 r0]| |] eqn:E2; try discriminate.
  cbn [pbind]. intros [= <- <-]. destruct (proj1 (pratt_wf _) _ _ _ _ Hi E2). split; assumption.
Qed.

Lemma parse_more_terms_wf n : forall ts l rest, wf_tokens ts -> parse_more_terms n ts = POk (l, rest) ->
  Forall wf_term l /\ wf_tokens rest.
Proof.
  induction n as [|n IH]; intros ts l rest W; cbn [parse_more_terms]; [intros [= <- <-]; auto|].
  destruct ts as [|t r]; [intros [= <- <-]; auto|].
  destruct t; try (intros [= <- <-]; auto; fail).
  inversion W as [|? ? _ Wr]; subst.
  destruct (parse_term r) as [[u r']| |] eqn:E; try discriminate; [|intros [= <- <-]; auto].
  destruct (parse_term_wf _ _ _ Wr E) as [Hu Hr'].
  destruct (parse_more_terms n r') as [[l' r'']| |] eqn:E2; try discriminate.
  cbn [pbind]. intros [= <- <-]. destruct (IH _ _ _ Hr' E2). auto.
Qed.

Lemma parse_term_tuple_wf ts l rest : wf_tokens ts -> parse_term_tuple ts = POk (l, rest) ->
  Forall wf_term l /\ wf_tokens rest.
Proof.
  intros W. unfold parse_term_tuple. destruct ts as [|t r]; [discriminate|].
  destruct t; try discriminate. inversion W as [|? ? _ Wr]; subst.
  destruct (parse_term r) as [[u r']| |] eqn:E; try discriminate.
  - destruct (parse_term_wf _ _ _ Wr E) as [Hu Hr'].
    destruct (parse_more_terms (List.length r') r') as [[l' r'']| |] eqn:E2; try discriminate.
    cbn [pbind]. destruct (parse_more_terms_wf _ _ _ _ Hr' E2) as [Hl' Hr''].
    destruct r'' as [|[] r3]; try discriminate. intros [= <- <-]. inversion Hr''; subst. auto.
  - cbn [pbind]. destruct r as [|[] r3]; try discriminate. intros [= <- <-]. inversion Wr; subst. auto.
Qed.

Lemma parse_atom_wf ts a rest : wf_tokens ts -> parse_atom ts = POk (a, rest) -> wf_atom a /\ wf_tokens rest.
Proof.
  intros W. unfold parse_atom. destruct ts as [|t r]; [discriminate|].
  destruct t; try discriminate. inversion W as [|? ? Ws Wr]; subst.
  destruct (parse_term_tuple r) as [[args r']| |] eqn:E; try discriminate.
  - intros [= <- <-]. destruct (parse_term_tuple_wf _ _ _ Wr E). split; [split; assumption|assumption].
  - intros [= <- <-]. split; [split; [exact Ws|constructor]|exact Wr].
Qed.

Lemma parse_sign_wf ts : wf_tokens ts -> wf_tokens (snd (parse_sign ts)).
Proof.
  intros W. destruct ts as [|[] [|[] r]]; cbn; auto; inversion W; subst; auto.
  inversion H2; subst; auto.
Qed.

Lemma parse_literal_wf ts l rest : wf_tokens ts -> parse_literal ts = POk (l, rest) ->
  wf_atom (latom l) /\ wf_tokens rest.
Proof.
  intros W. unfold parse_literal. pose proof (parse_sign_wf ts W) as HS.
  destruct (parse_sign ts) as [s r]. cbn [snd] in HS.
  destruct (parse_atom r) as [[a r']| |] eqn:E; try discriminate.
  cbn [pbind]. intros [= <- <-]. exact (parse_atom_wf _ _ _ HS E).
Qed.

Lemma parse_comparison_wf ts c rest : wf_tokens ts -> parse_comparison ts = POk (c, rest) ->
  (wf_term (clhs c) /\ wf_term (crhs c)) /\ wf_tokens rest.
Proof.
  intros W. unfold parse_comparison.
  destruct (parse_term ts) as [[l r]| |] eqn:E; try discriminate. cbn [pbind].
  destruct (parse_term_wf _ _ _ W E) as [Hl Hr].
  destruct r as [|t r1]; [discriminate|]. destruct t; try discriminate.
  inversion Hr as [|? ? _ Hr1]; subst.
  destruct (parse_term r1) as [[rh r2]| |] eqn:E2; try discriminate. cbn [pbind].
  intros [= <- <-]. destruct (parse_term_wf _ _ _ Hr1 E2). cbn. auto.
Qed.

Lemma parse_bformula_wf ts f rest : wf_tokens ts -> parse_bformula ts = POk (f, rest) ->
  wf_bformula f /\ wf_tokens rest.
Proof.
  intros W. unfold parse_bformula.
  destruct (parse_comparison ts) as [[c r]| |] eqn:E; try discriminate.
  - intros [= <- <-]. exact (parse_comparison_wf _ _ _ W E).
  - destruct (parse_literal ts) as [[l r]| |] eqn:E2; try discriminate. cbn [pbind].
    intros [= <- <-]. exact (parse_literal_wf _ _ _ W E2).
Qed.

Lemma parse_more_bformulas_wf n : forall ts l rest, wf_tokens ts -> parse_more_bformulas n ts = POk (l, rest) ->
  Forall wf_bformula l /\ wf_tokens rest.
Proof.
  induction n as [|n IH]; intros ts l rest W; cbn [parse_more_bformulas]; [intros [= <- <-]; auto|].
  destruct ts as [|t r]; [intros [= <- <-]; auto|].
  destruct t; try (intros [= <- <-]; auto; fail); inversion W as [|? ? _ Wr]; subst.
  - destruct (parse_bformula r) as [[u r']| |] eqn:E; try discriminate; [|intros [= <- <-]; auto].
    destruct (parse_bformula_wf _ _ _ Wr E) as [Hu Hr'].
    destruct (parse_more_bformulas n r') as [[l' r'']| |] eqn:E2; try discriminate.
    cbn [pbind]. intros [= <- <-]. destruct (IH _ _ _ Hr' E2). auto.
  - destruct (parse_bformula r) as [[u r']| |] eqn:E; try discriminate; [|intros [= <- <-]; auto].
    destruct (parse_bformula_wf _ _ _ Wr E) as [Hu Hr'].
    destruct (parse_more_bformulas n r') as [[l' r'']| |] eqn:E2; try discriminate.
    cbn [pbind]. intros [= <- <-]. destruct (IH _ _ _ Hr' E2). auto.
Qed.

Lemma parse_body_wf ts b rest : wf_tokens ts -> parse_body ts = POk (b, rest) ->
  Forall wf_bformula b /\ wf_tokens rest.
Proof.
  intros W. unfold parse_body.
  destruct (parse_bformula ts) as [[f r]| |] eqn:E; try discriminate; [|intros [= <- <-]; auto].
  destruct (parse_bformula_wf _ _ _ W E) as [Hf Hr].
  destruct (parse_more_bformulas (List.length r) r) as [[l r']| |] eqn:E2; try discriminate.
  cbn [pbind]. intros [= <- <-]. destruct (parse_more_bformulas_wf _ _ _ _ Hr E2). auto.
Qed.

Lemma parse_head_wf ts h rest : wf_tokens ts -> parse_head ts = POk (h, rest) -> wf_head h /\ wf_tokens rest.
Proof.
  intros W. unfold parse_head.
  destruct (parse_atom ts) as [[a r]| |] eqn:E; try discriminate.
  - intros [= <- <-]. exact (parse_atom_wf _ _ _ W E).
  - assert (F : forall h rest, (match ts with TkFalse :: r => POk (HFalsity, r) | _ => POk (HFalsity, ts) end) = POk (h, rest) ->
                wf_head h /\ wf_tokens rest).
    { intros h0 rest0. destruct ts as [|t r]; [intros [= <- <-]; cbn; auto|].
      destruct t; intros [= <- <-]; cbn; auto. inversion W; subst; auto. }
    destruct ts as [|t r]; [apply F|]. destruct t; try apply F.
    inversion W as [|? ? _ Wr]; subst.
    destruct (parse_atom r) as [[a r']| |] eqn:E2; try discriminate; try apply F.
    destruct (parse_atom_wf _ _ _ Wr E2) as [Ha Hr'].
    destruct r' as [|t' r'']; [apply F|]. destruct t'; try apply F.
    intros [= <- <-]. inversion Hr'; subst. cbn. auto.
Qed.

Lemma parse_rule_wf g ts r rest : wf_tokens ts -> parse_rule g ts = POk (r, rest) -> wf_rule r /\ wf_tokens rest.
Proof.
  intros W H.
  assert (H' : parse_rule_core ts = POk (r, rest)).
  { unfold parse_rule in H. destruct ts as [|[] ts'], g; try exact H; discriminate. }
  clear H. unfold parse_rule_core in H'.
  destruct (parse_head ts) as [[h r0]| |] eqn:E; try discriminate. cbn [pbind] in H'.
  destruct (parse_head_wf _ _ _ W E) as [Hh Hr0].
  assert (B : forall b r2, (match r0 with TkIf :: r1 => parse_body r1 | _ => POk ([], r0) end) = POk (b, r2) ->
              Forall wf_bformula b /\ wf_tokens r2).
  { intros b r2. destruct r0 as [|t r1]; [intros [= <- <-]; auto|].
    destruct t; try (intros [= <- <-]; auto; fail).
    inversion Hr0; subst. apply parse_body_wf; assumption. }
  destruct (match r0 with TkIf :: r1 => parse_body r1 | _ => POk ([], r0) end) as [[b r2]| |]; try discriminate.
  cbn [pbind] in H'. destruct (B _ _ eq_refl) as [Hb Hr2].
  destruct r2 as [|[] r3]; try discriminate. inversion H'; subst. inversion Hr2; subst.
  split; [split; assumption|assumption].
Qed.

Lemma parse_rules_wf n : forall g ts l rest, wf_tokens ts -> parse_rules n g ts = POk (l, rest) ->
  Forall wf_rule l /\ wf_tokens rest.
Proof.
  induction n as [|n IH]; intros g ts l rest W; cbn [parse_rules]; [intros [= <- <-]; auto|].
  destruct (parse_rule g ts) as [[r ts']| |] eqn:E; try discriminate; [|intros [= <- <-]; auto].
  destruct (parse_rule_wf _ _ _ _ W E) as [Hr Hts'].
  destruct (parse_rules n false ts') as [[l' ts'']| |] eqn:E2; try discriminate.
  cbn [pbind]. intros [= <- <-]. destruct (IH _ _ _ _ Hts' E2). auto.
Qed.

Theorem parse_program_from_wf g ts p : wf_tokens ts -> parse_program_from g ts = POk p -> wf_program p.
Proof.
  intros W. unfold parse_program_from.
  destruct (parse_rules (S (List.length ts)) g ts) as [[l rest]| |] eqn:E; try discriminate.
  cbn [pbind]. destruct rest; [|discriminate]. intros [= <-].
  exact (proj1 (parse_rules_wf _ _ _ _ _ W E)).
Qed.

(* ---- the image of the text-level parser *)
Theorem parse_text_image s p : parse_program_text s = POk p ->
  wf_program p /\ program_numerals_ok p = true.
Proof.
  unfold parse_program_text. destruct (lex s) as [ts|] eqn:L; [|discriminate].
  destruct (parse_program_from (leading_skip s) ts) as [q| |] eqn:E; try discriminate.
  cbn [pbind]. destruct (program_numerals_ok q) eqn:N; [|discriminate].
  intros [= <-]. split; [|exact N].
  eapply parse_program_from_wf; [eapply lex_wf, L|exact E].
Qed.

(* everything that is parsed from text and is outside the keyword-identifier class round-trips *)
Theorem text_roundtrip_image s p : parse_program_text s = POk p -> keyword_ident p = false ->
  parse_program_text (display_program p) = POk p.
Proof.
  intros H K. destruct (parse_text_image s p H) as [W N]. apply text_roundtrip; assumption.
Qed.

(* ---- packaged forms used by Properties/C14.v *)
Lemma text_roundtrip_not_kw p : wf_program p -> program_numerals_ok p = true -> ~ keyword_ident p = true ->
  parse_program_text (display_program p) = POk p.
Proof. intros W N K. apply text_roundtrip; [exact W|exact N|apply not_true_iff_false, K]. Qed.

Lemma text_roundtrip_image_not_kw s p : parse_program_text s = POk p -> ~ keyword_ident p = true ->
  parse_program_text (display_program p) = POk p /\
  forall q, parse_program_text (display_program p) = POk q -> display_program q = display_program p.
Proof.
  intros H K. assert (R := text_roundtrip_image s p H (proj1 (not_true_iff_false _) K)).
  split; [exact R|]. intros q Hq. rewrite R in Hq. inversion Hq. reflexivity.
Qed.

Lemma lex_render_not_kw p : wf_program p -> ~ keyword_ident p = true ->
  lex (display_program p) = Some (print_program p).
Proof. intros W K. apply lex_render_program; [exact W|apply not_true_iff_false, K]. Qed.
