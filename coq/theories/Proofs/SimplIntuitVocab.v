(* "Predicates not enlarged": every rewrite of INTUITIONISTIC (and HT = []) returns a formula
   whose predicates (symbol/arity) are among those of its argument; hence so do Apply::apply,
   Compose::compose and apply_fixpoint of the composed portfolio (fourth instance of the generic
   replacement theorem of Proofs/SimplCongr.v).  Used by the composition of the strong-equivalence
   pipeline: the pre-gamma simplification must not leave the vocabulary on which the transition
   axioms force the inclusion of the h-extents in the t-extents. *)
From Coq Require Import List Ascii String ZArith Bool.
From Anthem Require Import Base.ISet Syntax.Fol Model.Apply Model.Strategy Model.SimplIntuit
  Proofs.SimplCongr Proofs.TauStarClassical Proofs.NaturalVocab.
Import ListNotations.
Open Scope list_scope.

Definition pred_incl (G F : formula) : Prop := forall p, In p (predicates G) -> In p (predicates F).

Lemma pred_incl_refl F : pred_incl F F.
Proof. intros p Hp; exact Hp. Qed.
Lemma pred_incl_trans A B C : pred_incl A B -> pred_incl B C -> pred_incl A C.
Proof. intros H1 H2 p Hp. apply H2, H1, Hp. Qed.
Lemma pred_incl_not G F : pred_incl G F -> pred_incl (FNot G) (FNot F).
Proof. auto. Qed.
Lemma pred_incl_bin c G1 F1 G2 F2 : pred_incl G1 F1 -> pred_incl G2 F2 -> pred_incl (FBin c G1 G2) (FBin c F1 F2).
Proof. intros H1 H2 p. cbn [predicates]. rewrite !in_iset_extend. intros [Hp|Hp]; [left; apply H1, Hp|right; apply H2, Hp]. Qed.
Lemma pred_incl_q q vs G F : pred_incl G F -> pred_incl (FQ q vs G) (FQ q vs F).
Proof. auto. Qed.

Definition apply_pred_incl := apply_sound pred_incl pred_incl_trans pred_incl_not pred_incl_bin pred_incl_q.
Definition compose_pred_incl := compose_sound pred_incl pred_incl_refl pred_incl_trans.
Definition apply_fixpoint_pred_incl := apply_fixpoint_sound pred_incl pred_incl_trans pred_incl_not pred_incl_bin pred_incl_q.

Ltac pcrush := let p := fresh "pp" in intros p; cbn [predicates aformula_preds conjoin reduce_bin fold_left]; rewrite ?predicates_quantify;
  cbn [predicates aformula_preds]; rewrite ?in_iset_extend; cbn [In]; tauto.
Ltac pcases := repeat match goal with |- context [match ?x with _ => _ end] => destruct x end.

Lemma evaluate_comparisons_guards_preds gs : forall t f, In f (evaluate_comparisons_guards t gs) -> predicates f = [].
Proof.
  induction gs as [|g gs IH]; intros t f; cbn [evaluate_comparisons_guards]; [intros []|].
  intros [<-|Hf]; [|eapply IH; eauto].
  destruct (gterm_eqb t (gterm_of g)); [destruct (grel g)|]; reflexivity.
Qed.

Lemma evaluate_comparisons_preds F : pred_incl (evaluate_comparisons F) F.
Proof.
  destruct F as [[| |q ts|t gs]|f|c l r|q vs f]; try apply pred_incl_refl.
  intros p Hp. cbn [evaluate_comparisons] in Hp. apply pred_conjoin in Hp. destruct Hp as [y [Hy Hp]].
  rewrite (evaluate_comparisons_guards_preds _ _ _ Hy) in Hp. destruct Hp.
Qed.
Lemma apply_negation_definition_inverse_preds F : pred_incl (apply_negation_definition_inverse F) F.
Proof. unfold apply_negation_definition_inverse. pcases; try apply pred_incl_refl; pcrush. Qed.
Lemma apply_reverse_implication_definition_preds F : pred_incl (apply_reverse_implication_definition F) F.
Proof. unfold apply_reverse_implication_definition. pcases; try apply pred_incl_refl; pcrush. Qed.
Lemma apply_equivalence_definition_inverse_preds F : pred_incl (apply_equivalence_definition_inverse F) F.
Proof. unfold apply_equivalence_definition_inverse. pcases; try apply pred_incl_refl; pcrush. Qed.
Lemma remove_identities_preds F : pred_incl (remove_identities F) F.
Proof. unfold remove_identities. pcases; try apply pred_incl_refl; pcrush. Qed.
Lemma remove_annihilations_preds F : pred_incl (remove_annihilations F) F.
Proof. unfold remove_annihilations. pcases; try apply pred_incl_refl; pcrush. Qed.
Lemma remove_idempotences_preds F : pred_incl (remove_idempotences F) F.
Proof. unfold remove_idempotences. pcases; try apply pred_incl_refl; pcrush. Qed.
Lemma remove_orphaned_variables_preds F : pred_incl (remove_orphaned_variables F) F.
Proof. destruct F; intros p Hp; exact Hp. Qed.
Lemma remove_empty_quantifications_preds F : pred_incl (remove_empty_quantifications F) F.
Proof. unfold remove_empty_quantifications. pcases; try apply pred_incl_refl; pcrush. Qed.
Lemma join_nested_quantifiers_preds F : pred_incl (join_nested_quantifiers F) F.
Proof. unfold join_nested_quantifiers. pcases; try apply pred_incl_refl; pcrush. Qed.

Lemma intuitionistic_preds : Forall (sound pred_incl) INTUITIONISTIC.
Proof.
  unfold INTUITIONISTIC, sound. repeat constructor.
  - exact evaluate_comparisons_preds.
  - exact apply_negation_definition_inverse_preds.
  - exact apply_reverse_implication_definition_preds.
  - exact apply_equivalence_definition_inverse_preds.
  - exact remove_identities_preds.
  - exact remove_annihilations_preds.
  - exact remove_idempotences_preds.
  - exact remove_orphaned_variables_preds.
  - exact remove_empty_quantifications_preds.
  - exact join_nested_quantifiers_preds.
Qed.
Lemma portfolio_ht_preds : Forall (sound pred_incl) (INTUITIONISTIC ++ HT).
Proof. unfold HT. rewrite app_nil_r. exact intuitionistic_preds. Qed.

Theorem fixpoint_ht_preds fuel F G :
  apply_fixpoint fuel (compose (INTUITIONISTIC ++ HT)) F = Some G -> pred_incl G F.
Proof. apply apply_fixpoint_pred_incl. apply compose_pred_incl. exact portfolio_ht_preds. Qed.
