(* C18 (first half): the fixpoint strategy.
   - generic: when apply_fixpoint returns G, one more pass leaves G unchanged (loop exit), so
     simplifying the result again returns it unchanged;
   - termination for the INTUITIONISTIC (= ht) portfolio: the measure [mu] of Model/SimplIntuit.v
     strictly decreases whenever a rewrite, the composed portfolio, or a post-order pass changes
     the formula; fuel mu F + 1 therefore suffices.
   Termination of the classic portfolio is NOT claimed here. *)
From Coq Require Import List Ascii String ZArith Bool Lia.
From Anthem Require Import Base.ISet Syntax.Fol Model.Apply Model.Strategy Model.SimplIntuit
  Proofs.SimplCongr Proofs.SimplIntuitOk.
Import ListNotations.
Open Scope list_scope.

(* ---------- generic facts about the fixpoint loop ---------- *)
Lemma apply_fixpoint_from_exit fuel r : forall previous current G,
  current = apply r previous ->
  apply_fixpoint_from fuel r previous current = Some G -> apply r G = G.
Proof.
  induction fuel as [|n IH]; intros previous current G Hinv; cbn.
  - destruct (formula_eqb_spec previous current) as [Heq|Hne]; [|discriminate].
    intros [= <-]. congruence.
  - destruct (formula_eqb_spec previous current) as [Heq|Hne].
    + intros [= <-]. congruence.
    + apply IH. reflexivity.
Qed.
Theorem apply_fixpoint_idem fuel r F G : apply_fixpoint fuel r F = Some G -> apply r G = G.
Proof. unfold apply_fixpoint. apply apply_fixpoint_from_exit. reflexivity. Qed.

Theorem apply_fixpoint_again fuel r F G :
  apply_fixpoint fuel r F = Some G -> forall fuel', apply_fixpoint fuel' r G = Some G.
Proof.
  intros Hfix fuel'. apply apply_fixpoint_idem in Hfix. unfold apply_fixpoint. rewrite Hfix.
  destruct fuel'; cbn; destruct (formula_eqb_spec G G); congruence.
Qed.

(* ---------- the measure ---------- *)
Definition decreasing (r : formula -> formula) : Prop := forall F, r F = F \/ mu (r F) < mu F.

Lemma mu_chain_pos gs : 2 <= mu_chain gs.
Proof. destruct gs as [|g gs]; cbn; lia. Qed.
Lemma mu_pos F : 1 <= mu F.
Proof.
  destruct F as [[| |p ts|t gs]|f|c l r|q vs f]; cbn [mu mu_atomic]; try lia.
  - pose proof (mu_chain_pos gs); lia.
  - destruct c; cbn; lia.
Qed.

Ltac prop_decreasing r :=
  let F := fresh "F" in
  intros F; unfold r; break_rule; cbn [conjoin reduce_bin fold_left];
  try (left; reflexivity);
  right;
  repeat match goal with
         | f : formula |- _ =>
             lazymatch goal with
             | _ : 1 <= mu f |- _ => fail
             | _ => pose proof (mu_pos f)
             end
         end;
  repeat match goal with
         | gs : list guard |- _ =>
             lazymatch goal with
             | _ : 2 <= mu_chain gs |- _ => fail
             | _ => pose proof (mu_chain_pos gs)
             end
         end;
  cbn [mu mu_atomic mu_conn]; lia.

(* evaluate_comparisons *)
Lemma mu_fold_and xs : forall x0,
  (forall x, In x xs -> mu x <= 2) ->
  mu (fold_left (fun acc x => FBin CAnd acc x) xs x0) <= mu x0 + 3 * List.length xs.
Proof.
  induction xs as [|x xs IH]; intros x0 Hb; cbn [fold_left List.length]; [lia|].
  etransitivity; [apply IH; intros y Hy; apply Hb; cbn; auto|].
  cbn [mu mu_conn]. pose proof (Hb x (or_introl eq_refl)). lia.
Qed.
Lemma evaluate_comparisons_guards_small gs : forall t x,
  In x (evaluate_comparisons_guards t gs) -> mu x <= 2.
Proof.
  induction gs as [|g gs IH]; intros t x; cbn [evaluate_comparisons_guards]; [intros []|].
  intros [<-|Hx]; [|eapply IH, Hx].
  destruct (gterm_eqb t (gterm_of g)); [destruct (grel g)|]; cbn; lia.
Qed.
Lemma evaluate_comparisons_guards_length gs : forall t,
  List.length (evaluate_comparisons_guards t gs) = List.length gs.
Proof. induction gs as [|g gs IH]; intros t; cbn; auto. Qed.

Lemma evaluate_comparisons_decreasing : decreasing evaluate_comparisons.
Proof.
  intros F. destruct F as [[| |p ts|t gs]|f|c l r|q vs f]; try (left; reflexivity).
  cbn [evaluate_comparisons].
  destruct gs as [|g [|g2 gs]].
  - right. cbn. lia.
  - cbn [evaluate_comparisons_guards conjoin reduce_bin fold_left].
    destruct (gterm_eqb t (gterm_of g)).
    + right. destruct (grel g); cbn; lia.
    + left. destruct g; reflexivity.
  - right.
    remember (g2 :: gs) as gs' eqn:Hgs.
    assert (Hlen : 1 <= List.length gs') by (subst; cbn; lia).
    cbn [evaluate_comparisons_guards conjoin reduce_bin].
    set (x0 := FAtomic _).
    assert (Hx0 : mu x0 <= 2).
    { apply (evaluate_comparisons_guards_small (g :: gs') t). cbn [evaluate_comparisons_guards]. left; reflexivity. }
    pose proof (mu_fold_and (evaluate_comparisons_guards (gterm_of g) gs') x0
                  (evaluate_comparisons_guards_small gs' (gterm_of g))) as Hm.
    rewrite evaluate_comparisons_guards_length in Hm.
    cbn [mu mu_atomic mu_chain List.length]. lia.
Qed.

Lemma apply_negation_definition_inverse_decreasing : decreasing apply_negation_definition_inverse.
Proof. prop_decreasing apply_negation_definition_inverse. Qed.
Lemma apply_reverse_implication_definition_decreasing : decreasing apply_reverse_implication_definition.
Proof. prop_decreasing apply_reverse_implication_definition. Qed.
Lemma apply_equivalence_definition_inverse_decreasing : decreasing apply_equivalence_definition_inverse.
Proof. prop_decreasing apply_equivalence_definition_inverse. Qed.
Lemma remove_identities_decreasing : decreasing remove_identities.
Proof. prop_decreasing remove_identities. Qed.
Lemma remove_annihilations_decreasing : decreasing remove_annihilations.
Proof. prop_decreasing remove_annihilations. Qed.
Lemma remove_idempotences_decreasing : decreasing remove_idempotences.
Proof. prop_decreasing remove_idempotences. Qed.

Lemma filter_length_le' {A} (p : A -> bool) l : List.length (filter p l) <= List.length l.
Proof. induction l as [|a l IH]; cbn; [lia|]. destruct (p a); cbn; lia. Qed.
Lemma filter_same_or_shorter {A} (p : A -> bool) l :
  filter p l = l \/ List.length (filter p l) < List.length l.
Proof.
  induction l as [|a l IH]; cbn; [auto|].
  destruct (p a); cbn.
  - destruct IH as [->|IH]; [auto|right; lia].
  - right. pose proof (filter_length_le' p l). lia.
Qed.
Lemma remove_orphaned_variables_decreasing : decreasing remove_orphaned_variables.
Proof.
  intros F. destruct F as [a|f|c l r|q vs f]; try (left; reflexivity).
  cbn [remove_orphaned_variables].
  destruct (filter_same_or_shorter (fun v => memb var_dec v (free_variables f)) vs) as [->|Hlt];
    [left; reflexivity|right; cbn [mu]; lia].
Qed.
Lemma remove_empty_quantifications_decreasing : decreasing remove_empty_quantifications.
Proof.
  intros F. destruct F as [a|f|c l r|q [|v vs] f]; try (left; reflexivity). right. cbn. lia.
Qed.

Lemma var_insert_length v l : List.length (var_insert v l) = S (List.length l).
Proof. induction l as [|w l IH]; cbn; auto. destruct (var_leb v w); cbn; auto. Qed.
Lemma var_sort_length l : List.length (var_sort l) = List.length l.
Proof. unfold var_sort. induction l as [|w l IH]; cbn; auto. rewrite var_insert_length; auto. Qed.
Lemma var_dedup_length l : List.length (var_dedup l) <= List.length l.
Proof.
  induction l as [|a l IH]; [cbn; lia|].
  destruct l as [|b l']; [cbn; lia|].
  change (var_dedup (a :: b :: l')) with (if var_eqb a b then var_dedup (b :: l') else a :: var_dedup (b :: l')).
  destruct (var_eqb a b); cbn [List.length] in *; lia.
Qed.
Lemma mu_quantify f q vs : mu (quantify f q vs) <= 1 + List.length vs + mu f.
Proof. destruct vs; cbn; lia. Qed.
Lemma join_nested_quantifiers_decreasing : decreasing join_nested_quantifiers.
Proof.
  intros F. destruct F as [a|f|c l r|q vs [a|f|c l r|q' ws g]]; try (left; reflexivity).
  cbn [join_nested_quantifiers]. destruct (quant_dec q q') as [<-|Hne]; [|left; reflexivity].
  right.
  pose proof (mu_quantify g q (var_dedup (var_sort (vs ++ ws)))) as Hm.
  pose proof (var_dedup_length (var_sort (vs ++ ws))) as Hd.
  rewrite var_sort_length, app_length in Hd. cbn [mu]. lia.
Qed.

Lemma INTUITIONISTIC_decreasing : Forall decreasing INTUITIONISTIC.
Proof.
  unfold INTUITIONISTIC. repeat (apply Forall_cons || apply Forall_nil).
  - exact evaluate_comparisons_decreasing.
  - exact apply_negation_definition_inverse_decreasing.
  - exact apply_reverse_implication_definition_decreasing.
  - exact apply_equivalence_definition_inverse_decreasing.
  - exact remove_identities_decreasing.
  - exact remove_annihilations_decreasing.
  - exact remove_idempotences_decreasing.
  - exact remove_orphaned_variables_decreasing.
  - exact remove_empty_quantifications_decreasing.
  - exact join_nested_quantifiers_decreasing.
Qed.
Lemma portfolio_ht_decreasing : Forall decreasing portfolio_ht.
Proof. apply Forall_app; split; [apply INTUITIONISTIC_decreasing|constructor]. Qed.

(* ---------- the measure goes through compose, apply and the loop ---------- *)
Lemma compose_decreasing rs : Forall decreasing rs -> decreasing (compose rs).
Proof.
  unfold compose. induction rs as [|r rs IH]; intros Hrs F; cbn; [auto|].
  inversion Hrs as [|? ? Hr Hrs']; subst.
  destruct (Hr F) as [->|Hlt]; [apply IH, Hrs'|].
  right. destruct (IH Hrs' (r F)) as [->|Hlt']; lia.
Qed.

Lemma apply_decreasing r : decreasing r -> decreasing (apply r).
Proof.
  intros Hr F. induction F as [a|f IH|c l IHl r0 IHr|q vs f IH]; rewrite apply_unfold.
  - apply Hr.
  - destruct IH as [->|Hlt]; [apply Hr|].
    right. destruct (Hr (FNot (apply r f))) as [->|Hlt']; cbn [mu] in *; lia.
  - destruct IHl as [->|Hl]; destruct IHr as [->|Hr0]; try apply Hr; right;
      match goal with |- mu (r ?X) < _ => destruct (Hr X) as [->|Hlt'] end; cbn [mu] in *; lia.
  - destruct IH as [->|Hlt]; [apply Hr|].
    right. destruct (Hr (FQ q vs (apply r f))) as [->|Hlt']; cbn [mu] in *; lia.
Qed.

Lemma apply_fixpoint_from_total r (Hr : decreasing (apply r)) fuel : forall previous current,
  mu current < fuel -> exists G, apply_fixpoint_from fuel r previous current = Some G.
Proof.
  induction fuel as [|n IH]; intros previous current Hlt; [lia|].
  cbn. destruct (formula_eqb previous current); [eauto|].
  destruct (Hr current) as [Heq|Hdec].
  - rewrite Heq. exists current. destruct n; cbn; destruct (formula_eqb_spec current current); congruence.
  - apply IH. lia.
Qed.

Theorem apply_fixpoint_total r F :
  decreasing r -> exists G, apply_fixpoint (S (mu F)) r F = Some G.
Proof.
  intros Hr. pose proof (apply_decreasing r Hr) as Ha.
  unfold apply_fixpoint. apply apply_fixpoint_from_total; auto.
  destruct (Ha F) as [->|Hlt]; lia.
Qed.

(* ---------- statements used by Properties/C18.v ---------- *)
Theorem int_step_decreasing : forall F,
  apply (compose INTUITIONISTIC) F = F \/ mu (apply (compose INTUITIONISTIC) F) < mu F.
Proof. apply apply_decreasing, compose_decreasing, INTUITIONISTIC_decreasing. Qed.

Theorem int_fixpoint_terminates : forall F,
  exists G, apply_fixpoint (S (mu F)) (compose INTUITIONISTIC) F = Some G.
Proof. intros F. apply apply_fixpoint_total, compose_decreasing, INTUITIONISTIC_decreasing. Qed.

Theorem ht_fixpoint_terminates : forall F,
  exists G, apply_fixpoint (S (mu F)) (compose (INTUITIONISTIC ++ HT)) F = Some G.
Proof. intros F. apply apply_fixpoint_total, compose_decreasing, portfolio_ht_decreasing. Qed.

(* the model's simplify_int / simplify_ht (fuel = simplify_fuel F) never run out of fuel *)
Theorem simplify_int_total s F : exists G, simplify_int s F = Some G.
Proof.
  unfold simplify_int, run_strategy. destruct s; eauto. apply int_fixpoint_terminates.
Qed.
Theorem simplify_ht_total s F : exists G, simplify_ht s F = Some G.
Proof.
  unfold simplify_ht, run_strategy. destruct s; eauto. apply ht_fixpoint_terminates.
Qed.
