(* val_spec: the formula val_t(Z) built by tau_star.rs::val holds exactly when Z's value is one of
   the values of t (reference semantics Sem/AspRef.vals), for every term including / and \. *)
From Coq Require Import List Ascii String ZArith Bool Lia.
From Anthem Require Import Base.ISet Syntax.Fol Syntax.Asp Sem.Domain Sem.Sat Sem.AspRef
  Model.FreshNames Model.TauStar Proofs.FreshNamesOk Proofs.TauStarBase.
Import ListNotations.
Open Scope string_scope.
Open Scope list_scope.

(* the side condition on z: an integer-sorted z must not be named like the Q / R binders that
   construct_partial_function_formula picks without looking at z.  Every z that tau* passes to val
   is general-sorted (Z<n>, V<n>) or integer-sorted with a name I<n> / J<n>: see z_ok_general, z_ok_I. *)
Definition z_ok (z : var) : Prop :=
  vsort z = SInteger -> forall s, vname z <> String "Q" s /\ vname z <> String "R" s.

Lemma z_ok_general x : z_ok (gvar x).
Proof. intros H; discriminate. Qed.
Lemma z_ok_head (c : ascii) s : c <> "Q"%char -> c <> "R"%char -> z_ok (ivar (String c s)).
Proof. intros H1 H2 _ s'. cbn. split; intros E; inversion E; congruence. Qed.

Lemma z_ok_I s : z_ok (ivar (String "I" s)).
Proof. intros _ s'. cbn. split; intros E; discriminate E. Qed.
Lemma z_ok_J s : z_ok (ivar (String "J" s)).
Proof. intros _ s'. cbn. split; intros E; discriminate E. Qed.

Definition zop (o : abinop) (a b : Z) : Z :=
  match o with AAdd => a + b | ASub => a - b | _ => a * b end%Z.

Definition zrel (r : rel) (a b : Z) : Prop :=
  match r with
  | REq => a = b | RNe => a <> b | RLt => a < b | RLe => a <= b | RGt => a > b | RGe => a >= b
  end%Z.
Lemma rel_sat_num r a b : rel_sat r (VNum a) (VNum b) = true <-> zrel r a b.
Proof.
  destruct r; cbn; unfold glt; cbn;
    rewrite ?andb_true_iff, ?negb_true_iff, ?Z.leb_le, ?Z.eqb_eq, ?Z.eqb_neq; lia.
Qed.

Section Val.
Variable FI : fint.
Variable I : pint.

Lemma sat_eq_formula e l r : csat FI I e (eq_formula l r) <-> ev_g FI e l = ev_g FI e r.
Proof. unfold eq_formula; cbn. rewrite andb_true_r. apply gval_eqb_eq. Qed.

Lemma sat_cmp1 e a r b :
  csat FI I e (FAtomic (ACmp (GInt a) [mkguard r (GInt b)])) <-> zrel r (ev_i FI e a) (ev_i FI e b).
Proof. cbn. rewrite andb_true_r. apply rel_sat_num. Qed.

Lemma sat_range e a b c :
  csat FI I e (FAtomic (ACmp (GInt a) [mkguard RLe (GInt b); mkguard RLe (GInt c)])) <->
  (ev_i FI e a <= ev_i FI e b <= ev_i FI e c)%Z.
Proof. cbn. rewrite andb_true_r, andb_true_iff, !Z.leb_le. tauto. Qed.

Lemma qsat_exists_ivar x vs (k : env -> Prop) e :
  qsat QExists (ivar x :: vs) k e <-> exists n, qsat QExists vs k (upd e (ivar x) (VNum n)).
Proof.
  cbn [qsat]. split.
  - intros [d [Hd Hq]]. apply in_sort_int in Hd. destruct Hd as [n ->]. eauto.
  - intros [n Hq]. exists (VNum n). split; [exact Logic.I|exact Hq].
Qed.

(* leaves *)
Lemma sat_equality t z e :
  (match t with TPre _ | TVar _ => True | _ => False end) ->
  csat FI I e (construct_equality_formula t z) <-> vals (eg e) t (getv e z).
Proof.
  intros Hl. unfold construct_equality_formula, z_var_term.
  rewrite sat_eq_formula, ev_g_var_to_gterm.
  destruct t as [p|x|o a|o l r]; try tauto.
  destruct p; cbn; tauto.
Qed.

Lemma ev_total_binop e o x y :
  ev_i FI e (IBin (total_binop o) x y) = zop o (ev_i FI e x) (ev_i FI e y).
Proof. destruct o; reflexivity. Qed.

Opaque eq_formula.

(* exists I J (Z = I op J & vi & vj) *)
Lemma sat_total o e vi vj i j z (Pi Pj : Z -> Prop) :
  i <> j -> nocap z i -> nocap z j ->
  (forall e', eg e' = eg e -> (csat FI I e' vi <-> Pi (ei e' i))) ->
  (forall e', eg e' = eg e -> (csat FI I e' vj <-> Pj (ei e' j))) ->
  csat FI I e (construct_total_function_formula vi vj o (ivar i) (ivar j) z) <->
  exists a b, Pi a /\ Pj b /\ getv e z = VNum (zop o a b).
Proof.
  intros Hij Hzi Hzj Hvi Hvj. unfold construct_total_function_formula. cbn [vname ivar].
  cbn [csat]. rewrite qsat_exists_ivar.
  assert (Henv : forall a b, eg (upd (upd e (ivar i) (VNum a)) (ivar j) (VNum b)) = eg e)
    by (intros; rewrite !eg_upd_ivar; reflexivity).
  split.
  - intros [a Hq]. apply qsat_exists_ivar in Hq. destruct Hq as [b Hq]. cbn [qsat csat] in Hq.
    destruct Hq as [[Hc Hl] Hr].
    apply (Hvi _ (Henv a b)) in Hl. apply (Hvj _ (Henv a b)) in Hr.
    rewrite ei_upd_same in Hr. rewrite ei_upd_other, ei_upd_same in Hl by exact Hij.
    exists a, b. repeat split; auto.
    apply sat_eq_formula in Hc. unfold z_var_term in Hc. rewrite ev_g_var_to_gterm in Hc.
    rewrite !getv_upd_ivar_other in Hc by assumption. rewrite Hc. cbn [ev_g]. rewrite ev_total_binop.
    cbn [ev_i]. rewrite ei_upd_same. rewrite ei_upd_other, ei_upd_same by exact Hij. reflexivity.
  - intros [a [b [Hl [Hr Hz]]]]. exists a. apply qsat_exists_ivar. exists b. cbn [qsat csat].
    repeat split.
    + apply sat_eq_formula. unfold z_var_term. rewrite ev_g_var_to_gterm.
      rewrite !getv_upd_ivar_other by assumption. rewrite Hz. cbn [ev_g]. rewrite ev_total_binop.
      cbn [ev_i]. rewrite ei_upd_same. rewrite ei_upd_other, ei_upd_same by exact Hij. reflexivity.
    + apply (Hvi _ (Henv a b)). rewrite ei_upd_other, ei_upd_same by exact Hij. exact Hl.
    + apply (Hvj _ (Henv a b)). rewrite ei_upd_same. exact Hr.
Qed.

(* exists I J K (vi & vj & Z = K & I <= K <= J) *)
Lemma sat_interval e vi vj i j k z (Pi Pj : Z -> Prop) :
  i <> j -> i <> k -> j <> k -> nocap z i -> nocap z j -> nocap z k ->
  (forall e', eg e' = eg e -> (csat FI I e' vi <-> Pi (ei e' i))) ->
  (forall e', eg e' = eg e -> (csat FI I e' vj <-> Pj (ei e' j))) ->
  csat FI I e (construct_interval_formula vi vj (ivar i) (ivar j) (ivar k) z) <->
  exists a b c, Pi a /\ Pj b /\ (a <= c <= b)%Z /\ getv e z = VNum c.
Proof.
  intros Hij Hik Hjk Hzi Hzj Hzk Hvi Hvj. unfold construct_interval_formula. cbn [vname ivar].
  cbn [csat]. rewrite qsat_exists_ivar.
  assert (Henv : forall a b c, eg (upd (upd (upd e (ivar i) (VNum a)) (ivar j) (VNum b)) (ivar k) (VNum c)) = eg e)
    by (intros; rewrite !eg_upd_ivar; reflexivity).
  assert (Hi : forall a b c, ei (upd (upd (upd e (ivar i) (VNum a)) (ivar j) (VNum b)) (ivar k) (VNum c)) i = a)
    by (intros; rewrite !ei_upd_other, ei_upd_same by assumption; reflexivity).
  assert (Hj : forall a b c, ei (upd (upd (upd e (ivar i) (VNum a)) (ivar j) (VNum b)) (ivar k) (VNum c)) j = b)
    by (intros; rewrite ei_upd_other, ei_upd_same by assumption; reflexivity).
  assert (Hk : forall a b c, ei (upd (upd (upd e (ivar i) (VNum a)) (ivar j) (VNum b)) (ivar k) (VNum c)) k = c)
    by (intros; rewrite ei_upd_same; reflexivity).
  split.
  - intros [a Hq]. apply qsat_exists_ivar in Hq. destruct Hq as [b Hq].
    apply qsat_exists_ivar in Hq. destruct Hq as [c Hq]. cbn [qsat csat] in Hq.
    destruct Hq as [[[Hl Hr] Hc] Hrg].
    apply (Hvi _ (Henv a b c)) in Hl. apply (Hvj _ (Henv a b c)) in Hr. rewrite Hi in Hl. rewrite Hj in Hr.
    apply sat_range in Hrg. cbn [ev_i] in Hrg. rewrite Hi, Hj, Hk in Hrg.
    apply sat_eq_formula in Hc. unfold z_var_term in Hc. rewrite ev_g_var_to_gterm in Hc.
    rewrite !getv_upd_ivar_other in Hc by assumption. cbn [ev_g ev_i] in Hc. rewrite Hk in Hc.
    exists a, b, c. auto.
  - intros [a [b [c [Hl [Hr [Hrg Hz]]]]]]. exists a. apply qsat_exists_ivar. exists b.
    apply qsat_exists_ivar. exists c. cbn [qsat csat]. repeat split.
    + apply (Hvi _ (Henv a b c)). rewrite Hi. exact Hl.
    + apply (Hvj _ (Henv a b c)). rewrite Hj. exact Hr.
    + apply sat_eq_formula. unfold z_var_term. rewrite ev_g_var_to_gterm.
      rewrite !getv_upd_ivar_other by assumption. cbn [ev_g ev_i]. rewrite Hk. exact Hz.
    + apply sat_range. cbn [ev_i]. rewrite Hi, Hj, Hk. exact Hrg.
Qed.

(* exists I J Q R (I = J * Q + R & vi & vj & J != 0 & R >= 0 & R < J & Z = Q|R) *)
Lemma sat_partial o e vi vj si sj z (Pi Pj : Z -> Prop) :
  let i := String "I" si in
  let j := String "J" sj in
  (o = ADiv \/ o = AMod) ->
  nocap z i -> nocap z j -> z_ok z ->
  (forall e', eg e' = eg e -> (csat FI I e' vi <-> Pi (ei e' i))) ->
  (forall e', eg e' = eg e -> (csat FI I e' vj <-> Pj (ei e' j))) ->
  csat FI I e (construct_partial_function_formula vi vj o (ivar i) (ivar j) z) <->
  exists a b q r, Pi a /\ Pj b /\ (a = b * q + r /\ 0 <= r < b)%Z /\
                  getv e z = VNum (match o with ADiv => q | _ => r end).
Proof.
  intros i j Ho Hzi Hzj Hzok Hvi Hvj. unfold construct_partial_function_formula. cbn [vname ivar].
  set (taken := map vname _).
  destruct (fresh_one_head taken "Q") as [sq Eq]. destruct (fresh_one_head taken "R") as [sr Er].
  set (qv := fresh_one taken "Q") in *. set (rv := fresh_one taken "R") in *.
  assert (Hij : i <> j) by (unfold i, j; discriminate).
  assert (Hiq : i <> qv) by (rewrite Eq; unfold i; discriminate).
  assert (Hir : i <> rv) by (rewrite Er; unfold i; discriminate).
  assert (Hjq : j <> qv) by (rewrite Eq; unfold j; discriminate).
  assert (Hjr : j <> rv) by (rewrite Er; unfold j; discriminate).
  assert (Hqr : qv <> rv) by (rewrite Eq, Er; discriminate).
  assert (Hzq : nocap z qv) by (intros Hs; rewrite Eq; apply (Hzok Hs)).
  assert (Hzr : nocap z rv) by (intros Hs; rewrite Er; apply (Hzok Hs)).
  set (E4 := fun a b q r => upd (upd (upd (upd e (ivar i) (VNum a)) (ivar j) (VNum b)) (ivar qv) (VNum q)) (ivar rv) (VNum r)).
  assert (Henv : forall a b q r, eg (E4 a b q r) = eg e) by (intros; unfold E4; rewrite !eg_upd_ivar; reflexivity).
  assert (Hi : forall a b q r, ei (E4 a b q r) i = a)
    by (intros; unfold E4; rewrite !ei_upd_other, ei_upd_same by assumption; reflexivity).
  assert (Hj : forall a b q r, ei (E4 a b q r) j = b)
    by (intros; unfold E4; rewrite !ei_upd_other, ei_upd_same by assumption; reflexivity).
  assert (Hq : forall a b q r, ei (E4 a b q r) qv = q)
    by (intros; unfold E4; rewrite !ei_upd_other, ei_upd_same by assumption; reflexivity).
  assert (Hr : forall a b q r, ei (E4 a b q r) rv = r)
    by (intros; unfold E4; rewrite ei_upd_same; reflexivity).
  assert (Hgz : forall a b q r, getv (E4 a b q r) z = getv e z)
    by (intros; unfold E4; rewrite !getv_upd_ivar_other by assumption; reflexivity).
  (* the last conjunct, Z = Q or Z = R *)
  assert (Hzeq : forall a b q r,
    csat FI I (E4 a b q r) (match o with
                            | ADiv => eq_formula (z_var_term z) (GInt (IVar qv))
                            | _ => eq_formula (z_var_term z) (GInt (IVar rv)) end) <->
    getv e z = VNum (match o with ADiv => q | _ => r end)).
  { intros a b q r. destruct Ho as [-> | ->]; rewrite sat_eq_formula; unfold z_var_term;
      rewrite ev_g_var_to_gterm, Hgz; cbn [ev_g ev_i]; rewrite ?Hq, ?Hr; tauto. }
  cbn [csat]. rewrite qsat_exists_ivar. split.
  - intros [a Hx]. apply qsat_exists_ivar in Hx. destruct Hx as [b Hx].
    apply qsat_exists_ivar in Hx. destruct Hx as [q Hx]. apply qsat_exists_ivar in Hx. destruct Hx as [r Hx].
    cbn [qsat] in Hx. fold (E4 a b q r) in Hx. cbn [csat] in Hx.
    destruct Hx as [[[Hie [Hl Hrr]] [[Hc1 Hc2] Hc3]] Hz].
    apply (Hvi _ (Henv a b q r)) in Hl. apply (Hvj _ (Henv a b q r)) in Hrr. rewrite Hi in Hl. rewrite Hj in Hrr.
    apply sat_eq_formula in Hie. cbn [ev_g ev_i] in Hie. rewrite Hi, Hj, Hq, Hr in Hie.
    apply sat_cmp1 in Hc1. apply sat_cmp1 in Hc2. apply sat_cmp1 in Hc3.
    cbn [ev_i zrel] in Hc1, Hc2, Hc3. rewrite Hj in Hc1. rewrite Hr in Hc2. rewrite Hr, Hj in Hc3.
    apply Hzeq in Hz. injection Hie as Hie.
    exists a, b, q, r. repeat split; auto; lia.
  - intros [a [b [q [r [Hl [Hrr [[Har Hrg] Hz]]]]]]]. exists a. apply qsat_exists_ivar. exists b.
    apply qsat_exists_ivar. exists q. apply qsat_exists_ivar. exists r. cbn [qsat]. fold (E4 a b q r).
    cbn [csat]. repeat split.
    + apply sat_eq_formula. cbn [ev_g ev_i]. rewrite Hi, Hj, Hq, Hr. f_equal. lia.
    + apply (Hvi _ (Henv a b q r)). rewrite Hi. exact Hl.
    + apply (Hvj _ (Henv a b q r)). rewrite Hj. exact Hrr.
    + apply sat_cmp1. cbn [ev_i zrel]. rewrite Hj. lia.
    + apply sat_cmp1. cbn [ev_i zrel]. rewrite Hr. lia.
    + apply sat_cmp1. cbn [ev_i zrel]. rewrite Hr, Hj. lia.
    + apply Hzeq. exact Hz.
Qed.

(* facts about the names val picks *)
Lemma val_taken_z t z : In (vname z) (val_taken t z).
Proof. unfold val_taken. apply in_map. apply in_iset_insert. right; reflexivity. Qed.

Lemma val_names t z :
  exists si sj sk,
    fresh_one (val_taken t z) "I" = String "I" si /\
    fresh_one (val_taken t z) "J" = String "J" sj /\
    fresh_one (val_taken t z) "K" = String "K" sk /\
    vname z <> String "I" si /\ vname z <> String "J" sj /\ vname z <> String "K" sk.
Proof.
  destruct (fresh_one_head (val_taken t z) "I") as [si Ei].
  destruct (fresh_one_head (val_taken t z) "J") as [sj Ej].
  destruct (fresh_one_head (val_taken t z) "K") as [sk Ek].
  exists si, sj, sk. repeat split; auto.
  - intros E. apply (fresh_one_notin (val_taken t z) "I"). rewrite Ei, <- E. apply val_taken_z.
  - intros E. apply (fresh_one_notin (val_taken t z) "J"). rewrite Ej, <- E. apply val_taken_z.
  - intros E. apply (fresh_one_notin (val_taken t z) "K"). rewrite Ek, <- E. apply val_taken_z.
Qed.

Theorem val_spec t : forall z e, z_ok z ->
  (csat FI I e (val t z) <-> vals (eg e) t (getv e z)).
Proof.
  induction t as [p|x|o a IHa|o l IHl r IHr]; intros z e Hzok.
  - cbn [val]. apply sat_equality. exact Logic.I.
  - cbn [val]. apply sat_equality. exact Logic.I.
  - destruct o. cbn [val].
    destruct (val_names (TUn AUNeg a) z) as (si & sj & sk & Ei & Ej & Ek & Hzi & Hzj & Hzk).
    rewrite Ei, Ej.
    rewrite (sat_total ASub e _ _ (String "I" si) (String "J" sj) z
               (fun n => n = 0%Z) (fun n => vals (eg e) a (VNum n))).
    + cbn [vals zop]. split.
      * intros [x [b [-> [Hb Hz]]]]. exists b. auto.
      * intros [n [Hn Hz]]. exists 0%Z, n. auto.
    + discriminate.
    + intros _. exact Hzi.
    + intros _. exact Hzj.
    + intros e' He'. rewrite sat_equality by exact Logic.I. cbn [vals pval]. rewrite getv_ivar.
      split; [intros [= ->]; reflexivity|intros ->; reflexivity].
    + intros e' He'. rewrite IHa by apply z_ok_J. rewrite He', getv_ivar. tauto.
  - destruct (val_names (TBin o l r) z) as (si & sj & sk & Ei & Ej & Ek & Hzi & Hzj & Hzk).
    assert (Hvi : forall e', eg e' = eg e ->
              (csat FI I e' (val l (ivar (String "I" si))) <-> vals (eg e) l (VNum (ei e' (String "I" si))))).
    { intros e' He'. rewrite IHl by apply z_ok_I. rewrite He', getv_ivar. tauto. }
    assert (Hvj : forall e', eg e' = eg e ->
              (csat FI I e' (val r (ivar (String "J" sj))) <-> vals (eg e) r (VNum (ei e' (String "J" sj))))).
    { intros e' He'. rewrite IHr by apply z_ok_J. rewrite He', getv_ivar. tauto. }
    assert (Hni : nocap z (String "I" si)) by (intros _; exact Hzi).
    assert (Hnj : nocap z (String "J" sj)) by (intros _; exact Hzj).
    assert (Hnk : nocap z (String "K" sk)) by (intros _; exact Hzk).
    assert (Hij : String "I" si <> String "J" sj) by discriminate.
    assert (Hik : String "I" si <> String "K" sk) by discriminate.
    assert (Hjk : String "J" sj <> String "K" sk) by discriminate.
    destruct o; cbn [val]; rewrite Ei, Ej, ?Ek.
    + rewrite (sat_total AAdd e _ _ _ _ z (fun n => vals (eg e) l (VNum n)) (fun n => vals (eg e) r (VNum n)) Hij Hni Hnj Hvi Hvj).
      cbn [vals zop]. split.
      * intros [a [b [Ha [Hb Hz]]]]. eauto.
      * intros [a [b [Ha [Hb Hz]]]]. eauto.
    + rewrite (sat_total ASub e _ _ _ _ z (fun n => vals (eg e) l (VNum n)) (fun n => vals (eg e) r (VNum n)) Hij Hni Hnj Hvi Hvj).
      cbn [vals zop]. split.
      * intros [a [b [Ha [Hb Hz]]]]. eauto.
      * intros [a [b [Ha [Hb Hz]]]]. eauto.
    + rewrite (sat_total AMul e _ _ _ _ z (fun n => vals (eg e) l (VNum n)) (fun n => vals (eg e) r (VNum n)) Hij Hni Hnj Hvi Hvj).
      cbn [vals zop]. split.
      * intros [a [b [Ha [Hb Hz]]]]. eauto.
      * intros [a [b [Ha [Hb Hz]]]]. eauto.
    + rewrite (sat_partial ADiv e _ _ si sj z (fun n => vals (eg e) l (VNum n)) (fun n => vals (eg e) r (VNum n)) (or_introl eq_refl) Hni Hnj Hzok Hvi Hvj).
      cbn [vals]. split.
      * intros [a [b [q [m [Ha [Hb [Har Hz]]]]]]]. exists a, b, q, m. auto.
      * intros [a [b [q [m [Ha [Hb [Har Hz]]]]]]]. exists a, b, q, m. auto.
    + rewrite (sat_partial AMod e _ _ si sj z (fun n => vals (eg e) l (VNum n)) (fun n => vals (eg e) r (VNum n)) (or_intror eq_refl) Hni Hnj Hzok Hvi Hvj).
      cbn [vals]. split.
      * intros [a [b [q [m [Ha [Hb [Har Hz]]]]]]]. exists a, b, q, m. auto.
      * intros [a [b [q [m [Ha [Hb [Har Hz]]]]]]]. exists a, b, q, m. auto.
    + rewrite (sat_interval e _ _ _ _ _ z (fun n => vals (eg e) l (VNum n)) (fun n => vals (eg e) r (VNum n)) Hij Hik Hjk Hni Hnj Hnk Hvi Hvj).
      cbn [vals]. split.
      * intros [a [b [c [Ha [Hb [Hr Hz]]]]]]. exists a, b, c. auto.
      * intros [a [b [c [Ha [Hb [Hr Hz]]]]]]. exists a, b, c. auto.
Qed.

(* val_t(Z) contains no atoms, negations or implications *)
Lemma val_posfree t : forall z, posfree (val t z).
Proof.
  Transparent eq_formula.
  induction t as [p|x|o a IHa|o l IHl r IHr]; intros z.
  - cbn. exact Logic.I.
  - cbn. exact Logic.I.
  - destruct o. cbn [val]. unfold construct_total_function_formula. cbn. auto.
  - destruct o; cbn [val];
      unfold construct_total_function_formula, construct_partial_function_formula, construct_interval_formula;
      cbn [posfree eq_formula]; repeat split; auto.
  Opaque eq_formula.
Qed.
End Val.

(* in the here world of any HT interpretation val_t(Z) means the same *)
Corollary val_spec_ht FI H T t z e : z_ok z ->
  (hsat FI H T e (val t z) <-> vals (eg e) t (getv e z)).
Proof.
  intros Hz. rewrite (posfree_hsat FI H T T) by apply val_posfree. apply val_spec. exact Hz.
Qed.
