(* Audit A18 (a): C13_sound instantiated on REAL tasks, proof outline included.

   Proofs/OutlineSound.direction_sound quantifies over arbitrary lists (stable premises, premises,
   definitions, lemmas, conclusions) and has seven side conditions.  Here they are discharged for
   the output of ExternalEquivalenceTask::decompose (Model/External.v, any components; then
   Model/ExternalFull.v with the real ones):

     roles                      from the assembly (AssemblyOk.validated_assemble_contribs)
     definitions conservative   from the accepted outline (OutlineOk.accepted_definitions_conservative)
     lemmas sound               from the accepted outline (OutlineOk.from_specification_ok)
     vocabulary in [taken]      the outline is checked against inputs + predicates of both sides,
                                and every premise / conclusion is a formula of a side, a broken part
                                of one, or a user-guide assumption (over input predicates: C11)
     coverage of [fs]           fs := ExternalOk.at_formulas of the assembled task

   What remains a premise: [validated_no_clash] (no symbol of a formula equals a 0-ary predicate:
   finding F8b; decidable on the task) - as in C02 / C19. *)
From Coq Require Import List Ascii String ZArith NArith Bool Lia Classical_Prop.
From Anthem Require Import Base.ISet Base.Fresh Syntax.Fol Syntax.Asp Sem.Domain Sem.Sat
  Model.Subst Model.Break Model.Problem Model.Outline Model.Strong Model.External
  Model.Tightness Model.PrivRec Model.TauStar Model.Completion Model.ExternalFull
  Proofs.SemBase Proofs.ExtendAll Proofs.FreeVars Proofs.DecomposeOk Proofs.StrongOk Proofs.ExternalOk Proofs.AssemblyOk
  Proofs.OutlineOk Proofs.OutlineSound Proofs.SubstOk Proofs.PlaceholderOk Proofs.C19Ext.
Import ListNotations.
Open Scope string_scope.
Open Scope list_scope.

(* ---------- predicates of broken formulas ---------- *)
Lemma predicates_quantify f q vs : predicates (quantify f q vs) = predicates f.
Proof. destruct vs; reflexivity. Qed.
Lemma break_predicates f : forall g, In g (break_equivalences_formula f) -> incl (predicates g) (predicates f).
Proof.
  induction f as [a|f IH|c l IHl r IHr|q vs f IH]; intros g; cbn [break_equivalences_formula].
  - intros [<-|[]]. apply incl_refl.
  - intros [<-|[]]. apply incl_refl.
  - destruct c; try (intros [<-|[]]; apply incl_refl).
    intros [<-|[<-|[]]]; apply incl_refl.
  - destruct q; [|intros [<-|[]]; apply incl_refl].
    intros Hg. apply in_map_iff in Hg. destruct Hg as [h [<- Hh]]. rewrite predicates_quantify. cbn. apply IH, Hh.
Qed.
Lemma annotate_from_formulas a : forall l i b, In b (annotate_from a i l) -> In (an_formula b) l.
Proof.
  induction l as [|f l IH]; intros i b; cbn [annotate_from]; [intros []|].
  intros [<-|H]; [left; reflexivity|right; eapply IH; exact H].
Qed.
Lemma conclusions_of_vocab brk a c : In c (conclusions_of brk a) ->
  incl (predicates (pf_formula c)) (predicates (an_formula a)).
Proof.
  unfold conclusions_of. destruct brk.
  - intros Hc. apply in_map_iff in Hc. destruct Hc as [b [<- Hb]]. cbn.
    apply break_predicates. unfold break_equivalences_annotated_formula in Hb.
    exact (annotate_from_formulas a _ _ _ Hb).
  - intros [<-|[]]. apply incl_refl.
Qed.

(* ---------- vocabulary of the contributions of a side ---------- *)
Definition contrib_all (c : contrib) : list pformula := c_stable c ++ c_fp c ++ c_fc c ++ c_bp c ++ c_bc c.
Definition vocab_in (S : list pred) (l : list pformula) : Prop :=
  forall a, In a l -> forall r, In r (predicates (pf_formula a)) -> In r S.

Lemma vocab_in_app S l1 l2 : vocab_in S (l1 ++ l2) <-> vocab_in S l1 /\ vocab_in S l2.
Proof.
  unfold vocab_in. split.
  - intros H. split; intros a Ha; apply H; apply in_app_iff; auto.
  - intros [H1 H2] a Ha. apply in_app_iff in Ha. destruct Ha as [Ha|Ha]; [exact (H1 a Ha)|exact (H2 a Ha)].
Qed.
Lemma vocab_in_nil S : vocab_in S [].
Proof. intros a []. Qed.
Lemma vocab_in_one S a : (forall r, In r (predicates (pf_formula a)) -> In r S) -> vocab_in S [a].
Proof. intros H x [<-|[]]. exact H. Qed.
Lemma vocab_in_conclusions S brk a : (forall r, In r (predicates (an_formula a)) -> In r S) ->
  vocab_in S (conclusions_of brk a).
Proof. intros H c Hc r Hr. apply H. exact (conclusions_of_vocab brk a c Hc r Hr). Qed.

Lemma left_contrib_vocab S brk a c : left_contrib brk a = Some c ->
  (forall r, In r (predicates (an_formula a)) -> In r S) -> vocab_in S (contrib_all c).
Proof.
  intros E H. unfold left_contrib in E. unfold contrib_all.
  assert (H1 : vocab_in S [into_problem_formula a PAxiom]) by (apply vocab_in_one; exact H).
  destruct (an_role a); try discriminate.
  - destruct (an_dir a); injection E as <-; cbn [c_stable c_fp c_fc c_bp c_bc];
      repeat (apply vocab_in_app; split); try apply vocab_in_nil; exact H1.
  - injection E as <-. cbn [c_stable c_fp c_fc c_bp c_bc].
    repeat (apply vocab_in_app; split); try apply vocab_in_nil.
    + destruct (dir_forward (an_dir a)); [exact H1|apply vocab_in_nil].
    + destruct (dir_backward (an_dir a)); [apply vocab_in_conclusions, H|apply vocab_in_nil].
Qed.
Lemma right_contrib_vocab S brk a c : right_contrib brk a = Some c ->
  (forall r, In r (predicates (an_formula a)) -> In r S) -> vocab_in S (contrib_all c).
Proof.
  intros E H. unfold right_contrib in E. unfold contrib_all.
  assert (H1 : vocab_in S [into_problem_formula a PAxiom]) by (apply vocab_in_one; exact H).
  destruct (an_role a); try discriminate.
  - destruct (an_dir a); injection E as <-; cbn [c_stable c_fp c_fc c_bp c_bc];
      repeat (apply vocab_in_app; split); try apply vocab_in_nil; exact H1.
  - injection E as <-. cbn [c_stable c_fp c_fc c_bp c_bc].
    repeat (apply vocab_in_app; split); try apply vocab_in_nil.
    + destruct (dir_forward (an_dir a)); [apply vocab_in_conclusions, H|apply vocab_in_nil].
    + destruct (dir_backward (an_dir a)); [exact H1|apply vocab_in_nil].
Qed.
Lemma contribs_vocab S f l :
  (forall a c, f a = Some c -> (forall r, In r (predicates (an_formula a)) -> In r S) -> vocab_in S (contrib_all c)) ->
  (forall a, In a l -> forall r, In r (predicates (an_formula a)) -> In r S) ->
  forall cs, contribs f l = Some cs -> vocab_in S (contrib_all cs).
Proof.
  intros Hf. induction l as [|a l IH]; intros Hl cs; cbn [contribs].
  - intros [= <-]. intros x [].
  - destruct (f a) as [c|] eqn:Ec; [|discriminate]. destruct (contribs f l) as [cs'|]; [|discriminate].
    intros [= <-]. pose proof (Hf a c Ec (Hl a (or_introl eq_refl))) as Hc.
    pose proof (IH (fun b Hb => Hl b (or_intror Hb)) cs' eq_refl) as Hcs.
    unfold contrib_all, cadd in *. cbn [c_stable c_fp c_fc c_bp c_bc].
    repeat (apply vocab_in_app in Hc; destruct Hc as [? Hc]).
    repeat (apply vocab_in_app in Hcs; destruct Hcs as [? Hcs]).
    repeat (apply vocab_in_app; split); assumption.
Qed.

(* ---------- user-guide assumptions mention input predicates only ---------- *)
Lemma user_guide_assumptions_vocab outputs m inputs : forall fs acc ws uga w1,
  user_guide_assumptions outputs m fs acc ws = Ok (uga, w1) ->
  assumptions_only_input [] inputs fs = true ->
  (forall a, In a acc -> forall r, In r (predicates (an_formula a)) -> In r inputs) ->
  forall a, In a uga -> forall r, In r (predicates (an_formula a)) -> In r inputs.
Proof.
  induction fs as [|a fs IH]; intros acc ws uga w1; cbn [user_guide_assumptions].
  - intros [= <- _] _ Hacc. exact Hacc.
  - unfold assumptions_only_input. cbn [forallb]. intros H Hb Hacc. apply andb_true_iff in Hb. destruct Hb as [Ha Hb].
    destruct (is_assumption a) eqn:Ea.
    + destruct (is_nil (output_overlap _ a)); [|discriminate].
      apply (IH _ _ _ _ H Hb). intros b Hb'. apply in_app_iff in Hb'. destruct Hb' as [Hb'|[<-|[]]]; [apply Hacc, Hb'|].
      intros r Hr. cbn in Hr. rewrite rp_predicates in Hr.
      apply (proj1 (subsetb_spec pred_dec _ _) Ha) in Hr. apply (in_iset_extend pred_dec) in Hr.
      destruct Hr as [[]|Hr]. exact Hr.
    + apply (IH _ _ _ _ H Hb). exact Hacc.
Qed.

(* =================================================== the accepted task, any components *)
Section Task.
Variable is_tight : program -> bool.
Variable has_private_recursion : program -> list pred -> bool.
Variable tau_star : program -> theory.
Variable completion : theory -> list pred -> option theory.
Variable simp_classic : formula -> formula.
Hypothesis subst_sem : forall F x t G, sort_ok x t = true -> substitute F x t = Some G ->
  forall FI I e, csat FI I e G <-> csat FI I (upd e x (ev_g FI e t)) F.

Notation decompose_ext := (external_decompose is_tight has_private_recursion tau_star completion simp_classic).
Notation validated_of := (task_validated tau_star completion simp_classic).

(* what an accepted task consists of: the validated task, its assembled form, the accepted outline *)
Lemma accepted_parts t w pbs : decompose_ext t = Ok (w, pbs) ->
  exists vt w' a ws,
    validated_of t = Some vt /\ validated_assemble vt = Some (w', a) /\ pbs = assembled_decompose a /\
    from_specification (et_proof_outline t) (task_taken t (vt_left vt) (vt_right vt)) (task_m t)
      = Ok (vt_proof_outline vt, ws) /\
    (forall u, In u (vt_user_guide_assumptions vt) ->
       forall r, In r (predicates (an_formula u)) -> In r (ug_input_predicates (et_user_guide t))) /\
    vt_direction vt = et_direction t.
Proof.
  intros H. destruct (external_task_validated _ _ _ _ _ t w pbs H) as [vt [w3 [Hv Hvd]]].
  unfold validated_decompose in Hvd. destruct (validated_assemble vt) as [[w' a]|] eqn:Ea; [|discriminate].
  injection Hvd as _ <-.
  assert (Hval : exists w0, external_validate is_tight has_private_recursion t = Ok w0)
    by (eapply decompose_validate; exact H).
  destruct Hval as [w0 Hval].
  destruct (validate_conditions _ _ t w0 Hval) as [_ [_ [_ [_ [Hug _]]]]]. unfold c_ug_assumptions_inputs_only in Hug.
  exists vt, w', a. pose proof Hv as Hv0. unfold task_validated in Hv.
  destruct (side_left tau_star completion simp_classic t) as [lft|]; [|discriminate].
  destruct (side_right tau_star completion simp_classic t) as [rgt|]; [|discriminate].
  destruct (user_guide_assumptions _ _ _ [] []) as [[uga w1]|e|] eqn:Eu; try discriminate.
  destruct (from_specification _ _ _) as [[o pw]|e|] eqn:Eo; try discriminate.
  exists pw. split; [exact Hv0|]. split; [exact Ea|]. split; [reflexivity|].
  injection Hv as <-. cbn [vt_left vt_right vt_proof_outline vt_user_guide_assumptions vt_direction].
  split; [exact Eo|]. split; [|reflexivity].
  exact (user_guide_assumptions_vocab _ _ _ _ _ _ _ _ Eu Hug (fun a0 (F : In a0 []) => match F with end)).
Qed.

Lemma in_task_taken t lft rgt r :
  In r (task_taken t lft rgt) <->
  In r (ug_input_predicates (et_user_guide t)) \/
  (exists a, In a lft /\ In r (predicates (an_formula a))) \/ (exists a, In a rgt /\ In r (predicates (an_formula a))).
Proof. unfold task_taken. rewrite !in_extend_all. tauto. Qed.

(* THE THEOREM: for an accepted task (proof outline included), if no interpretation refutes any
   problem emitted for a direction, then in every interpretation the stable premises and the
   premises of that direction entail its conclusions. *)
Theorem accepted_sound t w pbs :
  decompose_ext t = Ok (w, pbs) ->
  (forall vt, validated_of t = Some vt -> validated_no_clash vt) ->
  exists vt w' a,
    validated_of t = Some vt /\ validated_assemble vt = Some (w', a) /\ pbs = assembled_decompose a /\
    (* forward *)
    ((forall FI M, ~ refutes_some FI M
        (direction_problems "forward" (at_stable_premises a) (at_forward_premises a)
           (forward_definitions (at_proof_outline a)) (forward_lemmas (at_proof_outline a))
           (at_forward_conclusions a) (at_decomposition a))) ->
     forall FI M, tvalid FI M (map pf_formula (at_stable_premises a)) ->
                  tvalid FI M (map pf_formula (at_forward_premises a)) ->
                  tvalid FI M (map pf_formula (at_forward_conclusions a))) /\
    (* backward *)
    ((forall FI M, ~ refutes_some FI M
        (direction_problems "backward" (at_stable_premises a) (at_backward_premises a)
           (backward_definitions (at_proof_outline a)) (backward_lemmas (at_proof_outline a))
           (at_backward_conclusions a) (at_decomposition a))) ->
     forall FI M, tvalid FI M (map pf_formula (at_stable_premises a)) ->
                  tvalid FI M (map pf_formula (at_backward_premises a)) ->
                  tvalid FI M (map pf_formula (at_backward_conclusions a))).
Proof.
  intros H Hclash. destruct (accepted_parts t w pbs H) as [vt [w' [a [ws [Hv [Ha [Hp [Ho [Hug _]]]]]]]]].
  exists vt, w', a. split; [exact Hv|]. split; [exact Ha|]. split; [exact Hp|].
  specialize (Hclash vt Hv w' a Ha). unfold assembled_no_clash in Hclash.
  destruct (validated_assemble_contribs vt w' a Ha) as [cl [cr [Hcl [Hcr [Es [Efp [Efc [Ebp [Ebc [Eo _]]]]]]]]]].
  set (taken := task_taken t (vt_left vt) (vt_right vt)) in *.
  (* the outline *)
  destruct (from_specification_ok subst_sem _ _ _ _ _ Ho) as [_ [_ [_ [_ [_ [Lf Lb]]]]]].
  destruct (accepted_definitions_conservative subst_sem _ _ _ _ _ Ho) as [Cf Cb].
  rewrite <- Eo in Lf, Lb, Cf, Cb.
  (* roles *)
  destruct (contribs_roles _ _ (left_contrib_roles (vt_break vt)) cl Hcl) as [Rl1 [Rl2 [Rl3 [Rl4 Rl5]]]].
  destruct (contribs_roles _ _ (right_contrib_roles (vt_break vt)) cr Hcr) as [Rr1 [Rr2 [Rr3 [Rr4 Rr5]]]].
  assert (Rs : all_role PAxiom (at_stable_premises a)).
  { rewrite Es. apply all_role_app; [|apply all_role_app; assumption].
    intros x Hx. apply in_map_iff in Hx. destruct Hx as [u [<- _]]. reflexivity. }
  (* vocabulary *)
  assert (Vl : vocab_in taken (contrib_all cl)).
  { apply (contribs_vocab taken _ (vt_left vt) (left_contrib_vocab taken (vt_break vt))); [|exact Hcl].
    intros x Hx r Hr. apply in_task_taken. right; left. eauto. }
  assert (Vr : vocab_in taken (contrib_all cr)).
  { apply (contribs_vocab taken _ (vt_right vt) (right_contrib_vocab taken (vt_break vt))); [|exact Hcr].
    intros x Hx r Hr. apply in_task_taken. right; right. eauto. }
  unfold contrib_all in Vl, Vr.
  apply vocab_in_app in Vl. destruct Vl as [Vl1 Vl]. apply vocab_in_app in Vl. destruct Vl as [Vl2 Vl].
  apply vocab_in_app in Vl. destruct Vl as [Vl3 Vl]. apply vocab_in_app in Vl. destruct Vl as [Vl4 Vl5].
  apply vocab_in_app in Vr. destruct Vr as [Vr1 Vr]. apply vocab_in_app in Vr. destruct Vr as [Vr2 Vr].
  apply vocab_in_app in Vr. destruct Vr as [Vr3 Vr]. apply vocab_in_app in Vr. destruct Vr as [Vr4 Vr5].
  assert (Vs : vocab_in taken (at_stable_premises a)).
  { rewrite Es. apply vocab_in_app. split; [|apply vocab_in_app; split; assumption].
    intros x Hx r Hr. apply in_map_iff in Hx. destruct Hx as [u [<- Hu]]. cbn in Hr.
    apply in_task_taken. left. exact (Hug u Hu r Hr). }
  (* coverage of at_formulas *)
  assert (Cov : forall l, (l = at_stable_premises a \/ l = at_forward_premises a \/ l = at_forward_conclusions a \/
                           l = at_backward_premises a \/ l = at_backward_conclusions a) ->
                          forall x, In x l -> In (pf_formula x) (at_formulas a)).
  { intros l Hl x Hx. unfold at_formulas. rewrite !in_app_iff.
    destruct Hl as [->|[->|[->|[->| ->]]]]; [left|right; left|right; right; left|right; right; right; left
                                             |right; right; right; right; left]; apply in_map, Hx. }
  assert (CovD : forall d, In d (forward_definitions (at_proof_outline a)) \/ In d (backward_definitions (at_proof_outline a)) ->
                           In (an_formula d) (at_formulas a)).
  { intros d Hd. unfold at_formulas. rewrite !in_app_iff. do 5 right.
    destruct Hd as [Hd|Hd]; [left|right; left]; apply in_map, Hd. }
  assert (CovL : forall g, In g (forward_lemmas (at_proof_outline a)) \/ In g (backward_lemmas (at_proof_outline a)) ->
                 forall c, In c (gl_conjectures g ++ gl_consequences g) -> In (pf_formula c) (at_formulas a)).
  { intros g Hg c Hc. unfold at_formulas. rewrite !in_app_iff. do 7 right.
    assert (Hlf : In (pf_formula c) (lemma_forms g)).
    { unfold lemma_forms. rewrite in_app_iff. apply in_app_iff in Hc. destruct Hc; [left|right]; apply in_map; assumption. }
    destruct Hg as [Hg|Hg]; [left|right]; apply in_flat_map; exists g; auto. }
  split.
  - intros Hnr. apply (direction_sound "forward" (at_stable_premises a) (at_forward_premises a)
                        (forward_definitions (at_proof_outline a)) (forward_lemmas (at_proof_outline a))
                        (at_forward_conclusions a) (at_decomposition a) taken (at_formulas a));
      [exact Rs
      |rewrite Efp; apply all_role_app; assumption
      |rewrite Efc; apply all_role_app; assumption
      |exact Cf
      |exact Lf
      |
      |exact Hclash
      |
      |intros d Hd; apply CovD; left; exact Hd
      |intros g Hg; apply CovL; left; exact Hg
      |exact Hnr].
    + intros x Hx. apply in_app_iff in Hx. destruct Hx as [Hx|Hx]; [exact (Vs x Hx)|].
      apply in_app_iff in Hx. destruct Hx as [Hx|Hx]; [rewrite Efp in Hx|rewrite Efc in Hx];
        apply in_app_iff in Hx; destruct Hx as [Hx|Hx];
        first [exact (Vl2 x Hx)|exact (Vr2 x Hx)|exact (Vl3 x Hx)|exact (Vr3 x Hx)].
    + intros x Hx. apply in_app_iff in Hx. destruct Hx as [Hx|Hx]; [eapply Cov; [left; reflexivity|exact Hx]|].
      apply in_app_iff in Hx. destruct Hx as [Hx|Hx];
        [eapply Cov; [right; left; reflexivity|exact Hx]|eapply Cov; [right; right; left; reflexivity|exact Hx]].
  - intros Hnr. apply (direction_sound "backward" (at_stable_premises a) (at_backward_premises a)
                        (backward_definitions (at_proof_outline a)) (backward_lemmas (at_proof_outline a))
                        (at_backward_conclusions a) (at_decomposition a) taken (at_formulas a));
      [exact Rs
      |rewrite Ebp; apply all_role_app; assumption
      |rewrite Ebc; apply all_role_app; assumption
      |exact Cb
      |exact Lb
      |
      |exact Hclash
      |
      |intros d Hd; apply CovD; right; exact Hd
      |intros g Hg; apply CovL; right; exact Hg
      |exact Hnr].
    + intros x Hx. apply in_app_iff in Hx. destruct Hx as [Hx|Hx]; [exact (Vs x Hx)|].
      apply in_app_iff in Hx. destruct Hx as [Hx|Hx]; [rewrite Ebp in Hx|rewrite Ebc in Hx];
        apply in_app_iff in Hx; destruct Hx as [Hx|Hx];
        first [exact (Vl4 x Hx)|exact (Vr4 x Hx)|exact (Vl5 x Hx)|exact (Vr5 x Hx)].
    + intros x Hx. apply in_app_iff in Hx. destruct Hx as [Hx|Hx]; [eapply Cov; [left; reflexivity|exact Hx]|].
      apply in_app_iff in Hx. destruct Hx as [Hx|Hx];
        [eapply Cov; [right; right; right; left; reflexivity|exact Hx]
        |eapply Cov; [right; right; right; right; reflexivity|exact Hx]].
Qed.
End Task.

(* =================================================== the end-to-end model, real components *)
Theorem accepted_sound_full fuel t w pbs :
  external_decompose_full fuel t = XOk w pbs ->
  (forall vt, task_validated tau_star_total completion (simp_classic_total fuel) t = Some vt -> validated_no_clash vt) ->
  exists vt w' a,
    task_validated tau_star_total completion (simp_classic_total fuel) t = Some vt /\
    validated_assemble vt = Some (w', a) /\ pbs = assembled_decompose a /\
    ((forall FI M, ~ refutes_some FI M
        (direction_problems "forward" (at_stable_premises a) (at_forward_premises a)
           (forward_definitions (at_proof_outline a)) (forward_lemmas (at_proof_outline a))
           (at_forward_conclusions a) (at_decomposition a))) ->
     forall FI M, tvalid FI M (map pf_formula (at_stable_premises a)) ->
                  tvalid FI M (map pf_formula (at_forward_premises a)) ->
                  tvalid FI M (map pf_formula (at_forward_conclusions a))) /\
    ((forall FI M, ~ refutes_some FI M
        (direction_problems "backward" (at_stable_premises a) (at_backward_premises a)
           (backward_definitions (at_proof_outline a)) (backward_lemmas (at_proof_outline a))
           (at_backward_conclusions a) (at_decomposition a))) ->
     forall FI M, tvalid FI M (map pf_formula (at_stable_premises a)) ->
                  tvalid FI M (map pf_formula (at_backward_premises a)) ->
                  tvalid FI M (map pf_formula (at_backward_conclusions a))).
Proof.
  intros H Hc.
  assert (Ht : external_decompose_total fuel t = Ok (w, pbs)).
  { unfold external_decompose_full in H.
    destruct (external_validate_full t) as [w0|e|]; try discriminate.
    destruct (et_specification t) as [L|s].
    - destruct (translate_status fuel t _ L); try discriminate.
      destruct (translate_status fuel t _ (et_program t)); try discriminate.
      destruct (external_decompose_total fuel t) as [[w1 pbs1]|e|]; cbn in H; try discriminate. congruence.
    - destruct (translate_status fuel t _ (et_program t)); try discriminate.
      destruct (external_decompose_total fuel t) as [[w1 pbs1]|e|]; cbn in H; try discriminate. congruence. }
  exact (accepted_sound is_tight has_private_recursion tau_star_total completion (simp_classic_total fuel)
           substitute_sem t w pbs Ht Hc).
Qed.

(* ---------- the clash premise is decidable on the assembled task ---------- *)
Definition flist_no_clashb (fs : list formula) : bool :=
  forallb (fun f => forallb (fun s => forallb (fun g => negb (memb pred_dec (mkpred s 0) (predicates g))) fs)
                            (symbols f)) fs.
Lemma flist_no_clashb_ok fs : flist_no_clashb fs = true -> flist_no_clash fs.
Proof.
  unfold flist_no_clashb, flist_no_clash. rewrite forallb_forall. intros H f g s Hf Hg Hs Hin.
  specialize (H f Hf). rewrite forallb_forall in H. specialize (H s Hs). rewrite forallb_forall in H.
  specialize (H g Hg). destruct (memb_spec pred_dec (mkpred s 0) (predicates g)); [discriminate|contradiction].
Qed.
Definition validated_no_clashb (vt : validated_task) : bool :=
  match validated_assemble vt with
  | Some (_, a) => flist_no_clashb (at_formulas a)
  | None => true
  end.
Lemma validated_no_clashb_ok vt : validated_no_clashb vt = true -> validated_no_clash vt.
Proof.
  unfold validated_no_clashb, validated_no_clash, assembled_no_clash. intros H w a E. rewrite E in H.
  apply flist_no_clashb_ok, H.
Qed.
