(* C15, the FOL parser model's own fuel (second audit, B17): the PEG phase of Model/FolParse.v runs on
   ONE counter, [fuel_of ts] = 4 * toks_size ts + 16, handed down through every function; an exhausted
   counter is the explicit result [Oof] / [PR_oof] (reported by the driver as an error, not as a
   rejection).  This file proves that no entry point ever returns it:

     parse_formula_toks / parse_theory_toks / parse_spec_toks / parse_ug_toks / parse_ug_raw_toks ts <> PR_oof
     parse_formula_str / parse_theory_str / parse_spec_str / parse_ug_str / parse_ug_raw_str s <> PR_oof

   Measure: [toks_size] (a word counts its characters, because a keyword literal at the front of a word
   is split off and the remainder is re-lexed into NEW tokens: [strip_kw_size]).  Every successful
   sub-parser strictly decreases it ([*_shr]); the rewriting steps that do not (a negative numeral at
   an operator position becomes subtract + numeral, "<-" at a guard position becomes "<" and "-") are
   followed by an operand that does.  Every function needs a counter above toks_size + a small constant
   ([*_noof]); [fuel_of] is far above it. *)
From Coq Require Import List Ascii String ZArith NArith Bool Arith Lia.
From Anthem Require Import Syntax.Fol Gen.TablesFol Model.FolPrint Model.FolLex Model.FolPratt Model.FolParse.
Import ListNotations.
Open Scope list_scope.

Notation sz := toks_size.

Lemma sz_cons t ts : sz (t :: ts) = tok_size t + sz ts.
Proof. reflexivity. Qed.
Lemma sz_app a b : sz (a ++ b) = sz a + sz b.
Proof. induction a as [|t a IH]; [reflexivity|]. cbn [app]. rewrite !sz_cons, IH. lia. Qed.
Lemma tok_size_pos t : 1 <= tok_size t.
Proof. destruct t; cbn; lia. Qed.

(* ================================================================ A. keyword literals, re-lexing *)

Lemma unchars_length w : String.length (unchars w) = List.length w.
Proof. unfold unchars. induction w as [|c w IH]; cbn; [reflexivity|]. rewrite IH. reflexivity. Qed.
Lemma chars_length s : List.length (chars s) = String.length s.
Proof. unfold chars. induction s as [|c s IH]; cbn; [reflexivity|]. rewrite IH. reflexivity. Qed.

Lemma span_length p l a b : span p l = (a, b) -> List.length l = List.length a + List.length b.
Proof.
  revert a b. induction l as [|c l IH]; cbn; intros a b H.
  - inversion H; subst. reflexivity.
  - destruct (p c).
    + destruct (span p l) as [a' b'] eqn:E. inversion H; subst. cbn. rewrite (IH _ _ eq_refl). reflexivity.
    + inversion H; subst. reflexivity.
Qed.

Lemma strip_prefix_length pre : forall l rem, strip_prefix pre l = Some rem ->
  List.length l = List.length pre + List.length rem.
Proof.
  induction pre as [|p pre IH]; intros l rem; cbn [strip_prefix].
  - intros [= <-]. reflexivity.
  - destruct l as [|c l]; [discriminate|]. destruct (Ascii.eqb p c); [|discriminate].
    intros H. cbn. rewrite (IH _ _ H). reflexivity.
Qed.

Lemma word_tok_size w suf : tok_size (word_tok w suf) <= List.length w + 2.
Proof.
  unfold word_tok. destruct (word_class w), suf; cbn [tok_size]; rewrite ?unchars_length; lia.
Qed.

Lemma relex_run_size fuel : forall w suf, sz (relex_run fuel w suf) <= List.length w + 2.
Proof.
  induction fuel as [|f IH]; intros w suf; cbn [relex_run]; [cbn; lia|].
  destruct w as [|c r]; [destruct suf; cbn; lia|].
  destruct (Ascii.eqb c "0").
  - rewrite sz_cons. specialize (IH r suf). cbn [tok_size List.length]. lia.
  - destruct (is_digit c) eqn:D.
    + destruct (span is_digit (c :: r)) as [ds r'] eqn:E.
      assert (L : List.length r' < List.length (c :: r)).
      { cbn [span] in E. rewrite D in E. destruct (span is_digit r) as [a b] eqn:E2. inversion E; subst.
        apply span_length in E2. cbn. lia. }
      rewrite sz_cons. specialize (IH r' suf). cbn [tok_size]. lia.
    + rewrite sz_cons. pose proof (word_tok_size (c :: r) suf). cbn [sz fold_right] in *. lia.
Qed.

Lemma strip_kw_size kw ts r : 2 <= String.length kw -> strip_kw kw ts = Some r -> sz r < sz ts.
Proof.
  intros K. unfold strip_kw. destruct ts as [|t r0]; [discriminate|].
  destruct t; try discriminate.
  - destruct (strip_prefix (chars kw) (chars s)) as [rem|] eqn:E; [|discriminate]. intros [= <-].
    apply strip_prefix_length in E. rewrite !chars_length in E.
    rewrite sz_app, sz_cons. pose proof (relex_run_size (S (List.length rem)) rem SufNone).
    unfold relex. cbn [tok_size]. lia.
  - destruct (strip_prefix (chars kw) (chars c)) as [rem|] eqn:E; [|discriminate]. intros [= <-].
    apply strip_prefix_length in E. rewrite !chars_length in E.
    rewrite sz_app, sz_cons. pose proof (relex_run_size (S (List.length rem)) rem (SufSort s)).
    unfold relex. cbn [tok_size]. lia.
  - destruct (strip_prefix (chars kw) (chars c)) as [rem|] eqn:E; [|discriminate]. intros [= <-].
    apply strip_prefix_length in E. rewrite !chars_length in E.
    rewrite sz_app, sz_cons. pose proof (relex_run_size (S (List.length rem)) rem SufBare).
    unfold relex. cbn [tok_size]. lia.
Qed.

Lemma take_vars_size ts : sz (snd (take_vars ts)) <= sz ts.
Proof.
  induction ts as [|t ts IH]; [cbn; lia|].
  destruct t; cbn [take_vars snd]; try lia.
  destruct (take_vars ts) as [vs r']. cbn [snd] in *. rewrite sz_cons. lia.
Qed.

Lemma peg_quant_size q kw ts p r : 2 <= String.length kw -> peg_quant q kw ts = Some (p, r) -> sz r < sz ts.
Proof.
  intros K. unfold peg_quant. destruct (strip_kw kw ts) as [r0|] eqn:E; [|discriminate].
  apply (strip_kw_size _ _ _ K) in E. pose proof (take_vars_size r0) as T.
  destruct (take_vars r0) as [[|v vs] r']; [discriminate|]. intros [= _ <-]. cbn [snd] in T. lia.
Qed.

Lemma peg_prefix_size ts p r : peg_prefix ts = Some (p, r) -> sz r < sz ts.
Proof.
  unfold peg_prefix.
  destruct (peg_quant QForall "forall" ts) as [[p1 r1]|] eqn:E1.
  { intros [= _ <-]. eapply peg_quant_size; [|exact E1]. cbn; lia. }
  destruct (peg_quant QExists "exists" ts) as [[p2 r2]|] eqn:E2.
  { intros [= _ <-]. eapply peg_quant_size; [|exact E2]. cbn; lia. }
  destruct (strip_kw "not" ts) as [r3|] eqn:E3; [|discriminate].
  intros [= _ <-]. eapply strip_kw_size; [|exact E3]. cbn; lia.
Qed.

Lemma peg_infix_size ts c r : peg_infix ts = Some (c, r) -> sz r <= sz ts.
Proof.
  unfold peg_infix.
  assert (G : match strip_kw "and" ts with
              | Some r => Some (CAnd, r)
              | None => match strip_kw "or" ts with Some r => Some (COr, r) | None => None end
              end = Some (c, r) -> sz r <= sz ts).
  { destruct (strip_kw "and" ts) as [r1|] eqn:E1.
    { intros [= _ <-]. apply strip_kw_size in E1; [lia|cbn; lia]. }
    destruct (strip_kw "or" ts) as [r2|] eqn:E2; [|discriminate].
    intros [= _ <-]. apply strip_kw_size in E2; [lia|cbn; lia]. }
  destruct ts as [|t r0]; [exact G|].
  destruct t; try exact G; intros [= _ <-]; rewrite ?sz_cons; cbn [tok_size]; lia.
Qed.

Lemma unary_ops_size ts : sz (snd (unary_ops ts)) <= sz ts.
Proof.
  induction ts as [|t ts IH]; [cbn; lia|].
  destruct t; cbn [unary_ops snd]; try lia.
  destruct (unary_ops ts) as [us r']. cbn [snd] in *. rewrite sz_cons. lia.
Qed.

Lemma split_binop_size ts o r : split_binop ts = Some (o, r) -> sz r <= sz ts.
Proof.
  unfold split_binop. destruct ts as [|t r0]; [discriminate|].
  destruct t; try discriminate; intros [= _ <-]; rewrite ?sz_cons; cbn [tok_size]; lia.
Qed.

Lemma split_rel_size ts rl r : split_rel ts = Some (rl, r) -> sz r <= sz ts.
Proof.
  unfold split_rel. destruct ts as [|t r0]; [discriminate|].
  destruct t; try discriminate; intros [= _ <-]; rewrite ?sz_cons; cbn [tok_size]; lia.
Qed.

(* ================================================================ B. every successful sub-parser consumes *)

Definition shr {A} (p : list token -> res A) : Prop := forall ts x r, p ts = Ok x r -> sz r < sz ts.
Definition shr_le {A} (p : list token -> res A) : Prop := forall ts x r, p ts = Ok x r -> sz r <= sz ts.

Lemma n_primary_shr rec : shr rec -> shr (n_primary rec).
Proof.
  intros Hrec ts x r. unfold n_primary. destruct ts as [|t r0]; [discriminate|].
  destruct t; try discriminate; try (intros [= _ <-]; rewrite sz_cons; pose proof (tok_size_pos (TNum n)); cbn [tok_size]; lia).
  - destruct s; try discriminate. intros [= _ <-]. rewrite sz_cons. cbn [tok_size]. lia.
  - destruct s; try discriminate. intros [= _ <-]. rewrite sz_cons. cbn [tok_size]. lia.
  - destruct (rec r0) as [t [|t' r']| |] eqn:E; try discriminate. destruct t'; try discriminate.
    intros [= _ <-]. apply Hrec in E. rewrite !sz_cons in *. cbn [tok_size] in *. lia.
Qed.

Lemma i_operand_shr rec : shr rec -> shr (i_operand rec).
Proof.
  intros Hrec ts x r. unfold i_operand. pose proof (unary_ops_size ts) as U.
  destruct (unary_ops ts) as [us r0]. cbn [snd] in U.
  destruct (n_primary rec r0) as [t r'| |] eqn:E; try discriminate.
  intros [= _ <-]. apply (n_primary_shr rec Hrec) in E. lia.
Qed.

Lemma i_tail_shr rec : shr rec -> forall fuel, shr_le (i_tail rec fuel).
Proof.
  intros Hrec. induction fuel as [|f IH]; intros ts x r; cbn [i_tail]; [discriminate|].
  destruct (split_binop ts) as [[o r0]|] eqn:S; [|intros [= _ <-]; lia].
  apply split_binop_size in S.
  destruct (i_operand rec r0) as [its r'| |] eqn:E; try discriminate; [|intros [= _ <-]; lia].
  apply (i_operand_shr rec Hrec) in E.
  destruct (i_tail rec f r') as [more r''| |] eqn:E2; try discriminate.
  intros [= _ <-]. apply IH in E2. lia.
Qed.

Lemma peg_iterm_shr fuel : shr (peg_iterm fuel).
Proof.
  induction fuel as [|f IH]; intros ts x r; cbn [peg_iterm]; [discriminate|].
  destruct (i_operand (peg_iterm f) ts) as [its r0| |] eqn:E; try discriminate.
  apply (i_operand_shr _ IH) in E.
  destruct (i_tail (peg_iterm f) f r0) as [more r'| |] eqn:E2; try discriminate.
  apply (i_tail_shr _ IH) in E2.
  destruct (pratt_iterm (its ++ more)); [|discriminate]. intros [= _ <-]. lia.
Qed.

Lemma peg_gterm_shr fuel : shr (peg_gterm fuel).
Proof.
  intros ts x r. unfold peg_gterm.
  assert (G : match peg_iterm fuel ts with
              | Ok t r => Ok (GInt t) r
              | Oof => Oof
              | Fail =>
                  match ts with
                  | TFun c SSymbol :: r => Ok (GSym (SFun c)) r
                  | TWord s :: r => Ok (GSym (SSym s)) r
                  | TVar x SSymbol :: r => Ok (GSym (SVar x)) r
                  | TVar x SGeneral :: r => Ok (GVar x) r
                  | TInf :: r => Ok GInf r
                  | TSup :: r => Ok GSup r
                  | _ => Fail
                  end
              end = Ok x r -> sz r < sz ts).
  { destruct (peg_iterm fuel ts) as [t r'| |] eqn:E; try discriminate.
    - intros [= _ <-]. exact (peg_iterm_shr _ _ _ _ E).
    - destruct ts as [|t r0]; [discriminate|].
      destruct t; try discriminate; try (destruct s; try discriminate);
        intros [= _ <-]; rewrite sz_cons; cbn [tok_size]; lia. }
  destruct ts as [|t r0]; [exact G|]. destruct t; try exact G. destruct s; try exact G.
  intros [= _ <-]. rewrite sz_cons. cbn [tok_size]. lia.
Qed.

Lemma peg_terms_shr fuel : shr (peg_terms fuel).
Proof.
  induction fuel as [|f IH]; intros ts x r; cbn [peg_terms]; [discriminate|].
  destruct (peg_gterm f ts) as [t r0| |] eqn:E; try discriminate.
  apply peg_gterm_shr in E.
  assert (G : Ok [t] r0 = Ok x r -> sz r < sz ts) by (intros [= _ <-]; exact E).
  destruct r0 as [|t0 r1]; [exact G|]. destruct t0; try exact G.
  destruct (peg_terms f r1) as [l r'| |] eqn:E2; try discriminate.
  - intros [= _ <-]. apply IH in E2. rewrite sz_cons in E. lia.
  - exact G.
Qed.

Lemma peg_tuple_shr fuel : shr (peg_tuple fuel).
Proof.
  intros ts x r. unfold peg_tuple. destruct ts as [|t r0]; [discriminate|]. destruct t; try discriminate.
  rewrite sz_cons. cbn [tok_size].
  destruct (peg_terms fuel r0) as [l [|t' r']| |] eqn:E; try discriminate.
  - destruct t'; try discriminate. intros [= _ <-]. apply peg_terms_shr in E. rewrite sz_cons in E. lia.
  - destruct r0 as [|t' r']; [discriminate|]. destruct t'; try discriminate. intros [= _ <-].
    rewrite sz_cons. lia.
Qed.

Lemma peg_atom_shr fuel : shr (peg_atom fuel).
Proof.
  intros ts x r. unfold peg_atom. destruct ts as [|t r0]; [discriminate|]. destruct t; try discriminate.
  rewrite sz_cons. cbn [tok_size].
  destruct (peg_tuple fuel r0) as [l r'| |] eqn:E; try discriminate.
  - intros [= _ <-]. apply peg_tuple_shr in E. lia.
  - intros [= _ <-]. lia.
Qed.

Lemma peg_guards_shr fuel : shr_le (peg_guards fuel).
Proof.
  induction fuel as [|f IH]; intros ts x r; cbn [peg_guards]; [discriminate|].
  destruct (split_rel ts) as [[rl r0]|] eqn:S; [|intros [= _ <-]; lia].
  apply split_rel_size in S.
  destruct (peg_gterm f r0) as [t r'| |] eqn:E; try discriminate; [|intros [= _ <-]; lia].
  apply peg_gterm_shr in E.
  destruct (peg_guards f r') as [gs r''| |] eqn:E2; try discriminate.
  intros [= _ <-]. apply IH in E2. lia.
Qed.

Lemma peg_comparison_shr fuel : shr (peg_comparison fuel).
Proof.
  intros ts x r. unfold peg_comparison.
  destruct (peg_gterm fuel ts) as [t r0| |] eqn:E; try discriminate. apply peg_gterm_shr in E.
  destruct (peg_guards fuel r0) as [[|g gs] r'| |] eqn:E2; try discriminate.
  intros [= _ <-]. apply peg_guards_shr in E2. lia.
Qed.

Lemma peg_atomic_shr fuel : shr (peg_atomic fuel).
Proof.
  intros ts x r. unfold peg_atomic.
  assert (G : match peg_comparison fuel ts with
              | Ok a r => Ok a r | Oof => Oof | Fail => peg_atom fuel ts end = Ok x r -> sz r < sz ts).
  { destruct (peg_comparison fuel ts) as [a r'| |] eqn:E; try discriminate.
    - intros [= _ <-]. exact (peg_comparison_shr _ _ _ _ E).
    - apply peg_atom_shr. }
  destruct ts as [|t r0]; [exact G|].
  destruct t; try exact G; intros [= _ <-]; rewrite sz_cons; cbn [tok_size]; lia.
Qed.

Lemma f_prefixes_shr fuel : shr_le (f_prefixes fuel).
Proof.
  induction fuel as [|f IH]; intros ts x r; cbn [f_prefixes]; [discriminate|].
  destruct (peg_prefix ts) as [[p r0]|] eqn:E; [|intros [= _ <-]; lia].
  apply peg_prefix_size in E.
  destruct (f_prefixes f r0) as [ps r'| |] eqn:E2; try discriminate.
  intros [= _ <-]. apply IH in E2. lia.
Qed.

Lemma f_atomic_shr afuel : shr (f_atomic afuel).
Proof.
  intros ts x r. unfold f_atomic. destruct (peg_atomic afuel ts) as [a r'| |] eqn:E; try discriminate.
  intros [= _ <-]. exact (peg_atomic_shr _ _ _ _ E).
Qed.

Lemma f_primary_shr rec afuel : shr rec -> shr (f_primary rec afuel).
Proof.
  intros Hrec ts x r. unfold f_primary.
  destruct ts as [|t r0]; [apply f_atomic_shr|]. destruct t; try apply f_atomic_shr.
  destruct (rec r0) as [t [|t' r']| |] eqn:E; try discriminate; try apply f_atomic_shr.
  destruct t'; try apply f_atomic_shr.
  intros [= _ <-]. apply Hrec in E. rewrite !sz_cons in *. cbn [tok_size] in *. lia.
Qed.

Lemma f_operand_shr rec afuel fuel : shr rec -> shr (f_operand rec afuel fuel).
Proof.
  intros Hrec ts x r. unfold f_operand.
  destruct (f_prefixes fuel ts) as [ps r0| |] eqn:E; try discriminate. apply f_prefixes_shr in E.
  destruct (f_primary rec afuel r0) as [t r'| |] eqn:E2; try discriminate.
  intros [= _ <-]. apply (f_primary_shr rec afuel Hrec) in E2. lia.
Qed.

Lemma f_tail_shr rec afuel : shr rec -> forall fuel, shr_le (f_tail rec afuel fuel).
Proof.
  intros Hrec. induction fuel as [|f IH]; intros ts x r; cbn [f_tail]; [discriminate|].
  destruct (peg_infix ts) as [[c r0]|] eqn:S; [|intros [= _ <-]; lia].
  apply peg_infix_size in S.
  destruct (f_operand rec afuel f r0) as [its r'| |] eqn:E; try discriminate; [|intros [= _ <-]; lia].
  apply (f_operand_shr rec afuel f Hrec) in E.
  destruct (f_tail rec afuel f r') as [more r''| |] eqn:E2; try discriminate.
  intros [= _ <-]. apply IH in E2. lia.
Qed.

Lemma peg_formula_shr fuel : shr (peg_formula fuel).
Proof.
  induction fuel as [|f IH]; intros ts x r; cbn [peg_formula]; [discriminate|].
  destruct (f_operand (peg_formula f) f f ts) as [its r0| |] eqn:E; try discriminate.
  apply (f_operand_shr _ _ _ IH) in E.
  destruct (f_tail (peg_formula f) f f r0) as [more r'| |] eqn:E2; try discriminate.
  apply (f_tail_shr _ _ IH) in E2.
  destruct (pratt_formula (its ++ more)); [|discriminate]. intros [= _ <-]. lia.
Qed.

Lemma peg_direction_size ts : sz (snd (peg_direction ts)) <= sz ts.
Proof.
  unfold peg_direction.
  repeat match goal with |- context [match ?x with _ => _ end] => destruct x end;
    cbn [snd]; rewrite ?sz_cons; lia.
Qed.
Lemma peg_name_size ts : sz (snd (peg_name ts)) <= sz ts.
Proof.
  unfold peg_name.
  repeat match goal with |- context [match ?x with _ => _ end] => destruct x end;
    cbn [snd]; rewrite ?sz_cons; lia.
Qed.

Lemma peg_annot_shr fuel : shr (peg_annot fuel).
Proof.
  intros ts x r. unfold peg_annot. destruct ts as [|t r0]; [discriminate|].
  destruct (role_of_tok t) as [ro|]; [|discriminate].
  pose proof (peg_direction_size r0) as D. destruct (peg_direction r0) as [d r1]. cbn [snd] in D.
  pose proof (peg_name_size r1) as N. destruct (peg_name r1) as [n r2]. cbn [snd] in N.
  destruct r2 as [|t2 r3]; [discriminate|]. destruct t2; try discriminate.
  destruct (peg_formula fuel r3) as [f r4| |] eqn:E; try discriminate.
  intros [= _ <-]. apply peg_formula_shr in E. rewrite !sz_cons in *. pose proof (tok_size_pos t). lia.
Qed.

Lemma peg_placeholder_sort_size ts : sz (snd (peg_placeholder_sort ts)) <= sz ts.
Proof.
  unfold peg_placeholder_sort.
  repeat match goal with |- context [match ?x with _ => _ end] => destruct x end;
    cbn [snd]; rewrite ?sz_cons; lia.
Qed.

Lemma peg_ug_annot_shr fuel : shr (peg_ug_annot fuel).
Proof.
  intros ts x r. unfold peg_ug_annot. destruct (peg_annot fuel ts) as [a r'| |] eqn:E; try discriminate.
  intros [= _ <-]. exact (peg_annot_shr _ _ _ _ E).
Qed.

Lemma peg_ug_entry_shr fuel : shr (peg_ug_entry fuel).
Proof.
  intros ts x r. unfold peg_ug_entry.
  pose proof (peg_ug_annot_shr fuel ts x r) as A.
  destruct ts as [|t1 [|[] [|[] r0]]]; try exact A.
  - (* t1 : name ... *)
    assert (P : (if is_word "input" t1
                 then let '(s0, r') := peg_placeholder_sort r0 in Ok (REPlaceholder s s0) r'
                 else peg_ug_annot fuel (t1 :: TColon :: TWord s :: r0)) = Ok x r ->
                sz r < sz (t1 :: TColon :: TWord s :: r0)).
    { destruct (is_word "input" t1); [|exact A].
      pose proof (peg_placeholder_sort_size r0) as PS. destruct (peg_placeholder_sort r0) as [s0 r'].
      cbn [snd] in PS. intros [= _ <-]. rewrite !sz_cons. pose proof (tok_size_pos t1). cbn [tok_size]. lia. }
    destruct r0 as [|[] [|[] r1]]; try exact P.
    destruct (is_word "input" t1); [intros [= _ <-]; rewrite !sz_cons; cbn [tok_size]; lia|].
    destruct (is_word "output" t1); [intros [= _ <-]; rewrite !sz_cons; cbn [tok_size]; lia|exact A].
Qed.

(* ================================================================ C. the counter is never exhausted *)

(* close a goal [Oof <> Oof] (at any result type) from a fact [... -> Oof <> Oof] at another type *)
Ltac oof N := intros _; apply N; try reflexivity.

Lemma n_primary_noof rec ts : (forall ts', sz ts' < sz ts -> rec ts' <> Oof) -> n_primary rec ts <> Oof.
Proof.
  intros H. unfold n_primary. destruct ts as [|t r0]; [discriminate|].
  destruct t; try discriminate; try (destruct s; discriminate).
  specialize (H r0). rewrite sz_cons in H. cbn [tok_size] in H.
  destruct (rec r0) as [t [|t' r']| |]; try discriminate; [destruct t'; discriminate|]. oof H. lia.
Qed.

Lemma i_operand_noof rec ts : (forall ts', sz ts' < sz ts -> rec ts' <> Oof) -> i_operand rec ts <> Oof.
Proof.
  intros H. unfold i_operand. pose proof (unary_ops_size ts) as U.
  destruct (unary_ops ts) as [us r0]. cbn [snd] in U.
  pose proof (n_primary_noof rec r0) as N.
  destruct (n_primary rec r0); try discriminate. oof N. intros. apply H. lia.
Qed.

Lemma i_tail_noof rec : shr rec -> forall fuel ts, sz ts < fuel ->
  (forall ts', sz ts' < sz ts -> rec ts' <> Oof) -> i_tail rec fuel ts <> Oof.
Proof.
  intros Hrec. induction fuel as [|f IH]; intros ts F H; [lia|]. cbn [i_tail].
  destruct (split_binop ts) as [[o r0]|] eqn:S; [|discriminate]. apply split_binop_size in S.
  pose proof (i_operand_noof rec r0) as N.
  destruct (i_operand rec r0) as [its r'| |] eqn:E; try discriminate.
  - apply (i_operand_shr rec Hrec) in E. specialize (IH r').
    destruct (i_tail rec f r'); try discriminate. oof IH; [lia|]. intros. apply H. lia.
  - oof N. intros. apply H. lia.
Qed.

Lemma peg_iterm_noof : forall fuel ts, sz ts < fuel -> peg_iterm fuel ts <> Oof.
Proof.
  induction fuel as [|f IH]; intros ts F; [lia|]. cbn [peg_iterm].
  pose proof (i_operand_noof (peg_iterm f) ts) as N.
  destruct (i_operand (peg_iterm f) ts) as [its r0| |] eqn:E; try discriminate.
  - apply (i_operand_shr _ (peg_iterm_shr f)) in E.
    pose proof (i_tail_noof (peg_iterm f) (peg_iterm_shr f) f r0) as T.
    destruct (i_tail (peg_iterm f) f r0) as [more r'| |]; try discriminate.
    + destruct (pratt_iterm (its ++ more)); discriminate.
    + oof T; [lia|]. intros. apply IH. lia.
  - oof N. intros. apply IH. lia.
Qed.

Lemma peg_gterm_noof fuel ts : sz ts < fuel -> peg_gterm fuel ts <> Oof.
Proof.
  intros F. unfold peg_gterm. pose proof (peg_iterm_noof fuel ts F) as N.
  assert (G : match peg_iterm fuel ts with
              | Ok t r => Ok (GInt t) r
              | Oof => Oof
              | Fail =>
                  match ts with
                  | TFun c SSymbol :: r => Ok (GSym (SFun c)) r
                  | TWord s :: r => Ok (GSym (SSym s)) r
                  | TVar x SSymbol :: r => Ok (GSym (SVar x)) r
                  | TVar x SGeneral :: r => Ok (GVar x) r
                  | TInf :: r => Ok GInf r
                  | TSup :: r => Ok GSup r
                  | _ => Fail
                  end
              end <> Oof).
  { destruct (peg_iterm fuel ts); try discriminate; [|congruence].
    destruct ts as [|t r0]; [discriminate|]. destruct t; try discriminate; destruct s; discriminate. }
  destruct ts as [|t r0]; [exact G|]. destruct t; try exact G. destruct s; try exact G. discriminate.
Qed.

Lemma peg_terms_noof : forall fuel ts, sz ts + 1 < fuel -> peg_terms fuel ts <> Oof.
Proof.
  induction fuel as [|f IH]; intros ts F; [lia|]. cbn [peg_terms].
  pose proof (peg_gterm_noof f ts) as N.
  destruct (peg_gterm f ts) as [t r0| |] eqn:E; try discriminate; [|oof N; lia].
  apply peg_gterm_shr in E.
  destruct r0 as [|t0 r1]; [discriminate|]. destruct t0; try discriminate.
  specialize (IH r1). rewrite sz_cons in E. destruct (peg_terms f r1); try discriminate. oof IH. lia.
Qed.

Lemma peg_tuple_noof fuel ts : sz ts < fuel -> peg_tuple fuel ts <> Oof.
Proof.
  intros F. unfold peg_tuple. destruct ts as [|t r0]; [discriminate|]. destruct t; try discriminate.
  rewrite sz_cons in F. cbn [tok_size] in F.
  pose proof (peg_terms_noof fuel r0) as N.
  destruct (peg_terms fuel r0) as [l [|t' r']| |]; try discriminate.
  - destruct t'; discriminate.
  - destruct r0 as [|t' r']; [discriminate|]. destruct t'; discriminate.
  - oof N. lia.
Qed.

Lemma peg_atom_noof fuel ts : sz ts < fuel -> peg_atom fuel ts <> Oof.
Proof.
  intros F. unfold peg_atom. destruct ts as [|t r0]; [discriminate|]. destruct t; try discriminate.
  rewrite sz_cons in F. pose proof (peg_tuple_noof fuel r0) as N.
  destruct (peg_tuple fuel r0); try discriminate. oof N. lia.
Qed.

Lemma peg_guards_noof : forall fuel ts, sz ts + 1 < fuel -> peg_guards fuel ts <> Oof.
Proof.
  induction fuel as [|f IH]; intros ts F; [lia|]. cbn [peg_guards].
  destruct (split_rel ts) as [[rl r0]|] eqn:S; [|discriminate]. apply split_rel_size in S.
  pose proof (peg_gterm_noof f r0) as N.
  destruct (peg_gterm f r0) as [t r'| |] eqn:E; try discriminate; [|oof N; lia].
  apply peg_gterm_shr in E. specialize (IH r').
  destruct (peg_guards f r'); try discriminate. oof IH. lia.
Qed.

Lemma peg_comparison_noof fuel ts : sz ts + 1 < fuel -> peg_comparison fuel ts <> Oof.
Proof.
  intros F. unfold peg_comparison. pose proof (peg_gterm_noof fuel ts) as N.
  destruct (peg_gterm fuel ts) as [t r0| |] eqn:E; try discriminate; [|oof N; lia].
  apply peg_gterm_shr in E. pose proof (peg_guards_noof fuel r0) as G.
  destruct (peg_guards fuel r0) as [[|g gs] r'| |]; try discriminate. oof G. lia.
Qed.

Lemma peg_atomic_noof fuel ts : sz ts + 1 < fuel -> peg_atomic fuel ts <> Oof.
Proof.
  intros F. unfold peg_atomic.
  assert (G : match peg_comparison fuel ts with
              | Ok a r => Ok a r | Oof => Oof | Fail => peg_atom fuel ts end <> Oof).
  { pose proof (peg_comparison_noof fuel ts F) as N.
    destruct (peg_comparison fuel ts); try discriminate; [|congruence]. apply peg_atom_noof. lia. }
  destruct ts as [|t r0]; [exact G|]. destruct t; try exact G; discriminate.
Qed.

Lemma f_prefixes_noof : forall fuel ts, sz ts < fuel -> f_prefixes fuel ts <> Oof.
Proof.
  induction fuel as [|f IH]; intros ts F; [lia|]. cbn [f_prefixes].
  destruct (peg_prefix ts) as [[p r0]|] eqn:E; [|discriminate]. apply peg_prefix_size in E.
  specialize (IH r0). destruct (f_prefixes f r0); try discriminate. oof IH. lia.
Qed.

Lemma f_atomic_noof afuel ts : sz ts + 1 < afuel -> f_atomic afuel ts <> Oof.
Proof.
  intros F. unfold f_atomic. pose proof (peg_atomic_noof afuel ts F). destruct (peg_atomic afuel ts); congruence.
Qed.

Lemma f_primary_noof rec afuel ts : (forall ts', sz ts' < sz ts -> rec ts' <> Oof) -> sz ts + 1 < afuel ->
  f_primary rec afuel ts <> Oof.
Proof.
  intros H F. unfold f_primary. pose proof (f_atomic_noof afuel ts F) as A.
  destruct ts as [|t r0]; [exact A|]. destruct t; try exact A.
  specialize (H r0). rewrite sz_cons in H. cbn [tok_size] in H.
  destruct (rec r0) as [t [|t' r']| |]; try exact A; [destruct t'; try exact A; discriminate|]. oof H. lia.
Qed.

Lemma f_operand_noof rec afuel fuel ts : (forall ts', sz ts' < sz ts -> rec ts' <> Oof) ->
  sz ts + 1 < afuel -> sz ts < fuel -> f_operand rec afuel fuel ts <> Oof.
Proof.
  intros H A F. unfold f_operand. pose proof (f_prefixes_noof fuel ts F) as N.
  destruct (f_prefixes fuel ts) as [ps r0| |] eqn:E; try discriminate; [|congruence].
  apply f_prefixes_shr in E. pose proof (f_primary_noof rec afuel r0) as P.
  destruct (f_primary rec afuel r0); try discriminate. oof P; [intros; apply H; lia|lia].
Qed.

Lemma f_tail_noof rec afuel : shr rec -> forall fuel ts, sz ts + 1 < fuel -> sz ts + 1 < afuel ->
  (forall ts', sz ts' < sz ts -> rec ts' <> Oof) -> f_tail rec afuel fuel ts <> Oof.
Proof.
  intros Hrec. induction fuel as [|f IH]; intros ts F A H; [lia|]. cbn [f_tail].
  destruct (peg_infix ts) as [[c r0]|] eqn:S; [|discriminate]. apply peg_infix_size in S.
  pose proof (f_operand_noof rec afuel f r0) as N.
  destruct (f_operand rec afuel f r0) as [its r'| |] eqn:E; try discriminate.
  - apply (f_operand_shr rec afuel f Hrec) in E. specialize (IH r').
    destruct (f_tail rec afuel f r'); try discriminate. oof IH; [lia|lia|]. intros. apply H. lia.
  - oof N; [intros; apply H; lia|lia|lia].
Qed.

Lemma peg_formula_noof : forall fuel ts, sz ts + 2 < fuel -> peg_formula fuel ts <> Oof.
Proof.
  induction fuel as [|f IH]; intros ts F; [lia|]. cbn [peg_formula].
  pose proof (f_operand_noof (peg_formula f) f f ts) as N.
  destruct (f_operand (peg_formula f) f f ts) as [its r0| |] eqn:E; try discriminate.
  - apply (f_operand_shr _ _ _ (peg_formula_shr f)) in E.
    pose proof (f_tail_noof (peg_formula f) f (peg_formula_shr f) f r0) as T.
    destruct (f_tail (peg_formula f) f f r0) as [more r'| |]; try discriminate.
    + destruct (pratt_formula (its ++ more)); discriminate.
    + oof T; [lia|lia|]. intros. apply IH. lia.
  - oof N; [intros; apply IH; lia|lia|lia].
Qed.

Lemma peg_formula_lead_noof fuel ts : sz ts + 2 < fuel -> peg_formula_lead fuel ts <> Oof.
Proof.
  intros F. destruct fuel as [|f]; [lia|]. cbn [peg_formula_lead].
  pose proof (f_primary_noof (peg_formula f) f ts) as N.
  destruct (f_primary (peg_formula f) f ts) as [t r0| |] eqn:E; try discriminate.
  - apply (f_primary_shr _ _ (peg_formula_shr f)) in E.
    pose proof (f_tail_noof (peg_formula f) f (peg_formula_shr f) f r0) as T.
    destruct (f_tail (peg_formula f) f f r0) as [more r'| |]; try discriminate.
    + destruct (pratt_formula (PPrim t :: more)); discriminate.
    + oof T; [lia|lia|]. intros. apply peg_formula_noof. lia.
  - oof N; [intros; apply peg_formula_noof; lia|lia].
Qed.

Lemma peg_annot_noof fuel ts : sz ts + 2 < fuel -> peg_annot fuel ts <> Oof.
Proof.
  intros F. unfold peg_annot. destruct ts as [|t r0]; [discriminate|].
  destruct (role_of_tok t) as [ro|]; [|discriminate].
  pose proof (peg_direction_size r0) as D. destruct (peg_direction r0) as [d r1]. cbn [snd] in D.
  pose proof (peg_name_size r1) as N. destruct (peg_name r1) as [n r2]. cbn [snd] in N.
  destruct r2 as [|t2 r3]; [discriminate|]. destruct t2; try discriminate.
  rewrite !sz_cons in *. pose proof (peg_formula_noof fuel r3) as P.
  destruct (peg_formula fuel r3); try discriminate. oof P. lia.
Qed.

Lemma peg_ug_annot_noof fuel ts : sz ts + 2 < fuel -> peg_ug_annot fuel ts <> Oof.
Proof.
  intros F. unfold peg_ug_annot. pose proof (peg_annot_noof fuel ts F). destruct (peg_annot fuel ts); congruence.
Qed.

Lemma peg_ug_entry_noof fuel ts : sz ts + 2 < fuel -> peg_ug_entry fuel ts <> Oof.
Proof.
  intros F. unfold peg_ug_entry. pose proof (peg_ug_annot_noof fuel ts F) as A.
  repeat match goal with
         | |- context [match ?x with _ => _ end] => destruct x
         | |- context [if ?b then _ else _] => destruct b
         end; try exact A; discriminate.
Qed.

Section DottedNoOof.
  Context {A : Type}.
  Variable entry : nat -> list token -> res A.
  Variable k : nat.
  Hypothesis entry_shr : forall fuel, shr (entry fuel).
  Hypothesis entry_noof : forall fuel ts, sz ts + k < fuel -> entry fuel ts <> Oof.

  Lemma peg_dotted_noof : forall fuel ts, sz ts + k + 1 < fuel -> peg_dotted entry fuel ts <> Oof.
  Proof.
    induction fuel as [|f IH]; intros ts F; [lia|]. cbn [peg_dotted].
    pose proof (entry_noof f ts) as N.
    destruct (entry f ts) as [x [|t r]| |] eqn:E; try discriminate; [|oof N; lia].
    destruct t; try discriminate. apply entry_shr in E. rewrite sz_cons in E.
    specialize (IH r). destruct (peg_dotted entry f r); try discriminate. oof IH. lia.
  Qed.
End DottedNoOof.

Lemma finish_noof {A B} (r : res A) (ir : A -> bool) (conv : A -> B) : r <> Oof -> finish r ir conv <> PR_oof.
Proof.
  unfold finish. intros H. destruct r as [a [|t rest]| |]; try discriminate; [|congruence].
  destruct (ir a); discriminate.
Qed.

Lemma fuel_of_enough ts : sz ts + 3 < fuel_of ts.
Proof. unfold fuel_of. lia. Qed.

(* ================================================================ D. the entry points *)

Theorem parse_formula_toks_noof ts : parse_formula_toks ts <> PR_oof.
Proof. apply finish_noof, peg_formula_noof. pose proof (fuel_of_enough ts). lia. Qed.

Theorem parse_theory_toks_noof ts : parse_theory_toks ts <> PR_oof.
Proof.
  apply finish_noof. apply (peg_dotted_noof peg_formula 2 peg_formula_shr peg_formula_noof).
  pose proof (fuel_of_enough ts). lia.
Qed.

Theorem parse_spec_toks_noof ts : parse_spec_toks ts <> PR_oof.
Proof.
  apply finish_noof. apply (peg_dotted_noof peg_annot 2 peg_annot_shr peg_annot_noof).
  pose proof (fuel_of_enough ts). lia.
Qed.

Theorem parse_ug_raw_toks_noof ts : parse_ug_raw_toks ts <> PR_oof.
Proof.
  apply finish_noof. apply (peg_dotted_noof peg_ug_entry 2 peg_ug_entry_shr peg_ug_entry_noof).
  pose proof (fuel_of_enough ts). lia.
Qed.

Theorem parse_ug_toks_noof ts : parse_ug_toks ts <> PR_oof.
Proof.
  apply finish_noof. apply (peg_dotted_noof peg_ug_entry 2 peg_ug_entry_shr peg_ug_entry_noof).
  pose proof (fuel_of_enough ts). lia.
Qed.

Lemma on_text_noof {A} (p : list token -> presult A) s : (forall ts, p ts <> PR_oof) -> on_text p s <> PR_oof.
Proof. intros H. unfold on_text. destruct (lex s); [apply H|discriminate]. Qed.

Theorem parse_formula_str_noof s : parse_formula_str s <> PR_oof.
Proof.
  unfold parse_formula_str. destruct (lex s) as [ts|]; [|discriminate].
  destruct (chars s) as [|c cs]; [discriminate|].
  assert (N : (if is_space c || Ascii.eqb c "%"%char then peg_formula_lead (fuel_of ts) ts
               else peg_formula (fuel_of ts) ts) <> Oof).
  { pose proof (fuel_of_enough ts).
    destruct (is_space c || Ascii.eqb c "%"%char); [apply peg_formula_lead_noof|apply peg_formula_noof]; lia. }
  pose proof (finish_noof _ formula_in_range (fun x : formula => x) N) as FN.
  destruct (if is_space c || Ascii.eqb c "%"%char then peg_formula_lead (fuel_of ts) ts
            else peg_formula (fuel_of ts) ts) as [f [|t rest]| |]; try exact FN.
  destruct (keyword_at_end f && ends_at_word s); [discriminate|exact FN].
Qed.

Theorem fol_never_out_of_fuel :
  (forall ts, parse_formula_toks ts <> PR_oof /\ parse_theory_toks ts <> PR_oof /\
              parse_spec_toks ts <> PR_oof /\ parse_ug_toks ts <> PR_oof /\ parse_ug_raw_toks ts <> PR_oof) /\
  (forall s, parse_formula_str s <> PR_oof /\ parse_theory_str s <> PR_oof /\
             parse_spec_str s <> PR_oof /\ parse_ug_str s <> PR_oof /\ parse_ug_raw_str s <> PR_oof).
Proof.
  split.
  - intros ts. repeat split; [apply parse_formula_toks_noof|apply parse_theory_toks_noof|
      apply parse_spec_toks_noof|apply parse_ug_toks_noof|apply parse_ug_raw_toks_noof].
  - intros s. repeat split; [apply parse_formula_str_noof| | | |]; apply on_text_noof;
      [exact parse_theory_toks_noof|exact parse_spec_toks_noof|exact parse_ug_toks_noof|exact parse_ug_raw_toks_noof].
Qed.

(* ================================================================ E. the counters whose exhaustion is NOT
   the explicit Oof: the Pratt phase ([pratt] runs on [length items], None at 0), re-lexing ([relex] runs
   on S (length w), [TBad] at 0) and the lexer ([lex] runs on S (length l), None at 0).  Any two counters at
   or above the computed one agree. *)
From Anthem Require Import Proofs.FolPrattOk.

Section PrattFuel.
  Variables T U B : Type.
  Variable mk_un : U -> T -> T.
  Variable mk_bin : B -> T -> T -> T.
  Variable pre_bp : U -> option nat.
  Variable in_bp : B -> option (nat * assoc).
  Notation item := (pitem T U B).
  Notation expr := (pratt_expr mk_un mk_bin pre_bp in_bp).
  Notation loop := (pratt_loop mk_un mk_bin pre_bp in_bp).
  Notation expr_S := (expr_S T U B mk_un mk_bin pre_bp in_bp).
  Notation loop_eq := (loop_eq T U B mk_un mk_bin pre_bp in_bp).

  Lemma pratt_fn_len : forall f,
    (forall rbp is t r, expr f rbp is = Some (t, r) -> List.length r < List.length is) /\
    (forall rbp lhs is t r, loop f rbp lhs is = Some (t, r) -> List.length r <= List.length is).
  Proof.
    induction f as [|f [IHE IHL]].
    - split; [discriminate|]. intros rbp lhs is t r. rewrite loop_eq.
      destruct is as [|i is]; [intros [= _ <-]; lia|]. destruct i; try discriminate.
      destruct (in_bp o) as [[p a]|]; [|discriminate]. destruct (rbp <? p)%nat; [discriminate|].
      intros [= _ <-]. lia.
    - assert (E : forall rbp is t r, expr (S f) rbp is = Some (t, r) -> List.length r < List.length is).
      { intros rbp is t r. rewrite expr_S. destruct is as [|i is]; [discriminate|]. destruct i; try discriminate.
        - intros H. apply IHL in H. cbn [List.length]. lia.
        - destruct (pre_bp u) as [p|]; [|discriminate].
          destruct (expr f (p - 1) is) as [[t0 r0]|] eqn:E0; [|discriminate].
          intros H. apply IHE in E0. apply IHL in H. cbn [List.length]. lia. }
      split; [exact E|].
      intros rbp lhs is t r. rewrite loop_eq.
      destruct is as [|i is]; [intros [= _ <-]; lia|]. destruct i; try discriminate.
      destruct (in_bp o) as [[p a]|]; [|discriminate]. destruct (rbp <? p)%nat; [|intros [= _ <-]; lia].
      destruct (expr f (rhs_bp p a) is) as [[rhs r0]|] eqn:E0; [|discriminate].
      intros H. apply IHE in E0. apply IHL in H. cbn [List.length]. lia.
  Qed.

  Lemma pratt_fn_fuel : forall f1,
    (forall f2 rbp is, List.length is <= f1 -> List.length is <= f2 -> expr f1 rbp is = expr f2 rbp is) /\
    (forall f2 rbp lhs is, List.length is <= f1 -> List.length is <= f2 -> loop f1 rbp lhs is = loop f2 rbp lhs is).
  Proof.
    induction f1 as [|f1 [IHE IHL]].
    - split.
      + intros f2 rbp is H1 H2. destruct is; [|cbn in H1; lia]. destruct f2; reflexivity.
      + intros f2 rbp lhs is H1 H2. destruct is; [|cbn in H1; lia]. rewrite !loop_eq. reflexivity.
    - split.
      + intros f2 rbp is H1 H2. destruct f2 as [|f2]; [destruct is; [reflexivity|cbn in H2; lia]|].
        rewrite !expr_S. destruct is as [|i is]; [reflexivity|]. cbn [List.length] in *.
        destruct i; try reflexivity.
        * apply IHL; lia.
        * destruct (pre_bp u) as [p|]; [|reflexivity].
          rewrite <- (IHE f2) by lia.
          destruct (expr f1 (p - 1) is) as [[t0 r0]|] eqn:E0; [|reflexivity].
          apply (proj1 (pratt_fn_len f1)) in E0. apply IHL; lia.
      + intros f2 rbp lhs is H1 H2. rewrite !loop_eq.
        destruct is as [|i is]; [reflexivity|]. cbn [List.length] in *. destruct i; try reflexivity.
        destruct (in_bp o) as [[p a]|]; [|reflexivity]. destruct (rbp <? p)%nat; [|reflexivity].
        destruct f2 as [|f2]; [lia|].
        rewrite <- (IHE f2) by lia.
        destruct (expr f1 (rhs_bp p a) is) as [[rhs r0]|] eqn:E0; [|reflexivity].
        apply (proj1 (pratt_fn_len f1)) in E0. apply IHL; lia.
  Qed.

  (* [pratt] with an arbitrary counter at or above the number of items *)
  Theorem pratt_fuel f is : List.length is <= f ->
    match expr f 0 is with Some (t, []) => Some t | _ => None end = pratt mk_un mk_bin pre_bp in_bp is.
  Proof.
    intros H. unfold pratt. rewrite (proj1 (pratt_fn_fuel f) (List.length is)) by lia. reflexivity.
  Qed.
End PrattFuel.

Lemma relex_run_fuel : forall f1 f2 w suf, List.length w < f1 -> List.length w < f2 ->
  relex_run f1 w suf = relex_run f2 w suf.
Proof.
  induction f1 as [|f1 IH]; intros f2 w suf H1 H2; [lia|]. destruct f2 as [|f2]; [lia|].
  cbn [relex_run]. destruct w as [|c r]; [reflexivity|]. cbn [List.length] in *.
  destruct (Ascii.eqb c "0"); [rewrite (IH f2) by lia; reflexivity|].
  destruct (is_digit c) eqn:D; [|reflexivity].
  destruct (span is_digit (c :: r)) as [ds r'] eqn:E.
  assert (L : List.length r' < List.length (c :: r)).
  { cbn [span] in E. rewrite D in E. destruct (span is_digit r) as [a b] eqn:E2. inversion E; subst.
    apply span_length in E2. cbn. lia. }
  cbn [List.length] in L. rewrite (IH f2) by lia. reflexivity.
Qed.

Theorem relex_fuel f w suf : List.length w < f -> relex_run f w suf = relex w suf.
Proof. intros H. unfold relex. apply relex_run_fuel; lia. Qed.

Lemma strip_prefix_le pre l r : strip_prefix pre l = Some r -> List.length r <= List.length l.
Proof. intros H. apply strip_prefix_length in H. lia. Qed.

Lemma span_le p l a b : span p l = (a, b) -> List.length b <= List.length l.
Proof. intros H. apply span_length in H. lia. Qed.

Lemma span_head_lt p c l a b : p c = true -> span p (c :: l) = (a, b) -> List.length b <= List.length l.
Proof.
  intros Hc. cbn [span]. rewrite Hc. destruct (span p l) as [a' b'] eqn:E. intros [= _ <-].
  apply span_length in E. lia.
Qed.

Lemma lex_suffix_le l suf r : lex_suffix l = (suf, r) -> List.length r <= List.length l.
Proof.
  unfold lex_suffix. destruct l as [|c r0]; [intros [= _ <-]; lia|].
  destruct c as [[] [] [] [] [] [] [] []]; try (intros [= _ <-]; lia).
  repeat match goal with |- context [strip_prefix ?p ?x] => destruct (strip_prefix p x) eqn:? end;
    intros [= _ <-];
    repeat match goal with H : strip_prefix _ _ = Some _ |- _ => apply strip_prefix_length in H end;
    cbn in *; lia.
Qed.

Lemma wordstart_wordchar c : is_wordstart c = true -> is_wordchar c = true.
Proof.
  unfold is_wordstart, is_wordchar. destruct (is_digit c), (is_lower c), (is_upper c), (Ascii.eqb c "_"); auto.
Qed.

Lemma lex_go_fuel : forall f1 f2 l, List.length l < f1 -> List.length l < f2 -> lex_go f1 l = lex_go f2 l.
Proof.
  induction f1 as [|f1 IH]; intros f2 l H1 H2; [lia|]. destruct f2 as [|f2]; [lia|].
  cbn [lex_go]. destruct l as [|c r]; [reflexivity|]. cbn [List.length] in *.
  assert (R : forall l', List.length l' <= List.length r -> lex_go f1 l' = lex_go f2 l')
    by (intros; apply IH; lia).
  destruct (is_space c); [apply R; lia|].
  destruct (Ascii.eqb c "%").
  { destruct (span (fun d => negb (is_newline d)) r) as [a b] eqn:E. cbn [snd]. apply R.
    apply span_le in E. exact E. }
  destruct (is_wordstart c) eqn:WS.
  { destruct (span is_wordchar (c :: r)) as [w r1] eqn:E.
    apply (span_head_lt _ _ _ _ _ (wordstart_wordchar c WS)) in E.
    assert (SUF : (let '(suf, r3) := lex_suffix r1 in cons_tok (word_tok w suf) (lex_go f1 r3)) =
                  (let '(suf, r3) := lex_suffix r1 in cons_tok (word_tok w suf) (lex_go f2 r3))).
    { destruct (lex_suffix r1) as [suf r3] eqn:E3. apply lex_suffix_le in E3. rewrite R by lia. reflexivity. }
    destruct (if String.eqb (unchars w) "inductive" then strip_prefix (chars "-lemma") r1 else None) as [r2|] eqn:E2;
      [|exact SUF].
    assert (L2 : List.length r2 <= List.length r1).
    { destruct (String.eqb (unchars w) "inductive"); [apply strip_prefix_le in E2; exact E2|discriminate]. }
    destruct r2 as [|d r2']; [rewrite R by (cbn in *; lia); reflexivity|].
    destruct (is_wordchar d || Ascii.eqb d "$"); [exact SUF|rewrite R by lia; reflexivity]. }
  destruct (Ascii.eqb c "0"); [rewrite R by lia; reflexivity|].
  destruct (is_digit c) eqn:D.
  { destruct (span is_digit (c :: r)) as [ds r1] eqn:E. apply (span_head_lt _ _ _ _ _ D) in E.
    rewrite R by lia. reflexivity. }
  assert (SP : forall r', List.length r' <= List.length r -> forall (t : N -> token),
            (let '(ds, r1) := span is_digit r' in cons_tok (t (digits_val ds)) (lex_go f1 r1)) =
            (let '(ds, r1) := span is_digit r' in cons_tok (t (digits_val ds)) (lex_go f2 r1))).
  { intros r' L t. destruct (span is_digit r') as [ds r1] eqn:E. apply span_le in E. rewrite R by lia. reflexivity. }
  assert (SPF : forall r', List.length r' <= List.length r -> forall (t : N -> token),
            (let '(ds, r1) := span is_digit r' in cons_tok (t (digits_val ds)) (lex_go f1 r1)) =
            (let '(ds, r1) := span is_digit r' in cons_tok (t (digits_val ds)) (lex_go f2 r1))) by exact SP.
  clear IH D WS.
  repeat match goal with
         | |- context [if Ascii.eqb c ?k then _ else _] => destruct (Ascii.eqb c k)
         end;
  try reflexivity; try (rewrite R by lia; reflexivity).
  all: repeat match goal with
         | |- context [strip_prefix ?p ?x] => destruct (strip_prefix p x) eqn:?
         end;
       repeat match goal with H : strip_prefix _ _ = Some _ |- _ => apply strip_prefix_le in H end;
       try reflexivity; try (rewrite R by lia; reflexivity).
  all: destruct r as [|d r1]; try reflexivity; try (rewrite R by (cbn; lia); reflexivity).
  all: repeat match goal with
         | |- context [if ?b then _ else _] => destruct b
         | |- context [match ?x with _ => _ end] => is_var x; destruct x
         end;
       first [ reflexivity
             | rewrite R by (cbn [List.length] in *; lia); reflexivity
             | apply SP; cbn [List.length] in *; lia ].
Qed.

Theorem lex_fuel f s : String.length s < f -> lex_go f (chars s) = lex s.
Proof. intros H. unfold lex. apply lex_go_fuel; rewrite chars_length; lia. Qed.

(* packaged for Properties/C15.v *)
Theorem fol_fuel_inner :
  (forall f is, List.length is <= f ->
     match pratt_expr mk_fpre (fun c l r => FBin c l r) formula_pre_bp formula_in_bp f 0 is with
     | Some (t, []) => Some t | _ => None end = pratt_formula is) /\
  (forall f is, List.length is <= f ->
     match pratt_expr (fun _ t => IUn UNeg t) (fun o l r => IBin o l r) iterm_pre_bp iterm_in_bp f 0 is with
     | Some (t, []) => Some t | _ => None end = pratt_iterm is) /\
  (forall f w suf, List.length w < f -> relex_run f w suf = relex w suf) /\
  (forall f s, String.length s < f -> lex_go f (chars s) = lex s).
Proof.
  split; [|split; [|split]].
  - intros. unfold pratt_formula. apply pratt_fuel. assumption.
  - intros. unfold pratt_iterm. apply pratt_fuel. assumption.
  - exact relex_fuel.
  - exact lex_fuel.
Qed.
