(* C06 in a problem context / side conditions of C09_text: for every formula of an emitted problem
   outside IdentClass
   - the printed tokens are readable ([wf_lex]) when the formula is closed and in the parser image;
   - its names are interpreted as intended under the problem's constant signature
     ([names_in (problem_csig p)]);
   and the constant signature can be recovered from the declarations of [emit p]. *)
From Coq Require Import List Ascii String ZArith NArith Bool Lia Permutation.
From Anthem Require Import Base.ISet Base.Fresh Syntax.Fol Syntax.Tff Sem.Domain Sem.Sat Sem.TffSem Sem.TffWt
  Model.Problem Model.TptpPrint Model.ProblemPrint Gen.Preamble
  Proofs.TptpSem Proofs.TptpRead Proofs.ChainOk Proofs.PipelineOk Proofs.ProblemWt.
Import ListNotations.
Open Scope string_scope.
Open Scope list_scope.

(* ---------- "every occurrence of a predicate / placeholder / symbolic constant satisfies .." ---------- *)
Section Occ.
Variables (pp : string -> bool) (pc : string -> sort -> bool) (ps : string -> bool).
Fixpoint iterm_occ (t : iterm) : bool :=
  match t with
  | IFun c => pc c SInteger
  | INum _ | IVar _ => true
  | IUn _ a => iterm_occ a
  | IBin _ l r => iterm_occ l && iterm_occ r
  end.
Definition sterm_occ (t : sterm) : bool :=
  match t with SSym s => ps s | SFun c => pc c SSymbol | SVar _ => true end.
Definition gterm_occ (t : gterm) : bool :=
  match t with GFun c => pc c SGeneral | GInt a => iterm_occ a | GSym a => sterm_occ a | _ => true end.
Definition aformula_occ (a : aformula) : bool :=
  match a with
  | ATrue | AFalse => true
  | AAtom p ts => pp p && forallb gterm_occ ts
  | ACmp t gs => gterm_occ t && forallb (fun g => gterm_occ (gterm_of g)) gs
  end.
Fixpoint occ_ok (f : formula) : bool :=
  match f with
  | FAtomic a => aformula_occ a
  | FNot g => occ_ok g
  | FBin _ l r => occ_ok l && occ_ok r
  | FQ _ _ g => occ_ok g
  end.

Definition PC (c : fconst) : Prop := pc (fcname c) (fcsort c) = true.
Lemma iterm_occ_of t : (forall c, In c (iterm_fconsts t) -> PC c) -> iterm_occ t = true.
Proof.
  induction t as [z|c|x|[] a IH|o l IHl r IHr]; cbn [iterm_fconsts iterm_occ]; intros Hc; auto.
  - apply (Hc (mkfconst c SInteger)). left; reflexivity.
  - rewrite IHl, IHr; auto; intros c Hin; apply Hc; apply (in_iset_extend fconst_dec); auto.
Qed.
Lemma gterm_occ_of t : (forall c, In c (gterm_fconsts t) -> PC c) -> (forall s, In s (gterm_symbols t) -> ps s = true) ->
  gterm_occ t = true.
Proof.
  destruct t as [| |c|x|a|[s|c|x]]; cbn; intros Hc Hs; auto.
  - apply (Hc (mkfconst c SGeneral)). left; reflexivity.
  - apply iterm_occ_of, Hc.
  - apply (Hc (mkfconst c SSymbol)). left; reflexivity.
Qed.
Lemma aformula_occ_of a : (forall q, In q (aformula_preds a) -> pp (psym q) = true) ->
  (forall c, In c (aformula_fconsts a) -> PC c) -> (forall s, In s (aformula_symbols a) -> ps s = true) ->
  aformula_occ a = true.
Proof.
  destruct a as [| |p ts|t gs]; cbn [aformula_preds aformula_fconsts aformula_symbols aformula_occ]; intros Hp Hc Hs; auto.
  - pose proof (Hp (mkpred p (List.length ts)) (or_introl eq_refl)) as Hp'. cbn [psym] in Hp'. rewrite Hp'. cbn [andb].
    apply forallb_forall. intros t Ht. apply gterm_occ_of.
    + intros c Hin. apply Hc. apply in_extend_all. right. exists t; auto.
    + intros s Hin. apply Hs. apply in_extend_all. right. exists t; auto.
  - apply andb_true_iff. split.
    + apply gterm_occ_of; [intros c Hin; apply Hc|intros s Hin; apply Hs]; apply in_extend_all; auto.
    + apply forallb_forall. intros g Hg. apply gterm_occ_of.
      * intros c Hin. apply Hc. apply in_extend_all. right. exists g; auto.
      * intros s Hin. apply Hs. apply in_extend_all. right. exists g; auto.
Qed.
Lemma occ_of_sets F : (forall q, In q (predicates F) -> pp (psym q) = true) ->
  (forall c, In c (function_constants F) -> PC c) -> (forall s, In s (symbols F) -> ps s = true) ->
  occ_ok F = true.
Proof.
  induction F as [a|g IH|c l IHl r IHr|q vs g IH]; cbn [predicates function_constants symbols occ_ok]; intros Hp Hc Hs.
  - apply aformula_occ_of; assumption.
  - apply IH; assumption.
  - rewrite IHl, IHr; auto; intros x Hx;
      [apply Hp; apply (in_iset_extend pred_dec)|apply Hc; apply (in_iset_extend fconst_dec)
      |apply Hs; apply (in_iset_extend string_dec)|apply Hp; apply (in_iset_extend pred_dec)
      |apply Hc; apply (in_iset_extend fconst_dec)|apply Hs; apply (in_iset_extend string_dec)]; auto.
  - apply IH; assumption.
Qed.
End Occ.

(* ---------- names_in is an instance ---------- *)
Lemma names_in_of_occ K F :
  occ_ok (fun p => negb (is_reserved_pred p)) (place_in K) (sym_in K) F = true -> names_in K F = true.
Proof. intros H. exact H. (* the two recursions are convertible *) Qed.

(* ---------- wf_lex from lower-word identifiers, upper-word bound variables, closedness ---------- *)
Lemma lower_suffix_inv c s : is_lower_word (c ++ suffix s) = true -> is_lower_word c = true.
Proof.
  destruct c as [|a r]; [destruct s; discriminate|].
  cbn [append is_lower_word]. rewrite !andb_true_iff, all_chars_app, andb_true_iff. tauto.
Qed.
Definition lowc (c : string) (s : sort) : bool := is_lower_word (c ++ suffix s).
Definition upper_ctx (B : list var) : Prop := forall v, In v B -> is_upper_word (vname v) = true.

Lemma iterm_lex_of B t : upper_ctx B -> iterm_occ lowc t = true -> iterm_closed B t = true -> iterm_ok t = true.
Proof.
  intros HB. induction t as [z|c|x|[] a IH|o l IHl r IHr]; cbn [iterm_occ iterm_closed iterm_ok]; auto.
  - intros H _. exact (lower_suffix_inv c SInteger H).
  - intros _ Hb. apply (HB (mkvar x SInteger)), bound_in, Hb.
  - rewrite !andb_true_iff. intros [H1 H2] [H3 H4]; auto.
Qed.
Lemma gterm_lex_of B t : upper_ctx B -> gterm_occ lowc is_lower_word t = true -> gterm_closed B t = true -> gterm_lex t = true.
Proof.
  intros HB. destruct t as [| |c|x|a|[s|c|x]]; cbn; auto.
  - intros H _. exact (lower_suffix_inv c SGeneral H).
  - intros _ Hb. apply (HB (mkvar x SGeneral)), bound_in, Hb.
  - apply iterm_lex_of, HB.
  - intros H _. exact (lower_suffix_inv c SSymbol H).
  - intros _ Hb. apply (HB (mkvar x SSymbol)), bound_in, Hb.
Qed.
Lemma wf_lex_of F : occ_ok is_lower_word lowc is_lower_word F = true -> formula_vars_ok F = true ->
  cmps_nonempty F = true -> forall B, upper_ctx B -> closedb B F = true -> wf_lex F = true.
Proof.
  induction F as [a|g IH|c l IHl r IHr|q vs g IH]; cbn [occ_ok formula_vars_ok cmps_nonempty closedb wf_lex];
    intros Ho Hv Hn B HB Hb.
  - destruct a as [| |p ts|t gs]; cbn [aformula_occ aformula_closed aformula_lex] in *; auto.
    + apply andb_true_iff in Ho. destruct Ho as [Hp Hts]. rewrite Hp. cbn [andb].
      rewrite forallb_forall in *. intros t Ht. apply (gterm_lex_of B); auto.
    + apply andb_true_iff in Ho, Hb. destruct Ho as [Ht Hgs]. destruct Hb as [Hbt Hbgs].
      rewrite (gterm_lex_of B t HB Ht Hbt), Hn. cbn [andb].
      rewrite forallb_forall in *. intros g Hg. apply (gterm_lex_of B); auto.
  - eapply IH; eauto.
  - apply andb_true_iff in Ho, Hv, Hn, Hb.
    destruct Ho, Hv, Hn, Hb. rewrite (IHl H H1 H3 B HB H5), (IHr H0 H2 H4 B HB H6). reflexivity.
  - apply andb_true_iff in Hv, Hb. destruct Hv as [Hvs Hgv]. destruct Hb as [Hne Hgb].
    apply andb_true_iff in Hvs. destruct Hvs as [Hup _].
    rewrite Hne, Hup. cbn [andb]. apply (IH Ho Hgv Hn (rev vs ++ B)); [|exact Hgb].
    intros v Hin. apply in_app_iff in Hin. destruct Hin as [Hin|Hin]; [|apply HB, Hin].
    apply in_rev in Hin. rewrite forallb_forall in Hup. apply Hup, Hin.
Qed.

Lemma nodup_app_disjoint {A} (l1 l2 : list A) x : NoDup (l1 ++ l2) -> In x l1 -> In x l2 -> False.
Proof.
  induction l1 as [|a l1 IH]; cbn; [tauto|]. intros Hnd [->|H1] H2.
  - apply NoDup_cons_iff in Hnd. destruct Hnd as [Hn _]. apply Hn. apply in_app_iff. auto.
  - apply NoDup_cons_iff in Hnd. destruct Hnd as [_ Hnd]. auto.
Qed.

(* ---------- in an emitted problem outside IdentClass ---------- *)
Section Ctx.
Variable p : problem.
Hypothesis Hok : ident_ok p = true.
Let Sg := decl_sigs (emit p).
Let K := problem_csig p.

Lemma occ_lower a : In a (pb_formulas p) -> occ_ok is_lower_word lowc is_lower_word (pf_formula a) = true.
Proof.
  intros Hin. destruct (formula_declared p Hok a Hin) as (Hp & Hc & Hs).
  apply occ_of_sets.
  - intros q Hq. apply (Hp q Hq).
  - intros c Hc'. apply (Hc c Hc').
  - intros s Hs'. apply (Hs s Hs').
Qed.

Theorem ctx_wf_lex a : In a (pb_formulas p) -> closed_formula (pf_formula a) = true ->
  cmps_nonempty (pf_formula a) = true -> wf_lex (pf_formula a) = true.
Proof.
  intros Hin Hc Hn. apply (wf_lex_of _ (occ_lower a Hin)) with (B := []); auto.
  - apply (ident_ok_inv p Hok), Hin.
  - intros v [].
Qed.

(* identifiers of the problem are not identifiers of the preamble *)
Lemma own_not_preamble x : In x (problem_idents p) -> ~ In x preamble_idents.
Proof.
  intros Hin Hpre. destruct (ident_ok_inv p Hok) as (_ & Hnd & _).
  exact (nodup_app_disjoint _ _ x Hnd Hpre Hin).
Qed.

Lemma clookup_app_l (A B : csig) x v : clookup A x = Some v -> clookup (A ++ B) x = Some v.
Proof. induction A as [|[y b] A IH]; cbn; [discriminate|]. destruct (String.eqb x y); auto. Qed.
Lemma clookup_app_r (A B : csig) x : ~ In x (map fst A) -> clookup (A ++ B) x = clookup B x.
Proof.
  induction A as [|[y b] A IH]; cbn; [reflexivity|]. intros H.
  destruct (String.eqb_spec x y); [subst; tauto|]. apply IH. tauto.
Qed.

Lemma sym_in_ctx s : In s (problem_symbols p) -> sym_in K s = true.
Proof.
  intros Hin. unfold sym_in.
  assert (Hid : In s (problem_idents p)) by (unfold problem_idents; rewrite !in_app_iff; auto).
  pose proof (own_not_preamble s Hid) as Hnp.
  assert (E1 : String.eqb s "c__infimum__" = false).
  { destruct (String.eqb_spec s "c__infimum__"); [|reflexivity]. exfalso. apply Hnp. subst. vm_compute. tauto. }
  assert (E2 : String.eqb s "c__supremum__" = false).
  { destruct (String.eqb_spec s "c__supremum__"); [|reflexivity]. exfalso. apply Hnp. subst. vm_compute. tauto. }
  rewrite E1, E2. cbn [negb andb].
  unfold K, problem_csig. rewrite (clookup_app_l _ _ s CSelf); [reflexivity|].
  clear - Hin. induction (problem_symbols p) as [|y l IH]; [destruct Hin|]. cbn.
  destruct (String.eqb_spec s y); [reflexivity|]. destruct Hin; [congruence|auto].
Qed.
Lemma place_in_ctx c : In c (problem_function_constants p) -> place_in K (fcname c) (fcsort c) = true.
Proof.
  intros Hin. unfold place_in, K, problem_csig.
  destruct (ident_ok_inv p Hok) as (_ & Hnd & _).
  apply nodup_app_r in Hnd. unfold problem_idents in Hnd. apply nodup_app_r in Hnd.
  rewrite clookup_app_r.
  - clear - Hin. induction (problem_function_constants p) as [|y l IH]; [destruct Hin|]. cbn [map clookup].
    destruct (String.eqb_spec (fcname c ++ suffix (fcsort c)) (fcname y ++ suffix (fcsort y))) as [E|Hne].
    + pose proof (decode_suffix (fcname c) (fcsort c)) as H1. rewrite E, decode_suffix in H1.
      injection H1 as -> ->. rewrite String.eqb_refl. destruct (fcsort c); reflexivity.
    + destruct Hin as [->|Hin]; [congruence|auto].
  - rewrite map_map. cbn [fst]. rewrite map_id. intros Hs.
    apply (nodup_app_disjoint _ _ (fcname c ++ suffix (fcsort c))%string Hnd Hs).
    apply in_map_iff. exists c; auto.
Qed.
Lemma pred_unreserved q : In q (problem_predicates p) -> negb (is_reserved_pred (psym q)) = true.
Proof.
  intros Hin. apply negb_true_iff.
  assert (Hid : In (psym q) (problem_idents p)) by (unfold problem_idents; rewrite !in_app_iff; left; apply in_map, Hin).
  pose proof (own_not_preamble _ Hid) as Hnp.
  pose proof (own_lower p Hok _ Hid) as Hl.
  unfold is_reserved_pred, reserved_preds. cbn [existsb].
  repeat match goal with
  | |- (String.eqb ?a ?b || _)%bool = false =>
      apply orb_false_iff; split;
      [destruct (String.eqb_spec a b) as [E|]; [|reflexivity]; exfalso;
       first [rewrite E in Hl; discriminate Hl | apply Hnp; rewrite E; vm_compute; tauto]|]
  end. reflexivity.
Qed.

Theorem ctx_names_in a : In a (pb_formulas p) -> names_in K (pf_formula a) = true.
Proof.
  intros Hin. apply names_in_of_occ, occ_of_sets.
  - intros q Hq. apply pred_unreserved. unfold problem_predicates. apply in_extend_all. right. exists a; auto.
  - intros c Hc. apply place_in_ctx. unfold problem_function_constants. apply in_extend_all. right. exists a; auto.
  - intros s Hs. apply sym_in_ctx. unfold problem_symbols. apply in_extend_all. right. exists a; auto.
Qed.
End Ctx.

(* ---------- the parser-image premise survives the pipeline ---------- *)
Lemma pipeline_formula_origin raw d pb : In pb (pipeline raw d) -> forall a, In a (pb_formulas pb) ->
  exists conf b0, In b0 (pb_formulas raw) /\ pf_formula a = rcs_formula conf (pf_formula b0).
Proof.
  unfold pipeline. intros Hin a Ha.
  pose proof (decompose_formulas _ _ _ Hin (pf_formula a) (in_map _ _ _ Ha)) as H.
  cbn in H.
  assert (U : forall l i, map pf_formula (unique_names_from i l) = map pf_formula l).
  { induction l as [|x l IH]; intros i; cbn; [reflexivity|]. rewrite IH. reflexivity. }
  rewrite U, map_map in H. cbn [pf_formula] in H. apply in_map_iff in H. destruct H as [b [E Hb]].
  apply in_map_iff in Hb. destruct Hb as [b0 [<- Hb0]].
  assert (N : pf_formula (normalize_pf b0) = pf_formula b0).
  { unfold normalize_pf. destruct (String.eqb (pf_name b0) ""); [reflexivity|]. destruct (starts_with_underscore (pf_name b0)); reflexivity. }
  rewrite N in E. eexists. exists b0. split; [exact Hb0|]. symmetry. exact E.
Qed.
Lemma rcs_cmps conf F : cmps_nonempty (rcs_formula conf F) = cmps_nonempty F.
Proof.
  induction F as [a|g IH|c l IHl r IHr|q vs g IH]; cbn [rcs_formula cmps_nonempty]; auto.
  - destruct a as [| |p ts|t gs]; cbn; auto. rewrite map_length. reflexivity.
  - rewrite IHl, IHr. reflexivity.
Qed.
Lemma pipeline_cmps raw d pb : (forall a, In a (pb_formulas raw) -> cmps_nonempty (pf_formula a) = true) ->
  In pb (pipeline raw d) -> forall a, In a (pb_formulas pb) -> cmps_nonempty (pf_formula a) = true.
Proof.
  intros Hc Hin a Ha. destruct (pipeline_formula_origin raw d pb Hin a Ha) as (conf & b0 & Hb0 & ->).
  rewrite rcs_cmps. apply Hc, Hb0.
Qed.

(* ---------- the constant signature is what the emitted declarations say ---------- *)
Lemma csig_of_decls_app a b : csig_of_decls (a ++ b) = csig_of_decls a ++ csig_of_decls b.
Proof.
  induction a as [|d a IH]; [reflexivity|]. cbn [app csig_of_decls]. destruct (decl_meaning d); rewrite IH; reflexivity.
Qed.
Lemma csig_mapi {A} (f : N -> A -> tff_decl) (g : A -> option (string * cmeaning)) l :
  (forall i x, decl_meaning (f i x) = g x) -> forall i,
  csig_of_decls (mapi_from f i l) = flat_map (fun x => match g x with Some e => [e] | None => [] end) l.
Proof.
  intros H. induction l as [|x l IH]; intros i; [reflexivity|]. cbn [mapi_from csig_of_decls flat_map].
  rewrite H, IH. destruct (g x); reflexivity.
Qed.
Theorem csig_of_emit p : csig_of_decls (tp_decls (emit p)) = problem_csig p.
Proof.
  unfold emit, problem_csig. cbn [tp_decls]. rewrite !csig_of_decls_app.
  assert (E0 : csig_of_decls (map (fun d => mkdecl (fst (fst d)) (snd (fst d)) (snd d)) preamble_decls) = [])
    by (vm_compute; reflexivity).
  rewrite E0. cbn [app].
  rewrite (csig_mapi predicate_decl (fun _ => None)) by (intros i q; reflexivity).
  rewrite (csig_mapi symbol_decl (fun s => Some (s, CSelf))).
  2:{ intros i s. unfold decl_meaning, symbol_decl. cbn [d_sig d_name d_ident]. rewrite prefix_app. reflexivity. }
  rewrite (csig_mapi fconst_decl (fun c => Some ((fcname c ++ suffix (fcsort c))%string, CPlace (fcname c) (fcsort c)))).
  2:{ intros i c. unfold decl_meaning, fconst_decl. cbn [d_sig d_name d_ident].
      change (String.prefix "type_symbol_" ("type_function_constant_" ++ nat_str i)) with false.
      rewrite prefix_app, decode_suffix. reflexivity. }
  assert (F0 : forall l : list pred, flat_map (fun _ : pred => @nil (string * cmeaning)) l = []).
  { induction l; cbn; auto. }
  rewrite F0. cbn [app]. reflexivity. (* flat_map of singletons and map are convertible *)
Qed.

(* ---------- C06 in a problem context ---------- *)
Theorem in_problem_meaning p a FI M : ident_ok p = true -> In a (pb_formulas p) ->
  forall te e, env_rel te e ->
  (tff_sat (tstruct_in (csig_of_decls (tp_decls (emit p))) FI M) te (tff_of_formula (pf_formula a))
   <-> csat FI M e (pf_formula a)).
Proof.
  intros Hok Hin te e HR. rewrite csig_of_emit. apply tff_of_formula_sat_in; [|exact HR].
  apply ctx_names_in; assumption.
Qed.

(* ---------- the symbol_order axioms in the problem's signature ---------- *)
Theorem order_meaning p ab FI M : ident_ok p = true -> In ab (windows2 (sort_strings (problem_symbols p))) ->
  forall te e, env_rel te e ->
  (tff_sat (tstruct_in (csig_of_decls (tp_decls (emit p))) FI M) te (tff_of_formula (symbol_order_formula ab))
   <-> csat FI M e (symbol_order_formula ab)).
Proof.
  intros Hok Hin te e HR. rewrite csig_of_emit. apply tff_of_formula_sat_in; [|exact HR].
  apply windows2_in in Hin. destruct Hin as [Ha Hb].
  assert (Ha' : In (fst ab) (problem_symbols p)) by (eapply Permutation_in; [apply sort_strings_perm|exact Ha]).
  assert (Hb' : In (snd ab) (problem_symbols p)) by (eapply Permutation_in; [apply sort_strings_perm|exact Hb]).
  unfold symbol_order_formula. cbn [names_in aformula_in gterm_in sterm_in forallb gterm_of].
  rewrite (sym_in_ctx p Hok _ Ha'), (sym_in_ctx p Hok _ Hb'). reflexivity.
Qed.
