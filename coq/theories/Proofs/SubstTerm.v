(* C17, term and atom level: facts about pick (Variable::sequence(..).find(..)), gsubst, asubst:
   no panic under sort_ok, semantics, variables of the result, identity when the variable is absent. *)
From Coq Require Import List Ascii String ZArith NArith Bool Lia.
From Anthem Require Import Base.ISet Base.Fresh Syntax.Fol Sem.Domain Sem.Sat Model.Subst
  Proofs.FreeVars Proofs.Coincidence.
Import ListNotations.
Open Scope string_scope.
Open Scope list_scope.

(* ---------- pick ---------- *)
Lemma pick_sort v avoid : vsort (pick v avoid) = vsort v.
Proof. unfold pick. destruct (find_fresh_by _ _ _ _) as [[c k]|]; reflexivity. Qed.

Lemma pick_found v avoid : exists c k,
  find_fresh_by (List.length avoid) (vname v)
    (fun c => memb var_dec (mkvar c (vsort v)) avoid) 1%N = Some (c, k).
Proof.
  set (bad := fun c => memb var_dec (mkvar c (vsort v)) avoid).
  assert (Hb : forall c, bad c = true -> In c (map vname avoid)).
  { intros c H. unfold bad in H.
    destruct (memb_spec var_dec (mkvar c (vsort v)) avoid) as [Hin|]; [|discriminate].
    apply in_map_iff. exists (mkvar c (vsort v)); auto. }
  destruct (find_fresh_by_total (vname v) bad (map vname avoid) 1%N Hb) as [c [k E]].
  rewrite map_length in E. eauto.
Qed.

Lemma pick_out v avoid : ~ In (pick v avoid) avoid.
Proof.
  unfold pick. destruct (pick_found v avoid) as [c [k E]]. rewrite E.
  apply find_fresh_by_sound in E. destruct E as [E _].
  destruct (memb_spec var_dec (mkvar c (vsort v)) avoid); [discriminate|assumption].
Qed.

(* the chosen name is  name ++ decimal k  for the least k >= 1 that is not to be avoided *)
Lemma pick_least v avoid : exists k, (1 <= k)%N /\
  pick v avoid = mkvar (vname v ++ nat_str k) (vsort v) /\
  forall j, (1 <= j < k)%N -> In (mkvar (vname v ++ nat_str j) (vsort v)) avoid.
Proof.
  unfold pick. destruct (pick_found v avoid) as [c [k E]]. rewrite E.
  apply find_fresh_by_sound in E. destruct E as [_ [-> [Hk Hj]]].
  exists k; repeat split; auto.
  intros j Hjk. specialize (Hj j Hjk). cbn in Hj.
  destruct (memb_spec var_dec (mkvar (vname v ++ nat_str j) (vsort v)) avoid); [assumption|discriminate].
Qed.

(* ---------- sort_ok ---------- *)
Lemma sort_ok_var v w : vsort w = vsort v -> sort_ok v (var_to_gterm w) = true.
Proof. destruct v as [n []], w as [m []]; cbn; intros; try discriminate; reflexivity. Qed.

Lemma gterm_vars_kind g w : In w (gterm_vars g) ->
  match g with
  | GVar _ => vsort w = SGeneral | GInt _ => vsort w = SInteger | GSym _ => vsort w = SSymbol
  | _ => False end.
Proof.
  destruct g; cbn; try tauto.
  - intros [<-|[]]; reflexivity.
  - apply iterm_vars_sort.
  - apply sterm_vars_sort.
Qed.

(* ---------- lists with option ---------- *)
Lemma map_opt_forall2 {A B} (f : A -> option B) l : forall l',
  map_opt f l = Some l' -> Forall2 (fun a b => f a = Some b) l l'.
Proof.
  induction l as [|a l IH]; cbn; intros l' E.
  - inversion E; constructor.
  - destruct (f a) as [b|] eqn:Ea; [|discriminate].
    destruct (map_opt f l) as [bs|]; [|discriminate]. inversion E; subst. constructor; auto.
Qed.
Lemma map_opt_total {A B} (f : A -> option B) l :
  (forall a, In a l -> exists b, f a = Some b) -> exists l', map_opt f l = Some l'.
Proof.
  induction l as [|a l IH]; cbn; intros H; [eauto|].
  destruct (H a (or_introl eq_refl)) as [b ->].
  destruct IH as [bs ->]; [intros; apply H; auto|]. eauto.
Qed.
Lemma Forall2_in_l {A B} (R : A -> B -> Prop) l l' a :
  Forall2 R l l' -> In a l -> exists b, In b l' /\ R a b.
Proof.
  induction 1 as [|x y l l' Hxy _ IH]; cbn; [tauto|].
  intros [->|H]; [eauto|]. destruct (IH H) as [b [? ?]]; eauto.
Qed.
Lemma Forall2_in_r {A B} (R : A -> B -> Prop) l l' b :
  Forall2 R l l' -> In b l' -> exists a, In a l /\ R a b.
Proof.
  induction 1 as [|x y l l' Hxy _ IH]; cbn; [tauto|].
  intros [->|H]; [eauto|]. destruct (IH H) as [a [? ?]]; eauto.
Qed.
Lemma Forall2_mono {A B} (R1 R2 : A -> B -> Prop) l l' :
  (forall a b, R1 a b -> R2 a b) -> Forall2 R1 l l' -> Forall2 R2 l l'.
Proof. intros H; induction 1; constructor; auto. Qed.
Lemma Forall2_with_in {A B} (R : A -> B -> Prop) l l' :
  Forall2 R l l' -> Forall2 (fun a b => In a l /\ R a b) l l'.
Proof.
  induction 1 as [|x y l l' Hxy _ IH]; constructor; [split; [left; reflexivity|assumption]|].
  eapply Forall2_mono; [|exact IH]. cbn; intros a b [? ?]; split; auto.
Qed.
Lemma Forall2_same {A} (R : A -> A -> Prop) l l' :
  Forall2 R l l' -> (forall a b, R a b -> b = a) -> l' = l.
Proof. induction 1; intros H'; auto. f_equal; auto. Qed.

(* the shape "variables of the result = (old minus x) plus (tvs if x occurred)" lifted to lists *)
Lemma subst_vars_list {A B} (R : A -> B -> Prop) (va : A -> list var) (vb : B -> list var)
      (x : var) (tvs : list var) l l' :
  (forall a b, R a b -> forall w, In w (vb b) <-> (In w (va a) /\ w <> x) \/ (In x (va a) /\ In w tvs)) ->
  Forall2 R l l' -> forall w,
  (exists b, In b l' /\ In w (vb b)) <->
  ((exists a, In a l /\ In w (va a)) /\ w <> x) \/ ((exists a, In a l /\ In x (va a)) /\ In w tvs).
Proof.
  intros HR F w. split.
  - intros [b [Hb Hw]]. destruct (Forall2_in_r _ _ _ _ F Hb) as [a [Ha Hab]].
    apply (HR _ _ Hab) in Hw. destruct Hw as [[H1 H2]|[H1 H2]]; [left|right]; eauto.
  - intros [[[a [Ha Hw]] N]|[[a [Ha Hx]] Hw]];
      destruct (Forall2_in_l _ _ _ _ F Ha) as [b [Hb Hab]]; exists b; split; auto;
      apply (HR _ _ Hab); auto.
Qed.

(* ---------- integer / symbolic terms ---------- *)
Lemma isubst_vars it x u w :
  In w (iterm_vars (isubst it x u)) <->
  (In w (iterm_vars it) /\ w <> mkvar x SInteger) \/ (In (mkvar x SInteger) (iterm_vars it) /\ In w (iterm_vars u)).
Proof.
  induction it as [z|c|y|o a IH|o l IHl r IHr]; cbn; try tauto.
  - destruct (String.eqb_spec x y) as [->|NE]; cbn.
    + split; [intros H; right; auto|]. intros [[[<-|[]] N]|[_ H]]; [congruence|auto].
    + split; [intros [<-|[]]; left; split; auto; congruence|].
      intros [[H _]|[[E|[]] _]]; [auto|congruence].
  - rewrite !(in_iset_extend var_dec), IHl, IHr. tauto.
Qed.
Lemma isubst_id it x u : ~ In (mkvar x SInteger) (iterm_vars it) -> isubst it x u = it.
Proof.
  induction it as [z|c|y|o a IH|o l IHl r IHr]; cbn; intros N; auto.
  - destruct (String.eqb_spec x y) as [->|NE]; auto. exfalso; auto.
  - rewrite IH; auto.
  - rewrite (in_iset_extend var_dec) in N. rewrite IHl, IHr; auto.
Qed.
Lemma ssubst_vars st x u w :
  In w (sterm_vars (ssubst st x u)) <->
  (In w (sterm_vars st) /\ w <> mkvar x SSymbol) \/ (In (mkvar x SSymbol) (sterm_vars st) /\ In w (sterm_vars u)).
Proof.
  destruct st as [s|c|y]; cbn; try tauto.
  destruct (String.eqb_spec x y) as [->|NE]; cbn.
  - split; [intros H; right; auto|]. intros [[[<-|[]] N]|[_ H]]; [congruence|auto].
  - split; [intros [<-|[]]; left; split; auto; congruence|].
    intros [[H _]|[[E|[]] _]]; [auto|congruence].
Qed.
Lemma ssubst_id st x u : ~ In (mkvar x SSymbol) (sterm_vars st) -> ssubst st x u = st.
Proof.
  destruct st as [s|c|y]; cbn; intros N; auto.
  destruct (String.eqb_spec x y) as [->|NE]; auto. exfalso; auto.
Qed.

(* ---------- general terms ---------- *)
Lemma gsubst_total g x t : sort_ok x t = true -> exists g', gsubst g x t = Some g'.
Proof.
  destruct x as [n s]. unfold sort_ok, gsubst; cbn [vsort vname].
  destruct g, s; eauto; destruct t; try discriminate; eauto.
Qed.
Lemma gsubst_none g x t : gsubst g x t = None -> sort_ok x t = false.
Proof.
  intros E. destruct (sort_ok x t) eqn:OK; auto.
  destruct (gsubst_total g x t OK) as [g' E']. congruence.
Qed.

Lemma gsubst_vars g x t g' : sort_ok x t = true -> gsubst g x t = Some g' -> forall w,
  In w (gterm_vars g') <->
  (In w (gterm_vars g) /\ w <> x) \/ (In x (gterm_vars g) /\ In w (gterm_vars t)).
Proof.
  destruct x as [n s]. unfold sort_ok, gsubst; cbn [vsort vname]. intros OK E w.
  assert (OTHER : g' = g -> (forall u, In u (gterm_vars g) -> vsort u <> s) ->
    In w (gterm_vars g') <->
    (In w (gterm_vars g) /\ w <> mkvar n s) \/ (In (mkvar n s) (gterm_vars g) /\ In w (gterm_vars t))).
  { intros -> HS. split.
    - intros H. left; split; auto. intros ->. apply (HS _ H). reflexivity.
    - intros [[H _]|[H _]]; auto. exfalso. apply (HS _ H). reflexivity. }
  destruct g as [| |c|y|it|st]; destruct s;
    try (inversion E; subst; apply OTHER; [reflexivity|];
         intros u Hu; apply gterm_vars_kind in Hu; try tauto; rewrite Hu; discriminate).
  - (* general variable, general sort *)
    inversion E; subst; clear E OTHER. cbn [gterm_vars].
    destruct (String.eqb_spec n y) as [->|NE]; cbn.
    + split; [intros H; right; auto|]. intros [[[<-|[]] N]|[_ H]]; [congruence|auto].
    + split; [intros [<-|[]]; left; split; auto; congruence|].
      intros [[H _]|[[E|[]] _]]; [auto|congruence].
  - destruct t as [| | | |u|]; try discriminate. inversion E; subst. cbn [gterm_vars].
    apply isubst_vars.
  - destruct t as [| | | | |u]; try discriminate. inversion E; subst. cbn [gterm_vars].
    apply ssubst_vars.
Qed.

Lemma gsubst_id g x t g' : ~ In x (gterm_vars g) -> gsubst g x t = Some g' -> g' = g.
Proof.
  destruct x as [n s]. unfold gsubst; cbn [vsort vname]. intros N E.
  destruct g as [| |c|y|it|st]; destruct s; try (inversion E; subst; reflexivity).
  - cbn in N. destruct (String.eqb_spec n y) as [->|NE]; [exfalso; auto|]. inversion E; auto.
  - destruct t; try discriminate. inversion E; subst. f_equal. apply isubst_id. exact N.
  - destruct t; try discriminate. inversion E; subst. f_equal. apply ssubst_id. exact N.
Qed.

Section TermSem.
Variable FI : fint.

Lemma isubst_sem e it x u :
  ev_i FI e (isubst it x u) = ev_i FI (upd e (mkvar x SInteger) (VNum (ev_i FI e u))) it.
Proof.
  induction it as [z|c|y|o a IH|o l IHl r IHr]; cbn; auto.
  - rewrite (String.eqb_sym y x). destruct (String.eqb x y); reflexivity.
  - destruct o. rewrite IH. reflexivity.
  - destruct o; rewrite IHl, IHr; reflexivity.
Qed.
Lemma ssubst_sem e st x u :
  ev_s FI e (ssubst st x u) = ev_s FI (upd e (mkvar x SSymbol) (VSym (ev_s FI e u))) st.
Proof.
  destruct st as [s|c|y]; cbn; auto.
  rewrite (String.eqb_sym y x). destruct (String.eqb x y); reflexivity.
Qed.

Lemma sort_ok_in_sort e x t : sort_ok x t = true -> in_sort (vsort x) (ev_g FI e t).
Proof.
  destruct x as [n []]; unfold sort_ok; cbn; auto; destruct t; cbn; try discriminate; auto.
Qed.

Lemma gsubst_sem e g x t g' : sort_ok x t = true -> gsubst g x t = Some g' ->
  ev_g FI e g' = ev_g FI (upd e x (ev_g FI e t)) g.
Proof.
  intros OK E.
  destruct (in_dec var_dec x (gterm_vars g)) as [Hin|Hnin].
  2:{ rewrite (gsubst_id g x t g' Hnin E). symmetry. apply ev_g_upd_notin. exact Hnin. }
  destruct x as [n s]. unfold sort_ok, gsubst in *; cbn [vsort vname] in *.
  pose proof (gterm_vars_kind g _ Hin) as K.
  destruct g as [| |c|y|it|st]; try tauto; cbn in K; subst s.
  - cbn in Hin. destruct Hin as [Hin|[]]. inversion Hin; subst.
    rewrite String.eqb_refl in E. inversion E; subst. cbn. rewrite String.eqb_refl. reflexivity.
  - destruct t as [| | | |u|]; try discriminate. inversion E; subst. cbn [ev_g].
    rewrite isubst_sem. reflexivity.
  - destruct t as [| | | | |u]; try discriminate. inversion E; subst. cbn [ev_g].
    rewrite ssubst_sem. reflexivity.
Qed.
End TermSem.

(* ---------- atomic formulas ---------- *)
Definition gsubst_guard (x : var) (t : gterm) (g : guard) : option guard :=
  option_map (mkguard (grel g)) (gsubst (gterm_of g) x t).
Lemma gsubst_guard_inv x t g g' : gsubst_guard x t g = Some g' ->
  exists u, gsubst (gterm_of g) x t = Some u /\ g' = mkguard (grel g) u.
Proof.
  unfold gsubst_guard. destruct (gsubst (gterm_of g) x t) as [u|]; cbn; [|discriminate].
  intros [= <-]. eauto.
Qed.

Lemma asubst_inv a x t a' : asubst a x t = Some a' ->
  match a with
  | ATrue | AFalse => a' = a
  | AAtom p ts => exists ts', a' = AAtom p ts' /\ Forall2 (fun g g' => gsubst g x t = Some g') ts ts'
  | ACmp l gs => exists l' gs', a' = ACmp l' gs' /\ gsubst l x t = Some l' /\
                                Forall2 (fun g g' => gsubst_guard x t g = Some g') gs gs'
  end.
Proof.
  destruct a as [| |p ts|l gs]; cbn; intros E; try (inversion E; reflexivity).
  - destruct (map_opt (fun g => gsubst g x t) ts) as [ts'|] eqn:M; [|discriminate].
    inversion E; subst. exists ts'; split; auto. apply map_opt_forall2, M.
  - destruct (gsubst l x t) as [l'|]; [|discriminate].
    destruct (map_opt _ gs) as [gs'|] eqn:M; [|discriminate].
    inversion E; subst. exists l', gs'; repeat split; auto.
    apply map_opt_forall2 in M. exact M.
Qed.

Lemma asubst_total a x t : sort_ok x t = true -> exists a', asubst a x t = Some a'.
Proof.
  intros OK. destruct a as [| |p ts|l gs]; cbn; eauto.
  - destruct (map_opt_total (fun g => gsubst g x t) ts) as [ts' ->]; [|cbn; eauto].
    intros g _. apply gsubst_total, OK.
  - destruct (gsubst_total l x t OK) as [l' ->].
    destruct (map_opt_total (fun g => option_map (mkguard (grel g)) (gsubst (gterm_of g) x t)) gs) as [gs' ->]; eauto.
    intros g _. destruct (gsubst_total (gterm_of g) x t OK) as [u ->]. cbn; eauto.
Qed.

Lemma asubst_vars a x t a' : sort_ok x t = true -> asubst a x t = Some a' -> forall w,
  In w (aformula_vars a') <->
  (In w (aformula_vars a) /\ w <> x) \/ (In x (aformula_vars a) /\ In w (gterm_vars t)).
Proof.
  intros OK E w. apply asubst_inv in E. destruct a as [| |p ts|l gs].
  - subst; cbn; tauto.
  - subst; cbn; tauto.
  - destruct E as [ts' [-> F]]. rewrite !in_aformula_vars_atom.
    apply (subst_vars_list (fun g g' => gsubst g x t = Some g') gterm_vars gterm_vars x (gterm_vars t)); auto.
    intros g g' Hg. apply gsubst_vars; auto.
  - destruct E as [l' [gs' [-> [El F]]]]. rewrite !in_aformula_vars_cmp.
    pose proof (gsubst_vars l x t l' OK El w) as Hl.
    pose proof (subst_vars_list (fun g g' => gsubst_guard x t g = Some g')
                  (fun g => gterm_vars (gterm_of g)) (fun g => gterm_vars (gterm_of g))
                  x (gterm_vars t) gs gs') as Hg.
    rewrite Hl, Hg; auto; [tauto|].
    intros g g' Hgg. apply gsubst_guard_inv in Hgg. destruct Hgg as [u [Eu ->]]. cbn.
    apply gsubst_vars; auto.
Qed.

Lemma asubst_id a x t a' : ~ In x (aformula_vars a) -> asubst a x t = Some a' -> a' = a.
Proof.
  intros N E. apply asubst_inv in E. destruct a as [| |p ts|l gs]; auto.
  - destruct E as [ts' [-> F]]. f_equal.
    pose proof (Forall2_with_in _ _ _ F) as G.
    apply (Forall2_same _ _ _ G). intros g g' [Hin Hg]. eapply gsubst_id; eauto.
    intros Hx. apply N. apply in_aformula_vars_atom. eauto.
  - destruct E as [l' [gs' [-> [El F]]]].
    rewrite in_aformula_vars_cmp in N.
    rewrite (gsubst_id l x t l') by (auto; tauto). f_equal.
    pose proof (Forall2_with_in _ _ _ F) as G.
    apply (Forall2_same _ _ _ G). intros g g' [Hin Hg].
    apply gsubst_guard_inv in Hg. destruct Hg as [u [Eu ->]].
    rewrite (gsubst_id (gterm_of g) x t u); [destruct g; reflexivity| |exact Eu].
    intros Hx. apply N. right. eauto.
Qed.

Section AtomSem.
Variable FI : fint.

Lemma asubst_sem I e a x t a' : sort_ok x t = true -> asubst a x t = Some a' ->
  (asat FI I e a' <-> asat FI I (upd e x (ev_g FI e t)) a).
Proof.
  intros OK E. apply asubst_inv in E. destruct a as [| |p ts|l gs].
  - subst; cbn; tauto.
  - subst; cbn; tauto.
  - destruct E as [ts' [-> F]]. cbn [asat].
    assert (M : map (ev_g FI e) ts' = map (ev_g FI (upd e x (ev_g FI e t))) ts).
    { induction F; cbn; auto. f_equal; auto. apply gsubst_sem; auto. }
    rewrite M. tauto.
  - destruct E as [l' [gs' [-> [El F]]]]. cbn [asat].
    rewrite (gsubst_sem FI e l x t l' OK El).
    generalize (ev_g FI (upd e x (ev_g FI e t)) l). intros d.
    assert (C : chain_sat FI e d gs' = chain_sat FI (upd e x (ev_g FI e t)) d gs).
    { revert d. induction F as [|g g' gs gs' Hg _ IH]; intros d; cbn; auto.
      apply gsubst_guard_inv in Hg. destruct Hg as [u [Eu ->]]. cbn [gterm_of grel].
      rewrite (gsubst_sem FI e (gterm_of g) x t u OK Eu). rewrite IH. reflexivity. }
    rewrite C. tauto.
Qed.
End AtomSem.
