(* Instantiation of the task-level theorems with the component developments that are merged:
   the substitution lemma (Proofs/SubstOk.v, C17) and the analyses is_tight /
   has_private_recursion / completion (Model/Tightness.v, PrivRec.v, Completion.v). *)
From Coq Require Import List String ZArith Bool.
From Anthem Require Import Syntax.Fol Syntax.Asp Sem.Domain Sem.Sat Model.Subst Model.Problem Model.Outline Model.Strong
  Model.External Model.Tightness Model.PrivRec Model.Completion
  Proofs.SubstOk Proofs.OutlineOk Proofs.ExternalOk.
Import ListNotations.

Definition induction_sound_closed := induction_sound substitute_sem.
Definition try_from_sound_closed := try_from_sound substitute_sem.
Definition from_specification_ok_closed := from_specification_ok substitute_sem.
Definition accepted_definitions_conservative_closed := accepted_definitions_conservative substitute_sem.

Definition enforce_instantiated (tau_star : program -> theory) (simp_classic : formula -> formula) :=
  enforce is_tight has_private_recursion tau_star completion simp_classic.
