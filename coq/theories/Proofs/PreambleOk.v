(* C12, preamble: the standard structure satisfies EVERY axiom of the regenerated
   Gen/Preamble.v — over all of Z and all strings, no sampling window.
   The proof script is one fixed tactic per axiom shape ([preamble_tac]); an edited axiom either
   re-proves or the build fails (and the check then searches for a falsifying tuple). *)
From Coq Require Import List Ascii String ZArith NArith Bool Lia.
From Anthem Require Import Syntax.Fol Sem.Domain Gen.Preamble.
Import ListNotations.

Definition std_is_integer (d : gval) : Prop := match d with VNum _ => True | _ => False end.
Definition std_is_symbolic (d : gval) : Prop := match d with VSym _ => True | _ => False end.

(* general = gval, symbol = string, f__integer__ = VNum, f__symbolic__ = VSym, the order predicates
   are the order of Sem/Domain.v *)
Definition std_structure : tff_structure := {|
  general := gval;
  symbol := string;
  f__integer__ := VNum;
  f__symbolic__ := VSym;
  c__infimum__ := VInf;
  c__supremum__ := VSup;
  p__is_integer__ := std_is_integer;
  p__is_symbolic__ := std_is_symbolic;
  p__less_equal__ := fun a b => gle a b = true;
  p__less__ := fun a b => glt a b = true;
  p__greater_equal__ := fun a b => gle b a = true;
  p__greater__ := fun a b => glt b a = true
|}.

Lemma glt_iff a b : glt a b = true <-> gle a b = true /\ a <> b.
Proof.
  unfold glt. rewrite andb_true_iff, negb_true_iff.
  destruct (gval_eqb_spec a b); intuition congruence.
Qed.
Lemma neq_sym_iff (a b : gval) : a <> b <-> b <> a.
Proof. split; intros H E; apply H; congruence. Qed.

(* The fixed tactic: unfold the axiom at the standard structure, then try a fixed list of small
   scripts (order lemmas of Domain.v, characterisation of the strict order, injectivity of the
   embeddings, $int order, case analysis on a general value). *)
Ltac preamble_tac :=
  hnf; cbn -[gle glt];
  first
  [ solve [intros; apply gle_total]
  | solve [intros ? ? [? ?]; eauto using gle_antisym]
  | solve [intros ? ? ? [? ?]; eauto using gle_trans]
  | solve [intros; tauto]
  | solve [intros; rewrite ?glt_iff; split; (intros [? H]; split; [assumption|]; intro; apply H; congruence)]
  | solve [intros; split; congruence]
  | solve [intros; cbn; rewrite ?Z.leb_le; tauto]
  | solve [intros; reflexivity]
  | solve [intros d; destruct d; cbn; auto 8]
  | solve [intros d; destruct d; cbn;
           (split; [intros H; try contradiction; eexists; reflexivity | intros [? H]; try discriminate H; exact I])] ].

(* every axiom of the regenerated preamble holds in the standard structure *)
Theorem preamble_ok : Forall (fun ax => snd ax std_structure) preamble_axioms.
Proof.
  unfold preamble_axioms.
  repeat (apply Forall_cons; [cbn [snd]; preamble_tac|]). apply Forall_nil.
Qed.
Print Assumptions preamble_ok.
