(* The executable reference evaluator Model/EvalAsp.ref_vals, with the trivial universe filter,
   computes exactly the value sets of the reference semantics Sem/AspRef.vals.  (The semantic op
   uses it with a window filter; this lemma ties the evaluator's clauses to the oracle.) *)
From Coq Require Import List Ascii String ZArith Bool Lia.
From Anthem Require Import Base.ISet Syntax.Fol Syntax.Asp Sem.Domain Sem.AspRef Model.Eval Model.EvalAsp.
Import ListNotations.
Open Scope string_scope.
Open Scope list_scope.

Definition all_values (v : gval) : bool := true.

Lemma in_keep_all v l : In v (keep all_values l) <-> In v l.
Proof. unfold keep. rewrite nodup_In, filter_In. unfold all_values. tauto. Qed.

Lemma in_nums n l : In n (nums l) <-> In (VNum n) l.
Proof.
  unfold nums. rewrite in_flat_map. split.
  - intros [x [Hx Hn]]. destruct x; cbn in Hn; try tauto. destruct Hn as [<-|[]]. exact Hx.
  - intros H. exists (VNum n). split; [exact H|left; reflexivity].
Qed.

Lemma in_zrange k a b : In k (zrange a b) <-> (a <= k <= b)%Z.
Proof.
  unfold zrange. rewrite in_map_iff. split.
  - intros [i [<- Hi]]. apply in_seq in Hi. lia.
  - intros Hk. exists (Z.to_nat (k - a)). split; [lia|]. apply in_seq. lia.
Qed.

Lemma in_binop_vals o n1 n2 v :
  In v (binop_vals o n1 n2) <->
  match o with
  | AAdd => v = VNum (n1 + n2)
  | ASub => v = VNum (n1 - n2)
  | AMul => v = VNum (n1 * n2)
  | ADiv => exists q m, (n1 = n2 * q + m /\ 0 <= m < n2)%Z /\ v = VNum q
  | AMod => exists q m, (n1 = n2 * q + m /\ 0 <= m < n2)%Z /\ v = VNum m
  | AInterval => exists k, (n1 <= k <= n2)%Z /\ v = VNum k
  end.
Proof.
  destruct o; cbn [binop_vals].
  1-3: cbn; split; [intros [<-|[]]; reflexivity|intros ->; left; reflexivity].
  - destruct (Z.ltb_spec 0 n2) as [Hp|Hn].
    + split.
      * intros [<-|[]]. exists (n1 / n2)%Z, (n1 mod n2)%Z. split; [|reflexivity].
        pose proof (Z.div_mod n1 n2 ltac:(lia)). pose proof (Z.mod_pos_bound n1 n2 Hp). lia.
      * intros [q [m [[He Hm] ->]]]. left. f_equal. symmetry. apply (Z.div_unique_pos n1 n2 q m); lia.
    + split; [intros []|]. intros [q [m [[He Hm] _]]]. lia.
  - destruct (Z.ltb_spec 0 n2) as [Hp|Hn].
    + split.
      * intros [<-|[]]. exists (n1 / n2)%Z, (n1 mod n2)%Z. split; [|reflexivity].
        pose proof (Z.div_mod n1 n2 ltac:(lia)). pose proof (Z.mod_pos_bound n1 n2 Hp). lia.
      * intros [q [m [[He Hm] ->]]]. left. f_equal. symmetry. apply (Z.mod_unique_pos n1 n2 q m); lia.
    + split; [intros []|]. intros [q [m [[He Hm] _]]]. lia.
  - rewrite in_map_iff. split.
    + intros [k [<- Hk]]. apply in_zrange in Hk. eauto.
    + intros [k [Hk ->]]. exists k. split; [reflexivity|apply in_zrange; exact Hk].
Qed.

Theorem ref_vals_spec sg t : forall v, In v (ref_vals all_values sg t) <-> vals (alookup sg) t v.
Proof.
  induction t as [p|x|o a IHa|o l IHl r IHr]; intros v; cbn [ref_vals vals].
  - rewrite in_keep_all. cbn. split; [intros [<-|[]]; reflexivity|intros ->; left; reflexivity].
  - rewrite in_keep_all. cbn. split; [intros [<-|[]]; reflexivity|intros ->; left; reflexivity].
  - destruct o. rewrite in_keep_all, in_map_iff. split.
    + intros [n [<- Hn]]. apply in_nums, IHa in Hn. eauto.
    + intros [n [Hn ->]]. exists n. split; [reflexivity|]. apply in_nums, IHa. exact Hn.
  - rewrite in_keep_all, in_flat_map.
    assert (E : (exists n1, In n1 (nums (ref_vals all_values sg l)) /\
                   In v (flat_map (fun n2 => binop_vals o n1 n2) (nums (ref_vals all_values sg r)))) <->
                (exists n1 n2, vals (alookup sg) l (VNum n1) /\ vals (alookup sg) r (VNum n2) /\
                               In v (binop_vals o n1 n2))).
    { split.
      - intros [n1 [H1 H2]]. apply in_flat_map in H2. destruct H2 as [n2 [H2 H3]].
        apply in_nums, IHl in H1. apply in_nums, IHr in H2. eauto.
      - intros [n1 [n2 [H1 [H2 H3]]]]. exists n1. split; [apply in_nums, IHl; exact H1|].
        apply in_flat_map. exists n2. split; [apply in_nums, IHr; exact H2|exact H3]. }
    rewrite E. clear E.
    destruct o.
    1-3: split; [intros [n1 [n2 [H1 [H2 H3]]]]; apply in_binop_vals in H3; eauto|
                 intros [n1 [n2 [H1 [H2 H3]]]]; exists n1, n2; repeat split; auto; apply in_binop_vals; exact H3].
    1-2: split; [intros [n1 [n2 [H1 [H2 H3]]]]; apply in_binop_vals in H3; destruct H3 as [q [m [Hq Hv]]];
                 exists n1, n2, q, m; auto|
                 intros [n1 [n2 [q [m [H1 [H2 [Hq Hv]]]]]]]; exists n1, n2; repeat split; auto;
                 apply in_binop_vals; eauto].
    split; [intros [n1 [n2 [H1 [H2 H3]]]]; apply in_binop_vals in H3; destruct H3 as [k [Hk Hv]];
            exists n1, n2, k; auto|
            intros [n1 [n2 [k [H1 [H2 [Hk Hv]]]]]]; exists n1, n2; repeat split; auto;
            apply in_binop_vals; eauto].
Qed.
