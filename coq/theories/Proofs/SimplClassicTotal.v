(* The panics of classic.rs are unreachable on trees the parser can produce: every comparison has
   at least one guard ([guards_ok]) and every bound variable has a non-empty name ([names_ok]).
   Under these two conditions (and totality of Formula::substitute on sort-compatible arguments,
   a hypothesis here, proved on the C17 branch) the three [_opt] rules return [Some]. *)
From Coq Require Import List Ascii String ZArith NArith Bool Lia.
From Anthem Require Import Base.ISet Base.Fresh Syntax.Fol Sem.Domain Sem.Sat
  Model.Apply Model.Subst Model.SimplClassic
  Proofs.FreeVars Proofs.Coincidence Proofs.SimplClassicBase Proofs.SimplClassicOk.
Import ListNotations.
Open Scope string_scope.
Open Scope list_scope.

Fixpoint guards_ok (F : formula) : Prop :=
  match F with
  | FAtomic (ACmp _ gs) => gs <> []
  | FAtomic _ => True
  | FNot f => guards_ok f
  | FBin _ l r => guards_ok l /\ guards_ok r
  | FQ _ _ f => guards_ok f
  end.
Fixpoint names_ok (F : formula) : Prop :=
  match F with
  | FAtomic _ => True
  | FNot f => names_ok f
  | FBin _ l r => names_ok l /\ names_ok r
  | FQ _ vs f => (forall v, In v vs -> vname v <> "") /\ names_ok f
  end.

Lemma guards_ok_conjoin_invert F : guards_ok F -> forall ct, In ct (conjoin_invert F) -> guards_ok ct.
Proof.
  induction F as [a|f IH|c l IHl r IHr|q vs f IH]; intros H ct;
    try (cbn [conjoin_invert]; intros [<-|[]]; exact H).
  destruct c; try (cbn [conjoin_invert]; intros [<-|[]]; exact H).
  cbn [conjoin_invert]. rewrite in_app_iff. destruct H as [Hl Hr]. intros [Hc|Hc]; auto.
Qed.
Lemma names_ok_conjoin_invert F : names_ok F -> forall ct, In ct (conjoin_invert F) -> names_ok ct.
Proof.
  induction F as [a|f IH|c l IHl r IHr|q vs f IH]; intros H ct;
    try (cbn [conjoin_invert]; intros [<-|[]]; exact H).
  destruct c; try (cbn [conjoin_invert]; intros [<-|[]]; exact H).
  cbn [conjoin_invert]. rewrite in_app_iff. destruct H as [Hl Hr]. intros [Hc|Hc]; auto.
Qed.

Lemma equality_comparison_total t gs : gs <> [] -> exists b, equality_comparison (t, gs) = Some b.
Proof. destruct gs; [congruence|]. intros _. unfold equality_comparison; cbn [snd]. eauto. Qed.

Lemma choose_fresh_one_nonempty vars variant :
  exists x rest, choose_fresh_variable_names vars variant 1 = x :: rest.
Proof.
  unfold choose_fresh_variable_names.
  destruct (memb_spec string_dec variant (map vname vars)) as [Hin|Hnin].
  - cbn [seq map cfvn_loop List.length]. rewrite Nat.add_0_r.
    destruct (find_fresh_by_total variant
                (fun c => memb string_dec c (map vname vars) || memb string_dec c [])
                (map vname vars) (N.of_nat 1)) as [c [k E]].
    { intros x Hx. apply orb_true_iff in Hx. destruct Hx as [Hx|Hx].
      - destruct (memb_spec string_dec x (map vname vars)); [assumption|discriminate].
      - destruct (memb_spec string_dec x []) as [[]|]; discriminate. }
    rewrite E. cbn. eauto.
  - cbn. eauto.
Qed.

Section Total.
Hypothesis subst_total : forall F x t, sort_ok x t = true -> exists G, substitute F x t = Some G.

(* ---------------------------------------------------------------- restrict_quantifier_domain *)
Lemma replacement_helper_total ivar ovar comp q vars f :
  vname ivar <> "" -> vsort ovar = SGeneral ->
  exists r, replacement_helper ivar ovar comp (FQ q vars f) = Some r.
Proof.
  intros Hn Hg. unfold replacement_helper.
  match goal with |- exists r, (if ?c then _ else _) = _ => destruct c end; [|eauto].
  cbv zeta.   (* since fix F18 the non-empty-name premise is no longer needed: the variant falls back to "I" *)
  destruct (choose_fresh_one_nonempty (variables (FQ q vars f)) (fresh_variant (vname ivar))) as [x [rest' ->]].
  destruct (subst_total f ovar (GInt (IVar x))) as [f' ->]; [unfold sort_ok; rewrite Hg; reflexivity|].
  eauto.
Qed.

Section Loops.
Variables (q : quant) (vars : list var) (f : formula) (inner : list var) (cond : var -> var -> bool).
Let F := FQ q vars f.
Hypothesis Hcond : forall ovar ivar, cond ovar ivar = true -> vsort ovar = SGeneral.
Hypothesis Hinner : forall v, In v inner -> vname v <> "".

Lemma rqd_ivar_body_total tb ovar comp s ivar : In ivar inner ->
  exists r, rqd_ivar_body cond tb ovar comp F s ivar = Some r.
Proof.
  intros Hi. unfold rqd_ivar_body, F. destruct (cond ovar ivar) eqn:C; [|eauto].
  destruct (replacement_helper_total ivar ovar comp q vars f (Hinner _ Hi) (Hcond _ _ C)) as [[G b] ->].
  destruct b; eauto.
Qed.
Lemma rqd_ovar_body_total is_ex comp s ovar :
  exists r, rqd_ovar_body cond is_ex inner comp F s ovar = Some r.
Proof.
  unfold rqd_ovar_body.
  destruct (for_break_total (rqd_ivar_body cond (negb is_ex) ovar comp F) inner
              (fun s x Hx => rqd_ivar_body_total _ ovar comp s x Hx) s) as [s' ->]. eauto.
Qed.
Lemma rqd_comp_body_total is_ex outer s ict : guards_ok ict ->
  exists r, rqd_comp_body cond is_ex outer inner F s ict = Some r.
Proof.
  intros Hg. unfold rqd_comp_body.
  destruct ict as [[| |p ts|t gs]|g|c l r|q' vs g]; eauto.
  destruct (equality_comparison_total t gs Hg) as [[|] ->]; [|eauto].
  destruct (for_break_total (rqd_ovar_body cond is_ex inner (t, gs) F) outer
              (fun s x _ => rqd_ovar_body_total is_ex (t, gs) s x) s) as [s' ->]. eauto.
Qed.
End Loops.

Theorem restrict_quantifier_domain_total F :
  guards_ok F -> names_ok F -> exists G, restrict_quantifier_domain_opt F = Some G.
Proof.
  intros Hg Hn.
  destruct F as [a|g|c l r|q outer body]; cbn [restrict_quantifier_domain_opt]; eauto.
  destruct q.
  - destruct body as [a|g|c lhs rhs|q' vs' g]; eauto.
    destruct c; eauto.
    destruct lhs as [a|g|c l r|q' inner inner_formula]; eauto.
    destruct q'; eauto.
    cbn in Hg, Hn. destruct Hg as [Hg1 Hg2]. destruct Hn as [Hn1 [[Hn2 Hn3] Hn4]].
    match goal with |- exists G, option_map fst (for_break ?body ?st ?xs) = Some G =>
      let H := fresh in
      assert (H : forall s x, In x xs -> exists r, body s x = Some r);
        [|destruct (for_break_total body xs H st) as [s' ->]; cbn; eauto] end.
    intros s x Hx. apply rqd_comp_body_total.
    + intros ovar ivar C. rewrite !andb_true_iff in C. destruct C as [[[C _] _] _].
      destruct (sort_eqb_spec (vsort ovar) SGeneral); [assumption|discriminate].
    + exact Hn2.
    + apply (guards_ok_conjoin_invert inner_formula Hg1 x Hx).
  - destruct body as [a|g|c lhs rhs|q' vs' g]; eauto.
    destruct c; eauto.
    cbn in Hg, Hn. destruct Hn as [Hn1 Hn2].
    match goal with |- exists G, option_map fst (for_break ?body ?st ?xs) = Some G =>
      let H := fresh in
      assert (H : forall s x, In x xs -> exists r, body s x = Some r);
        [|destruct (for_break_total body xs H st) as [s' ->]; cbn; eauto] end.
    intros s ct Hct. unfold rqd_ct_body.
    assert (Gct : guards_ok ct /\ names_ok ct).
    { change (conjoin_invert lhs ++ conjoin_invert rhs) with (conjoin_invert (FBin CAnd lhs rhs)) in Hct.
      split; [apply (guards_ok_conjoin_invert (FBin CAnd lhs rhs) Hg ct Hct)
             |apply (names_ok_conjoin_invert (FBin CAnd lhs rhs) Hn2 ct Hct)]. }
    destruct ct as [a|g|c l r|q' inner inner_formula]; eauto.
    destruct q'; eauto.
    destruct Gct as [G1 [G2 G3]]. cbn in G1.
    match goal with |- exists r, match for_break ?body ?st ?xs with _ => _ end = Some r =>
      let H := fresh in
      assert (H : forall s x, In x xs -> exists r, body s x = Some r);
        [|destruct (for_break_total body xs H st) as [s' ->]; eauto] end.
    intros s0 x Hx. apply rqd_comp_body_total.
    + intros ovar ivar C. rewrite !andb_true_iff in C. destruct C as [[C _] _].
      destruct (sort_eqb_spec (vsort ovar) SGeneral); [assumption|discriminate].
    + exact G2.
    + apply (guards_ok_conjoin_invert inner_formula G1 x Hx).
Qed.

(* -------------------------------------------------------------- simplify_transitive_equality *)
Lemma transitive_equality_total l1 r1 l2 r2 vars :
  exists x, transitive_equality (l1, [mkguard REq r1]) (l2, [mkguard REq r2]) vars = Some x.
Proof. unfold transitive_equality. cbn [first_guard_term snd]. eauto. Qed.

Lemma ste_inner_body_total vars cts i c1 s jct2 :
  equality_comparison c1 = Some true -> guards_ok (snd jct2) ->
  exists r, ste_inner_body vars cts i c1 s jct2 = Some r.
Proof.
  intros E1 Hg. destruct jct2 as [j ct2]. cbn [snd] in Hg. unfold ste_inner_body.
  destruct ct2 as [[| |p ts|t2 gs2]|g|c l r|q vs g]; eauto.
  destruct (equality_comparison_total t2 gs2 Hg) as [e2 E2]. rewrite E2.
  match goal with |- exists r, (if ?c then _ else _) = _ => destruct c eqn:Cond end; [|eauto].
  apply andb_true_iff in Cond. destruct Cond as [Cond _]. apply andb_true_iff in Cond. destruct Cond as [-> _].
  destruct (equality_comparison_true _ E1) as [l1 [r1 ->]].
  destruct (equality_comparison_true _ E2) as [l2 [r2 E]]. rewrite E.
  destruct (transitive_equality_total l1 r1 l2 r2 vars) as [[[[k d] dt]|] TE]; rewrite TE; [|eauto].
  destruct (transitive_equality_spec _ _ _ _ _ _ _ _ TE) as [_ [_ [Hs _]]].
  match goal with |- exists r, match substitute ?a ?b ?c with _ => _ end = _ =>
    destruct (subst_total a b c (subsort_sort_ok k d Hs)) as [inner ->] end.
  eauto.
Qed.

Lemma ste_outer_body_total vars cts s ict1 :
  (forall ct, In ct cts -> guards_ok ct) -> guards_ok (snd ict1) ->
  exists r, ste_outer_body vars cts s ict1 = Some r.
Proof.
  intros Hall Hg. destruct ict1 as [i ct1]. cbn [snd] in Hg. unfold ste_outer_body.
  destruct ct1 as [[| |p ts|t1 gs1]|g|c l r|q vs g]; eauto.
  destruct (equality_comparison_total t1 gs1 Hg) as [[|] E1]; rewrite E1; [|eauto].
  match goal with |- exists r, match for_break ?body ?st ?xs with _ => _ end = Some r =>
    let H := fresh in
    assert (H : forall s x, In x xs -> exists r, body s x = Some r);
      [|destruct (for_break_total body xs H st) as [s' ->]; eauto] end.
  intros s0 [j ct2] Hx. apply ste_inner_body_total; [exact E1|].
  cbn [snd]. apply Hall. eapply in_enumerate; eauto.
Qed.

Theorem simplify_transitive_equality_total F :
  guards_ok F -> exists G, simplify_transitive_equality_opt F = Some G.
Proof.
  intros Hg. destruct F as [a|g|c l r|q vs f]; cbn [simplify_transitive_equality_opt]; eauto.
  destruct q; eauto. destruct f as [a|g|c l r|q' vs' g]; eauto. destruct c; eauto.
  cbn [guards_ok] in Hg.
  match goal with |- exists G, option_map fst (for_break ?body ?st ?xs) = Some G =>
    let H := fresh in
    assert (H : forall s x, In x xs -> exists r, body s x = Some r);
      [|destruct (for_break_total body xs H st) as [s' ->]; cbn; eauto] end.
  intros s [i ct1] Hx.
  assert (Hall : forall ct, In ct (conjoin_invert (FBin CAnd l r)) -> guards_ok ct)
    by (apply (guards_ok_conjoin_invert (FBin CAnd l r)); exact Hg).
  apply ste_outer_body_total; [exact Hall|]. cbn [snd]. apply Hall. eapply in_enumerate; eauto.
Qed.

End Total.
