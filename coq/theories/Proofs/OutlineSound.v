(* C13_sound: if no interpretation refutes any problem emitted for a direction (outline problems and
   final problems), then the premises of the direction entail its conclusions in every
   interpretation - the lemmas and definitions of the proof outline add nothing unjustified. *)
From Coq Require Import List Ascii String ZArith NArith Bool Lia Classical_Prop.
From Anthem Require Import Base.ISet Base.Fresh Syntax.Fol Sem.Domain Sem.Sat
  Model.Subst Model.Problem Model.Outline Model.Strong Model.External
  Proofs.SemBase Proofs.DecomposeOk Proofs.StrongOk Proofs.ExternalOk Proofs.OutlineOk.
Import ListNotations.
Open Scope string_scope.
Open Scope list_scope.

Lemma not_refutes_some_app FI M a b :
  ~ refutes_some FI M (a ++ b) -> ~ refutes_some FI M a /\ ~ refutes_some FI M b.
Proof. rewrite refutes_some_app. tauto. Qed.

Section Sound.
Variable FI : fint.
Variable M' : pint.
Variable fs : list formula.
Hypothesis Hclash : flist_no_clash fs.
Notation tv := (tvalid FI M').

(* the lemmas, one after the other *)
Lemma outline_lemmas_valid prefix : forall ls i ax,
  Forall (fun g => lemma_sound g /\ lemma_roles g) ls ->
  all_role PAxiom ax -> (forall a, In a ax -> In (pf_formula a) fs) ->
  (forall g, In g ls -> forall c, In c (gl_conjectures g ++ gl_consequences g) -> In (pf_formula c) fs) ->
  tv (map pf_formula ax) ->
  ~ refutes_some FI M' (outline_problems prefix i ax ls) ->
  tv (map pf_formula (flat_map gl_consequences ls)).
Proof.
  induction ls as [|g ls IH]; intros i ax Hls Hax Hfs Hlfs Hv Hnr; cbn [flat_map].
  - intros f [].
  - inversion Hls as [|? ? [Hsound [Hrc Hra]] Hls']; subst.
    cbn [outline_problems] in Hnr. apply not_refutes_some_app in Hnr. destruct Hnr as [Hn1 Hn2].
    (* the conjectures of g are valid *)
    assert (Hconj : forall c, In c (gl_conjectures g) -> cvalid FI M' (pf_formula c)).
    { intros c Hc. apply In_nth_error in Hc. destruct Hc as [j Hj].
      destruct (classic (cvalid FI M' (pf_formula c))) as [|Hnv]; [assumption|exfalso].
      apply Hn1. eexists. split.
      - apply lemma_problems_in. exists j, c. split; [exact Hj|reflexivity].
      - rewrite outline_problem_finished.
        assert (Hc : pf_role c = PConjecture) by (apply Hrc; eapply nth_error_In; eauto).
        apply finished_refutes.
        + apply (pre_problem_no_clash _ _ fs Hclash). intros a Ha. apply in_app_iff in Ha.
          destruct Ha as [Ha|[<-|[]]]; [apply Hfs, Ha|].
          apply (Hlfs g (or_introl eq_refl)). apply in_app_iff. left. eapply nth_error_In; eauto.
        + rewrite ax_forms_app, cj_forms_app.
          destruct (ax_forms_ax ax Hax) as [-> ->].
          destruct (ax_forms_conj [c]) as [-> ->]; [intros x [<-|[]]; exact Hc|].
          rewrite app_nil_r. cbn. split; [exact Hv|]. intros Ht. apply Hnv. apply Ht. left; reflexivity. }
    pose proof (Hsound FI M' Hconj) as Hcons.
    rewrite map_app. apply tvalid_app. split.
    + intros f Hf. apply in_map_iff in Hf. destruct Hf as [c [<- Hc]]. apply Hcons, Hc.
    + apply (IH (N.succ i) (ax ++ gl_consequences g)); auto.
      * apply all_role_app; [exact Hax|exact Hra].
      * intros a Ha. apply in_app_iff in Ha. destruct Ha as [Ha|Ha]; [apply Hfs, Ha|].
        apply (Hlfs g (or_introl eq_refl)). apply in_app_iff. right; exact Ha.
      * intros g' Hg'. apply Hlfs. right; exact Hg'.
      * rewrite map_app. apply tvalid_app. split; [exact Hv|].
        intros f Hf. apply in_map_iff in Hf. destruct Hf as [c [<- Hc]]. apply Hcons, Hc.
Qed.
End Sound.

Lemma flat_map_consequences_role ls :
  Forall (fun g => lemma_sound g /\ lemma_roles g) ls -> all_role PAxiom (flat_map gl_consequences ls).
Proof.
  intros Hls a Ha. apply in_flat_map in Ha. destruct Ha as [g [Hg Ha]].
  rewrite Forall_forall in Hls. destruct (Hls g Hg) as [_ [_ Hra]]. apply Hra, Ha.
Qed.

Theorem direction_sound prefix stable premises defs lemmas conclusions dec taken fs :
  all_role PAxiom stable -> all_role PAxiom premises -> all_role PConjecture conclusions ->
  conservative_over taken (map an_formula defs) ->
  Forall (fun g => lemma_sound g /\ lemma_roles g) lemmas ->
  (forall a, In a (stable ++ premises ++ conclusions) ->
     forall r, In r (predicates (pf_formula a)) -> In r taken) ->
  flist_no_clash fs ->
  (forall a, In a (stable ++ premises ++ conclusions) -> In (pf_formula a) fs) ->
  (forall d, In d defs -> In (an_formula d) fs) ->
  (forall g, In g lemmas -> forall c, In c (gl_conjectures g ++ gl_consequences g) -> In (pf_formula c) fs) ->
  (forall FI M, ~ refutes_some FI M (direction_problems prefix stable premises defs lemmas conclusions dec)) ->
  forall FI M, tvalid FI M (map pf_formula stable) -> tvalid FI M (map pf_formula premises) ->
               tvalid FI M (map pf_formula conclusions).
Proof.
  intros Hrs Hrp Hrc Hchain Hls Hvoc Hclash Hfs Hdfs Hlfs Hnr FI M Hs Hp.
  destruct (Hchain FI M) as [M' [Hag Hdefs]].
  specialize (Hnr FI M'). unfold direction_problems in Hnr.
  apply not_refutes_some_app in Hnr. destruct Hnr as [Hno Hnf].
  (* truth of the task's own formulas is the same in M and M' *)
  assert (Hsame : forall a, In a (stable ++ premises ++ conclusions) ->
                            (cvalid FI M (pf_formula a) <-> cvalid FI M' (pf_formula a))).
  { intros a Ha. apply cvalid_pagree. intros r x Hin. apply Hag. apply (Hvoc a Ha), Hin. }
  assert (Hs' : tvalid FI M' (map pf_formula stable)).
  { intros f Hf. apply in_map_iff in Hf. destruct Hf as [a [<- Ha]].
    apply Hsame; [apply in_app_iff; auto|]. apply Hs. apply in_map, Ha. }
  assert (Hp' : tvalid FI M' (map pf_formula premises)).
  { intros f Hf. apply in_map_iff in Hf. destruct Hf as [a [<- Ha]].
    apply Hsame; [apply in_app_iff; right; apply in_app_iff; auto|]. apply Hp. apply in_map, Ha. }
  set (daxioms := map (fun d => into_problem_formula d PAxiom) defs) in *.
  assert (Hrd : all_role PAxiom daxioms) by (intros a Ha; apply in_map_iff in Ha; destruct Ha as [d [<- _]]; reflexivity).
  assert (Hd' : tvalid FI M' (map pf_formula daxioms)).
  { intros f Hf. apply in_map_iff in Hf. destruct Hf as [a [<- Ha]]. apply in_map_iff in Ha.
    destruct Ha as [d [<- Hd]]. cbn. apply Hdefs. apply in_map, Hd. }
  (* the lemmas' consequences are true in M' *)
  assert (Hcons : tvalid FI M' (map pf_formula (flat_map gl_consequences lemmas))).
  { apply (outline_lemmas_valid FI M' fs Hclash prefix lemmas 0 (stable ++ premises ++ daxioms)); auto.
    - apply all_role_app; [exact Hrs|apply all_role_app; [exact Hrp|exact Hrd]].
    - intros a Ha. apply in_app_iff in Ha. destruct Ha as [Ha|Ha]; [apply Hfs; apply in_app_iff; auto|].
      apply in_app_iff in Ha. destruct Ha as [Ha|Ha]; [apply Hfs; apply in_app_iff; right; apply in_app_iff; auto|].
      apply in_map_iff in Ha. destruct Ha as [d [<- Hd]]. cbn. apply Hdfs, Hd.
    - rewrite !map_app. apply tvalid_app. split; [exact Hs'|]. apply tvalid_app. split; [exact Hp'|exact Hd']. }
  (* the final problems *)
  assert (Hc' : tvalid FI M' (map pf_formula conclusions)).
  { destruct (classic (tvalid FI M' (map pf_formula conclusions))) as [|Hnc]; [assumption|exfalso].
    apply Hnf. apply final_refutes; [| exact Hrc |].
    - apply (pre_problem_no_clash _ _ fs Hclash). intros a Ha.
      apply in_app_iff in Ha. destruct Ha as [Ha|Ha]; [apply Hfs; apply in_app_iff; auto|].
      apply in_app_iff in Ha. destruct Ha as [Ha|Ha]; [apply Hfs; apply in_app_iff; right; apply in_app_iff; auto|].
      apply in_app_iff in Ha. destruct Ha as [Ha|Ha]; [|apply Hfs; apply in_app_iff; right; apply in_app_iff; auto].
      apply in_flat_map in Ha. destruct Ha as [g [Hg Ha]]. apply (Hlfs g Hg). apply in_app_iff. right; exact Ha.
    - assert (Hrole : all_role PAxiom (stable ++ premises ++ flat_map gl_consequences lemmas)).
      { apply all_role_app; [exact Hrs|apply all_role_app; [exact Hrp|apply flat_map_consequences_role, Hls]]. }
      destruct (ax_forms_ax _ Hrole) as [-> ->]. split.
      + rewrite !map_app. apply tvalid_app. split; [exact Hs'|]. apply tvalid_app. split; [exact Hp'|exact Hcons].
      + intros [_ Hc]. exact (Hnc Hc). }
  intros f Hf. apply in_map_iff in Hf. destruct Hf as [a [<- Ha]].
  apply Hsame; [apply in_app_iff; right; apply in_app_iff; auto|]. apply Hc'. apply in_map, Ha.
Qed.

(* ================= positions in the emitted sequence (audit A18 c) ================= *)
(* C13_order characterises the SET of outline problems; these theorems tie it to the actual LIST
   [direction_problems] emits: the problem of the j-th conjecture of the k-th lemma is the element
   number (conjectures of the lemmas before k) + j, its axioms are the initial axioms (stable
   premises, premises of the direction, the direction's definitions) followed by the consequences of
   the lemmas before k, and the final problems come after all of them. *)
Definition conj_count (ls : list general_lemma) : nat :=
  fold_right (fun g acc => List.length (gl_conjectures g) + acc) 0 ls.

Lemma lemma_problems_length prefix i ax : forall cs j, List.length (lemma_problems prefix i ax j cs) = List.length cs.
Proof. induction cs as [|c cs IH]; intros j; cbn; [reflexivity|]. rewrite IH. reflexivity. Qed.
Lemma lemma_problems_nth prefix i ax : forall cs j k c, nth_error cs k = Some c ->
  nth_error (lemma_problems prefix i ax j cs) k = Some (outline_problem (outline_name prefix i (j + N.of_nat k)) ax c).
Proof.
  induction cs as [|c0 cs IH]; intros j k c Hk; [destruct k; discriminate|].
  destruct k as [|k]; cbn in *.
  - injection Hk as <-. unfold outline_name. rewrite N.add_0_r. reflexivity.
  - rewrite (IH _ _ _ Hk). do 3 f_equal. lia.
Qed.
Lemma outline_problems_length prefix : forall ls i ax,
  List.length (outline_problems prefix i ax ls) = conj_count ls.
Proof.
  induction ls as [|g ls IH]; intros i ax; cbn [outline_problems conj_count fold_right]; [reflexivity|].
  rewrite app_length, lemma_problems_length, IH. reflexivity.
Qed.
Theorem outline_problems_nth prefix : forall ls i ax k g j c,
  nth_error ls k = Some g -> nth_error (gl_conjectures g) j = Some c ->
  nth_error (outline_problems prefix i ax ls) (conj_count (firstn k ls) + j)
  = Some (outline_problem (outline_name prefix (i + N.of_nat k) (N.of_nat j))
            (ax ++ flat_map gl_consequences (firstn k ls)) c).
Proof.
  induction ls as [|g0 ls IH]; intros i ax k g j c Hk Hj; [destruct k; discriminate|].
  cbn [outline_problems]. destruct k as [|k]; cbn [nth_error firstn conj_count fold_right flat_map] in *.
  - injection Hk as <-. rewrite app_nil_r, N.add_0_r. cbn [plus].
    rewrite nth_error_app1 by (rewrite lemma_problems_length; apply nth_error_Some; congruence).
    rewrite (lemma_problems_nth prefix i ax _ 0%N j c Hj). reflexivity.
  - rewrite nth_error_app2 by (rewrite lemma_problems_length; lia).
    rewrite lemma_problems_length.
    match goal with |- nth_error _ ?n = _ => replace n with (conj_count (firstn k ls) + j) by (unfold conj_count; lia) end.
    rewrite (IH (N.succ i) (ax ++ gl_consequences g0) k g j c Hk Hj).
    rewrite <- app_assoc. do 3 f_equal. lia.
Qed.

Lemma skipn_app_len {A} (l l' : list A) : skipn (List.length l) (l ++ l') = l'.
Proof. induction l; cbn; auto. Qed.
Lemma firstn_app_len {A} (l l' : list A) : firstn (List.length l) (l ++ l') = l.
Proof. induction l; cbn; [reflexivity|f_equal; auto]. Qed.

Definition direction_axioms (stable premises : list pformula) (defs : list aformula_annot) : list pformula :=
  stable ++ premises ++ map (fun d => into_problem_formula d PAxiom) defs.

(* the emitted list of a direction, position by position *)
Theorem direction_problems_nth prefix stable premises defs lemmas conclusions dec k g j c :
  nth_error lemmas k = Some g -> nth_error (gl_conjectures g) j = Some c ->
  nth_error (direction_problems prefix stable premises defs lemmas conclusions dec)
            (conj_count (firstn k lemmas) + j)
  = Some (outline_problem (outline_name prefix (N.of_nat k) (N.of_nat j))
            (direction_axioms stable premises defs ++ flat_map gl_consequences (firstn k lemmas)) c).
Proof.
  intros Hk Hj. unfold direction_problems, direction_axioms.
  pose proof (outline_problems_nth prefix lemmas 0 (stable ++ premises ++ map (fun d => into_problem_formula d PAxiom) defs) k g j c Hk Hj) as H.
  rewrite nth_error_app1; [exact H|]. apply nth_error_Some. rewrite H. discriminate.
Qed.
Theorem direction_problems_final prefix stable premises defs lemmas conclusions dec :
  skipn (conj_count lemmas) (direction_problems prefix stable premises defs lemmas conclusions dec)
  = final_problem (prefix ++ "_problem")%string stable premises lemmas conclusions dec /\
  firstn (conj_count lemmas) (direction_problems prefix stable premises defs lemmas conclusions dec)
  = outline_problems prefix 0 (direction_axioms stable premises defs) lemmas.
Proof.
  unfold direction_problems, direction_axioms.
  rewrite <- (outline_problems_length prefix lemmas 0 (stable ++ premises ++ map (fun d => into_problem_formula d PAxiom) defs)).
  split; [apply skipn_app_len|apply firstn_app_len].
Qed.
