(* C02: from the external-equivalence task to the refutation set of its problems (program vs
   program, no proof outline), in terms of the translated theories of the two sides; then, modulo
   the meaning of those theories (completion = external behaviour, uniqueness of the private
   extension), in terms of behavioural differences. *)
From Coq Require Import List Ascii String ZArith NArith Bool Lia Classical_Prop.
From Anthem Require Import Base.ISet Base.Fresh Syntax.Fol Syntax.Asp Sem.Domain Sem.Sat
  Model.Break Model.Problem Model.Outline Model.Strong Model.External
  Proofs.SemBase Proofs.BreakOk Proofs.DecomposeOk Proofs.StrongOk Proofs.ExternalOk Proofs.AssemblyOk Proofs.RenameOk
  Proofs.C19Ext.
Import ListNotations.
Open Scope string_scope.
Open Scope list_scope.

(* completed definitions of private predicates (role assumption) and the public part (role spec) *)
Definition assumptions_of (l : list aformula_annot) : theory :=
  map an_formula (filter (fun a => match an_role a with RAssumption => true | _ => false end) l).
Definition specs_of (l : list aformula_annot) : theory :=
  map an_formula (filter (fun a => match an_role a with RSpec => true | _ => false end) l).
(* what control_translate produces: universal direction, role spec or assumption *)
Definition translated (l : list aformula_annot) : Prop :=
  forall a, In a l -> an_dir a = DUniversal /\ (an_role a = RSpec \/ an_role a = RAssumption).

Lemma control_translate_translated public t : forall k, translated (control_translate_from public k t).
Proof.
  induction t as [|f t IH]; intros k a; cbn; [tauto|].
  destruct (head_predicate f) as [p|].
  - intros [<-|Ha]; [|apply (IH k a Ha)]. cbn. split; [reflexivity|]. destruct (memb pred_dec p public); auto.
  - intros [<-|Ha]; [|apply (IH _ a Ha)]. cbn. auto.
Qed.
Lemma rename_translated m l : translated l -> translated (map (rename_predicates_annot m) l).
Proof. intros H a Ha. apply in_map_iff in Ha. destruct Ha as [b [<- Hb]]. exact (H b Hb). Qed.

Section Sides.
Variable FI : fint.
Variable M : pint.
Notation tv := (tvalid FI M).

Lemma tv_nil : tv []. Proof. intros f []. Qed.
Lemma tv_cons f t : tv (f :: t) <-> cvalid FI M f /\ tv t.
Proof.
  unfold tvalid. split.
  - intros H. split; [apply H; left; reflexivity|intros g Hg; apply H; right; exact Hg].
  - intros [H1 H2] g [<-|Hg]; auto.
Qed.

(* contributions of a translated side on the left *)
Lemma left_translated brk l : translated l ->
  exists c, contribs (left_contrib brk) l = Some c /\
    forms_of (c_stable c) = assumptions_of l /\ forms_of (c_fp c) = specs_of l /\
    c_fc c = [] /\ c_bp c = [] /\ (tv (forms_of (c_bc c)) <-> tv (specs_of l)).
Proof.
  induction l as [|a l IH]; intros Ht.
  - exists cempty. cbn. repeat split; auto.
  - destruct IH as [c [Ec [E1 [E2 [E3 [E4 E5]]]]]]; [intros x Hx; apply Ht; right; exact Hx|].
    destruct (Ht a (or_introl eq_refl)) as [Hd [Hr|Hr]].
    + eexists. cbn [contribs]. unfold left_contrib at 1. rewrite Hr, Hd, Ec. split; [reflexivity|].
      unfold assumptions_of, specs_of, forms_of in *. cbn. rewrite Hr. cbn. rewrite E1, E2, E3, E4.
      repeat split; auto.
      * rewrite map_app, tvalid_app, E5, tv_cons.
        pose proof (conclusions_of_valid FI M brk false a) as Hb. rewrite Hb. cbn. rewrite tv_cons. pose proof tv_nil. tauto.
      * rewrite map_app, tvalid_app, E5, tv_cons.
        pose proof (conclusions_of_valid FI M brk false a) as Hb. rewrite Hb. cbn. rewrite tv_cons. pose proof tv_nil. tauto.
    + eexists. cbn [contribs]. unfold left_contrib at 1. rewrite Hr, Hd, Ec. split; [reflexivity|].
      unfold assumptions_of, specs_of, forms_of in *. cbn. rewrite Hr. cbn. rewrite E1, E2, E3, E4. repeat split; auto; apply E5.
Qed.
Lemma right_translated brk l : translated l ->
  exists c, contribs (right_contrib brk) l = Some c /\
    forms_of (c_stable c) = assumptions_of l /\ forms_of (c_bp c) = specs_of l /\
    c_bc c = [] /\ c_fp c = [] /\ (tv (forms_of (c_fc c)) <-> tv (specs_of l)).
Proof.
  induction l as [|a l IH]; intros Ht.
  - exists cempty. cbn. repeat split; auto.
  - destruct IH as [c [Ec [E1 [E2 [E3 [E4 E5]]]]]]; [intros x Hx; apply Ht; right; exact Hx|].
    destruct (Ht a (or_introl eq_refl)) as [Hd [Hr|Hr]].
    + eexists. cbn [contribs]. unfold right_contrib at 1. rewrite Hr, Hd, Ec. split; [reflexivity|].
      unfold assumptions_of, specs_of, forms_of in *. cbn. rewrite Hr. cbn. rewrite E1, E2, E3, E4.
      repeat split; auto.
      * rewrite map_app, tvalid_app, E5, tv_cons.
        pose proof (conclusions_of_valid FI M brk false a) as Hb. rewrite Hb. cbn. rewrite tv_cons. pose proof tv_nil. tauto.
      * rewrite map_app, tvalid_app, E5, tv_cons.
        pose proof (conclusions_of_valid FI M brk false a) as Hb. rewrite Hb. cbn. rewrite tv_cons. pose proof tv_nil. tauto.
    + eexists. cbn [contribs]. unfold right_contrib at 1. rewrite Hr, Hd, Ec. split; [reflexivity|].
      unfold assumptions_of, specs_of, forms_of in *. cbn. rewrite Hr. cbn. rewrite E1, E2, E3, E4. repeat split; auto; apply E5.
Qed.
End Sides.

(* ---------- validated tasks whose two sides are translated programs ---------- *)
Theorem validated_translated_refutes vt w pbs :
  validated_decompose vt = Ok (w, pbs) -> vt_proof_outline vt = empty_outline -> validated_no_clash vt ->
  translated (vt_left vt) -> translated (vt_right vt) ->
  forall FI M,
    tvalid FI M (map an_formula (vt_user_guide_assumptions vt)) ->
    tvalid FI M (assumptions_of (vt_left vt)) -> tvalid FI M (assumptions_of (vt_right vt)) ->
    (refutes_some FI M pbs <->
     (dir_forward (vt_direction vt) = true /\
      tvalid FI M (specs_of (vt_left vt)) /\ ~ tvalid FI M (specs_of (vt_right vt))) \/
     (dir_backward (vt_direction vt) = true /\
      tvalid FI M (specs_of (vt_right vt)) /\ ~ tvalid FI M (specs_of (vt_left vt)))).
Proof.
  intros Hd Ho Hn Hl Hr FI M Hug Hal Har.
  destruct (validated_refutes_no_outline vt w pbs Hd Ho Hn) as [cl [cr [El [Er Hchar]]]].
  destruct (left_translated FI M (vt_break vt) _ Hl) as [cl' [El' [L1 [L2 [L3 [L4 L5]]]]]].
  destruct (right_translated FI M (vt_break vt) _ Hr) as [cr' [Er' [R1 [R2 [R3 [R4 R5]]]]]].
  rewrite El in El'. injection El' as <-. rewrite Er in Er'. injection Er' as <-.
  rewrite (Hchar FI M). cbv zeta.
  unfold forms_of in *. rewrite !map_app, !tvalid_app, L1, L2, L3, L4, R1, R2, R3, R4. cbn [map].
  rewrite L5, R5. pose proof (tv_nil FI M). tauto.
Qed.

(* ---------- from the task ---------- *)
Section Task.
Variable is_tight : program -> bool.
Variable has_private_recursion : program -> list pred -> bool.
Variable tau_star : program -> theory.
Variable completion : theory -> list pred -> option theory.
Variable simp_classic : formula -> formula.
Notation decompose_ext := (external_decompose is_tight has_private_recursion tau_star completion simp_classic).
Notation translate := (theory_translate tau_star completion simp_classic).

(* the two translated sides of a program-vs-program task *)
Definition task_placeholders (t : ext_task) : placeholders := ph_of_fconsts (ug_placeholders (et_user_guide t)).
Definition task_left (t : ext_task) (L : program) : option (list aformula_annot) :=
  option_map (control_translate (ug_public_predicates (et_user_guide t))) (translate t (task_placeholders t) L).
Definition task_mapping (t : ext_task) : list (pred * string) :=
  map (fun p => (p, "p")) (iset_inter pred_dec (task_spec_private t) (task_prog_private t)).
Definition task_right (t : ext_task) : option (list aformula_annot) :=
  option_map (fun th => map (rename_predicates_annot (task_mapping t))
                            (control_translate (ug_public_predicates (et_user_guide t)) th))
             (translate t (task_placeholders t) (et_program t)).

Lemma user_guide_assumptions_forms outputs m : forall fs acc ws uga w1,
  user_guide_assumptions outputs m fs acc ws = Ok (uga, w1) ->
  exists rest, uga = acc ++ rest /\
    map an_formula rest = map (fun a => rp_formula m (an_formula a)) (filter is_assumption fs).
Proof.
  induction fs as [|a fs IH]; intros acc ws uga w1; cbn.
  - intros [= <- _]. exists []. rewrite app_nil_r. auto.
  - destruct (is_assumption a) eqn:Ea.
    + destruct (is_nil (output_overlap _ a)); [|discriminate]. intros H.
      destruct (IH _ _ _ _ H) as [rest [-> Er]]. exists (rp_annot m a :: rest). rewrite <- app_assoc. split; [reflexivity|].
      cbn. rewrite Er. reflexivity.
    + intros H. destruct (IH _ _ _ _ H) as [rest [-> Er]]. exists rest. auto.
Qed.

(* the validated task behind an accepted program-vs-program task without proof outline *)
Theorem external_validated t L w pbs :
  et_specification t = inl L -> et_proof_outline t = [] -> decompose_ext t = Ok (w, pbs) ->
  exists lft rgt uga w',
    task_left t L = Some lft /\ task_right t = Some rgt /\
    map an_formula uga = map (fun a => rp_formula (task_placeholders t) (an_formula a)) (filter is_assumption (ug_formulas (et_user_guide t))) /\
    validated_decompose (mkvalidated lft rgt uga empty_outline (et_decomposition t) (et_direction t) (et_break t)) = Ok (w', pbs) /\
    task_validated tau_star completion simp_classic t
    = Some (mkvalidated lft rgt uga empty_outline (et_decomposition t) (et_direction t) (et_break t)).
Proof.
  intros Hs Ho. unfold external_decompose. rewrite Hs, Ho.
  destruct (external_validate is_tight has_private_recursion t) as [w0|e|]; try discriminate.
  unfold task_validated, side_left, side_right, task_m, task_public, task_renaming.
  fold (task_placeholders t). unfold task_left, task_right, task_mapping, task_spec_private, task_prog_private. rewrite Hs, Ho.
  destruct (translate t (task_placeholders t) L) as [thl|]; cbn [option_map]; [|discriminate].
  destruct (translate t (task_placeholders t) (et_program t)) as [thr|]; cbn [option_map]; [|discriminate].
  destruct (user_guide_assumptions _ _ _ [] []) as [[uga w1]|e|] eqn:Eu; try discriminate.
  cbn [from_specification from_specification_loop].
  destruct (validated_decompose _) as [[w3 pbs']|e|] eqn:Ev; try discriminate.
  intros [= _ <-]. destruct (user_guide_assumptions_forms _ _ _ _ _ _ _ Eu) as [rest [-> Er]]. cbn in Ev.
  eexists _, _, rest, w3. repeat split; [exact Er|exact Ev].
Qed.

(* the clash premise, for the task's OWN validated task (its own user-guide assumptions): no symbol
   of a formula of the assembled task equals a 0-ary predicate of it, i.e.
   rename_conflicting_symbols is the identity on the emitted problems.  (The earlier statements
   quantified over EVERY list of user-guide assumptions, which no task satisfies: audit A1.) *)
Definition task_no_clash (t : ext_task) : Prop :=
  forall vt, task_validated tau_star completion simp_classic t = Some vt -> validated_no_clash vt.

(* C02_assembly for program-vs-program tasks: an interpretation that satisfies the user-guide
   assumptions and the completed definitions of the private predicates of both sides refutes an
   emitted problem iff, for an enabled direction, it satisfies the public part of the premise side
   and falsifies the public part of the conclusion side *)
Theorem C02_assembly_proof t L w pbs lft rgt :
  et_specification t = inl L -> et_proof_outline t = [] -> decompose_ext t = Ok (w, pbs) ->
  task_left t L = Some lft -> task_right t = Some rgt ->
  (forall vt, task_validated tau_star completion simp_classic t = Some vt -> validated_no_clash vt) ->
  forall FI M,
    tvalid FI M (map (fun a => rp_formula (task_placeholders t) (an_formula a)) (filter is_assumption (ug_formulas (et_user_guide t)))) ->
    tvalid FI M (assumptions_of lft) -> tvalid FI M (assumptions_of rgt) ->
    (refutes_some FI M pbs <->
     (dir_forward (et_direction t) = true /\ tvalid FI M (specs_of lft) /\ ~ tvalid FI M (specs_of rgt)) \/
     (dir_backward (et_direction t) = true /\ tvalid FI M (specs_of rgt) /\ ~ tvalid FI M (specs_of lft))).
Proof.
  intros Hs Ho Hd El Er Hn FI M Hug Hal Har.
  destruct (external_validated t L w pbs Hs Ho Hd) as [lft' [rgt' [uga [w' [El' [Er' [Eu [Hv Htv]]]]]]]].
  rewrite El in El'. injection El' as <-. rewrite Er in Er'. injection Er' as <-.
  apply (validated_translated_refutes _ w' pbs Hv eq_refl (Hn _ Htv)); cbn; auto.
  - unfold task_left in El. destruct (translate t (task_placeholders t) L); [|discriminate]. injection El as <-.
    apply control_translate_translated.
  - unfold task_right in Er. destruct (translate t (task_placeholders t) (et_program t)); [|discriminate]. injection Er as <-.
    apply rename_translated, control_translate_translated.
  - rewrite Eu. exact Hug.
Qed.

(* ---------- modulo the meaning of the translated theories ---------- *)
Lemma control_translate_forms public t : forall k, map an_formula (control_translate_from public k t) = t.
Proof.
  induction t as [|f t IH]; intros k; cbn; [reflexivity|].
  destruct (head_predicate f); cbn; rewrite IH; reflexivity.
Qed.
Lemma translated_split FI M l : translated l ->
  (tvalid FI M (map an_formula l) <-> tvalid FI M (assumptions_of l) /\ tvalid FI M (specs_of l)).
Proof.
  induction l as [|a l IH]; intros Ht.
  - cbn. pose proof (tv_nil FI M). tauto.
  - assert (Ht' : translated l) by (intros x Hx; apply Ht; right; exact Hx).
    destruct (Ht a (or_introl eq_refl)) as [_ [Hr|Hr]]; unfold assumptions_of, specs_of in *; cbn; rewrite Hr; cbn;
      rewrite !tv_cons, (IH Ht'); tauto.
Qed.
Lemma rename_annot_forms m l :
  map an_formula (map (rename_predicates_annot m) l) = map (rename_predicates m) (map an_formula l).
Proof. rewrite !map_map. reflexivity. Qed.
Lemma tvalid_rename FI M m t : tvalid FI M (map (rename_predicates m) t) <-> tvalid FI (reindex m M) t.
Proof.
  unfold tvalid. split.
  - intros H f Hf. apply rename_valid. apply H. apply in_map, Hf.
  - intros H g Hg. apply in_map_iff in Hg. destruct Hg as [f [<- Hf]]. apply rename_valid. apply H, Hf.
Qed.

Section Meaning.
(* [ext_stable FI M P]: on P's vocabulary M is a stable model of P together with M's input facts,
   the placeholders read as FI's values (to be instantiated by C04 / C01 / C07: the simplified
   completion of tau-star of a tight program has exactly these models) *)
Variable ext_stable : ext_task -> fint -> pint -> program -> Prop.
Hypothesis translate_meaning : forall t P th FI M,
  translate t (task_placeholders t) P = Some th -> (tvalid FI M th <-> ext_stable t FI M P).

Theorem C02_partial_proof t L w pbs lft rgt :
  et_specification t = inl L -> et_proof_outline t = [] -> decompose_ext t = Ok (w, pbs) ->
  task_left t L = Some lft -> task_right t = Some rgt ->
  (forall vt, task_validated tau_star completion simp_classic t = Some vt -> validated_no_clash vt) ->
  forall FI M,
    tvalid FI M (map (fun a => rp_formula (task_placeholders t) (an_formula a)) (filter is_assumption (ug_formulas (et_user_guide t)))) ->
    tvalid FI M (assumptions_of lft) -> tvalid FI M (assumptions_of rgt) ->
    (refutes_some FI M pbs <->
     (dir_forward (et_direction t) = true /\
      ext_stable t FI M L /\ ~ ext_stable t FI (reindex (task_mapping t) M) (et_program t)) \/
     (dir_backward (et_direction t) = true /\
      ext_stable t FI (reindex (task_mapping t) M) (et_program t) /\ ~ ext_stable t FI M L)).
Proof.
  intros Hs Ho Hd El Er Hn FI M Hug Hal Har.
  rewrite (C02_assembly_proof t L w pbs lft rgt Hs Ho Hd El Er Hn FI M Hug Hal Har).
  unfold task_left in El. destruct (translate t (task_placeholders t) L) as [thl|] eqn:Etl; [|discriminate]. injection El as <-.
  unfold task_right in Er. destruct (translate t (task_placeholders t) (et_program t)) as [thr|] eqn:Etr; [|discriminate]. injection Er as <-.
  pose proof (translate_meaning t L thl FI M Etl) as Hl.
  pose proof (translate_meaning t (et_program t) thr FI (reindex (task_mapping t) M) Etr) as Hr.
  set (lft := control_translate (ug_public_predicates (et_user_guide t)) thl) in *.
  set (rgt0 := control_translate (ug_public_predicates (et_user_guide t)) thr) in *.
  assert (Tl : translated lft) by apply control_translate_translated.
  assert (Tr : translated (map (rename_predicates_annot (task_mapping t)) rgt0)) by (apply rename_translated, control_translate_translated).
  assert (Sl : tvalid FI M (specs_of lft) <-> ext_stable t FI M L).
  { rewrite <- Hl. assert (E : map an_formula lft = thl) by apply control_translate_forms.
    rewrite <- E, (translated_split FI M lft Tl). tauto. }
  assert (Sr : tvalid FI M (specs_of (map (rename_predicates_annot (task_mapping t)) rgt0)) <->
               ext_stable t FI (reindex (task_mapping t) M) (et_program t)).
  { rewrite <- Hr. assert (E : map an_formula rgt0 = thr) by apply control_translate_forms.
    rewrite <- E, <- tvalid_rename, <- rename_annot_forms.
    rewrite (translated_split FI M _ Tr). tauto. }
  rewrite Sl, Sr. reflexivity.
Qed.
End Meaning.
End Task.
