(* C02, assembly layer: which formulas of the two sides of a validated external-equivalence task
   become stable premises / premises / conclusions of each direction, and the refutation set of
   the emitted problems in those terms (no proof outline; with an outline see C13_sound). *)
From Coq Require Import List Ascii String ZArith NArith Bool Lia Classical_Prop.
From Anthem Require Import Base.ISet Base.Fresh Syntax.Fol Syntax.Asp Sem.Domain Sem.Sat
  Model.Break Model.Problem Model.Outline Model.Strong Model.External
  Proofs.SemBase Proofs.BreakOk Proofs.DecomposeOk Proofs.StrongOk Proofs.ExternalOk.
Import ListNotations.
Open Scope string_scope.
Open Scope list_scope.

(* ---------- contributions of one annotated formula ---------- *)
Record contrib := mkcontrib {
  c_stable : list pformula; c_fp : list pformula; c_fc : list pformula;
  c_bp : list pformula; c_bc : list pformula; c_warn : list ext_warning }.
Definition vadd (s : vacc) (c : contrib) : vacc :=
  mkvacc (va_stable s ++ c_stable c) (va_fp s ++ c_fp c) (va_fc s ++ c_fc c)
         (va_bp s ++ c_bp c) (va_bc s ++ c_bc c) (va_warn s ++ c_warn c).
Definition cempty := mkcontrib [] [] [] [] [] [].
Definition cadd (a b : contrib) : contrib :=
  mkcontrib (c_stable a ++ c_stable b) (c_fp a ++ c_fp b) (c_fc a ++ c_fc b)
            (c_bp a ++ c_bp b) (c_bc a ++ c_bc b) (c_warn a ++ c_warn b).

Definition left_contrib (brk : bool) (a : aformula_annot) : option contrib :=
  match an_role a with
  | RAssumption =>
      match an_dir a with
      | DUniversal => Some (mkcontrib [into_problem_formula a PAxiom] [] [] [] [] [])
      | DForward => Some (mkcontrib [] [into_problem_formula a PAxiom] [] [] [] [])
      | DBackward => Some (mkcontrib [] [] [] [] [] [WInconsistentDirectionAnnotation a])
      end
  | RSpec =>
      Some (mkcontrib [] (if dir_forward (an_dir a) then [into_problem_formula a PAxiom] else []) []
                      [] (if dir_backward (an_dir a) then conclusions_of brk a else []) [])
  | _ => None
  end.
Definition right_contrib (brk : bool) (a : aformula_annot) : option contrib :=
  match an_role a with
  | RAssumption =>
      match an_dir a with
      | DUniversal => Some (mkcontrib [into_problem_formula a PAxiom] [] [] [] [] [])
      | DForward => Some (mkcontrib [] [] [] [] [] [WInconsistentDirectionAnnotation a])
      | DBackward => Some (mkcontrib [] [] [] [into_problem_formula a PAxiom] [] [])
      end
  | RSpec =>
      Some (mkcontrib [] [] (if dir_forward (an_dir a) then conclusions_of brk a else [])
                      (if dir_backward (an_dir a) then [into_problem_formula a PAxiom] else []) [] [])
  | _ => None
  end.

Lemma vacc_eta s : s = mkvacc (va_stable s) (va_fp s) (va_fc s) (va_bp s) (va_bc s) (va_warn s).
Proof. destruct s; reflexivity. Qed.

Lemma left_step_contrib brk s a : validated_left_step brk s a = option_map (vadd s) (left_contrib brk a).
Proof.
  unfold validated_left_step, left_contrib, vadd. destruct (an_role a); try reflexivity.
  - destruct (an_dir a); cbn; rewrite ?app_nil_r; reflexivity.
  - cbn. rewrite ?app_nil_r. destruct (dir_forward (an_dir a)), (dir_backward (an_dir a)); rewrite ?app_nil_r; reflexivity.
Qed.
Lemma right_step_contrib brk s a : validated_right_step brk s a = option_map (vadd s) (right_contrib brk a).
Proof.
  unfold validated_right_step, right_contrib, vadd. destruct (an_role a); try reflexivity.
  - destruct (an_dir a); cbn; rewrite ?app_nil_r; reflexivity.
  - cbn. rewrite ?app_nil_r. destruct (dir_forward (an_dir a)), (dir_backward (an_dir a)); rewrite ?app_nil_r; reflexivity.
Qed.

Fixpoint contribs (f : aformula_annot -> option contrib) (l : list aformula_annot) : option contrib :=
  match l with
  | [] => Some cempty
  | a :: l' => match f a, contribs f l' with Some c, Some cs => Some (cadd c cs) | _, _ => None end
  end.

Lemma vadd_cadd s a b : vadd (vadd s a) b = vadd s (cadd a b).
Proof. unfold vadd, cadd; cbn. rewrite <- !app_assoc. reflexivity. Qed.
Lemma vadd_empty s : vadd s cempty = s.
Proof. unfold vadd, cempty; cbn. rewrite !app_nil_r. symmetry. apply vacc_eta. Qed.

Lemma fold_contribs step f : (forall s a, step s a = option_map (vadd s) (f a)) ->
  forall l s, fold_opt step l s = option_map (vadd s) (contribs f l).
Proof.
  intros Hstep. induction l as [|a l IH]; intros s; cbn.
  - rewrite vadd_empty. reflexivity.
  - rewrite Hstep. destruct (f a) as [c|]; cbn; [|reflexivity].
    rewrite IH. destruct (contribs f l) as [cs|]; cbn; [|reflexivity]. rewrite vadd_cadd. reflexivity.
Qed.

(* the assembled task in terms of the contributions of the two sides *)
Theorem validated_assemble_contribs vt w a : validated_assemble vt = Some (w, a) ->
  exists cl cr, contribs (left_contrib (vt_break vt)) (vt_left vt) = Some cl /\
                contribs (right_contrib (vt_break vt)) (vt_right vt) = Some cr /\
    at_stable_premises a = map (fun x => into_problem_formula x PAxiom) (vt_user_guide_assumptions vt) ++ c_stable cl ++ c_stable cr /\
    at_forward_premises a = c_fp cl ++ c_fp cr /\ at_forward_conclusions a = c_fc cl ++ c_fc cr /\
    at_backward_premises a = c_bp cl ++ c_bp cr /\ at_backward_conclusions a = c_bc cl ++ c_bc cr /\
    at_proof_outline a = vt_proof_outline vt /\ at_decomposition a = vt_decomposition vt /\
    at_direction a = vt_direction vt.
Proof.
  unfold validated_assemble.
  rewrite (fold_contribs _ _ (left_step_contrib (vt_break vt))).
  destruct (contribs (left_contrib (vt_break vt)) (vt_left vt)) as [cl|]; cbn [option_map]; [|discriminate].
  rewrite (fold_contribs _ _ (right_step_contrib (vt_break vt))).
  destruct (contribs (right_contrib (vt_break vt)) (vt_right vt)) as [cr|]; cbn [option_map]; [|discriminate].
  intros [= _ <-]. exists cl, cr. cbn. rewrite <- !app_assoc. repeat split; reflexivity.
Qed.

(* roles of the contributions *)
Definition contrib_roles (c : contrib) : Prop :=
  all_role PAxiom (c_stable c) /\ all_role PAxiom (c_fp c) /\ all_role PConjecture (c_fc c) /\
  all_role PAxiom (c_bp c) /\ all_role PConjecture (c_bc c).
Lemma all_role_nil r : all_role r [].
Proof. intros a []. Qed.
Lemma all_role_one r a : pf_role a = r -> all_role r [a].
Proof. intros H x [<-|[]]; exact H. Qed.
Lemma left_contrib_roles brk a c : left_contrib brk a = Some c -> contrib_roles c.
Proof.
  unfold left_contrib. destruct (an_role a); try discriminate.
  - destruct (an_dir a); intros [= <-]; repeat split; cbn; try apply all_role_nil; apply all_role_one; reflexivity.
  - intros [= <-]. repeat split; cbn; try apply all_role_nil.
    + destruct (dir_forward (an_dir a)); [apply all_role_one; reflexivity|apply all_role_nil].
    + destruct (dir_backward (an_dir a)); [apply conclusions_of_role|apply all_role_nil].
Qed.
Lemma right_contrib_roles brk a c : right_contrib brk a = Some c -> contrib_roles c.
Proof.
  unfold right_contrib. destruct (an_role a); try discriminate.
  - destruct (an_dir a); intros [= <-]; repeat split; cbn; try apply all_role_nil; apply all_role_one; reflexivity.
  - intros [= <-]. repeat split; cbn; try apply all_role_nil.
    + destruct (dir_forward (an_dir a)); [apply conclusions_of_role|apply all_role_nil].
    + destruct (dir_backward (an_dir a)); [apply all_role_one; reflexivity|apply all_role_nil].
Qed.
Lemma contribs_roles f l : (forall a c, f a = Some c -> contrib_roles c) ->
  forall cs, contribs f l = Some cs -> contrib_roles cs.
Proof.
  intros Hf. induction l as [|a l IH]; intros cs; cbn.
  - intros [= <-]. repeat split; apply all_role_nil.
  - destruct (f a) as [c|] eqn:Ec; [|discriminate]. destruct (contribs f l) as [cs'|]; [|discriminate].
    intros [= <-]. destruct (Hf a c Ec) as [H1 [H2 [H3 [H4 H5]]]]. destruct (IH cs' eq_refl) as [G1 [G2 [G3 [G4 G5]]]].
    repeat split; cbn; apply all_role_app; assumption.
Qed.

(* ---------- refutation set of an assembled task without proof outline ---------- *)
Section Refutes.
Variable FI : fint.
Variable M : pint.
Notation tv := (tvalid FI M).

Definition forms_of (l : list pformula) : theory := map pf_formula l.

Theorem assembled_refutes_no_outline (a : assembled_task) :
  at_proof_outline a = empty_outline -> assembled_no_clash a ->
  all_role PAxiom (at_stable_premises a) -> all_role PAxiom (at_forward_premises a) ->
  all_role PAxiom (at_backward_premises a) ->
  all_role PConjecture (at_forward_conclusions a) -> all_role PConjecture (at_backward_conclusions a) ->
  (refutes_some FI M (assembled_decompose a) <->
   (dir_forward (at_direction a) = true /\ tv (forms_of (at_stable_premises a)) /\
    tv (forms_of (at_forward_premises a)) /\ ~ tv (forms_of (at_forward_conclusions a))) \/
   (dir_backward (at_direction a) = true /\ tv (forms_of (at_stable_premises a)) /\
    tv (forms_of (at_backward_premises a)) /\ ~ tv (forms_of (at_backward_conclusions a)))).
Proof.
  intros Ho Hn Rs Rf Rb Rfc Rbc. unfold assembled_decompose, direction_problems. rewrite Ho. cbn [forward_definitions forward_lemmas backward_definitions backward_lemmas empty_outline outline_problems app].
  rewrite refutes_some_app.
  assert (Hfin : forall (fwd : bool) name,
    let premises := if fwd then at_forward_premises a else at_backward_premises a in
    let conclusions := if fwd then at_forward_conclusions a else at_backward_conclusions a in
    refutes_some FI M (final_problem name (at_stable_premises a) premises [] conclusions (at_decomposition a)) <->
    tv (forms_of (at_stable_premises a)) /\ tv (forms_of premises) /\ ~ tv (forms_of conclusions)).
  { intros fwd name premises conclusions.
    assert (Rp : all_role PAxiom premises) by (unfold premises; destruct fwd; assumption).
    assert (Rc : all_role PConjecture conclusions) by (unfold conclusions; destruct fwd; assumption).
    rewrite final_refutes; [|  | exact Rc].
    - cbn [flat_map]. rewrite app_nil_r.
      destruct (ax_forms_ax (at_stable_premises a ++ premises) (all_role_app _ _ _ Rs Rp)) as [-> ->].
      unfold forms_of. rewrite map_app, tvalid_app. split.
      + intros [[H1 H2] H3]. repeat split; auto. intros Hc. apply H3. split; [intros f []|exact Hc].
      + intros [H1 [H2 H3]]. split; [auto|]. intros [_ Hc]. exact (H3 Hc).
    - apply (pre_problem_no_clash _ _ _ Hn). intros x Hx. apply (in_at_formulas_final a fwd x).
      rewrite Ho. cbn [forward_lemmas backward_lemmas empty_outline]. destruct fwd; exact Hx. }
  pose proof (Hfin true "forward_problem") as Hf. pose proof (Hfin false "backward_problem") as Hb. cbv zeta in Hf, Hb.
  destruct (dir_forward (at_direction a)), (dir_backward (at_direction a)); rewrite ?Hf, ?Hb.
  - tauto.
  - split; [intros [H|[p [[] _]]]; left; tauto|intros [[_ H]|[E _]]; [left; exact H|discriminate]].
  - split; [intros [[p [[] _]]|H]; right; tauto|intros [[E _]|[_ H]]; [discriminate|right; exact H]].
  - split; [intros [[p [[] _]]|[p [[] _]]]|intros [[E _]|[E _]]; discriminate].
Qed.
End Refutes.

(* C02_assembly: an accepted validated task without proof outline is refuted exactly by the
   interpretations that satisfy the stable premises and the premises of an enabled direction and
   falsify one of its conclusions; premises and conclusions are the contributions of the two sides *)
Theorem validated_refutes_no_outline vt w pbs :
  validated_decompose vt = Ok (w, pbs) -> vt_proof_outline vt = empty_outline -> validated_no_clash vt ->
  exists cl cr,
    contribs (left_contrib (vt_break vt)) (vt_left vt) = Some cl /\
    contribs (right_contrib (vt_break vt)) (vt_right vt) = Some cr /\
    forall FI M,
      let stable := map an_formula (vt_user_guide_assumptions vt) ++ forms_of (c_stable cl) ++ forms_of (c_stable cr) in
      (refutes_some FI M pbs <->
       (dir_forward (vt_direction vt) = true /\ tvalid FI M stable /\
        tvalid FI M (forms_of (c_fp cl ++ c_fp cr)) /\ ~ tvalid FI M (forms_of (c_fc cl ++ c_fc cr))) \/
       (dir_backward (vt_direction vt) = true /\ tvalid FI M stable /\
        tvalid FI M (forms_of (c_bp cl ++ c_bp cr)) /\ ~ tvalid FI M (forms_of (c_bc cl ++ c_bc cr)))).
Proof.
  intros Hd Ho Hn. unfold validated_decompose in Hd.
  destruct (validated_assemble vt) as [[w0 a]|] eqn:Ea; [|discriminate]. injection Hd as <- <-.
  destruct (validated_assemble_contribs vt w0 a Ea) as [cl [cr [El [Er [E1 [E2 [E3 [E4 [E5 [E6 [E7 E8]]]]]]]]]]].
  exists cl, cr. split; [exact El|]. split; [exact Er|]. intros FI M stable.
  destruct (contribs_roles _ _ (left_contrib_roles (vt_break vt)) cl El) as [L1 [L2 [L3 [L4 L5]]]].
  destruct (contribs_roles _ _ (right_contrib_roles (vt_break vt)) cr Er) as [R1 [R2 [R3 [R4 R5]]]].
  rewrite (assembled_refutes_no_outline FI M a).
  - rewrite E1, E2, E3, E4, E5, E8. unfold stable, forms_of. rewrite !map_app, map_map. cbn [into_problem_formula pf_formula]. reflexivity.
  - rewrite E6. exact Ho.
  - exact (Hn _ _ Ea).
  - rewrite E1. apply all_role_app; [|apply all_role_app; assumption].
    intros x Hx. apply in_map_iff in Hx. destruct Hx as [y [<- _]]. reflexivity.
  - rewrite E2. apply all_role_app; assumption.
  - rewrite E4. apply all_role_app; assumption.
  - rewrite E3. apply all_role_app; assumption.
  - rewrite E5. apply all_role_app; assumption.
Qed.
