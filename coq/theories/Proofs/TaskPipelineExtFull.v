(* Audit B8 (C09 tie), part 6: EXTERNAL EQUIVALENCE with the REAL components (Model/ExternalFull.v).
   [external_decompose_full fuel t = XOk w pbs]: every `theory_translate` of the task -
   tau*, replace_placeholders, completion, the empty definitions of missing outputs, the classic
   fixpoint simplification - delivers parser-image sentences; hence, by
   Proofs/TaskPipelineExt.external_sentences, every emitted problem has the shape and the
   non-identifier premises C09_text / C06_in_pipeline need, provided the user's own formulas do. *)
From Coq Require Import List Ascii String ZArith NArith Bool Lia.
From Anthem Require Import Base.ISet Syntax.Fol Syntax.Asp
  Model.Apply Model.Problem Model.ProblemPrint Model.Outline Model.Strong Model.External
  Model.Tightness Model.PrivRec Model.TauStar Model.Completion Model.SimplIntuit Model.SimplClassic
  Model.StrategyCls Model.ExternalFull Model.ClsTerm
  Proofs.StrategyClsOk Proofs.SimplFull Proofs.SimplClassicTotal Proofs.ParserImage Proofs.ParserImagePipeline
  Proofs.NoPanic Proofs.ExtFuel Proofs.C19Ext
  Proofs.TaskPipelineBn Proofs.TaskPipelineFv Proofs.TaskPipelineClosed Proofs.TaskPipelineTrans Proofs.TaskPipelineStrong Proofs.TaskPipelineExt.
Import ListNotations.
Open Scope string_scope.
Open Scope list_scope.

Lemma simp_classic_run_psent fuel F G : simp_classic_run fuel F = RDone G -> psent F -> psent G.
Proof.
  unfold simp_classic_run. intros E [Hp Hc]. split.
  - exact (run_strategy_opt_pi fuel _ _ Fixpoint_ F G ext_FULL_CLASSIC_opt_safe Hp E).
  - apply closed_iff in Hc. destruct Hc as [Hb Hf]. apply closed_iff.
    apply (run_strategy_opt_refines fuel _ _ Fixpoint_ F G ext_FULL_CLASSIC_opt_refines) in E.
    cbn [run_strategy] in E. split.
    + exact (apply_fixpoint_bn _ _ _ _ portfolio_full_bn Hb E).
    + exact (fv_nil_incl F G (full_fixpoint_fv _ _ _ E) Hf).
Qed.
Lemma simplify_status_done fuel : forall th, simplify_status fuel th = TDone ->
  forall F, In F th -> exists G, simp_classic_run fuel F = RDone G.
Proof.
  induction th as [|F0 th IH]; cbn [simplify_status]; [intros _ F []|].
  destruct (simp_classic_run fuel F0) as [| |G0] eqn:E0; try discriminate.
  intros H F [<-|HF]; [eauto|exact (IH H F HF)].
Qed.

(* one `theory_translate` whose status is TDone *)
Theorem translate_done_sent fuel t p th :
  program_vars_named p -> translate_status fuel t (task_m t) p = TDone ->
  theory_translate tau_star_total completion (simp_classic_total fuel) t (task_m t) p = Some th ->
  forall f, In f th -> sent f.
Proof.
  intros Hp. unfold translate_status, theory_translate, tau_star_total.
  destruct (tau_star p) as [g|] eqn:Eg; [|discriminate].
  destruct (completion (rp_theory (task_m t) g) (ug_input_predicates (et_user_guide t))) as [th0|] eqn:Ec; [|discriminate].
  match goal with |- context [if _ then simplify_status fuel ?x else _] => set (th1 := x) end.
  assert (H1 : forall d, In d th1 -> psent d).
  { intros d Hd. unfold th1 in Hd. apply in_app_or in Hd. destruct Hd as [Hd|Hd].
    - revert d Hd. apply (completion_psent _ _ _) with (2 := Ec).
      intros f Hf. unfold rp_theory in Hf. apply in_map_iff in Hf. destruct Hf as [f0 [<- Hf0]].
      destruct (tau_star_psent p g Hp Eg f0 Hf0) as [A B]. split; [apply rp_formula_pi, A|].
      apply closed_iff in B. unfold bn. rewrite rp_bn. apply B.
    - unfold missing_output_definitions in Hd. apply in_map_iff in Hd. destruct Hd as [q [<- _]].
      apply empty_definition_psent. }
  destruct (et_simplify t).
  - intros Hs [= <-] f Hf. apply in_map_iff in Hf. destruct Hf as [F [<- HF]].
    destruct (simplify_status_done fuel th1 Hs F HF) as [G EG].
    unfold simp_classic_total. rewrite EG. apply psent_sent. exact (simp_classic_run_psent fuel F G EG (H1 F HF)).
  - intros _ [= <-] f Hf. apply psent_sent, H1, Hf.
Qed.

Theorem external_full_sentences fuel t w pbs :
  external_decompose_full fuel t = XOk w pbs ->
  program_vars_named (et_program t) -> (forall L, et_specification t = inl L -> program_vars_named L) ->
  user_formulas_sent t ->
  forall pb, In pb pbs -> task_problem_ok pb.
Proof.
  intros H Hp Hl Hu. unfold external_decompose_full in H.
  destruct (external_validate_full t) as [w0|e|]; try discriminate.
  fold (task_m t) in H.
  assert (Hfin : forall r, of_result r = XOk w pbs -> r = Ok (w, pbs)).
  { intros [[w' pbs']|e|]; cbn; try discriminate. intros [= <- <-]. reflexivity. }
  assert (Hright : translate_status fuel t (task_m t) (et_program t) = TDone ->
            external_decompose_total fuel t = Ok (w, pbs) ->
            (forall L, et_specification t = inl L -> translate_status fuel t (task_m t) L = TDone) ->
            forall pb, In pb pbs -> task_problem_ok pb).
  { intros Sr Hd Sl. apply (external_sentences _ _ _ _ _ t w pbs Hd); [|exact Hu]. split.
    - intros th Et. exact (translate_done_sent fuel t _ th Hp Sr Et).
    - intros L th EL Et. exact (translate_done_sent fuel t L th (Hl L EL) (Sl L EL) Et). }
  destruct (et_specification t) as [L|s] eqn:Es.
  - destruct (translate_status fuel t (task_m t) L) eqn:SL; try discriminate.
    destruct (translate_status fuel t (task_m t) (et_program t)) eqn:SR; try discriminate.
    apply Hright; [reflexivity|apply Hfin, H|]. intros L' [= <-]. exact SL.
  - destruct (translate_status fuel t (task_m t) (et_program t)) eqn:SR; try discriminate.
    apply Hright; [reflexivity|apply Hfin, H|]. intros L' E. discriminate.
Qed.
