(* C15, second sentence, for `translate --with natural` and `translate --with mu` (audit 2, B4):
   the theory natural prints is well-formed and outside the recorded defect classes whenever the names
   of the program are lexically valid for the target language (what the program parser guarantees) and
   [no_keyword_front P] holds (Model/FolOutClass.v: no keyword-prefixed predicate name, no
   keyword-prefixed symbolic constant as the left-hand side of a body comparison that natural prints
   with its left-hand side first); hence its printed text re-parses to the same theory.
   natural never produces `<-` (class C15-RIMP cannot occur).  For natural the premise is EXACT:
   the output is in class F7b iff [no_keyword_front P = false] ([natural_output_F7b_iff]).
   mu = natural on the rules natural accepts, tau* on the others (Proofs/FolOutput.v [Good_rule]). *)
From Coq Require Import List Ascii String ZArith NArith Bool Lia.
From Anthem Require Import Base.ISet Base.Fresh Syntax.Fol Syntax.Asp Model.FreshNames Model.Natural
  Model.TauStar Model.CliMu Model.FolLex Model.FolParse Model.FolPrint Model.FolClass Model.CliOut
  Model.FolOutClass
  Proofs.FolLexRT Proofs.FolLexOk Proofs.FreeVars Proofs.FolOutput.
Import ListNotations.
Open Scope string_scope.
Open Scope list_scope.

(* ------------------------------------------------------------------ free variables of a wf formula *)
Lemma wf_iterm_vars t v : wf_iterm t = true -> In v (iterm_vars t) -> wf_var v = true.
Proof.
  induction t as [z|c|x|o a IH|o l IHl r IHr]; cbn [wf_iterm iterm_vars]; intros W H.
  - destruct H.
  - destruct H.
  - destruct H as [<-|[]]. exact W.
  - auto.
  - apply andb_true_iff in W. destruct W. apply in_iset_extend in H. destruct H; auto.
Qed.
Lemma wf_gterm_vars t v : wf_gterm t = true -> In v (gterm_vars t) -> wf_var v = true.
Proof.
  destruct t as [| |c|x|i|[s|c|x]]; cbn [wf_gterm gterm_vars wf_sterm sterm_vars]; intros W H;
    try (destruct H; fail).
  - destruct H as [<-|[]]. exact W.
  - eapply wf_iterm_vars; eassumption.
  - destruct H as [<-|[]]. exact W.
Qed.
Lemma wf_atomic_vars a v : wf_atomic a = true -> In v (aformula_vars a) -> wf_var v = true.
Proof.
  destruct a as [| |p ts|t gs]; intros W H; try (destruct H; fail).
  - apply in_aformula_vars_atom in H. destruct H as (g & Hg & Hv).
    cbn [wf_atomic] in W. apply andb_true_iff in W. destruct W as [_ W].
    rewrite forallb_forall in W. eapply wf_gterm_vars; [apply W, Hg|exact Hv].
  - apply in_aformula_vars_cmp in H. cbn [wf_atomic] in W.
    apply andb_true_iff in W. destruct W as [W Wg]. apply andb_true_iff in W. destruct W as [Wt _].
    destruct H as [H|(g & Hg & Hv)]; [eapply wf_gterm_vars; eassumption|].
    rewrite forallb_forall in Wg. eapply wf_gterm_vars; [apply (Wg g Hg)|exact Hv].
Qed.
Lemma wf_formula_fv f : forall v, wf_formula f = true -> In v (free_variables f) -> wf_var v = true.
Proof.
  induction f as [a|g IH|c l IHl r IHr|q vs g IH]; intros v W H.
  - eapply wf_atomic_vars; eassumption.
  - apply in_fv_not in H. apply IH; assumption.
  - cbn [wf_formula] in W. apply andb_true_iff in W. destruct W.
    apply in_fv_bin in H. destruct H; auto.
  - cbn [wf_formula] in W. apply andb_true_iff in W. destruct W as [_ W].
    apply in_fv_q in H. destruct H as [H _]. apply IH; assumption.
Qed.

Lemma Good_quantify q vs f : Forall (fun v => wf_var v = true) vs -> Good f -> Good (quantify f q vs).
Proof.
  intros Hv Hf. unfold quantify. destruct vs as [|v vs]; [exact Hf|].
  apply Good_quant; [discriminate|exact Hv|exact Hf].
Qed.
Lemma Good_universal_closure f : Good f -> Good (universal_closure f).
Proof.
  intros Hf. unfold universal_closure. apply Good_quantify; [|exact Hf].
  apply Forall_forall. intros v Hv. destruct Hf as (W & _). eapply wf_formula_fv; eassumption.
Qed.

(* ------------------------------------------------------------------ what begins a printed term *)
Fixpoint ifun_free (t : iterm) : bool :=
  match t with
  | IFun _ => false
  | INum _ | IVar _ => true
  | IUn _ a => ifun_free a
  | IBin _ l r => ifun_free l && ifun_free r
  end.

Lemma lead_ident_iterm t : forall rest, ifun_free t = true -> lead_ident (print_iterm false t ++ rest) = None.
Proof.
  induction t as [z|c|x|o a IH|o l IHl r IHr]; intros rest F; cbn [ifun_free] in F.
  - cbn [print_iterm app]. unfold num_tok. destruct (z <? 0)%Z; reflexivity.
  - discriminate.
  - reflexivity.
  - destruct o. cbn [print_iterm]. unfold fmt_unary.
    destruct (is_left (iassoc (IUn UNeg a))); [reflexivity|]. cbn [app].
    unfold parens. destruct (paren_unary _ _ _).
    + cbn [app lead_ident]. rewrite <- !app_assoc. apply IH, F.
    + rewrite <- app_assoc. apply IH, F.
  - apply andb_true_iff in F. destruct F as [Fl _]. cbn [print_iterm]. unfold parens at 1.
    destruct (paren_lhs _ _ _ _).
    + cbn [app lead_ident]. rewrite <- !app_assoc. apply IHl, Fl.
    + rewrite <- app_assoc. apply IHl, Fl.
Qed.

(* the identifier (if any) a comparison that begins with the term t begins with *)
Definition gterm_lead_kw (t : gterm) : bool :=
  match t with
  | GSym (SSym s) => kw_prefixed s
  | GSym (SFun c) | GFun c => kw_prefixed c
  | GInt i => negb (ifun_free i)
  | _ => false
  end.

Lemma kwi_cmp t gs : gterm_lead_kw t = false -> kwi_atomic (ACmp t gs) = false.
Proof.
  unfold kwi_atomic. cbn [print_atomic].
  destruct t as [| |c|x|i|[s|c|x]]; cbn [gterm_lead_kw print_gterm print_sterm app lead_ident]; intros H;
    try reflexivity; try exact H.
  apply negb_false_iff in H. rewrite (lead_ident_iterm i _ H). reflexivity.
Qed.

Lemma Good_cmp_lead t gs : gterm_lead_kw t = false -> wf_gterm t = true -> gs <> [] ->
  Forall (fun g => wf_gterm (gterm_of g) = true) gs -> Good (FAtomic (ACmp t gs)).
Proof.
  intros Hl Wt Hne Hgs. unfold Good. cbn [wf_formula wf_atomic keyword_ident no_rimp].
  rewrite Wt. assert (forallb wf_guard gs = true) as ->
    by (apply forallb_forall; apply Forall_forall; exact Hgs).
  split; [destruct gs; [contradiction|reflexivity]|]. split; [|reflexivity].
  apply kwi_cmp, Hl.
Qed.

(* ------------------------------------------------------------------ p2f *)
Lemma p2f_int_wf t : forall i, ok_term t = true -> p2f_int_term t = Some i ->
  wf_iterm i = true /\ ifun_free i = true.
Proof.
  induction t as [p|x|o a IH|o l IHl r IHr]; intros i Ho E.
  - destruct p as [|z|s|]; cbn [p2f_int_term] in E; try discriminate.
    injection E as <-. split; [exact Ho|reflexivity].
  - cbn [p2f_int_term] in E. injection E as <-. split; [exact Ho|reflexivity].
  - destruct o. cbn [p2f_int_term] in E. cbn [ok_term] in Ho.
    destruct (p2f_int_term a) as [a'|] eqn:Ea; [|discriminate]. injection E as <-.
    destruct (IH a' Ho eq_refl) as [W F]. split; assumption.
  - cbn [ok_term] in Ho. apply andb_true_iff in Ho. destruct Ho as [Hl Hr].
    cbn [p2f_int_term] in E.
    destruct (match o with AAdd => Some BAdd | ASub => Some BSub | AMul => Some BMul | _ => None end) as [o'|];
      [|discriminate].
    destruct (p2f_int_term l) as [l'|] eqn:El; [|discriminate].
    destruct (p2f_int_term r) as [r'|] eqn:Er; [|discriminate]. injection E as <-.
    destruct (IHl l' Hl eq_refl) as [Wl Fl]. destruct (IHr r' Hr eq_refl) as [Wr Fr].
    cbn [wf_iterm ifun_free]. rewrite Wl, Wr, Fl, Fr. split; reflexivity.
Qed.

Lemma p2f_wf t iv g : ok_term t = true -> p2f t iv = Some g ->
  wf_gterm g = true /\ gterm_lead_kw g = kw_symbol t.
Proof.
  unfold p2f. destruct (negb (is_term_regular_of_first_kind t)); [discriminate|].
  destruct t as [p|x|o a|o l r]; intros Ho E.
  - injection E as <-. destruct p as [|z|s|]; split; try reflexivity; exact Ho.
  - cbn [ok_term] in Ho. destruct (memb string_dec x iv); injection E as <-; split; try reflexivity; exact Ho.
  - destruct (p2f_int_term (TUn o a)) as [i|] eqn:Ei; [|discriminate]. cbn [option_map] in E. injection E as <-.
    destruct (p2f_int_wf _ i Ho Ei) as [W F]. cbn [wf_gterm gterm_lead_kw kw_symbol]. rewrite F. split; [exact W|reflexivity].
  - destruct (p2f_int_term (TBin o l r)) as [i|] eqn:Ei; [|discriminate]. cbn [option_map] in E. injection E as <-.
    destruct (p2f_int_wf _ i Ho Ei) as [W F]. cbn [wf_gterm gterm_lead_kw kw_symbol]. rewrite F. split; [exact W|reflexivity].
Qed.

Lemma no_symbol_kw t : contains_symbol_or_infimum_or_supremum t = false -> kw_symbol t = false.
Proof. destruct t as [[|z|s|]|x|o a|o l r]; cbn; intros H; try reflexivity; discriminate. Qed.

(* the bounds of a term of the second kind *)
Lemma second_kind_inv t : is_term_regular_of_second_kind t = true ->
  exists l r, t = TBin AInterval l r /\ kw_symbol l = false /\ kw_symbol r = false.
Proof.
  destruct t as [p|x|o a|o l r]; cbn [is_term_regular_of_second_kind]; try discriminate.
  destruct o; try discriminate. intros H.
  apply andb_true_iff in H. destruct H as [H Hr]. apply andb_true_iff in H. destruct H as [H _].
  apply andb_true_iff in H. destruct H as [_ Hl].
  apply negb_true_iff in Hl, Hr. exists l, r. split; [reflexivity|]. split; apply no_symbol_kw; assumption.
Qed.

Lemma collect_options_forall {A B} (f : A -> option B) (P : A -> Prop) (Q : B -> Prop) :
  (forall a b, P a -> f a = Some b -> Q b) ->
  forall l ys, Forall P l -> collect_options f l = Some ys -> Forall Q ys.
Proof.
  intros H. induction l as [|x l IH]; intros ys HP E; cbn [collect_options] in E.
  - injection E as <-. constructor.
  - inversion HP; subst. destruct (f x) as [y|] eqn:Ey; [|discriminate].
    destruct (collect_options f l) as [ys'|] eqn:El; [|discriminate]. injection E as <-.
    constructor; [eapply H; eassumption|apply IH; auto].
Qed.

(* ------------------------------------------------------------------ body *)
Lemma Good_natural_comparison c iv f : ok_term (clhs c) = true -> ok_term (crhs c) = true ->
  kwfree_cmp c = true -> natural_comparison c iv = Some f -> Good f.
Proof.
  intros Hl Hr Hk. unfold natural_comparison.
  destruct (p2f (clhs c) iv) as [lhs|] eqn:El; [|discriminate].
  destruct (p2f_wf _ _ _ Hl El) as [Wl Kl].
  assert (Ei : (match arel_to_rel (crel c) with REq => true | _ => false end)
               && is_term_regular_of_second_kind (crhs c) = is_interval_membership c)
    by (unfold is_interval_membership; destruct (crel c); reflexivity).
  rewrite Ei. destruct (is_interval_membership c) eqn:Em.
  - unfold is_interval_membership in Em. apply andb_true_iff in Em. destruct Em as [_ Em].
    destruct (second_kind_inv _ Em) as (t2 & t3 & Et & K2 & K3). rewrite Et in *.
    cbn [ok_term] in Hr. apply andb_true_iff in Hr. destruct Hr as [H2 H3].
    destruct (p2f t2 iv) as [t2'|] eqn:E2; [|discriminate].
    destruct (p2f t3 iv) as [t3'|] eqn:E3; [|discriminate]. intros [= <-].
    destruct (p2f_wf _ _ _ H2 E2) as [W2 L2]. destruct (p2f_wf _ _ _ H3 E3) as [W3 _].
    apply Good_cmp_lead; [rewrite L2; exact K2|exact W2|discriminate|].
    constructor; [exact Wl|constructor; [exact W3|constructor]].
  - destruct (p2f (crhs c) iv) as [rhs|] eqn:Er; [|discriminate]. intros [= <-].
    destruct (p2f_wf _ _ _ Hr Er) as [Wr _].
    unfold kwfree_cmp in Hk. rewrite Em, orb_false_r in Hk. apply negb_true_iff in Hk.
    apply Good_cmp_lead; [rewrite Kl; exact Hk|exact Wl|discriminate|].
    constructor; [exact Wr|constructor].
Qed.

Lemma p2f_terms_wf ts iv gs : forallb ok_term ts = true ->
  collect_options (fun t => p2f t iv) ts = Some gs -> forallb wf_gterm gs = true.
Proof.
  intros Ho E. apply forallb_forall. apply Forall_forall.
  eapply (collect_options_forall (fun t => p2f t iv) (fun t => ok_term t = true)); [| |exact E].
  - intros a b Ha Hb. exact (proj1 (p2f_wf _ _ _ Ha Hb)).
  - apply Forall_forall. rewrite forallb_forall in Ho. exact Ho.
Qed.

Lemma Good_natural_b_literal l iv f : ok_atom (latom l) = true -> kwfree_atom (latom l) = true ->
  natural_b_literal l iv = Some f -> Good f.
Proof.
  intros Ha Ka. unfold natural_b_literal, natural_b_atom.
  destruct (collect_options _ (aterms (latom l))) as [ts|] eqn:E; [|discriminate].
  unfold ok_atom in Ha. apply andb_true_iff in Ha. destruct Ha as [Wp Wts].
  unfold kwfree_atom in Ka. apply negb_true_iff in Ka.
  pose proof (Good_pred_atom _ ts Wp Ka (p2f_terms_wf _ _ _ Wts E)) as G.
  intros [= <-]. destruct (lsign l); [exact G|apply Good_not, G|apply Good_not, Good_not, G].
Qed.

Lemma Good_natural_body b iv f : forallb ok_bformula b = true -> forallb kwfront_free_bformula b = true ->
  natural_body b iv = Some f -> Good f.
Proof.
  intros Ho Hk. unfold natural_body.
  destruct (collect_options _ b) as [fs|] eqn:E; [|discriminate]. intros [= <-].
  apply Good_conjoin.
  eapply (collect_options_forall _ (fun x => ok_bformula x = true /\ kwfront_free_bformula x = true));
    [| |exact E].
  - intros [l|c] g [Hox Hkx] Hg; cbn [ok_bformula kwfront_free_bformula] in Hox, Hkx.
    + eapply Good_natural_b_literal; eassumption.
    + apply andb_true_iff in Hox. destruct Hox. eapply Good_natural_comparison; eassumption.
  - apply Forall_forall. intros x Hx. rewrite forallb_forall in Ho, Hk. auto.
Qed.

(* ------------------------------------------------------------------ head: the fresh variables N<i>, N<i>_<j> *)
Lemma variable_name_upper (c : ascii) (r : string) : is_upper c = true -> all_wordchars (chars r) = true ->
  is_variable_name (String c r) = true.
Proof.
  intros Hu Hr. unfold is_variable_name. change (chars (String c r)) with (c :: chars r).
  cbn [all_wordchars forallb word_class]. unfold all_wordchars in Hr. rewrite Hr.
  rewrite (upper_not_lower c Hu), Hu. unfold is_wordchar. rewrite Hu, orb_true_r. reflexivity.
Qed.
Lemma digits_wordchars k : all_wordchars (chars (nat_str k)) = true.
Proof.
  pose proof (nat_str_digits k) as D. apply forallb_forall. intros x Hx.
  apply digit_wordchar. rewrite forallb_forall in D. apply D, Hx.
Qed.
Lemma all_wordchars_app a b : all_wordchars (chars (a ++ b)%string) = all_wordchars (chars a) && all_wordchars (chars b).
Proof. rewrite chars_app. apply forallb_app. Qed.

Lemma fresh_var_at_wf taken i v : fresh_var_at taken i = Some v -> is_variable_name v = true.
Proof.
  unfold fresh_var_at. destruct (negb (memb string_dec _ taken)).
  - intros [= <-]. cbn [String.append]. apply variable_name_upper; [reflexivity|apply digits_wordchars].
  - destruct (find_fresh_by _ _ _ _) as [[c k]|] eqn:E; cbn [option_map fst]; [|discriminate].
    intros [= <-]. apply find_fresh_by_sound in E. destruct E as (_ & -> & _).
    cbn [String.append]. apply variable_name_upper; [reflexivity|].
    rewrite !all_wordchars_app, !digits_wordchars. reflexivity.
Qed.
Lemma fresh_variables_from_wf taken : forall ts i fr,
  fresh_variables_from taken i ts = Some fr -> Forall (fun v => is_variable_name v = true) fr.
Proof.
  induction ts as [|t ts IH]; intros i fr; cbn [fresh_variables_from].
  - intros [= <-]. constructor.
  - destruct (negb (is_term_regular_of_first_kind t)).
    + destruct (fresh_var_at taken i) as [v|] eqn:Ev; [|discriminate].
      destruct (fresh_variables_from taken (S i) ts) as [fr'|] eqn:Er; cbn [option_map]; [|discriminate].
      intros [= <-]. constructor; [eapply fresh_var_at_wf, Ev|eapply IH, Er].
    + apply IH.
Qed.

Lemma natural_head_atom_terms_wf iv : forall ts fresh gs,
  forallb ok_term ts = true -> Forall (fun v => is_variable_name v = true) fresh ->
  natural_head_atom_terms ts iv fresh = NOk gs -> forallb wf_gterm gs = true.
Proof.
  induction ts as [|t ts IH]; intros fresh gs Ho Hf; cbn [natural_head_atom_terms].
  - intros [= <-]. reflexivity.
  - cbn [forallb] in Ho. apply andb_true_iff in Ho. destruct Ho as [Ht Hts].
    destruct (is_term_regular_of_first_kind t).
    + destruct (p2f t iv) as [g|] eqn:Eg; cbn [of_option nbind]; [|discriminate].
      destruct (natural_head_atom_terms ts iv fresh) as [gs'| |] eqn:Er; cbn [nbind]; try discriminate.
      intros [= <-]. cbn [forallb]. rewrite (proj1 (p2f_wf _ _ _ Ht Eg)), (IH _ _ Hts Hf Er). reflexivity.
    + destruct (is_term_regular_of_second_kind t); [|discriminate].
      destruct fresh as [|v fresh']; [discriminate|]. inversion Hf; subst.
      destruct (natural_head_atom_terms ts iv fresh') as [gs'| |] eqn:Er; cbn [nbind]; try discriminate.
      intros [= <-]. cbn [forallb wf_gterm wf_iterm]. rewrite (IH _ _ Hts H2 Er), H1. reflexivity.
Qed.

Lemma natural_head_interval_formulas_good iv : forall ts fresh fs,
  forallb ok_term ts = true -> Forall (fun v => is_variable_name v = true) fresh ->
  natural_head_interval_formulas ts iv fresh = NOk fs -> Forall Good fs.
Proof.
  induction ts as [|t ts IH]; intros fresh fs Ho Hf; cbn [natural_head_interval_formulas].
  - intros [= <-]. constructor.
  - cbn [forallb] in Ho. apply andb_true_iff in Ho. destruct Ho as [Ht Hts].
    destruct (is_term_regular_of_second_kind t) eqn:E2; [|apply IH; assumption].
    destruct (second_kind_inv _ E2) as (t1 & t2 & -> & K1 & _).
    cbn [ok_term] in Ht. apply andb_true_iff in Ht. destruct Ht as [H1 H2].
    destruct fresh as [|v fresh']; [discriminate|]. inversion Hf; subst.
    destruct (p2f t1 iv) as [t1'|] eqn:E1; cbn [unwrap nbind]; [|discriminate].
    destruct (p2f t2 iv) as [t2'|] eqn:E2'; cbn [unwrap nbind]; [|discriminate].
    destruct (natural_head_interval_formulas ts iv fresh') as [fs'| |] eqn:Er; cbn [nbind]; try discriminate.
    intros [= <-]. destruct (p2f_wf _ _ _ H1 E1) as [W1 L1]. destruct (p2f_wf _ _ _ H2 E2') as [W2 _].
    constructor; [|eapply IH; eassumption].
    apply Good_cmp_lead; [rewrite L1; exact K1|exact W1|discriminate|].
    constructor; [exact H3|constructor; [exact W2|constructor]].
Qed.

Lemma int_binders_wf fresh : Forall (fun v => is_variable_name v = true) fresh ->
  Forall (fun v => wf_var v = true) (int_binders fresh).
Proof.
  intros H. unfold int_binders. apply Forall_forall. intros v Hv. apply in_map_iff in Hv.
  destruct Hv as (x & <- & Hx). rewrite Forall_forall in H. exact (H x Hx).
Qed.

(* both heads: [wrap] is the identity (basic) or  A or not A  (choice) *)
Lemma Good_natural_head_gen (wrap : formula -> formula) a iv f :
  (forall g, Good g -> Good (wrap g)) ->
  ok_atom a = true -> kwfree_atom a = true ->
  nbind (unwrap (fresh_variables_for_head_atom a))
    (fun fresh_vars =>
       nbind (natural_head_atom a iv fresh_vars)
         (fun head_atom =>
            let conclusion := wrap head_atom in
            match fresh_vars with
            | [] => NOk conclusion
            | _ => nbind (natural_head_interval a iv fresh_vars)
                     (fun conditions => NOk (FQ QForall (int_binders fresh_vars) (FBin CImp conditions conclusion)))
            end)) = NOk f -> Good f.
Proof.
  intros Hw Ha Ka. unfold ok_atom in Ha. apply andb_true_iff in Ha. destruct Ha as [Wp Wts].
  unfold kwfree_atom in Ka. apply negb_true_iff in Ka.
  destruct (fresh_variables_for_head_atom a) as [fresh|] eqn:Ef; cbn [unwrap nbind]; [|discriminate].
  pose proof (fresh_variables_from_wf _ _ _ _ Ef) as Hf.
  unfold natural_head_atom.
  destruct (natural_head_atom_terms (aterms a) iv fresh) as [gs| |] eqn:Et; cbn [nbind]; try discriminate.
  pose proof (Good_pred_atom _ gs Wp Ka (natural_head_atom_terms_wf _ _ _ _ Wts Hf Et)) as Gh.
  destruct fresh as [|v fresh']; [intros [= <-]; apply Hw, Gh|].
  unfold natural_head_interval.
  destruct (natural_head_interval_formulas (aterms a) iv (v :: fresh')) as [fs| |] eqn:Ei; cbn [nbind]; try discriminate.
  intros [= <-]. apply Good_quant; [discriminate|exact (int_binders_wf _ Hf)|].
  apply Good_imp; [|apply Hw, Gh]. apply Good_conjoin.
  eapply natural_head_interval_formulas_good; eassumption.
Qed.

Lemma Good_natural_head h iv f : ok_head h = true -> kwfree_head h = true ->
  natural_head h iv = NOk f -> Good f.
Proof.
  destruct h as [a|a|]; cbn [ok_head kwfree_head natural_head]; intros Ho Hk.
  - unfold natural_basic_head. apply (Good_natural_head_gen (fun g => g)); auto.
  - unfold natural_choice_head. apply (Good_natural_head_gen (fun g => FBin COr g (FNot g))); auto.
    intros g Hg. apply Good_bin; [discriminate|exact Hg|apply Good_not, Hg].
  - intros [= <-]. apply Good_false.
Qed.

(* ------------------------------------------------------------------ rules, programs *)
Lemma Good_natural_rule r f : ok_rule r = true -> kwfront_free_rule r = true ->
  natural_rule r = NOk f -> Good f.
Proof.
  unfold ok_rule, kwfront_free_rule, natural_rule. intros Ho Hk.
  apply andb_true_iff in Ho, Hk. destruct Ho as [Hoh Hob], Hk as [Hkh Hkb].
  destruct (natural_head (rhead r) (int_variables r)) as [h| |] eqn:Eh; cbn [nbind]; try discriminate.
  destruct (natural_body (rbody r) (int_variables r)) as [b|] eqn:Eb; cbn [of_option nbind]; [|discriminate].
  intros [= <-]. apply Good_universal_closure. apply Good_imp.
  - eapply Good_natural_body; eassumption.
  - eapply Good_natural_head; eassumption.
Qed.

Theorem natural_output_good P : forall G,
  fol_names_ok P = true -> no_keyword_front P = true -> natural P = NOk G -> Forall Good G.
Proof.
  unfold fol_names_ok, no_keyword_front.
  induction P as [|r P IH]; intros G Ho Hk; cbn [natural].
  - intros [= <-]. constructor.
  - cbn [forallb] in Ho, Hk. apply andb_true_iff in Ho, Hk. destruct Ho as [Ho1 Ho2], Hk as [Hk1 Hk2].
    destruct (natural_rule r) as [f| |] eqn:Er; cbn [nbind]; try discriminate.
    destruct (natural P) as [fs| |] eqn:EP; cbn [nbind]; try discriminate.
    intros [= <-]. constructor; [eapply Good_natural_rule; eassumption|apply IH; auto].
Qed.

Theorem natural_output_reparses P G :
  fol_names_ok P = true -> no_keyword_front P = true -> natural P = NOk G ->
  wf_theory G = true /\ known_class_theory G = None /\ parse_theory_str (show_theory G) = PR_ok G.
Proof.
  intros Ho Hk E. destruct (Forall_Good_theory G (natural_output_good P G Ho Hk E)) as [W K].
  split; [exact W|]. split; [exact K|]. apply text_theory; assumption.
Qed.

(* ------------------------------------------------------------------ mu *)
Lemma kwfront_free_kwfree r : kwfront_free_rule r = true -> kwfree_rule r = true.
Proof.
  unfold kwfront_free_rule, kwfree_rule. intros H. apply andb_true_iff in H. destruct H as [Hh Hb].
  rewrite Hh. cbn [andb]. apply forallb_forall. intros b Hin. rewrite forallb_forall in Hb.
  specialize (Hb b Hin). destruct b; [exact Hb|reflexivity].
Qed.

Lemma mu_rules_good globals : globals_ok globals -> forall P G,
  forallb ok_rule P = true -> forallb kwfront_free_rule P = true ->
  CliMu.mu_rules P globals = NOk G -> Forall Good G.
Proof.
  intros Hg. induction P as [|r P IH]; intros G Ho Hk; cbn [CliMu.mu_rules].
  - intros [= <-]. constructor.
  - cbn [forallb] in Ho, Hk. apply andb_true_iff in Ho, Hk. destruct Ho as [Ho1 Ho2], Hk as [Hk1 Hk2].
    destruct (natural_rule r) as [f| |] eqn:Er; try discriminate.
    + destruct (CliMu.mu_rules P globals) as [fs| |] eqn:EP; cbn [nbind]; try discriminate.
      intros [= <-]. constructor; [eapply Good_natural_rule; eassumption|apply IH; auto].
    + destruct (tau_star_rule r globals) as [f|] eqn:Et; [|discriminate].
      destruct (CliMu.mu_rules P globals) as [fs| |] eqn:EP; cbn [nbind]; try discriminate.
      intros [= <-]. constructor; [|apply IH; auto].
      eapply Good_rule; [exact Ho1|apply kwfront_free_kwfree, Hk1|exact Hg|exact Et].
Qed.

Theorem mu_output_good P G :
  fol_names_ok P = true -> no_keyword_front P = true -> CliMu.mu P = NOk G -> Forall Good G.
Proof.
  unfold CliMu.mu, fol_names_ok, no_keyword_front. intros Ho Hk.
  destruct (choose_fresh_global_variables P) as [globals|] eqn:Eg; [|discriminate].
  apply mu_rules_good; [|exact Ho|exact Hk].
  unfold choose_fresh_global_variables in Eg. eapply globals_loop_ok, Eg.
Qed.

Theorem mu_output_reparses P G :
  fol_names_ok P = true -> no_keyword_front P = true -> CliMu.mu P = NOk G ->
  wf_theory G = true /\ known_class_theory G = None /\ parse_theory_str (show_theory G) = PR_ok G.
Proof.
  intros Ho Hk E. destruct (Forall_Good_theory G (mu_output_good P G Ho Hk E)) as [W K].
  split; [exact W|]. split; [exact K|]. apply text_theory; assumption.
Qed.

(* ------------------------------------------------------------------ the premise is exact for natural *)
Lemma kwi_atom p ts : kwi_atomic (AAtom p ts) = kw_prefixed p.
Proof. unfold kwi_atomic. cbn [print_atomic]. unfold print_atom. destruct ts; reflexivity. Qed.

Lemma kwi_fold_and xs : forall acc,
  keyword_ident (fold_left (fun acc e => FBin CAnd acc e) xs acc) = keyword_ident acc || existsb keyword_ident xs.
Proof.
  induction xs as [|x xs IH]; intros acc; cbn [fold_left existsb].
  - rewrite orb_false_r. reflexivity.
  - rewrite IH. cbn [keyword_ident]. rewrite orb_assoc. reflexivity.
Qed.
Lemma kwi_conjoin l : keyword_ident (conjoin l) = existsb keyword_ident l.
Proof. unfold conjoin, reduce_bin. destruct l as [|x xs]; [reflexivity|]. rewrite kwi_fold_and. reflexivity. Qed.
Lemma kwi_quantify q vs f : keyword_ident (quantify f q vs) = keyword_ident f.
Proof. destruct vs; reflexivity. Qed.
Lemma kwi_universal_closure f : keyword_ident (universal_closure f) = keyword_ident f.
Proof. apply kwi_quantify. Qed.

Lemma collect_options_in {A B} (f : A -> option B) : forall l ys a,
  collect_options f l = Some ys -> In a l -> exists b, f a = Some b /\ In b ys.
Proof.
  induction l as [|x l IH]; intros ys a E Ha; [destruct Ha|]. cbn [collect_options] in E.
  destruct (f x) as [y|] eqn:Ey; [|discriminate].
  destruct (collect_options f l) as [ys'|] eqn:El; [|discriminate]. injection E as <-.
  destruct Ha as [<-|Ha]; [exists y; split; [exact Ey|left; reflexivity]|].
  destruct (IH ys' a eq_refl Ha) as (b & Hb & Hin). exists b. split; [exact Hb|right; exact Hin].
Qed.

Lemma natural_comparison_kw c iv f : kwfree_cmp c = false -> natural_comparison c iv = Some f ->
  keyword_ident f = true.
Proof.
  unfold kwfree_cmp. intros Hk. apply orb_false_iff in Hk. destruct Hk as [Hs Hi].
  apply negb_false_iff in Hs. unfold natural_comparison.
  destruct (clhs c) as [[|z|s|]|x|o a|o l r]; cbn [kw_symbol] in Hs; try discriminate.
  unfold p2f at 1. cbn [is_term_regular_of_first_kind negb].
  assert (Ei : (match arel_to_rel (crel c) with REq => true | _ => false end)
               && is_term_regular_of_second_kind (crhs c) = is_interval_membership c)
    by (unfold is_interval_membership; destruct (crel c); reflexivity).
  rewrite Ei, Hi. destruct (p2f (crhs c) iv) as [rhs|]; [|discriminate]. intros [= <-].
  cbn [keyword_ident]. unfold kwi_atomic. cbn [print_atomic print_gterm print_sterm app lead_ident]. exact Hs.
Qed.

Lemma natural_b_literal_kw l iv f : kwfree_atom (latom l) = false -> natural_b_literal l iv = Some f ->
  keyword_ident f = true.
Proof.
  unfold kwfree_atom. intros Hk. apply negb_false_iff in Hk. unfold natural_b_literal, natural_b_atom.
  destruct (collect_options _ (aterms (latom l))) as [ts|]; [|discriminate]. intros [= <-].
  destruct (lsign l); cbn [keyword_ident]; rewrite kwi_atom; exact Hk.
Qed.

Lemma natural_body_kw b iv f : forallb kwfront_free_bformula b = false -> natural_body b iv = Some f ->
  keyword_ident f = true.
Proof.
  intros Hk. unfold natural_body. destruct (collect_options _ b) as [fs|] eqn:E; [|discriminate].
  intros [= <-]. rewrite kwi_conjoin. apply existsb_exists.
  assert (Hx : exists x, In x b /\ kwfront_free_bformula x = false).
  { clear E. induction b as [|x b IH]; [discriminate|]. cbn [forallb] in Hk.
    apply andb_false_iff in Hk. destruct Hk as [Hk|Hk].
    - exists x. split; [left; reflexivity|exact Hk].
    - destruct (IH Hk) as (y & Hy & Hky). exists y. split; [right; exact Hy|exact Hky]. }
  destruct Hx as (x & Hx & Hkx). destruct (collect_options_in _ _ _ _ E Hx) as (g & Hg & Hin).
  exists g. split; [exact Hin|]. destruct x as [l|c]; cbn [kwfront_free_bformula] in Hkx.
  - eapply natural_b_literal_kw; eassumption.
  - eapply natural_comparison_kw; eassumption.
Qed.

Lemma natural_head_gen_kw (wrap : formula -> formula) a iv f :
  (forall g, keyword_ident g = true -> keyword_ident (wrap g) = true) ->
  kwfree_atom a = false ->
  nbind (unwrap (fresh_variables_for_head_atom a))
    (fun fresh_vars =>
       nbind (natural_head_atom a iv fresh_vars)
         (fun head_atom =>
            let conclusion := wrap head_atom in
            match fresh_vars with
            | [] => NOk conclusion
            | _ => nbind (natural_head_interval a iv fresh_vars)
                     (fun conditions => NOk (FQ QForall (int_binders fresh_vars) (FBin CImp conditions conclusion)))
            end)) = NOk f -> keyword_ident f = true.
Proof.
  intros Hw Ka. unfold kwfree_atom in Ka. apply negb_false_iff in Ka.
  destruct (fresh_variables_for_head_atom a) as [fresh|]; cbn [unwrap nbind]; [|discriminate].
  unfold natural_head_atom.
  destruct (natural_head_atom_terms (aterms a) iv fresh) as [gs| |]; cbn [nbind]; try discriminate.
  assert (Kh : keyword_ident (wrap (FAtomic (AAtom (apred a) gs))) = true)
    by (apply Hw; cbn [keyword_ident]; rewrite kwi_atom; exact Ka).
  destruct fresh as [|v fresh']; [intros [= <-]; exact Kh|].
  destruct (natural_head_interval a iv (v :: fresh')) as [cnd| |]; cbn [nbind]; try discriminate.
  intros [= <-]. cbn [keyword_ident]. rewrite Kh. apply orb_true_r.
Qed.

Lemma natural_head_kw h iv f : kwfree_head h = false -> natural_head h iv = NOk f -> keyword_ident f = true.
Proof.
  destruct h as [a|a|]; cbn [kwfree_head natural_head]; intros Hk; [| |discriminate].
  - unfold natural_basic_head. apply (natural_head_gen_kw (fun g => g)); auto.
  - unfold natural_choice_head. apply (natural_head_gen_kw (fun g => FBin COr g (FNot g))); auto.
    intros g Hg. cbn [keyword_ident]. rewrite Hg. reflexivity.
Qed.

Lemma natural_rule_kw r f : kwfront_free_rule r = false -> natural_rule r = NOk f -> keyword_ident f = true.
Proof.
  unfold kwfront_free_rule, natural_rule. intros Hk.
  destruct (natural_head (rhead r) (int_variables r)) as [h| |] eqn:Eh; cbn [nbind]; try discriminate.
  destruct (natural_body (rbody r) (int_variables r)) as [b|] eqn:Eb; cbn [of_option nbind]; [|discriminate].
  intros [= <-]. rewrite kwi_universal_closure. cbn [keyword_ident].
  apply andb_false_iff in Hk. destruct Hk as [Hk|Hk].
  - rewrite (natural_head_kw _ _ _ Hk Eh). apply orb_true_r.
  - rewrite (natural_body_kw _ _ _ Hk Eb). reflexivity.
Qed.

Theorem natural_output_F7b P : forall G, natural P = NOk G -> no_keyword_front P = false ->
  exists f, In f G /\ keyword_ident f = true.
Proof.
  unfold no_keyword_front. induction P as [|r P IH]; intros G E Hk; [discriminate|].
  cbn [natural] in E. cbn [forallb] in Hk.
  destruct (natural_rule r) as [f| |] eqn:Er; cbn [nbind] in E; try discriminate.
  destruct (natural P) as [fs| |] eqn:EP; cbn [nbind] in E; try discriminate. injection E as <-.
  apply andb_false_iff in Hk. destruct Hk as [Hk|Hk].
  - exists f. split; [left; reflexivity|eapply natural_rule_kw; eassumption].
  - destruct (IH fs eq_refl Hk) as (g & Hg & Kg). exists g. split; [right; exact Hg|exact Kg].
Qed.

Lemma known_class_theory_in (G : theory) f : In f G -> keyword_ident f = true -> known_class_theory G <> None.
Proof.
  unfold known_class_theory. induction G as [|g G IH]; intros Hin K; [destruct Hin|].
  cbn [first_some]. destruct (known_class g) eqn:Kg; [discriminate|].
  destruct Hin as [->|Hin]; [|apply IH; assumption].
  unfold known_class in Kg. rewrite K in Kg. discriminate.
Qed.

(* outside the premise the output IS in class F7b: the premise of [natural_output_reparses] is exact *)
Theorem natural_output_F7b_iff P G : fol_names_ok P = true -> natural P = NOk G ->
  (known_class_theory G = None <-> no_keyword_front P = true).
Proof.
  intros Ho E. split.
  - intros K. destruct (no_keyword_front P) eqn:Hk; [reflexivity|]. exfalso.
    destruct (natural_output_F7b P G E Hk) as (f & Hf & Kf). exact (known_class_theory_in G f Hf Kf K).
  - intros Hk. exact (proj1 (proj2 (natural_output_reparses P G Ho Hk E))).
Qed.
