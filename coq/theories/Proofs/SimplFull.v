(* The portfolio `simplify --portfolio classic` of the CLI (and of `verify`) is
   INTUITIONISTIC ++ HT ++ CLASSIC: every member preserves classical meaning and free variables. *)
From Coq Require Import List String ZArith.
Import ListNotations.
From Anthem Require Import Syntax.Fol Sem.Domain Sem.Sat Model.Apply Model.SimplIntuit Model.SimplClassic
  Model.StrategyCls Proofs.SimplIntuitOk Proofs.SimplClassicClosed Proofs.StrategyClsOk.
From Anthem Require Properties.C07 Properties.C07cls.

Definition FULL_CLASSIC : list (formula -> formula) := INTUITIONISTIC ++ HT ++ CLASSIC.

Lemma full_classic_preserves r : In r FULL_CLASSIC -> C07cls.preserves r.
Proof.
  unfold FULL_CLASSIC. rewrite !in_app_iff. intros [Hi|[Hh|Hc]].
  - intros F. destruct (C07.C07_int_rule r Hi F) as [_ [Hc Hf]]. split; [exact Hc|exact Hf].
  - destruct Hh.
  - apply C07cls.C07_cls; exact Hc.
Qed.

Theorem full_classic_strategies fuel s F G :
  run_strategy fuel FULL_CLASSIC s F = Some G ->
  (forall FI I e, csat FI I e G <-> csat FI I e F) /\ incl (free_variables G) (free_variables F).
Proof. apply C07cls.C07_cls_strategy_generic. exact full_classic_preserves. Qed.
